/-
  GoMC.Lemmas.Region — lemmas about the region-file model (C14, C15): file reads/writes, header words,
  tables, occupancy, `findSpace`, the stored-chunk predicate and the frame of a set of writes.
-/
import GoMC.Model.Region
import GoMC.Spec.Anvil
namespace GoMC.Model.Region
open GoMC
set_option linter.unusedSimpArgs false
set_option linter.unusedVariables false

/-! ### file content -/

@[simp] theorem size_zeros (n : Nat) : (zeros n).size = n := by
  simp [zeros, ByteArray.size]

theorem get_zeros (n i : Nat) : get (zeros n) i = 0 := by
  unfold get
  split
  · rename_i h
    simp [zeros, ByteArray.getElem_eq_getElem_data]
  · rfl

theorem size_put (f : ByteArray) (off : Nat) (bs : ByteArray) :
    (put f off bs).size = if bs.size = 0 then f.size else max f.size (off + bs.size) := by
  unfold put
  split
  · rfl
  · simp only [ByteArray.size_append, ByteArray.size_extract, size_zeros]
    omega

theorem size_put_ge (f : ByteArray) (off : Nat) (bs : ByteArray) : f.size ≤ (put f off bs).size := by
  rw [size_put]; split <;> omega

theorem get_of_lt {f : ByteArray} {i : Nat} (h : i < f.size) : get f i = f[i] := by
  simp [get, h]

theorem get_of_ge {f : ByteArray} {i : Nat} (h : f.size ≤ i) : get f i = 0 := by
  have : ¬ i < f.size := by omega
  simp [get, this]

theorem get_append (a b : ByteArray) (i : Nat) :
    get (a ++ b) i = if i < a.size then get a i else get b (i - a.size) := by
  have hs : (a ++ b).size = a.size + b.size := ByteArray.size_append
  by_cases h1 : i < a.size
  · rw [if_pos h1, get_of_lt (by omega), get_of_lt h1]
    exact ByteArray.getElem_append_left h1
  · rw [if_neg h1]
    by_cases h2 : i < (a ++ b).size
    · rw [get_of_lt h2, get_of_lt (by omega)]
      exact ByteArray.getElem_append_right (Nat.le_of_not_lt h1)
    · rw [get_of_ge (by omega), get_of_ge (by omega)]

theorem get_extract (f : ByteArray) (s e i : Nat) :
    get (f.extract s e) i = if s + i < min e f.size then get f (s + i) else 0 := by
  have hs : (f.extract s e).size = min e f.size - s := ByteArray.size_extract
  by_cases h : i < (f.extract s e).size
  · rw [if_pos (by omega), get_of_lt h, get_of_lt (by omega)]
    exact ByteArray.getElem_extract h
  · rw [if_neg (by omega), get_of_ge (by omega)]

theorem get_put (f : ByteArray) (off : Nat) (bs : ByteArray) (i : Nat) :
    get (put f off bs) i = if off ≤ i ∧ i < off + bs.size then get bs (i - off) else get f i := by
  unfold put
  split
  · rename_i h0
    rw [if_neg (by omega)]
  · rename_i h0
    simp only [get_append, ByteArray.size_append, ByteArray.size_extract, size_zeros, get_extract, get_zeros,
      Nat.sub_zero, Nat.zero_add, Nat.min_self]
    by_cases h1 : off ≤ i ∧ i < off + bs.size
    · rw [if_pos h1, if_pos (by omega), if_neg (by omega)]
      congr 1; omega
    · rw [if_neg h1]
      by_cases h2 : i < off
      · rw [if_pos (by omega), if_pos (by omega)]
        by_cases h3 : i < f.size
        · rw [if_pos (by omega), if_pos (by omega)]
        · rw [if_neg (by omega), get_of_ge (by omega)]
      · rw [if_neg (by omega)]
        by_cases h3 : i < f.size
        · rw [if_pos (by omega)]
          congr 1; omega
        · rw [if_neg (by omega), get_of_ge (by omega)]

/-! ### 32-bit words -/

@[simp] theorem size_be32bytes (v : BitVec 32) : (be32bytes v).size = 4 := by
  simp [be32bytes, ByteArray.size]

theorem be32_congr {f f' : ByteArray} {off off' : Nat}
    (h : ∀ j, j < 4 → get f' (off' + j) = get f (off + j)) : be32 f' off' = be32 f off := by
  unfold be32
  have h0 := h 0 (by omega)
  rw [Nat.add_zero, Nat.add_zero] at h0
  rw [h0, h 1 (by omega), h 2 (by omega), h 3 (by omega)]

theorem be32_of_bytes (f : ByteArray) (off : Nat) (v : BitVec 32)
    (h : ∀ j, j < 4 → get f (off + j) = get (be32bytes v) j) : be32 f off = v := by
  unfold be32
  have h0 := h 0 (by omega)
  rw [Nat.add_zero] at h0
  rw [h0, h 1 (by omega), h 2 (by omega), h 3 (by omega)]
  have g0 : get (be32bytes v) 0 = (v.toNat / 16777216 % 256).toUInt8 := by
    rw [get_of_lt (by simp)]; simp [be32bytes, ByteArray.getElem_eq_getElem_data]
  have g1 : get (be32bytes v) 1 = (v.toNat / 65536 % 256).toUInt8 := by
    rw [get_of_lt (by simp)]; simp [be32bytes, ByteArray.getElem_eq_getElem_data]
  have g2 : get (be32bytes v) 2 = (v.toNat / 256 % 256).toUInt8 := by
    rw [get_of_lt (by simp)]; simp [be32bytes, ByteArray.getElem_eq_getElem_data]
  have g3 : get (be32bytes v) 3 = (v.toNat % 256).toUInt8 := by
    rw [get_of_lt (by simp)]; simp [be32bytes, ByteArray.getElem_eq_getElem_data]
  rw [g0, g1, g2, g3]
  apply BitVec.eq_of_toNat_eq
  have t : ∀ x : Nat, (x % 256).toUInt8.toNat = x % 256 := by intro x; simp
  rw [BitVec.toNat_ofNat, t, t, t, t]
  have := v.isLt
  omega

theorem be32_put_same (f : ByteArray) (off : Nat) (v : BitVec 32) :
    be32 (put f off (be32bytes v)) off = v := by
  apply be32_of_bytes
  intro j hj
  rw [get_put, if_pos (by simp; omega)]
  congr 1; omega

theorem be32_put_other (f : ByteArray) (off : Nat) (bs : ByteArray) (off' : Nat)
    (h : off' + 4 ≤ off ∨ off + bs.size ≤ off') : be32 (put f off bs) off' = be32 f off' := by
  apply be32_congr
  intro j hj
  rw [get_put, if_neg (by omega)]

/-! ### header words -/

theorem toNat_packLoc (n need : Nat) (h : n < 2^24) (h2 : need < 256) :
    (packLoc n need).toNat = n * 256 + need := by
  unfold packLoc
  have e : (BitVec.ofNat 32 need &&& 255#32) = BitVec.ofNat 32 need := by
    apply BitVec.eq_of_toNat_eq
    simp only [BitVec.toNat_and, BitVec.toNat_ofNat]
    have : need % 2^32 = need := Nat.mod_eq_of_lt (by omega)
    rw [this]
    show need &&& (2^8 - 1) = need
    rw [Nat.and_two_pow_sub_one_eq_mod]; omega
  rw [e]
  simp only [BitVec.toNat_or, BitVec.toNat_shiftLeft, BitVec.toNat_ofNat]
  have h1 : n % 2^32 = n := Nat.mod_eq_of_lt (by omega)
  have h3 : need % 2^32 = need := Nat.mod_eq_of_lt (by omega)
  rw [h1, h3, Nat.shiftLeft_eq]
  have : n * 2^8 % 2^32 = n * 2^8 := Nat.mod_eq_of_lt (by omega)
  rw [this]
  have := Nat.shiftLeft_add_eq_or_of_lt (a := n) (i := 8) (b := need) (by omega)
  rw [Nat.shiftLeft_eq] at this
  omega

theorem sectorLoc_packLoc (n need : Nat) (h : n < 2^24) (h2 : need < 256) :
    sectorLoc (packLoc n need) = (n, need) := by
  unfold sectorLoc
  rw [toNat_packLoc n need h h2]
  congr 1 <;> omega

theorem sectorLoc_zero : sectorLoc 0#32 = (0, 0) := by decide

/-! ### tables -/

theorem Tbl.get_set (t : Tbl) (k j : Nat) (v : BitVec 32) :
    (t.set k v).get j = if j = k ∧ k < t.size then v else t.get j := by
  unfold Tbl.get Tbl.set
  rw [Array.getD_eq_getD_getElem?, Array.getD_eq_getD_getElem?, Array.getElem?_setIfInBounds]
  by_cases h : k = j
  · subst h
    by_cases h2 : k < t.size
    · simp [h2]
    · simp [h2]
  · have : ¬ (j = k ∧ k < t.size) := by omega
    simp [h, this]

@[simp] theorem Tbl.size_set (t : Tbl) (k : Nat) (v : BitVec 32) : (t.set k v).size = t.size := by
  simp [Tbl.set]

theorem Tbl.get_zero (k : Nat) : Tbl.zero.get k = 0#32 := by
  unfold Tbl.get Tbl.zero
  rw [Array.getD_eq_getD_getElem?, Array.getElem?_replicate]
  split <;> rfl

@[simp] theorem Tbl.size_zero : Tbl.zero.size = 1024 := by simp [Tbl.zero]

theorem Tbl.get_ofFile (f : ByteArray) (base k : Nat) (h : k < 1024) :
    (Tbl.ofFile f base).get k = be32 f (base + 4 * k) := by
  unfold Tbl.get Tbl.ofFile
  rw [Array.getD_eq_getD_getElem?, Array.getElem?_ofFn]
  simp [h]

@[simp] theorem Tbl.size_ofFile (f : ByteArray) (base : Nat) : (Tbl.ofFile f base).size = 1024 := by
  simp [Tbl.ofFile]

/-! ### occupancy -/

theorem Occ.get_insert (m : Occ) (k s : Nat) (v : Bool) :
    Occ.get (m.insert k v) s = if s = k then v else Occ.get m s := by
  unfold Occ.get
  rw [Std.HashMap.getD_insert]
  by_cases h : k = s
  · simp [h]
  · have : ¬ s = k := fun e => h e.symm
    simp [h, this]

theorem Occ.get_empty (s : Nat) : Occ.get (∅ : Occ) s = false := by
  unfold Occ.get; exact Std.HashMap.getD_empty

theorem Occ.get_setRange (m : Occ) (n c : Nat) (v : Bool) (s : Nat) :
    Occ.get (m.setRange n c v) s = if n ≤ s ∧ s < n + c then v else Occ.get m s := by
  induction c generalizing m n with
  | zero => unfold Occ.setRange; rw [if_neg (by omega)]
  | succ c ih =>
    unfold Occ.setRange
    rw [ih, Occ.get_insert]
    by_cases h1 : n + 1 ≤ s ∧ s < n + 1 + c
    · rw [if_pos h1, if_pos (by omega)]
    · rw [if_neg h1]
      by_cases h2 : s = n
      · rw [if_pos h2, if_pos (by omega)]
      · rw [if_neg h2, if_neg (by omega)]

/-! ### findSpace: the returned run is free; termination within the fuel -/

theorem findSpaceAux_spec (occ : Occ) (need hi : Nat) (hhi : ∀ s, occ.get s = true → s < hi) :
    ∀ fuel n i, (hi + 1 - min n (hi + 1)) * (need + 1) + (need - i) < fuel → i ≤ need →
      (∀ j, j < i → occ.get (n + j) = false) →
      let r := findSpaceAux occ need fuel n i
      n ≤ r ∧ r ≤ max n hi ∧ ∀ j, j < need → occ.get (r + j) = false := by
  intro fuel
  induction fuel with
  | zero => intro n i h; omega
  | succ fuel ih =>
    intro n i hf hi' hfree
    unfold findSpaceAux
    by_cases h1 : i < need
    · rw [if_pos h1]
      by_cases h2 : occ.get (n + i) = true
      · rw [if_pos h2]
        have hb := hhi _ h2
        have e1 : min n (hi + 1) = n := by omega
        have e2 : min (n + i + 1) (hi + 1) = n + i + 1 := by omega
        have key : (hi + 1 - (n + i + 1)) * (need + 1) + need + i < (hi + 1 - n) * (need + 1) := by
          have : hi + 1 - n = (hi + 1 - (n + i + 1)) + (i + 1) := by omega
          rw [this, Nat.add_mul]
          have : (i + 1) * (need + 1) = i * need + i + need + 1 := by
            rw [Nat.add_mul, Nat.mul_add]; omega
          omega
        have := ih (n + i + 1) 0 (by rw [e2]; rw [e1] at hf; omega) (by omega) (by intro j hj; omega)
        obtain ⟨a, b, c⟩ := this
        refine ⟨by omega, by omega, c⟩
      · rw [if_neg h2]
        have h2' : occ.get (n + i) = false := by
          cases h : occ.get (n + i) <;> simp_all
        have := ih n (i + 1) (by omega) (by omega) (by
          intro j hj
          by_cases e : j = i
          · subst e; exact h2'
          · exact hfree j (by omega))
        exact this
    · rw [if_neg h1]
      have : i = need := by omega
      subst this
      exact ⟨by omega, by omega, hfree⟩

theorem findSpace_spec (occ : Occ) (need hi : Nat) (hhi : ∀ s, occ.get s = true → s < hi) :
    findSpace occ hi need ≤ hi ∧ ∀ j, j < need → occ.get (findSpace occ hi need + j) = false := by
  have := findSpaceAux_spec occ need hi hhi (findSpaceFuel hi need) 0 0 (by
    unfold findSpaceFuel
    have : min 0 (hi + 1) = 0 := by omega
    rw [this, Nat.sub_zero, Nat.sub_zero]
    have : (hi + 2) * (need + 1) = (hi + 1) * (need + 1) + (need + 1) := by
      rw [show hi + 2 = (hi + 1) + 1 from rfl, Nat.add_mul]; omega
    omega) (by omega) (by intro j hj; omega)
  obtain ⟨_, b, c⟩ := this
  exact ⟨by unfold findSpace; omega, c⟩

/-! ### stored chunks, frames, the invariant -/

theorem needOf_pos (len : Nat) : 1 ≤ needOf len := by unfold needOf; omega
theorem needOf_fits (len : Nat) : len + 4 ≤ 4096 * needOf len := by unfold needOf; omega
theorem needOf_lt (len : Nat) (h : needOf len < 256) : len ≤ 1044476 := by unfold needOf at h; omega

/-- sector `s` lies in the run named by header word `o` -/
def InRun (o : BitVec 32) (s : Nat) : Prop :=
  (sectorLoc o).1 ≤ s ∧ s < (sectorLoc o).1 + (sectorLoc o).2

/-- header word `o` names a run in `f` that holds exactly `d` -/
structure Stored (f : ByteArray) (o : BitVec 32) (d : ByteArray) : Prop where
  sec_ge : 2 ≤ (sectorLoc o).1
  num_eq : (sectorLoc o).2 = needOf d.size
  len : be32 f (4096 * (sectorLoc o).1) = BitVec.ofNat 32 d.size
  data : ∀ i, i < d.size → get f (4096 * (sectorLoc o).1 + 4 + i) = get d i
  fits : 4096 * (sectorLoc o).1 + 4 + d.size ≤ f.size

theorem sectorLoc_snd_lt (o : BitVec 32) : (sectorLoc o).2 < 256 := by
  unfold sectorLoc; simp only; omega

theorem Stored.size_le {f o d} (h : Stored f o d) : d.size ≤ 1044476 :=
  needOf_lt _ (by rw [← h.num_eq]; exact sectorLoc_snd_lt o)

/-- what `ReadSector` returns for a stored chunk: its bytes (`ErrNoData` for the empty payload) -/
theorem readChunk_stored {f : ByteArray} {o : BitVec 32} {d : ByteArray} (h : Stored f o d) :
    readChunk f o = if d.size = 0 then .err else .ok d := by
  have hsz := h.size_le
  have h1 := h.sec_ge
  have h2 := h.num_eq
  have h3 := needOf_fits d.size
  have h4 := h.fits
  unfold readChunk
  simp only
  rw [if_neg (by omega), if_neg (by omega), h.len]
  by_cases h0 : d.size = 0
  · rw [if_pos h0, if_pos (by rw [h0])]
  · rw [if_neg h0]
    have e1 : (BitVec.ofNat 32 d.size).toNat = d.size := by
      rw [BitVec.toNat_ofNat]; exact Nat.mod_eq_of_lt (by omega)
    have e2 : (BitVec.ofNat 32 d.size).toInt = (d.size : Int) := by
      rw [BitVec.toInt_eq_toNat_cond, e1, if_pos (by omega)]
    have ne : ¬ BitVec.ofNat 32 d.size = 0#32 := by
      intro e
      have := congrArg BitVec.toNat e
      rw [e1] at this
      exact h0 (by simpa using this)
    rw [if_neg ne, e2, if_neg (by omega), if_neg (by omega), e1, if_neg (by omega)]
    congr 1
    apply ByteArray.ext_getElem
    · rw [ByteArray.size_extract]; omega
    · intro i hi hi'
      have := h.data i hi'
      rw [get_of_lt hi'] at this
      rw [← this, ← get_of_lt hi, get_extract, if_pos (by omega)]

theorem readChunk_zero (f : ByteArray) : readChunk f 0#32 = .err := by
  unfold readChunk; rw [sectorLoc_zero]; rfl

/-- `f'` is `f` except inside the byte set `P`, and not shorter -/
def Frame (f f' : ByteArray) (P : Nat → Prop) : Prop :=
  f.size ≤ f'.size ∧ ∀ i, ¬ P i → get f' i = get f i

theorem Frame.refl (f : ByteArray) (P : Nat → Prop) : Frame f f P := ⟨Nat.le_refl _, fun _ _ => rfl⟩

theorem Frame.trans {f g h : ByteArray} {P : Nat → Prop} (a : Frame f g P) (b : Frame g h P) : Frame f h P :=
  ⟨Nat.le_trans a.1 b.1, fun i hi => (b.2 i hi).trans (a.2 i hi)⟩

theorem Frame.put (f : ByteArray) (off : Nat) (bs : ByteArray) (P : Nat → Prop)
    (h : ∀ i, off ≤ i → i < off + bs.size → P i) : Frame f (put f off bs) P := by
  refine ⟨size_put_ge _ _ _, fun i hi => ?_⟩
  rw [get_put, if_neg]
  intro ⟨a, b⟩
  exact hi (h i a b)

/-- a write sequence stays inside `P` -/
def WritesIn (ws : List (Nat × ByteArray)) (P : Nat → Prop) : Prop :=
  ∀ w, w ∈ ws → ∀ i, w.1 ≤ i → i < w.1 + w.2.size → P i

theorem Frame.applyWrites (f : ByteArray) (ws : List (Nat × ByteArray)) (P : Nat → Prop)
    (h : WritesIn ws P) : Frame f (applyWrites f ws) P := by
  induction ws generalizing f with
  | nil => exact Frame.refl _ _
  | cons w ws ih =>
    show Frame f (Model.Region.applyWrites (Model.Region.put f w.1 w.2) ws) P
    exact (Frame.put f w.1 w.2 P (h w (List.mem_cons_self))).trans
      (ih _ (fun w' hw' => h w' (List.mem_cons_of_mem _ hw')))

theorem be32_frame {f f' : ByteArray} {P : Nat → Prop} (h : Frame f f' P) (off : Nat)
    (hp : ∀ j, j < 4 → ¬ P (off + j)) : be32 f' off = be32 f off :=
  be32_congr (fun j hj => h.2 _ (hp j hj))

theorem Stored.frame {f f' : ByteArray} {o : BitVec 32} {d : ByteArray} {P : Nat → Prop}
    (h : Stored f o d) (fr : Frame f f' P)
    (hp : ∀ i, 4096 * (sectorLoc o).1 ≤ i → i < 4096 * (sectorLoc o).1 + 4 + d.size → ¬ P i) :
    Stored f' o d := by
  refine ⟨h.sec_ge, h.num_eq, ?_, ?_, Nat.le_trans h.fits fr.1⟩
  · rw [be32_frame fr _ (fun j hj => hp _ (by omega) (by omega))]
    exact h.len
  · intro i hi
    rw [fr.2 _ (hp _ (by omega) (by omega))]
    exact h.data i hi

/-- The invariant of a region state `st` holding the abstract chunk map `abs` (index `k = 32*z + x`). -/
structure Inv (st : Region) (abs : Nat → Option ByteArray) : Prop where
  sizeO : st.offsets.size = 1024
  sizeT : st.timestamps.size = 1024
  fsize : 8192 ≤ st.file.size
  hdrO : ∀ k, k < 1024 → be32 st.file (4 * k) = st.offsets.get k
  hdrT : ∀ k, k < 1024 → be32 st.file (4096 + 4 * k) = st.timestamps.get k
  absent : ∀ k, k < 1024 → abs k = none → st.offsets.get k = 0#32
  stored : ∀ k, k < 1024 → ∀ d, abs k = some d → Stored st.file (st.offsets.get k) d
  disj : ∀ k k', k < 1024 → k' < 1024 → k ≠ k' → ∀ d d', abs k = some d → abs k' = some d' →
    ∀ s, InRun (st.offsets.get k) s → ¬ InRun (st.offsets.get k') s
  occ : ∀ s, st.occ.get s = true ↔ (s < 2 ∨ ∃ k, k < 1024 ∧ (∃ d, abs k = some d) ∧ InRun (st.offsets.get k) s)
  hi : ∀ s, st.occ.get s = true → s < st.hi

/-- bytes a `WriteSector` of chunk `k` into the run `[r, r+need)` may touch -/
def Foot (k r need : Nat) (i : Nat) : Prop :=
  (4 * k ≤ i ∧ i < 4 * k + 4) ∨ (4096 + 4 * k ≤ i ∧ i < 4096 + 4 * k + 4) ∨
    (4096 * r ≤ i ∧ i < 4096 * (r + need))

/-- the run is free, or part of chunk `k`'s own old run -/
def FreeOrOwn (st : Region) (k r need : Nat) : Prop :=
  ∀ s, r ≤ s → s < r + need → st.occ.get s = false ∨ InRun (st.offsets.get k) s

theorem InRun_zero (s : Nat) : ¬ InRun 0#32 s := by
  unfold InRun; rw [sectorLoc_zero]; simp only; omega

theorem Inv.inRun_ge {st abs} (inv : Inv st abs) {k s : Nat} (hk : k < 1024) (h : InRun (st.offsets.get k) s) : 2 ≤ s := by
  cases ha : abs k with
  | none => rw [inv.absent k hk ha] at h; exact absurd h (InRun_zero s)
  | some d => have := (inv.stored k hk d ha).sec_ge; unfold InRun at h; omega

/-- Everything that concerns another chunk `k'` survives any change confined to the footprint of a write to `k`. -/
theorem Inv.others {st abs} (inv : Inv st abs) {k r need : Nat} (hk : k < 1024) (hn : 1 ≤ need)
    (fo : FreeOrOwn st k r need) {img : ByteArray} (fr : Frame st.file img (Foot k r need))
    {k' : Nat} (hk' : k' < 1024) (hne : k' ≠ k) :
    be32 img (4 * k') = st.offsets.get k' ∧ be32 img (4096 + 4 * k') = st.timestamps.get k' ∧
      ∀ d', abs k' = some d' → Stored img (st.offsets.get k') d' := by
  have r2 : 2 ≤ r := by
    rcases fo r (Nat.le_refl _) (by omega) with h | h
    · apply Nat.le_of_not_lt
      intro hlt
      have := (inv.occ r).2 (Or.inl hlt)
      rw [h] at this; exact Bool.noConfusion this
    · exact inv.inRun_ge hk h
  refine ⟨?_, ?_, ?_⟩
  · rw [be32_frame fr _ (fun j hj => by unfold Foot; omega)]
    exact inv.hdrO k' hk'
  · rw [be32_frame fr _ (fun j hj => by unfold Foot; omega)]
    exact inv.hdrT k' hk'
  · intro d' hd'
    have st' := inv.stored k' hk' d' hd'
    apply st'.frame fr
    intro i hi1 hi2
    have s2 := st'.sec_ge
    have s3 := st'.num_eq
    have s4 := needOf_fits d'.size
    -- the sector of byte i belongs to k' 's run, hence is occupied and not k's
    have hin : InRun (st.offsets.get k') (i / 4096) := by unfold InRun; omega
    have hocc : st.occ.get (i / 4096) = true := (inv.occ _).2 (Or.inr ⟨k', hk', ⟨d', hd'⟩, hin⟩)
    unfold Foot
    intro hf
    rcases hf with hf | hf | hf
    · omega
    · omega
    · rcases fo (i / 4096) (by omega) (by omega) with h | h
      · rw [h] at hocc; exact Bool.noConfusion hocc
      · cases ha : abs k with
        | none => rw [inv.absent k hk ha] at h; exact InRun_zero _ h
        | some d => exact inv.disj k k' hk hk' (fun e => hne e.symm) d d' ha hd' _ h hin

/-! ### Load, the run chosen by WriteSector -/

theorem idx?_lt {x z : Int} {k : Nat} (h : idx? x z = some k) : k < 1024 := by
  unfold idx? at h
  split at h
  · injection h with h; omega
  · cases h

def loadInit : Occ := ((∅ : Occ).insert 0 true).insert 1 true

/-- the state `Load` returns for a file of at least 8192 bytes -/
def loadState (f : ByteArray) : Region :=
  { file := f, offsets := Tbl.ofFile f 0, timestamps := Tbl.ofFile f 4096,
    occ := loadOcc (Tbl.ofFile f 0) 1024 0 loadInit,
    hi := loadHi (Tbl.ofFile f 0) 1024 0 2 }

theorem load_ok {f : ByteArray} (h : 8192 ≤ f.size) : load f = .ok (loadState f) := by
  unfold load
  rw [if_neg (by omega)]
  rfl

theorem load_err {f : ByteArray} (h : f.size < 8192) : load f = .err := by
  unfold load; rw [if_pos h]

/-- the first sector of the run `WriteSector` puts the chunk into -/
def writeRun (st : Region) (k : Nat) (len : Nat) : Nat :=
  if (sectorLoc (st.offsets.get k)).1 ≠ 0 ∧ (sectorLoc (st.offsets.get k)).2 = needOf len then
    (sectorLoc (st.offsets.get k)).1
  else findSpace (st.occ.setRange (sectorLoc (st.offsets.get k)).1 (sectorLoc (st.offsets.get k)).2 false) st.hi (needOf len)

theorem Inv.freed_hi {st abs} (inv : Inv st abs) (n c : Nat) :
    ∀ s, (st.occ.setRange n c false).get s = true → s < st.hi := by
  intro s hs
  rw [Occ.get_setRange] at hs
  split at hs
  · exact Bool.noConfusion hs
  · exact inv.hi s hs

theorem Inv.writeRun_le {st abs} (inv : Inv st abs) {k : Nat} (hk : k < 1024) (len : Nat) :
    writeRun st k len ≤ st.hi := by
  unfold writeRun
  split
  · rename_i h
    cases ha : abs k with
    | none => rw [inv.absent k hk ha, sectorLoc_zero] at h; exact absurd rfl h.1
    | some d =>
      have s := inv.stored k hk d ha
      have : InRun (st.offsets.get k) (sectorLoc (st.offsets.get k)).1 := by
        unfold InRun; have := needOf_pos d.size; have := s.num_eq; omega
      have := inv.hi _ ((inv.occ _).2 (Or.inr ⟨k, hk, ⟨d, ha⟩, this⟩))
      omega
  · exact (findSpace_spec _ _ _ (inv.freed_hi _ _)).1

theorem Inv.writeRun_freeOrOwn {st abs} (inv : Inv st abs) (k : Nat) (len : Nat) :
    FreeOrOwn st k (writeRun st k len) (needOf len) := by
  intro s h1 h2
  unfold writeRun at h1 h2
  split at h1
  · rename_i h
    rw [if_pos h] at h2
    right; unfold InRun; omega
  · rename_i h
    rw [if_neg h] at h2
    have fs := (findSpace_spec (st.occ.setRange (sectorLoc (st.offsets.get k)).1 (sectorLoc (st.offsets.get k)).2 false)
      (needOf len) st.hi (inv.freed_hi _ _)).2
    generalize findSpace (st.occ.setRange (sectorLoc (st.offsets.get k)).1 (sectorLoc (st.offsets.get k)).2 false)
      st.hi (needOf len) = r at fs h1 h2
    have := fs (s - r) (by omega)
    rw [show r + (s - r) = s by omega, Occ.get_setRange] at this
    split at this
    · right; unfold InRun; omega
    · left; exact this

/-- the physical writes of `WriteSector` (code order) -/
theorem writeSector_writes (st : Region) {x z : Int} {k : Nat} (hk : idx? x z = some k) (data : ByteArray)
    (now : BitVec 32) (hn : needOf data.size < 256) :
    (writeSector st x z data now).2.2 =
      if (sectorLoc (st.offsets.get k)).1 ≠ 0 ∧ (sectorLoc (st.offsets.get k)).2 = needOf data.size then
        [(4096 * writeRun st k data.size, be32bytes (BitVec.ofNat 32 data.size)),
         (4096 * writeRun st k data.size + 4, data)]
      else
        [(4 * k, be32bytes (packLoc (writeRun st k data.size) (needOf data.size))),
         (4096 + 4 * k, be32bytes now),
         (4096 * writeRun st k data.size, be32bytes (BitVec.ofNat 32 data.size)),
         (4096 * writeRun st k data.size + 4, data)] := by
  unfold writeSector writeRun
  rw [hk]
  simp only
  rw [if_neg (by omega)]
  split <;> rfl

theorem writeSector_writesIn (st : Region) {x z : Int} {k : Nat} (hk : idx? x z = some k) (data : ByteArray)
    (now : BitVec 32) (hn : needOf data.size < 256) :
    WritesIn (writeSector st x z data now).2.2 (Foot k (writeRun st k data.size) (needOf data.size)) := by
  rw [writeSector_writes st hk data now hn]
  have h3 := needOf_fits data.size
  have h4 := needOf_pos data.size
  intro w hw i h1 h2
  unfold Foot
  split at hw
  · simp only [List.mem_cons, List.not_mem_nil, or_false] at hw
    rcases hw with rfl | rfl
    · simp only [size_be32bytes] at h1 h2; omega
    · simp only at h1 h2; omega
  · simp only [List.mem_cons, List.not_mem_nil, or_false] at hw
    rcases hw with rfl | rfl | rfl | rfl
    · simp only [size_be32bytes] at h1 h2; omega
    · simp only [size_be32bytes] at h1 h2; omega
    · simp only [size_be32bytes] at h1 h2; omega
    · simp only at h1 h2; omega

theorem writeSector_refused (st : Region) (x z : Int) {k : Nat} (hk : idx? x z = some k) (data : ByteArray)
    (now : BitVec 32) (hn : 256 ≤ needOf data.size) : writeSector st x z data now = (.err, st, []) := by
  unfold writeSector
  rw [hk]
  simp only
  rw [if_pos (by omega)]

theorem writeSector_same (st : Region) {x z : Int} {k : Nat} (hk : idx? x z = some k) (data : ByteArray)
    (now : BitVec 32) (hn : needOf data.size < 256)
    (h : (sectorLoc (st.offsets.get k)).1 ≠ 0 ∧ (sectorLoc (st.offsets.get k)).2 = needOf data.size) :
    writeSector st x z data now =
      (.ok (), { st with file := applyWrites st.file [(4096 * (sectorLoc (st.offsets.get k)).1, be32bytes (BitVec.ofNat 32 data.size)),
         (4096 * (sectorLoc (st.offsets.get k)).1 + 4, data)] },
       [(4096 * (sectorLoc (st.offsets.get k)).1, be32bytes (BitVec.ofNat 32 data.size)),
         (4096 * (sectorLoc (st.offsets.get k)).1 + 4, data)]) := by
  unfold writeSector
  rw [hk]
  simp only
  rw [if_neg (by omega), if_pos h]

theorem writeSector_realloc (st : Region) {x z : Int} {k : Nat} (hk : idx? x z = some k) (data : ByteArray)
    (now : BitVec 32) (hn : needOf data.size < 256)
    (h : ¬ ((sectorLoc (st.offsets.get k)).1 ≠ 0 ∧ (sectorLoc (st.offsets.get k)).2 = needOf data.size)) :
    writeSector st x z data now =
      (.ok (), Region.mk (applyWrites st.file [(4 * k, be32bytes (packLoc (writeRun st k data.size) (needOf data.size))),
         (4096 + 4 * k, be32bytes now),
         (4096 * writeRun st k data.size, be32bytes (BitVec.ofNat 32 data.size)),
         (4096 * writeRun st k data.size + 4, data)])
         (st.offsets.set k (packLoc (writeRun st k data.size) (needOf data.size)))
         (st.timestamps.set k now)
         ((st.occ.setRange (sectorLoc (st.offsets.get k)).1 (sectorLoc (st.offsets.get k)).2 false).setRange (writeRun st k data.size) (needOf data.size) true)
         (max st.hi (writeRun st k data.size + needOf data.size)),
       [(4 * k, be32bytes (packLoc (writeRun st k data.size) (needOf data.size))),
         (4096 + 4 * k, be32bytes now),
         (4096 * writeRun st k data.size, be32bytes (BitVec.ofNat 32 data.size)),
         (4096 * writeRun st k data.size + 4, data)]) := by
  unfold writeSector writeRun
  rw [hk]
  simp only
  rw [if_neg (by omega), if_neg h, if_neg h]

theorem Inv.r_ge_two {st abs} (inv : Inv st abs) {k r need : Nat} (hk : k < 1024) (hn : 1 ≤ need)
    (fo : FreeOrOwn st k r need) : 2 ≤ r := by
  rcases fo r (Nat.le_refl _) (by omega) with h | h
  · apply Nat.le_of_not_lt
    intro hlt
    have := (inv.occ r).2 (Or.inl hlt)
    rw [h] at this; exact Bool.noConfusion this
  · exact inv.inRun_ge hk h

/-- another chunk's run does not meet a run that is free or `k`'s own -/
theorem Inv.avoid {st abs} (inv : Inv st abs) {k r need : Nat} (hk : k < 1024) (fo : FreeOrOwn st k r need)
    {j : Nat} (hj : j < 1024) (hne : j ≠ k) {d' : ByteArray} (hd' : abs j = some d') {s : Nat}
    (hin : InRun (st.offsets.get j) s) : ¬ (r ≤ s ∧ s < r + need) := by
  intro ⟨a, b⟩
  have hocc : st.occ.get s = true := (inv.occ _).2 (Or.inr ⟨j, hj, ⟨d', hd'⟩, hin⟩)
  rcases fo s a b with h | h
  · rw [h] at hocc; exact Bool.noConfusion hocc
  · cases ha : abs k with
    | none => rw [inv.absent k hk ha] at h; exact InRun_zero _ h
    | some d => exact inv.disj k j hk hj (fun e => hne e.symm) d d' ha hd' _ h hin

/-- Installing chunk `k := data` in a run that is free or its own re-establishes the invariant. -/
theorem Inv.install {st abs} (inv : Inv st abs) {k r : Nat} (hk : k < 1024) (data : ByteArray) (o' ts' : BitVec 32)
    (hloc : sectorLoc o' = (r, needOf data.size))
    (fo : FreeOrOwn st k r (needOf data.size))
    {st' : Region}
    (fr : Frame st.file st'.file (Foot k r (needOf data.size)))
    (hsO : st'.offsets.size = 1024) (hsT : st'.timestamps.size = 1024)
    (hO : ∀ j, st'.offsets.get j = if j = k then o' else st.offsets.get j)
    (hT : ∀ j, st'.timestamps.get j = if j = k then ts' else st.timestamps.get j)
    (hho : be32 st'.file (4 * k) = o') (hht : be32 st'.file (4096 + 4 * k) = ts')
    (hlen : be32 st'.file (4096 * r) = BitVec.ofNat 32 data.size)
    (hdata : ∀ i, i < data.size → get st'.file (4096 * r + 4 + i) = get data i)
    (hfits : 4096 * r + 4 + data.size ≤ st'.file.size)
    (hocc : ∀ s, st'.occ.get s =
      if r ≤ s ∧ s < r + needOf data.size then true
      else if (sectorLoc (st.offsets.get k)).1 ≤ s ∧ s < (sectorLoc (st.offsets.get k)).1 + (sectorLoc (st.offsets.get k)).2 then false
      else st.occ.get s)
    (hhi : ∀ s, st'.occ.get s = true → s < st'.hi) :
    Inv st' (fun j => if j = k then some data else abs j) := by
  have hn1 := needOf_pos data.size
  have hr1 : (sectorLoc o').1 = r := by rw [hloc]
  have hr2 : (sectorLoc o').2 = needOf data.size := by rw [hloc]
  have inrun' : ∀ s, InRun o' s ↔ (r ≤ s ∧ s < r + needOf data.size) := by
    intro s; unfold InRun; rw [hr1, hr2]
  have r2 : 2 ≤ r := inv.r_ge_two hk hn1 fo
  have offs : ∀ j, j ≠ k → st'.offsets.get j = st.offsets.get j := fun j hj => by rw [hO j, if_neg hj]
  have offk : st'.offsets.get k = o' := by rw [hO k, if_pos rfl]
  have oth := fun j (hj : j < 1024) (hne : j ≠ k) => inv.others hk hn1 fo fr hj hne
  refine { sizeO := hsO, sizeT := hsT, fsize := Nat.le_trans inv.fsize fr.1, hdrO := ?_, hdrT := ?_, absent := ?_,
           stored := ?_, disj := ?_, occ := ?_, hi := hhi }
  · intro j hj
    by_cases e : j = k
    · subst e; rw [offk]; exact hho
    · rw [offs j e]; exact (oth j hj e).1
  · intro j hj
    by_cases e : j = k
    · subst e; rw [hT j, if_pos rfl]; exact hht
    · rw [hT j, if_neg e]; exact (oth j hj e).2.1
  · intro j hj ha
    by_cases e : j = k
    · subst e; simp at ha
    · rw [if_neg e] at ha; rw [offs j e]; exact inv.absent j hj ha
  · intro j hj d hd
    by_cases e : j = k
    · subst e
      rw [if_pos rfl] at hd
      injection hd with hd
      subst hd
      rw [offk]
      exact ⟨by omega, hr2, by rw [hr1]; exact hlen, by rw [hr1]; exact hdata, by rw [hr1]; exact hfits⟩
    · rw [if_neg e] at hd; rw [offs j e]; exact (oth j hj e).2.2 d hd
  · intro j j' hj hj' hne d d' hd hd' s h1 h2
    by_cases e : j = k
    · subst e
      have e' : j' ≠ j := fun x => hne x.symm
      rw [if_neg e'] at hd'
      rw [offk] at h1; rw [offs j' e'] at h2
      exact inv.avoid hk fo hj' e' hd' h2 ((inrun' s).1 h1)
    · by_cases e' : j' = k
      · subst e'
        rw [if_neg e] at hd
        rw [offk] at h2; rw [offs j e] at h1
        exact inv.avoid hk fo hj e hd h1 ((inrun' s).1 h2)
      · rw [if_neg e] at hd; rw [if_neg e'] at hd'
        rw [offs j e] at h1; rw [offs j' e'] at h2
        exact inv.disj j j' hj hj' hne d d' hd hd' s h1 h2
  · intro s
    rw [hocc s]
    constructor
    · intro h
      split at h
      · rename_i hin
        exact Or.inr ⟨k, hk, ⟨data, by rw [if_pos rfl]⟩, by rw [offk]; exact (inrun' s).2 hin⟩
      · rename_i hnin
        split at h
        · exact Bool.noConfusion h
        · rename_i hnown
          rcases (inv.occ s).1 h with h2 | ⟨j, hj, ⟨d, hd⟩, hin⟩
          · exact Or.inl h2
          · have e : j ≠ k := by
              intro e; subst e; exact hnown hin
            exact Or.inr ⟨j, hj, ⟨d, by rw [if_neg e]; exact hd⟩, by rw [offs j e]; exact hin⟩
    · intro h
      rcases h with h | ⟨j, hj, ⟨d, hd⟩, hin⟩
      · rw [if_neg (by omega)]
        have : ¬ ((sectorLoc (st.offsets.get k)).1 ≤ s ∧ s < (sectorLoc (st.offsets.get k)).1 + (sectorLoc (st.offsets.get k)).2) := by
          intro hown
          have := inv.inRun_ge hk (s := s) hown
          omega
        rw [if_neg this]
        exact (inv.occ s).2 (Or.inl h)
      · by_cases e : j = k
        · subst e
          rw [offk] at hin
          rw [if_pos ((inrun' s).1 hin)]
        · rw [if_neg e] at hd
          rw [offs j e] at hin
          rw [if_neg (inv.avoid hk fo hj e hd hin)]
          have : ¬ ((sectorLoc (st.offsets.get k)).1 ≤ s ∧ s < (sectorLoc (st.offsets.get k)).1 + (sectorLoc (st.offsets.get k)).2) := by
            intro hown
            cases ha : abs k with
            | none => rw [inv.absent k hk ha] at hown; exact InRun_zero _ hown
            | some dk => exact inv.disj k j hk hj (fun x => e x.symm) dk d ha hd s hown hin
          rw [if_neg this]
          exact (inv.occ s).2 (Or.inr ⟨j, hj, ⟨d, hd⟩, hin⟩)

/-! ### reading, padding, creating, reloading -/

theorem Inv.present_ne_zero {st abs} (inv : Inv st abs) {k : Nat} (hk : k < 1024) :
    st.offsets.get k ≠ 0#32 ↔ ∃ d, abs k = some d := by
  constructor
  · intro h
    cases ha : abs k with
    | none => exact absurd (inv.absent k hk ha) h
    | some d => exact ⟨d, rfl⟩
  · intro ⟨d, hd⟩ e
    have := (inv.stored k hk d hd).sec_ge
    rw [e, sectorLoc_zero] at this
    omega

/-- replacing the file by one that agrees on all old bytes (and is not shorter) keeps the invariant -/
theorem Inv.grow {st abs} (inv : Inv st abs) (f' : ByteArray)
    (fr : Frame st.file f' (fun i => st.file.size ≤ i)) : Inv { st with file := f' } abs := by
  have hs := inv.fsize
  refine { sizeO := inv.sizeO, sizeT := inv.sizeT, fsize := Nat.le_trans inv.fsize fr.1, hdrO := ?_, hdrT := ?_,
           absent := inv.absent, stored := ?_, disj := inv.disj, occ := inv.occ, hi := inv.hi }
  · intro k hk
    show be32 f' _ = _
    rw [be32_frame fr _ (fun j hj => by omega)]; exact inv.hdrO k hk
  · intro k hk
    show be32 f' _ = _
    rw [be32_frame fr _ (fun j hj => by omega)]; exact inv.hdrT k hk
  · intro k hk d hd
    have s := inv.stored k hk d hd
    exact s.frame fr (fun i h1 h2 => by have := s.fits; omega)

theorem Inv.pad {st abs} (inv : Inv st abs) : Inv (padToFullSector st) abs := by
  unfold padToFullSector
  split
  · exact inv.grow _ (Frame.put _ _ _ _ (fun i a _ => a))
  · exact inv

theorem padToFullSector_size (st : Region) : (padToFullSector st).file.size % 4096 = 0 := by
  unfold padToFullSector
  split
  · rename_i h
    show (put _ _ _).size % 4096 = 0
    rw [size_put, size_zeros, if_neg (by omega)]
    omega
  · rename_i h; omega

theorem createWriter_file : createWriter.1.file = createFile := by
  simp only [createWriter]

theorem createWriter_file_zero (i : Nat) : get createWriter.1.file i = 0 := by
  rw [createWriter_file]
  unfold createFile
  rw [get_put]
  split
  · exact get_zeros _ _
  · rw [get_put]
    split
    · exact get_zeros _ _
    · exact get_of_ge (by simp)

theorem be32_zero_of {f : ByteArray} (h : ∀ i, get f i = 0) (off : Nat) : be32 f off = 0#32 := by
  unfold be32; rw [h, h, h, h]; rfl

theorem Inv.create : Inv createWriter.1 (fun _ => none) := by
  have hz := createWriter_file_zero
  refine { sizeO := Tbl.size_zero, sizeT := Tbl.size_zero, fsize := ?_, hdrO := ?_, hdrT := ?_, absent := ?_,
           stored := ?_, disj := ?_, occ := ?_, hi := ?_ }
  · rw [createWriter_file]
    unfold createFile
    rw [size_put, size_put]; simp
  · intro k hk; rw [be32_zero_of hz]; exact (Tbl.get_zero k).symm
  · intro k hk; rw [be32_zero_of hz]; exact (Tbl.get_zero k).symm
  · intro k hk _; exact Tbl.get_zero k
  · intro k hk d hd; cases hd
  · intro k k' _ _ _ d d' hd; cases hd
  · intro s
    show Occ.get (((∅ : Occ).insert 0 true).insert 1 true) s = true ↔ _
    rw [Occ.get_insert, Occ.get_insert, Occ.get_empty]
    constructor
    · intro h
      split at h
      · omega
      · split at h
        · omega
        · exact Bool.noConfusion h
    · intro h
      rcases h with h | ⟨k, _, ⟨d, hd⟩, _⟩
      · by_cases e : s = 1
        · rw [if_pos e]
        · rw [if_neg e, if_pos (by omega)]
      · cases hd
  · intro s
    show Occ.get (((∅ : Occ).insert 0 true).insert 1 true) s = true → s < 2
    rw [Occ.get_insert, Occ.get_insert, Occ.get_empty]
    intro h
    split at h
    · omega
    · split at h
      · omega
      · exact Bool.noConfusion h

/-- what the `sectorFree` loop of `Load` computes -/
theorem loadOcc_spec (offsets : Tbl) :
    ∀ c k0 m hi, (∀ s, Occ.get m s = true → s < hi) →
      (∀ s, Occ.get (loadOcc offsets c k0 m) s = true ↔
        (Occ.get m s = true ∨ ∃ k, k0 ≤ k ∧ k < k0 + c ∧ (sectorLoc (offsets.get k)).1 ≠ 0 ∧ InRun (offsets.get k) s)) ∧
      (∀ s, Occ.get (loadOcc offsets c k0 m) s = true → s < (loadHi offsets c k0 hi)) ∧
      hi ≤ (loadHi offsets c k0 hi) ∧
      (∀ b, hi ≤ b → (∀ k, k0 ≤ k → k < k0 + c → (sectorLoc (offsets.get k)).1 ≠ 0 →
          (sectorLoc (offsets.get k)).1 + (sectorLoc (offsets.get k)).2 ≤ b) → (loadHi offsets c k0 hi) ≤ b) := by
  intro c
  induction c with
  | zero =>
    intro k0 m hi hb
    refine ⟨fun s => ?_, hb, Nat.le_refl _, fun b hb' _ => hb'⟩
    show Occ.get m s = true ↔ _
    constructor
    · exact Or.inl
    · intro h; rcases h with h | ⟨k, a, b, _⟩
      · exact h
      · omega
  | succ c ih =>
    intro k0 m hi hb
    unfold loadOcc loadHi
    simp only
    by_cases h0 : (sectorLoc (offsets.get k0)).1 ≠ 0
    · rw [if_pos h0, if_pos h0]
      have hb' : ∀ s, Occ.get (m.setRange (sectorLoc (offsets.get k0)).1 (sectorLoc (offsets.get k0)).2 true) s = true →
          s < max hi ((sectorLoc (offsets.get k0)).1 + (sectorLoc (offsets.get k0)).2) := by
        intro s hs
        rw [Occ.get_setRange] at hs
        split at hs
        · omega
        · have := hb s hs; omega
      obtain ⟨i1, i2, i3, i4⟩ := ih (k0 + 1) _ _ hb'
      refine ⟨fun s => ?_, i2, by omega, fun b hb1 hb2 => ?_⟩
      · rw [i1 s, Occ.get_setRange]
        constructor
        · intro h
          rcases h with h | ⟨k, a, b, c1, c2⟩
          · split at h
            · rename_i hin; exact Or.inr ⟨k0, Nat.le_refl _, by omega, h0, hin⟩
            · exact Or.inl h
          · exact Or.inr ⟨k, by omega, by omega, c1, c2⟩
        · intro h
          rcases h with h | ⟨k, a, b, c1, c2⟩
          · left; split
            · rfl
            · exact h
          · by_cases e : k = k0
            · subst e; left
              have c2' : (sectorLoc (offsets.get k)).1 ≤ s ∧ s < (sectorLoc (offsets.get k)).1 + (sectorLoc (offsets.get k)).2 := c2
              rw [if_pos c2']
            · exact Or.inr ⟨k, by omega, by omega, c1, c2⟩
      · apply i4 b
        · have := hb2 k0 (Nat.le_refl _) (by omega) h0; omega
        · intro k a b' c'; exact hb2 k (by omega) (by omega) c'
    · rw [if_neg h0, if_neg h0]
      obtain ⟨i1, i2, i3, i4⟩ := ih (k0 + 1) m hi hb
      refine ⟨fun s => ?_, i2, i3, fun b hb1 hb2 => ?_⟩
      · rw [i1 s]
        constructor
        · intro h
          rcases h with h | ⟨k, a, b, c1, c2⟩
          · exact Or.inl h
          · exact Or.inr ⟨k, by omega, by omega, c1, c2⟩
        · intro h
          rcases h with h | ⟨k, a, b, c1, c2⟩
          · exact Or.inl h
          · by_cases e : k = k0
            · subst e; exact absurd c1 h0
            · exact Or.inr ⟨k, by omega, by omega, c1, c2⟩
      · exact i4 b hb1 (fun k a b' c' => hb2 k (by omega) (by omega) c')

theorem loadInit_spec : (∀ s, Occ.get loadInit s = true ↔ s < 2) := by
  intro s
  show Occ.get (((∅ : Occ).insert 0 true).insert 1 true) s = true ↔ _
  rw [Occ.get_insert, Occ.get_insert, Occ.get_empty]
  constructor
  · intro h
    split at h
    · omega
    · split at h
      · omega
      · exact Bool.noConfusion h
  · intro h
    by_cases e : s = 1
    · rw [if_pos e]
    · rw [if_neg e, if_pos (by omega)]

theorem Stored.extract {f : ByteArray} {o : BitVec 32} {d : ByteArray} (h : Stored f o d) :
    f.extract (4096 * (sectorLoc o).1 + 4) (4096 * (sectorLoc o).1 + 4 + d.size) = d := by
  have h4 := h.fits
  apply ByteArray.ext_getElem
  · rw [ByteArray.size_extract]; omega
  · intro i hi hi'
    have := h.data i hi'
    rw [get_of_lt hi'] at this
    rw [← this, ← get_of_lt hi, get_extract, if_pos (by omega)]

/-- the invariant only looks at the tables below 1024 and at the occupancy as a function -/
theorem Inv.congr {st st' : Region} {abs} (inv : Inv st abs) (hf : st'.file = st.file)
    (hsO : st'.offsets.size = 1024) (hsT : st'.timestamps.size = 1024)
    (hO : ∀ k, k < 1024 → st'.offsets.get k = st.offsets.get k)
    (hT : ∀ k, k < 1024 → st'.timestamps.get k = st.timestamps.get k)
    (hocc : ∀ s, st'.occ.get s = st.occ.get s) (hhi : ∀ s, st'.occ.get s = true → s < st'.hi) : Inv st' abs := by
  refine { sizeO := hsO, sizeT := hsT, fsize := by rw [hf]; exact inv.fsize, hdrO := ?_, hdrT := ?_, absent := ?_,
           stored := ?_, disj := ?_, occ := ?_, hi := hhi }
  · intro k hk; rw [hf, hO k hk]; exact inv.hdrO k hk
  · intro k hk; rw [hf, hT k hk]; exact inv.hdrT k hk
  · intro k hk ha; rw [hO k hk]; exact inv.absent k hk ha
  · intro k hk d hd; rw [hf, hO k hk]; exact inv.stored k hk d hd
  · intro k k' hk hk' hne d d' hd hd' s; rw [hO k hk, hO k' hk']; exact inv.disj k k' hk hk' hne d d' hd hd' s
  · intro s
    rw [hocc s, inv.occ s]
    constructor
    · intro h
      rcases h with h | ⟨k, hk, hd, hin⟩
      · exact Or.inl h
      · exact Or.inr ⟨k, hk, hd, by rw [hO k hk]; exact hin⟩
    · intro h
      rcases h with h | ⟨k, hk, hd, hin⟩
      · exact Or.inl h
      · exact Or.inr ⟨k, hk, hd, by rw [← hO k hk]; exact hin⟩

/-- `Load` of the file of a state satisfying the invariant returns the same tables and occupancy -/
theorem Inv.reload {st abs} (inv : Inv st abs) :
    ∃ st', load st.file = .ok st' ∧ st'.file = st.file ∧
      (∀ k, k < 1024 → st'.offsets.get k = st.offsets.get k ∧ st'.timestamps.get k = st.timestamps.get k) ∧
      (∀ s, st'.occ.get s = st.occ.get s) ∧ Inv st' abs ∧ st'.hi ≤ st.hi := by
  have e1 : (loadState st.file).file = st.file := by simp only [loadState]
  have e2 : (loadState st.file).offsets = Tbl.ofFile st.file 0 := by simp only [loadState]
  have e3 : (loadState st.file).timestamps = Tbl.ofFile st.file 4096 := by simp only [loadState]
  have e4 : (loadState st.file).occ = loadOcc (Tbl.ofFile st.file 0) 1024 0 loadInit := by simp only [loadState]
  have e5 : (loadState st.file).hi = loadHi (Tbl.ofFile st.file 0) 1024 0 2 := by simp only [loadState]
  have hst' := load_ok inv.fsize
  generalize loadState st.file = st' at e1 e2 e3 e4 e5 hst'
  refine ⟨st', hst', e1, ?_⟩
  rw [e2, e3, e4, e5]
  have hO : ∀ k, k < 1024 → (Tbl.ofFile st.file 0).get k = st.offsets.get k := by
    intro k hk; rw [Tbl.get_ofFile _ _ _ hk, Nat.zero_add]; exact inv.hdrO k hk
  have hT : ∀ k, k < 1024 → (Tbl.ofFile st.file 4096).get k = st.timestamps.get k := by
    intro k hk; rw [Tbl.get_ofFile _ _ _ hk]; exact inv.hdrT k hk
  have hinit : ∀ s, Occ.get loadInit s = true → s < 2 := fun s h => (loadInit_spec s).1 h
  obtain ⟨i1, i2, i3, i4⟩ := loadOcc_spec (Tbl.ofFile st.file 0) 1024 0 loadInit 2 hinit
  have hocc : ∀ s, Occ.get (loadOcc (Tbl.ofFile st.file 0) 1024 0 loadInit) s = st.occ.get s := by
    intro s
    rw [Bool.eq_iff_iff]
    rw [i1 s, inv.occ s, loadInit_spec s]
    constructor
    · intro h
      rcases h with h | ⟨k, _, hk, hne, hin⟩
      · exact Or.inl h
      · have hk' : k < 1024 := by omega
        rw [hO k hk'] at hne hin
        refine Or.inr ⟨k, hk', (inv.present_ne_zero hk').1 ?_, hin⟩
        intro e; rw [e, sectorLoc_zero] at hne; exact hne rfl
    · intro h
      rcases h with h | ⟨k, hk, ⟨d, hd⟩, hin⟩
      · exact Or.inl h
      · refine Or.inr ⟨k, Nat.zero_le _, by omega, ?_, by rw [hO k hk]; exact hin⟩
        rw [hO k hk]
        have := (inv.stored k hk d hd).sec_ge
        omega
  refine ⟨fun k hk => ⟨hO k hk, hT k hk⟩, hocc, ?_, ?_⟩
  · exact inv.congr e1 (by rw [e2]; exact Tbl.size_ofFile _ _) (by rw [e3]; exact Tbl.size_ofFile _ _)
      (by rw [e2]; exact hO) (by rw [e3]; exact hT) (by rw [e4]; exact hocc) (by rw [e4, e5]; exact i2)
  · apply i4
    · have := inv.hi 1 ((inv.occ 1).2 (Or.inl (by omega))); omega
    · intro k _ hk hne
      have hk' : k < 1024 := by omega
      rw [hO k hk'] at hne ⊢
      have hp : st.offsets.get k ≠ 0#32 := by
        intro e; rw [e, sectorLoc_zero] at hne; exact hne rfl
      obtain ⟨d, hd⟩ := (inv.present_ne_zero hk').1 hp
      have s := inv.stored k hk' d hd
      have := needOf_pos d.size
      have hin : InRun (st.offsets.get k) ((sectorLoc (st.offsets.get k)).1 + (sectorLoc (st.offsets.get k)).2 - 1) := by
        unfold InRun; have := s.num_eq; omega
      have := inv.hi _ ((inv.occ _).2 (Or.inr ⟨k, hk', ⟨d, hd⟩, hin⟩))
      omega

/-! ### the allocator never leaves the 24-bit sector field: a bound on the result of `findSpace` -/

def sumTo (f : Nat → Nat) : Nat → Nat
  | 0 => 0
  | c + 1 => sumTo f c + f c

theorem sumTo_mono {f g : Nat → Nat} (h : ∀ j, f j ≤ g j) (c : Nat) : sumTo f c ≤ sumTo g c := by
  induction c with
  | zero => exact Nat.le_refl _
  | succ c ih => unfold sumTo; have := h c; omega

theorem sumTo_strict {f g : Nat → Nat} (h : ∀ j, f j ≤ g j) {j0 d : Nat} (c : Nat) (hj : j0 < c)
    (hd : f j0 + d ≤ g j0) : sumTo f c + d ≤ sumTo g c := by
  induction c with
  | zero => omega
  | succ c ih =>
    unfold sumTo
    by_cases e : j0 = c
    · subst e; have := sumTo_mono h j0; omega
    · have := ih (by omega); have := h c; omega

theorem sumTo_le {f : Nat → Nat} {M : Nat} (h : ∀ j, f j ≤ M) (c : Nat) : sumTo f c ≤ c * M := by
  induction c with
  | zero => simp [sumTo]
  | succ c ih => unfold sumTo; have := h c; rw [Nat.succ_mul]; omega

/-- sectors of the run `[sec, sec+num)` below `n`, plus 254 once the run has started below `n` -/
def runTerm (sec num n : Nat) : Nat := min num (n - sec) + if sec < n then 254 else 0

theorem runTerm_mono (sec num : Nat) {n n' : Nat} (h : n ≤ n') : runTerm sec num n ≤ runTerm sec num n' := by
  unfold runTerm
  split <;> split <;> omega

theorem runTerm_le (sec num n : Nat) : runTerm sec num n ≤ num + 254 := by
  unfold runTerm; split <;> omega

theorem runTerm_jump (sec num n i : Nat) (h1 : sec ≤ n + i) (h2 : n + i < sec + num)
    (hfree : ∀ t, t < i → ¬ (sec ≤ n + t ∧ n + t < sec + num)) (hi : i ≤ 254) :
    runTerm sec num n + (i + 1) ≤ runTerm sec num (n + i + 1) := by
  unfold runTerm
  by_cases c : sec < n
  · have i0 : i = 0 := by
      apply Nat.eq_zero_of_not_pos
      intro hp
      exact hfree 0 hp ⟨by omega, by omega⟩
    subst i0
    rw [if_pos c, if_pos (by omega)]
    omega
  · rw [if_neg c, if_pos (by omega)]
    omega

def phi (act : Nat → Bool) (sec num : Nat → Nat) (n : Nat) : Nat :=
  runTerm 0 2 n + sumTo (fun j => if act j then runTerm (sec j) (num j) n else 0) 1024

theorem phi_le (act : Nat → Bool) (sec num : Nat → Nat) (hnum : ∀ j, num j ≤ 255) (n : Nat) :
    phi act sec num n ≤ 521472 := by
  unfold phi
  have h1 := runTerm_le 0 2 n
  have h2 := sumTo_le (f := fun j => if act j then runTerm (sec j) (num j) n else 0) (M := 509) (fun j => by
    show (if act j then runTerm (sec j) (num j) n else 0) ≤ 509
    split
    · have := runTerm_le (sec j) (num j) n; have := hnum j; omega
    · omega) 1024
  omega

theorem findSpaceAux_le_phi (occ : Occ) (need : Nat) (hneed : need ≤ 255) (act : Nat → Bool) (sec num : Nat → Nat)
    (hocc : ∀ s, occ.get s = true ↔ (s < 2 ∨ ∃ j, j < 1024 ∧ act j = true ∧ sec j ≤ s ∧ s < sec j + num j)) :
    ∀ fuel n i, (∀ t, t < i → occ.get (n + t) = false) → i ≤ need → n ≤ phi act sec num n →
      findSpaceAux occ need fuel n i ≤ phi act sec num (findSpaceAux occ need fuel n i) := by
  intro fuel
  induction fuel with
  | zero => intro n i _ _ h; exact h
  | succ fuel ih =>
    intro n i hfree hi hn
    unfold findSpaceAux
    by_cases h1 : i < need
    · rw [if_pos h1]
      by_cases h2 : occ.get (n + i) = true
      · rw [if_pos h2]
        apply ih (n + i + 1) 0 (by intro t ht; omega) (by omega)
        -- the potential grows by at least i + 1
        have notin : ∀ (sc nm : Nat), (∀ s, sc ≤ s → s < sc + nm → occ.get s = true) →
            ∀ t, t < i → ¬ (sc ≤ n + t ∧ n + t < sc + nm) := by
          intro sc nm hall t ht ⟨a, b⟩
          have := hall _ a b
          rw [hfree t ht] at this
          exact Bool.noConfusion this
        have mono : ∀ j, (if act j then runTerm (sec j) (num j) n else 0) ≤
            (if act j then runTerm (sec j) (num j) (n + i + 1) else 0) := by
          intro j; split
          · exact runTerm_mono _ _ (by omega)
          · exact Nat.le_refl _
        unfold phi at hn ⊢
        rcases (hocc (n + i)).1 h2 with hlt | ⟨j, hj, hact, ha, hb⟩
        · have := runTerm_jump 0 2 n i (by omega) (by omega)
            (notin 0 2 (fun s _ hs => (hocc s).2 (Or.inl (by omega)))) (by omega)
          have := sumTo_mono mono 1024
          omega
        · have hj' := runTerm_jump (sec j) (num j) n i ha hb
            (notin (sec j) (num j) (fun s a b => (hocc s).2 (Or.inr ⟨j, hj, hact, a, b⟩))) (by omega)
          have := sumTo_strict mono (j0 := j) (d := i + 1) 1024 hj (by
            show (if act j then _ else 0) + (i + 1) ≤ (if act j then _ else 0)
            rw [if_pos hact, if_pos hact]; exact hj')
          have := runTerm_mono 0 2 (n := n) (n' := n + i + 1) (by omega)
          omega
      · rw [if_neg h2]
        have h2' : occ.get (n + i) = false := by
          cases h : occ.get (n + i) <;> simp_all
        exact ih n (i + 1) (by
          intro t ht
          by_cases e : t = i
          · subst e; exact h2'
          · exact hfree t (by omega)) (by omega) hn
    · rw [if_neg h1]; exact hn

theorem findSpace_le (occ : Occ) (hi need : Nat) (hneed : need ≤ 255) (act : Nat → Bool) (sec num : Nat → Nat)
    (hnum : ∀ j, num j ≤ 255)
    (hocc : ∀ s, occ.get s = true ↔ (s < 2 ∨ ∃ j, j < 1024 ∧ act j = true ∧ sec j ≤ s ∧ s < sec j + num j)) :
    findSpace occ hi need ≤ 521472 := by
  have := findSpaceAux_le_phi occ need hneed act sec num hocc (findSpaceFuel hi need) 0 0
    (by intro t ht; omega) (by omega) (Nat.zero_le _)
  exact Nat.le_trans this (phi_le act sec num hnum _)

/-- under the invariant the run chosen by `WriteSector` starts below 521 473 < 2^24 - 256 -/
theorem Inv.findSpace_bound {st abs} (inv : Inv st abs) {k : Nat} (hk : k < 1024) (need : Nat) (hneed : need ≤ 255) :
    findSpace (st.occ.setRange (sectorLoc (st.offsets.get k)).1 (sectorLoc (st.offsets.get k)).2 false) st.hi need
      ≤ 521472 := by
  apply findSpace_le _ _ _ hneed (fun j => decide (j ≠ k) && (abs j).isSome)
    (fun j => (sectorLoc (st.offsets.get j)).1) (fun j => (sectorLoc (st.offsets.get j)).2)
    (fun j => by have := sectorLoc_snd_lt (st.offsets.get j); omega)
  intro s
  rw [Occ.get_setRange]
  constructor
  · intro h
    split at h
    · exact Bool.noConfusion h
    · rename_i hnown
      rcases (inv.occ s).1 h with h2 | ⟨j, hj, ⟨d, hd⟩, hin⟩
      · exact Or.inl h2
      · have e : j ≠ k := by intro e; subst e; exact hnown hin
        exact Or.inr ⟨j, hj, by simp [e, hd], hin.1, hin.2⟩
  · intro h
    rcases h with h | ⟨j, hj, hact, h1, h2⟩
    · have : ¬ ((sectorLoc (st.offsets.get k)).1 ≤ s ∧ s < (sectorLoc (st.offsets.get k)).1 + (sectorLoc (st.offsets.get k)).2) := by
        intro hown
        have := inv.inRun_ge hk (s := s) hown
        omega
      rw [if_neg this]
      exact (inv.occ s).2 (Or.inl h)
    · simp only [Bool.and_eq_true, decide_eq_true_eq] at hact
      obtain ⟨e, hsome⟩ := hact
      obtain ⟨d, hd⟩ := Option.isSome_iff_exists.1 hsome
      have hin : InRun (st.offsets.get j) s := ⟨h1, h2⟩
      have : ¬ ((sectorLoc (st.offsets.get k)).1 ≤ s ∧ s < (sectorLoc (st.offsets.get k)).1 + (sectorLoc (st.offsets.get k)).2) := by
        intro hown
        cases ha : abs k with
        | none => rw [inv.absent k hk ha] at hown; exact InRun_zero _ hown
        | some dk => exact inv.disj k j hk hj (fun x => e x.symm) dk d ha hd s hown hin
      rw [if_neg this]
      exact (inv.occ s).2 (Or.inr ⟨j, hj, ⟨d, hd⟩, hin⟩)

/-! ### WriteSector preserves the invariant; histories -/

/-- the last two physical writes (length word, data) put the chunk at the start of sector `r` and leave
    everything below `4096*r` alone -/
theorem tail_writes (g : ByteArray) (r : Nat) (data : ByteArray) :
    let f' := put (put g (4096 * r) (be32bytes (BitVec.ofNat 32 data.size))) (4096 * r + 4) data
    be32 f' (4096 * r) = BitVec.ofNat 32 data.size ∧ (∀ i, i < data.size → get f' (4096 * r + 4 + i) = get data i) ∧
      4096 * r + 4 + data.size ≤ f'.size ∧ (∀ off, off + 4 ≤ 4096 * r → be32 f' off = be32 g off) := by
  intro f'
  refine ⟨?_, ?_, ?_, ?_⟩
  · show be32 (put _ _ _) _ = _
    rw [be32_put_other _ _ _ _ (Or.inl (Nat.le_refl _)), be32_put_same]
  · intro i hi
    show get (put _ _ _) _ = _
    rw [get_put, if_pos (by omega)]
    congr 1; omega
  · show _ ≤ (put _ _ _).size
    rw [size_put, size_put, size_be32bytes]
    split <;> simp <;> omega
  · intro off hoff
    show be32 (put _ _ _) _ = _
    rw [be32_put_other _ _ _ _ (Or.inl (by omega)), be32_put_other _ _ _ _ (Or.inl (by omega))]

/-- a write within the limit succeeds, preserves the invariant and updates the abstract map
    at (x,z) only.  Hypothesis `hb`: sector numbers fit the 24-bit field of a header entry (`hi` bounds every
    occupied sector; see the OPEN note at the end of this file for the bound that always holds). -/
theorem Inv.write {st : Region} {abs : Nat → Option ByteArray} (inv : Inv st abs)
    {x z : Int} {k : Nat} (hk : idx? x z = some k) (data : ByteArray) (now : BitVec 32)
    (hn : needOf data.size < 256) :
    (writeSector st x z data now).1 = .ok () ∧
      Inv (writeSector st x z data now).2.1 (fun j => if j = k then some data else abs j) := by
  have hk1 := idx?_lt hk
  have fo := inv.writeRun_freeOrOwn k data.size
  have hn1 := needOf_pos data.size
  have r2 := inv.r_ge_two hk1 hn1 fo
  have hle := inv.writeRun_le hk1 data.size
  have fr : Frame st.file (applyWrites st.file (writeSector st x z data now).2.2)
      (Foot k (writeRun st k data.size) (needOf data.size)) :=
    Frame.applyWrites _ _ _ (writeSector_writesIn st hk data now hn)
  by_cases h : (sectorLoc (st.offsets.get k)).1 ≠ 0 ∧ (sectorLoc (st.offsets.get k)).2 = needOf data.size
  · -- same sector count: overwrite in place
    have hr : writeRun st k data.size = (sectorLoc (st.offsets.get k)).1 := by unfold writeRun; rw [if_pos h]
    rw [writeSector_same st hk data now hn h] at fr ⊢
    rw [← hr] at fr ⊢
    dsimp only at fr ⊢
    refine ⟨rfl, ?_⟩
    obtain ⟨t1, t2, t3, t4⟩ := tail_writes st.file (writeRun st k data.size) data
    -- chunk k is present
    have hpres : ∃ d, abs k = some d := by
      cases ha : abs k with
      | none => rw [inv.absent k hk1 ha, sectorLoc_zero] at h; exact absurd rfl h.1
      | some d => exact ⟨d, rfl⟩
    refine Inv.install (st' := Region.mk _ st.offsets st.timestamps st.occ st.hi) inv hk1 data (st.offsets.get k)
      (st.timestamps.get k) (by rw [hr, ← h.2]) fo fr inv.sizeO inv.sizeT ?_ ?_ ?_ ?_ ?_ ?_ ?_ ?_ ?_
    · intro j; split
      · rename_i e; rw [e]
      · rfl
    · intro j; split
      · rename_i e; rw [e]
      · rfl
    · exact (t4 _ (by omega)).trans (inv.hdrO k hk1)
    · exact (t4 _ (by omega)).trans (inv.hdrT k hk1)
    · exact t1
    · exact t2
    · exact t3
    · intro s
      show st.occ.get s = _
      rw [hr, ← h.2]
      split
      · rename_i hin
        obtain ⟨d, hd⟩ := hpres
        exact (inv.occ s).2 (Or.inr ⟨k, hk1, ⟨d, hd⟩, hin⟩)
      · rfl
    · exact inv.hi
  · -- reallocation
    rw [writeSector_realloc st hk data now hn h] at fr ⊢
    have hbound : writeRun st k data.size ≤ 521472 := by
      unfold writeRun; rw [if_neg h]; exact inv.findSpace_bound hk1 _ (by omega)
    dsimp only at fr ⊢
    refine ⟨rfl, ?_⟩
    obtain ⟨t1, t2, t3, t4⟩ := tail_writes
      (put (put st.file (4 * k) (be32bytes (packLoc (writeRun st k data.size) (needOf data.size)))) (4096 + 4 * k) (be32bytes now))
      (writeRun st k data.size) data
    refine Inv.install (st' := Region.mk _ _ _ _ _) inv hk1 data (packLoc (writeRun st k data.size) (needOf data.size)) now
      (sectorLoc_packLoc _ _ (by omega) hn) fo fr ?_ ?_ ?_ ?_ ?_ ?_ ?_ ?_ ?_ ?_ ?_
    · simp [inv.sizeO]
    · simp [inv.sizeT]
    · intro j
      show (st.offsets.set k _).get j = _
      rw [Tbl.get_set, inv.sizeO]
      by_cases e : j = k
      · rw [if_pos ⟨e, hk1⟩, if_pos e]
      · rw [if_neg (fun a => e a.1), if_neg e]
    · intro j
      show (st.timestamps.set k _).get j = _
      rw [Tbl.get_set, inv.sizeT]
      by_cases e : j = k
      · rw [if_pos ⟨e, hk1⟩, if_pos e]
      · rw [if_neg (fun a => e a.1), if_neg e]
    · refine (t4 _ (by omega)).trans ?_
      rw [be32_put_other _ _ _ _ (Or.inl (by omega)), be32_put_same]
    · refine (t4 _ (by omega)).trans ?_
      rw [be32_put_same]
    · exact t1
    · exact t2
    · exact t3
    · intro s
      show Occ.get (Occ.setRange (Occ.setRange _ _ _ _) _ _ _) s = _
      rw [Occ.get_setRange, Occ.get_setRange]
    · intro s hs
      change Occ.get (Occ.setRange (Occ.setRange _ _ _ _) _ _ _) s = true at hs
      show s < max _ _
      rw [Occ.get_setRange] at hs
      split at hs
      · omega
      · have := inv.freed_hi _ _ s hs; omega

theorem writeSector_out_of_range (st : Region) {x z : Int} (h : idx? x z = none) (data : ByteArray) (now : BitVec 32) :
    writeSector st x z data now = (.panic, st, []) := by
  unfold writeSector
  simp only [h]

/-! ### aged files; reads as state transformers -/

theorem size_foldl_append (l : List Nat) (g : Nat → BitVec 32) (acc : ByteArray) :
    (l.foldl (fun acc k => acc ++ be32bytes (g k)) acc).size = acc.size + 4 * l.length := by
  induction l generalizing acc with
  | nil => simp
  | cons k l ih => rw [List.foldl_cons, ih, ByteArray.size_append, size_be32bytes, List.length_cons]; omega

theorem size_agedSector (f : ByteArray) : (agedSector f).size = 4096 := by
  unfold agedSector
  rw [size_foldl_append (List.range 1024) (fun k => agedStamp (be32 f (4096 + 4 * k)))]
  simp

/-- the aged file differs from the file only inside the timestamp sector -/
theorem ageFile_frame (f : ByteArray) : Frame f (ageFile f) (fun i => 4096 ≤ i ∧ i < 8192) := by
  unfold ageFile
  apply Frame.put
  intro i a b
  rw [size_agedSector] at b
  exact ⟨a, by omega⟩

/-- a change confined to the timestamp sector, followed by re-reading the timestamp table, keeps the invariant -/
theorem Inv.retime {st abs} (inv : Inv st abs) (f' : ByteArray)
    (fr : Frame st.file f' (fun i => 4096 ≤ i ∧ i < 8192)) {st' : Region}
    (hf : st'.file = f') (hO : st'.offsets = st.offsets) (hT : st'.timestamps = Tbl.ofFile f' 4096)
    (hocc : st'.occ = st.occ) (hhi : st'.hi = st.hi) : Inv st' abs := by
  refine { sizeO := by rw [hO]; exact inv.sizeO, sizeT := by rw [hT]; exact Tbl.size_ofFile _ _,
           fsize := by rw [hf]; exact Nat.le_trans inv.fsize fr.1, hdrO := ?_, hdrT := ?_,
           absent := by rw [hO]; exact inv.absent, stored := ?_, disj := by rw [hO]; exact inv.disj,
           occ := by rw [hO, hocc]; exact inv.occ, hi := by rw [hocc, hhi]; exact inv.hi }
  · intro k hk
    rw [hf, hO, be32_frame fr _ (fun j hj => by omega)]; exact inv.hdrO k hk
  · intro k hk
    rw [hf, hT, Tbl.get_ofFile _ _ _ hk]
  · intro k hk d hd
    rw [hf, hO]
    have s := inv.stored k hk d hd
    exact s.frame fr (fun i h1 h2 => by have := s.sec_ge; omega)

def retimed (st : Region) (f' : ByteArray) : Region :=
  { file := f', offsets := st.offsets, timestamps := Tbl.ofFile f' 4096, occ := st.occ, hi := st.hi }

/-- re-opening an aged file: `Load` succeeds and the loaded state satisfies the invariant for the same chunks -/
theorem Inv.age {st abs} (inv : Inv st abs) :
    ∃ st', load (ageFile st.file) = .ok st' ∧ Inv st' abs := by
  have inv1 : Inv (retimed st (ageFile st.file)) abs :=
    inv.retime (ageFile st.file) (ageFile_frame st.file) (by simp only [retimed]) (by simp only [retimed])
      (by simp only [retimed]) (by simp only [retimed]) (by simp only [retimed])
  have hfile : (retimed st (ageFile st.file)).file = ageFile st.file := by simp only [retimed]
  rw [← hfile]
  obtain ⟨st', h1, _, _, _, h5, _⟩ := inv1.reload
  exact ⟨st', h1, h5⟩

/-- reading leaves the Region unchanged, whatever it returns -/
theorem readSectorS_state (st : Region) (x z : Int) : (readSectorS st x z).2 = st := rfl

theorem runReads_eq (st : Region) (rs : List (Int × Int)) :
    runReads st rs = (rs.map fun p => readSector st p.1 p.2, st) := by
  induction rs with
  | nil => rfl
  | cons p rs ih =>
    obtain ⟨x, z⟩ := p
    unfold runReads
    simp only [readSectorS, ih, List.map_cons]

/-- the operations of a history (reads and existence tests do not change the state) -/
inductive Op where
  | write (x z : Int) (data : ByteArray) (now : BitVec 32)
  | read (x z : Int)
  | exist (x z : Int)
  | pad
  | reload
  | age

def step (st : Region) : Op → Region
  | .write x z d now => (writeSector st x z d now).2.1
  | .pad => padToFullSector st
  | .reload => match load st.file with
    | .ok st' => st'
    | _ => st
  | .age => match load (ageFile st.file) with
    | .ok st' => st'
    | _ => st
  | _ => st

/-- what the history says the store holds: the last payload written to each chunk by a write within the limit -/
def absStep (abs : Nat → Option ByteArray) : Op → (Nat → Option ByteArray)
  | .write x z d _ =>
    match idx? x z with
    | some k => if needOf d.size < 256 then (fun j => if j = k then some d else abs j) else abs
    | none => abs
  | _ => abs

theorem step_inv {st : Region} {abs : Nat → Option ByteArray} (inv : Inv st abs) (op : Op) :
    Inv (step st op) (absStep abs op) := by
  cases op with
  | write x z d now =>
    show Inv (writeSector st x z d now).2.1 (match idx? x z with
      | some k => if needOf d.size < 256 then (fun j => if j = k then some d else abs j) else abs
      | none => abs)
    cases hk : idx? x z with
    | none =>
      rw [(writeSector_out_of_range st hk d now)]
      exact inv
    | some k =>
      simp only
      by_cases hn : needOf d.size < 256
      · rw [if_pos hn]
        exact (inv.write hk d now hn).2
      · rw [if_neg hn, writeSector_refused st x z hk d now (by omega)]
        exact inv
  | read x z => exact inv
  | exist x z => exact inv
  | pad => exact inv.pad
  | reload =>
    obtain ⟨st', h1, _, _, _, h5, _⟩ := inv.reload
    show Inv (match load st.file with | .ok st' => st' | _ => st) abs
    rw [h1]
    exact h5
  | age =>
    obtain ⟨st', h1, h5⟩ := inv.age
    have e1 : step st Op.age = st' := by simp only [step, h1]
    have e2 : absStep abs Op.age = abs := by simp only [absStep]
    rw [e1, e2]
    exact h5

theorem Inv.history (ops : List Op) {st : Region} {abs : Nat → Option ByteArray} (inv : Inv st abs) :
    Inv (ops.foldl step st) (ops.foldl absStep abs) := by
  induction ops generalizing st abs with
  | nil => exact inv
  | cons op ops ih => exact ih (step_inv inv op)

theorem Inv.history_from_create (ops : List Op) :
    Inv (ops.foldl step createWriter.1) (ops.foldl absStep (fun _ => none)) :=
  Inv.history ops Inv.create

/-! ### the independent reader's words; crash images -/

theorem byteAt_eq (f : ByteArray) (i : Nat) : Spec.Anvil.byteAt f i = (Model.Region.get f i).toNat := by
  unfold Spec.Anvil.byteAt Model.Region.get
  split <;> rfl

theorem u32_eq (f : ByteArray) (off : Nat) : Spec.Anvil.u32 f off = (be32 f off).toNat := by
  unfold Spec.Anvil.u32 be32
  rw [byteAt_eq, byteAt_eq, byteAt_eq, byteAt_eq, BitVec.toNat_ofNat]
  have h0 := (Model.Region.get f off).toNat_lt
  have h1 := (Model.Region.get f (off + 1)).toNat_lt
  have h2 := (Model.Region.get f (off + 2)).toNat_lt
  have h3 := (Model.Region.get f (off + 3)).toNat_lt
  omega

/-- the file after a crash: `j` writes fully applied, the first `c` bytes of write number `j` (if any) -/
def crashImage (f : ByteArray) (ws : List (Nat × ByteArray)) (j c : Nat) : ByteArray :=
  match ws[j]? with
  | some w => put (applyWrites f (ws.take j)) w.1 (w.2.extract 0 c)
  | none => applyWrites f (ws.take j)

/-- a crash image differs from the old file only inside the footprint -/
theorem crashImage_frame (f : ByteArray) (ws : List (Nat × ByteArray)) (P : Nat → Prop) (h : WritesIn ws P)
    (j c : Nat) : Frame f (crashImage f ws j c) P := by
  have h1 : Frame f (applyWrites f (ws.take j)) P :=
    Frame.applyWrites f _ P (fun w hw => h w (List.mem_of_mem_take hw))
  unfold crashImage
  cases hj : ws[j]? with
  | none => exact h1
  | some w =>
    refine h1.trans (Frame.put _ _ _ P ?_)
    intro i a b
    have hw : w ∈ ws := List.mem_of_getElem? hj
    rw [ByteArray.size_extract] at b
    exact h w hw i a (by omega)

end GoMC.Model.Region
