/-
  Lemmas for C20: the memo table of the nbt per-type cache only ever holds the pure function of the type.
-/
import GoMC.Model.TypeCache
namespace GoMC.Lemmas.TypeCache
open GoMC.Model.TypeCache

variable {Ty F : Type} [DecidableEq Ty]

/-- every entry of the table, every value about to be stored and every value returned is `tf` of its type -/
structure Inv (tf : Ty → F) (s : State Ty F) : Prop where
  entries : ∀ t v, s.cache t = some v → v = tf t
  storing : ∀ tid t v, s.pc tid = .store t v → v = tf t
  returned : ∀ tid t v, s.pc tid = .idle (some (t, v)) → v = tf t

omit [DecidableEq Ty] in
theorem Inv_init (tf : Ty → F) : Inv tf (init Ty F) := by
  refine ⟨?_, ?_, ?_⟩ <;> simp [init]

theorem Inv_step {tf : Ty → F} {s s' : State Ty F} {a : Act Ty} (h : Inv tf s) (hs : step tf s a = some s') : Inv tf s' := by
  obtain ⟨h1, h2, h3⟩ := h
  cases a with
  | start tid t =>
    simp only [step] at hs
    split at hs
    · injection hs with hs; subst hs
      refine ⟨h1, ?_, ?_⟩
      · intro u t' v hu
        by_cases e : u = tid
        · subst e; simp [State.setPc] at hu
        · simp [State.setPc, e] at hu; exact h2 u t' v hu
      · intro u t' v hu
        by_cases e : u = tid
        · subst e; simp [State.setPc] at hu
        · simp [State.setPc, e] at hu; exact h3 u t' v hu
    · cases hs
  | run tid =>
    simp only [step] at hs
    generalize hp : s.pc tid = p at hs
    cases p with
    | idle l => cases hs
    | load t =>
      simp only at hs
      split at hs
      · rename_i v hv
        injection hs with hs; subst hs
        refine ⟨h1, ?_, ?_⟩
        · intro u t' w hu
          by_cases e : u = tid
          · subst e; simp [State.setPc] at hu
          · simp [State.setPc, e] at hu; exact h2 u t' w hu
        · intro u t' w hu
          by_cases e : u = tid
          · subst e; simp [State.setPc] at hu; obtain ⟨rfl, rfl⟩ := hu; exact h1 _ _ hv
          · simp [State.setPc, e] at hu; exact h3 u t' w hu
      · injection hs with hs; subst hs
        refine ⟨h1, ?_, ?_⟩
        · intro u t' w hu
          by_cases e : u = tid
          · subst e; simp [State.setPc] at hu
          · simp [State.setPc, e] at hu; exact h2 u t' w hu
        · intro u t' w hu
          by_cases e : u = tid
          · subst e; simp [State.setPc] at hu
          · simp [State.setPc, e] at hu; exact h3 u t' w hu
    | compute t =>
      injection hs with hs; subst hs
      refine ⟨h1, ?_, ?_⟩
      · intro u t' w hu
        by_cases e : u = tid
        · subst e; simp [State.setPc] at hu; obtain ⟨rfl, rfl⟩ := hu; rfl
        · simp [State.setPc, e] at hu; exact h2 u t' w hu
      · intro u t' w hu
        by_cases e : u = tid
        · subst e; simp [State.setPc] at hu
        · simp [State.setPc, e] at hu; exact h3 u t' w hu
    | store t v =>
      have hv := h2 tid t v hp
      simp only at hs
      split at hs
      · rename_i w hw
        injection hs with hs; subst hs
        refine ⟨h1, ?_, ?_⟩
        · intro u t' x hu
          by_cases e : u = tid
          · subst e; simp [State.setPc] at hu
          · simp [State.setPc, e] at hu; exact h2 u t' x hu
        · intro u t' x hu
          by_cases e : u = tid
          · subst e; simp [State.setPc] at hu; obtain ⟨rfl, rfl⟩ := hu; exact h1 _ _ hw
          · simp [State.setPc, e] at hu; exact h3 u t' x hu
      · injection hs with hs; subst hs
        refine ⟨?_, ?_, ?_⟩
        · intro t' x hx
          simp [State.setPc] at hx
          by_cases e : t' = t
          · subst e; simp at hx; rw [← hx]; exact hv
          · simp [e] at hx; exact h1 t' x hx
        · intro u t' x hu
          by_cases e : u = tid
          · subst e; simp [State.setPc] at hu
          · simp [State.setPc, e] at hu; exact h2 u t' x hu
        · intro u t' x hu
          by_cases e : u = tid
          · subst e; simp [State.setPc] at hu; obtain ⟨rfl, rfl⟩ := hu; exact hv
          · simp [State.setPc, e] at hu; exact h3 u t' x hu

theorem Inv_reachable {tf : Ty → F} {s : State Ty F} (h : Reachable tf s) : Inv tf s := by
  induction h with
  | init => exact Inv_init tf
  | step a _ hs ih => exact Inv_step ih hs

/-- an entry, once present, is never replaced or removed -/
theorem cache_stable {tf : Ty → F} {s s' : State Ty F} {a : Act Ty} (hs : step tf s a = some s') {t : Ty} {v : F}
    (hv : s.cache t = some v) : s'.cache t = some v := by
  cases a with
  | start tid t' =>
    simp only [step] at hs
    split at hs
    · injection hs with hs; subst hs; simpa [State.setPc] using hv
    · cases hs
  | run tid =>
    simp only [step] at hs
    generalize hp : s.pc tid = p at hs
    cases p with
    | idle l => cases hs
    | load t' =>
      simp only at hs
      split at hs <;> (injection hs with hs; subst hs; simpa [State.setPc] using hv)
    | compute t' => injection hs with hs; subst hs; simpa [State.setPc] using hv
    | store t' w =>
      simp only at hs
      split at hs
      · injection hs with hs; subst hs; simpa [State.setPc] using hv
      · rename_i hn
        injection hs with hs; subst hs
        simp [State.setPc]
        by_cases e : t = t'
        · subst e; rw [hv] at hn; cases hn
        · simp [e, hv]

/-! ### the overwriting variant (`Store`) -/

theorem InvOw_step {tf : Ty → F} {s s' : State Ty F} {a : Act Ty} (h : Inv tf s) (hs : stepOw tf s a = some s') : Inv tf s' := by
  cases a with
  | start tid t => exact Inv_step (a := .start tid t) h hs
  | run tid =>
    cases hp : s.pc tid with
    | idle l => exact Inv_step (a := .run tid) h (by simpa [stepOw, step, hp] using hs)
    | load t => exact Inv_step (a := .run tid) h (by simpa [stepOw, step, hp] using hs)
    | compute t => exact Inv_step (a := .run tid) h (by simpa [stepOw, step, hp] using hs)
    | store t v =>
      obtain ⟨h1, h2, h3⟩ := h
      have hv := h2 tid t v hp
      simp only [stepOw, hp] at hs
      injection hs with hs; subst hs
      refine ⟨?_, ?_, ?_⟩
      · intro t' x hx
        simp [State.setPc] at hx
        by_cases e : t' = t
        · subst e; simp at hx; rw [← hx]; exact hv
        · simp [e] at hx; exact h1 t' x hx
      · intro u t' x hu
        by_cases e : u = tid
        · subst e; simp [State.setPc] at hu
        · simp [State.setPc, e] at hu; exact h2 u t' x hu
      · intro u t' x hu
        by_cases e : u = tid
        · subst e; simp [State.setPc] at hu; obtain ⟨rfl, rfl⟩ := hu; exact hv
        · simp [State.setPc, e] at hu; exact h3 u t' x hu

theorem InvOw_reachable {tf : Ty → F} {s : State Ty F} (h : ReachableOw tf s) : Inv tf s := by
  induction h with
  | init => exact Inv_init tf
  | step a _ hs ih => exact InvOw_step ih hs

end GoMC.Lemmas.TypeCache
