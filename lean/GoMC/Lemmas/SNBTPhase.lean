/-
  Lemmas for C04_parse_total, part 1: the phase invariant of the SNBT scanner as seen by the parser.

  * `scanLoop_spec` / `scanWhile_spec` / `scanNext_spec`: a loop-invariant rule for `decodeState.scanWhile`:
    an invariant `I` on (scanner, bytes consumed so far) that is kept by every step returning `op`, and a result
    predicate `R` established by every other step (with the byte that caused it) and by `eof`, give `R` for the
    final state — together with the bookkeeping of `off` and the bytes consumed (for the slice expressions).
  * scanner classes (`BV`, `CE`, `BS`, `LA`, `AT`, `EV`, `Popped`, `LitC`) = what the parser knows about
    `(step, stack top, endTop)` at each of its program points, and outcome predicates (`BVOut`, `EndOut`, …) =
    what one `scanWhile`/`scanNext` from such a class can return.
-/
import GoMC.Lemmas.SNBT
namespace GoMC.Model.SNBT
open GoMC

theorem Scanner.eof_op (s : Scanner) : s.eof.2 = .error ∨ s.eof.2 = .end_ := by
  unfold Scanner.eof
  split
  · exact Or.inl rfl
  · split
    · exact Or.inr rfl
    · dsimp only
      split
      · exact Or.inr rfl
      · exact Or.inl rfl

theorem drop_cons_of {α} (l : List α) (i : Nat) (c : α) (cs : List α) (h : l.drop i = c :: cs) :
    i < l.length ∧ l[i]? = some c ∧ l.drop (i + 1) = cs := by
  have hlt : i < l.length := by
    apply Classical.byContradiction; intro hn
    rw [List.drop_eq_nil_of_le (by omega)] at h; cases h
  refine ⟨hlt, ?_, ?_⟩
  · have := List.drop_eq_getElem_cons hlt
    rw [this] at h
    rw [List.getElem?_eq_getElem hlt]
    congr 1
    exact (List.cons.inj h).1
  · have := List.drop_eq_getElem_cons hlt
    rw [this] at h
    exact (List.cons.inj h).2

/-- loop-invariant rule for the loop of `scanWhile` -/
theorem scanLoop_spec (op : Op) (data : Bytes)
    (I : Scanner → Bytes → Prop) (R : Scanner → Op → Bytes → Option Byte → Prop)
    (hstep : ∀ s acc c, I s acc → ((s.step c).2 = op → I (s.step c).1 (acc ++ [c])) ∧
      ((s.step c).2 ≠ op → R (s.step c).1 (s.step c).2 acc (some c)))
    (heof : ∀ s acc, I s acc → R s.eof.1 s.eof.2 acc none) :
    ∀ (rest : Bytes) (s : Scanner) (i : Nat) (acc : Bytes), I s acc → rest = data.drop i →
      (DState.scanLoop op data s rest i).data = data ∧
      (i ≤ data.length → i + 1 ≤ (DState.scanLoop op data s rest i).off) ∧
      (DState.scanLoop op data s rest i).off ≤ data.length + 1 ∧
      ∃ ob, R (DState.scanLoop op data s rest i).scan (DState.scanLoop op data s rest i).opcode
              (acc ++ (data.drop i).take ((DState.scanLoop op data s rest i).off - 1 - i)) ob ∧
            (∀ c, ob = some c → 1 ≤ (DState.scanLoop op data s rest i).off ∧
                data[(DState.scanLoop op data s rest i).off - 1]? = some c) ∧
            (ob = none → (DState.scanLoop op data s rest i).off = data.length + 1) := by
  intro rest
  induction rest with
  | nil =>
    intro s i acc hI hr
    unfold DState.scanLoop
    refine ⟨rfl, ?_, Nat.le_refl _, none, ?_, ?_, ?_⟩
    · intro h; simp only; omega
    · have : (data.length + 1 - 1 - i) = 0 := by
        have : data.length ≤ i := by
          apply Classical.byContradiction; intro hn
          have : (data.drop i).length = data.length - i := List.length_drop
          rw [← hr] at this; simp at this; omega
        omega
      simp only [this, List.take_zero, List.append_nil]
      exact heof s acc hI
    · intro c h; cases h
    · intro _; rfl
  | cons c cs ih =>
    intro s i acc hI hr
    obtain ⟨hlt, hget, hdrop⟩ := drop_cons_of data i c cs hr.symm
    unfold DState.scanLoop
    dsimp only
    by_cases hop : (s.step c).2 = op
    · have hne : ((s.step c).2 != op) = false := by simp [hop]
      simp only [hne, Bool.false_eq_true, if_false]
      obtain ⟨h1, h2, h3, ob, h4, h5, h6⟩ := ih (s.step c).1 (i + 1) (acc ++ [c]) ((hstep s acc c hI).1 hop) hdrop.symm
      refine ⟨h1, ?_, h3, ob, ?_, h5, h6⟩
      · intro _; have := h2 (by omega); omega
      · have hoff := h2 (by omega)
        generalize (DState.scanLoop op data (s.step c).1 cs (i + 1)).off = off at *
        have e : off - 1 - i = (off - 1 - (i + 1)) + 1 := by omega
        rw [e, ← hr, List.take_succ_cons]
        rw [List.append_assoc] at h4
        rw [hdrop] at h4
        exact h4
    · have hne : ((s.step c).2 != op) = true := by simp [hop]
      simp only [hne, if_true]
      refine ⟨by first | rfl | trivial, fun _ => Nat.le_refl _, by omega, some c, ?_, ?_, ?_⟩
      · have : i + 1 - 1 - i = 0 := by omega
        simp only [this, List.take_zero, List.append_nil]
        exact (hstep s acc c hI).2 hop
      · intro c' h; cases h
        exact ⟨by omega, by simpa using hget⟩
      · intro h; cases h

/-- what the parser knows about `d` after a scan: `P` of (scanner, opcode, the byte just consumed, if any) -/
def DState.At (P : Scanner → Op → Option Byte → Prop) (d : DState) : Prop :=
  d.scan.Good ∧ d.off ≤ d.data.length + 1 ∧ ∃ ob, P d.scan d.opcode ob ∧
    (∀ c, ob = some c → 1 ≤ d.off ∧ d.data[d.off - 1]? = some c) ∧ (ob = none → d.off = d.data.length + 1)

theorem scanWhile_spec (op : Op) (d : DState)
    (I : Scanner → Bytes → Prop) (R : Scanner → Op → Bytes → Option Byte → Prop)
    (hstep : ∀ s acc c, I s acc → ((s.step c).2 = op → I (s.step c).1 (acc ++ [c])) ∧
      ((s.step c).2 ≠ op → R (s.step c).1 (s.step c).2 acc (some c)))
    (heof : ∀ s acc, I s acc → R s.eof.1 s.eof.2 acc none)
    (acc : Bytes) (hI : I d.scan acc) (hg : d.scan.Good) :
    (DState.scanWhile op d).data = d.data ∧
    (d.off ≤ d.data.length → d.off + 1 ≤ (DState.scanWhile op d).off) ∧
    (DState.scanWhile op d).At (fun s o ob =>
      R s o (acc ++ (d.data.drop d.off).take ((DState.scanWhile op d).off - 1 - d.off)) ob) := by
  obtain ⟨h1, h2, h3, ob, h4, h5, h6⟩ :=
    scanLoop_spec op d.data I R hstep heof (d.data.drop d.off) d.scan d.off acc hI rfl
  refine ⟨h1, h2, ?_⟩
  have hg' := scanWhile_good op d hg
  unfold DState.At
  unfold DState.scanWhile at hg' ⊢
  rw [h1]
  exact ⟨hg', h3, ob, h4, h5, h6⟩

theorem scanNext_spec (d : DState) (R : Scanner → Op → Option Byte → Prop)
    (hstep : ∀ c, R (d.scan.step c).1 (d.scan.step c).2 (some c))
    (heof : R d.scan.eof.1 d.scan.eof.2 none) (hg : d.scan.Good) :
    d.scanNext.data = d.data ∧ d.scanNext.At R := by
  have hg' := scanNext_good d hg
  unfold DState.scanNext at hg' ⊢
  split
  · rename_i c hc
    refine ⟨rfl, ?_⟩
    have hlt : d.off < d.data.length := by
      apply Classical.byContradiction; intro hn
      rw [List.getElem?_eq_none (by omega)] at hc; cases hc
    rw [hc] at hg'
    refine ⟨hg', by simp only; omega, some c, hstep c, ?_, ?_⟩
    · intro c' h; cases h
      exact ⟨by simp, by simpa using hc⟩
    · intro h; cases h
  · rename_i hc
    rw [hc] at hg'
    refine ⟨rfl, hg', Nat.le_refl _, none, heof, ?_, ?_⟩
    · intro c h; cases h
    · intro _; rfl

/-! ### scanner classes -/

def BV (σ : List PS) (s : Scanner) : Prop := s.st = .beginValue ∧ s.stack = σ ∧ s.endTop = false
def CE (σ : List PS) (s : Scanner) : Prop := s.st = .compoundOrEmpty ∧ s.stack = .compoundName :: σ ∧ s.endTop = false
def BS (σ : List PS) (s : Scanner) : Prop := s.st = .beginString ∧ s.stack = .compoundName :: σ ∧ s.endTop = false
def LA (σ : List PS) (s : Scanner) : Prop := s.st = .listOrArray ∧ s.stack = .listValue :: σ ∧ s.endTop = false
def AT (σ : List PS) (s : Scanner) : Prop := s.st = .arrayT ∧ s.stack = .listValue :: σ ∧ s.endTop = false
def EV (σ : List PS) (s : Scanner) : Prop := s.st = .endValue ∧ s.stack = σ ∧ σ ≠ [] ∧ s.endTop = false
def Popped (σ : List PS) (s : Scanner) : Prop :=
  s.stack = σ ∧ ((σ = [] ∧ s.st = .endTop ∧ s.endTop = true) ∨ (σ ≠ [] ∧ s.st = .endValue ∧ s.endTop = false))

/-- the scanner state right after `scanBeginLiteral`, with the byte `c` that began the literal -/
def LitStart (arr : Bool) (σ : List PS) (s : Scanner) (c : Byte) : Prop :=
  s.stack = σ ∧ s.endTop = false ∧
  ((s.st = .inDq ∧ c = 34) ∨ (s.st = .inSq ∧ c = 39) ∨
   ((s.st = .inUnquoted ∨ s.st = .num1 ∨ (arr = true ∧ s.st = .listOrArrayT ∧ ∃ r, σ = .listValue :: r)) ∧
      isAllowedInUnquotedString c = true))

/-- non-error outcomes of a value ending in a context with stack `σ` -/
def EndOk : List PS → Scanner → Op → Prop
  | [], _, o => o = .end_
  | .compoundName :: r, s, o => o = .compoundTagName ∧ BV (.compoundValue :: r) s
  | .compoundValue :: r, s, o => (o = .compoundValue ∧ BS r s) ∨ (o = .endValue ∧ Popped r s)
  | .listValue :: r, s, o => (o = .listValue ∧ BV (.listValue :: r) s) ∨ (o = .endValue ∧ Popped r s)

/-- non-error outcomes of leaving "a value begins here" -/
def BVOk (arr : Bool) (σ : List PS) (s : Scanner) (o : Op) (ob : Option Byte) : Prop :=
  (o = .beginLiteral ∧ ∃ c, ob = some c ∧ LitStart arr σ s c) ∨ (o = .beginCompound ∧ CE σ s) ∨ (o = .beginList ∧ LA σ s)

open Scanner

theorem num_sign_allowed (c : Byte) (h : (isNumber c || isSign c) = true) : isAllowedInUnquotedString c = true := by
  have : ∀ n : Fin (2^8), (isNumber (BitVec.ofFin n) || isSign (BitVec.ofFin n)) = true →
      isAllowedInUnquotedString (BitVec.ofFin n) = true := by decide +kernel
  exact this c.toFin h

/-- `stateBeginString`: skip a space, begin a literal, or fail -/
theorem stBeginString_out (arr : Bool) (σ : List PS) (s : Scanner) (c : Byte) (h2 : s.stack = σ) (h3 : s.endTop = false) :
    ((stBeginString s c).2 = .skipSpace ∧ (stBeginString s c).1 = s) ∨
    ((stBeginString s c).2 = .beginLiteral ∧ LitStart arr σ (stBeginString s c).1 c) ∨
    (stBeginString s c).2 = .error := by
  unfold stBeginString
  split
  · exact Or.inl ⟨rfl, rfl⟩
  · split
    · rename_i hc; right; left
      have : c = 39 := by simpa using hc
      simp [LitStart, h2, h3, this]
    · split
      · rename_i hc; right; left
        have : c = 34 := by simpa using hc
        simp [LitStart, h2, h3, this]
      · split
        · rename_i hc; right; left
          simp [LitStart, h2, h3, hc]
        · right; right; rfl

theorem BV_step (σ : List PS) (s : Scanner) (c : Byte) (h : BV σ s) :
    ((s.step c).2 = .skipSpace → BV σ (s.step c).1) ∧
    ((s.step c).2 ≠ .skipSpace → (s.step c).2 = .error ∨ BVOk false σ (s.step c).1 (s.step c).2 (some c)) := by
  obtain ⟨h1, h2, h3⟩ := h
  have key : (s.step c) = stBeginValue s c := by unfold Scanner.step; rw [h1]
  rw [key]
  unfold stBeginValue
  split
  · simp [BV, h2, h3]
  · rename_i hsp
    have hbs : ((stBeginString s c).2 = .skipSpace → BV σ (stBeginString s c).1) ∧
      ((stBeginString s c).2 ≠ .skipSpace → (stBeginString s c).2 = .error ∨
          BVOk false σ (stBeginString s c).1 (stBeginString s c).2 (some c)) := by
      rcases stBeginString_out false σ s c h2 h3 with ⟨a, b⟩ | ⟨a, b⟩ | a
      · rw [a, b]; exact ⟨fun _ => ⟨h1, h2, h3⟩, fun h => absurd rfl h⟩
      · rw [a]; exact ⟨(by intro h; cases h), fun _ => Or.inr (Or.inl ⟨rfl, c, rfl, b⟩)⟩
      · rw [a]; exact ⟨(by intro h; cases h), fun _ => Or.inl rfl⟩
    split
    · unfold push; dsimp only
      split <;> simp [BVOk, CE, h2, h3]
    · split
      · unfold push; dsimp only
        split <;> simp [BVOk, LA, h2, h3]
      · split
        · exact hbs
        · split
          · rename_i hn
            refine ⟨(by intro h; cases h), fun _ => Or.inr (Or.inl ⟨rfl, c, rfl, ?_⟩)⟩
            unfold stNum0
            simp only [hn, if_true]
            simp [LitStart, h2, h3, num_sign_allowed c hn]
          · split
            · exact hbs
            · exact ⟨(by intro h; cases h), fun _ => Or.inl rfl⟩

theorem eof_error (s : Scanner) (h3 : s.endTop = false) (h : (s.step 32#8).1.endTop = false) : s.eof.2 = .error := by
  unfold Scanner.eof
  split
  · rfl
  · rw [if_neg (by simp [h3])]
    dsimp only
    rw [if_neg (by simp [h])]

theorem space32 : isSpace (32#8) = true := by decide

theorem BV_eof (σ : List PS) (s : Scanner) (h : BV σ s) : s.eof.2 = .error := by
  obtain ⟨h1, h2, h3⟩ := h
  apply eof_error s h3
  have key : (s.step 32#8) = stBeginValue s 32#8 := by unfold Scanner.step; rw [h1]
  rw [key]
  unfold stBeginValue
  simp [space32, h3]



theorem pop_popped (s : Scanner) (ps : PS) (r : List PS) (h : s.stack = ps :: r) (he : s.endTop = false) :
    Popped r (pop s) := by
  unfold pop
  rw [h]
  cases r with
  | nil => simp [Popped]
  | cons a r => simp [Popped, he]

/-- `stateEndValue` on a stack `σ`: a space (σ ≠ []), an error, or one of the delimiters legal in the context -/
theorem stEndValue_out (σ : List PS) (s : Scanner) (c : Byte) (h2 : s.stack = σ) (h3 : s.endTop = false) :
    ((stEndValue s c).2 = .skipSpace ∧ EV σ (stEndValue s c).1) ∨ (stEndValue s c).2 = .error ∨
    EndOk σ (stEndValue s c).1 (stEndValue s c).2 := by
  unfold stEndValue
  cases σ with
  | nil =>
    rw [h2]; dsimp only
    right; right
    unfold stEndTop
    split <;> simp [EndOk]
  | cons ps r =>
    rw [h2]; dsimp only
    split
    · left; simp [EV, h2, h3]
    · cases ps with
      | compoundName =>
        dsimp only
        split
        · right; right; simp [EndOk, BV, h3]
        · right; left; rfl
      | compoundValue =>
        dsimp only
        split
        · right; right; simp [EndOk, BS, h3]
        · split
          · right; right; exact Or.inr ⟨rfl, pop_popped s _ r h2 h3⟩
          · right; left; rfl
      | listValue =>
        dsimp only
        split
        · right; right; simp [EndOk, BV, h2, h3]
        · split
          · right; right; exact Or.inr ⟨rfl, pop_popped s _ r h2 h3⟩
          · right; left; rfl

theorem stEndValue_st_irrel (s : Scanner) (x : St) (c : Byte) :
    stEndValue { s with st := x } c = stEndValue s c := by
  unfold stEndValue
  dsimp only
  cases hs : s.stack with
  | nil => simp [stEndTop, Scanner.error]
  | cons ps r =>
    dsimp only
    split
    · rfl
    · cases ps <;> simp [Scanner.error, pop, hs]



/-- `body` is a run of complete string items (plain bytes and backslash pairs) that unquotes to `r` -/
def Norm (q : Byte) (body r : Bytes) : Prop :=
  ∀ tail a, unquoteLoop q (body ++ tail) a = unquoteLoop q tail (a ++ r)

theorem unquoteLoop_plain (q c : Byte) (rest acc : Bytes) (h1 : (c == q) = false) (h2 : (c == (92 : Byte)) = false) :
    unquoteLoop q (c :: rest) acc = unquoteLoop q rest (acc ++ [c]) := by
  conv => lhs; unfold unquoteLoop
  simp only [h1, h2, Bool.false_eq_true, if_false]

theorem unquoteLoop_esc (q c : Byte) (rest acc : Bytes) (hq : ((92 : Byte) == q) = false) :
    unquoteLoop q (92 :: c :: rest) acc = unquoteLoop q rest (acc ++ [c]) := by
  conv => lhs; unfold unquoteLoop
  simp only [hq, Bool.false_eq_true, if_false, beq_self_eq_true, if_true]

theorem unquoteLoop_close (q : Byte) (rest acc : Bytes) : unquoteLoop q (q :: rest) acc = .ok acc := by
  unfold unquoteLoop
  simp

theorem Norm.nil (q : Byte) : Norm q [] [] := by intro tail a; simp

theorem Norm.snoc {q : Byte} {body r : Bytes} (h : Norm q body r) (c : Byte)
    (h1 : (c == q) = false) (h2 : (c == (92 : Byte)) = false) : Norm q (body ++ [c]) (r ++ [c]) := by
  intro tail a
  rw [List.append_assoc, h]
  simp only [List.cons_append, List.nil_append]
  rw [unquoteLoop_plain q c tail _ h1 h2, List.append_assoc]

theorem Norm.esc {q : Byte} {body r : Bytes} (h : Norm q body r) (hq : ((92 : Byte) == q) = false) (c : Byte) :
    Norm q ((body ++ [92]) ++ [c]) (r ++ [c]) := by
  intro tail a
  rw [List.append_assoc, List.append_assoc, h]
  simp only [List.cons_append, List.nil_append]
  rw [unquoteLoop_esc q c tail _ hq, List.append_assoc]

theorem Norm.close {q : Byte} {body r : Bytes} (h : Norm q body r) (tail a : Bytes) :
    unquoteLoop q ((body ++ [q]) ++ tail) a = .ok (a ++ r) := by
  rw [List.append_assoc, h]
  simp only [List.cons_append, List.nil_append]
  rw [unquoteLoop_close]

/-- the shape of every literal the scanner delivers: a properly closed quoted string, or bytes of the unquoted class -/
def LitShape : Bytes → Prop
  | [] => False
  | q :: rest =>
    if q == 34 || q == 39 then ∃ r, ∀ a, unquoteLoop q rest a = .ok (a ++ r)
    else ∀ c ∈ q :: rest, isAllowedInUnquotedString c = true

/-- a complete literal, with what the scanner knows about it: bytes of the unquoted class, or a quoted string whose
body is a run of complete items closed by its own quote -/
def LitDone (acc : Bytes) : Prop :=
  (acc ≠ [] ∧ ∀ c ∈ acc, isAllowedInUnquotedString c = true) ∨
  (∃ q body r, (q = 34 ∨ q = 39) ∧ acc = q :: (body ++ [q]) ∧ Norm q body r)

def isU (st : St) : Prop :=
  st = .inUnquoted ∨ st = .num1 ∨ st = .numDot ∨ st = .numDot0 ∨ st = .numExp ∨ st = .numExp0

/-- the literal invariant: scanner state inside a literal ↔ the bytes of the literal consumed so far -/
def LitInv (arr : Bool) (σ : List PS) (s : Scanner) (acc : Bytes) : Prop :=
  s.stack = σ ∧ s.endTop = false ∧
  ( (s.st = .inDq ∧ ∃ body r, acc = 34 :: body ∧ Norm 34 body r)
  ∨ (s.st = .inDqEsc ∧ ∃ body r, acc = 34 :: (body ++ [92]) ∧ Norm 34 body r)
  ∨ (s.st = .inSq ∧ ∃ body r, acc = 39 :: body ∧ Norm 39 body r)
  ∨ (s.st = .inSqEsc ∧ ∃ body r, acc = 39 :: (body ++ [92]) ∧ Norm 39 body r)
  ∨ ((isU s.st ∨ (arr = true ∧ s.st = .listOrArrayT ∧ (∃ r, σ = .listValue :: r) ∧ acc.length = 1)) ∧
        acc ≠ [] ∧ ∀ c ∈ acc, isAllowedInUnquotedString c = true)
  ∨ (s.st = .endValue ∧ LitDone acc) )

theorem litShape_of_allowed (acc : Bytes) (h1 : acc ≠ []) (h2 : ∀ c ∈ acc, isAllowedInUnquotedString c = true) :
    LitShape acc := by
  cases acc with
  | nil => exact absurd rfl h1
  | cons q rest =>
    unfold LitShape
    have := allowed_not_quote q (h2 q (by simp))
    simp only [this.1, this.2, Bool.or_self, Bool.false_eq_true, if_false]
    exact h2

theorem LitDone.shape {acc : Bytes} (h : LitDone acc) : LitShape acc := by
  rcases h with ⟨h1, h2⟩ | ⟨q, body, r, hq, ha, hn⟩
  · exact litShape_of_allowed acc h1 h2
  · rw [ha]
    unfold LitShape
    have : (q == 34 || q == 39) = true := by rcases hq with e | e <;> subst e <;> decide
    simp only [this, if_true]
    refine ⟨r, fun a => ?_⟩
    have := hn.close [] a
    simpa using this

/-- `stateEndValue` accepts only white space and the delimiters `: , } ]` (at the top level any other byte is
recorded as an error in the scanner, which the final `scanWhile(scanEnd)` reports) -/
theorem stEndValue_ok_not_allowed (s : Scanner) (c : Byte) (h : (stEndValue s c).2 ≠ .error)
    (he : s.stack ≠ [] ∨ (stEndValue s c).1.err = false) : isAllowedInUnquotedString c = false := by
  have hd : ∀ c : Byte, (isSpace c = true ∨ c = 58 ∨ c = 44 ∨ c = 125 ∨ c = 93) → isAllowedInUnquotedString c = false := by
    have : ∀ n : Fin (2^8), (let c : Byte := BitVec.ofFin n
        (isSpace c = true ∨ c = 58 ∨ c = 44 ∨ c = 125 ∨ c = 93) → isAllowedInUnquotedString c = false) := by
      decide +kernel
    exact fun c => this c.toFin
  unfold stEndValue at h he
  cases hs : s.stack with
  | nil =>
    rw [hs] at h he; dsimp only at h he
    unfold stEndTop at he
    by_cases hsp : isSpace c = true
    · exact hd c (Or.inl hsp)
    · simp [hsp, Scanner.error] at he
  | cons ps r =>
    rw [hs] at h; dsimp only at h
    by_cases hsp : isSpace c = true
    · exact hd c (Or.inl hsp)
    · rw [if_neg hsp] at h
      cases ps <;> dsimp only at h
      · by_cases h1 : (c == 58) = true
        · exact hd c (Or.inr (Or.inl (eq_of_beq h1)))
        · rw [if_neg h1] at h; simp [Scanner.error] at h
      · by_cases h1 : (c == 44) = true
        · exact hd c (Or.inr (Or.inr (Or.inl (eq_of_beq h1))))
        · rw [if_neg h1] at h
          by_cases h2 : (c == 125) = true
          · exact hd c (Or.inr (Or.inr (Or.inr (Or.inl (eq_of_beq h2)))))
          · rw [if_neg h2] at h; simp [Scanner.error] at h
      · by_cases h1 : (c == 44) = true
        · exact hd c (Or.inr (Or.inr (Or.inl (eq_of_beq h1))))
        · rw [if_neg h1] at h
          by_cases h2 : (c == 93) = true
          · exact hd c (Or.inr (Or.inr (Or.inr (Or.inr (eq_of_beq h2)))))
          · rw [if_neg h2] at h; simp [Scanner.error] at h

/-- under a non-empty stack `stateEndValue` answers `scanSkipSpace` exactly on white space -/
theorem stEndValue_wsrel (s : Scanner) (c : Byte) (hs : s.stack ≠ []) :
    ((stEndValue s c).2 = .skipSpace → isSpace c = true) ∧ ((stEndValue s c).2 ≠ .skipSpace → isSpace c = false) := by
  unfold stEndValue
  cases hst : s.stack with
  | nil => exact absurd hst hs
  | cons ps r =>
    dsimp only
    by_cases hsp : isSpace c = true
    · rw [if_pos hsp]; exact ⟨fun _ => hsp, fun h => absurd rfl h⟩
    · rw [if_neg hsp]
      refine ⟨fun h => ?_, fun _ => by simpa using hsp⟩
      exfalso; revert h
      cases ps <;> dsimp only <;> (repeat' split) <;> simp [Scanner.error]

/-- relation between the opcode of a step that ended a value (under the stack `σ`) and the byte it consumed:
`scanSkipSpace` exactly on white space, and each delimiter opcode on its own character -/
def WsRel (σ : List PS) (o : Op) (c : Byte) : Prop :=
  (o = .skipSpace → isSpace c = true) ∧ (o ≠ .skipSpace → σ ≠ [] → isSpace c = false) ∧
  (o = .compoundTagName → c = 58) ∧ (o = .compoundValue → c = 44) ∧ (o = .listValue → c = 44) ∧
  (o = .endValue → (∃ r, σ = .compoundValue :: r ∧ c = 125) ∨ (∃ r, σ = .listValue :: r ∧ c = 93))

theorem stEndValue_WsRel (σ : List PS) (s : Scanner) (c : Byte) (h2 : s.stack = σ) :
    WsRel σ (stEndValue s c).2 c := by
  unfold stEndValue
  cases σ with
  | nil =>
    rw [h2]; dsimp only; unfold stEndTop
    refine ⟨?_, fun _ h => absurd rfl h, ?_, ?_, ?_, ?_⟩ <;> (split <;> simp)
  | cons ps r =>
    rw [h2]; dsimp only
    by_cases hsp : isSpace c = true
    · rw [if_pos hsp]
      exact ⟨fun _ => hsp, fun h => absurd rfl h, by simp, by simp, by simp, by simp⟩
    · rw [if_neg hsp]
      have hsp' : isSpace c = false := by simpa using hsp
      cases ps <;> dsimp only
      · by_cases h1 : (c == 58) = true
        · rw [if_pos h1]
          exact ⟨by simp, fun _ _ => hsp', fun _ => eq_of_beq h1, by simp, by simp, by simp⟩
        · rw [if_neg h1]
          exact ⟨by simp [Scanner.error], fun _ _ => hsp', by simp [Scanner.error], by simp [Scanner.error],
            by simp [Scanner.error], by simp [Scanner.error]⟩
      · by_cases h1 : (c == 44) = true
        · rw [if_pos h1]
          exact ⟨by simp, fun _ _ => hsp', by simp, fun _ => eq_of_beq h1, by simp, by simp⟩
        · rw [if_neg h1]
          by_cases h3 : (c == 125) = true
          · rw [if_pos h3]
            exact ⟨by simp, fun _ _ => hsp', by simp, by simp, by simp, fun _ => Or.inl ⟨r, rfl, eq_of_beq h3⟩⟩
          · rw [if_neg h3]
            exact ⟨by simp [Scanner.error], fun _ _ => hsp', by simp [Scanner.error], by simp [Scanner.error],
              by simp [Scanner.error], by simp [Scanner.error]⟩
      · by_cases h1 : (c == 44) = true
        · rw [if_pos h1]
          exact ⟨by simp, fun _ _ => hsp', by simp, by simp, fun _ => eq_of_beq h1, by simp⟩
        · rw [if_neg h1]
          by_cases h3 : (c == 93) = true
          · rw [if_pos h3]
            exact ⟨by simp, fun _ _ => hsp', by simp, by simp, by simp, fun _ => Or.inr ⟨r, rfl, eq_of_beq h3⟩⟩
          · rw [if_neg h3]
            exact ⟨by simp [Scanner.error], fun _ _ => hsp', by simp [Scanner.error], by simp [Scanner.error],
              by simp [Scanner.error], by simp [Scanner.error]⟩

/-- after the top-level value: white space keeps the scanner waiting for the end of the text, any other byte puts
it into the error state -/
def TopSt (σ : List PS) (s : Scanner) (c : Byte) : Prop :=
  σ = [] → (isSpace c = true ∧ s.st = .endTop) ∨ (s.st = .error ∧ s.err = true)

theorem stEndValue_TopSt (σ : List PS) (s : Scanner) (c : Byte) (h2 : s.stack = σ) :
    TopSt σ (stEndValue s c).1 c := by
  intro hσ
  unfold stEndValue
  rw [h2, hσ]; dsimp only
  unfold stEndTop
  by_cases hsp : isSpace c = true
  · simp [hsp]
  · simp [hsp, Scanner.error]

theorem stEndValue_ne_listType (s : Scanner) (c : Byte) : (stEndValue s c).2 ≠ .listType := by
  unfold stEndValue
  cases hs : s.stack with
  | nil => dsimp only; unfold stEndTop; split <;> simp
  | cons ps r =>
    dsimp only
    split
    · simp
    · cases ps <;> dsimp only <;> (repeat' split) <;> simp [Scanner.error]

theorem LitStart.inv {arr : Bool} {σ : List PS} {s : Scanner} {c : Byte} (h : LitStart arr σ s c) :
    LitInv arr σ s [c] := by
  obtain ⟨h1, h2, h3⟩ := h
  refine ⟨h1, h2, ?_⟩
  rcases h3 with ⟨a, b⟩ | ⟨a, b⟩ | ⟨a, b⟩
  · left; exact ⟨a, [], [], by rw [b], Norm.nil _⟩
  · right; right; left; exact ⟨a, [], [], by rw [b], Norm.nil _⟩
  · right; right; right; right; left
    refine ⟨?_, by simp, by intro x hx; simp at hx; rw [hx]; exact b⟩
    rcases a with a | a | a
    · left; left; exact a
    · left; right; left; exact a
    · right; exact ⟨a.1, a.2.1, a.2.2, rfl⟩




theorem set_st_self (s : Scanner) : { s with st := s.st } = s := by cases s; rfl

/-- one step inside an unquoted / numeric literal: stay in the literal on a byte of the unquoted class, or hand the
byte to `stateEndValue`, or fail -/
def UOut (s : Scanner) (c : Byte) (r : Scanner × Op) : Prop :=
  (∃ st', r = ({ s with st := st' }, .cont) ∧ (isU st' ∨ st' = .endValue) ∧ isAllowedInUnquotedString c = true)
  ∨ r = stEndValue s c ∨ r = Scanner.error s

theorem fd_allowed (c : Byte) (h : (c == 102 || c == 70 || c == 100 || c == 68) = true) :
    isAllowedInUnquotedString c = true := by
  have : ∀ n : Fin (2^8), (let c : Byte := BitVec.ofFin n
      (c == 102 || c == 70 || c == 100 || c == 68) = true → isAllowedInUnquotedString c = true) := by decide +kernel
  exact this c.toFin h
theorem bsl_allowed (c : Byte) (h : (c == 98 || c == 66 || c == 115 || c == 83 || c == 108 || c == 76) = true) :
    isAllowedInUnquotedString c = true := by
  have : ∀ n : Fin (2^8), (let c : Byte := BitVec.ofFin n
      (c == 98 || c == 66 || c == 115 || c == 83 || c == 108 || c == 76) = true → isAllowedInUnquotedString c = true) := by decide +kernel
  exact this c.toFin h
theorem eE_allowed (c : Byte) (h : (c == 101 || c == 69) = true) : isAllowedInUnquotedString c = true := by
  have : ∀ n : Fin (2^8), (let c : Byte := BitVec.ofFin n
      (c == 101 || c == 69) = true → isAllowedInUnquotedString c = true) := by decide +kernel
  exact this c.toFin h
theorem dot_allowed (c : Byte) (h : (c == 46) = true) : isAllowedInUnquotedString c = true := by
  have : ∀ n : Fin (2^8), (let c : Byte := BitVec.ofFin n
      (c == 46) = true → isAllowedInUnquotedString c = true) := by decide +kernel
  exact this c.toFin h
theorem num_allowed (c : Byte) (h : isNumber c = true) : isAllowedInUnquotedString c = true := by
  unfold isAllowedInUnquotedString; simp [h]

theorem stEndNumDotValue_U (s : Scanner) (c : Byte) : UOut s c (stEndNumDotValue s c) := by
  unfold stEndNumDotValue
  split
  · rename_i h
    left; exact ⟨.endValue, rfl, Or.inr rfl, fd_allowed c h⟩
  · right; left; rfl

theorem stInUnquoted_U (s : Scanner) (c : Byte) (hs : isU s.st) : UOut s c (stInUnquoted s c) := by
  unfold stInUnquoted
  split
  · rename_i h
    left; exact ⟨s.st, by rw [set_st_self s], Or.inl hs, h⟩
  · right; left; rfl

theorem stEndNumValue_U (s : Scanner) (c : Byte) : UOut s c (stEndNumValue s c) := by
  unfold stEndNumValue
  split
  · rename_i h
    left; exact ⟨.endValue, rfl, Or.inr rfl, bsl_allowed c h⟩
  · split
    · exact stEndNumDotValue_U s c
    · split
      · rename_i h
        left; exact ⟨.inUnquoted, rfl, Or.inl (Or.inl rfl), h⟩
      · right; left; rfl

theorem U_step (s : Scanner) (c : Byte) (hs : isU s.st) : UOut s c (s.step c) := by
  unfold Scanner.step
  rcases hs with h | h | h | h | h | h <;> rw [h] <;> dsimp only
  · exact stInUnquoted_U s c (Or.inl h)
  · split
    · rename_i hc; left; exact ⟨.num1, rfl, Or.inl (Or.inr (Or.inl rfl)), num_allowed c hc⟩
    · split
      · rename_i hc; left; exact ⟨.numDot, rfl, Or.inl (Or.inr (Or.inr (Or.inl rfl))), dot_allowed c hc⟩
      · exact stEndNumValue_U s c
  · split
    · rename_i hc; left; exact ⟨.numDot0, rfl, Or.inl (by simp [isU]), num_allowed c hc⟩
    · split
      · rename_i hc; left; exact ⟨.numExp, rfl, Or.inl (by simp [isU]), eE_allowed c hc⟩
      · split
        · rename_i hc; left; exact ⟨.inUnquoted, rfl, Or.inl (by simp [isU]), hc⟩
        · right; right; rfl
  · split
    · rename_i hc; left; exact ⟨.numDot0, rfl, Or.inl (by simp [isU]), num_allowed c hc⟩
    · split
      · rename_i hc; left; exact ⟨.numExp, rfl, Or.inl (by simp [isU]), eE_allowed c hc⟩
      · exact stEndNumDotValue_U s c
  · split
    · rename_i hc; left; exact ⟨.numExp0, rfl, Or.inl (by simp [isU]), num_sign_allowed c hc⟩
    · exact stEndNumDotValue_U s c
  · split
    · rename_i hc; left; exact ⟨.numExp0, rfl, Or.inl (by simp [isU]), num_allowed c hc⟩
    · exact stEndNumDotValue_U s c




/-- non-error outcomes of leaving a literal -/
def LitOk (arr : Bool) (σ : List PS) (s : Scanner) (o : Op) : Prop :=
  (o = .skipSpace ∧ EV σ s) ∨ EndOk σ s o ∨ (arr = true ∧ o = .listType ∧ ∃ r, σ = .listValue :: r ∧ AT r s)

theorem EndOk_ne_cont {σ : List PS} {s : Scanner} {o : Op} (h : EndOk σ s o) : o ≠ .cont := by
  intro e; subst e
  cases σ with
  | nil => simp [EndOk] at h
  | cons ps r => cases ps <;> simp [EndOk] at h

/-- result of `stateEndValue` as a literal outcome -/
theorem stEndValue_lit (arr : Bool) (σ : List PS) (s : Scanner) (c : Byte) (h2 : s.stack = σ) (h3 : s.endTop = false) :
    (stEndValue s c).2 ≠ .cont ∧ ((stEndValue s c).2 = .error ∨ LitOk arr σ (stEndValue s c).1 (stEndValue s c).2) := by
  rcases stEndValue_out σ s c h2 h3 with ⟨a, b⟩ | a | a
  · exact ⟨by rw [a]; simp, Or.inr (Or.inl ⟨a, b⟩)⟩
  · exact ⟨by rw [a]; simp, Or.inl a⟩
  · exact ⟨EndOk_ne_cont a, Or.inr (Or.inr (Or.inl a))⟩

theorem allowed_append {acc : Bytes} {c : Byte} (h : ∀ x ∈ acc, isAllowedInUnquotedString x = true)
    (hc : isAllowedInUnquotedString c = true) : ∀ x ∈ acc ++ [c], isAllowedInUnquotedString x = true := by
  intro x hx
  rcases List.mem_append.mp hx with h' | h'
  · exact h x h'
  · simp at h'; rw [h']; exact hc

theorem Lit_of_UOut (arr : Bool) (σ : List PS) (s : Scanner) (c : Byte) (acc : Bytes) (r : Scanner × Op)
    (h2 : s.stack = σ) (h3 : s.endTop = false) (ha : acc ≠ [])
    (hall : ∀ x ∈ acc, isAllowedInUnquotedString x = true) (hu : UOut s c r) :
    (r.2 = .cont → LitInv arr σ r.1 (acc ++ [c])) ∧
    (r.2 ≠ .cont → r.2 = .error ∨ (LitDone acc ∧ LitOk arr σ r.1 r.2 ∧
      ((σ ≠ [] ∨ r.1.err = false) → isAllowedInUnquotedString c = false) ∧ WsRel σ r.2 c ∧
      (r.2 = .listType → c = 59 ∧ acc.length = 1) ∧ TopSt σ r.1 c)) := by
  rcases hu with ⟨st', e, hst, hc⟩ | e | e
  · rw [e]
    refine ⟨fun _ => ⟨h2, h3, ?_⟩, fun h => absurd rfl h⟩
    rcases hst with hst | hst
    · right; right; right; right; left
      exact ⟨Or.inl hst, by simp, allowed_append hall hc⟩
    · right; right; right; right; right
      exact ⟨hst, Or.inl ⟨by simp, allowed_append hall hc⟩⟩
  · rw [e]
    have := stEndValue_lit arr σ s c h2 h3
    refine ⟨fun h => absurd h this.1, fun _ => ?_⟩
    by_cases herr : (stEndValue s c).2 = .error
    · exact Or.inl herr
    · rcases this.2 with h | h
      · exact Or.inl h
      · exact Or.inr ⟨Or.inl ⟨ha, hall⟩, h, fun he => stEndValue_ok_not_allowed s c herr (by rw [h2]; exact he),
          stEndValue_WsRel σ s c h2, fun hl => absurd hl (stEndValue_ne_listType s c), stEndValue_TopSt σ s c h2⟩
  · rw [e]
    exact ⟨fun h => by simp [Scanner.error] at h, fun _ => Or.inl rfl⟩

theorem q34 : ((92 : Byte) == (34 : Byte)) = false := by decide
theorem q39 : ((92 : Byte) == (39 : Byte)) = false := by decide

/-- one scanner step inside a literal -/
theorem Lit_step (arr : Bool) (σ : List PS) (s : Scanner) (acc : Bytes) (c : Byte) (h : LitInv arr σ s acc) :
    ((s.step c).2 = .cont → LitInv arr σ (s.step c).1 (acc ++ [c])) ∧
    ((s.step c).2 ≠ .cont → (s.step c).2 = .error ∨
      (LitDone acc ∧ LitOk arr σ (s.step c).1 (s.step c).2 ∧
        ((σ ≠ [] ∨ (s.step c).1.err = false) → isAllowedInUnquotedString c = false) ∧
        WsRel σ (s.step c).2 c ∧ ((s.step c).2 = .listType → c = 59 ∧ acc.length = 1) ∧
        TopSt σ (s.step c).1 c)) := by
  obtain ⟨h2, h3, hd⟩ := h
  rcases hd with ⟨hst, body, r, ha, hn⟩ | ⟨hst, body, r, ha, hn⟩ | ⟨hst, body, r, ha, hn⟩ | ⟨hst, body, r, ha, hn⟩
      | ⟨hst, ha, hall⟩ | ⟨hst, hsh⟩
  · -- inDq
    have key : s.step c = (if c == 92 then ({ s with st := .inDqEsc }, .cont)
        else if c == 34 then ({ s with st := .endValue }, .cont) else (s, .cont)) := by
      unfold Scanner.step; rw [hst]
    rw [key]
    split
    · rename_i hc
      have : c = 92 := by simpa using hc
      subst this
      exact ⟨fun _ => ⟨h2, h3, Or.inr (Or.inl ⟨rfl, body, r, by rw [ha]; rfl, hn⟩)⟩, fun h => absurd rfl h⟩
    · split
      · rename_i hc
        have : c = 34 := by simpa using hc
        subst this
        refine ⟨fun _ => ⟨h2, h3, Or.inr (Or.inr (Or.inr (Or.inr (Or.inr ⟨rfl, ?_⟩))))⟩, fun h => absurd rfl h⟩
        rw [ha]
        exact Or.inr ⟨34, body, r, Or.inl rfl, by simp, hn⟩
      · rename_i hc1 hc2
        refine ⟨fun _ => ⟨h2, h3, Or.inl ⟨hst, body ++ [c], r ++ [c], by rw [ha]; rfl, ?_⟩⟩, fun h => absurd rfl h⟩
        exact hn.snoc c (by simpa using hc2) (by simpa using hc1)
  · -- inDqEsc
    have key : s.step c = (if c == 98 || c == 102 || c == 110 || c == 114 || c == 116 || c == 92 || c == 47 || c == 34 then
        ({ s with st := .inDq }, .cont) else Scanner.error s) := by
      unfold Scanner.step; rw [hst]
    rw [key]
    split
    · refine ⟨fun _ => ⟨h2, h3, Or.inl ⟨rfl, (body ++ [92]) ++ [c], r ++ [c], by rw [ha]; simp, hn.esc q34 c⟩⟩,
        fun h => absurd rfl h⟩
    · exact ⟨fun h => by simp [Scanner.error] at h, fun _ => Or.inl rfl⟩
  · -- inSq
    have key : s.step c = (if c == 92 then ({ s with st := .inSqEsc }, .cont)
        else if c == 39 then ({ s with st := .endValue }, .cont) else (s, .cont)) := by
      unfold Scanner.step; rw [hst]
    rw [key]
    split
    · rename_i hc
      have : c = 92 := by simpa using hc
      subst this
      exact ⟨fun _ => ⟨h2, h3, Or.inr (Or.inr (Or.inr (Or.inl ⟨rfl, body, r, by rw [ha]; rfl, hn⟩)))⟩, fun h => absurd rfl h⟩
    · split
      · rename_i hc
        have : c = 39 := by simpa using hc
        subst this
        refine ⟨fun _ => ⟨h2, h3, Or.inr (Or.inr (Or.inr (Or.inr (Or.inr ⟨rfl, ?_⟩))))⟩, fun h => absurd rfl h⟩
        rw [ha]
        exact Or.inr ⟨39, body, r, Or.inr rfl, by simp, hn⟩
      · rename_i hc1 hc2
        refine ⟨fun _ => ⟨h2, h3, Or.inr (Or.inr (Or.inl ⟨hst, body ++ [c], r ++ [c], by rw [ha]; rfl, ?_⟩))⟩, fun h => absurd rfl h⟩
        exact hn.snoc c (by simpa using hc2) (by simpa using hc1)
  · -- inSqEsc
    have key : s.step c = (if c == 92 || c == 39 then ({ s with st := .inSq }, .cont) else Scanner.error s) := by
      unfold Scanner.step; rw [hst]
    rw [key]
    split
    · refine ⟨fun _ => ⟨h2, h3, Or.inr (Or.inr (Or.inl ⟨rfl, (body ++ [92]) ++ [c], r ++ [c], by rw [ha]; simp, hn.esc q39 c⟩))⟩,
        fun h => absurd rfl h⟩
    · exact ⟨fun h => by simp [Scanner.error] at h, fun _ => Or.inl rfl⟩
  · -- unquoted / numeric
    rcases hst with hu | ⟨harr, hst, ⟨r, hσ⟩, hlen1⟩
    · exact Lit_of_UOut arr σ s c acc _ h2 h3 ha hall (U_step s c hu)
    · have key : s.step c = (if c == 59 then ({ s with st := .arrayT }, .listType)
          else stInUnquoted { s with st := .inUnquoted } c) := by
        unfold Scanner.step; rw [hst]
      rw [key]
      split
      · rename_i hc59
        refine ⟨(by intro h; cases h), fun _ => Or.inr ⟨Or.inl ⟨ha, hall⟩, Or.inr (Or.inr ⟨harr, rfl, r, hσ, ?_⟩), ?_⟩⟩
        · exact ⟨rfl, by rw [← hσ]; exact h2, h3⟩
        · have : c = 59 := eq_of_beq hc59
          subst this
          exact ⟨fun _ => by decide, ⟨(by intro h; cases h), fun _ _ => by decide, (by intro h; cases h),
            (by intro h; cases h), (by intro h; cases h), (by intro h; cases h)⟩, fun _ => ⟨rfl, hlen1⟩,
            (by intro h; rw [hσ] at h; cases h)⟩
      · have hu : UOut { s with st := .inUnquoted } c (stInUnquoted { s with st := .inUnquoted } c) :=
          stInUnquoted_U _ c (Or.inl rfl)
        have := Lit_of_UOut arr σ { s with st := .inUnquoted } c acc _ h2 h3 ha hall hu
        exact this
  · -- endValue: the literal is complete
    have key : s.step c = stEndValue s c := by unfold Scanner.step; rw [hst]
    rw [key]
    have := stEndValue_lit arr σ s c h2 h3
    refine ⟨fun h => absurd h this.1, fun _ => ?_⟩
    by_cases herr : (stEndValue s c).2 = .error
    · exact Or.inl herr
    · rcases this.2 with h | h
      · exact Or.inl h
      · exact Or.inr ⟨hsh, h, fun he => stEndValue_ok_not_allowed s c herr (by rw [h2]; exact he),
          stEndValue_WsRel σ s c h2, fun hl => absurd hl (stEndValue_ne_listType s c), stEndValue_TopSt σ s c h2⟩




theorem LitStart.mono {σ : List PS} {s : Scanner} {c : Byte} (h : LitStart false σ s c) : LitStart true σ s c := by
  obtain ⟨a, b, d⟩ := h
  refine ⟨a, b, ?_⟩
  rcases d with d | d | ⟨d, e⟩
  · exact Or.inl d
  · exact Or.inr (Or.inl d)
  · refine Or.inr (Or.inr ⟨?_, e⟩)
    rcases d with d | d | d
    · exact Or.inl d
    · exact Or.inr (Or.inl d)
    · simp at d

theorem BVOk.mono {σ : List PS} {s : Scanner} {o : Op} {ob : Option Byte} (h : BVOk false σ s o ob) :
    BVOk true σ s o ob := by
  rcases h with ⟨a, c, b, d⟩ | h | h
  · exact Or.inl ⟨a, c, b, d.mono⟩
  · exact Or.inr (Or.inl h)
  · exact Or.inr (Or.inr h)

theorem stBeginString_ns (σ : List PS) (s : Scanner) (c : Byte) (h2 : s.stack = σ) (h3 : s.endTop = false)
    (hsp : isSpace c = false) :
    (stBeginString s c).2 = .error ∨ ((stBeginString s c).2 = .beginLiteral ∧ LitStart false σ (stBeginString s c).1 c) := by
  unfold stBeginString
  simp only [hsp, Bool.false_eq_true, if_false]
  split
  · rename_i hc; right
    have : c = 39 := by simpa using hc
    simp [LitStart, h2, h3, this]
  · split
    · rename_i hc; right
      have : c = 34 := by simpa using hc
      simp [LitStart, h2, h3, this]
    · split
      · rename_i hc; right
        simp [LitStart, h2, h3, hc]
      · left; rfl

/-- `stateBeginValue` on a non-space byte -/
theorem stBeginValue_ns (σ : List PS) (s : Scanner) (c : Byte) (h2 : s.stack = σ) (h3 : s.endTop = false)
    (hsp : isSpace c = false) :
    (stBeginValue s c).2 = .error ∨ BVOk false σ (stBeginValue s c).1 (stBeginValue s c).2 (some c) := by
  have hbs : (stBeginString s c).2 = .error ∨
      BVOk false σ (stBeginString s c).1 (stBeginString s c).2 (some c) := by
    rcases stBeginString_ns σ s c h2 h3 hsp with h | ⟨a, b⟩
    · exact Or.inl h
    · exact Or.inr (Or.inl ⟨a, c, rfl, b⟩)
  unfold stBeginValue
  simp only [hsp, Bool.false_eq_true, if_false]
  split
  · unfold push; dsimp only
    split <;> simp [BVOk, CE, h2, h3]
  · split
    · unfold push; dsimp only
      split <;> simp [BVOk, LA, h2, h3]
    · split
      · exact hbs
      · split
        · rename_i hn
          refine Or.inr (Or.inl ⟨rfl, c, rfl, ?_⟩)
          unfold stNum0
          simp only [hn, if_true]
          simp [LitStart, h2, h3, num_sign_allowed c hn]
        · split
          · exact hbs
          · exact Or.inl rfl



/-- non-error outcomes where a compound name (or `}`) is expected -/
def KeyOk (σ : List PS) (s : Scanner) (o : Op) (ob : Option Byte) : Prop :=
  (o = .beginLiteral ∧ ∃ c, ob = some c ∧ LitStart false (.compoundName :: σ) s c) ∨ (o = .endValue ∧ Popped σ s)

/-- non-error outcomes after `[` or `X;`: the closing bracket, or a value begins (`τ = listValue :: σ`) -/
def ElemOk (arr : Bool) (σ : List PS) (s : Scanner) (o : Op) (ob : Option Byte) : Prop :=
  (o = .endValue ∧ Popped σ s) ∨ BVOk arr (.listValue :: σ) s o ob

theorem stEndValue_close (s : Scanner) (c : Byte) (ps : PS) (r : List PS) (hs : s.stack = ps :: r)
    (h3 : s.endTop = false) (hps : ps = .compoundValue ∧ c = 125 ∨ ps = .listValue ∧ c = 93) :
    (stEndValue s c).2 = .endValue ∧ Popped r (stEndValue s c).1 := by
  unfold stEndValue
  rw [hs]; dsimp only
  rcases hps with ⟨a, b⟩ | ⟨a, b⟩ <;> subst a <;> subst b
  · have e1 : isSpace (125 : Byte) = false := by decide
    simp only [e1, Bool.false_eq_true, if_false]
    exact ⟨rfl, pop_popped s _ r hs h3⟩
  · have e1 : isSpace (93 : Byte) = false := by decide
    simp only [e1, Bool.false_eq_true, if_false]
    exact ⟨rfl, pop_popped s _ r hs h3⟩

theorem CE_step (σ : List PS) (s : Scanner) (c : Byte) (h : CE σ s) :
    ((s.step c).2 = .skipSpace → CE σ (s.step c).1) ∧
    ((s.step c).2 ≠ .skipSpace → (s.step c).2 = .error ∨ KeyOk σ (s.step c).1 (s.step c).2 (some c)) := by
  obtain ⟨h1, h2, h3⟩ := h
  have key : s.step c = stCompoundOrEmpty s c := by unfold Scanner.step; rw [h1]
  rw [key]
  unfold stCompoundOrEmpty
  split
  · exact ⟨fun _ => ⟨h1, h2, h3⟩, fun h => absurd rfl h⟩
  · rename_i hsp
    split
    · rename_i hc
      have hc' : c = 125 := by simpa using hc
      rw [h2]; dsimp only
      have := stEndValue_close { s with stack := .compoundValue :: σ } c .compoundValue σ rfl h3 (Or.inl ⟨rfl, hc'⟩)
      exact ⟨(by intro h; rw [this.1] at h; cases h), fun _ => Or.inr (Or.inr this)⟩
    · rcases stBeginString_ns (.compoundName :: σ) s c h2 h3 (by simpa using hsp) with h | ⟨a, b⟩
      · exact ⟨(by intro h'; rw [h] at h'; cases h'), fun _ => Or.inl h⟩
      · exact ⟨(by intro h'; rw [a] at h'; cases h'), fun _ => Or.inr (Or.inl ⟨a, c, rfl, b⟩)⟩

theorem BS_step (σ : List PS) (s : Scanner) (c : Byte) (h : BS σ s) :
    ((s.step c).2 = .skipSpace → BS σ (s.step c).1) ∧
    ((s.step c).2 ≠ .skipSpace → (s.step c).2 = .error ∨ KeyOk σ (s.step c).1 (s.step c).2 (some c)) := by
  obtain ⟨h1, h2, h3⟩ := h
  have key : s.step c = stBeginString s c := by unfold Scanner.step; rw [h1]
  rw [key]
  by_cases hsp : isSpace c = true
  · have : stBeginString s c = (s, .skipSpace) := by unfold stBeginString; simp [hsp]
    rw [this]
    exact ⟨fun _ => ⟨h1, h2, h3⟩, fun h => absurd rfl h⟩
  · rcases stBeginString_ns (.compoundName :: σ) s c h2 h3 (by simpa using hsp) with h | ⟨a, b⟩
    · exact ⟨(by intro h'; rw [h] at h'; cases h'), fun _ => Or.inl h⟩
    · exact ⟨(by intro h'; rw [a] at h'; cases h'), fun _ => Or.inr (Or.inl ⟨a, c, rfl, b⟩)⟩

theorem BIL_allowed (c : Byte) (h : (c == 66 || c == 73 || c == 76) = true) : isAllowedInUnquotedString c = true := by
  have : ∀ n : Fin (2^8), (let c : Byte := BitVec.ofFin n
      (c == 66 || c == 73 || c == 76) = true → isAllowedInUnquotedString c = true) := by decide +kernel
  exact this c.toFin h

theorem ns_of_BVOk {arr : Bool} {σ : List PS} {s : Scanner} {o : Op} {ob : Option Byte}
    (h : o = .error ∨ BVOk arr σ s o ob) : o ≠ .skipSpace := by
  rcases h with h | ⟨a, _⟩ | ⟨a, _⟩ | ⟨a, _⟩
  · rw [h]; simp
  · rw [a]; simp
  · rw [a]; simp
  · rw [a]; simp

theorem LA_step (σ : List PS) (s : Scanner) (c : Byte) (h : LA σ s) :
    ((s.step c).2 = .skipSpace → LA σ (s.step c).1) ∧
    ((s.step c).2 ≠ .skipSpace → (s.step c).2 = .error ∨ ElemOk true σ (s.step c).1 (s.step c).2 (some c)) := by
  obtain ⟨h1, h2, h3⟩ := h
  have key : s.step c = (if isSpace c then (s, .skipSpace)
      else if c == 66 || c == 73 || c == 76 then ({ s with st := .listOrArrayT }, .beginLiteral)
      else if c == 93 then stEndValue s c else stBeginValue s c) := by unfold Scanner.step; rw [h1]
  rw [key]
  split
  · exact ⟨fun _ => ⟨h1, h2, h3⟩, fun h => absurd rfl h⟩
  · rename_i hsp
    split
    · rename_i hc
      refine ⟨(by intro h; cases h), fun _ => Or.inr (Or.inr (Or.inl ⟨rfl, c, rfl, h2, h3, ?_⟩))⟩
      exact Or.inr (Or.inr ⟨Or.inr (Or.inr ⟨rfl, rfl, σ, rfl⟩), BIL_allowed c hc⟩)
    · split
      · rename_i hc
        have := stEndValue_close s c .listValue σ h2 h3 (Or.inr ⟨rfl, by simpa using hc⟩)
        exact ⟨(by intro h; rw [this.1] at h; cases h), fun _ => Or.inr (Or.inl this)⟩
      · have := stBeginValue_ns (.listValue :: σ) s c h2 h3 (by simpa using hsp)
        refine ⟨fun h => absurd h (ns_of_BVOk this), fun _ => ?_⟩
        rcases this with h | h
        · exact Or.inl h
        · exact Or.inr (Or.inr h.mono)

theorem AT_step (σ : List PS) (s : Scanner) (c : Byte) (h : AT σ s) :
    ((s.step c).2 = .skipSpace → AT σ (s.step c).1) ∧
    ((s.step c).2 ≠ .skipSpace → (s.step c).2 = .error ∨ ElemOk false σ (s.step c).1 (s.step c).2 (some c)) := by
  obtain ⟨h1, h2, h3⟩ := h
  have key : s.step c = (if isSpace c then (s, .skipSpace)
      else if c == 93 then stEndValue s c else stBeginValue s c) := by unfold Scanner.step; rw [h1]
  rw [key]
  split
  · exact ⟨fun _ => ⟨h1, h2, h3⟩, fun h => absurd rfl h⟩
  · rename_i hsp
    split
    · rename_i hc
      have := stEndValue_close s c .listValue σ h2 h3 (Or.inr ⟨rfl, by simpa using hc⟩)
      exact ⟨(by intro h; rw [this.1] at h; cases h), fun _ => Or.inr (Or.inl this)⟩
    · have := stBeginValue_ns (.listValue :: σ) s c h2 h3 (by simpa using hsp)
      refine ⟨fun h => absurd h (ns_of_BVOk this), fun _ => ?_⟩
      rcases this with h | h
      · exact Or.inl h
      · exact Or.inr (Or.inr h)

theorem EV_step (σ : List PS) (s : Scanner) (c : Byte) (h : EV σ s) :
    ((s.step c).2 = .skipSpace → EV σ (s.step c).1) ∧
    ((s.step c).2 ≠ .skipSpace → (s.step c).2 = .error ∨ EndOk σ (s.step c).1 (s.step c).2) := by
  obtain ⟨h1, h2, _, h3⟩ := h
  have key : s.step c = stEndValue s c := by unfold Scanner.step; rw [h1]
  rw [key]
  rcases stEndValue_out σ s c h2 h3 with ⟨a, b⟩ | a | a
  · exact ⟨fun _ => b, fun h => absurd a h⟩
  · exact ⟨(by intro h; rw [a] at h; cases h), fun _ => Or.inl a⟩
  · refine ⟨?_, fun _ => Or.inr a⟩
    intro h
    exfalso; revert a; rw [h]
    cases σ with
    | nil => simp [EndOk]
    | cons ps r => cases ps <;> simp [EndOk]

/-- after the closing bracket: one more step -/
theorem Popped_step (σ : List PS) (s : Scanner) (c : Byte) (h : Popped σ s) :
    ((s.step c).2 = .skipSpace ∧ EV σ (s.step c).1) ∨ (s.step c).2 = .error ∨ EndOk σ (s.step c).1 (s.step c).2 := by
  obtain ⟨h2, hd⟩ := h
  rcases hd with ⟨a, b, d⟩ | ⟨a, b, d⟩
  · subst a
    have key : s.step c = stEndTop s c := by unfold Scanner.step; rw [b]
    rw [key]
    right; right
    unfold stEndTop
    split <;> simp [EndOk]
  · have key : s.step c = stEndValue s c := by unfold Scanner.step; rw [b]
    rw [key]
    exact stEndValue_out σ s c h2 d



theorem stEndValue_space_ne (s : Scanner) (h : s.stack ≠ []) :
    stEndValue s 32#8 = ({ s with st := .endValue }, .skipSpace) := by
  unfold stEndValue
  cases hs : s.stack with
  | nil => exact absurd hs h
  | cons ps r => simp [space32]

theorem stEndValue_space_nil (s : Scanner) (h : s.stack = []) :
    stEndValue s 32#8 = ({ s with st := .endTop, endTop := true }, .end_) := by
  unfold stEndValue
  rw [h]; dsimp only
  unfold stEndTop
  simp [space32]

theorem eof_end (s : Scanner) (h3 : s.endTop = false) (h : (s.step 32#8).1.endTop = true) :
    s.eof.2 = .error ∨ s.eof = ((s.step 32#8).1, .end_) := by
  unfold Scanner.eof
  split
  · left; rfl
  · right
    rw [if_neg (by simp [h3])]
    have e : (32 : Byte) = 32#8 := rfl
    rw [e]
    dsimp only
    rw [if_pos h]

theorem CE_eof (σ : List PS) (s : Scanner) (h : CE σ s) : s.eof.2 = .error := by
  obtain ⟨h1, h2, h3⟩ := h
  apply eof_error s h3
  have key : s.step 32#8 = stCompoundOrEmpty s 32#8 := by unfold Scanner.step; rw [h1]
  rw [key]; unfold stCompoundOrEmpty; simp [space32, h3]

theorem BS_eof (σ : List PS) (s : Scanner) (h : BS σ s) : s.eof.2 = .error := by
  obtain ⟨h1, h2, h3⟩ := h
  apply eof_error s h3
  have key : s.step 32#8 = stBeginString s 32#8 := by unfold Scanner.step; rw [h1]
  rw [key]; unfold stBeginString; simp [space32, h3]

theorem LA_eof (σ : List PS) (s : Scanner) (h : LA σ s) : s.eof.2 = .error := by
  obtain ⟨h1, h2, h3⟩ := h
  apply eof_error s h3
  have key : s.step 32#8 = (s, .skipSpace) := by unfold Scanner.step; rw [h1]; simp [space32]
  rw [key]; exact h3

theorem AT_eof (σ : List PS) (s : Scanner) (h : AT σ s) : s.eof.2 = .error := by
  obtain ⟨h1, h2, h3⟩ := h
  apply eof_error s h3
  have key : s.step 32#8 = (s, .skipSpace) := by unfold Scanner.step; rw [h1]; simp [space32]
  rw [key]; exact h3

theorem EV_eof (σ : List PS) (s : Scanner) (h : EV σ s) : s.eof.2 = .error := by
  obtain ⟨h1, h2, hne, h3⟩ := h
  apply eof_error s h3
  have key : s.step 32#8 = stEndValue s 32#8 := by unfold Scanner.step; rw [h1]
  rw [key, stEndValue_space_ne s (by rw [h2]; exact hne)]; exact h3

theorem Popped_eof (σ : List PS) (s : Scanner) (h : Popped σ s) : s.eof.2 = .error ∨ EndOk σ s.eof.1 s.eof.2 := by
  obtain ⟨h2, hd⟩ := h
  rcases hd with ⟨a, b, d⟩ | ⟨a, b, d⟩
  · subst a
    rcases Scanner.eof_op s with h | h
    · exact Or.inl h
    · right; simp [EndOk, h]
  · left
    exact EV_eof σ s ⟨b, h2, a, d⟩

theorem not_allowed_32 : isAllowedInUnquotedString 32#8 = false := by decide

/-- `stateEndValue` on the space that `eof` feeds: nothing happens to `endTop` inside brackets; at top level the
value ends -/
theorem stEndValue_space_top (σ : List PS) (s : Scanner) (h2 : s.stack = σ) (h3 : s.endTop = false) :
    (stEndValue s 32#8).1.endTop = false ∨ (σ = [] ∧ (stEndValue s 32#8).2 = .end_) := by
  cases σ with
  | nil => right; rw [stEndValue_space_nil s h2]; exact ⟨rfl, rfl⟩
  | cons ps r => left; rw [stEndValue_space_ne s (by rw [h2]; simp)]; exact h3

/-- end of input inside or right after a literal -/
theorem Lit_eof (arr : Bool) (σ : List PS) (s : Scanner) (acc : Bytes) (h : LitInv arr σ s acc) :
    s.eof.2 = .error ∨ (LitDone acc ∧ EndOk σ s.eof.1 s.eof.2) := by
  obtain ⟨h2, h3, hd⟩ := h
  have main : (s.step 32#8).1.endTop = false ∨ (σ = [] ∧ (s.step 32#8).2 = .end_ ∧ LitDone acc) := by
    rcases hd with ⟨hst, _⟩ | ⟨hst, _⟩ | ⟨hst, _⟩ | ⟨hst, _⟩ | ⟨hst, ha, hall⟩ | ⟨hst, hsh⟩
    · left
      have key : s.step 32#8 = (s, .cont) := by unfold Scanner.step; rw [hst]; simp
      rw [key]; exact h3
    · left
      have key : s.step 32#8 = Scanner.error s := by unfold Scanner.step; rw [hst]; simp
      rw [key]; exact h3
    · left
      have key : s.step 32#8 = (s, .cont) := by unfold Scanner.step; rw [hst]; simp
      rw [key]; exact h3
    · left
      have key : s.step 32#8 = Scanner.error s := by unfold Scanner.step; rw [hst]; simp
      rw [key]; exact h3
    · have hsh : LitDone acc := Or.inl ⟨ha, hall⟩
      rcases hst with hu | ⟨_, hst, ⟨r, hσ⟩, _⟩
      · rcases U_step s 32#8 hu with ⟨st', e, _, hc⟩ | e | e
        · rw [not_allowed_32] at hc; cases hc
        · rw [e]
          rcases stEndValue_space_top σ s h2 h3 with h | ⟨a, b⟩
          · exact Or.inl h
          · exact Or.inr ⟨a, b, hsh⟩
        · rw [e]; left; exact h3
      · left
        have key : s.step 32#8 = stEndValue s 32#8 := by
          unfold Scanner.step; rw [hst]
          simp only [show ((32#8 : Byte) == 59) = false by decide, Bool.false_eq_true, if_false]
          unfold stInUnquoted
          simp only [not_allowed_32, Bool.false_eq_true, if_false]
          exact stEndValue_st_irrel s _ _
        rw [key, stEndValue_space_ne s (by rw [h2, hσ]; simp)]; exact h3
    · have key : s.step 32#8 = stEndValue s 32#8 := by unfold Scanner.step; rw [hst]
      rw [key]
      rcases stEndValue_space_top σ s h2 h3 with h | ⟨a, b⟩
      · exact Or.inl h
      · exact Or.inr ⟨a, b, hsh⟩
  rcases main with h | ⟨a, b, hsh⟩
  · left; exact eof_error s h3 h
  · by_cases ht : (s.step 32#8).1.endTop = true
    · rcases eof_end s h3 ht with e | e
      · exact Or.inl e
      · right; rw [e, a]; exact ⟨hsh, by simp [EndOk]⟩
    · left; exact eof_error s h3 (by simpa using ht)


end GoMC.Model.SNBT
