/-
  Helper lemmas for C13 (the SetBlock counter and the int16 arithmetic).
-/
import GoMC.Model.Chunk
namespace GoMC.Lemmas.Chunk
open GoMC GoMC.Model.Chunk

/-! ### counting non-air entries under a point update -/

theorem nonAir_le (isAir : Nat → Bool) (xs : List Nat) : nonAir isAir xs ≤ xs.length := by
  unfold nonAir; exact List.countP_le_length

/-- the bookkeeping identity behind `SetBlock`: removing the old entry's contribution and adding the new one -/
theorem nonAir_set (isAir : Nat → Bool) (xs : List Nat) (i v : Nat) (hi : i < xs.length) :
    nonAir isAir (xs.set i v) + (if !isAir (xs.getD i 0) then 1 else 0)
      = nonAir isAir xs + (if !isAir v then 1 else 0) := by
  induction xs generalizing i with
  | nil => simp at hi
  | cons x xs ih =>
    cases i with
    | zero =>
      simp only [List.set_cons_zero, List.getD_cons_zero, nonAir, List.countP_cons]
      omega
    | succ j =>
      have hj : j < xs.length := by simpa using hi
      have := ih j hj
      simp only [List.set_cons_succ, List.getD_cons_succ, nonAir, List.countP_cons] at this ⊢
      omega

/-- a non-air entry at `i` means the count is at least one -/
theorem nonAir_pos (isAir : Nat → Bool) (xs : List Nat) (i : Nat) (hi : i < xs.length)
    (h : isAir (xs.getD i 0) = false) : 1 ≤ nonAir isAir xs := by
  induction xs generalizing i with
  | nil => simp at hi
  | cons x xs ih =>
    cases i with
    | zero =>
      simp only [List.getD_cons_zero] at h
      simp [nonAir, h]
    | succ j =>
      have hj : j < xs.length := by simpa using hi
      simp only [List.getD_cons_succ] at h
      have := ih j hj h
      simp only [nonAir, List.countP_cons] at this ⊢
      omega

/-- after the update the count is bounded by the length (so the increment cannot overflow) -/
theorem nonAir_set_le (isAir : Nat → Bool) (xs : List Nat) (i v : Nat) :
    nonAir isAir (xs.set i v) ≤ xs.length := by
  have := nonAir_le isAir (xs.set i v); simpa using this

/-! ### int16 arithmetic without wrap-around -/

theorem ofNat16_toNat {n : Nat} (h : n < 65536) : (BitVec.ofNat 16 n).toNat = n := by
  simp [BitVec.toNat_ofNat]; omega

theorem ofNat16_toInt {n : Nat} (h : n < 32768) : (BitVec.ofNat 16 n).toInt = (n : Int) := by
  rw [BitVec.toInt_eq_toNat_cond, ofNat16_toNat (by omega)]
  have : 2 * n < 2 ^ 16 := by omega
  simp [this]

theorem ofNat16_sub_one {n : Nat} (h1 : 1 ≤ n) (h : n < 65536) :
    BitVec.ofNat 16 n - 1#16 = BitVec.ofNat 16 (n - 1) := by
  apply BitVec.eq_of_toNat_eq
  rw [BitVec.toNat_sub, ofNat16_toNat h, ofNat16_toNat (n := n - 1) (by omega)]
  have p2 : (2 : Nat) ^ 16 = 65536 := by decide
  have : (1#16).toNat = 1 := rfl
  simp only [this, p2]; omega

theorem ofNat16_add_one {n : Nat} (h : n + 1 < 65536) :
    BitVec.ofNat 16 n + 1#16 = BitVec.ofNat 16 (n + 1) := by
  apply BitVec.eq_of_toNat_eq
  rw [BitVec.toNat_add, ofNat16_toNat (n := n) (by omega), ofNat16_toNat h]
  have p2 : (2 : Nat) ^ 16 = 65536 := by decide
  have : (1#16).toNat = 1 := rfl
  simp only [this, p2]; omega

/-! ### the counting loop -/

theorem countLoop_eq (isAir : Nat → Bool) (xs : List Nat) (get : Nat → Nat)
    (hget : ∀ i, i < xs.length → get i = xs.getD i 0) (n : Nat) (hn : n ≤ xs.length) (hlen : xs.length < 65536) :
    countLoop get isAir n = BitVec.ofNat 16 (nonAir isAir (xs.take n)) := by
  induction n with
  | zero => simp [countLoop, nonAir]
  | succ k ih =>
    have hk : k < xs.length := by omega
    have ih' := ih (by omega)
    have hle : nonAir isAir (xs.take k) ≤ k := by
      have := nonAir_le isAir (xs.take k)
      simp only [List.length_take] at this; omega
    have htake : xs.take (k + 1) = xs.take k ++ [xs.getD k 0] := by
      rw [List.take_add_one]
      congr 1
      simp [List.getD, List.getElem?_eq_getElem hk]
    have e : countLoop get isAir (k + 1)
        = if !isAir (get k) then countLoop get isAir k + 1#16 else countLoop get isAir k := rfl
    rw [e, ih', hget k hk, htake]
    generalize xs.getD k 0 = x
    simp only [nonAir, List.countP_append, List.countP_cons, List.countP_nil]
    cases hx : isAir x
    · simp only [Bool.not_false, if_true, Nat.zero_add]
      exact ofNat16_add_one (by simp only [nonAir] at hle; omega)
    · simp


/-! ### PackXZ / UnpackXZ tables -/

theorem slt_iff (a b : BitVec 64) : BitVec.slt a b = decide (a.toInt < b.toInt) := rfl

theorem toInt15 : (15#64 : BitVec 64).toInt = 15 := by decide
theorem toInt0 : (0#64 : BitVec 64).toInt = 0 := by decide

theorem small_of_toInt {x : BitVec 64} (h0 : 0 ≤ x.toInt) (h15 : x.toInt ≤ 15) :
    ∃ a : Fin 16, x = BitVec.ofNat 64 a.val := by
  have hx : x.toNat < 16 := by
    rw [BitVec.toInt_eq_toNat_cond] at h0 h15
    have := x.isLt
    split at h0 <;> omega
  refine ⟨⟨x.toNat, hx⟩, ?_⟩
  apply BitVec.eq_of_toNat_eq
  simp

theorem pack_table : ∀ a b : Fin 16,
    packReject (BitVec.ofNat 64 a.val) (BitVec.ofNat 64 b.val) = false ∧
    unpackXZ (packValue (BitVec.ofNat 64 a.val) (BitVec.ofNat 64 b.val)) = (BitVec.ofNat 64 a.val, BitVec.ofNat 64 b.val) ∧
    (packValue (BitVec.ofNat 64 a.val) (BitVec.ofNat 64 b.val)).toNat = 16 * a.val + b.val := by
  decide +kernel

theorem unpack_table : ∀ n : Fin (2 ^ 8),
    let p := unpackXZ (BitVec.ofFin n)
    packReject p.1 p.2 = false ∧ packValue p.1 p.2 = BitVec.ofFin n ∧ p.1.toNat ≤ 15 ∧ p.2.toNat ≤ 15 := by
  decide +kernel


end GoMC.Lemmas.Chunk
