/-
  Helper lemmas for C11 (BitStorage): arithmetic of the size rules, the masked read-modify-write on one
  64-bit cell (bit extensionality), the step lemmas of Get/Set/Swap on a well-formed storage, the padding
  invariant behind `Raw = pack`, and the wire form.
-/
import GoMC.Model.BitStorage
import GoMC.Spec.Packing
import GoMC.Lemmas.VarInt
namespace GoMC.Lemmas.BitStorage
open GoMC GoMC.Model GoMC.Spec

/-! ### arithmetic -/

theorem ceil_formula (n v : Nat) (hv : 0 < v) : (n + v - 1) / v = n / v + (if n % v = 0 then 0 else 1) := by
  have hdm := Nat.div_add_mod n v
  have hlt := Nat.mod_lt n hv
  generalize hq : n / v = q at *
  generalize hr : n % v = r at *
  by_cases h0 : r = 0
  · simp only [h0, if_true, Nat.add_zero]
    apply Nat.div_eq_of_lt_le
    · rw [Nat.mul_comm]; omega
    · rw [Nat.succ_mul, Nat.mul_comm]; omega
  · simp only [h0, if_false]
    apply Nat.div_eq_of_lt_le
    · rw [Nat.succ_mul, Nat.mul_comm]; omega
    · rw [Nat.succ_mul, Nat.succ_mul, Nat.mul_comm]; omega

/-! ### one cell -/

theorem maskOf_eq (b : Nat) (hb : b ≤ 64) : maskOf (b : Int) = BitVec.ofNat 64 (2 ^ b - 1) := by
  unfold maskOf
  apply BitVec.eq_of_toNat_eq
  simp only [Int.toNat_natCast, BitVec.toNat_sub, BitVec.toNat_shiftLeft, BitVec.toNat_ofNat, Nat.shiftLeft_eq]
  have hp : 0 < 2 ^ b := Nat.two_pow_pos b
  by_cases h : b = 64
  · subst h; decide
  · have : 2 ^ b < 2 ^ 64 := Nat.pow_lt_pow_right (by omega) (by omega)
    generalize 2 ^ b = p at *
    omega

theorem maskOf_getLsbD (b i : Nat) (hb : b ≤ 64) (hi : i < 64) : (maskOf (b : Int)).getLsbD i = decide (i < b) := by
  rw [maskOf_eq b hb, BitVec.getLsbD_ofNat, Nat.testBit_two_pow_sub_one]
  simp [hi]

theorem cellGet_getLsbD (l : BitVec 64) (b off i : Nat) (hb : b ≤ 64) (hi : i < 64) :
    (cellGet l (maskOf (b : Int)) off).getLsbD i = (l.getLsbD (off + i) && decide (i < b)) := by
  unfold cellGet
  rw [BitVec.getLsbD_and, BitVec.getLsbD_ushiftRight, maskOf_getLsbD b i hb hi]

theorem cellSet_getLsbD (l v : BitVec 64) (b off i : Nat) (hb : b ≤ 64) (hi : i < 64) :
    (cellSet l (maskOf (b : Int)) off v).getLsbD i =
      if off ≤ i ∧ i < off + b then v.getLsbD (i - off) else l.getLsbD i := by
  unfold cellSet
  simp only [BitVec.getLsbD_or, BitVec.getLsbD_and, BitVec.getLsbD_xor, BitVec.getLsbD_shiftLeft,
    BitVec.getLsbD_allOnes, hi, decide_true, Bool.true_and]
  by_cases h1 : off ≤ i
  · have h1' : ¬ i < off := by omega
    have h3 : i - off < 64 := by omega
    rw [maskOf_getLsbD b (i - off) hb h3]
    by_cases h2 : i < off + b
    · have : i - off < b := by omega
      simp [h1, h1', h2, this]
    · have : ¬ i - off < b := by omega
      simp [h1, h1', h2, this]
  · have h1' : i < off := by omega
    simp [h1, h1']

/-- bits of a value below `2^b` -/
theorem getLsbD_of_lt (v : BitVec 64) (b i : Nat) (hv : v.toNat < 2 ^ b) (hi : b ≤ i) : v.getLsbD i = false := by
  rw [BitVec.getLsbD]
  exact Nat.testBit_lt_two_pow (Nat.lt_of_lt_of_le hv (Nat.pow_le_pow_right (by omega) hi))

theorem get_set_same (l v : BitVec 64) (b off : Nat) (hb : b ≤ 64) (hoff : off + b ≤ 64) (hv : v.toNat < 2 ^ b) :
    cellGet (cellSet l (maskOf (b : Int)) off v) (maskOf (b : Int)) off = v := by
  apply BitVec.eq_of_getLsbD_eq
  intro i hi
  rw [cellGet_getLsbD _ b off i hb hi]
  by_cases hib : i < b
  · rw [cellSet_getLsbD l v b off (off + i) hb (by omega)]
    have : off ≤ off + i ∧ off + i < off + b := by omega
    simp [this, hib]
  · simp [hib, getLsbD_of_lt v b i hv (by omega)]

theorem get_set_other (l v : BitVec 64) (b off off' : Nat) (hb : b ≤ 64)
    (hdis : off' + b ≤ off ∨ off + b ≤ off') :
    cellGet (cellSet l (maskOf (b : Int)) off v) (maskOf (b : Int)) off' = cellGet l (maskOf (b : Int)) off' := by
  apply BitVec.eq_of_getLsbD_eq
  intro i hi
  rw [cellGet_getLsbD _ b off' i hb hi, cellGet_getLsbD _ b off' i hb hi]
  by_cases hib : i < b
  · by_cases h64 : off' + i < 64
    · rw [cellSet_getLsbD l v b off (off' + i) hb h64]
      have : ¬ (off ≤ off' + i ∧ off' + i < off + b) := by omega
      simp [this]
    · have e1 : ∀ x : BitVec 64, x.getLsbD (off' + i) = false := fun x => BitVec.getLsbD_of_ge x _ (by omega)
      simp [e1]
  · simp [hib]

theorem cellGet_toNat (l : BitVec 64) (b off : Nat) (hb : b ≤ 64) :
    (cellGet l (maskOf (b : Int)) off).toNat = l.toNat / 2 ^ off % 2 ^ b := by
  unfold cellGet
  rw [maskOf_eq b hb, BitVec.toNat_and, BitVec.toNat_ushiftRight, BitVec.toNat_ofNat, Nat.shiftRight_eq_div_pow]
  have h1 : 2 ^ b - 1 < 2 ^ 64 := by
    have : 2 ^ b ≤ 2 ^ 64 := Nat.pow_le_pow_right (by omega) hb
    have := Nat.two_pow_pos b
    omega
  rw [Nat.mod_eq_of_lt h1, Nat.and_two_pow_sub_one_eq_mod]

/-- writing a value below `2^b` at an offset inside the first `k` bits keeps the cell below `2^k` -/
theorem cellSet_lt (l v : BitVec 64) (b off k : Nat) (hb : b ≤ 64) (hoff : off + b ≤ k)
    (hl : l.toNat < 2 ^ k) : (cellSet l (maskOf (b : Int)) off v).toNat < 2 ^ k := by
  apply Nat.lt_pow_two_of_testBit
  intro i hi
  by_cases h64 : i < 64
  · have := cellSet_getLsbD l v b off i hb h64
    rw [BitVec.getLsbD] at this
    rw [this]
    have h1 : ¬ (off ≤ i ∧ i < off + b) := by omega
    simp only [h1, if_false]
    exact getLsbD_of_lt l k i hl hi
  · exact Nat.testBit_lt_two_pow (Nat.lt_of_lt_of_le (BitVec.isLt _) (Nat.pow_le_pow_right (by omega) (by omega)))

/-! ### a well-formed storage -/

/-- the representation invariant of a storage of `n` values of `b` bits -/
structure WF (b n : Nat) (st : BitStorage) : Prop where
  bits : st.bits = (b : Int)
  length : st.length = (n : Int)
  vpl : st.vpl = ((vpl b : Nat) : Int)
  mask : st.mask = maskOf (b : Int)
  size : st.data.length = size b n

/-- the abstraction: the `n` stored values -/
def abs (b n : Nat) (st : BitStorage) : List Nat := unpack b n st.data

theorem div_lt_size {b n k : Nat} (h1 : 1 ≤ b) (h64 : b ≤ 64) (hk : k < n) : k / vpl b < size b n := by
  have hv := vpl_pos h1 h64
  rw [Nat.div_lt_iff_lt_mul hv]
  have := (size_spec h1 h64 n).1
  omega

theorem calcIndex_nat (v b k : Nat) (hv : 0 < v) :
    calcIndex (v : Int) (b : Int) (k : Int) = .ok (((k / v : Nat) : Int), (((k % v) * b : Nat) : Int)) := by
  unfold calcIndex
  have hv' : (v : Int) ≠ 0 := by omega
  simp only [hv', if_false, ← Int.ofNat_tdiv]
  have h := congrArg (Nat.cast : Nat → Int) (Nat.div_add_mod k v)
  simp only [Int.natCast_add, Int.natCast_mul] at h
  rw [Int.mul_comm] at h
  congr 2
  rw [Int.natCast_mul]
  congr 1
  omega

theorem locate_ok {b n : Nat} {st : BitStorage} (hwf : WF b n st) (h1 : 1 ≤ b) (h64 : b ≤ 64)
    {k : Nat} (hk : k < n) :
    st.locate (k : Int) = .ok (k / vpl b, (k % vpl b) * b, st.data.getD (k / vpl b) 0#64) := by
  have hv := vpl_pos h1 h64
  unfold BitStorage.locate
  rw [hwf.vpl, hwf.bits, calcIndex_nat _ _ _ hv]
  have hc : k / vpl b < st.data.length := by rw [hwf.size]; exact div_lt_size h1 h64 hk
  simp only [Int.toNat_natCast]
  have h0 : ¬ ((k / vpl b : Nat) : Int) < 0 := Int.not_lt.mpr (Int.natCast_nonneg _)
  have h0' : ¬ ((k % vpl b * b : Nat) : Int) < 0 := Int.not_lt.mpr (Int.natCast_nonneg _)
  simp only [h0, if_false, List.getElem?_eq_getElem hc, h0', List.getD_eq_getElem?_getD, Option.getD_some]

theorem indexBad_iff {b n : Nat} {st : BitStorage} (hwf : WF b n st) (i : Int) :
    st.indexBad i = true ↔ ¬ (0 ≤ i ∧ i < n) := by
  unfold BitStorage.indexBad
  rw [hwf.length]
  simp only [Bool.or_eq_true, decide_eq_true_eq]
  omega

theorem maskOf_toNat (b : Nat) (hb : b ≤ 64) : (maskOf (b : Int)).toNat = 2 ^ b - 1 := by
  rw [maskOf_eq b hb, BitVec.toNat_ofNat]
  have h1 : 2 ^ b ≤ 2 ^ 64 := Nat.pow_le_pow_right (by omega) hb
  have := Nat.two_pow_pos b
  exact Nat.mod_eq_of_lt (by omega)

/-- the value test of Set/Swap, for a value that is a Go int -/
theorem valueBad_iff {b n : Nat} {st : BitStorage} (hwf : WF b n st) (hb : b ≤ 63) (v : Int)
    (hlo : -(2 : Int) ^ 63 ≤ v) (hhi : v < (2 : Int) ^ 63) :
    st.valueBad v = true ↔ ¬ (0 ≤ v ∧ v < (2 : Int) ^ b) := by
  unfold BitStorage.valueBad
  rw [hwf.mask, maskOf_toNat b (by omega)]
  simp only [Bool.or_eq_true, decide_eq_true_eq]
  have hp : (2 : Nat) ^ b ≤ 2 ^ 63 := Nat.pow_le_pow_right (by omega) hb
  have hpos := Nat.two_pow_pos b
  have e63 : (2 : Int) ^ 63 = ((2 ^ 63 : Nat) : Int) := by norm_cast
  have eb : (2 : Int) ^ b = ((2 ^ b : Nat) : Int) := by norm_cast
  rw [eb]; rw [e63] at hlo hhi
  by_cases hneg : v < 0
  · simp [hneg]; omega
  · obtain ⟨m, rfl⟩ : ∃ m : Nat, v = (m : Int) := ⟨v.toNat, by omega⟩
    have hm : m < 2 ^ 64 := by
      have : (2:Nat) ^ 64 = 2 * 2 ^ 63 := by decide
      omega
    rw [BitVec.ofInt_natCast, BitVec.toNat_ofNat, Nat.mod_eq_of_lt hm]
    generalize (2 : Nat) ^ b = p at *
    omega

/-- an entry of the spec is the masked shift of its cell -/
theorem entry_eq_cellGet (b : Nat) (hb : b ≤ 64) (data : List (BitVec 64)) (j : Nat) :
    entry b data j = (cellGet (data.getD (j / vpl b) 0#64) (maskOf (b : Int)) ((j % vpl b) * b)).toNat := by
  rw [cellGet_toNat _ _ _ hb]; rfl

theorem off_le {b : Nat} (h1 : 1 ≤ b) (h64 : b ≤ 64) (j : Nat) : (j % vpl b) * b + b ≤ 64 := by
  have hv := vpl_pos h1 h64
  have hlt := Nat.mod_lt j hv
  have h2 : (j % vpl b + 1) * b ≤ vpl b * b := Nat.mul_le_mul_right b hlt
  have h3 := vpl_mul_le b
  rw [Nat.succ_mul] at h2
  omega

theorem cellGet_toInt (l : BitVec 64) (b off : Nat) (hb : b ≤ 63) :
    (cellGet l (maskOf (b : Int)) off).toInt = ((l.toNat / 2 ^ off % 2 ^ b : Nat) : Int) := by
  rw [BitVec.toInt_eq_toNat_of_lt, cellGet_toNat _ _ _ (by omega)]
  rw [cellGet_toNat _ _ _ (by omega)]
  have h1 : l.toNat / 2 ^ off % 2 ^ b < 2 ^ b := Nat.mod_lt _ (Nat.two_pow_pos b)
  have h2 : (2 : Nat) ^ b ≤ 2 ^ 63 := Nat.pow_le_pow_right (by omega) hb
  have : (2:Nat) ^ 64 = 2 * 2 ^ 63 := by decide
  omega

theorem valueBad_false {b n : Nat} {st : BitStorage} (hwf : WF b n st) (hb : b ≤ 63) {v : Nat} (hv : v < 2 ^ b) :
    st.valueBad (v : Int) = false := by
  have h263 : (2 : Nat) ^ b ≤ 2 ^ 63 := Nat.pow_le_pow_right (by omega) hb
  have e1 : ((2 ^ 63 : Nat) : Int) = (2 : Int) ^ 63 := by norm_cast
  have e2 : ((2 ^ b : Nat) : Int) = (2 : Int) ^ b := by norm_cast
  rw [Bool.eq_false_iff]; intro h
  have hhi : (v : Int) < (2 : Int) ^ 63 := by omega
  have hlo : -(2 : Int) ^ 63 ≤ (v : Int) := by omega
  rw [valueBad_iff hwf hb _ hlo hhi] at h
  apply h
  refine ⟨by omega, ?_⟩
  omega

/-- `Get` on a well-formed storage, index in range -/
theorem get_ok {b n : Nat} {st : BitStorage} (hwf : WF b n st) (h1 : 1 ≤ b) (hb : b ≤ 63) {k : Nat} (hk : k < n) :
    st.get (k : Int) = .ok ((entry b st.data k : Nat) : Int) := by
  have hv := vpl_pos h1 (by omega : b ≤ 64)
  unfold BitStorage.get
  have hv0 : st.vpl ≠ 0 := by rw [hwf.vpl]; omega
  have hib : st.indexBad (k : Int) = false := by
    rw [Bool.eq_false_iff]; intro h; rw [indexBad_iff hwf] at h; omega
  simp only [hv0, if_false, hib, Bool.false_eq_true, locate_ok hwf h1 (by omega) hk, hwf.mask]
  rw [cellGet_toInt _ _ _ hb]; rfl

/-- the cell written by Set/Swap -/
def newData (b : Nat) (data : List (BitVec 64)) (k v : Nat) : List (BitVec 64) :=
  data.set (k / vpl b) (cellSet (data.getD (k / vpl b) 0#64) (maskOf (b : Int)) ((k % vpl b) * b) (BitVec.ofNat 64 v))

theorem swap_ok {b n : Nat} {st : BitStorage} (hwf : WF b n st) (h1 : 1 ≤ b) (hb : b ≤ 63) {k v : Nat}
    (hk : k < n) (hv : v < 2 ^ b) :
    st.swap (k : Int) (v : Int) =
      (.ok ((entry b st.data k : Nat) : Int), { st with data := newData b st.data k v }) := by
  have hvp := vpl_pos h1 (by omega : b ≤ 64)
  unfold BitStorage.swap
  have hv0 : st.vpl ≠ 0 := by rw [hwf.vpl]; omega
  have hib : st.indexBad (k : Int) = false := by
    rw [Bool.eq_false_iff]; intro h; rw [indexBad_iff hwf] at h; omega
  have hvb : st.valueBad (v : Int) = false := valueBad_false hwf hb hv
  simp only [hv0, if_false, hib, hvb, Bool.false_eq_true, locate_ok hwf h1 (by omega) hk, hwf.mask,
    BitVec.ofInt_natCast]
  rw [cellGet_toInt _ _ _ hb]; rfl

theorem set_ok {b n : Nat} {st : BitStorage} (hwf : WF b n st) (h1 : 1 ≤ b) (hb : b ≤ 63) {k v : Nat}
    (hk : k < n) (hv : v < 2 ^ b) :
    st.set (k : Int) (v : Int) = (.ok (), { st with data := newData b st.data k v }) := by
  have hvp := vpl_pos h1 (by omega : b ≤ 64)
  unfold BitStorage.set
  have hv0 : st.vpl ≠ 0 := by rw [hwf.vpl]; omega
  have hib : st.indexBad (k : Int) = false := by
    rw [Bool.eq_false_iff]; intro h; rw [indexBad_iff hwf] at h; omega
  have hvb : st.valueBad (v : Int) = false := valueBad_false hwf hb hv
  simp only [hv0, if_false, hib, hvb, Bool.false_eq_true, locate_ok hwf h1 (by omega) hk, hwf.mask,
    BitVec.ofInt_natCast]
  rfl

/-- the written entry reads back, every other entry is unchanged -/
theorem entry_newData {b : Nat} (h1 : 1 ≤ b) (h64 : b ≤ 64) (data : List (BitVec 64)) {k v : Nat}
    (hc : k / vpl b < data.length) (hv : v < 2 ^ b) (j : Nat) :
    entry b (newData b data k v) j = if j = k then v else entry b data j := by
  have hvp := vpl_pos h1 h64
  rw [entry_eq_cellGet b h64, entry_eq_cellGet b h64]
  unfold newData
  have hv64 : v < 2 ^ 64 := Nat.lt_of_lt_of_le hv (Nat.pow_le_pow_right (by omega) h64)
  have hvn : (BitVec.ofNat 64 v).toNat = v := by rw [BitVec.toNat_ofNat, Nat.mod_eq_of_lt hv64]
  by_cases hcj : j / vpl b = k / vpl b
  · rw [hcj, List.getD_eq_getElem?_getD, List.getElem?_set]
    simp only [hc, if_true, Option.getD_some]
    by_cases hmj : j % vpl b = k % vpl b
    · have hjk : j = k := by
        have e1 := Nat.div_add_mod j (vpl b)
        have e2 := Nat.div_add_mod k (vpl b)
        rw [hcj, hmj] at e1; omega
      subst hjk
      rw [get_set_same _ _ _ _ h64 (off_le h1 h64 j) (by rw [hvn]; exact hv)]
      simp [hvn]
    · have hjk : j ≠ k := fun h => hmj (by rw [h])
      simp only [hjk, if_false]
      have hdis : (j % vpl b) * b + b ≤ (k % vpl b) * b ∨ (k % vpl b) * b + b ≤ (j % vpl b) * b := by
        rcases Nat.lt_or_gt_of_ne hmj with hlt | hgt
        · left
          have : (j % vpl b + 1) * b ≤ k % vpl b * b := Nat.mul_le_mul_right b hlt
          rw [Nat.succ_mul] at this; exact this
        · right
          have : (k % vpl b + 1) * b ≤ j % vpl b * b := Nat.mul_le_mul_right b hgt
          rw [Nat.succ_mul] at this; exact this
      rw [get_set_other _ _ _ _ _ h64 hdis]
  · have hjk : j ≠ k := fun h => hcj (by rw [h])
    simp only [hjk, if_false]
    rw [List.getD_eq_getElem?_getD, List.getElem?_set]
    have : ¬ k / vpl b = j / vpl b := fun h => hcj h.symm
    simp only [this, if_false, ← List.getD_eq_getElem?_getD]

theorem unpack_newData {b n : Nat} (h1 : 1 ≤ b) (h64 : b ≤ 64) (data : List (BitVec 64)) {k v : Nat}
    (hc : k / vpl b < data.length) (hv : v < 2 ^ b) :
    unpack b n (newData b data k v) = (unpack b n data).set k v := by
  apply List.ext_getElem
  · simp
  · intro j hj1 hj2
    simp only [unpack, List.getElem_map, List.getElem_range, List.getElem_set]
    rw [entry_newData h1 h64 data hc hv]
    by_cases h : j = k
    · simp [h]
    · have : ¬ k = j := fun e => h e.symm
      simp [h, this]

theorem wf_newData {b n : Nat} {st : BitStorage} (hwf : WF b n st) (k v : Nat) :
    WF b n { st with data := newData b st.data k v } := by
  refine ⟨hwf.bits, hwf.length, hwf.vpl, hwf.mask, ?_⟩
  simp [newData, hwf.size]

/-! ### refinement of the array -/

theorem abs_getD {b n : Nat} (st : BitStorage) {k : Nat} (hk : k < n) :
    (abs b n st).getD k 0 = entry b st.data k := by
  unfold abs unpack
  rw [List.getD_eq_getElem?_getD, List.getElem?_eq_getElem (by simpa using hk)]
  simp

/-- a rejected call: which calls are rejected on a well-formed storage, and that nothing changes -/
theorem get_reject {b n : Nat} {st : BitStorage} (hwf : WF b n st) (h1 : 1 ≤ b) (h64 : b ≤ 64) (i : Int)
    (hi : ¬ (0 ≤ i ∧ i < n)) : st.get i = .panic := by
  unfold BitStorage.get
  have hv0 : st.vpl ≠ 0 := by rw [hwf.vpl]; have := vpl_pos h1 h64; omega
  have : st.indexBad i = true := (indexBad_iff hwf i).mpr hi
  simp [hv0, this]

theorem set_reject {b n : Nat} {st : BitStorage} (hwf : WF b n st) (h1 : 1 ≤ b) (hb : b ≤ 63) (i v : Int)
    (hlo : -(2 : Int) ^ 63 ≤ v) (hhi : v < (2 : Int) ^ 63)
    (h : ¬ (0 ≤ v ∧ v < (2 : Int) ^ b ∧ 0 ≤ i ∧ i < n)) : st.set i v = (.panic, st) := by
  unfold BitStorage.set
  have hv0 : st.vpl ≠ 0 := by rw [hwf.vpl]; have := vpl_pos h1 (by omega : b ≤ 64); omega
  simp only [hv0, if_false]
  by_cases hvb : st.valueBad v = true
  · simp [hvb]
  · have hvr : 0 ≤ v ∧ v < (2 : Int) ^ b := by
      exact Classical.byContradiction (fun hn => hvb ((valueBad_iff hwf hb v hlo hhi).mpr hn))
    have : st.indexBad i = true := (indexBad_iff hwf i).mpr (fun hi => h ⟨hvr.1, hvr.2, hi.1, hi.2⟩)
    simp [hvb, this]

theorem swap_reject {b n : Nat} {st : BitStorage} (hwf : WF b n st) (h1 : 1 ≤ b) (hb : b ≤ 63) (i v : Int)
    (hlo : -(2 : Int) ^ 63 ≤ v) (hhi : v < (2 : Int) ^ 63)
    (h : ¬ (0 ≤ v ∧ v < (2 : Int) ^ b ∧ 0 ≤ i ∧ i < n)) : st.swap i v = (.panic, st) := by
  unfold BitStorage.swap
  have hv0 : st.vpl ≠ 0 := by rw [hwf.vpl]; have := vpl_pos h1 (by omega : b ≤ 64); omega
  simp only [hv0, if_false]
  by_cases hvb : st.valueBad v = true
  · simp [hvb]
  · have hvr : 0 ≤ v ∧ v < (2 : Int) ^ b := by
      exact Classical.byContradiction (fun hn => hvb ((valueBad_iff hwf hb v hlo hhi).mpr hn))
    have : st.indexBad i = true := (indexBad_iff hwf i).mpr (fun hi => h ⟨hvr.1, hvr.2, hi.1, hi.2⟩)
    simp [hvb, this]

/-- the operations of a history carry Go ints -/
def OpInt : ArrOp → Prop
  | .get _ => True
  | .set _ v => -(2 : Int) ^ 63 ≤ v ∧ v < (2 : Int) ^ 63
  | .swap _ v => -(2 : Int) ^ 63 ≤ v ∧ v < (2 : Int) ^ 63

/-- one call refines one array operation -/
theorem step_refines {b n : Nat} {st : BitStorage} (hwf : WF b n st) (h1 : 1 ≤ b) (hb : b ≤ 63) (op : ArrOp)
    (hop : OpInt op) :
    (st.step op).1 = (arrStep b (abs b n st) op).1 ∧
    abs b n (st.step op).2 = (arrStep b (abs b n st) op).2 ∧ WF b n (st.step op).2 := by
  have h64 : b ≤ 64 := by omega
  have hlen : (abs b n st).length = n := by simp [abs]
  cases op with
  | get i =>
    simp only [BitStorage.step, arrStep, hlen]
    by_cases hi : 0 ≤ i ∧ i < n
    · obtain ⟨k, rfl⟩ : ∃ k : Nat, i = (k : Int) := ⟨i.toNat, by omega⟩
      have hk : k < n := by omega
      simp only [hi, and_self, if_true, get_ok hwf h1 hb hk, Int.toNat_natCast, abs_getD st hk]
      refine ⟨?_, ?_, hwf⟩ <;> first | rfl | trivial
    · simp only [hi, if_false, get_reject hwf h1 h64 i hi]
      refine ⟨?_, ?_, hwf⟩ <;> first | rfl | trivial
  | set i v =>
    simp only [BitStorage.step, arrStep, arrInRange, hlen]
    by_cases h : 0 ≤ v ∧ v < (2 : Int) ^ b ∧ 0 ≤ i ∧ i < n
    · obtain ⟨k, rfl⟩ : ∃ k : Nat, i = (k : Int) := ⟨i.toNat, by omega⟩
      obtain ⟨w, rfl⟩ : ∃ w : Nat, v = (w : Int) := ⟨v.toNat, by omega⟩
      have hk : k < n := by omega
      have hw : w < 2 ^ b := by
        have : ((2 ^ b : Nat) : Int) = (2 : Int) ^ b := by norm_cast
        omega
      have hc : k / vpl b < st.data.length := by rw [hwf.size]; exact div_lt_size h1 h64 hk
      simp only [h, and_self, if_true, set_ok hwf h1 hb hk hw, Int.toNat_natCast]
      refine ⟨by first | rfl | trivial, ?_, wf_newData hwf k w⟩
      exact unpack_newData h1 h64 st.data hc hw
    · simp only [h, if_false, set_reject hwf h1 hb i v hop.1 hop.2 h]
      refine ⟨?_, ?_, hwf⟩ <;> first | rfl | trivial
  | swap i v =>
    simp only [BitStorage.step, arrStep, arrInRange, hlen]
    by_cases h : 0 ≤ v ∧ v < (2 : Int) ^ b ∧ 0 ≤ i ∧ i < n
    · obtain ⟨k, rfl⟩ : ∃ k : Nat, i = (k : Int) := ⟨i.toNat, by omega⟩
      obtain ⟨w, rfl⟩ : ∃ w : Nat, v = (w : Int) := ⟨v.toNat, by omega⟩
      have hk : k < n := by omega
      have hw : w < 2 ^ b := by
        have : ((2 ^ b : Nat) : Int) = (2 : Int) ^ b := by norm_cast
        omega
      have hc : k / vpl b < st.data.length := by rw [hwf.size]; exact div_lt_size h1 h64 hk
      simp only [h, and_self, if_true, swap_ok hwf h1 hb hk hw, Int.toNat_natCast, abs_getD st hk]
      refine ⟨by first | rfl | trivial, ?_, wf_newData hwf k w⟩
      exact unpack_newData h1 h64 st.data hc hw
    · simp only [h, if_false, swap_reject hwf h1 hb i v hop.1 hop.2 h]
      refine ⟨?_, ?_, hwf⟩ <;> first | rfl | trivial

/-- every history of calls refines the same history on the array -/
theorem run_refines {b n : Nat} (h1 : 1 ≤ b) (hb : b ≤ 63) (ops : List ArrOp) (hops : ∀ op ∈ ops, OpInt op)
    (st : BitStorage) (hwf : WF b n st) :
    (st.run ops).1 = (arrRun b (abs b n st) ops).1 ∧
    abs b n (st.run ops).2 = (arrRun b (abs b n st) ops).2 ∧ WF b n (st.run ops).2 := by
  induction ops generalizing st with
  | nil => exact ⟨rfl, rfl, hwf⟩
  | cons op ops ih =>
    obtain ⟨e1, e2, e3⟩ := step_refines hwf h1 hb op (hops op (by simp))
    obtain ⟨f1, f2, f3⟩ := ih (fun o ho => hops o (by simp [ho])) (st.step op).2 e3
    simp only [BitStorage.run, arrRun]
    rw [e2] at f1 f2
    exact ⟨by rw [e1, f1], f2, f3⟩

/-! ### padding invariant: raw longs are the packing of the stored values -/

/-- number of entries held by long `c` of an array of `n` entries -/
def cnt (b n c : Nat) : Nat := min (vpl b) (n - c * vpl b)

/-- all bits of long `c` above its `cnt` entries are zero -/
def Clean (b n : Nat) (data : List (BitVec 64)) : Prop :=
  ∀ c (h : c < data.length), data[c].toNat < 2 ^ (b * cnt b n c)

theorem clean_replicate (b n m : Nat) : Clean b n (List.replicate m 0#64) := by
  intro c h
  simp only [List.getElem_replicate, BitVec.toNat_ofNat, Nat.zero_mod]
  exact Nat.two_pow_pos _

theorem packLong_digits (b x k : Nat) :
    packLong b ((List.range k).map fun j => x / 2 ^ (j * b) % 2 ^ b) = x % 2 ^ (b * k) := by
  induction k generalizing x with
  | zero => simp [packLong, Nat.mod_one]
  | succ k ih =>
    rw [List.range_succ_eq_map, List.map_cons, List.map_map]
    simp only [packLong, Nat.zero_mul, Nat.pow_zero, Nat.div_one]
    have : (fun j => x / 2 ^ (j * b) % 2 ^ b) ∘ Nat.succ = fun j => x / 2 ^ b / 2 ^ (j * b) % 2 ^ b := by
      funext j
      simp only [Function.comp, Nat.succ_mul]
      rw [Nat.add_comm (j * b) b, Nat.pow_add, Nat.div_div_eq_div_mul]
    rw [this, ih (x / 2 ^ b), Nat.mul_succ, Nat.add_comm (b * k) b, Nat.pow_add, Nat.mod_mul]

theorem clean_newData {b n : Nat} (h1 : 1 ≤ b) (h64 : b ≤ 64) (data : List (BitVec 64)) (k v : Nat) (hk : k < n)
    (hcl : Clean b n data) : Clean b n (newData b data k v) := by
  have hvp := vpl_pos h1 h64
  intro c h
  unfold newData at h ⊢
  rw [List.getElem_set]
  have hlen : c < data.length := by simpa using h
  split
  · rename_i hck
    subst hck
    rw [List.getD_eq_getElem?_getD, List.getElem?_eq_getElem hlen, Option.getD_some]
    apply cellSet_lt _ _ _ _ _ h64 _ (hcl _ hlen)
    -- the offset of entry k lies inside the cnt entries of its long
    have hdm := Nat.div_add_mod k (vpl b)
    have hml := Nat.mod_lt k hvp
    have hj : k % vpl b + 1 ≤ cnt b n (k / vpl b) := by
      unfold cnt
      rw [Nat.mul_comm] at hdm
      omega
    have := Nat.mul_le_mul_left b hj
    rw [Nat.mul_succ, Nat.mul_comm b (k % vpl b)] at this
    exact this
  · exact hcl c hlen

/-- the entries of one long, as digits -/
theorem unpack_chunk {b n : Nat} (h1 : 1 ≤ b) (h64 : b ≤ 64) (data : List (BitVec 64)) (c : Nat) :
    ((unpack b n data).drop (c * vpl b)).take (vpl b) =
      (List.range (cnt b n c)).map fun j => (data.getD c 0#64).toNat / 2 ^ (j * b) % 2 ^ b := by
  have hvp := vpl_pos h1 h64
  apply List.ext_getElem
  · simp [cnt]
  · intro j hj1 hj2
    have hjc : j < cnt b n c := by simpa using hj2
    have hjv : j < vpl b := by unfold cnt at hjc; omega
    simp only [List.getElem_take, List.getElem_drop, unpack, List.getElem_map, List.getElem_range, entry]
    rw [Nat.mul_comm c, Nat.mul_add_div hvp, Nat.mul_add_mod, Nat.div_eq_of_lt hjv, Nat.mod_eq_of_lt hjv, Nat.add_zero]

theorem pack_unpack_of_clean {b n : Nat} (h1 : 1 ≤ b) (h64 : b ≤ 64) (data : List (BitVec 64))
    (hlen : data.length = size b n) (hcl : Clean b n data) : pack b (unpack b n data) = data := by
  apply List.ext_getElem
  · simp [hlen]
  · intro c hc1 hc2
    simp only [pack, List.getElem_map, List.getElem_range, unpack_length]
    rw [unpack_chunk h1 h64, packLong_digits, List.getD_eq_getElem?_getD, List.getElem?_eq_getElem hc2,
      Option.getD_some, Nat.mod_eq_of_lt (hcl c hc2)]
    simp

/-! ### constructor and Fix -/

theorem size_model {b : Nat} (h1 : 1 ≤ b) (h64 : b ≤ 64) (n : Nat) :
    calcBitStorageSize (b : Int) (n : Int) = .ok ((size b n : Nat) : Int) := by
  have hvp := vpl_pos h1 h64
  unfold calcBitStorageSize
  have hb0 : (b : Int) ≠ 0 := by omega
  have e64 : (64 : Int) = ((64 : Nat) : Int) := rfl
  simp only [hb0, if_false, e64, ← Int.ofNat_tdiv]
  have hv0 : ((64 / b : Nat) : Int) ≠ 0 := by
    have : 0 < 64 / b := hvp
    omega
  simp only [hv0, if_false]
  have e : (n : Int) + ((64 / b : Nat) : Int) - 1 = ((n + 64 / b - 1 : Nat) : Int) := by
    have : 0 < 64 / b := hvp
    omega
  rw [e, ← Int.ofNat_tdiv, ceil_formula n (64 / b) hvp]
  unfold size
  have : b ≠ 0 := by omega
  simp only [this, if_false]
  rfl

/-- the storage made by the constructor -/
def fresh (b n : Nat) (data : List (BitVec 64)) : BitStorage :=
  { data := data, mask := maskOf (b : Int), bits := (b : Int), length := (n : Int), vpl := ((vpl b : Nat) : Int) }

theorem wf_fresh (b n : Nat) (data : List (BitVec 64)) (h : data.length = size b n) : WF b n (fresh b n data) :=
  ⟨rfl, rfl, rfl, rfl, h⟩

theorem new_nil {b : Nat} (h1 : 1 ≤ b) (h64 : b ≤ 64) (n : Nat) :
    newBitStorage (b : Int) (n : Int) none = .ok (fresh b n (List.replicate (size b n) 0#64)) := by
  unfold newBitStorage
  have hb0 : (b : Int) ≠ 0 := by omega
  have hb1 : ¬ (b : Int) < 0 := by omega
  have h0 : ¬ ((size b n : Nat) : Int) < 0 := Int.not_lt.mpr (Int.natCast_nonneg _)
  have e64 : (64 : Int) = ((64 : Nat) : Int) := rfl
  simp only [hb0, if_false, hb1, size_model h1 h64, h0, Int.toNat_natCast, e64, ← Int.ofNat_tdiv]
  rfl

theorem new_some {b : Nat} (h1 : 1 ≤ b) (h64 : b ≤ 64) (n : Nat) (d : List (BitVec 64)) :
    newBitStorage (b : Int) (n : Int) (some d) =
      if d.length = size b n then .ok (fresh b n d) else .panic := by
  unfold newBitStorage
  have hb0 : (b : Int) ≠ 0 := by omega
  have hb1 : ¬ (b : Int) < 0 := by omega
  have h0 : ¬ ((size b n : Nat) : Int) < 0 := Int.not_lt.mpr (Int.natCast_nonneg _)
  have e64 : (64 : Int) = ((64 : Nat) : Int) := rfl
  simp only [hb0, if_false, hb1, size_model h1 h64, h0, e64, ← Int.ofNat_tdiv]
  by_cases h : d.length = size b n
  · have : ¬ ((d.length : Nat) : Int) ≠ ((size b n : Nat) : Int) := by omega
    rw [if_neg this, if_pos h]
    rfl
  · have : ((d.length : Nat) : Int) ≠ ((size b n : Nat) : Int) := by omega
    rw [if_pos this, if_neg h]

theorem fix_eq {b : Nat} (h1 : 1 ≤ b) (h64 : b ≤ 64) (n : Nat) (st : BitStorage) (hl : st.length = (n : Int)) :
    st.fix (b : Int) =
      (if st.data.length = size b n then .ok () else .err,
       { st with mask := maskOf (b : Int), bits := (b : Int), vpl := ((vpl b : Nat) : Int) }) := by
  unfold BitStorage.fix
  have hb0 : (b : Int) ≠ 0 := by omega
  have hb1 : ¬ (b : Int) < 0 := by omega
  have e64 : (64 : Int) = ((64 : Nat) : Int) := rfl
  have hsz : calcBitStorageSize (b : Int) st.length = .ok ((size b n : Nat) : Int) := by
    rw [hl]; exact size_model h1 h64 n
  simp only [hb0, if_false, hb1, hsz, e64, ← Int.ofNat_tdiv]
  by_cases h : st.data.length = size b n
  · have : ¬ ((st.data.length : Nat) : Int) ≠ ((size b n : Nat) : Int) := by omega
    rw [if_neg this, if_pos h]
    rfl
  · have : ((st.data.length : Nat) : Int) ≠ ((size b n : Nat) : Int) := by omega
    rw [if_pos this, if_neg h]
    rfl

/-! ### wire form -/

theorem be64_be64Bytes (v : BitVec 64) : be64 (be64Bytes v) = v := by
  apply BitVec.eq_of_toNat_eq
  simp only [be64, be64Bytes, List.foldl, BitVec.toNat_ofNat, BitVec.toNat_setWidth, BitVec.toNat_ushiftRight,
    Nat.shiftRight_eq_div_pow]
  have := v.isLt
  omega

theorem be64Bytes_eq_beLong (v : BitVec 64) : be64Bytes v = beLong v := by
  unfold be64Bytes beLong
  simp only [List.cons.injEq, and_true]
  refine ⟨?_, ?_, ?_, ?_, ?_, ?_, ?_, ?_⟩ <;>
  · apply BitVec.eq_of_toNat_eq
    simp [BitVec.toNat_setWidth, BitVec.toNat_ushiftRight, Nat.shiftRight_eq_div_pow]

theorem be64Bytes_length (v : BitVec 64) : (be64Bytes v).length = 8 := rfl

theorem readLong_ok (s : Stream) (v : BitVec 64) (rest : Bytes) (hs : s.flat = be64Bytes v ++ rest) :
    readLong s = (.ok v, s.drop 8) := by
  unfold readLong
  have h8 : 8 ≤ s.flat.length := by rw [hs]; simp [be64Bytes_length]
  have hr : Rd.readFull 8 s = (.ok (be64Bytes v), s.drop 8) := by
    unfold Rd.readFull
    simp only [h8, if_true]
    rw [hs, List.take_append_of_le_length (by simp [be64Bytes_length])]
    have : List.take 8 (be64Bytes v) = be64Bytes v := List.take_of_length_le (by simp [be64Bytes_length])
    rw [this]
  rw [Rd.bind_ok hr]
  simp [be64_be64Bytes]

theorem readLongs_ok (ds old : List (BitVec 64)) (s : Stream) (rest : Bytes) (hlen : old.length = ds.length)
    (hs : s.flat = ds.flatMap be64Bytes ++ rest) :
    ∃ s', readLongs old s = ((true, ds), s') ∧ s'.flat = rest ∧ s'.failing = s.failing := by
  induction ds generalizing old s with
  | nil =>
    have : old = [] := List.length_eq_zero_iff.mp hlen
    subst this
    exact ⟨s, rfl, by simpa using hs, rfl⟩
  | cons d ds ih =>
    match old, hlen with
    | o :: old', hlen =>
      simp only [List.flatMap_cons, List.append_assoc] at hs
      have hr := readLong_ok s d _ hs
      obtain ⟨s', h1, h2, h3⟩ := ih old' (s.drop 8) (by simpa using hlen)
        (by rw [Stream.flat_drop, hs, List.drop_append_of_le_length (by simp [be64Bytes_length])]
            have : List.drop 8 (be64Bytes d) = [] := List.drop_eq_nil_of_le (by simp [be64Bytes_length])
            rw [this]; rfl)
      refine ⟨s', ?_, h2, by rw [h3]; rfl⟩
      simp only [readLongs, hr, h1]

theorem varIntRead_ok (v : BitVec 32) (rest : Bytes) (s : Stream) (hs : s.flat = leb v.toNat ++ rest) :
    ∃ s', varIntRead s = (Res.ok (v, (leb v.toNat).length), s') ∧ s'.flat = rest ∧ s'.failing = s.failing := by
  have hlen : (leb v.toNat).length ≤ maxVarIntLen := by
    rw [leb_length_le _ _ (by decide)]
    have := v.isLt
    have p5 : (128 : Nat) ^ maxVarIntLen = 34359738368 := by decide
    omega
  obtain ⟨s', h, hf, hfl⟩ := Lemmas.varLoop_leb 32 maxVarIntLen 0 v.toNat 0#32 rest s hlen hs
  refine ⟨s', ?_, hf, hfl⟩
  unfold varIntRead
  rw [h]
  simp

theorem beLongs_eq (ds : List (BitVec 64)) : beLongs ds = ds.flatMap be64Bytes := by
  unfold beLongs
  induction ds with
  | nil => rfl
  | cons d ds ih => simp [List.flatMap_cons, be64Bytes_eq_beLong, ih]

/-- what `WriteTo` emits: the count as a VarInt, then the longs big-endian -/
theorem writeTo_eq (st : BitStorage) (h31 : st.data.length < 2 ^ 31) :
    st.writeTo = leb st.data.length ++ beLongs st.data := by
  unfold BitStorage.writeTo varIntBytes beLongs
  rw [BitVec.toNat_ofNat, Nat.mod_eq_of_lt (by omega)]
  rw [← beLongs_eq]; rfl

/-- `ReadFrom` on the wire form of `ds`, whatever the destination held before -/
theorem readFrom_ok (st : BitStorage) (ds : List (BitVec 64)) (h31 : ds.length < 2 ^ 31) (rest : Bytes)
    (s : Stream) (hs : s.flat = leb ds.length ++ beLongs ds ++ rest) :
    ∃ s' spare, st.readFrom s =
        (.ok ((leb ds.length).length + 8 * ds.length), { st with data := ds, spare := spare }, s') ∧
      s'.flat = rest ∧ s'.failing = s.failing := by
  have hk : (BitVec.ofNat 32 ds.length).toNat = ds.length := by
    rw [BitVec.toNat_ofNat, Nat.mod_eq_of_lt (by omega)]
  have hbe := beLongs_eq ds
  obtain ⟨s1, hv, hf1, hfl1⟩ := varIntRead_ok (BitVec.ofNat 32 ds.length) (beLongs ds ++ rest) s
    (by rw [hk, hs, List.append_assoc])
  rw [hk] at hv
  have hpos : ¬ (BitVec.ofNat 32 ds.length).toInt < 0 := by
    rw [BitVec.toInt_eq_toNat_of_lt (by rw [hk]; omega), hk]; omega
  unfold BitStorage.readFrom
  simp only [hv, hpos, if_false, hk]
  let arr := st.data ++ st.spare
  have hcl : (if ds.length ≤ arr.length then arr.take ds.length else List.replicate ds.length 0#64).length = ds.length := by
    split
    · rename_i h; simp [List.length_take, h]
    · simp
  obtain ⟨s2, hr, hf2, hfl2⟩ := readLongs_ok ds _ s1 rest hcl (by rw [hf1, hbe])
  refine ⟨s2, (if ds.length ≤ (st.data ++ st.spare).length then List.drop ds.length (st.data ++ st.spare) else []),
    ?_, hf2, hfl2.trans hfl1⟩
  simp only [arr] at hr
  rw [hr]
  rfl

/-! ### size rules -/

/-- `calcBitsPerValue` on natural numbers -/
def bpvNat (n l : Nat) : Nat := if l = 0 ∨ n = 0 then 0 else 64 / ((n + l - 1) / l)

theorem size_pos {b n : Nat} (h1 : 1 ≤ b) (h64 : b ≤ 64) (hn : 0 < n) : 0 < size b n := by
  have := (size_spec h1 h64 n).1
  by_cases h : size b n = 0
  · rw [h] at this; omega
  · omega

/-- the width inferred from `n` values in `size b n` longs is `b` exactly when `⌊64/(b+1)⌋ · size < n` -/
theorem bpv_char {b : Nat} (h1 : 1 ≤ b) (h64 : b ≤ 64) (n : Nat) :
    bpvNat n (size b n) = b ↔ 0 < n ∧ 64 / (b + 1) * size b n < n := by
  unfold bpvNat
  by_cases hn : n = 0
  · subst hn; simp; omega
  · have hnpos : 0 < n := by omega
    have hL := size_pos h1 h64 hnpos
    have hcap := (size_spec h1 h64 n).1
    have hvp := vpl_pos h1 h64
    generalize hLd : size b n = L at *
    have hne : ¬ (L = 0 ∨ n = 0) := by omega
    simp only [hne, if_false, hnpos, true_and]
    generalize hvd : (n + L - 1) / L = v'
    have hv1 : 1 ≤ v' := by
      rw [← hvd, Nat.le_div_iff_mul_le hL]; omega
    -- v' ≤ vpl b
    have hvle : v' ≤ vpl b := by
      have : (n + L - 1) / L < vpl b + 1 := by
        rw [Nat.div_lt_iff_lt_mul hL, Nat.succ_mul, Nat.mul_comm]; omega
      omega
    have hbv : b * v' ≤ 64 := by
      have := vpl_mul_le b
      calc b * v' ≤ b * vpl b := Nat.mul_le_mul_left _ hvle
        _ = vpl b * b := Nat.mul_comm _ _
        _ ≤ 64 := this
    -- w < v' ↔ w * L < n
    have hkey : 64 / (b + 1) < v' ↔ 64 / (b + 1) * L < n := by
      generalize 64 / (b + 1) = w
      rw [← hvd]
      constructor
      · intro h
        have : (w + 1) * L ≤ n + L - 1 := (Nat.le_div_iff_mul_le hL).mp h
        rw [Nat.succ_mul] at this; omega
      · intro h
        apply (Nat.le_div_iff_mul_le hL).mpr
        rw [Nat.succ_mul]; omega
    rw [← hkey, Nat.div_lt_iff_lt_mul (by omega : 0 < b + 1)]
    constructor
    · intro h
      have hdm := Nat.div_add_mod 64 v'
      have hml := Nat.mod_lt 64 (by omega : v' > 0)
      rw [h] at hdm
      rw [Nat.mul_succ]; omega
    · intro h
      apply Nat.div_eq_of_lt_le
      · exact hbv
      · rw [Nat.mul_comm]; exact h

/-! ### signed division on non-negative 64-bit operands (what the translator emits for Go's `/` on int) -/

theorem sdiv_toNat (x y : BitVec 64) (hx : x.toNat < 2 ^ 63) (hy : y.toNat < 2 ^ 63) :
    (BitVec.sdiv x y).toNat = x.toNat / y.toNat := by
  rw [BitVec.sdiv_eq]
  have h1 : x.msb = false := by rw [BitVec.msb_eq_decide]; simp; omega
  have h2 : y.msb = false := by rw [BitVec.msb_eq_decide]; simp; omega
  simp [h1, h2]

theorem ofNat_toNat_lt {k : Nat} (h : k < 2 ^ 64) : (BitVec.ofNat 64 k).toNat = k := by
  rw [BitVec.toNat_ofNat, Nat.mod_eq_of_lt h]


/-! ### the padding invariant along a history -/

theorem step_clean {b n : Nat} {st : BitStorage} (hwf : WF b n st) (h1 : 1 ≤ b) (hb : b ≤ 63) (op : ArrOp)
    (hop : OpInt op) (hcl : Clean b n st.data) : Clean b n (st.step op).2.data := by
  have h64 : b ≤ 64 := by omega
  cases op with
  | get i => exact hcl
  | set i v =>
    simp only [BitStorage.step]
    by_cases h : 0 ≤ v ∧ v < (2 : Int) ^ b ∧ 0 ≤ i ∧ i < n
    · obtain ⟨k, rfl⟩ : ∃ k : Nat, i = (k : Int) := ⟨i.toNat, by omega⟩
      obtain ⟨w, rfl⟩ : ∃ w : Nat, v = (w : Int) := ⟨v.toNat, by omega⟩
      have hk : k < n := by omega
      have hw : w < 2 ^ b := by
        have : ((2 ^ b : Nat) : Int) = (2 : Int) ^ b := by norm_cast
        omega
      rw [set_ok hwf h1 hb hk hw]
      exact clean_newData h1 h64 st.data k w hk hcl
    · rw [set_reject hwf h1 hb i v hop.1 hop.2 h]; exact hcl
  | swap i v =>
    simp only [BitStorage.step]
    by_cases h : 0 ≤ v ∧ v < (2 : Int) ^ b ∧ 0 ≤ i ∧ i < n
    · obtain ⟨k, rfl⟩ : ∃ k : Nat, i = (k : Int) := ⟨i.toNat, by omega⟩
      obtain ⟨w, rfl⟩ : ∃ w : Nat, v = (w : Int) := ⟨v.toNat, by omega⟩
      have hk : k < n := by omega
      have hw : w < 2 ^ b := by
        have : ((2 ^ b : Nat) : Int) = (2 : Int) ^ b := by norm_cast
        omega
      rw [swap_ok hwf h1 hb hk hw]
      exact clean_newData h1 h64 st.data k w hk hcl
    · rw [swap_reject hwf h1 hb i v hop.1 hop.2 h]; exact hcl

theorem run_clean {b n : Nat} (h1 : 1 ≤ b) (hb : b ≤ 63) (ops : List ArrOp) (hops : ∀ op ∈ ops, OpInt op)
    (st : BitStorage) (hwf : WF b n st) (hcl : Clean b n st.data) : Clean b n (st.run ops).2.data := by
  induction ops generalizing st with
  | nil => exact hcl
  | cons op ops ih =>
    have hop := hops op (by simp)
    obtain ⟨_, _, e3⟩ := step_refines hwf h1 hb op hop
    exact ih (fun o ho => hops o (by simp [ho])) (st.step op).2 e3 (step_clean hwf h1 hb op hop hcl)

theorem unpack_zeros (b n m : Nat) : unpack b n (List.replicate m 0#64) = List.replicate n 0 := by
  apply List.ext_getElem
  · simp
  · intro i _ _
    simp only [unpack, List.getElem_map, List.getElem_range, List.getElem_replicate, entry]
    have : (List.replicate m 0#64).getD (i / vpl b) 0#64 = 0#64 := by
      rw [List.getD_eq_getElem?_getD, List.getElem?_replicate]
      split <;> rfl
    rw [this]; simp

theorem clean_pack {b : Nat} (vals : List Nat) (h : ∀ v ∈ vals, v < 2 ^ b) : Clean b vals.length (pack b vals) := by
  intro c hc
  simp only [pack, List.getElem_map, List.getElem_range]
  have hds : ∀ v ∈ (vals.drop (c * vpl b)).take (vpl b), v < 2 ^ b :=
    fun v hv' => h v (List.mem_of_mem_drop (List.mem_of_mem_take hv'))
  have h4 := packLong_lt b _ hds
  have hl : ((vals.drop (c * vpl b)).take (vpl b)).length = cnt b vals.length c := by simp [cnt]
  rw [hl] at h4
  rw [BitVec.toNat_ofNat]
  exact Nat.lt_of_le_of_lt (Nat.mod_le _ _) h4

/-! ### zero bits -/

/-- what every call on a zero-bit storage returns -/
def zeroObs : ArrOp → Res (Option Int)
  | .get _ => .ok (some 0)
  | .set _ _ => .ok none
  | .swap _ _ => .ok (some 0)

theorem zero_step (st : BitStorage) (h : st.vpl = 0) (op : ArrOp) : st.step op = (zeroObs op, st) := by
  cases op <;> simp [BitStorage.step, BitStorage.get, BitStorage.set, BitStorage.swap, h, zeroObs, Res.map]

theorem beLongs_length (ds : List (BitVec 64)) : (beLongs ds).length = 8 * ds.length := by
  unfold beLongs
  induction ds with
  | nil => rfl
  | cons d ds ih => simp only [List.flatMap_cons, List.length_append, ih, List.length_cons]; simp [beLong]; omega


end GoMC.Lemmas.BitStorage
