/-
  Lemmas for the NBT form of text components (C17, stage 2): the typed codec of `Model/NBTTyped.lean` /
  `Model/NBTEncode.lean` evaluated at the chat struct types (`Model/ChatNBT.lean`).

  * field tables: `typeFields` of `rawMsgStruct`, `translateMsg`, `ClickEvent`, `HoverEvent`, by evaluation;
  * writing: each field of the struct loop (`fieldEnc_*`), the whole struct (`msgFields_enc`, `encodeStruct_eval`), and
    by induction over components `enc_msg`: `MarshalNBT` writes the payload of the compound `Spec.nbtForm`;
  * reading: a struct loop over OPTIONAL entries for any recursion (`R_optLoop`, the `omitempty` counterpart of
    `R_structLoop`), and by induction over components `dec_msg`.
-/
import GoMC.Model.ChatNBT
import GoMC.Lemmas.NBTRoundTrip
import GoMC.Lemmas.NBTFragment
set_option linter.unusedSimpArgs false
namespace GoMC.Lemmas.ChatNBT
open GoMC GoMC.Rd GoMC.Spec GoMC.Model GoMC.Model.NBT GoMC.Model.Go GoMC.Model.ChatNBT GoMC.Lemmas.NBTDecode GoMC.Lemmas.NBTTyped
open GoMC.Spec (NBT encPayload encList encKvs encString)

/-- (moved here when the NBT package reorganised its lemma files) -/
theorem set_append_length {α : Type} (pre : List α) (x r : α) (post : List α) :
    (pre ++ x :: post).set pre.length r = pre ++ r :: post := by simp


def oFld (name : Bytes) (i : Nat) (ty : GoType) (om : Bool) : Fld :=
  { name, tagged := true, index := [i], typ := ty, omitEmpty := om, asList := false }

def msgFlds (textOmit : Bool) : List Fld :=
  [oFld kText 0 .str textOmit, oFld kBold 1 .bool true, oFld kItalic 2 .bool true, oFld kUnderlined 3 .bool true,
   oFld kStrikethrough 4 .bool true, oFld kObfuscated 5 .bool true, oFld kFont 6 .str true, oFld kColor 7 .str true,
   oFld kInsertion 8 .str true, oFld kClickEvent 9 clickTy true, oFld kHoverEvent 10 hoverTy true,
   oFld kTranslate 11 .str true, oFld kWith 12 argsTy true, oFld kExtra 13 (.slice msgPH) true]

theorem typeFields_raw : typeFields rawMsgTy = msgFlds false := by rfl
theorem typeFields_translate : typeFields translateMsgTy = msgFlds true := by rfl
theorem typeFields_raw' : typeFields (GoType.struct nRawMsgStruct rawFields) = msgFlds false := typeFields_raw
theorem typeFields_translate' : typeFields (GoType.struct nTranslateMsg translateFields) = msgFlds true := typeFields_translate
theorem typeFields_click : typeFields clickTy = [oFld kAction 0 .str false, oFld kValue 1 .str false] := by rfl
theorem typeFields_hover : typeFields hoverTy =
    [oFld kAction 0 .str false, oFld kContents 1 .iface true, oFld kValue 2 msgPH false] := by rfl

/-- a string field -/
theorem fieldEnc_str (a b : Nat) (sv : GoVal) (name : Bytes) (i : Nat) (om : Bool) (s : Bytes)
    (hw : walkEnc [i] sv = some (.str s)) (hn : name.length < 32768) (hs : s.length < 32768) :
    fieldEnc (getTagType cx0 (a + 1)) (Go.marshal cx0 (b + 2)) sv (oFld name i .str om)
      = .ok (if om = true ∧ s = [] then [] else 8 :: encString name ++ encString s) := by
  have h1 : ¬ name.length > 32767 := by omega
  have h2 : ¬ s.length > 32767 := by omega
  simp only [fieldEnc, oFld, hw, isEmptyValue, getTagType, GoVal.typeOf, tagOfType]
  by_cases he : om = true ∧ s = []
  · obtain ⟨rfl, rfl⟩ := he; simp
  · have : ¬ ((om && ([] : Bytes).isEmpty) = true) ∨ True := Or.inr trivial
    by_cases ho : om = true
    · have hs0 : s ≠ [] := fun h => he ⟨ho, h⟩
      have : s.isEmpty = false := by cases s <;> simp_all
      simp [ho, this, hs0, writeTag, h1, Go.marshal, GoVal.isCarrier, GoType.isCarrier, GoVal.typeOf, writeValue, h2, encString, beN_eq]
    · have ho' : om = false := by cases om <;> simp_all
      simp [ho', writeTag, h1, Go.marshal, GoVal.isCarrier, GoType.isCarrier, GoVal.typeOf, writeValue, h2, encString, beN_eq]

theorem fieldEnc_bool (a b : Nat) (sv : GoVal) (name : Bytes) (i : Nat) (v : Bool)
    (hw : walkEnc [i] sv = some (.bool v)) (hn : name.length < 32768) :
    fieldEnc (getTagType cx0 (a + 1)) (Go.marshal cx0 (b + 2)) sv (oFld name i .bool true)
      = .ok (if v then 1 :: encString name ++ [1] else []) := by
  have h1 : ¬ name.length > 32767 := by omega
  cases v <;>
    simp [fieldEnc, oFld, hw, isEmptyValue, getTagType, GoVal.typeOf, tagOfType, writeTag, h1, Go.marshal,
      GoVal.isCarrier, GoType.isCarrier, writeValue, encString, beN_eq]

theorem gtt_struct (k : Nat) (n : Bytes) (fields : List (FieldInfo × GoType)) (fs : List GoVal) :
    getTagType cx0 (k + 1) (.struct n fields fs) = (10, .struct n fields fs) := by
  simp [getTagType, GoVal.typeOf, tagOfType]
theorem gtt_ptr_struct (k : Nat) (e : GoType) (n : Bytes) (fields : List (FieldInfo × GoType)) (fs : List GoVal) :
    getTagType cx0 (k + 2) (.ptr e (some (.struct n fields fs))) = (10, .struct n fields fs) := by
  simp [getTagType, GoVal.isCarrier, GoVal.typeOf, GoType.isCarrier, tagOfType]
theorem gtt_raw (k : Nat) (t : Byte) (d : Bytes) : getTagType cx0 (k + 1) (.raw t d) = (t, .raw t d) := by
  simp [getTagType, carrierTag]
theorem gtt_iface (k : Nat) (x : GoVal) : getTagType cx0 (k + 1) (.iface (some x)) = getTagType cx0 k x := by
  simp [getTagType]
theorem gtt_str (k : Nat) (s : Bytes) : getTagType cx0 (k + 1) (.str s) = (8, .str s) := by
  simp [getTagType, GoVal.typeOf, tagOfType]
theorem marshal_struct (k : Nat) (n : Bytes) (fields : List (FieldInfo × GoType)) (fs : List GoVal) :
    Go.marshal cx0 (k + 2) (.struct n fields fs) 10 =
      resFlatten (resMapM (fieldEnc (getTagType cx0 k) (Go.marshal cx0 k) (.struct n fields fs))
        (typeFields (.struct n fields))) (· ++ [0]) := by
  simp [Go.marshal, GoVal.isCarrier, GoVal.typeOf, GoType.isCarrier, writeValue]
theorem marshal_raw (k : Nat) (t t' : Byte) (d : Bytes) : Go.marshal cx0 (k + 1) (.raw t d) t' = .ok d := by
  simp [Go.marshal, GoVal.isCarrier, GoVal.typeOf, GoType.isCarrier, carrierMarshal]
theorem marshal_str (k : Nat) (s : Bytes) (h : s.length < 32768) :
    Go.marshal cx0 (k + 2) (.str s) 8 = .ok (encString s) := by
  have : ¬ s.length > 32767 := by omega
  simp [Go.marshal, GoVal.isCarrier, GoVal.typeOf, GoType.isCarrier, writeValue, this, encString, beN_eq]

theorem fieldEnc_eq (g : GoVal → Byte × GoVal) (m : GoVal → Byte → Res Bytes) (sv : GoVal) (fld : Fld) (fv r : GoVal) (t : Byte)
    (p : Bytes) (hw : walkEnc fld.index sv = some fv) (he : (fld.omitEmpty && isEmptyValue fv) = false)
    (hg : g fv = (t, r)) (ht : ¬ t = 0#8) (hl : fld.asList = false) (hn : fld.name.length < 32768) (hm : m r t = .ok p) :
    fieldEnc g m sv fld = .ok (t :: encString fld.name ++ p) := by
  have h1 : ¬ fld.name.length > 32767 := by omega
  simp [fieldEnc, hw, he, hg, ht, hl, writeTag, h1, hm, encString, beN_eq]

theorem fieldEnc_omitted (g : GoVal → Byte × GoVal) (m : GoVal → Byte → Res Bytes) (sv : GoVal) (fld : Fld) (fv : GoVal)
    (hw : walkEnc fld.index sv = some fv) (he : (fld.omitEmpty && isEmptyValue fv) = true) :
    fieldEnc g m sv fld = .ok [] := by
  simp [fieldEnc, hw, he]

theorem walkEnc_idx (i : Nat) (n : Bytes) (fields : List (FieldInfo × GoType)) (fs : List GoVal) (v : GoVal)
    (h : fs[i]? = some v) : walkEnc [i] (.struct n fields fs) = some v := by
  simp [walkEnc, h]

/-- what the encoder writes for a `*ClickEvent` -/
def clickBytes (c : Click) : Bytes :=
  10 :: encString kClickEvent ++ encKvs [(kAction, .string c.action), (kValue, .string c.value)]

theorem fieldEnc_click (a b : Nat) (sv : GoVal) (click : Option Click)
    (hw : walkEnc [9] sv = some (clickVal click))
    (hok : ∀ c, click = some c → c.action.length < 32768 ∧ c.value.length < 32768) :
    fieldEnc (getTagType cx0 (a + 2)) (Go.marshal cx0 (b + 4)) sv (oFld kClickEvent 9 clickTy true)
      = .ok (match click with
             | none => []
             | some c => clickBytes c) := by
  cases click with
  | none => exact fieldEnc_omitted _ _ _ _ _ hw (by simp [oFld, clickVal, isEmptyValue])
  | some c =>
    obtain ⟨h1, h2⟩ := hok c rfl
    have hf1 := fieldEnc_str (b + 1) b (.struct nClickEvent clickFields [.str c.action, .str c.value]) kAction 0 false c.action
      (walkEnc_idx 0 _ _ _ _ rfl) (by decide) h1
    have hf2 := fieldEnc_str (b + 1) b (.struct nClickEvent clickFields [.str c.action, .str c.value]) kValue 1 false c.value
      (walkEnc_idx 1 _ _ _ _ rfl) (by decide) h2
    simp only [Bool.false_eq_true, false_and, if_false] at hf1 hf2
    have hm : Go.marshal cx0 (b + 4) (.struct nClickEvent clickFields [.str c.action, .str c.value]) 10
        = .ok (encKvs [(kAction, .string c.action), (kValue, .string c.value)]) := by
      rw [marshal_struct]
      show resFlatten (resMapM _ (typeFields clickTy)) _ = _
      rw [typeFields_click]
      simp only [resMapM, hf1, hf2, resFlatten, encKvs, NBT.tag, NBT.tagString, encPayload, NBT.tagEnd]
      simp
    have := fieldEnc_eq (getTagType cx0 (a + 2)) (Go.marshal cx0 (b + 4)) sv (oFld kClickEvent 9 clickTy true) _ _ 10 _ hw
      (by simp [oFld, clickVal, isEmptyValue]) (by simp only [clickVal, Option.map_some]; exact gtt_ptr_struct a _ _ _ _)
      (by decide) rfl (by decide) hm
    simpa [oFld, clickBytes] using this

theorem fieldEnc_hover_none (g : GoVal → Byte × GoVal) (m : GoVal → Byte → Res Bytes) (sv : GoVal)
    (hw : walkEnc [10] sv = some (.ptr hoverTy none)) :
    fieldEnc g m sv (oFld kHoverEvent 10 hoverTy true) = .ok [] :=
  fieldEnc_omitted _ _ _ _ _ hw (by simp [oFld, isEmptyValue])

/-- the entry written for a hover event with action `a`, no contents, and a value whose `MarshalNBT` writes `p` -/
def hoverBytes (a p : Bytes) : Bytes :=
  10 :: encString kHoverEvent ++ (8 :: encString kAction ++ encString a ++ (10 :: encString kValue ++ p) ++ [0])

theorem fieldEnc_hover_some (a b : Nat) (sv : GoVal) (act p : Bytes)
    (hw : walkEnc [10] sv = some (.ptr hoverTy (some (.struct nHoverEvent hoverFields [.str act, .iface none, .raw 10 p]))))
    (ha : act.length < 32768) :
    fieldEnc (getTagType cx0 (a + 2)) (Go.marshal cx0 (b + 4)) sv (oFld kHoverEvent 10 hoverTy true)
      = .ok (hoverBytes act p) := by
  have hf1 := fieldEnc_str (b + 1) b (.struct nHoverEvent hoverFields [.str act, .iface none, .raw 10 p]) kAction 0 false act (walkEnc_idx 0 _ _ _ _ rfl) (by decide) ha
  simp only [Bool.false_eq_true, false_and, if_false] at hf1
  have hf2 : fieldEnc (getTagType cx0 (b + 2)) (Go.marshal cx0 (b + 2)) (.struct nHoverEvent hoverFields [.str act, .iface none, .raw 10 p]) (oFld kContents 1 .iface true) = .ok [] :=
    fieldEnc_omitted _ _ _ _ _ (walkEnc_idx 1 _ _ _ _ rfl) (by simp [oFld, isEmptyValue])
  have hf3 : fieldEnc (getTagType cx0 (b + 2)) (Go.marshal cx0 (b + 2)) (.struct nHoverEvent hoverFields [.str act, .iface none, .raw 10 p]) (oFld kValue 2 msgPH false)
      = .ok (10 :: encString kValue ++ p) :=
    fieldEnc_eq _ _ _ _ _ _ 10 _ (walkEnc_idx 2 _ _ _ _ rfl) (by simp [oFld]) (gtt_raw _ _ _) (by decide) rfl (by decide)
      (marshal_raw _ _ _ _)
  have hm : Go.marshal cx0 (b + 4) (.struct nHoverEvent hoverFields [.str act, .iface none, .raw 10 p]) 10
      = .ok (8 :: encString kAction ++ encString act ++ (10 :: encString kValue ++ p) ++ [0]) := by
    rw [marshal_struct]
    show resFlatten (resMapM _ (typeFields hoverTy)) _ = _
    rw [typeFields_hover]
    simp only [resMapM, hf1, hf2, hf3, resFlatten]
    simp
  have := fieldEnc_eq (getTagType cx0 (a + 2)) (Go.marshal cx0 (b + 4)) sv (oFld kHoverEvent 10 hoverTy true) _ _ 10 _ hw
    (by simp [oFld, isEmptyValue]) (gtt_ptr_struct a _ _ _ _) (by decide) rfl (by decide) hm
  simpa [oFld, hoverBytes] using this

/-! lists -/

theorem resMapM_elem_raw (k : Nat) (wrap : GoVal → GoVal)
    (hg : ∀ p, getTagType cx0 (k + 2) (wrap (.raw 10 p)) = (10, .raw 10 p)) (ps : List Bytes) :
    resMapM (elemEnc (getTagType cx0 (k + 2)) (Go.marshal cx0 (k + 2)) 10) (ps.map fun p => wrap (.raw 10 p)) = .ok ps := by
  induction ps with
  | nil => rfl
  | cons p r ih =>
    simp only [List.map_cons, resMapM, elemEnc, hg, ne_eq, not_true_eq_false, if_false, marshal_raw, ih]

theorem writeValue_list (k : Nat) (e : GoType) (nl : Bool) (x : GoVal) (xs : List GoVal) :
    Go.marshal cx0 (k + 2) (.slice e nl (x :: xs)) 9 =
      resFlatten (resMapM (elemEnc (getTagType cx0 k) (Go.marshal cx0 k) (getTagType cx0 k x).1) (x :: xs))
        ((getTagType cx0 k x).1 :: beN 4 (x :: xs).length ++ ·) := by
  simp [Go.marshal, GoVal.isCarrier, GoVal.typeOf, GoType.isCarrier, writeValue]

/-- a non-empty slice of components (as such, or inside `any`): written as a list of compounds -/
theorem fieldEnc_comps (a b : Nat) (sv : GoVal) (name : Bytes) (i : Nat) (ty e : GoType) (nl : Bool) (wrap : GoVal → GoVal)
    (hg : ∀ k p, getTagType cx0 (k + 2) (wrap (.raw 10 p)) = (10, .raw 10 p))
    (p : Bytes) (ps : List Bytes)
    (hw : walkEnc [i] sv = some (.slice e nl ((p :: ps).map fun p => wrap (.raw 10 p)))) (hn : name.length < 32768) :
    fieldEnc (getTagType cx0 (a + 3)) (Go.marshal cx0 (b + 4)) sv (oFld name i ty true)
      = .ok (9 :: encString name ++ (10 :: beN 4 (p :: ps).length ++ (p :: ps).flatten)) := by
  have hgt : getTagType cx0 (a + 3) (.slice e nl ((p :: ps).map fun p => wrap (.raw 10 p)))
      = (9, .slice e nl ((p :: ps).map fun p => wrap (.raw 10 p))) := by
    simp only [List.map_cons]
    rw [show a + 3 = (a + 2) + 1 from rfl, getTagType]
    simp only [hg a p, GoVal.isCarrier, GoVal.typeOf, GoType.isCarrier, if_true]
  have hm : Go.marshal cx0 (b + 4) (.slice e nl ((p :: ps).map fun p => wrap (.raw 10 p))) 9
      = .ok (10 :: beN 4 (p :: ps).length ++ (p :: ps).flatten) := by
    have := writeValue_list (b + 2) e nl (wrap (.raw 10 p)) (ps.map fun p => wrap (.raw 10 p))
    rw [List.map_cons, this, hg b p]
    have h2 := resMapM_elem_raw b wrap (hg b) (p :: ps)
    simp only [List.map_cons] at h2
    simp only [h2, resFlatten, List.length_cons, List.length_map]
  have := fieldEnc_eq (getTagType cx0 (a + 3)) (Go.marshal cx0 (b + 4)) sv (oFld name i ty true) _ _ 9 _ hw
    (by simp [oFld, isEmptyValue]) hgt (by decide) rfl hn hm
  simpa [oFld] using this

theorem resMapM_elem_str (k : Nat) (ss : List Bytes) (hs : ∀ s ∈ ss, s.length < 32768) :
    resMapM (elemEnc (getTagType cx0 (k + 2)) (Go.marshal cx0 (k + 2)) 8) (ss.map fun s => .iface (some (.str s)))
      = .ok (ss.map encString) := by
  induction ss with
  | nil => rfl
  | cons s r ih =>
    have h1 := hs s (by simp)
    simp only [List.map_cons, resMapM, elemEnc, gtt_iface, gtt_str, ne_eq, not_true_eq_false, if_false,
      marshal_str k s h1, ih (fun x hx => hs x (by simp [hx]))]

/-- a non-empty `[]any` of plain strings: written as a list of strings -/
theorem fieldEnc_strs (a b : Nat) (sv : GoVal) (name : Bytes) (i : Nat) (ty e : GoType) (nl : Bool)
    (s : Bytes) (ss : List Bytes) (hs : ∀ x ∈ s :: ss, x.length < 32768)
    (hw : walkEnc [i] sv = some (.slice e nl ((s :: ss).map fun s => .iface (some (.str s))))) (hn : name.length < 32768) :
    fieldEnc (getTagType cx0 (a + 3)) (Go.marshal cx0 (b + 4)) sv (oFld name i ty true)
      = .ok (9 :: encString name ++ (8 :: beN 4 (s :: ss).length ++ ((s :: ss).map encString).flatten)) := by
  have hgt : getTagType cx0 (a + 3) (.slice e nl ((s :: ss).map fun s => .iface (some (.str s))))
      = (9, .slice e nl ((s :: ss).map fun s => .iface (some (.str s)))) := by
    simp only [List.map_cons]
    rw [show a + 3 = (a + 2) + 1 from rfl, getTagType]
    simp [gtt_iface, gtt_str, GoVal.isCarrier, GoVal.typeOf, GoType.isCarrier, arrTag]
  have hm : Go.marshal cx0 (b + 4) (.slice e nl ((s :: ss).map fun s => .iface (some (.str s)))) 9
      = .ok (8 :: beN 4 (s :: ss).length ++ ((s :: ss).map encString).flatten) := by
    have := writeValue_list (b + 2) e nl (.iface (some (.str s))) (ss.map fun s => .iface (some (.str s)))
    rw [List.map_cons, this, gtt_iface, gtt_str]
    have h2 := resMapM_elem_str b (s :: ss) hs
    simp only [List.map_cons] at h2
    simp only [h2, resFlatten, List.length_cons, List.length_map, List.map_cons]
  have := fieldEnc_eq (getTagType cx0 (a + 3)) (Go.marshal cx0 (b + 4)) sv (oFld name i ty true) _ _ 9 _ hw
    (by simp [oFld, isEmptyValue]) hgt (by decide) rfl hn hm
  simpa [oFld] using this

theorem fieldEnc_emptySlice (g : GoVal → Byte × GoVal) (m : GoVal → Byte → Res Bytes) (sv : GoVal) (name : Bytes) (i : Nat)
    (ty e : GoType) (nl : Bool) (hw : walkEnc [i] sv = some (.slice e nl [])) :
    fieldEnc g m sv (oFld name i ty true) = .ok [] :=
  fieldEnc_omitted _ _ _ _ _ hw (by simp [oFld, isEmptyValue])

/-! ### the whole struct -/

/-- entries without the closing End -/
def kvsBytes : List (Bytes × NBT) → Bytes
  | [] => []
  | (k, v) :: r => v.tag :: encString k ++ encPayload v ++ kvsBytes r

theorem encKvs_kvsBytes (kvs : List (Bytes × NBT)) : encKvs kvs = kvsBytes kvs ++ [0#8] := by
  induction kvs with
  | nil => simp [encKvs, kvsBytes, NBT.tagEnd]
  | cons kv r ih => obtain ⟨k, v⟩ := kv; simp [encKvs, kvsBytes, ih]

theorem kvsBytes_append (a b : List (Bytes × NBT)) : kvsBytes (a ++ b) = kvsBytes a ++ kvsBytes b := by
  induction a with
  | nil => rfl
  | cons kv r ih => obtain ⟨k, v⟩ := kv; simp [kvsBytes, ih]

theorem nbtForm_tag (m : Msg) : (nbtForm m).tag = 10 := by
  cases m; rw [nbtForm.eq_def]; rfl

theorem kvsBytes_optS (k s : Bytes) : kvsBytes (optS k s) = if s = [] then [] else 8 :: encString k ++ encString s := by
  unfold optS; split <;> simp [kvsBytes, NBT.tag, NBT.tagString, encPayload]
theorem kvsBytes_optB (k : Bytes) (b : Bool) : kvsBytes (optB k b) = if b then 1 :: encString k ++ [1] else [] := by
  unfold optB; cases b <;> simp [kvsBytes, NBT.tag, NBT.tagByte, encPayload]
theorem kvsBytes_click (c : Option Click) : kvsBytes (clickForm c) = (match c with | none => [] | some c => clickBytes c) := by
  cases c <;> simp [clickForm, kvsBytes, clickBytes, NBT.tag, NBT.tagCompound, encPayload]

theorem fieldEnc_click' (a b : Nat) (sv : GoVal) (click : Option Click)
    (hw : walkEnc [9] sv = some (clickVal click))
    (hok : ∀ c, click = some c → c.action.length < 32768 ∧ c.value.length < 32768) :
    fieldEnc (getTagType cx0 (a + 2)) (Go.marshal cx0 (b + 4)) sv (oFld kClickEvent 9 clickTy true)
      = .ok (kvsBytes (clickForm click)) := by
  rw [fieldEnc_click a b sv click hw hok, kvsBytes_click]
  cases click <;> rfl

/-- `Encode(sv, "")` in network format, then `[1:]`, for a struct value whose fields are written as `bs` -/
theorem encodeStruct_eval (tr : Bytes) (fs : List GoVal) (bs : List Bytes)
    (h : ∀ c n fields, (n = nTranslateMsg ∧ fields = translateFields ∧ tr ≠ []) ∨ (n = nRawMsgStruct ∧ fields = rawFields ∧ tr = []) →
      resMapM (fieldEnc (getTagType cx0 (c + 4)) (Go.marshal cx0 (c + 4)) (.struct n fields fs)) (msgFlds (decide (tr ≠ []))) = .ok bs) :
    encodeStruct tr fs = .ok (bs.flatten ++ [0#8]) := by
  unfold encodeStruct
  by_cases ht : tr = []
  · subst ht
    simp only [ne_eq, not_true_eq_false, if_false]
    have hh := h (2 * (GoVal.struct nRawMsgStruct rawFields fs).encFuel + 2) nRawMsgStruct rawFields (Or.inr ⟨rfl, rfl, rfl⟩)
    simp only [ne_eq, not_true_eq_false, decide_false] at hh
    have e : 2 * (GoVal.struct nRawMsgStruct rawFields fs).encFuel + 8
        = (2 * (GoVal.struct nRawMsgStruct rawFields fs).encFuel + 2 + 4) + 2 := by omega
    simp only [encode, encodeF, e]
    rw [gtt_struct, marshal_struct]
    rw [typeFields_raw', hh]
    simp [resFlatten, goSliceFrom]
  · simp only [ne_eq, ht, not_false_eq_true, if_true]
    have hh := h (2 * (GoVal.struct nTranslateMsg translateFields fs).encFuel + 2) nTranslateMsg translateFields (Or.inl ⟨rfl, rfl, ht⟩)
    simp only [ne_eq, ht, not_false_eq_true, decide_true] at hh
    have e : 2 * (GoVal.struct nTranslateMsg translateFields fs).encFuel + 8
        = (2 * (GoVal.struct nTranslateMsg translateFields fs).encFuel + 2 + 4) + 2 := by omega
    simp only [encode, encodeF, e]
    rw [gtt_struct, marshal_struct]
    rw [typeFields_translate', hh]
    simp [resFlatten, goSliceFrom]

def strsOf : List (Msg ⊕ Bytes) → List Bytes
  | [] => []
  | .inr s :: r => s :: strsOf r
  | .inl _ :: r => strsOf r

/-- the elements of `nbtArgs(m.With)` as the encoder sees them -/
def argVals (args : List (Msg ⊕ Bytes)) : List GoVal :=
  if args.all isStrArg then (strsOf args).map fun s => .iface (some (.str s))
  else (argForms args).map fun t => .iface (some (.raw 10 (encPayload t)))

theorem strForms_eq (args : List (Msg ⊕ Bytes)) : strForms args = (strsOf args).map NBT.string := by
  induction args with
  | nil => rfl
  | cons a r ih => cases a <;> simp [strForms, strsOf, ih]

theorem strsOf_len (args : List (Msg ⊕ Bytes)) (h : args.all isStrArg = true) : (strsOf args).length = args.length := by
  induction args with
  | nil => rfl
  | cons a r ih =>
    cases a with
    | inl m => simp [isStrArg] at h
    | inr s => simp only [List.all_cons, Bool.and_eq_true] at h; simp [strsOf, ih h.2]

theorem argForms_len (args : List (Msg ⊕ Bytes)) : (argForms args).length = args.length := by
  induction args with
  | nil => simp [argForms]
  | cons a r ih => cases a <;> simp [argForms, ih]

theorem formList_len (xs : List Msg) : (formList xs).length = xs.length := by
  induction xs with
  | nil => simp [formList]
  | cons a r ih => simp [formList, ih]

theorem strsOf_short (args : List (Msg ⊕ Bytes)) (h : NbtOKArgs args) : ∀ s ∈ strsOf args, s.length < 32768 := by
  induction args with
  | nil => intro s hs; cases hs
  | cons a r ih =>
    cases a with
    | inl m => rw [NbtOKArgs] at h; simpa [strsOf] using ih h.2
    | inr s =>
      rw [NbtOKArgs] at h
      intro x hx
      simp only [strsOf, List.mem_cons] at hx
      rcases hx with rfl | hx
      · exact h.1
      · exact ih h.2 x hx

theorem fieldEnc_with (a b : Nat) (sv : GoVal) (args : List (Msg ⊕ Bytes)) (hok : NbtOKArgs args) (hlen : args.length < 2 ^ 31)
    (hw : walkEnc [12] sv = some (.slice .dyn args.isEmpty (argVals args))) :
    fieldEnc (getTagType cx0 (a + 3)) (Go.marshal cx0 (b + 4)) sv (oFld kWith 12 argsTy true)
      = .ok (kvsBytes (withForm args)) := by
  cases args with
  | nil =>
    rw [withForm]
    exact fieldEnc_emptySlice _ _ _ _ _ _ _ _ (by simpa [argVals, strsOf] using hw)
  | cons x xs =>
    rw [withForm]
    by_cases hall : (x :: xs).all isStrArg = true
    · have hl := strsOf_len _ hall
      cases hss : strsOf (x :: xs) with
      | nil => rw [hss] at hl; simp at hl
      | cons s ss =>
        have hw' : walkEnc [12] sv = some (.slice .dyn false ((s :: ss).map fun s => .iface (some (.str s)))) := by
          rw [hw]; simp [argVals, hall, hss]
        have hshort : ∀ y ∈ s :: ss, y.length < 32768 := by rw [← hss]; exact strsOf_short _ hok
        rw [fieldEnc_strs a b sv kWith 12 argsTy .dyn false s ss hshort hw' (by decide)]
        simp only [hall, if_true, kvsBytes, NBT.tag, NBT.tagList, encPayload, strForms_eq, hss, List.append_nil,
          encList_eq_flatten, List.map_map, beN_eq, List.length_map, NBT.tagString]
        rfl
    · have hl := argForms_len (x :: xs)
      cases hff : argForms (x :: xs) with
      | nil => rw [hff] at hl; simp at hl
      | cons t ts =>
        have hw' : walkEnc [12] sv = some (.slice .dyn false (((t :: ts).map encPayload).map fun p => (fun v => GoVal.iface (some v)) (.raw 10 p))) := by
          rw [hw]; simp [argVals, hall, hff]
        have := fieldEnc_comps a b sv kWith 12 argsTy .dyn false (fun v => GoVal.iface (some v))
          (fun k p => by rw [gtt_iface, gtt_raw]) (encPayload t) (ts.map encPayload) (by simpa using hw') (by decide)
        rw [this]
        simp only [hall, Bool.false_eq_true, if_false, kvsBytes, NBT.tag, NBT.tagList, encPayload, hff, List.append_nil,
          encList_eq_flatten, beN_eq, List.length_map, List.length_cons, NBT.tagCompound, List.map_cons]

theorem fieldEnc_extra (a b : Nat) (sv : GoVal) (extra : List Msg)
    (hw : walkEnc [13] sv = some (.slice msgPH extra.isEmpty ((formList extra).map fun t => .raw 10 (encPayload t)))) :
    fieldEnc (getTagType cx0 (a + 3)) (Go.marshal cx0 (b + 4)) sv (oFld kExtra 13 (.slice msgPH) true)
      = .ok (kvsBytes (extraForm extra)) := by
  cases extra with
  | nil =>
    rw [extraForm]
    exact fieldEnc_emptySlice _ _ _ _ _ _ _ _ (by simpa [formList] using hw)
  | cons x xs =>
    rw [extraForm]
    have hl := formList_len (x :: xs)
    cases hff : formList (x :: xs) with
    | nil => rw [hff] at hl; simp at hl
    | cons t ts =>
      have hw' : walkEnc [13] sv = some (.slice msgPH false (((t :: ts).map encPayload).map fun p => (fun v => v) (GoVal.raw 10 p))) := by
        rw [hw]; simp [hff]
      have := fieldEnc_comps a b sv kExtra 13 (.slice msgPH) msgPH false (fun v => v)
        (fun k p => gtt_raw _ _ _) (encPayload t) (ts.map encPayload) (by simpa using hw') (by decide)
      rw [this]
      simp only [kvsBytes, NBT.tag, NBT.tagList, encPayload, hff, List.append_nil,
        encList_eq_flatten, beN_eq, List.length_map, List.length_cons, NBT.tagCompound, List.map_cons]

/-- the hover field value, given what the value's `MarshalNBT` writes -/
def hoverVal (hover : Option (Bytes × JSON × Msg)) : GoVal :=
  .ptr hoverTy (match hover with
    | none => none
    | some (a, c, v) => some (.struct nHoverEvent hoverFields [.str a, contentsVal c, .raw 10 (encPayload (nbtForm v))]))

theorem fieldEnc_hover (a b : Nat) (sv : GoVal) (hover : Option (Bytes × JSON × Msg))
    (hok : ∀ x c v, hover = some (x, c, v) → x.length < 32768 ∧ c = .null)
    (hw : walkEnc [10] sv = some (hoverVal hover)) :
    fieldEnc (getTagType cx0 (a + 2)) (Go.marshal cx0 (b + 4)) sv (oFld kHoverEvent 10 hoverTy true)
      = .ok (kvsBytes (hoverForm hover)) := by
  cases hover with
  | none => rw [hoverForm]; exact fieldEnc_hover_none _ _ _ (by simpa [hoverVal] using hw)
  | some h =>
    obtain ⟨x, c, v⟩ := h
    obtain ⟨hx, rfl⟩ := hok x c v rfl
    rw [hoverForm, fieldEnc_hover_some a b sv x (encPayload (nbtForm v)) (by simpa [hoverVal, contentsVal, anyVal] using hw) hx]
    have ht := nbtForm_tag v
    simp only [kvsBytes, hoverBytes, encPayload, encKvs, ht]
    simp [NBT.tag, NBT.tagCompound, NBT.tagString, NBT.tagEnd]

/-- all the fields of the struct, in the order of the field table -/
theorem msgFields_enc (c : Nat) (n : Bytes) (fields : List (FieldInfo × GoType)) (om : Bool)
    (text : Bytes) (bold italic underlined strikethrough obfuscated : Bool) (font color insertion : Bytes)
    (click : Option Click) (hover : Option (Bytes × JSON × Msg)) (translate : Bytes) (args : List (Msg ⊕ Bytes)) (extra : List Msg)
    (h1 : shortStr text) (h2 : shortStr font) (h3 : shortStr color) (h4 : shortStr insertion) (h5 : shortStr translate)
    (h6 : ∀ cl, click = some cl → cl.action.length < 32768 ∧ cl.value.length < 32768)
    (h7 : ∀ x cc v, hover = some (x, cc, v) → x.length < 32768 ∧ cc = .null)
    (h8 : NbtOKArgs args) (h9 : args.length < 2 ^ 31) :
    resMapM (fieldEnc (getTagType cx0 (c + 4)) (Go.marshal cx0 (c + 4)) (.struct n fields
        [.str text, .bool bold, .bool italic, .bool underlined, .bool strikethrough, .bool obfuscated,
         .str font, .str color, .str insertion, clickVal click, hoverVal hover,
         .str translate, .slice .dyn args.isEmpty (argVals args),
         .slice msgPH extra.isEmpty ((formList extra).map fun t => .raw 10 (encPayload t))])) (msgFlds om)
      = .ok [(if om = true ∧ text = [] then [] else 8 :: encString kText ++ encString text),
             kvsBytes (optB kBold bold), kvsBytes (optB kItalic italic), kvsBytes (optB kUnderlined underlined),
             kvsBytes (optB kStrikethrough strikethrough), kvsBytes (optB kObfuscated obfuscated),
             kvsBytes (optS kFont font), kvsBytes (optS kColor color), kvsBytes (optS kInsertion insertion),
             kvsBytes (clickForm click), kvsBytes (hoverForm hover), kvsBytes (optS kTranslate translate),
             kvsBytes (withForm args), kvsBytes (extraForm extra)] := by
  simp only [msgFlds, resMapM]
  rw [fieldEnc_str (c + 3) (c + 2) _ kText 0 om text (walkEnc_idx 0 _ _ _ _ rfl) (by decide) h1,
    fieldEnc_bool (c + 3) (c + 2) _ kBold 1 bold (walkEnc_idx 1 _ _ _ _ rfl) (by decide),
    fieldEnc_bool (c + 3) (c + 2) _ kItalic 2 italic (walkEnc_idx 2 _ _ _ _ rfl) (by decide),
    fieldEnc_bool (c + 3) (c + 2) _ kUnderlined 3 underlined (walkEnc_idx 3 _ _ _ _ rfl) (by decide),
    fieldEnc_bool (c + 3) (c + 2) _ kStrikethrough 4 strikethrough (walkEnc_idx 4 _ _ _ _ rfl) (by decide),
    fieldEnc_bool (c + 3) (c + 2) _ kObfuscated 5 obfuscated (walkEnc_idx 5 _ _ _ _ rfl) (by decide),
    fieldEnc_str (c + 3) (c + 2) _ kFont 6 true font (walkEnc_idx 6 _ _ _ _ rfl) (by decide) h2,
    fieldEnc_str (c + 3) (c + 2) _ kColor 7 true color (walkEnc_idx 7 _ _ _ _ rfl) (by decide) h3,
    fieldEnc_str (c + 3) (c + 2) _ kInsertion 8 true insertion (walkEnc_idx 8 _ _ _ _ rfl) (by decide) h4,
    fieldEnc_click' (c + 2) c _ click (walkEnc_idx 9 _ _ _ _ rfl) h6,
    fieldEnc_hover (c + 2) c _ hover h7 (walkEnc_idx 10 _ _ _ _ rfl),
    fieldEnc_str (c + 3) (c + 2) _ kTranslate 11 true translate (walkEnc_idx 11 _ _ _ _ rfl) (by decide) h5,
    fieldEnc_with (c + 1) c _ args h8 h9 (walkEnc_idx 12 _ _ _ _ rfl),
    fieldEnc_extra (c + 1) c _ extra (walkEnc_idx 13 _ _ _ _ rfl)]
  simp only [kvsBytes_optB, kvsBytes_optS, true_and]

/-- the payload of the compound `nbtForm` of a component with the given fields -/
theorem payload_fields (om : Bool) (text : Bytes) (bold italic underlined strikethrough obfuscated : Bool) (font color insertion : Bytes)
    (click : Option Click) (hover : Option (Bytes × JSON × Msg)) (translate : Bytes) (args : List (Msg ⊕ Bytes)) (extra : List Msg)
    (hom : om = decide (translate ≠ [])) :
    ([(if om = true ∧ text = [] then [] else 8 :: encString kText ++ encString text),
       kvsBytes (optB kBold bold), kvsBytes (optB kItalic italic), kvsBytes (optB kUnderlined underlined),
       kvsBytes (optB kStrikethrough strikethrough), kvsBytes (optB kObfuscated obfuscated),
       kvsBytes (optS kFont font), kvsBytes (optS kColor color), kvsBytes (optS kInsertion insertion),
       kvsBytes (clickForm click), kvsBytes (hoverForm hover), kvsBytes (optS kTranslate translate),
       kvsBytes (withForm args), kvsBytes (extraForm extra)] : List Bytes).flatten ++ [0#8]
      = encPayload (nbtForm ⟨text, bold, italic, underlined, strikethrough, obfuscated, font, color, insertion, click, hover,
          translate, args, extra⟩) := by
  rw [nbtForm.eq_def]
  simp only [encPayload, encKvs_kvsBytes, kvsBytes_append]
  subst hom
  by_cases ht : translate = []
  · simp [ht, kvsBytes, NBT.tag, NBT.tagString, encPayload]
  · simp only [ne_eq, ht, not_false_eq_true, decide_true, true_and, if_true, kvsBytes_optS]
    simp

theorem marshalText_ok (s : Bytes) (hs : s.length < 32768) :
    marshalText s = .ok (encPayload (.compound [(kText, .string s)])) := by
  unfold marshalText
  rw [encodeStruct_eval [] (plainFields s) _ (fun c n fields _ => by
    have := msgFields_enc c n fields (decide (([] : Bytes) ≠ [])) s false false false false false [] [] [] none none [] [] []
      hs (by simp [shortStr]) (by simp [shortStr]) (by simp [shortStr]) (by simp [shortStr]) (by intro _ h; cases h) (by intro _ _ _ h; cases h)
      (by rw [NbtOKArgs]; trivial) (by decide)
    simpa [plainFields, hoverVal, argVals, strsOf, formList] using this)]
  simp [kvsBytes, optB, optS, clickForm, hoverForm, withForm, extraForm, encPayload, encKvs, NBT.tag, NBT.tagString, NBT.tagEnd]

theorem enc_args_str : ∀ args : List (Msg ⊕ Bytes), args.all isStrArg = true →
    marshalArgs false args = .ok ((strsOf args).map fun s => .iface (some (.str s)))
  | [], _ => by rw [marshalArgs]; rfl
  | .inl m :: r, h => by simp [isStrArg] at h
  | .inr s :: r, h => by
    simp only [List.all_cons, Bool.and_eq_true] at h
    rw [marshalArgs, enc_args_str r h.2]
    simp [strsOf]

theorem any_not_of_not_all (args : List (Msg ⊕ Bytes)) (p : Msg ⊕ Bytes → Bool) (h : ¬ args.all p = true) :
    args.any (fun a => !p a) = true := by
  induction args with
  | nil => simp at h
  | cons a r ih =>
    simp only [List.all_cons, Bool.and_eq_true, not_and] at h
    simp only [List.any_cons, Bool.or_eq_true, Bool.not_eq_true']
    by_cases ha : p a = true
    · exact Or.inr (ih (h ha))
    · left; cases hp : p a <;> simp_all

theorem isMixed_allStr (args : List (Msg ⊕ Bytes)) (h : args.all isStrArg = true) : isMixed args = false := by
  unfold isMixed
  have : args.any (fun a => !isStrArg a) = false := by
    induction args with
    | nil => rfl
    | cons a r ih =>
      simp only [List.all_cons, Bool.and_eq_true] at h
      simp [h.1, ih h.2]
  simp [this]

/-- not all strings: mixed, or no string at all -/
theorem mixed_or_noStr (args : List (Msg ⊕ Bytes)) (h : ¬ args.all isStrArg = true) :
    isMixed args = true ∨ args.all (fun a => !isStrArg a) = true := by
  by_cases hs : args.all (fun a => !isStrArg a) = true
  · exact Or.inr hs
  · left
    unfold isMixed
    have h1 := any_not_of_not_all args isStrArg h
    have h2 := any_not_of_not_all args (fun a => !isStrArg a) hs
    simp only [Bool.not_not] at h2
    simp [h1, h2]

mutual
  /-- **`MarshalNBT` writes the payload of `nbtForm`** -/
  theorem enc_msg : ∀ m : Msg, NbtOK m → marshalNBT m = .ok (encPayload (nbtForm m))
    | ⟨text, bold, italic, underlined, strikethrough, obfuscated, font, color, insertion, click, none, translate, args, extra⟩, h => by
      simp only [NbtOK] at h
      obtain ⟨h1, h2, h3, h4, h5, h6, _, h9, h8, _, h10⟩ := h
      have hx := enc_list extra h10
      have ha : marshalArgs (isMixed args) args = .ok (argVals args) := by
        unfold argVals
        by_cases hall : args.all isStrArg = true
        · rw [isMixed_allStr args hall, enc_args_str args hall, if_pos hall]
        · rw [if_neg hall]; exact enc_argsC (isMixed args) args h8 (mixed_or_noStr args hall)
      rw [marshalNBT]
      simp only [Res.pure_eq, Res.bind_ok, ha, hx]
      rw [show GoVal.ptr hoverTy none = hoverVal none from rfl]
      rw [encodeStruct_eval translate _ _ (fun c n fields _ =>
        msgFields_enc c n fields (decide (translate ≠ [])) text bold italic underlined strikethrough obfuscated font color
          insertion click none translate args extra h1 h2 h3 h4 h5
          (by intro cl hcl; subst hcl; exact h6) (by intro _ _ _ hh; cases hh) h8 h9)]
      rw [payload_fields _ _ _ _ _ _ _ _ _ _ _ _ _ _ _ rfl]
    | ⟨text, bold, italic, underlined, strikethrough, obfuscated, font, color, insertion, click, some (hact, hcon, hval), translate, args, extra⟩, h => by
      simp only [NbtOK] at h
      obtain ⟨h1, h2, h3, h4, h5, h6, ⟨h7a, h7c, h7v⟩, h9, h8, _, h10⟩ := h
      have hh := enc_msg hval h7v
      have hx := enc_list extra h10
      have ha : marshalArgs (isMixed args) args = .ok (argVals args) := by
        unfold argVals
        by_cases hall : args.all isStrArg = true
        · rw [isMixed_allStr args hall, enc_args_str args hall, if_pos hall]
        · rw [if_neg hall]; exact enc_argsC (isMixed args) args h8 (mixed_or_noStr args hall)
      rw [marshalNBT]
      simp only [Res.pure_eq, Res.bind_ok, ha, hx, hh]
      rw [show GoVal.ptr hoverTy (some (GoVal.struct nHoverEvent hoverFields
          [GoVal.str hact, contentsVal hcon, marshalerVal (encPayload (nbtForm hval))])) = hoverVal (some (hact, hcon, hval)) from rfl]
      rw [encodeStruct_eval translate _ _ (fun c n fields _ =>
        msgFields_enc c n fields (decide (translate ≠ [])) text bold italic underlined strikethrough obfuscated font color
          insertion click (some (hact, hcon, hval)) translate args extra h1 h2 h3 h4 h5
          (by intro cl hcl; subst hcl; exact h6)
          (by intro _ _ _ hh; cases hh; exact ⟨h7a, h7c⟩) h8 h9)]
      rw [payload_fields _ _ _ _ _ _ _ _ _ _ _ _ _ _ _ rfl]
  theorem enc_argsC (mixed : Bool) : ∀ args : List (Msg ⊕ Bytes), NbtOKArgs args →
      (mixed = true ∨ args.all (fun a => !isStrArg a) = true) →
      marshalArgs mixed args = .ok ((argForms args).map fun t => .iface (some (.raw 10 (encPayload t))))
    | [], _, _ => by rw [marshalArgs, argForms]; rfl
    | .inl m :: r, h, hm => by
      rw [NbtOKArgs] at h
      have hr : mixed = true ∨ r.all (fun a => !isStrArg a) = true := by
        rcases hm with h' | h'
        · exact Or.inl h'
        · simp only [List.all_cons, Bool.and_eq_true] at h'; exact Or.inr h'.2
      rw [marshalArgs, enc_msg m h.1, argForms]
      simp only [Res.bind_ok, enc_argsC mixed r h.2 hr, Res.pure_eq, List.map_cons, marshalerVal]
    | .inr s :: r, h, hm => by
      rw [NbtOKArgs] at h
      have hmx : mixed = true := by
        rcases hm with h' | h'
        · exact h'
        · simp [isStrArg] at h'
      subst hmx
      rw [marshalArgs, argForms]
      simp only [if_true, marshalText_ok s h.1, Res.bind_ok, Res.pure_eq, enc_argsC true r h.2 (Or.inl rfl), List.map_cons,
        marshalerVal]
  theorem enc_list : ∀ xs : List Msg, NbtOKList xs →
      marshalList xs = .ok ((formList xs).map fun t => .raw 10 (encPayload t))
    | [], _ => by rw [marshalList, formList]; rfl
    | m :: r, h => by
      rw [NbtOKList] at h
      rw [marshalList, enc_msg m h.1, formList]
      simp only [Res.bind_ok, enc_list r h.2, Res.pure_eq, List.map_cons, marshalerVal]
end


/-! ### reading: the struct loop over optional entries -/

/-- a declared field of a struct and the entry the compound may hold for it -/
structure OEntry where
  name : Bytes
  present : Bool
  tag : Byte
  payload : Bytes
  zero : GoVal
  val : GoVal

def entryBytes (e : OEntry) : Bytes := if e.present then e.tag :: encString e.name ++ e.payload else []

def entriesBytes : List OEntry → Bytes
  | [] => []
  | e :: es => entryBytes e ++ entriesBytes es

/-- field `k` onwards of the table `flds` / the declared `fields` are the entries `es`, found by name -/
inductive OShape (rec : Rec) (c : Prop) (flds : List Fld) (fields : List (FieldInfo × GoType)) : Nat → List OEntry → Prop
  | nil (k : Nat) : OShape rec c flds fields k []
  | cons {k : Nat} {e : OEntry} {es : List OEntry} (fld : Fld) (info : FieldInfo) (ty : GoType) :
      lookupField flds e.name = some k → flds[k]? = some fld → fld.index = [k] → fields[k]? = some (info, ty) →
      e.name.length < 32768 → e.tag ≠ 0#8 → e.tag ≠ 0x1f#8 → e.tag ≠ 0x78#8 →
      (e.present = true → R c (rec e.zero.typeOf e.zero e.tag) e.payload e.val) →
      (e.present = false → e.val = e.zero) →
      OShape rec c flds fields (k + 1) es → OShape rec c flds fields k (e :: es)

theorem R_optLoop (rec : Rec) (c : Prop) (f : Nat) (flds : List Fld) (n : Bytes) (fields : List (FieldInfo × GoType)) :
    ∀ (es : List OEntry) (pre : List GoVal) (w : Nat), OShape rec c flds fields pre.length es →
      R (c ∧ es.length + 1 ≤ w)
        (kvLoop (structStep rec false f flds) w (.struct n fields (pre ++ es.map (·.zero))))
        (entriesBytes es ++ [0#8]) (.struct n fields (pre ++ es.map (·.val)))
  | es, pre, 0, _ => by
    unfold kvLoop
    exact R_fail (by omega) _ _
  | [], pre, w + 1, _ => by
    simp only [List.map_nil, List.append_nil, entriesBytes, List.nil_append]
    exact R_kvLoop_end _ _ w _
  | e :: es, pre, w + 1, hsh => by
    cases hsh with
    | cons fld info ty hlook hfld hidx hfields hlen t0 t1 t2 hpres habs hrest =>
    have hrest' : OShape rec c flds fields (pre ++ [e.val]).length es := by simpa using hrest
    cases hp : e.present with
    | false =>
      have hv := habs hp
      have ih := R_optLoop rec c f flds n fields es (pre ++ [e.val]) (w + 1) hrest'
      simp only [List.map_cons, entriesBytes, entryBytes, hp, Bool.false_eq_true, if_false, List.nil_append]
      rw [← hv]
      simp only [List.append_assoc, List.singleton_append] at ih
      exact R_mono (fun hc => ⟨hc.1, by have := hc.2; simp only [List.length_cons] at this; omega⟩) ih
    | true =>
      have hr := hpres hp
      have ih := R_optLoop rec c f flds n fields es (pre ++ [e.val]) w hrest'
      simp only [List.append_assoc, List.singleton_append] at ih
      simp only [List.map_cons, entriesBytes, entryBytes, hp, if_true]
      have hb : e.tag :: encString e.name ++ e.payload ++ entriesBytes es ++ [0#8]
          = e.tag :: encString e.name ++ e.payload ++ (entriesBytes es ++ [0#8]) := by simp
      rw [hb]
      apply R_kvLoop_entry _ _ w _ (.struct n fields (pre ++ e.val :: es.map (·.zero))) _ e.tag e.name e.payload _ hlen t0 t1 t2
      · have h1 : (pre ++ e.zero :: es.map (·.zero))[pre.length]? = some e.zero := getElem?_append_length _ _ _
        simp only [structStep, hlook, hfld, hidx, updAt, updField, h1, hfields]
        simp only [set_append_length]
        exact R_mono (fun hc => hc.1)
          (R_map (fun r => GoVal.struct n fields (pre ++ r :: es.map (·.zero))) hr)
      · exact R_mono (fun hc => ⟨hc.1, by have := hc.2; simp only [List.length_cons] at this; omega⟩) ih


/-! ### reading: the hooks and the components -/

theorem dropChunks_zero (cs : List Bytes) : Stream.dropChunks 0 cs = cs := by
  cases cs <;> simp [Stream.dropChunks]

/-- the tag byte put back in front of the stream is the first thing the new decoder reads -/
theorem unread_readHead {α : Type} (tag : Byte) (k : Byte × Bytes → Rd α) :
    unread tag (NBT.readHead true >>= k) = k (tag, []) := by
  funext s
  have hflat : ({ s with chunks := [tag] :: s.chunks } : Stream).flat = tag :: s.flat := by
    simp [Stream.flat]
  have hdrop : ({ s with chunks := [tag] :: s.chunks } : Stream).drop 1 = s := by
    simp [Stream.drop, Stream.dropChunks, dropChunks_zero]
  have h1 : NBT.readHead true { s with chunks := [tag] :: s.chunks } = (Res.ok (tag, []), s) := by
    simp only [NBT.readHead, if_true]
    have hb : Rd.readByte { s with chunks := [tag] :: s.chunks } = (Res.ok tag, s) := by
      unfold Rd.readByte; rw [hflat]; simp only; rw [hdrop]
    rw [Rd.bind_ok hb]; rfl
  unfold unread
  rw [Rd.bind_ok h1]

theorem chatUm_str (f : Nat) (old : GoVal) (tag : Byte) : chatUm (f + 1) .str old tag = umStr tag := by
  simp [chatUm, isMsgTy, isArgsTy]
theorem chatUm_bool (f : Nat) (old : GoVal) (tag : Byte) : chatUm (f + 1) .bool old tag = umBool tag := by
  simp [chatUm, isMsgTy, isArgsTy]
theorem chatUm_ptr (f : Nat) (e : GoType) (old : GoVal) (tag : Byte) :
    chatUm (f + 1) (.ptr e) old tag = umPtr (chatUm f) e old tag := by
  simp [chatUm, isMsgTy, isArgsTy]
theorem chatUm_slice_raw (f : Nat) (old : GoVal) (tag : Byte) :
    chatUm (f + 1) (.slice msgPH) old tag = umSlice (chatUm f) msgPH old tag := by
  simp [chatUm, isMsgTy, isArgsTy, msgPH]
theorem chatUm_args (f : Nat) (old : GoVal) (tag : Byte) :
    chatUm (f + 1) argsTy old tag = argsUm (chatUm f) old tag := by
  simp [chatUm, isMsgTy, isArgsTy, argsTy]
theorem chatUm_click (f : Nat) (old : GoVal) (tag : Byte) :
    chatUm (f + 1) clickTy old tag = umStruct (chatUm f) false f nClickEvent clickFields old tag := by
  have : (nClickEvent == nMessage) = false := by decide
  simp [chatUm, isMsgTy, isArgsTy, clickTy, this]
theorem chatUm_hover (f : Nat) (old : GoVal) (tag : Byte) :
    chatUm (f + 1) hoverTy old tag = umStruct (chatUm f) false f nHoverEvent hoverFields old tag := by
  have : (nHoverEvent == nMessage) = false := by decide
  simp [chatUm, isMsgTy, isArgsTy, hoverTy, this]
theorem chatUm_msg (f : Nat) (ty : GoType) (old : GoVal) (tag : Byte) (h : isMsgTy ty = true) :
    chatUm (f + 1) ty old tag = msgUm (chatUm f) f old tag := by
  simp [chatUm, h]

theorem R_str (c : Prop) (f : Nat) (old : GoVal) (s : Bytes) (h : s.length < 32768) :
    R c (chatUm (f + 1) .str old 8) (encString s) (.str s) := by
  rw [chatUm_str]
  unfold umStr
  exact R_map GoVal.str (R_readString c s h)

theorem R_boolTrue (c : Prop) (f : Nat) (old : GoVal) : R c (chatUm (f + 1) .bool old 1) [1] (.bool true) := by
  rw [chatUm_bool]
  unfold umBool
  exact R_map (fun v : BitVec 8 => GoVal.bool (v != 0)) (R_readByte c 1)

theorem oshape_cons {rec : Rec} {c : Prop} {flds : List Fld} {fields : List (FieldInfo × GoType)} {k : Nat}
    (name : Bytes) (present : Bool) (tag : Byte) (payload : Bytes) (zero val : GoVal) (es : List OEntry)
    (fld : Fld) (info : FieldInfo) (ty : GoType)
    (h1 : lookupField flds name = some k) (h2 : flds[k]? = some fld) (h3 : fld.index = [k]) (h4 : fields[k]? = some (info, ty))
    (h5 : name.length < 32768) (h6 : tag ≠ 0#8) (h7 : tag ≠ 0x1f#8) (h8 : tag ≠ 0x78#8)
    (h9 : present = true → R c (rec zero.typeOf zero tag) payload val) (h10 : present = false → val = zero)
    (h11 : OShape rec c flds fields (k + 1) es) :
    OShape rec c flds fields k (⟨name, present, tag, payload, zero, val⟩ :: es) :=
  OShape.cons fld info ty h1 h2 h3 h4 h5 h6 h7 h8 h9 h10 h11

theorem lookup_click_action : lookupField [oFld kAction 0 .str false, oFld kValue 1 .str false] kAction = some 0 := by decide +kernel
theorem lookup_click_value : lookupField [oFld kAction 0 .str false, oFld kValue 1 .str false] kValue = some 1 := by decide +kernel

/-- a present click event -/
theorem R_click (c : Prop) (f : Nat) (cl : Click) (ha : cl.action.length < 32768) (hv : cl.value.length < 32768) :
    R (c ∧ 3 ≤ f) (chatUm (f + 3) (.ptr clickTy) (.ptr clickTy none) 10)
      (encKvs [(kAction, .string cl.action), (kValue, .string cl.value)]) (clickVal (some cl)) := by
  rw [chatUm_ptr]
  unfold umPtr
  simp only [show ¬ ((10 : Byte) = 0#8) by decide, if_false, ptrInner]
  have hz : clickTy.zero = .struct nClickEvent clickFields ([] ++ [GoVal.str [], GoVal.str []]) := rfl
  have inner : R (c ∧ 3 ≤ f) (chatUm (f + 2) clickTy clickTy.zero 10)
      (encKvs [(kAction, .string cl.action), (kValue, .string cl.value)])
      (.struct nClickEvent clickFields [.str cl.action, .str cl.value]) := by
    rw [chatUm_click]
    unfold umStruct
    simp only [show (10 : Byte).toNat = 10 from rfl, structOr]
    rw [show typeFields (GoType.struct nClickEvent clickFields) = _ from typeFields_click, hz]
    have es : List OEntry :=
      [⟨kAction, true, 8, encString cl.action, .str [], .str cl.action⟩,
       ⟨kValue, true, 8, encString cl.value, .str [], .str cl.value⟩]
    have hsh : OShape (chatUm (f + 1)) (c ∧ 3 ≤ f) [oFld kAction 0 .str false, oFld kValue 1 .str false] clickFields
        ([] : List GoVal).length
        [⟨kAction, true, 8, encString cl.action, .str [], .str cl.action⟩,
         ⟨kValue, true, 8, encString cl.value, .str [], .str cl.value⟩] := by
      refine oshape_cons _ _ _ _ _ _ _ (oFld kAction 0 .str false) (fi gAction kAction) .str lookup_click_action rfl rfl rfl
        (by decide) (by decide) (by decide) (by decide) (fun _ => R_str _ f _ _ ha) (by intro h; cases h) ?_
      refine oshape_cons _ _ _ _ _ _ _ (oFld kValue 1 .str false) (fi gValue kValue) .str lookup_click_value rfl rfl rfl
        (by decide) (by decide) (by decide) (by decide) (fun _ => R_str _ f _ _ hv) (by intro h; cases h) ?_
      exact OShape.nil _
    have := R_optLoop (chatUm (f + 1)) (c ∧ 3 ≤ f) (f + 1) _ nClickEvent clickFields _ [] (f + 1) hsh
    simp only [List.map_cons, List.map_nil, List.nil_append, entriesBytes, entryBytes, if_true, List.append_nil] at this
    refine R_mono (fun hc => ⟨hc, by have := hc.2; simp; omega⟩) (R_enc ?_ this)
    simp [encKvs, NBT.tag, NBT.tagString, encPayload, NBT.tagEnd]
  have := R_map (fun r => GoVal.ptr clickTy (some r)) inner
  simpa [clickVal] using this

/-! ### components -/

mutual
  /-- nesting depth of components -/
  def mdepth : Msg → Nat
    | ⟨_, _, _, _, _, _, _, _, _, _, hover, _, args, extra⟩ =>
      1 + max (mdepthHover hover) (max (mdepthArgs args) (mdepthList extra))
  def mdepthHover : Option (Bytes × JSON × Msg) → Nat
    | none => 0
    | some (_, _, v) => mdepth v
  def mdepthArgs : List (Msg ⊕ Bytes) → Nat
    | [] => 0
    | .inl m :: r => max (mdepth m) (mdepthArgs r)
    | .inr _ :: r => max 1 (mdepthArgs r)
  def mdepthList : List Msg → Nat
    | [] => 0
    | m :: r => max (mdepth m) (mdepthList r)
end

/-- fuel that suffices to decode the NBT form of `m` -/
def need (m : Msg) : Nat := 3 * mdepth m + 16

/-- decoding the payload of `nbtForm m` with the `*Message` hook yields `goOf (Chat.norm id m)` -/
def Dec (m : Msg) : Prop :=
  ∀ (f : Nat) (ty : GoType) (old : GoVal), need m ≤ f → isMsgTy ty = true → asMsg old = messageTy.zero →
    R True (chatUm f ty old 10) (encPayload (nbtForm m)) (goOf (Chat.norm id m))

theorem lookup_hover_action : lookupField [oFld kAction 0 .str false, oFld kContents 1 .iface true, oFld kValue 2 msgPH false] kAction = some 0 := by decide +kernel
theorem lookup_hover_value : lookupField [oFld kAction 0 .str false, oFld kContents 1 .iface true, oFld kValue 2 msgPH false] kValue = some 2 := by decide +kernel
theorem lookup_hover_contents : lookupField [oFld kAction 0 .str false, oFld kContents 1 .iface true, oFld kValue 2 msgPH false] kContents = some 1 := by decide +kernel

/-- a present hover event (without contents) whose value decodes -/
theorem R_hover (c : Prop) (f : Nat) (act : Bytes) (v : Msg) (ha : act.length < 32768) (hv : Dec v)
    (hc : need v ≤ f + 1) :
    R (c ∧ 4 ≤ f) (chatUm (f + 3) (.ptr hoverTy) (.ptr hoverTy none) 10)
      (encKvs [(kAction, .string act), (kValue, nbtForm v)])
      (.ptr hoverTy (some (.struct nHoverEvent hoverFields [.str act, .iface none, goOf (Chat.norm id v)]))) := by
  rw [chatUm_ptr]
  unfold umPtr
  simp only [show ¬ ((10 : Byte) = 0#8) by decide, if_false, ptrInner]
  have hz : hoverTy.zero = .struct nHoverEvent hoverFields ([] ++ [GoVal.str [], GoVal.iface none, GoVal.raw 0 []]) := rfl
  have inner : R (c ∧ 4 ≤ f) (chatUm (f + 2) hoverTy hoverTy.zero 10)
      (encKvs [(kAction, .string act), (kValue, nbtForm v)])
      (.struct nHoverEvent hoverFields [.str act, .iface none, goOf (Chat.norm id v)]) := by
    rw [chatUm_hover]
    unfold umStruct
    simp only [show (10 : Byte).toNat = 10 from rfl, structOr]
    rw [show typeFields (GoType.struct nHoverEvent hoverFields) = _ from typeFields_hover, hz]
    have hsh : OShape (chatUm (f + 1)) (c ∧ 4 ≤ f) [oFld kAction 0 .str false, oFld kContents 1 .iface true, oFld kValue 2 msgPH false]
        hoverFields ([] : List GoVal).length
        [⟨kAction, true, 8, encString act, .str [], .str act⟩,
         ⟨kContents, false, 10, [], .iface none, .iface none⟩,
         ⟨kValue, true, 10, encPayload (nbtForm v), .raw 0 [], goOf (Chat.norm id v)⟩] := by
      refine oshape_cons _ _ _ _ _ _ _ (oFld kAction 0 .str false) (fi gAction kAction) .str lookup_hover_action rfl rfl rfl
        (by decide) (by decide) (by decide) (by decide) (fun _ => R_str _ f _ _ ha) (by intro h; cases h) ?_
      refine oshape_cons _ _ _ _ _ _ _ (oFld kContents 1 .iface true) (fi gContents (kContents ++ sOmit)) .iface lookup_hover_contents rfl rfl rfl
        (by decide) (by decide) (by decide) (by decide) (by intro h; cases h) (fun _ => rfl) ?_
      refine oshape_cons _ _ _ _ _ _ _ (oFld kValue 2 msgPH false) (fi gValue kValue) msgPH lookup_hover_value rfl rfl rfl
        (by decide) (by decide) (by decide) (by decide)
        (fun _ => R_mono (fun _ => trivial) (hv (f + 1) .raw (.raw 0 []) hc rfl rfl)) (by intro h; cases h) ?_
      exact OShape.nil _
    have := R_optLoop (chatUm (f + 1)) (c ∧ 4 ≤ f) (f + 1) _ nHoverEvent hoverFields _ [] (f + 1) hsh
    simp only [List.map_cons, List.map_nil, List.nil_append, entriesBytes, entryBytes, if_true, List.append_nil,
      Bool.false_eq_true, if_false] at this
    refine R_mono (fun hc => ⟨hc, by have := hc.2; simp; omega⟩) (R_enc ?_ this)
    have ht := nbtForm_tag v
    simp only [encKvs, encPayload, ht]
    simp [NBT.tag, NBT.tagString, NBT.tagEnd]
  exact R_map (fun r => GoVal.ptr hoverTy (some r)) inner

theorem R_rdRepeatL {α β : Type} (c : Prop) (p : Rd α) (xs : List β) (enc : β → Bytes) (val : β → α)
    (h : ∀ x ∈ xs, R c p (enc x) (val x)) :
    R c (rdRepeat p xs.length) (xs.map enc).flatten (xs.map val) := by
  induction xs with
  | nil => exact R_pure c _
  | cons t ts ih =>
    simp only [List.length_cons, List.map_cons, List.flatten_cons]
    unfold rdRepeat
    apply R_bind (h t (List.mem_cons_self))
    exact R_enc (by simp) (R_bind (ih (fun t' ht' => h t' (List.mem_cons_of_mem _ ht'))) (R_pure c _))

/-- a bare string where a component is expected: `Decode(&m.Text)` -/
theorem R_strElem (c : Prop) (f : Nat) (ty : GoType) (old : GoVal) (s : Bytes) (hty : isMsgTy ty = true)
    (hold : asMsg old = messageTy.zero) (hs : s.length < 32768) :
    R c (chatUm (f + 2) ty old 8) (encString s) (goOf (Msg.ofText s)) := by
  rw [chatUm_msg _ _ _ _ hty]
  unfold msgUm
  simp only [show (8 : Byte).toNat = 8 from rfl, hold]
  rw [unread_readHead]
  simp only
  have := R_map (fun x => setAt messageTy.zero 0 x) (R_str c f (fieldAt messageTy.zero 0) s hs)
  exact this

theorem R_strElem' (c : Prop) (f : Nat) (ty : GoType) (old : GoVal) (s : Bytes) (hty : isMsgTy ty = true)
    (hold : asMsg old = messageTy.zero) (hs : s.length < 32768) :
    R (c ∧ 1 ≤ f) (chatUm (f + 1) ty old 8) (encString s) (goOf (Msg.ofText s)) := by
  cases f with
  | succ f' => exact R_strElem _ f' ty old s hty hold hs
  | zero =>
    rw [chatUm_msg _ _ _ _ hty]
    unfold msgUm
    simp only [show (8 : Byte).toNat = 8 from rfl, hold]
    rw [unread_readHead]
    simp only
    have h0 : chatUm 0 GoType.str (fieldAt messageTy.zero 0) 8 = Rd.fail := by rw [chatUm]
    rw [h0]
    exact R_map (fun x => setAt messageTy.zero 0 x) (R_fail (by omega) _ (GoVal.str s))

/-- a list of `n` values of tag `e`, each decoded as a component: `[]Message` -/
theorem R_msgSlice {β : Type} (c : Prop) (f : Nat) (e : Byte) (xs : List β) (enc : β → Bytes) (val : β → GoVal) (old : GoVal)
    (he : e.toNat ≤ 12) (hn : xs.length < 2147483648) (h0 : e ≠ 0#8 ∨ xs.length = 0)
    (h : ∀ x ∈ xs, R c (chatUm f msgPH msgPH.zero e) (enc x) (val x)) :
    R c (chatUm (f + 1) (.slice msgPH) old 9) (e :: beBytes 4 xs.length ++ (xs.map enc).flatten)
      (.slice msgPH false (xs.map val)) := by
  rw [chatUm_slice_raw]
  unfold umSlice
  simp only [show (9 : Byte).toNat = 9 from rfl]
  have hb : e :: beBytes 4 xs.length ++ (xs.map enc).flatten = (e :: beBytes 4 xs.length) ++ ((xs.map enc).flatten ++ []) := by simp
  rw [hb]
  apply R_bind (R_listHeader c e xs.length he hn h0)
  simp only
  exact R_bind (R_rdRepeatL c _ xs enc val h) (R_pure c _)

/-- the arguments as components (a plain string as the text component it stands for) -/
def argMsgs : List (Msg ⊕ Bytes) → List Msg
  | [] => []
  | .inl m :: r => m :: argMsgs r
  | .inr s :: r => Msg.ofText s :: argMsgs r

theorem nbtForm_ofText (s : Bytes) : nbtForm (Msg.ofText s) = .compound [(kText, .string s)] := by
  simp [Msg.ofText, Msg.zero, nbtForm, optS, optB, clickForm, hoverForm, withForm, extraForm]

theorem norm_ofText (s : Bytes) : Chat.norm id (Msg.ofText s) = Msg.ofText s := by
  simp [Msg.ofText, Msg.zero, Chat.norm, Chat.normClick, Chat.normArgs, Chat.normList]

theorem argForms_eq (args : List (Msg ⊕ Bytes)) : argForms args = (argMsgs args).map nbtForm := by
  induction args with
  | nil => simp [argForms, argMsgs]
  | cons a r ih => cases a <;> simp [argForms, argMsgs, ih, nbtForm_ofText]

theorem goArgs_norm (args : List (Msg ⊕ Bytes)) :
    goArgs (Chat.normArgs id args) = (argMsgs args).map fun m => .iface (some (goOf (Chat.norm id m))) := by
  induction args with
  | nil => simp [Chat.normArgs, goArgs, argMsgs]
  | cons a r ih => cases a <;> simp [Chat.normArgs, goArgs, argMsgs, ih, norm_ofText]

theorem argMsgs_allStr (args : List (Msg ⊕ Bytes)) (h : args.all isStrArg = true) :
    argMsgs args = (strsOf args).map Msg.ofText := by
  induction args with
  | nil => rfl
  | cons a r ih =>
    cases a with
    | inl m => simp [isStrArg] at h
    | inr s => simp only [List.all_cons, Bool.and_eq_true] at h; simp [argMsgs, strsOf, ih h.2]

theorem argMsgs_len (args : List (Msg ⊕ Bytes)) : (argMsgs args).length = args.length := by
  induction args with
  | nil => rfl
  | cons a r ih => cases a <;> simp [argMsgs, ih]

theorem R_with (c : Prop) (f : Nat) (x : Msg ⊕ Bytes) (xs : List (Msg ⊕ Bytes)) (hok : NbtOKArgs (x :: xs))
    (hlen : (x :: xs).length < 2 ^ 31) (hd : ∀ m ∈ argMsgs (x :: xs), Dec m)
    (hc : ∀ m ∈ argMsgs (x :: xs), need m ≤ f + 1) :
    R (c ∧ 1 ≤ f) (chatUm (f + 3) argsTy (.slice .dyn true []) 9)
      (encPayload (if (x :: xs).all isStrArg then NBT.list NBT.tagString (strForms (x :: xs))
                   else NBT.list NBT.tagCompound (argForms (x :: xs))))
      (.slice .dyn false (goArgs (Chat.normArgs id (x :: xs)))) := by
  rw [chatUm_args]
  unfold argsUm
  simp only [show (9 : Byte).toNat = 9 from rfl]
  rw [unread_readHead]
  simp only
  have hne : (argMsgs (x :: xs)).isEmpty = false := by
    have := argMsgs_len (x :: xs); cases h : argMsgs (x :: xs) <;> simp_all
  rw [goArgs_norm]
  by_cases hall : (x :: xs).all isStrArg = true
  · simp only [hall, if_true, encPayload, strForms_eq, encList_eq_flatten, List.map_map, List.length_map]
    rw [argMsgs_allStr _ hall, List.map_map]
    have hshort := strsOf_short _ hok
    have hl := strsOf_len _ hall
    have hR := R_msgSlice (c ∧ 1 ≤ f) (f + 1) NBT.tagString (strsOf (x :: xs)) encString (fun s => goOf (Msg.ofText s))
      (.slice msgPH true []) (by decide) (by rw [hl]; exact hlen) (Or.inl (by decide))
      (fun s hs => R_mono (fun h => ⟨h, h.2⟩) (R_strElem' (c ∧ 1 ≤ f) f msgPH msgPH.zero s rfl rfl (hshort s hs)))
    have hne' : (strsOf (x :: xs)).isEmpty = false := by
      cases h : strsOf (x :: xs) <;> simp_all
    have := R_map (fun v => appendArgs (.slice .dyn true []) (sliceElems v)) hR
    have hval : appendArgs (GoVal.slice GoType.dyn true [])
        (sliceElems (GoVal.slice msgPH false (List.map (fun s => goOf (Msg.ofText s)) (strsOf (x :: xs)))))
        = GoVal.slice GoType.dyn false
          (List.map ((fun m => GoVal.iface (some (goOf (Chat.norm id m)))) ∘ Msg.ofText) (strsOf (x :: xs))) := by
      simp [appendArgs, sliceElems, hne', norm_ofText, Function.comp_def]
    rw [← hval]
    refine R_enc ?_ this
    simp [NBT.tagString, Function.comp_def, encPayload]
  · simp only [hall, Bool.false_eq_true, if_false, encPayload, argForms_eq, encList_eq_flatten, List.map_map, List.length_map]
    have hl := argMsgs_len (x :: xs)
    have hR := R_msgSlice (c ∧ 1 ≤ f) (f + 1) NBT.tagCompound (argMsgs (x :: xs)) (fun m => encPayload (nbtForm m))
      (fun m => goOf (Chat.norm id m)) (.slice msgPH true []) (by decide) (by rw [hl]; exact hlen) (Or.inl (by decide))
      (fun m hm => R_mono (fun _ => trivial) (hd m hm (f + 1) msgPH msgPH.zero (hc m hm) rfl rfl))
    have := R_map (fun v => appendArgs (.slice .dyn true []) (sliceElems v)) hR
    have hval : appendArgs (GoVal.slice GoType.dyn true [])
        (sliceElems (GoVal.slice msgPH false (List.map (fun m => goOf (Chat.norm id m)) (argMsgs (x :: xs)))))
        = GoVal.slice GoType.dyn false
          (List.map (fun m => GoVal.iface (some (goOf (Chat.norm id m)))) (argMsgs (x :: xs))) := by
      simp [appendArgs, sliceElems, hne, Function.comp_def]
    rw [← hval]
    refine R_enc ?_ this
    simp [NBT.tagCompound, Function.comp_def]

theorem formList_eq (xs : List Msg) : formList xs = xs.map nbtForm := by
  induction xs with
  | nil => simp [formList]
  | cons a r ih => simp [formList, ih]

theorem goList_norm (xs : List Msg) : goList (Chat.normList id xs) = xs.map fun m => goOf (Chat.norm id m) := by
  induction xs with
  | nil => simp [Chat.normList, goList]
  | cons a r ih => simp [Chat.normList, goList, ih]

theorem R_extra (c : Prop) (f : Nat) (x : Msg) (xs : List Msg) (hlen : (x :: xs).length < 2 ^ 31)
    (hd : ∀ m ∈ x :: xs, Dec m) (hc : ∀ m ∈ x :: xs, need m ≤ f + 2) :
    R c (chatUm (f + 3) (.slice msgPH) (.slice msgPH true []) 9)
      (encPayload (NBT.list NBT.tagCompound (formList (x :: xs))))
      (.slice msgPH false (goList (Chat.normList id (x :: xs)))) := by
  rw [goList_norm, formList_eq]
  have hR := R_msgSlice c (f + 2) NBT.tagCompound (x :: xs) (fun m => encPayload (nbtForm m))
    (fun m => goOf (Chat.norm id m)) (.slice msgPH true []) (by decide) hlen (Or.inl (by decide))
    (fun m hm => R_mono (fun _ => trivial) (hd m hm (f + 2) msgPH msgPH.zero (hc m hm) rfl rfl))
  refine R_enc ?_ hR
  simp [encPayload, encList_eq_flatten, NBT.tagCompound, Function.comp_def]

theorem lk0 : lookupField (msgFlds false) kText = some 0 := by decide +kernel
theorem lk1 : lookupField (msgFlds false) kBold = some 1 := by decide +kernel
theorem lk2 : lookupField (msgFlds false) kItalic = some 2 := by decide +kernel
theorem lk3 : lookupField (msgFlds false) kUnderlined = some 3 := by decide +kernel
theorem lk4 : lookupField (msgFlds false) kStrikethrough = some 4 := by decide +kernel
theorem lk5 : lookupField (msgFlds false) kObfuscated = some 5 := by decide +kernel
theorem lk6 : lookupField (msgFlds false) kFont = some 6 := by decide +kernel
theorem lk7 : lookupField (msgFlds false) kColor = some 7 := by decide +kernel
theorem lk8 : lookupField (msgFlds false) kInsertion = some 8 := by decide +kernel
theorem lk9 : lookupField (msgFlds false) kClickEvent = some 9 := by decide +kernel
theorem lk10 : lookupField (msgFlds false) kHoverEvent = some 10 := by decide +kernel
theorem lk11 : lookupField (msgFlds false) kTranslate = some 11 := by decide +kernel
theorem lk12 : lookupField (msgFlds false) kWith = some 12 := by decide +kernel
theorem lk13 : lookupField (msgFlds false) kExtra = some 13 := by decide +kernel

theorem mdepth_ofText (s : Bytes) : mdepth (Msg.ofText s) = 1 := by
  simp [Msg.ofText, Msg.zero, mdepth, mdepthHover, mdepthArgs, mdepthList]

theorem mdepth_args_le (args : List (Msg ⊕ Bytes)) : ∀ m ∈ argMsgs args, mdepth m ≤ mdepthArgs args := by
  induction args with
  | nil => intro m hm; cases hm
  | cons a r ih =>
    intro m hm
    cases a with
    | inl x =>
      simp only [argMsgs, List.mem_cons] at hm
      simp only [mdepthArgs]
      rcases hm with rfl | hm
      · omega
      · have := ih m hm; omega
    | inr s =>
      simp only [argMsgs, List.mem_cons] at hm
      simp only [mdepthArgs]
      rcases hm with rfl | hm
      · rw [mdepth_ofText]; omega
      · have := ih m hm; omega

theorem mdepth_list_le (xs : List Msg) : ∀ m ∈ xs, mdepth m ≤ mdepthList xs := by
  induction xs with
  | nil => intro m hm; cases hm
  | cons a r ih =>
    intro m hm
    simp only [List.mem_cons] at hm
    simp only [mdepthList]
    rcases hm with rfl | hm
    · omega
    · have := ih m hm; omega

/-- the Go value of the hover field after decoding -/
def hoverGo (hover : Option (Bytes × JSON × Msg)) : GoVal :=
  .ptr hoverTy (match hover with
    | none => none
    | some (a, _, v) => some (.struct nHoverEvent hoverFields [.str a, .iface none, goOf (Chat.norm id v)]))

def clickPayload : Option Click → Bytes
  | some cl => encKvs [(kAction, .string cl.action), (kValue, .string cl.value)]
  | none => []

def hoverPayload : Option (Bytes × JSON × Msg) → Bytes
  | some (a, _, v) => encKvs [(kAction, .string a), (kValue, nbtForm v)]
  | none => []

def withTree (args : List (Msg ⊕ Bytes)) : NBT :=
  if args.all isStrArg then NBT.list NBT.tagString (strForms args) else NBT.list NBT.tagCompound (argForms args)

/-- the fourteen potential entries of the compound, in the order of the fields -/
def msgEntries (text : Bytes) (bold italic underlined strikethrough obfuscated : Bool) (font color insertion : Bytes)
    (click : Option Click) (hover : Option (Bytes × JSON × Msg)) (translate : Bytes) (args : List (Msg ⊕ Bytes)) (extra : List Msg) :
    List OEntry :=
  [⟨kText, decide (¬ (translate ≠ [] ∧ text = [])), 8, encString text, .str [], .str text⟩,
   ⟨kBold, bold, 1, [1], .bool false, .bool bold⟩,
   ⟨kItalic, italic, 1, [1], .bool false, .bool italic⟩,
   ⟨kUnderlined, underlined, 1, [1], .bool false, .bool underlined⟩,
   ⟨kStrikethrough, strikethrough, 1, [1], .bool false, .bool strikethrough⟩,
   ⟨kObfuscated, obfuscated, 1, [1], .bool false, .bool obfuscated⟩,
   ⟨kFont, decide (font ≠ []), 8, encString font, .str [], .str font⟩,
   ⟨kColor, decide (color ≠ []), 8, encString color, .str [], .str color⟩,
   ⟨kInsertion, decide (insertion ≠ []), 8, encString insertion, .str [], .str insertion⟩,
   ⟨kClickEvent, click.isSome, 10, clickPayload click, .ptr clickTy none, clickVal click⟩,
   ⟨kHoverEvent, hover.isSome, 10, hoverPayload hover, .ptr hoverTy none, hoverGo hover⟩,
   ⟨kTranslate, decide (translate ≠ []), 8, encString translate, .str [], .str translate⟩,
   ⟨kWith, !args.isEmpty, 9, encPayload (withTree args), .slice .dyn true [],
     .slice .dyn args.isEmpty (goArgs (Chat.normArgs id args))⟩,
   ⟨kExtra, !extra.isEmpty, 9, encPayload (NBT.list NBT.tagCompound (formList extra)), .slice msgPH true [],
     .slice msgPH extra.isEmpty (goList (Chat.normList id extra))⟩]

/-- one component, given its children decode -/
theorem dec_step (text : Bytes) (bold italic underlined strikethrough obfuscated : Bool) (font color insertion : Bytes)
    (click : Option Click) (hover : Option (Bytes × JSON × Msg)) (translate : Bytes) (args : List (Msg ⊕ Bytes)) (extra : List Msg)
    (hok : NbtOK ⟨text, bold, italic, underlined, strikethrough, obfuscated, font, color, insertion, click, hover, translate, args, extra⟩)
    (hh : ∀ a c v, hover = some (a, c, v) → Dec v) (ha : ∀ m ∈ argMsgs args, Dec m) (hx : ∀ m ∈ extra, Dec m) :
    Dec ⟨text, bold, italic, underlined, strikethrough, obfuscated, font, color, insertion, click, hover, translate, args, extra⟩ := by
  intro f ty old hneed hty hold
  rw [NbtOK.eq_def] at hok
  simp only at hok
  obtain ⟨h1, h2, h3, h4, h5, h6, h7, h9, h8, h11, h10⟩ := hok
  have hd : mdepth ⟨text, bold, italic, underlined, strikethrough, obfuscated, font, color, insertion, click, hover, translate, args, extra⟩
      = 1 + max (mdepthHover hover) (max (mdepthArgs args) (mdepthList extra)) := by
    rw [mdepth]
  unfold need at hneed
  rw [hd] at hneed
  obtain ⟨g, rfl⟩ : ∃ g, f = g + 4 := ⟨f - 4, by omega⟩
  rw [chatUm_msg _ _ _ _ hty]
  unfold msgUm
  simp only [show (10 : Byte).toNat = 10 from rfl, hold]
  rw [unread_readHead]
  simp only
  unfold umStruct
  rw [show typeFields (GoType.struct nRawMsgStruct rawFields) = _ from typeFields_raw]
  have hz : structOr (GoType.struct nRawMsgStruct rawFields) (retag nRawMsgStruct messageTy.zero)
      = .struct nRawMsgStruct rawFields ([] ++
        [GoVal.str [], .bool false, .bool false, .bool false, .bool false, .bool false, .str [], .str [], .str [],
         .ptr clickTy none, .ptr hoverTy none, .str [], .slice .dyn true [], .slice msgPH true []]) := rfl
  rw [hz]
  have hsh : OShape (chatUm (g + 3)) True (msgFlds false) rawFields ([] : List GoVal).length
      (msgEntries text bold italic underlined strikethrough obfuscated font color insertion click hover translate args extra) := by
    unfold msgEntries
    refine oshape_cons _ _ _ _ _ _ _ (oFld kText 0 .str false) (fi gText kText) .str lk0 rfl rfl rfl
      (by decide) (by decide) (by decide) (by decide) (fun _ => R_str _ (g + 2) _ _ h1) ?_ ?_
    · intro hp
      have : translate ≠ [] ∧ text = [] := by simpa using hp
      rw [this.2]
    refine oshape_cons _ _ _ _ _ _ _ (oFld kBold 1 .bool true) (fi gBold (kBold ++ sOmit)) .bool lk1 rfl rfl rfl
      (by decide) (by decide) (by decide) (by decide) (fun hp => by subst hp; exact R_boolTrue _ (g + 2) _) (fun hp => by subst hp; rfl) ?_
    refine oshape_cons _ _ _ _ _ _ _ (oFld kItalic 2 .bool true) (fi gItalic (kItalic ++ sOmit)) .bool lk2 rfl rfl rfl
      (by decide) (by decide) (by decide) (by decide) (fun hp => by subst hp; exact R_boolTrue _ (g + 2) _) (fun hp => by subst hp; rfl) ?_
    refine oshape_cons _ _ _ _ _ _ _ (oFld kUnderlined 3 .bool true) (fi gUnderLined (kUnderlined ++ sOmit)) .bool lk3 rfl rfl rfl
      (by decide) (by decide) (by decide) (by decide) (fun hp => by subst hp; exact R_boolTrue _ (g + 2) _) (fun hp => by subst hp; rfl) ?_
    refine oshape_cons _ _ _ _ _ _ _ (oFld kStrikethrough 4 .bool true) (fi gStrikeThrough (kStrikethrough ++ sOmit)) .bool lk4 rfl rfl rfl
      (by decide) (by decide) (by decide) (by decide) (fun hp => by subst hp; exact R_boolTrue _ (g + 2) _) (fun hp => by subst hp; rfl) ?_
    refine oshape_cons _ _ _ _ _ _ _ (oFld kObfuscated 5 .bool true) (fi gObfuscated (kObfuscated ++ sOmit)) .bool lk5 rfl rfl rfl
      (by decide) (by decide) (by decide) (by decide) (fun hp => by subst hp; exact R_boolTrue _ (g + 2) _) (fun hp => by subst hp; rfl) ?_
    refine oshape_cons _ _ _ _ _ _ _ (oFld kFont 6 .str true) (fi gFont (kFont ++ sOmit)) .str lk6 rfl rfl rfl
      (by decide) (by decide) (by decide) (by decide) (fun _ => R_str _ (g + 2) _ _ h2)
      (fun hp => by have : font = [] := by simpa using hp
                    rw [this]) ?_
    refine oshape_cons _ _ _ _ _ _ _ (oFld kColor 7 .str true) (fi gColor (kColor ++ sOmit)) .str lk7 rfl rfl rfl
      (by decide) (by decide) (by decide) (by decide) (fun _ => R_str _ (g + 2) _ _ h3)
      (fun hp => by have : color = [] := by simpa using hp
                    rw [this]) ?_
    refine oshape_cons _ _ _ _ _ _ _ (oFld kInsertion 8 .str true) (fi gInsertion (kInsertion ++ sOmit)) .str lk8 rfl rfl rfl
      (by decide) (by decide) (by decide) (by decide) (fun _ => R_str _ (g + 2) _ _ h4)
      (fun hp => by have : insertion = [] := by simpa using hp
                    rw [this]) ?_
    refine oshape_cons _ _ _ _ _ _ _ (oFld kClickEvent 9 clickTy true) (fi gClickEvent (kClickEvent ++ sOmit)) (.ptr clickTy) lk9 rfl rfl rfl
      (by decide) (by decide) (by decide) (by decide) ?_ ?_ ?_
    · intro hp
      cases click with
      | none => cases hp
      | some cl => exact R_mono (fun _ => ⟨trivial, by omega⟩) (R_click True g cl h6.1 h6.2)
    · intro hp
      cases click with
      | none => rfl
      | some cl => cases hp
    refine oshape_cons _ _ _ _ _ _ _ (oFld kHoverEvent 10 hoverTy true) (fi gHoverEvent (kHoverEvent ++ sOmit)) (.ptr hoverTy) lk10 rfl rfl rfl
      (by decide) (by decide) (by decide) (by decide) ?_ ?_ ?_
    · intro hp
      cases hover with
      | none => cases hp
      | some hvv =>
        obtain ⟨a, c, v⟩ := hvv
        exact R_mono (fun _ => ⟨trivial, by omega⟩) (R_hover True g a v h7.1 (hh a c v rfl) (by unfold need; simp only [mdepthHover] at hneed; omega))
    · intro hp
      cases hover with
      | none => rfl
      | some hvv => cases hp
    refine oshape_cons _ _ _ _ _ _ _ (oFld kTranslate 11 .str true) (fi gTranslate (kTranslate ++ sOmit)) .str lk11 rfl rfl rfl
      (by decide) (by decide) (by decide) (by decide) (fun _ => R_str _ (g + 2) _ _ h5)
      (fun hp => by have : translate = [] := by simpa using hp
                    rw [this]) ?_
    refine oshape_cons _ _ _ _ _ _ _ (oFld kWith 12 argsTy true) (fi gWith (kWith ++ sOmit)) argsTy lk12 rfl rfl rfl
      (by decide) (by decide) (by decide) (by decide) ?_ ?_ ?_
    · intro hp
      cases args with
      | nil => cases hp
      | cons x xs =>
        exact R_mono (fun _ => ⟨trivial, by omega⟩) (R_with True g x xs h8 h9 ha
          (fun m hm => by have := mdepth_args_le _ m hm; unfold need; omega))
    · intro hp
      cases args with
      | nil => simp [Chat.normArgs, goArgs]
      | cons x xs => cases hp
    refine oshape_cons _ _ _ _ _ _ _ (oFld kExtra 13 (.slice msgPH) true) (fi gExtra (kExtra ++ sOmit)) (.slice msgPH) lk13 rfl rfl rfl
      (by decide) (by decide) (by decide) (by decide) ?_ ?_ ?_
    · intro hp
      cases extra with
      | nil => cases hp
      | cons x xs =>
        exact R_extra True g x xs h11 hx (fun m hm => by have := mdepth_list_le _ m hm; unfold need; omega)
    · intro hp
      cases extra with
      | nil => simp [Chat.normList, goList]
      | cons x xs => cases hp
    exact OShape.nil _
  have hloop := R_optLoop (chatUm (g + 3)) True (g + 3) (msgFlds false) nRawMsgStruct rawFields _ [] (g + 3) hsh
  have hbytes : entriesBytes (msgEntries text bold italic underlined strikethrough obfuscated font color insertion click hover translate args extra) ++ [0#8]
      = encPayload (nbtForm ⟨text, bold, italic, underlined, strikethrough, obfuscated, font, color, insertion, click, hover, translate, args, extra⟩) := by
    rw [← payload_fields (decide (translate ≠ [])) _ _ _ _ _ _ _ _ _ _ _ _ _ _ rfl]
    have e0 : entryBytes ⟨kText, decide (¬ (translate ≠ [] ∧ text = [])), 8, encString text, .str [], .str text⟩
        = (if decide (translate ≠ []) = true ∧ text = [] then [] else 8 :: encString kText ++ encString text) := by
      unfold entryBytes
      by_cases h : translate ≠ [] ∧ text = [] <;> simp [h]
    have eb : ∀ (k : Bytes) (b : Bool), entryBytes ⟨k, b, 1, [1], .bool false, .bool b⟩ = kvsBytes (optB k b) := by
      intro k b; cases b <;> simp [entryBytes, kvsBytes_optB]
    have es' : ∀ (k s : Bytes), entryBytes ⟨k, decide (s ≠ []), 8, encString s, .str [], .str s⟩ = kvsBytes (optS k s) := by
      intro k s; by_cases h : s = [] <;> simp [entryBytes, kvsBytes_optS, h]
    have ec : entryBytes ⟨kClickEvent, click.isSome, 10, clickPayload click, .ptr clickTy none, clickVal click⟩
        = kvsBytes (clickForm click) := by
      cases click <;> simp [entryBytes, clickForm, clickPayload, kvsBytes, NBT.tag, NBT.tagCompound, encPayload]
    have eh : entryBytes ⟨kHoverEvent, hover.isSome, 10, hoverPayload hover, .ptr hoverTy none, hoverGo hover⟩
        = kvsBytes (hoverForm hover) := by
      cases hover with
      | none => simp [entryBytes, hoverForm, hoverPayload, kvsBytes]
      | some hv => obtain ⟨a, c, v⟩ := hv; simp [entryBytes, hoverForm, hoverPayload, kvsBytes, NBT.tag, NBT.tagCompound, encPayload]
    have ew : entryBytes ⟨kWith, !args.isEmpty, 9, encPayload (withTree args), .slice .dyn true [],
        .slice .dyn args.isEmpty (goArgs (Chat.normArgs id args))⟩ = kvsBytes (withForm args) := by
      cases args with
      | nil => simp [entryBytes, withForm, kvsBytes]
      | cons x xs =>
        simp only [entryBytes, withForm, kvsBytes, withTree, List.isEmpty_cons, Bool.not_false, if_true, List.append_nil]
        by_cases hall : (x :: xs).all isStrArg = true <;> simp [hall, NBT.tag, NBT.tagList]
    have ex : entryBytes ⟨kExtra, !extra.isEmpty, 9, encPayload (NBT.list NBT.tagCompound (formList extra)), .slice msgPH true [],
        .slice msgPH extra.isEmpty (goList (Chat.normList id extra))⟩ = kvsBytes (extraForm extra) := by
      cases extra with
      | nil => simp [entryBytes, extraForm, kvsBytes]
      | cons x xs => simp [entryBytes, extraForm, kvsBytes, NBT.tag, NBT.tagList]
    simp only [msgEntries, entriesBytes, e0, eb, es', ec, eh, ew, ex, List.flatten_cons, List.flatten_nil, List.append_nil,
      List.append_assoc]
  have hval : retag nMessage (.struct nRawMsgStruct rawFields ([] ++ (msgEntries text bold italic underlined strikethrough obfuscated
        font color insertion click hover translate args extra).map (·.val)))
      = goOf (Chat.norm id ⟨text, bold, italic, underlined, strikethrough, obfuscated, font, color, insertion, click, hover, translate, args, extra⟩) := by
    rw [Chat.norm.eq_def]
    simp only [id]
    rw [goOf.eq_def]
    have hcl : Chat.normClick id click = click := by cases click <;> rfl
    have hae : (Chat.normArgs id args).isEmpty = args.isEmpty := by cases args with
      | nil => rfl
      | cons a r => cases a <;> rfl
    have hxe : (Chat.normList id extra).isEmpty = extra.isEmpty := by cases extra <;> rfl
    simp only [retag, msgEntries, List.map_cons, List.map_nil, List.nil_append, hcl, hae, hxe]
    cases hover with
    | none => rfl
    | some hv =>
      obtain ⟨a, c, v⟩ := hv
      obtain ⟨_, rfl, _⟩ := h7
      rfl
  have h2 := R_map (retag nMessage) (R_mono (c' := True) (fun _ => ⟨trivial, by simp [msgEntries]; omega⟩) hloop)
  rw [hval] at h2
  exact R_enc hbytes h2

theorem dec_text (s : Bytes) (hs : s.length < 32768) : Dec (Msg.ofText s) := by
  have := dec_step s false false false false false [] [] [] none none [] [] []
    (by rw [NbtOK.eq_def]; simp [shortStr, NbtOKArgs, NbtOKList]; exact hs)
    (by intro _ _ _ h; cases h) (by intro m hm; cases hm) (by intro m hm; cases hm)
  exact this

mutual
  /-- **decoding the NBT form of a component yields the component** (up to `norm`), for every destination the
  `*Message` hook treats as fresh and every sufficient fuel -/
  theorem dec_msg : ∀ m : Msg, NbtOK m → Dec m
    | ⟨text, bold, italic, underlined, strikethrough, obfuscated, font, color, insertion, click, none, translate, args, extra⟩, h => by
      have h' := h
      rw [NbtOK.eq_def] at h'
      simp only at h'
      exact dec_step _ _ _ _ _ _ _ _ _ _ _ _ _ _ h (by intro _ _ _ hh; cases hh)
        (dec_args args h'.2.2.2.2.2.2.2.2.1) (dec_list extra h'.2.2.2.2.2.2.2.2.2.2)
    | ⟨text, bold, italic, underlined, strikethrough, obfuscated, font, color, insertion, click, some (hact, hcon, hval), translate, args, extra⟩, h => by
      have h' := h
      rw [NbtOK.eq_def] at h'
      simp only at h'
      have hv := dec_msg hval h'.2.2.2.2.2.2.1.2.2
      exact dec_step _ _ _ _ _ _ _ _ _ _ _ _ _ _ h (by intro _ _ _ hh; cases hh; exact hv)
        (dec_args args h'.2.2.2.2.2.2.2.2.1) (dec_list extra h'.2.2.2.2.2.2.2.2.2.2)
  theorem dec_args : ∀ args : List (Msg ⊕ Bytes), NbtOKArgs args → ∀ m ∈ argMsgs args, Dec m
    | [], _ => by intro m hm; cases hm
    | .inl x :: r, h => by
      rw [NbtOKArgs] at h
      intro m hm
      simp only [argMsgs, List.mem_cons] at hm
      rcases hm with he | hm
      · rw [he]; exact dec_msg x h.1
      · exact dec_args r h.2 m hm
    | .inr s :: r, h => by
      rw [NbtOKArgs] at h
      intro m hm
      simp only [argMsgs, List.mem_cons] at hm
      rcases hm with he | hm
      · rw [he]; exact dec_text s h.1
      · exact dec_args r h.2 m hm
  theorem dec_list : ∀ xs : List Msg, NbtOKList xs → ∀ m ∈ xs, Dec m
    | [], _ => by intro m hm; cases hm
    | x :: r, h => by
      rw [NbtOKList] at h
      intro m hm
      simp only [List.mem_cons] at hm
      rcases hm with he | hm
      · rw [he]; exact dec_msg x h.1
      · exact dec_list r h.2 m hm
end


/-! ### the fuel `ReadFrom` runs with suffices -/

def plen (m : Msg) : Nat := (encPayload (nbtForm m)).length

theorem mdepthArgs_le_of (args : List (Msg ⊕ Bytes)) (L : Nat) (h : ∀ m ∈ argMsgs args, mdepth m ≤ L) :
    mdepthArgs args ≤ L := by
  induction args with
  | nil => simp [mdepthArgs]
  | cons a r ih =>
    have hr := ih (fun m hm => h m (by cases a <;> simp [argMsgs, hm]))
    cases a with
    | inl x => have := h x (by simp [argMsgs]); simp only [mdepthArgs]; omega
    | inr s => have := h (Msg.ofText s) (by simp [argMsgs]); rw [mdepth_ofText] at this; simp only [mdepthArgs]; omega

theorem mdepthList_le_of (xs : List Msg) (L : Nat) (h : ∀ m ∈ xs, mdepth m ≤ L) : mdepthList xs ≤ L := by
  induction xs with
  | nil => simp [mdepthList]
  | cons a r ih =>
    have hr := ih (fun m hm => h m (by simp [hm]))
    have := h a (by simp)
    simp only [mdepthList]; omega

theorem len_with (args : List (Msg ⊕ Bytes)) (h : ∀ m ∈ argMsgs args, mdepth m ≤ plen m) :
    mdepthArgs args ≤ (kvsBytes (withForm args)).length := by
  apply mdepthArgs_le_of
  intro m hm
  cases args with
  | nil => cases hm
  | cons x xs =>
    rw [withForm]
    by_cases hall : (x :: xs).all isStrArg = true
    · rw [argMsgs_allStr _ hall] at hm
      obtain ⟨s, _, rfl⟩ := List.mem_map.mp hm
      rw [mdepth_ofText]
      simp [kvsBytes]
    · have hmem : nbtForm m ∈ argForms (x :: xs) := by rw [argForms_eq]; exact List.mem_map.mpr ⟨m, hm, rfl⟩
      have h1 := h m hm
      have h2 := mem_encList_le hmem
      simp only [hall, Bool.false_eq_true, if_false, kvsBytes, encPayload, List.length_cons, List.length_append,
        List.length_nil]
      unfold plen at h1
      omega

theorem len_extra (xs : List Msg) (h : ∀ m ∈ xs, mdepth m ≤ plen m) :
    mdepthList xs ≤ (kvsBytes (extraForm xs)).length := by
  apply mdepthList_le_of
  intro m hm
  cases xs with
  | nil => cases hm
  | cons x r =>
    rw [extraForm]
    have hmem : nbtForm m ∈ formList (x :: r) := by rw [formList_eq]; exact List.mem_map.mpr ⟨m, hm, rfl⟩
    have h1 := h m hm
    have h2 := mem_encList_le hmem
    simp only [kvsBytes, encPayload, List.length_cons, List.length_append, List.length_nil]
    unfold plen at h1
    omega

theorem len_hover (hover : Option (Bytes × JSON × Msg)) (h : ∀ a c v, hover = some (a, c, v) → mdepth v ≤ plen v) :
    mdepthHover hover ≤ (kvsBytes (hoverForm hover)).length := by
  cases hover with
  | none => simp [mdepthHover]
  | some hv =>
    obtain ⟨a, c, v⟩ := hv
    have h1 := h a c v rfl
    rw [hoverForm, mdepthHover]
    simp only [kvsBytes, encPayload, encKvs, List.length_cons, List.length_append, List.length_nil]
    unfold plen at h1
    omega

theorem plen_step (text : Bytes) (bold italic underlined strikethrough obfuscated : Bool) (font color insertion : Bytes)
    (click : Option Click) (hover : Option (Bytes × JSON × Msg)) (translate : Bytes) (args : List (Msg ⊕ Bytes)) (extra : List Msg)
    (hh : ∀ a c v, hover = some (a, c, v) → mdepth v ≤ plen v) (ha : ∀ m ∈ argMsgs args, mdepth m ≤ plen m)
    (hx : ∀ m ∈ extra, mdepth m ≤ plen m) :
    mdepth ⟨text, bold, italic, underlined, strikethrough, obfuscated, font, color, insertion, click, hover, translate, args, extra⟩
      ≤ plen ⟨text, bold, italic, underlined, strikethrough, obfuscated, font, color, insertion, click, hover, translate, args, extra⟩ := by
  have h1 := len_hover hover hh
  have h2 := len_with args ha
  have h3 := len_extra extra hx
  rw [mdepth]
  unfold plen
  rw [nbtForm.eq_def]
  simp only [encPayload, encKvs_kvsBytes, kvsBytes_append, List.length_append, List.length_cons, List.length_nil]
  omega

theorem plen_text (s : Bytes) : mdepth (Msg.ofText s) ≤ plen (Msg.ofText s) := by
  rw [mdepth_ofText]; unfold plen; rw [nbtForm_ofText]; simp [encPayload, encKvs]

mutual
  theorem mdepth_le_plen : ∀ m : Msg, mdepth m ≤ plen m
    | ⟨text, bold, italic, underlined, strikethrough, obfuscated, font, color, insertion, click, none, translate, args, extra⟩ =>
      plen_step _ _ _ _ _ _ _ _ _ _ _ _ _ _ (by intro _ _ _ h; cases h) (len_args args) (len_list extra)
    | ⟨text, bold, italic, underlined, strikethrough, obfuscated, font, color, insertion, click, some (a, c, v), translate, args, extra⟩ =>
      plen_step _ _ _ _ _ _ _ _ _ _ _ _ _ _ (by intro _ _ _ h; cases h; exact mdepth_le_plen v) (len_args args) (len_list extra)
  theorem len_args : ∀ args : List (Msg ⊕ Bytes), ∀ m ∈ argMsgs args, mdepth m ≤ plen m
    | [] => by intro m hm; cases hm
    | .inl x :: r => by
      intro m hm
      simp only [argMsgs, List.mem_cons] at hm
      rcases hm with he | hm
      · rw [he]; exact mdepth_le_plen x
      · exact len_args r m hm
    | .inr s :: r => by
      intro m hm
      simp only [argMsgs, List.mem_cons] at hm
      rcases hm with he | hm
      · rw [he]; exact plen_text s
      · exact len_args r m hm
  theorem len_list : ∀ xs : List Msg, ∀ m ∈ xs, mdepth m ≤ plen m
    | [] => by intro m hm; cases hm
    | x :: r => by
      intro m hm
      simp only [List.mem_cons] at hm
      rcases hm with he | hm
      · rw [he]; exact mdepth_le_plen x
      · exact len_list r m hm
end


/-! ### WriteTo / ReadFrom -/

theorem fieldWrite_marshaler (p : Bytes) :
    fieldWrite cx0 (some (.ptr msgPH (some (marshalerVal p)))) = .ok (10 :: p, p.length + 1) := by
  have e : 2 * (GoVal.ptr msgPH (some (marshalerVal p))).encFuel + 8 = (2 * (GoVal.ptr msgPH (some (marshalerVal p))).encFuel + 7) + 1 := by omega
  simp only [fieldWrite, encode, encodeF, e, getTagType, Option.getD_some, marshalerVal, GoVal.isCarrier, GoVal.typeOf,
    GoType.isCarrier, if_true, carrierTag, Go.marshal, carrierMarshal]
  simp

/-- **`WriteTo` writes the document `nbtForm m` in network format** and reports its length -/
theorem writeTo_ok (m : Msg) (h : NbtOK m) :
    writeTo m = .ok (10 :: encPayload (nbtForm m), (encPayload (nbtForm m)).length + 1) := by
  unfold writeTo
  rw [enc_msg m h]
  exact fieldWrite_marshaler _

theorem need_le_chatFuel (m : Msg) (s : Stream) (rest : Bytes) (hs : s.flat = 10 :: encPayload (nbtForm m) ++ rest) :
    need m ≤ chatFuel s := by
  have := mdepth_le_plen m
  unfold plen at this
  unfold need chatFuel
  rw [hs]
  simp only [List.length_cons, List.length_append]
  omega

/-- **`ReadFrom` on what `WriteTo` wrote** (followed by anything, however fragmented): the component up to `norm`,
the exact byte count, the rest untouched -/
theorem readFrom_ok (m : Msg) (h : NbtOK m) (old : GoVal) (hold : asMsg old = messageTy.zero) (s : Stream) (rest : Bytes)
    (hs : s.flat = 10 :: encPayload (nbtForm m) ++ rest) :
    ∃ s', readFromInto old s = (.ok (goOf (Chat.norm id m), (encPayload (nbtForm m)).length + 1), s') ∧ s'.flat = rest
      ∧ s'.failing = s.failing := by
  have hR : R True (do let (t, _) ← NBT.readHead true; chatUm (chatFuel s) messageTy old t : Rd GoVal)
      ([10] ++ encPayload (nbtForm m)) (goOf (Chat.norm id m)) := by
    apply R_bind (a := ((10 : Byte), ([] : Bytes)))
    · unfold NBT.readHead
      simp only [if_true]
      exact R_map (fun t => (t, ([] : Bytes))) (R_readByte True 10)
    · exact dec_msg m h (chatFuel s) messageTy old (need_le_chatFuel m s rest hs) rfl hold
  rcases hR s rest (by simpa using hs) with ⟨s', h1, h2, h3⟩ | ⟨hn, _⟩
  · refine ⟨s', ?_, h2, h3⟩
    unfold readFromInto readFromIntoF
    rw [h1]
    simp only [hs, h2, List.length_cons, List.length_append]
    congr 3
    omega
  · exact absurd trivial hn

/-! ### back to components -/

mutual
  theorem ofGo_norm : ∀ m : Msg, NbtOK m → ofGo (goOf (Chat.norm id m)) = some (Chat.norm id m)
    | ⟨text, bold, italic, underlined, strikethrough, obfuscated, font, color, insertion, click, none, translate, args, extra⟩, h => by
      rw [NbtOK.eq_def] at h
      simp only at h
      have ha := ofGoArgs_norm args h.2.2.2.2.2.2.2.2.1
      have hx := ofGoList_norm extra h.2.2.2.2.2.2.2.2.2.2
      rw [Chat.norm.eq_def]
      simp only [id]
      rw [goOf.eq_def]
      simp only
      rw [ofGo]
      simp only [ha, hx, strOf, boolOf]
      cases click <;> rfl
    | ⟨text, bold, italic, underlined, strikethrough, obfuscated, font, color, insertion, click, some (hact, hcon, hval), translate, args, extra⟩, h => by
      rw [NbtOK.eq_def] at h
      simp only at h
      have hv := ofGo_norm hval h.2.2.2.2.2.2.1.2.2
      have hc : hcon = .null := h.2.2.2.2.2.2.1.2.1
      subst hc
      have ha := ofGoArgs_norm args h.2.2.2.2.2.2.2.2.1
      have hx := ofGoList_norm extra h.2.2.2.2.2.2.2.2.2.2
      rw [Chat.norm.eq_def]
      simp only [id]
      rw [goOf.eq_def]
      simp only
      rw [ofGo]
      have hj : jsonOfAny (contentsVal (Chat.canonAny JSON.null)) = some JSON.null := by
        simp [Chat.canonAny, contentsVal, anyVal, jsonOfAny]
      simp only [hj, hv, ha, hx, strOf, boolOf]
      cases click <;> rfl
  theorem ofGoArgs_norm : ∀ args : List (Msg ⊕ Bytes), NbtOKArgs args →
      ofGoArgs (goArgs (Chat.normArgs id args)) = some (Chat.normArgs id args)
    | [], _ => by simp [Chat.normArgs, goArgs, ofGoArgs]
    | .inl m :: r, h => by
      rw [NbtOKArgs] at h
      have h1 := ofGo_norm m h.1
      have h2 := ofGoArgs_norm r h.2
      rw [Chat.normArgs, goArgs]
      cases hm : Chat.norm id m
      rw [hm] at h1
      rw [goOf.eq_def] at h1 ⊢
      simp only at h1 ⊢
      rw [ofGoArgs]
      · simp only [h1, h2]
      · intro s hs; cases hs
    | .inr s :: r, h => by
      rw [NbtOKArgs] at h
      have h2 := ofGoArgs_norm r h.2
      rw [Chat.normArgs, goArgs]
      have h1 : ofGo (goOf (Msg.ofText (id s))) = some (Msg.ofText (id s)) := by
        simp [Msg.ofText, Msg.zero, goOf, goArgs, goList, ofGo, ofGoArgs, ofGoList, strOf, boolOf, clickVal, clickOf]
      unfold Msg.ofText Msg.zero at h1 ⊢
      rw [goOf.eq_def] at h1 ⊢
      simp only at h1 ⊢
      rw [ofGoArgs]
      · simp only [h1, h2]
      · intro s' hs; cases hs
  theorem ofGoList_norm : ∀ xs : List Msg, NbtOKList xs → ofGoList (goList (Chat.normList id xs)) = some (Chat.normList id xs)
    | [], _ => by simp [Chat.normList, goList, ofGoList]
    | m :: r, h => by
      rw [NbtOKList] at h
      rw [Chat.normList, goList, ofGoList, ofGo_norm m h.1, ofGoList_norm r h.2]
end

end GoMC.Lemmas.ChatNBT
