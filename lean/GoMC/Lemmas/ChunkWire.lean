/-
  Lemmas for C13 stage 2: round trip, totality and stability of the byte-level chunk models
  (`GoMC.Model.ChunkWire`), assembled from the facts of C05/C06 (fields, combinators), C11/C12 (BitStorage, palette
  container) and C01/C03 (NBT readers).
-/
import GoMC.Model.ChunkWire
import GoMC.Lemmas.Chunk
import GoMC.Lemmas.Fields
import GoMC.Lemmas.Palette
import GoMC.Lemmas.NBTDecode
import GoMC.Lemmas.C09
namespace GoMC.Lemmas.ChunkWire
open GoMC GoMC.Model GoMC.Model.Chunk GoMC.Lemmas

/-! ### round trip with a hypothesis on the destination

`RT` of Lemmas/Fields quantifies over every prior destination.  A palette container can only be read into a
container of the same configuration and length, so the chunk-level statements need a destination predicate. -/

def RTD {α} (c : Codec α) (dom dst : α → Prop) (eqv : α → α → Prop) : Prop :=
  ∀ (v d : α) (s : Stream) (rest : Bytes), dom v → dst d → s.flat = (c.enc v).1 ++ rest →
    ∃ d' s', c.dec d s = (Res.ok (d', (c.enc v).1.length), s') ∧ eqv d' v ∧ s'.flat = rest ∧ s'.failing = s.failing

theorem RT.toRTD {α} {c : Codec α} {dom eqv} (h : RT c dom eqv) : RTD c dom (fun _ => True) eqv :=
  fun v d s rest hv _ hs => h v d s rest hv hs

theorem RTD.mono {α} {c : Codec α} {dom dom' dst dst' : α → Prop} {eqv eqv' : α → α → Prop} (h : RTD c dom dst eqv)
    (h1 : ∀ v, dom' v → dom v) (h2 : ∀ d, dst' d → dst d) (h3 : ∀ d v, dom' v → eqv d v → eqv' d v) :
    RTD c dom' dst' eqv' := by
  intro v d s rest hv hd hs
  obtain ⟨d', s', a, b, c', e⟩ := h v d s rest (h1 v hv) (h2 d hd) hs
  exact ⟨d', s', a, h3 d' v hv b, c', e⟩

theorem rtd_pair {α β} {a : Codec α} {b : Codec β} {da pa ea db pb eb} (ha : RTD a da pa ea) (hb : RTD b db pb eb) :
    RTD (pairC a b) (fun v => da v.1 ∧ db v.2) (fun d => pa d.1 ∧ pb d.2) (fun d v => ea d.1 v.1 ∧ eb d.2 v.2) := by
  intro v d s rest hv hd hs
  have he : ((pairC a b).enc v).1 = (a.enc v.1).1 ++ (b.enc v.2).1 := by simp [pairC, pairEnc]
  rw [he, List.append_assoc] at hs
  obtain ⟨x, s1, h1, e1, f1, fl1⟩ := ha v.1 d.1 s _ hv.1 hd.1 hs
  obtain ⟨y, s2, h2, e2, f2, fl2⟩ := hb v.2 d.2 s1 rest hv.2 hd.2 f1
  refine ⟨(x, y), s2, ?_, ⟨e1, e2⟩, f2, fl2.trans fl1⟩
  simp only [pairC, pairDec]
  rw [Rd.bind_ok h1]
  simp only
  rw [Rd.bind_ok h2]
  simp [pairEnc]

/-- the element loop with a destination predicate -/
theorem decElems_rtd {α} {c : Codec α} {dom dst eqv} (hc : RTD c dom dst eqv) (vs ds : List α)
    (hlen : ds.length = vs.length) (hdom : ∀ x ∈ vs, dom x) (hdst : ∀ d ∈ ds, dst d) (s : Stream) (rest : Bytes)
    (hs : s.flat = (encElems c vs).1 ++ rest) :
    ∃ vs' s', decElems c ds s = (Res.ok (vs', (encElems c vs).1.length), s') ∧ listRel eqv vs' vs
      ∧ s'.flat = rest ∧ s'.failing = s.failing := by
  induction vs generalizing ds s with
  | nil =>
    cases ds with
    | nil => exact ⟨[], s, by simp [decElems, encElems], trivial, by simpa [encElems] using hs, rfl⟩
    | cons _ _ => simp at hlen
  | cons v vs ih =>
    cases ds with
    | nil => simp at hlen
    | cons d ds =>
      rw [encElems_cons, List.append_assoc] at hs
      obtain ⟨x, s1, h1, e1, f1, fl1⟩ := hc v d s _ (hdom v (by simp)) (hdst d (by simp)) hs
      obtain ⟨xs, s2, h2, e2, f2, fl2⟩ := ih ds (by simpa using hlen) (fun y hy => hdom y (by simp [hy]))
        (fun y hy => hdst y (by simp [hy])) s1 f1
      refine ⟨x :: xs, s2, ?_, ⟨e1, e2⟩, f2, fl2.trans fl1⟩
      simp only [decElems]
      rw [Rd.bind_ok h1]
      simp only
      rw [Rd.bind_ok h2]
      simp [encElems_cons]

theorem listRel_length {α} {r : α → α → Prop} : ∀ {xs ys : List α}, listRel r xs ys → xs.length = ys.length
  | [], [], _ => rfl
  | _ :: xs, _ :: ys, h => by simp [listRel_length (xs := xs) (ys := ys) h.2]
  | [], _ :: _, h => by simp [listRel] at h
  | _ :: _, [], h => by simp [listRel] at h

theorem listRel_get {α} {r : α → α → Prop} : ∀ {xs ys : List α}, listRel r xs ys → ∀ (i : Nat) (h1 : i < xs.length)
    (h2 : i < ys.length), r xs[i] ys[i]
  | [], [], _, i, h1, _ => by simp at h1
  | x :: xs, y :: ys, h, 0, _, _ => h.1
  | x :: xs, y :: ys, h, i + 1, h1, h2 => by
    simpa using listRel_get (xs := xs) (ys := ys) h.2 i (by simpa using h1) (by simpa using h2)
  | [], _ :: _, h, _, _, _ => by simp [listRel] at h
  | _ :: _, [], h, _, _, _ => by simp [listRel] at h

/-! ### the palette container as a field -/

/-- what a destination container must be to receive a container of `n` entries -/
def ContDst (cfg : PalCfg) (n : Nat) (d : PCont) : Prop := d.cfg = cfg ∧ d.data.length = (n : Int)

/-- destination afterwards: well-formed, same entries -/
def ContEqv (cfg : PalCfg) (gb n : Nat) (d v : PCont) : Prop :=
  Palette.Inv cfg gb n d ∧ Palette.abs n d = Palette.abs n v

theorem rtd_container {cfg : PalCfg} {gb n : Nat} (hgb : Palette.GbOK cfg gb) (hn : n < 2 ^ 31) :
    RTD (containerC cfg) (Palette.Inv cfg gb n) (ContDst cfg n) (ContEqv cfg gb n) := by
  intro v d s rest hv hd hs
  have hs' : s.flat = v.writeTo ++ rest := by simpa [containerC, wr] using hs
  obtain ⟨d', s', h1, h2, h3, h4, h5⟩ := Palette.readFrom_writeTo hgb hv hn hd.1 hd.2 rest s hs'
  refine ⟨d', s', ?_, ⟨h4, ?_⟩, h2, h3⟩
  · simp only [containerC, containerDec, h1, wr]
  · apply List.ext_getElem
    · simp
    · intro j hj _
      have hj' : j < n := by simpa using hj
      simp only [Palette.abs, Palette.getV, List.getElem_map, List.getElem_range, h5 j hj']

/-! ### Section -/

def SecDom (gbS gbB : Nat) (v : SecCore) : Prop :=
  Palette.Inv (blocksCfg gbS) gbS 4096 v.2.1 ∧ Palette.Inv (biomesCfg gbB) gbB 64 v.2.2

def SecDst (gbS gbB : Nat) (d : SecCore) : Prop :=
  ContDst (blocksCfg gbS) 4096 d.2.1 ∧ ContDst (biomesCfg gbB) 64 d.2.2

/-- equal counter, equal block states, equal biomes, and the containers are well-formed again -/
def SecEqv (gbS gbB : Nat) (d v : SecCore) : Prop :=
  d.1 = v.1 ∧ ContEqv (blocksCfg gbS) gbS 4096 d.2.1 v.2.1 ∧ ContEqv (biomesCfg gbB) gbB 64 d.2.2 v.2.2

theorem rtd_sec {gbS gbB : Nat} (hS : Palette.GbOK (blocksCfg gbS) gbS) (hB : Palette.GbOK (biomesCfg gbB) gbB) :
    RTD (secC (blocksCfg gbS) (biomesCfg gbB)) (SecDom gbS gbB) (SecDst gbS gbB) (SecEqv gbS gbB) := by
  have h := rtd_pair (RT.toRTD (rt_fix 2))
    (rtd_pair (rtd_container hS (n := 4096) (by decide)) (rtd_container hB (n := 64) (by decide)))
  exact RTD.mono h (fun v hv => ⟨trivial, hv⟩) (fun d hd => ⟨trivial, hd⟩) (fun d v _ he => he)

/-! ### block entity data: `pk.NBT(&b.Data)` -/

open GoMC.Lemmas.NBTDecode in
/-- what a block entity may carry: no data, or the payload of a well-formed NBT value whose strings are shorter
than 2^15 (and, at fixed fuel, shallow enough for the fuel) -/
def RawDom (fuel : Nat) (m : RawMsg) : Prop :=
  (m.tag = 0#8 ∧ m.data = []) ∨
  ∃ t : Spec.NBT, t.WF ∧ S15 t ∧ cost t ≤ fuel ∧ m.tag = t.tag ∧ m.data = Spec.encPayload t

open GoMC.Lemmas.NBTDecode in
theorem rt_raw (fuel : Nat) : RT (rawC fuel) (RawDom fuel) (fun d v => d = v) := by
  intro v d s rest hv hs
  rcases hv with ⟨h0, hd⟩ | ⟨t, hwf, h15, hc, htag, hdata⟩
  · have hv' : v = ⟨0#8, []⟩ := by cases v; simp_all
    subst hv'
    have hs' : s.flat = 0#8 :: rest := by simpa [rawC, rawEnc, wr] using hs
    obtain ⟨h1, h2⟩ := readByte_cons s 0#8 rest hs'
    refine ⟨⟨0#8, []⟩, s.drop 1, ?_, rfl, h2, rfl⟩
    simp only [rawC, rawDecF]
    rw [Rd.bind_ok h1]
    simp [rawEnc, wr]
  · have hv' : v = ⟨t.tag, Spec.encPayload t⟩ := by cases v; simp_all
    subst hv'
    have hs' : s.flat = t.tag :: (Spec.encPayload t ++ rest) := by simpa [rawC, rawEnc, wr] using hs
    obtain ⟨h1, h2⟩ := readByte_cons s t.tag _ hs'
    rcases raw_R t fuel hwf h15 (s.drop 1) rest h2 with ⟨s', g1, g2, g3⟩ | ⟨hn, _⟩
    · refine ⟨⟨t.tag, Spec.encPayload t⟩, s', ?_, rfl, g2, by simpa using g3⟩
      simp only [rawC, rawDecF]
      rw [Rd.bind_ok h1]
      have hne : ¬ (t.tag = 0#8) := Spec.NBT.tag_ne_end t
      rw [if_neg hne]
      rw [Rd.bind_ok g1]
      simp [rawEnc, wr, Nat.add_comm]
    · exact absurd hc hn

/-! ### BlockEntity -/

def EntDom (fuel : Nat) (e : EntRep) : Prop := RawDom fuel e.2.2.2

theorem rt_ent (fuel : Nat) : RT (entC fuel) (EntDom fuel) (fun d v => d = v) := by
  have h := rt_pair rt_byte (rt_pair (rt_fix 2) (rt_pair rt_varInt (rt_raw fuel)))
  refine RT.mono h (fun v hv => ⟨trivial, trivial, trivial, hv⟩) ?_
  intro d v _ h
  obtain ⟨h1, h2, h3, h4⟩ := h
  exact Prod.ext h1 (Prod.ext h2 (Prod.ext h3 h4))

/-! ### lightData -/

def LightDom (l : LightData) : Prop :=
  l.skyMask.elems.length < 2 ^ 31 ∧ l.blkMask.elems.length < 2 ^ 31 ∧
  l.sky.elems.length < 2 ^ 31 ∧ l.blk.elems.length < 2 ^ 31 ∧
  (∀ a ∈ l.sky.elems, a.elems.length < 2 ^ 31) ∧ (∀ a ∈ l.blk.elems, a.elems.length < 2 ^ 31)

/-- masks and arrays come back element for element -/
def LightEqv (d v : LightData) : Prop :=
  d.skyMask.elems = v.skyMask.elems ∧ d.blkMask.elems = v.blkMask.elems ∧
  d.sky.elems.map (·.elems) = v.sky.elems.map (·.elems) ∧ d.blk.elems.map (·.elems) = v.blk.elems.map (·.elems)

theorem listRel_elems : ∀ (ds vs : List (Slice Byte)), listRel (fun d v => d.elems = v.elems) ds vs →
    ds.map (·.elems) = vs.map (·.elems)
  | [], [], _ => rfl
  | d :: ds, v :: vs, h => by simp [h.1, listRel_elems ds vs h.2]
  | [], _ :: _, h => by simp [listRel] at h
  | _ :: _, [], h => by simp [listRel] at h

theorem bound_varint : Spec.LenKind.varint.bound = 2 ^ 31 := rfl

theorem rt_light : RT lightC LightDom LightEqv := by
  have hA : RT (aryC .varint byteArrayC) _ _ := rt_ary .varint rt_byteArray
  have h := rt_pair rt_bitSet (rt_pair rt_bitSet (rt_pair rt_bitSet (rt_pair rt_bitSet (rt_pair hA hA))))
  intro v d s rest hv hs
  obtain ⟨h1, h2, h3, h4, h5, h6⟩ := hv
  have hlen : (bitSetRev v.skyMask).elems.length = v.skyMask.elems.length ∧
      (bitSetRev v.blkMask).elems.length = v.blkMask.elems.length := by simp [bitSetRev]
  obtain ⟨r, s', g1, g2, g3, g4⟩ := h (v.skyMask, v.blkMask, bitSetRev v.skyMask, bitSetRev v.blkMask, v.sky, v.blk)
    (d.skyMask, d.blkMask, Slice.nil, Slice.nil, d.sky, d.blk) s rest
    ⟨h1, h2, by rw [hlen.1]; exact h1, by rw [hlen.2]; exact h2, ⟨by rw [bound_varint]; exact h3, h5⟩,
      ⟨by rw [bound_varint]; exact h4, h6⟩⟩ hs
  obtain ⟨e1, e2, _, _, e5, e6⟩ := g2
  refine ⟨{ skyMask := r.1, blkMask := r.2.1, sky := r.2.2.2.2.1, blk := r.2.2.2.2.2 }, s', ?_,
    ⟨e1, e2, listRel_elems _ _ e5, listRel_elems _ _ e6⟩, g3, g4⟩
  show LightData.dec d s = _
  unfold LightData.dec
  have g1' : lightRepC.dec (d.skyMask, d.blkMask, Slice.nil, Slice.nil, d.sky, d.blk) s =
      (Res.ok (r, (lightRepC.enc (v.skyMask, v.blkMask, bitSetRev v.skyMask, bitSetRev v.blkMask, v.sky, v.blk)).1.length), s') := g1
  rw [Rd.bind_ok g1']
  rfl

/-! ### the height-map NBT -/

section hm
open GoMC.Lemmas.NBTDecode GoMC.Model.NBT
open GoMC.Spec (encPayload encKvs encString encDoc be32 be64 beBytes)

theorem R_u64Slice_longs (c : Prop) (xs : Longs) (h : xs.length < 2 ^ 31) :
    R c (u64Slice 12#8) (encPayload (.longArray xs)) (some xs) := by
  unfold u64Slice
  have h12 : (12#8 : Byte).toNat = 12 := rfl
  simp only [h12, encPayload]
  have hlen : beBytes 4 xs.length = be32 (BitVec.ofNat 32 xs.length) := (be32_ofNat xs.length (by omega)).symm
  rw [hlen]
  apply R_bind (R_readInt32 c _)
  have hmsb : (BitVec.ofNat 32 xs.length).msb = false := by
    rw [BitVec.msb_eq_decide]
    simp only [BitVec.toNat_ofNat, decide_eq_false_iff_not, Nat.not_le]
    omega
  simp only [hmsb, Bool.false_eq_true, if_false]
  have hn : (BitVec.ofNat 32 xs.length).toNat = xs.length := by simp [BitVec.toNat_ofNat]; omega
  rw [hn]
  have : (xs.map Spec.be64).flatten = (xs.map Spec.be64).flatten ++ [] := by simp
  rw [this]
  exact R_bind (R_readLongs c xs) (R_pure c _)

theorem findField_mb : findField hmFields nameMB = some 0 := by decide
theorem findField_ws : findField hmFields nameWS = some 1 := by decide

/-- the struct loop on the two fields the writer emits -/
theorem R_hmLoop (c : Prop) (f : Nat) (mb ws : Longs) (hmb : mb.length < 2 ^ 31) (hws : ws.length < 2 ^ 31) :
    R c (hmLoop (f + 3) (none, none)) (encKvs [(nameMB, .longArray mb), (nameWS, .longArray ws)]) (some mb, some ws) := by
  have e1 : encKvs [(nameMB, Spec.NBT.longArray mb), (nameWS, Spec.NBT.longArray ws)] =
      (12#8 :: encString nameMB) ++ (encPayload (.longArray mb) ++
        ((12#8 :: encString nameWS) ++ (encPayload (.longArray ws) ++ ([0#8] ++ [])))) := by
    simp [encKvs, Spec.NBT.tag, Spec.NBT.tagLongArray, Spec.NBT.tagEnd]
  rw [e1]
  -- first field
  unfold hmLoop
  apply R_bind (R_readTag c 12#8 nameMB (by decide) (by decide) (by decide) (by decide))
  have n12 : ¬ ((12#8 : Byte) = 0#8) := by decide
  simp only [n12, if_false, findField_mb]
  apply R_bind (R_u64Slice_longs c mb hmb)
  simp only [if_true]
  -- second field
  unfold hmLoop
  apply R_bind (R_readTag c 12#8 nameWS (by decide) (by decide) (by decide) (by decide))
  simp only [n12, if_false, findField_ws]
  apply R_bind (R_u64Slice_longs c ws hws)
  have n10 : ¬ ((1 : Nat) = 0) := by decide
  simp only [n10, if_false]
  -- TAG_End
  unfold hmLoop
  apply R_bind (R_readTag_end c)
  simp only [if_true]
  exact R_pure c _

theorem R_hmDecF (c : Prop) (f : Nat) (mb ws : Longs) (hmb : mb.length < 2 ^ 31) (hws : ws.length < 2 ^ 31) :
    R c (hmDecF (f + 3)) (encDoc .network [] (hmTree (some mb, some ws))) (some mb, some ws) := by
  have e : encDoc .network [] (hmTree (some mb, some ws)) =
      [10#8] ++ encKvs [(nameMB, .longArray mb), (nameWS, .longArray ws)] := by
    simp [encDoc, hmTree, Spec.NBT.tag, Spec.NBT.tagCompound, encPayload]
  rw [e]
  unfold hmDecF
  apply R_bind (R_readByte c 10#8)
  have n0 : ¬ ((10#8 : Byte) = 0#8) := by decide
  simp only [n0, if_false, if_true]
  exact R_hmLoop c f mb ws hmb hws

end hm

/-- a counting reader around a program that reads `enc` exactly -/
theorem counted_of_R {α} {p : Rd α} {enc : Bytes} {v : α} (hr : NBTDecode.R True p enc v) (s : Stream) (rest : Bytes)
    (hs : s.flat = enc ++ rest) :
    ∃ s', counted p s = (Res.ok (v, enc.length), s') ∧ s'.flat = rest ∧ s'.failing = s.failing := by
  rcases hr s rest hs with ⟨s', h1, h2, h3⟩ | ⟨hn, _⟩
  · refine ⟨s', ?_, h2, h3⟩
    unfold counted
    rw [h1]
    simp [hs, h2]
  · exact absurd trivial hn

def HmDom (v : HmVal) : Prop := ∃ mb ws : Longs, v = (some mb, some ws) ∧ mb.length < 2 ^ 31 ∧ ws.length < 2 ^ 31

theorem rt_hm (f : Nat) : RT (hmC (f + 3)) HmDom (fun d v => d = v) := by
  intro v d s rest hv hs
  obtain ⟨mb, ws, rfl, hmb, hws⟩ := hv
  have hs' : s.flat = Spec.encDoc .network [] (hmTree (some mb, some ws)) ++ rest := by simpa [hmC, hmEnc, wr] using hs
  obtain ⟨s', h1, h2, h3⟩ := counted_of_R (R_hmDecF True f mb ws hmb hws) s rest hs'
  exact ⟨(some mb, some ws), s', by simpa [hmC, hmEnc, wr] using h1, rfl, h2, h3⟩

/-! ### Chunk -/

/-- the encoders do not depend on the NBT fuel -/
theorem encElems_congr {α} (c1 c2 : Codec α) (h : c1.enc = c2.enc) : ∀ xs : List α, encElems c1 xs = encElems c2 xs
  | [] => rfl
  | x :: xs => by simp only [encElems, h, encElems_congr c1 c2 h xs]

theorem entC_enc (a b : Nat) : (entC a).enc = (entC b).enc := rfl

theorem chunkRep_enc_fuel (a b : Nat) (r : ChunkRep) : (chunkRepC a).enc r = (chunkRepC b).enc r := by
  simp only [chunkRepC, pairC, pairEnc, aryC, aryEnc, hmC, encElems_congr _ _ (entC_enc a b)]

theorem encElems_mem_length {α} (c : Codec α) (x : α) : ∀ (xs : List α), x ∈ xs →
    (c.enc x).1.length ≤ (encElems c xs).1.length
  | [], h => by simp at h
  | y :: ys, h => by
    rw [encElems_cons]
    rcases List.mem_cons.mp h with rfl | h'
    · simp
    · have := encElems_mem_length c x ys h'
      simp only [List.length_append]; omega

/-- a well-formed chunk as `Chunk.WriteTo` needs it -/
structure ChunkDom (gbS gbB : Nat) (c : Chunk) : Prop where
  secs : ∀ s ∈ c.secs, SecDom gbS gbB s.core
  mb : newHeightMap (hmBitsOf c.secs.length) (some c.hm.motionBlocking.data) = .ok c.hm.motionBlocking
  ws : newHeightMap (hmBitsOf c.secs.length) (some c.hm.worldSurface.data) = .ok c.hm.worldSurface
  mbLen : c.hm.motionBlocking.data.length < 2 ^ 31
  wsLen : c.hm.worldSurface.data.length < 2 ^ 31
  ents : c.ents.elems.length < 2 ^ 31
  entData : ∀ e ∈ c.ents.elems, (e.2.2.2.tag = 0#8 ∧ e.2.2.2.data = []) ∨
    ∃ t : Spec.NBT, t.WF ∧ NBTDecode.S15 t ∧ e.2.2.2.tag = t.tag ∧ e.2.2.2.data = Spec.encPayload t
  data : (c.data gbS gbB).length < 2 ^ 31
  light : LightDom (lightOf 0 c.secs freshLight)

/-- a destination: the same number of sections, each with containers of the right kind and length (built by
`EmptyChunk`, or used, read into, written to before — nothing else is asked of it) -/
structure ChunkDst (gbS gbB : Nat) (n : Nat) (d : Chunk) : Prop where
  len : d.secs.length = n
  secs : ∀ s ∈ d.secs, SecDst gbS gbB s.core

theorem zip_withCore_core : ∀ (secs : List WSec) (cores : List SecCore), cores.length = secs.length →
    ((secs.zip cores).map fun p => p.1.withCore p.2).map WSec.core = cores
  | [], [], _ => rfl
  | s :: ss, c :: cs, h => by
    simp only [List.zip_cons_cons, List.map_cons]
    rw [zip_withCore_core ss cs (by simpa using h)]
    rfl
  | [], _ :: _, h => by simp at h
  | _ :: _, [], h => by simp at h

theorem zip_withCore_length (secs : List WSec) (cores : List SecCore) (h : cores.length = secs.length) :
    ((secs.zip cores).map fun p => p.1.withCore p.2).length = secs.length := by
  simp [h]

theorem putData_roundtrip {gbS gbB : Nat} (hS : Palette.GbOK (blocksCfg gbS) gbS) (hB : Palette.GbOK (biomesCfg gbB) gbB)
    (c d : Chunk) (hc : ∀ s ∈ c.secs, SecDom gbS gbB s.core) (hd : ChunkDst gbS gbB c.secs.length d) :
    ∃ secs', putData gbS gbB d.secs (c.data gbS gbB) = .ok secs' ∧ secs'.length = c.secs.length ∧
      listRel (SecEqv gbS gbB) (secs'.map WSec.core) (c.secs.map WSec.core) := by
  have hlen : (d.secs.map WSec.core).length = (c.secs.map WSec.core).length := by simp [hd.len]
  obtain ⟨cores, s', h1, h2, _, _⟩ := decElems_rtd (rtd_sec hS hB) (c.secs.map WSec.core) (d.secs.map WSec.core) hlen
    (by intro x hx; obtain ⟨s, hs, rfl⟩ := List.mem_map.mp hx; exact hc s hs)
    (by intro x hx; obtain ⟨s, hs, rfl⟩ := List.mem_map.mp hx; exact hd.secs s hs)
    (Stream.ofBytes (c.data gbS gbB)) [] (by simp [Chunk.data])
  have hcl : cores.length = d.secs.length := by
    have := listRel_length h2
    have := hd.len
    simp at *; omega
  refine ⟨(d.secs.zip cores).map fun p => p.1.withCore p.2, ?_, ?_, ?_⟩
  · unfold putData
    rw [h1]
  · rw [zip_withCore_length _ _ hcl, hd.len]
  · rw [zip_withCore_core _ _ hcl]; exact h2

theorem wire_roundtrip {gbS gbB : Nat} (hS : Palette.GbOK (blocksCfg gbS) gbS) (hB : Palette.GbOK (biomesCfg gbB) gbB)
    (c d : Chunk) (hc : ChunkDom gbS gbB c) (hd : ChunkDst gbS gbB c.secs.length d) (rest : Bytes) (s : Stream)
    (hs : s.flat = (c.writeTo gbS gbB).1 ++ rest) :
    ∃ d' s', Chunk.readFrom gbS gbB d s = (Res.ok (d', (c.writeTo gbS gbB).1.length), s') ∧
      s'.flat = rest ∧ s'.failing = s.failing ∧
      d'.secs.length = c.secs.length ∧
      listRel (SecEqv gbS gbB) (d'.secs.map WSec.core) (c.secs.map WSec.core) ∧
      d'.hm.motionBlocking = c.hm.motionBlocking ∧ d'.hm.worldSurface = c.hm.worldSurface ∧
      d'.ents.elems = c.ents.elems := by
  -- the four fields of the tuple
  let v : ChunkRep := ((some c.hm.motionBlocking.data, some c.hm.worldSurface.data), ⟨c.data gbS gbB, []⟩, c.ents,
    lightOf 0 c.secs freshLight)
  have henc : (c.writeTo gbS gbB).1 = ((chunkRepC (s.flat.length + 3)).enc v).1 := by
    show ((chunkRepC 0).enc v).1 = _
    rw [chunkRep_enc_fuel 0 (s.flat.length + 3)]
  have hrt := rt_pair (rt_hm s.flat.length) (rt_pair rt_byteArray
    (rt_pair (rt_ary .varint (rt_ent (s.flat.length + 3))) rt_light))
  have hdomE : ∀ e ∈ c.ents.elems, EntDom (s.flat.length + 3) e := by
    intro e he
    rcases hc.entData e he with h0 | ⟨t, hwf, h15, htag, hdata⟩
    · exact Or.inl h0
    · refine Or.inr ⟨t, hwf, h15, ?_, htag, hdata⟩
      -- the payload is part of what the source holds
      have h1 := NBTDecode.cost_le t
      have h2 : (Spec.encPayload t).length ≤ ((entC 0).enc e).1.length := by
        have : ((entC 0).enc e).1 = [e.1] ++ (toBE 2 e.2.1.toNat ++ (varIntBytes e.2.2.1 ++ (e.2.2.2.tag :: e.2.2.2.data))) := by
          simp [entC, pairC, pairEnc, byteC, byteEnc, shortC, fixC, fixEnc, varIntC, varIntEnc, rawC, rawEnc, wr]
        rw [this, hdata]; simp only [List.length_append, List.length_cons]; omega
      have h3 := encElems_mem_length (entC 0) e c.ents.elems he
      have h4 : (encElems (entC 0) c.ents.elems).1.length ≤ (c.writeTo gbS gbB).1.length := by
        show _ ≤ ((chunkRepC 0).enc v).1.length
        simp only [chunkRepC, pairC, pairEnc, aryC, aryEnc, List.length_append, v]
        omega
      have h5 : (c.writeTo gbS gbB).1.length ≤ s.flat.length := by rw [hs]; simp
      omega
  obtain ⟨r, s', g1, g2, g3, g4⟩ := hrt v ((none, none), Slice.nil, d.ents, freshLight) s rest
    ⟨⟨_, _, rfl, hc.mbLen, hc.wsLen⟩, hc.data, ⟨by rw [bound_varint]; exact hc.ents, hdomE⟩, hc.light⟩
    (by have h' : s.flat = ((chunkRepC (s.flat.length + 3)).enc v).1 ++ rest := by rw [← henc]; exact hs
        exact h')
  obtain ⟨e1, e2, e3, _⟩ := g2
  -- what ReadFrom does with them
  obtain ⟨secs', p1, p2, p3⟩ := putData_roundtrip hS hB c d hc.secs hd
  have e1' : r.1 = (some c.hm.motionBlocking.data, some c.hm.worldSurface.data) := e1
  have e2' : r.2.1.elems = c.data gbS gbB := e2
  have hents : r.2.2.1.elems = c.ents.elems := by
    have : listRel (fun d v => d = v) r.2.2.1.elems c.ents.elems := e3
    clear e3 g1
    generalize r.2.2.1.elems = xs at this
    generalize c.ents.elems = ys at this
    induction xs generalizing ys with
    | nil => cases ys with
      | nil => rfl
      | cons _ _ => simp [listRel] at this
    | cons x xs ih => cases ys with
      | nil => simp [listRel] at this
      | cons y ys => rw [this.1, ih ys this.2]
  have hfin : Chunk.finish gbS gbB d r = Res.ok ({ d with secs := secs', hm := { d.hm with motionBlocking := c.hm.motionBlocking, worldSurface := c.hm.worldSurface }, ents := r.2.2.1 } : Chunk) := by
    unfold Chunk.finish
    rw [e1', hd.len]
    simp only [hc.mb, hc.ws, e2', p1]
  refine ⟨({ d with secs := secs', hm := { d.hm with motionBlocking := c.hm.motionBlocking, worldSurface := c.hm.worldSurface }, ents := r.2.2.1 } : Chunk),
    s', ?_, g3, g4, p2, p3, rfl, rfl, hents⟩
  unfold Chunk.readFrom Chunk.readFromF
  show ((chunkRepC (NBT.fuelFor s)).dec ((none, none), Slice.nil, d.ents, freshLight) >>= _) s = _
  have hf : NBT.fuelFor s = s.flat.length + 3 := rfl
  have g1' : (chunkRepC (s.flat.length + 3)).dec ((none, none), Slice.nil, d.ents, freshLight) s =
      (Res.ok (r, ((chunkRepC (s.flat.length + 3)).enc v).1.length), s') := g1
  rw [hf, Rd.bind_ok g1']
  simp only [hfin]
  rw [← henc]
  rfl

/-! ### totality, fragmentation invariance, extension stability — one bundle -/

/-- never panics, cannot see how the source fragments its bytes, and a successful run does not depend on what
follows the bytes it consumed -/
structure Good {α : Type} (p : Rd α) : Prop where
  noPanic : ∀ s, (p s).1 ≠ Res.panic
  fragInv : Rd.FragInv p
  extStable : Rd.ExtStable p

theorem closed_good : NBTDecode.Closed (@Good) where
  pure := fun a => ⟨NBTDecode.closed_noPanic.pure a, Rd.fragInv_pure a, Rd.extStable_pure a⟩
  fail := ⟨NBTDecode.closed_noPanic.fail, Rd.fragInv_fail, Rd.extStable_fail⟩
  readFull := fun n => ⟨NBTDecode.closed_noPanic.readFull n, Rd.fragInv_readFull n, Rd.extStable_readFull n⟩
  readByte := ⟨NBTDecode.closed_noPanic.readByte, Rd.fragInv_readByte, Rd.extStable_readByte⟩
  bind := fun hp hf => ⟨NBTDecode.closed_noPanic.bind hp.noPanic (fun a => (hf a).noPanic),
    Rd.fragInv_bind hp.fragInv (fun a => (hf a).fragInv), Rd.extStable_bind hp.extStable (fun a => (hf a).extStable)⟩
  ite := fun hp hq => ⟨NBTDecode.closed_noPanic.ite hp.noPanic hq.noPanic, Rd.fragInv_ite hp.fragInv hq.fragInv,
    Rd.extStable_ite hp.extStable hq.extStable⟩

theorem good_of {α} {p : Rd α} (h1 : NoPanic p) (h2 : Stable p) : Good p := ⟨h1, h2.1, h2.2⟩

theorem good_bind {α β} {p : Rd α} {f : α → Rd β} (hp : Good p) (hf : ∀ a, Good (f a)) : Good (p >>= f) :=
  closed_good.bind hp hf
theorem good_pure {α} (a : α) : Good (Pure.pure a : Rd α) := closed_good.pure a
theorem good_fail {α} : Good (Rd.fail : Rd α) := closed_good.fail

theorem good_pair {α β} (a : Codec α) (b : Codec β) (ha : ∀ d, Good (a.dec d)) (hb : ∀ d, Good (b.dec d))
    (d : α × β) : Good ((pairC a b).dec d) :=
  good_bind (ha _) fun _ => good_bind (hb _) fun _ => good_pure _

theorem good_decElems {α} (c : Codec α) (hc : ∀ d, Good (c.dec d)) : ∀ ds : List α, Good (decElems c ds)
  | [] => good_pure _
  | d :: ds => by
    unfold decElems
    exact good_bind (hc d) fun _ => good_bind (good_decElems c hc ds) fun _ => good_pure _

theorem good_ary {α} (l : Spec.LenKind) (c : Codec α) (hc : ∀ d, Good (c.dec d)) (d : Slice α) :
    Good ((aryC l c).dec d) :=
  good_of (noPanic_ary l c (fun d => (hc d).noPanic) d)
    (stable_ary l c (fun d => ⟨(hc d).fragInv, (hc d).extStable⟩) d)

theorem good_byte (d : BitVec 8) : Good (byteC.dec d) := good_of (noPanic_byte d) (stable_byte d)
theorem good_fix (k : Nat) (d : BitVec (8 * k)) : Good ((fixC k).dec d) := good_of (noPanic_fix k d) (stable_fix k d)
theorem good_varInt (d : BitVec 32) : Good (varIntC.dec d) := good_of noPanic_varIntRead stable_varInt
theorem good_byteArray (d : Slice Byte) : Good (byteArrayC.dec d) := good_of (noPanic_byteArray d) (stable_byteArray d)
theorem good_bitSet (d : Slice (BitVec 64)) : Good (bitSetC.dec d) := good_of (noPanic_bitSet d) (stable_bitSet d)

/-- the palette container's `ReadFrom` (C12), for a sane registry width -/
theorem containerDec_eq (d : PCont) :
    containerDec d = (Palette.readRd d >>= fun p => Pure.pure (p.2, p.1)) := by
  funext s
  simp only [containerDec, Palette.readRd, Rd.bind_apply]
  rcases h : d.readFrom s with ⟨r, d', s'⟩
  cases r <;> simp [Res.map]

theorem good_container (cfg : PalCfg) (d : PCont) (h0 : 0 ≤ d.cfg.gbits) (h64 : d.cfg.gbits ≤ 64) :
    Good ((containerC cfg).dec d) := by
  show Good (containerDec d)
  refine ⟨?_, ?_, ?_⟩
  · intro s
    have := Palette.readFrom_noPanic d h0 h64 s
    unfold containerDec
    rcases h : d.readFrom s with ⟨r, d', s'⟩
    rw [h] at this
    cases r <;> simp_all
  · rw [containerDec_eq]
    exact Rd.fragInv_bind (Palette.fragInv_readRd d) (fun _ => Rd.fragInv_pure _)
  · rw [containerDec_eq]
    exact Rd.extStable_bind (Palette.extStable_readRd d) (fun _ => Rd.extStable_pure _)

/-- the registry widths of a section's containers are shift counts Go accepts -/
def SecSane (d : SecCore) : Prop :=
  0 ≤ d.2.1.cfg.gbits ∧ d.2.1.cfg.gbits ≤ 64 ∧ 0 ≤ d.2.2.cfg.gbits ∧ d.2.2.cfg.gbits ≤ 64

theorem good_sec (bc mc : PalCfg) (d : SecCore) (h : SecSane d) : Good ((secC bc mc).dec d) := by
  show Good (pairDec shortC (pairC (containerC bc) (containerC mc)) d)
  unfold pairDec
  refine good_bind (good_fix 2 _) fun _ => good_bind ?_ fun _ => good_pure _
  show Good (pairDec (containerC bc) (containerC mc) d.2)
  unfold pairDec
  exact good_bind (good_container bc _ h.1 h.2.1) fun _ =>
    good_bind (good_container mc _ h.2.2.1 h.2.2.2) fun _ => good_pure _

/-- block entity data -/
theorem good_rawDecF (fuel : Nat) : Good (rawDecF fuel) := by
  have hr := (NBTDecode.closed_raw closed_good fuel).1
  have hP := closed_good
  unfold rawDecF
  rd_closed hP

theorem good_ent (fuel : Nat) (d : EntRep) : Good ((entC fuel).dec d) :=
  good_pair _ _ good_byte (fun d => good_pair _ _ (good_fix 2) (fun d => good_pair _ _ good_varInt
    (fun _ => good_rawDecF fuel) d) d) d

/-- lightData -/
theorem good_light (d : LightData) : Good (lightC.dec d) := by
  show Good (LightData.dec d)
  unfold LightData.dec
  refine good_bind ?_ fun _ => good_pure _
  have hA : ∀ d, Good ((aryC Spec.LenKind.varint byteArrayC).dec d) := good_ary _ _ good_byteArray
  exact good_pair _ _ good_bitSet (fun d => good_pair _ _ good_bitSet (fun d => good_pair _ _ good_bitSet
    (fun d => good_pair _ _ good_bitSet (fun d => good_pair _ _ hA hA d) d) d) d) _

/-- a counting reader keeps all three properties -/
theorem good_counted {α} {p : Rd α} (hp : Good p) : Good (counted p) := by
  refine ⟨?_, ?_, ?_⟩
  · intro s
    have := hp.noPanic s
    unfold counted
    rcases h : p s with ⟨r, s'⟩
    rw [h] at this
    cases r <;> simp_all
  · intro s t hst
    obtain ⟨h1, h2⟩ := hp.fragInv s t hst
    unfold counted
    rcases hs : p s with ⟨r, s'⟩
    rcases ht : p t with ⟨r', t'⟩
    rw [hs, ht] at h1 h2
    simp only at h1 h2
    subst h1
    cases r with
    | ok a => exact ⟨by simp [hst.1, h2.1], h2⟩
    | err => exact ⟨rfl, h2⟩
    | panic => exact ⟨rfl, h2⟩
  · intro s a s' h t extra ht
    unfold counted at h
    rcases hs : p s with ⟨r, s1⟩
    rw [hs] at h
    cases r with
    | ok b =>
      simp only [Prod.mk.injEq, Res.ok.injEq] at h
      obtain ⟨rfl, rfl⟩ := h
      obtain ⟨t', g1, g2, g3⟩ := hp.extStable s b s1 hs t extra ht
      refine ⟨t', ?_, g2, g3⟩
      unfold counted
      rw [g1]
      simp only [Prod.mk.injEq, Res.ok.injEq, true_and, and_true]
      rw [ht, g2]
      simp only [List.length_append]
      omega
    | err => simp at h
    | panic => simp at h

section hmgood
open GoMC.Model.NBT

theorem good_u64Elem (lt : Byte) : Good (u64Elem lt) := by
  have hP := closed_good
  have h8 := NBTDecode.closed_readInt8 hP
  have h16 := NBTDecode.closed_readInt16 hP
  have h32 := NBTDecode.closed_readInt32 hP
  have h64 := NBTDecode.closed_readInt64 hP
  have hr := NBTDecode.closed_refuse hP
  unfold u64Elem
  split
  · exact hP.pure _
  · exact hP.bind h8 fun _ => hP.pure _
  · exact hP.bind h16 fun _ => hP.pure _
  · exact hP.bind h32 fun _ => hP.pure _
  · exact hP.bind h64 fun _ => hP.pure _
  · exact hP.bind (hr lt) fun _ => hP.fail

theorem good_u64List (lt : Byte) : ∀ n, Good (u64List lt n)
  | 0 => good_pure _
  | n + 1 => by
    have hP := closed_good
    have he := good_u64Elem lt
    have ih := good_u64List lt n
    unfold u64List
    rd_closed hP

theorem good_u64Slice (t : Byte) : Good (u64Slice t) := by
  have hP := closed_good
  have h32 := NBTDecode.closed_readInt32 hP
  have hl := NBTDecode.closed_readLongs hP
  have hr := NBTDecode.closed_refuse hP
  have hL := good_u64List
  unfold u64Slice
  split
  · exact hP.bind h32 fun n => hP.ite hP.fail (hP.bind (hl _) fun _ => hP.pure _)
  · exact hP.bind hP.readByte fun lt => hP.ite hP.fail (hP.bind h32 fun n => hP.ite hP.fail (hL lt _))
  · exact hP.bind (hr t) fun _ => hP.fail

theorem good_hmLoop : ∀ (fuel : Nat) (v : HmVal), Good (hmLoop fuel v)
  | 0, _ => good_fail
  | fuel + 1, v => by
    have hP := closed_good
    have ht := NBTDecode.closed_readTag hP
    have hs := good_u64Slice
    have ih := good_hmLoop fuel
    unfold hmLoop
    rd_closed hP

theorem good_hmDecF (fuel : Nat) : Good (hmDecF fuel) := by
  have hP := closed_good
  have hr := NBTDecode.closed_refuse hP
  have hl := good_hmLoop fuel
  unfold hmDecF
  rd_closed hP

end hmgood

theorem good_hm (fuel : Nat) (d : HmVal) : Good ((hmC fuel).dec d) := good_counted (good_hmDecF fuel)

theorem good_chunkRep (fuel : Nat) (d : ChunkRep) : Good ((chunkRepC fuel).dec d) :=
  good_pair _ _ (good_hm fuel) (fun d => good_pair _ _ good_byteArray (fun d => good_pair _ _
    (good_ary _ _ (good_ent fuel)) good_light d) d) d

/-! ### `Chunk.ReadFrom` as a whole -/

theorem good_decElems_mem {α} (c : Codec α) : ∀ ds : List α, (∀ d ∈ ds, Good (c.dec d)) → Good (decElems c ds)
  | [], _ => good_pure _
  | d :: ds, h => by
    unfold decElems
    exact good_bind (h d (by simp)) fun _ =>
      good_bind (good_decElems_mem c ds (fun x hx => h x (by simp [hx]))) fun _ => good_pure _

theorem tdiv_table : ∀ b : Fin 65, 1 ≤ b.val →
    Int.tdiv 64 (b.val : Int) ≠ 0 ∧ 0 ≤ Int.tdiv (256 + Int.tdiv 64 (b.val : Int) - 1) (Int.tdiv 64 (b.val : Int)) := by
  decide

theorem newHeightMap_noPanic (bits : Nat) (h1 : 1 ≤ bits) (h64 : bits ≤ 64) (data : Option Longs) :
    newHeightMap (bits : Int) data ≠ .panic := by
  obtain ⟨t1, t2⟩ := tdiv_table ⟨bits, by omega⟩ h1
  simp only at t1 t2
  have hb0 : ¬ ((bits : Int) = 0) := by omega
  have hbn : ¬ ((bits : Int) < 0) := by omega
  have hsz : calcBitStorageSize (bits : Int) 256 = .ok (Int.tdiv (256 + Int.tdiv 64 (bits : Int) - 1) (Int.tdiv 64 (bits : Int))) := by
    unfold calcBitStorageSize
    simp only [hb0, if_false, t1]
  have hnl : ¬ (Int.tdiv (256 + Int.tdiv 64 (bits : Int) - 1) (Int.tdiv 64 (bits : Int)) < 0) := by omega
  cases data with
  | none =>
    unfold newHeightMap newBitStorage
    simp only [hb0, hbn, if_false, hsz, hnl]
    simp
  | some d =>
    unfold newHeightMap
    simp only [hsz]
    split
    · simp
    · rename_i hlen
      unfold newBitStorage
      simp only [hb0, hbn, if_false, hsz, hnl]
      have : ¬ ((d.length : Int) ≠ Int.tdiv (256 + Int.tdiv 64 (bits : Int) - 1) (Int.tdiv 64 (bits : Int))) := by
        simpa using hlen
      simp [this]

theorem bitLen_range (x : Nat) (h0 : x ≠ 0) (h : x < 2 ^ 64) : 1 ≤ bitLen x ∧ bitLen x ≤ 64 := by
  unfold bitLen
  simp only [h0, if_false]
  have := (Nat.log2_lt h0).mpr h
  omega

/-- the destination's containers have sane registry widths and it has fewer than 2^59 sections -/
structure ChunkSane (d : Chunk) : Prop where
  secs : ∀ s ∈ d.secs, SecSane s.core
  len : d.secs.length < 2 ^ 59

theorem putData_noPanic (gbS gbB : Int) (secs : List WSec) (h : ∀ s ∈ secs, SecSane s.core) (data : Bytes) :
    putData gbS gbB secs data ≠ .panic := by
  have hg := good_decElems_mem (secC (blocksCfg gbS) (biomesCfg gbB)) (secs.map WSec.core)
    (by intro d hd; obtain ⟨s, hs, rfl⟩ := List.mem_map.mp hd; exact good_sec _ _ _ (h s hs))
  have := hg.noPanic (Stream.ofBytes data)
  unfold putData
  rcases hr : decElems (secC (blocksCfg gbS) (biomesCfg gbB)) (secs.map WSec.core) (Stream.ofBytes data) with ⟨r, s'⟩
  rw [hr] at this
  cases r <;> simp_all

theorem finish_noPanic (gbS gbB : Int) (d : Chunk) (hd : ChunkSane d) (r : ChunkRep) :
    Chunk.finish gbS gbB d r ≠ .panic := by
  have hb := bitLen_range (d.secs.length * 16 + 1) (by omega) (by have := hd.len; omega)
  have h1 := newHeightMap_noPanic _ hb.1 hb.2 r.1.1
  have h2 := newHeightMap_noPanic _ hb.1 hb.2 r.1.2
  have h3 := putData_noPanic gbS gbB d.secs hd.secs r.2.1.elems
  unfold Chunk.finish
  have e : hmBitsOf d.secs.length = ((bitLen (d.secs.length * 16 + 1) : Nat) : Int) := rfl
  rw [e]
  cases a : newHeightMap ((bitLen (d.secs.length * 16 + 1) : Nat) : Int) r.1.1 <;> simp_all
  cases b : newHeightMap ((bitLen (d.secs.length * 16 + 1) : Nat) : Int) r.1.2 <;> simp_all
  cases c : putData gbS gbB d.secs r.2.1.elems <;> simp_all

/-- `Chunk.ReadFrom` at fixed NBT fuel: total, fragmentation invariant, extension stable -/
theorem good_chunkReadF (gbS gbB : Int) (fuel : Nat) (d : Chunk) (hd : ChunkSane d) :
    Good (Chunk.readFromF gbS gbB fuel d) := by
  unfold Chunk.readFromF
  refine good_bind (good_chunkRep fuel _) ?_
  rintro ⟨r, n⟩
  have := finish_noPanic gbS gbB d hd r
  simp only
  cases h : Chunk.finish gbS gbB d r with
  | ok c' => exact good_pure _
  | err => exact good_fail
  | panic => exact absurd h this

/-- running with the fuel of the entry point: equal content gives equal fuel -/
theorem fragInv_fuelFor {α} (F : Nat → Rd α) (h : ∀ fuel, Rd.FragInv (F fuel)) :
    Rd.FragInv (fun s => F (NBT.fuelFor s) s) := by
  intro s t hst
  have : NBT.fuelFor s = NBT.fuelFor t := by unfold NBT.fuelFor; rw [hst.1]
  simp only [this]
  exact h _ s t hst

theorem good_secRead (gbS gbB : Int) (s : WSec) (h : SecSane s.core) : Good (Section.readFrom gbS gbB s) := by
  unfold Section.readFrom
  exact good_bind (good_sec _ _ _ h) fun _ => good_pure _

end GoMC.Lemmas.ChunkWire
