/-
  `packet.NBTField` over the typed codec (`Model/NBTField`): never panics, fragmentation invariant, the count it
  returns is the number of bytes consumed, and the glue from a round-trip fact about `Encode` / `Decode` of a type to
  the round trip of the field. Other work packages instantiate these with their struct types.
-/
import GoMC.Lemmas.NBTTotal
import GoMC.Model.NBTField
namespace GoMC.Lemmas.NBTField
open GoMC GoMC.Rd GoMC.Model GoMC.Model.NBT GoMC.Model.Go GoMC.Lemmas.NBTDecode GoMC.Lemmas.NBTTyped GoMC.Lemmas.NBTTotal

/-- whatever the outcome, what is left of the source is a suffix of what it held: `k` bytes were consumed -/
def Suffix {α : Type} (p : Rd α) : Prop :=
  ∀ s, ∃ k, k ≤ s.flat.length ∧ (p s).2.flat = s.flat.drop k ∧ (p s).2.failing = s.failing

theorem suffix_crash {α : Type} : Suffix (Rd.crash : Rd α) := fun s => ⟨0, by omega, by simp [Rd.crash], rfl⟩

theorem closed_suffix : Closed (@Suffix) where
  pure := fun a s => ⟨0, by omega, by simp, rfl⟩
  fail := fun s => ⟨0, by omega, by simp [Rd.fail], rfl⟩
  readFull := by
    intro n s
    unfold Rd.readFull
    split
    · exact ⟨n, by assumption, by simp, rfl⟩
    · exact ⟨s.flat.length, by omega, by simp, rfl⟩
  readByte := by
    intro s
    unfold Rd.readByte
    split
    · rename_i h; exact ⟨0, by omega, by simp [h], rfl⟩
    · rename_i b bs h; exact ⟨1, by rw [h]; simp, by simp, rfl⟩
  bind := by
    intro α β p f hp hf s
    obtain ⟨k1, hk1, h1, h1f⟩ := hp s
    rw [Rd.bind_apply]
    rcases hps : p s with ⟨r, s'⟩
    rw [hps] at h1 h1f
    simp only at h1 h1f
    cases r with
    | ok a =>
      obtain ⟨k2, hk2, h2, h2f⟩ := hf a s'
      refine ⟨k1 + k2, ?_, ?_, ?_⟩
      · rw [h1, List.length_drop] at hk2; omega
      · simp only; rw [h2, h1, List.drop_drop]
      · simp only; rw [h2f, h1f]
    | err => exact ⟨k1, hk1, h1, h1f⟩
    | panic => exact ⟨k1, hk1, h1, h1f⟩
  ite := by intro α c _ p q hp hq; split <;> assumption

/-- `Decode(&v)` into a variable holding a well-shaped value never panics -/
theorem decodeInto_noPanic (cx : SnbtCarrier) (network disallow : Bool) (ty : GoType) (old : GoVal)
    (hdyn : ∀ tag, NoPanic (DynBT.unmarshal tag)) (hsn : ∀ tag, NoPanic (cx.unmarshal tag)) (hold : Good ty old)
    (s : Stream) : (decodeInto cx network disallow ty old s).1 ≠ Res.panic := by
  unfold decodeInto
  refine (safe_bind (Q1 := fun _ => True) (Q2 := fun _ => True)
    (safe_of_np (closed_readHead closed_noPanic network)) (fun x _ => ?_)).1 s
  obtain ⟨t, name⟩ := x
  simp only
  exact safe_bind (safe_unmarshal cx disallow hdyn hsn _ ty old t (tablesOK_all ty) hold) (fun _ _ => safe_pure trivial)

/-- `NBTField.ReadFrom` never panics -/
theorem fieldRead_noPanic (cx : SnbtCarrier) (allow : Bool) (ty : GoType) (old : GoVal)
    (hdyn : ∀ tag, NoPanic (DynBT.unmarshal tag)) (hsn : ∀ tag, NoPanic (cx.unmarshal tag)) (hold : Good ty old)
    (s : Stream) : (fieldRead cx allow ty old s).1 ≠ Res.panic := by
  have := decodeInto_noPanic cx true (!allow) ty old hdyn hsn hold s
  unfold fieldRead
  rcases h : decodeInto cx true (!allow) ty old s with ⟨r, s'⟩
  rw [h] at this
  cases r with
  | ok a => simp
  | err => simp only; split <;> simp
  | panic => exact absurd rfl this

/-- any closed property that holds for a crash and the foreign carriers holds for `decodeInto` at a fixed fuel -/
theorem fragInv_decodeInto (cx : SnbtCarrier) (hdyn : ∀ tag, Rd.FragInv (DynBT.unmarshal tag))
    (hsn : ∀ tag, Rd.FragInv (cx.unmarshal tag)) (network disallow : Bool) (ty : GoType) (old : GoVal) :
    Rd.FragInv (decodeInto cx network disallow ty old) := by
  intro s t h
  have hf : typedFuel s ty old = typedFuel t ty old := by unfold typedFuel fuelFor; rw [h.1]
  unfold decodeInto
  rw [hf]
  have hh := closed_readHead closed_fragInv network
  have hu := closedC_typed closed_fragInv Rd.fragInv_crash cx disallow hdyn hsn (typedFuel t ty old)
  exact (closed_fragInv.bind hh (fun x => by
    obtain ⟨tg, nm⟩ := x
    exact closed_fragInv.bind (hu ty old tg) (fun _ => closed_fragInv.pure _))) s t h

/-- `NBTField.ReadFrom` is fragmentation invariant: same value, same count, same bytes left, however the source
delivers its bytes -/
theorem fieldRead_fragInv (cx : SnbtCarrier) (hdyn : ∀ tag, Rd.FragInv (DynBT.unmarshal tag))
    (hsn : ∀ tag, Rd.FragInv (cx.unmarshal tag)) (allow : Bool) (ty : GoType) (old : GoVal) :
    Rd.FragInv (fieldRead cx allow ty old) := by
  intro s t h
  have hd := fragInv_decodeInto cx hdyn hsn true (!allow) ty old s t h
  unfold fieldRead
  rcases h1 : decodeInto cx true (!allow) ty old s with ⟨r1, s1⟩
  rcases h2 : decodeInto cx true (!allow) ty old t with ⟨r2, s2⟩
  rw [h1, h2] at hd
  simp only at hd
  obtain ⟨hr, he⟩ := hd
  subst hr
  cases r1 with
  | ok a => simp only; rw [h.1, he.1]; exact ⟨rfl, he⟩
  | err =>
    simp only
    rw [h.1]
    split
    · rw [he.1]; exact ⟨rfl, he⟩
    · exact ⟨rfl, he⟩
  | panic => exact ⟨rfl, he⟩

/-- the count `NBTField.ReadFrom` returns is the number of bytes it consumed, and what is left is what followed them -/
theorem fieldRead_count (cx : SnbtCarrier) (hdyn : ∀ tag, Suffix (DynBT.unmarshal tag)) (hsn : ∀ tag, Suffix (cx.unmarshal tag))
    (allow : Bool) (ty : GoType) (old : GoVal) (s s' : Stream) (v : GoVal) (n : Nat)
    (h : fieldRead cx allow ty old s = (Res.ok (v, n), s')) :
    n ≤ s.flat.length ∧ s'.flat = s.flat.drop n ∧ s'.failing = s.failing := by
  have hsuf : Suffix (decodeInto cx true (!allow) ty old) := by
    intro u
    unfold decodeInto
    have hh := closed_readHead closed_suffix true
    have hu := closedC_typed closed_suffix suffix_crash cx (!allow) hdyn hsn (typedFuel u ty old)
    exact (closed_suffix.bind hh (fun x => by
      obtain ⟨tg, nm⟩ := x
      exact closed_suffix.bind (hu ty old tg) (fun _ => closed_suffix.pure _))) u
  obtain ⟨k, hk, hfl, hfa⟩ := hsuf s
  unfold fieldRead at h
  rcases hd : decodeInto cx true (!allow) ty old s with ⟨r, s1⟩
  rw [hd] at h hfl hfa
  simp only at hfl hfa
  have hlen : s.flat.length - s1.flat.length = k := by rw [hfl, List.length_drop]; omega
  cases r with
  | ok a =>
    simp only [Prod.mk.injEq, Res.ok.injEq] at h
    obtain ⟨⟨_, hn⟩, hs⟩ := h
    subst hs
    rw [← hn, hlen]
    exact ⟨hk, hfl, hfa⟩
  | err =>
    simp only at h
    split at h
    · simp only [Prod.mk.injEq, Res.ok.injEq] at h
      obtain ⟨⟨_, hn⟩, hs⟩ := h
      subst hs
      rw [← hn, hlen]
      exact ⟨hk, hfl, hfa⟩
    · simp at h
  | panic => simp at h

/-- round-trip glue: if `Encode(v, "")` in network format gives `bs`, and `Decode` of `bs ++ rest` into a fresh
variable of the type gives `v'` and leaves `rest`, then `NBTField{V: v}.WriteTo` writes `bs` and reports
`len(bs)`, and `NBTField{V: &fresh}.ReadFrom` on `bs ++ rest` stores `v'`, reports `len(bs)` and leaves `rest` -/
theorem field_roundtrip (cx : SnbtCarrier) (allow : Bool) (ty : GoType) (v v' : GoVal) (bs rest name : Bytes)
    (s s' : Stream) (henc : encode cx true [] (some v) = Res.ok bs) (hs : s.flat = bs ++ rest)
    (hdec : decodeTyped cx true (!allow) ty s = (Res.ok (v', name), s')) (hrest : s'.flat = rest) :
    fieldWrite cx (some v) = Res.ok (bs, bs.length) ∧
    fieldRead cx allow ty ty.zero s = (Res.ok (v', bs.length), s') := by
  refine ⟨by simp [fieldWrite, henc], ?_⟩
  have hd : decodeInto cx true (!allow) ty ty.zero s = (Res.ok (v', name), s') := hdec
  unfold fieldRead
  rw [hd]
  simp only [hs, hrest, List.length_append]
  have : bs.length + rest.length - rest.length = bs.length := by omega
  rw [this]

/-- a nil `V` writes the single byte TagEnd, and reading that byte back stores nothing and reports one byte -/
theorem field_nil (cx : SnbtCarrier) : fieldWrite cx none = Res.ok ([0#8], 1) := rfl

/-- `NBTField.WriteTo` never panics -/
theorem fieldWrite_noPanic (cx : SnbtCarrier) (hsn : ∀ s, cx.marshal s ≠ Res.panic) (v : Option GoVal) :
    fieldWrite cx v ≠ Res.panic := by
  unfold fieldWrite
  cases v with
  | none => simp
  | some x =>
    simp only
    have := encodeF_noPanic cx hsn (2 * x.encFuel + 8) true [] (some x)
    unfold encode
    split
    · simp
    · simp
    · rename_i h; exact absurd h this

end GoMC.Lemmas.NBTField
