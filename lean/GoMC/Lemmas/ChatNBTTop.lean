/-
  C17 stage 2, top level: `Message.WriteTo` / `(*Message).ReadFrom` as a packet-field codec (`rt_msgCodecFresh`), the
  NBT form is a well-formed value (`wf_msg`), strings the JSON coercion leaves alone (`norm_fix`), closure of the
  decoder under every `Closed` property that holds of a crash (`closed_chatUm`: `FragInv`, `ExtStable`), the
  bare-string and list shapes.
-/
import GoMC.Lemmas.ChatNBT
import GoMC.Lemmas.ChatType
import GoMC.Lemmas.NBT
set_option linter.unusedSimpArgs false
namespace GoMC.Lemmas.ChatNBT
open GoMC GoMC.Rd GoMC.Spec GoMC.Model GoMC.Model.NBT GoMC.Model.Go GoMC.Model.ChatNBT GoMC.Lemmas.NBTDecode GoMC.Lemmas.NBTTyped
open GoMC.Spec (NBT encPayload encList encKvs encString)

theorem rt_msgCodecFresh : GoMC.Lemmas.RT msgCodecFresh NbtOK (fun d v => d = Chat.norm id v) := by
  intro v d s rest hv hs
  have henc : (msgCodecFresh.enc v) = (10 :: encPayload (nbtForm v), (encPayload (nbtForm v)).length + 1) := by
    simp [msgCodecFresh, writeTo_ok v hv]
  rw [henc] at hs ⊢
  obtain ⟨s', h1, h2, h3⟩ := readFrom_ok v hv messageTy.zero rfl s rest (by simpa using hs)
  refine ⟨Chat.norm id v, s', ?_, rfl, h2, h3⟩
  show (readFromInto messageTy.zero >>= fun x => match ofGo x.1 with
    | some m => (Pure.pure (m, x.2) : Rd (Msg × Nat))
    | none => Rd.fail) s = _
  rw [Rd.bind_ok h1]
  simp only [ofGo_norm v hv]
  simp

/-! ### the form is a well-formed NBT value -/

theorem wfKvs_append (a b : List (Bytes × NBT)) : NBT.WFKvs (a ++ b) ↔ NBT.WFKvs a ∧ NBT.WFKvs b := by
  induction a with
  | nil => simp [NBT.WFKvs]
  | cons kv r ih => obtain ⟨k, v⟩ := kv; simp [NBT.WFKvs, ih, and_assoc]

theorem wf_optS (k s : Bytes) (hk : k.length < 2 ^ 16) (hs : shortStr s) : NBT.WFKvs (optS k s) := by
  unfold optS; unfold shortStr at hs; split <;> simp [NBT.WFKvs, NBT.WF, hk]; omega
theorem wf_optB (k : Bytes) (b : Bool) (hk : k.length < 2 ^ 16) : NBT.WFKvs (optB k b) := by
  unfold optB; cases b <;> simp [NBT.WFKvs, NBT.WF, hk]

theorem wfList_strs (ss : List Bytes) (h : ∀ s ∈ ss, s.length < 32768) : NBT.WFList NBT.tagString (ss.map NBT.string) := by
  induction ss with
  | nil => simp [NBT.WFList]
  | cons s r ih =>
    have := h s (by simp)
    simp only [List.map_cons, NBT.WFList, NBT.tag, NBT.WF, true_and]
    exact ⟨by omega, ih (fun x hx => h x (by simp [hx]))⟩

theorem wfList_forms (ms : List Msg) (h : ∀ m ∈ ms, (nbtForm m).WF) : NBT.WFList NBT.tagCompound (ms.map nbtForm) := by
  induction ms with
  | nil => simp [NBT.WFList]
  | cons m r ih =>
    simp only [List.map_cons, NBT.WFList]
    exact ⟨nbtForm_tag m, h m (by simp), ih (fun x hx => h x (by simp [hx]))⟩

theorem wf_text (s : Bytes) (hs : s.length < 32768) : (nbtForm (Msg.ofText s)).WF := by
  rw [nbtForm_ofText]; simp [NBT.WF, NBT.WFKvs, kText]; omega

theorem wf_step (text : Bytes) (bold italic underlined strikethrough obfuscated : Bool) (font color insertion : Bytes)
    (click : Option Click) (hover : Option (Bytes × JSON × Msg)) (translate : Bytes) (args : List (Msg ⊕ Bytes)) (extra : List Msg)
    (hok : NbtOK ⟨text, bold, italic, underlined, strikethrough, obfuscated, font, color, insertion, click, hover, translate, args, extra⟩)
    (hh : ∀ a c v, hover = some (a, c, v) → (nbtForm v).WF) (ha : ∀ m ∈ argMsgs args, (nbtForm m).WF)
    (hx : ∀ m ∈ extra, (nbtForm m).WF) :
    (nbtForm ⟨text, bold, italic, underlined, strikethrough, obfuscated, font, color, insertion, click, hover, translate, args, extra⟩).WF := by
  rw [NbtOK.eq_def] at hok
  simp only at hok
  obtain ⟨h1, h2, h3, h4, h5, h6, h7, h9, h8, h11, h10⟩ := hok
  rw [nbtForm.eq_def]
  simp only [NBT.WF, wfKvs_append]
  refine ⟨⟨⟨⟨⟨⟨⟨⟨⟨⟨⟨⟨⟨?_, ?_⟩, ?_⟩, ?_⟩, ?_⟩, ?_⟩, ?_⟩, ?_⟩, ?_⟩, ?_⟩, ?_⟩, ?_⟩, ?_⟩, ?_⟩
  · split
    · exact wf_optS _ _ (by decide) h1
    · unfold shortStr at h1; simp [NBT.WFKvs, NBT.WF, kText]; omega
  · exact wf_optB _ _ (by decide)
  · exact wf_optB _ _ (by decide)
  · exact wf_optB _ _ (by decide)
  · exact wf_optB _ _ (by decide)
  · exact wf_optB _ _ (by decide)
  · exact wf_optS _ _ (by decide) h2
  · exact wf_optS _ _ (by decide) h3
  · exact wf_optS _ _ (by decide) h4
  · cases click with
    | none => simp [clickForm, NBT.WFKvs]
    | some cl =>
      unfold shortStr at h6
      simp [clickForm, NBT.WFKvs, NBT.WF, kClickEvent, kAction, kValue]; omega
  · cases hover with
    | none => simp [hoverForm, NBT.WFKvs]
    | some hv =>
      obtain ⟨a, c, v⟩ := hv
      have := hh a c v rfl
      have ha' : a.length < 32768 := h7.1
      have k1 : kHoverEvent.length < 2 ^ 16 := by decide
      have k2 : kAction.length < 2 ^ 16 := by decide
      have k3 : kValue.length < 2 ^ 16 := by decide
      simp only [hoverForm, NBT.WFKvs, NBT.WF, this, and_true, k1, k2, k3, true_and]
      omega
  · exact wf_optS _ _ (by decide) h5
  · cases args with
    | nil => simp [withForm, NBT.WFKvs]
    | cons x xs =>
      simp only [withForm, NBT.WFKvs, and_true]
      refine ⟨by decide, ?_⟩
      by_cases hall : (x :: xs).all isStrArg = true
      · simp only [hall, if_true, NBT.WF, strForms_eq, List.length_map]
        refine ⟨by rw [strsOf_len _ hall]; exact h9, Or.inr (by decide), by decide, wfList_strs _ (strsOf_short _ h8)⟩
      · simp only [hall, Bool.false_eq_true, if_false, NBT.WF, argForms_eq, List.length_map]
        exact ⟨by rw [argMsgs_len]; exact h9, Or.inr (by decide), by decide, wfList_forms _ ha⟩
  · cases extra with
    | nil => simp [extraForm, NBT.WFKvs]
    | cons x xs =>
      simp only [extraForm, NBT.WFKvs, and_true, NBT.WF, formList_eq, List.length_map]
      exact ⟨by decide, h11, Or.inr (by decide), by decide, wfList_forms _ hx⟩

mutual
  theorem wf_msg : ∀ m : Msg, NbtOK m → (nbtForm m).WF
    | ⟨text, bold, italic, underlined, strikethrough, obfuscated, font, color, insertion, click, none, translate, args, extra⟩, h => by
      have h' := h
      rw [NbtOK.eq_def] at h'
      simp only at h'
      exact wf_step _ _ _ _ _ _ _ _ _ _ _ _ _ _ h (by intro _ _ _ hh; cases hh)
        (wf_args args h'.2.2.2.2.2.2.2.2.1) (wf_list extra h'.2.2.2.2.2.2.2.2.2.2)
    | ⟨text, bold, italic, underlined, strikethrough, obfuscated, font, color, insertion, click, some (hact, hcon, hval), translate, args, extra⟩, h => by
      have h' := h
      rw [NbtOK.eq_def] at h'
      simp only at h'
      have hv := wf_msg hval h'.2.2.2.2.2.2.1.2.2
      exact wf_step _ _ _ _ _ _ _ _ _ _ _ _ _ _ h (by intro _ _ _ hh; cases hh; exact hv)
        (wf_args args h'.2.2.2.2.2.2.2.2.1) (wf_list extra h'.2.2.2.2.2.2.2.2.2.2)
  theorem wf_args : ∀ args : List (Msg ⊕ Bytes), NbtOKArgs args → ∀ m ∈ argMsgs args, (nbtForm m).WF
    | [], _ => by intro m hm; cases hm
    | .inl x :: r, h => by
      rw [NbtOKArgs] at h
      intro m hm
      simp only [argMsgs, List.mem_cons] at hm
      rcases hm with he | hm
      · rw [he]; exact wf_msg x h.1
      · exact wf_args r h.2 m hm
    | .inr s :: r, h => by
      rw [NbtOKArgs] at h
      intro m hm
      simp only [argMsgs, List.mem_cons] at hm
      rcases hm with he | hm
      · rw [he]; exact wf_text s h.1
      · exact wf_args r h.2 m hm
  theorem wf_list : ∀ xs : List Msg, NbtOKList xs → ∀ m ∈ xs, (nbtForm m).WF
    | [], _ => by intro m hm; cases hm
    | x :: r, h => by
      rw [NbtOKList] at h
      intro m hm
      simp only [List.mem_cons] at hm
      rcases hm with he | hm
      · rw [he]; exact wf_msg x h.1
      · exact wf_list r h.2 m hm
end

/-! ### both forms: strings that the JSON coercion leaves alone -/

mutual
  /-- `san` fixes every string of the component (for `utf8Sanitize`: every string is valid UTF-8) -/
  def StrFix (san : Bytes → Bytes) : Msg → Prop
    | ⟨text, _, _, _, _, _, font, color, insertion, click, hover, translate, args, extra⟩ =>
      san text = text ∧ san font = font ∧ san color = color ∧ san insertion = insertion ∧ san translate = translate
      ∧ (match click with
         | none => True
         | some c => san c.action = c.action ∧ san c.value = c.value)
      ∧ (match hover with
         | none => True
         | some (a, _, v) => san a = a ∧ StrFix san v)
      ∧ StrFixArgs san args ∧ StrFixList san extra
  def StrFixArgs (san : Bytes → Bytes) : List (Msg ⊕ Bytes) → Prop
    | [] => True
    | .inl m :: r => StrFix san m ∧ StrFixArgs san r
    | .inr s :: r => san s = s ∧ StrFixArgs san r
  def StrFixList (san : Bytes → Bytes) : List Msg → Prop
    | [] => True
    | m :: r => StrFix san m ∧ StrFixList san r
end

mutual
  theorem norm_fix (san : Bytes → Bytes) : ∀ m : Msg, StrFix san m → Chat.norm san m = Chat.norm id m
    | ⟨text, bold, italic, underlined, strikethrough, obfuscated, font, color, insertion, click, none, translate, args, extra⟩, h => by
      rw [StrFix.eq_def] at h
      simp only at h
      obtain ⟨h1, h2, h3, h4, h5, h6, _, h8, h9⟩ := h
      rw [Chat.norm.eq_def, Chat.norm.eq_def]
      simp only [id, h1, h2, h3, h4, h5, normArgs_fix san args h8, normList_fix san extra h9]
      cases click with
      | none => rfl
      | some c => simp only at h6; simp [Chat.normClick, h6.1, h6.2]
    | ⟨text, bold, italic, underlined, strikethrough, obfuscated, font, color, insertion, click, some (a, c, v), translate, args, extra⟩, h => by
      rw [StrFix.eq_def] at h
      simp only at h
      obtain ⟨h1, h2, h3, h4, h5, h6, h7, h8, h9⟩ := h
      rw [Chat.norm.eq_def, Chat.norm.eq_def]
      simp only [id, h1, h2, h3, h4, h5, normArgs_fix san args h8, normList_fix san extra h9, h7.1, norm_fix san v h7.2]
      cases click with
      | none => rfl
      | some c => simp only at h6; simp [Chat.normClick, h6.1, h6.2]
  theorem normArgs_fix (san : Bytes → Bytes) : ∀ args : List (Msg ⊕ Bytes), StrFixArgs san args →
      Chat.normArgs san args = Chat.normArgs id args
    | [], _ => by simp [Chat.normArgs]
    | .inl m :: r, h => by
      rw [StrFixArgs] at h
      rw [Chat.normArgs, Chat.normArgs, norm_fix san m h.1, normArgs_fix san r h.2]
    | .inr s :: r, h => by
      rw [StrFixArgs] at h
      rw [Chat.normArgs, Chat.normArgs, h.1, normArgs_fix san r h.2]; rfl
  theorem normList_fix (san : Bytes → Bytes) : ∀ xs : List Msg, StrFixList san xs → Chat.normList san xs = Chat.normList id xs
    | [], _ => by simp [Chat.normList]
    | m :: r, h => by
      rw [StrFixList] at h
      rw [Chat.normList, Chat.normList, norm_fix san m h.1, normList_fix san r h.2]
end

/-! ### closure: what holds of the primitives and of a crash holds of the chat decoder -/

section
variable {P : ∀ {α : Type}, Rd α → Prop} (hP : Closed P)
include hP

theorem closed_msgUm (hc : ∀ {α : Type}, P (Rd.crash : Rd α)) (rec : Rec) (hr : ∀ a b c, P (rec a b c))
    (f : Nat) (old : GoVal) (tag : Byte) : P (msgUm rec f old tag) := by
  unfold msgUm
  split
  · rw [unread_readHead]; exact hP.bind (hr _ _ _) (fun _ => hP.pure _)
  · rw [unread_readHead]
    exact hP.bind (closed_umStruct hP hc rec hr _ _ _ _ _ _) (fun _ => hP.pure _)
  · rw [unread_readHead]; exact hP.bind (hr _ _ _) (fun _ => hP.pure _)
  · exact hP.fail

theorem closed_argsUm (rec : Rec) (hr : ∀ a b c, P (rec a b c)) (old : GoVal) (tag : Byte) : P (argsUm rec old tag) := by
  unfold argsUm
  split
  · rw [unread_readHead]; exact hP.bind (hr _ _ _) (fun _ => hP.pure _)
  · rw [unread_readHead]; exact hP.bind (hr _ _ _) (fun _ => hP.pure _)
  · rw [unread_readHead]; exact hP.bind (hr _ _ _) (fun _ => hP.pure _)
  · rw [unread_readHead]; exact hP.bind (hr _ _ _) (fun _ => hP.pure _)
  · exact hP.fail

theorem closed_chatUm (hc : ∀ {α : Type}, P (Rd.crash : Rd α)) (hdyn : ∀ tag, P (DynBT.unmarshal tag)) (f : Nat) :
    ∀ ty old tag, P (chatUm f ty old tag) := by
  induction f with
  | zero => intro ty old tag; unfold chatUm; exact hP.fail
  | succ f ih =>
    intro ty old tag
    unfold chatUm
    split
    · exact closed_msgUm hP hc _ ih _ _ _
    · split
      · exact closed_argsUm hP _ ih _ _
      · split
        · exact closed_umCarrier hP cx0 hdyn (fun _ => hP.fail) _ _ _
        · exact closed_umCarrier hP cx0 hdyn (fun _ => hP.fail) _ _ _
        · exact closed_umCarrier hP cx0 hdyn (fun _ => hP.fail) _ _ _
        · exact closed_umPtr hP _ ih _ _ _
        · exact closed_umIface hP _ ih _ _ _
        · exact closed_umBool hP _
        · exact closed_umInt hP _ _
        · exact closed_umF32 hP _
        · exact closed_umF64 hP _
        · exact closed_umStr hP _
        · exact closed_umSlice hP _ ih _ _ _
        · exact closed_umArray hP _ ih _ _ _ _
        · exact closed_umMap hP _ ih _ _ _ _
        · exact closed_umStruct hP hc _ ih _ _ _ _ _ _
end

/-- the reader `ReadFrom` wraps: root tag, then the hook -/
def readBody (fuel : Nat) (old : GoVal) : Rd GoVal := do
  let (t, _) ← NBT.readHead true
  chatUm fuel messageTy old t

theorem readFromIntoF_eq (fuel : Nat) (old : GoVal) (s : Stream) :
    readFromIntoF fuel old s = match readBody fuel old s with
      | (.ok v, s') => (.ok (v, s.flat.length - s'.flat.length), s')
      | (.err, s') => (.err, s')
      | (.panic, s') => (.panic, s') := rfl

theorem fragInv_readBody (hdyn : ∀ tag, Rd.FragInv (DynBT.unmarshal tag)) (fuel : Nat) (old : GoVal) :
    Rd.FragInv (readBody fuel old) := by
  unfold readBody
  exact closed_fragInv.bind (closed_readHead closed_fragInv true) (fun x => by
    obtain ⟨t, n⟩ := x
    exact closed_chatUm closed_fragInv Rd.fragInv_crash hdyn fuel _ _ _)

/-- **Fragmentation invariance of `ReadFrom`**: same value, same count, same bytes left, however the source
delivers its bytes -/
theorem fragInv_readFromInto (hdyn : ∀ tag, Rd.FragInv (DynBT.unmarshal tag)) (old : GoVal) :
    Rd.FragInv (readFromInto old) := by
  intro s t h
  have hf : chatFuel s = chatFuel t := by unfold chatFuel; rw [h.1]
  unfold readFromInto
  rw [hf, readFromIntoF_eq, readFromIntoF_eq]
  have hd := fragInv_readBody hdyn (chatFuel t) old s t h
  rcases h1 : readBody (chatFuel t) old s with ⟨r1, s1⟩
  rcases h2 : readBody (chatFuel t) old t with ⟨r2, s2⟩
  rw [h1, h2] at hd
  simp only at hd
  obtain ⟨hr, he⟩ := hd
  subst hr
  cases r1 with
  | ok a => simp only; rw [h.1, he.1]; exact ⟨rfl, he⟩
  | err => exact ⟨rfl, he⟩
  | panic => exact ⟨rfl, he⟩

theorem extStable_readBody (hdyn : ∀ tag, Rd.ExtStable (DynBT.unmarshal tag)) (fuel : Nat) (old : GoVal) :
    Rd.ExtStable (readBody fuel old) := by
  unfold readBody
  exact closed_extStable.bind (closed_readHead closed_extStable true) (fun x => by
    obtain ⟨t, n⟩ := x
    exact closed_chatUm closed_extStable Rd.extStable_crash hdyn fuel _ _ _)

/-- **A successful `ReadFrom` does not depend on what follows the bytes it consumed** (at a given fuel): same value,
same count, and what followed is still there -/
theorem extStable_readFromIntoF (hdyn : ∀ tag, Rd.ExtStable (DynBT.unmarshal tag)) (fuel : Nat) (old : GoVal) :
    Rd.ExtStable (readFromIntoF fuel old) := by
  intro s a s' hp t extra ht
  rw [readFromIntoF_eq] at hp
  rcases h1 : readBody fuel old s with ⟨r1, s1⟩
  rw [h1] at hp
  cases r1 with
  | ok v =>
    simp only [Prod.mk.injEq, Res.ok.injEq] at hp
    obtain ⟨ha, hs⟩ := hp
    subst hs
    obtain ⟨t', h2, h3, h4⟩ := extStable_readBody hdyn fuel old s v s1 h1 t extra ht
    refine ⟨t', ?_, h3, h4⟩
    rw [readFromIntoF_eq, h2]
    simp only [Prod.mk.injEq, Res.ok.injEq, and_true]
    rw [← ha, ht, h3]
    simp only [List.length_append]
    congr 1
    omega
  | err => simp at hp
  | panic => simp at hp


/-! ### the other two shapes -/

/-- a bare TAG_String is the text -/
theorem readFrom_string (str : Bytes) (hs : str.length < 32768) (old : GoVal) (hold : asMsg old = messageTy.zero)
    (s : Stream) (rest : Bytes) (hfl : s.flat = 8 :: encString str ++ rest) :
    ∃ s', readFromInto old s = (.ok (goOf (Msg.ofText str), (encString str).length + 1), s') ∧ s'.flat = rest
      ∧ s'.failing = s.failing := by
  have hR : R True (readBody (chatFuel s) old) ([8] ++ encString str) (goOf (Msg.ofText str)) := by
    unfold readBody
    apply R_bind (a := ((8 : Byte), ([] : Bytes)))
    · unfold NBT.readHead
      simp only [if_true]
      exact R_map (fun t => (t, ([] : Bytes))) (R_readByte True 8)
    · have e : chatFuel s = (3 * s.flat.length + 14) + 2 := by unfold chatFuel; omega
      rw [e]
      exact R_strElem True _ messageTy old str rfl hold hs
  rcases hR s rest (by simpa using hfl) with ⟨s', h1, h2, h3⟩ | ⟨hn, _⟩
  · refine ⟨s', ?_, h2, h3⟩
    unfold readFromInto
    rw [readFromIntoF_eq, h1]
    simp only [hfl, h2, List.length_cons, List.length_append]
    congr 3
    omega
  · exact absurd trivial hn

/-- a TAG_List of components is the extras of an empty component -/
theorem readFrom_list (ms : List Msg) (hok : NbtOKList ms) (hlen : ms.length < 2 ^ 31) (old : GoVal)
    (hold : asMsg old = messageTy.zero) (s : Stream) (rest : Bytes)
    (hfl : s.flat = 9 :: encPayload (NBT.list NBT.tagCompound (formList ms)) ++ rest) :
    ∃ s', readFromInto old s = (.ok (setAt messageTy.zero 13 (.slice msgPH false (goList (Chat.normList id ms))),
        (encPayload (NBT.list NBT.tagCompound (formList ms))).length + 1), s') ∧ s'.flat = rest ∧ s'.failing = s.failing := by
  have hdec := dec_list ms hok
  have hpl : ∀ m ∈ ms, (encPayload (nbtForm m)).length ≤ (encList (formList ms)).length := by
    intro m hm
    exact mem_encList_le (by rw [formList_eq]; exact List.mem_map.mpr ⟨m, hm, rfl⟩)
  have hR : R True (readBody (chatFuel s) old) ([9] ++ encPayload (NBT.list NBT.tagCompound (formList ms)))
      (setAt messageTy.zero 13 (.slice msgPH false (goList (Chat.normList id ms)))) := by
    unfold readBody
    apply R_bind (a := ((9 : Byte), ([] : Bytes)))
    · unfold NBT.readHead
      simp only [if_true]
      exact R_map (fun t => (t, ([] : Bytes))) (R_readByte True 9)
    · have e : chatFuel s = (3 * s.flat.length + 13) + 1 + 1 + 1 := by unfold chatFuel; omega
      rw [e]
      show R True (chatUm (3 * s.flat.length + 13 + 1 + 1 + 1) messageTy old 9) _ _
      rw [chatUm_msg _ messageTy old 9 rfl]
      unfold msgUm
      simp only [show (9 : Byte).toNat = 9 from rfl, hold]
      rw [unread_readHead]
      simp only
      rw [goList_norm, formList_eq]
      have hR := R_msgSlice True (3 * s.flat.length + 13 + 1) NBT.tagCompound ms (fun m => encPayload (nbtForm m))
        (fun m => goOf (Chat.norm id m)) (fieldAt messageTy.zero 13) (by decide) hlen (Or.inl (by decide))
        (fun m hm => hdec m hm _ msgPH msgPH.zero (by
          have h1 := mdepth_le_plen m
          have h2 := hpl m hm
          unfold plen at h1
          unfold need
          rw [hfl]
          simp only [encPayload, List.length_cons, List.length_append]
          omega) rfl rfl)
      refine R_enc ?_ (R_map (fun x => setAt messageTy.zero 13 x) hR)
      simp [encPayload, encList_eq_flatten, NBT.tagCompound, Function.comp_def]
  rcases hR s rest (by simpa using hfl) with ⟨s', h1, h2, h3⟩ | ⟨hn, _⟩
  · refine ⟨s', ?_, h2, h3⟩
    unfold readFromInto
    rw [readFromIntoF_eq, h1]
    simp only [hfl, h2, List.length_cons, List.length_append]
    congr 3
    omega
  · exact absurd trivial hn

end GoMC.Lemmas.ChatNBT
