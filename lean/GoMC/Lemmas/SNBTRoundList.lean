/-
  C04_roundtrip, lists: the `writeListOrArray` / `compLoop` level statements (`WLSpec`, `CLSpec`) that the list loops
  call directly, their instances for typed arrays and compounds, and the closure rules for lists of literals, lists of
  lists/arrays and lists of compounds.
-/
import GoMC.Lemmas.SNBTRoundComp
namespace GoMC.Model.SNBT
open GoMC Scanner DState Spec

/-- exact behaviour of `writeListOrArray` on the text `[` ++ `w'` of a list or array, called right after the `[`:
returns the tag type, the header and payload, and leaves `decodeState` after the byte that follows the `]` -/
def WLSpec (fo : FloatOracle) (w' : Bytes) (tt : Byte) (payload : Bytes) (dep need : Nat) : Prop :=
  ∀ (pre k : Bytes) (s : Scanner) (o : Op) (ifw : Bool) (name : Bytes) (f : Nat),
    s.err = false → s.endTop = false → s.stack.length + 1 + dep ≤ maxNestingDepth + 1 → need ≤ f →
    writeListOrArray fo f (DState.mk (pre ++ 91 :: w' ++ k) (pre.length + 1) o
        { s with st := .listOrArray, stack := .listValue :: s.stack }) ifw name =
      .ok (DState.mk (pre ++ 91 :: w' ++ k) (pre.length + (91 :: w').length + 1) (finish s k).2 (finish s k).1,
           tt, hdr ifw tt name ++ payload)

/-- exact behaviour of `writeCompoundPayload` (`compLoop`) on `{` ++ `w'`, called right after the `{` -/
def CLSpec (fo : FloatOracle) (w' : Bytes) (payload : Bytes) (dep need : Nat) : Prop :=
  ∀ (pre k : Bytes) (s : Scanner) (o : Op) (acc : Bytes) (f : Nat),
    s.err = false → s.endTop = false → s.stack.length + 1 + dep ≤ maxNestingDepth + 1 → need ≤ f →
    compLoop fo f (DState.mk (pre ++ 123 :: w' ++ k) (pre.length + 1) o
        { s with st := .compoundOrEmpty, stack := .compoundName :: s.stack }) acc =
      .ok (DState.mk (pre ++ 123 :: w' ++ k) (pre.length + (123 :: w').length + 1) (finish s k).2 (finish s k).1,
           acc ++ payload)

theorem array_wl (fo : FloatOracle) (x et tt : Byte)
    (hx : (x = 66 ∧ et = tagByte ∧ tt = tagByteArray) ∨ (x = 73 ∧ et = tagInt ∧ tt = tagIntArray) ∨
          (x = 76 ∧ et = tagLong ∧ tt = tagLongArray))
    (elems : List (Bytes × Bytes)) (hel : ∀ e ∈ elems, ArrEl fo et e.1 e.2) :
    WLSpec fo ([x, 59] ++ joinElems (elems.map (fun e : Bytes × Bytes => e.1)) ++ [93]) tt
      (beBytes 4 elems.length ++ (elems.map (fun e : Bytes × Bytes => e.2)).flatten) 0 (elems.length + 2) := by
  intro pre k s o ifw name f he ht _ hf
  obtain ⟨f, rfl⟩ : ∃ f', f = f' + 2 := ⟨f - 2, by omega⟩
  generalize hJ : joinElems (elems.map (fun e : Bytes × Bytes => e.1)) = J
  have hD : pre ++ 91 :: ([x, 59] ++ J ++ [93]) ++ k = pre ++ 91 :: x :: 59 :: (J ++ 93 :: k) := by simp
  rw [hD]
  have hxx : x = 66 ∨ x = 73 ∨ x = 76 := by rcases hx with h | h | h <;> simp [h.1]
  unfold writeListOrArray
  dsimp only
  have e1 := step_la_BIL { s with st := .listOrArray, stack := .listValue :: s.stack } rfl x hxx
  have hs2 : scanWhile .skipSpace (DState.mk (pre ++ 91 :: x :: 59 :: (J ++ 93 :: k)) (pre.length + 1) o
        { s with st := .listOrArray, stack := .listValue :: s.stack }) =
      DState.mk (pre ++ 91 :: x :: 59 :: (J ++ 93 :: k)) (pre.length + 2) .beginLiteral
        { s with st := .listOrArrayT, stack := .listValue :: s.stack } := by
    unfold scanWhile
    have : (pre ++ 91 :: x :: 59 :: (J ++ 93 :: k)).drop (pre.length + 1) = x :: 59 :: (J ++ 93 :: k) := by
      have : pre ++ 91 :: x :: 59 :: (J ++ 93 :: k) = (pre ++ [91]) ++ x :: 59 :: (J ++ 93 :: k) := by simp
      rw [this]
      have hl : pre.length + 1 = (pre ++ [91]).length := by simp
      rw [hl, List.drop_left]
    dsimp only
    rw [this, scanLoop_stop _ _ _ _ _ _ (by rw [e1]; simp), e1]
  rw [hs2]
  simp only [show (Op.beginLiteral == Op.endValue) = false by decide, Bool.false_eq_true, if_false]
  -- the array prefix `X;`
  have e2 := step_lat_semicolon { s with st := .listOrArrayT, stack := .listValue :: s.stack } rfl
  have hrl : readLiteral (DState.mk (pre ++ 91 :: x :: 59 :: (J ++ 93 :: k)) (pre.length + 2) .beginLiteral
        { s with st := .listOrArrayT, stack := .listValue :: s.stack }) =
      .ok (DState.mk (pre ++ 91 :: x :: 59 :: (J ++ 93 :: k)) (pre.length + 3) .listType
        { s with st := .arrayT, stack := .listValue :: s.stack }, [x]) := by
    unfold readLiteral
    dsimp only
    have hsc : scanWhile .cont (DState.mk (pre ++ 91 :: x :: 59 :: (J ++ 93 :: k)) (pre.length + 2) .beginLiteral
          { s with st := .listOrArrayT, stack := .listValue :: s.stack }) =
        DState.mk (pre ++ 91 :: x :: 59 :: (J ++ 93 :: k)) (pre.length + 3) .listType
          { s with st := .arrayT, stack := .listValue :: s.stack } := by
      unfold scanWhile
      have : (pre ++ 91 :: x :: 59 :: (J ++ 93 :: k)).drop (pre.length + 2) = 59 :: (J ++ 93 :: k) := by
        have : pre ++ 91 :: x :: 59 :: (J ++ 93 :: k) = (pre ++ [91, x]) ++ 59 :: (J ++ 93 :: k) := by simp
        rw [this]
        have hl : pre.length + 2 = (pre ++ [91, x]).length := by simp
        rw [hl, List.drop_left]
      dsimp only
      rw [this, scanLoop_stop _ _ _ _ _ _ (by rw [e2]; simp), e2]
    rw [hsc]
    dsimp only
    simp only [show (Op.listType == Op.error) = false by decide, Bool.false_eq_true, if_false]
    have hsl : (DState.mk (pre ++ 91 :: x :: 59 :: (J ++ 93 :: k)) (pre.length + 3) .listType
          { s with st := .arrayT, stack := .listValue :: s.stack }).slice
          (DState.mk (pre ++ 91 :: x :: 59 :: (J ++ 93 :: k)) (pre.length + 2) .beginLiteral
            { s with st := .listOrArrayT, stack := .listValue :: s.stack }).readIndex
          (DState.mk (pre ++ 91 :: x :: 59 :: (J ++ 93 :: k)) (pre.length + 3) .listType
            { s with st := .arrayT, stack := .listValue :: s.stack }).readIndex = some [x] := by
      unfold DState.slice DState.readIndex
      dsimp only
      have h1 : pre.length + 2 - 1 = pre.length + 1 := by omega
      have h2 : pre.length + 3 - 1 = pre.length + 2 := by omega
      rw [h1, h2, if_pos (by simp)]
      congr 1
      have : pre ++ 91 :: x :: 59 :: (J ++ 93 :: k) = (pre ++ [91]) ++ x :: 59 :: (J ++ 93 :: k) := by simp
      rw [this]
      have hl : pre.length + 1 = (pre ++ [91]).length := by simp
      rw [hl, List.drop_left]
      have : (pre ++ [91]).length + 1 - (pre ++ [91]).length = 1 := by omega
      simp
    rw [hsl]
  rw [hrl]
  dsimp only
  rw [skip_mk _ _ _ _ (by decide)]
  simp only [show (Op.listType == Op.error) = false by decide, Bool.false_eq_true, if_false, beq_self_eq_true, if_true]
  -- the elements
  have harr : writeArray fo (f + 1) (DState.mk (pre ++ 91 :: x :: 59 :: (J ++ 93 :: k)) (pre.length + 3) .listType
        { s with st := .arrayT, stack := .listValue :: s.stack }) et =
      .ok (DState.mk (pre ++ 91 :: x :: 59 :: (J ++ 93 :: k)) (pre.length + 3 + J.length + 1) .endValue
            (pop { s with st := .arrayT, stack := .listValue :: s.stack }),
           beBytes 4 elems.length ++ (elems.map (fun e : Bytes × Bytes => e.2)).flatten) := by
    unfold writeArray
    dsimp only
    rw [skip_mk _ _ _ _ (by decide)]
    have hD3 : pre ++ 91 :: x :: 59 :: (J ++ 93 :: k) = (pre ++ [91, x, 59]) ++ J ++ 93 :: k := by simp
    have hl3 : pre.length + 3 = (pre ++ [91, x, 59]).length := by simp
    cases helems : elems with
    | nil =>
      subst helems
      simp only [List.map_nil, joinElems] at hJ
      subst hJ
      have e3 : ({ s with st := St.arrayT, stack := PS.listValue :: s.stack } : Scanner).step 93 =
          (pop { s with st := .arrayT, stack := .listValue :: s.stack }, .endValue) := by
        rw [step_at_close _ rfl]
        exact stEndValue_close_list _ s.stack rfl
      have hsc : scanWhile .skipSpace (DState.mk (pre ++ 91 :: x :: 59 :: ([] ++ 93 :: k)) (pre.length + 3) .listType
            { s with st := .arrayT, stack := .listValue :: s.stack }) =
          DState.mk (pre ++ 91 :: x :: 59 :: ([] ++ 93 :: k)) (pre.length + 3 + 1) .endValue
            (pop { s with st := .arrayT, stack := .listValue :: s.stack }) := by
        unfold scanWhile
        dsimp only
        rw [hD3, hl3, List.append_assoc, List.drop_left]
        simp only [List.nil_append]
        rw [scanLoop_stop _ _ _ _ _ _ (by rw [e3]; simp), e3]
      rw [hsc]
      simp
    | cons e0 rest0 =>
      rw [← helems]
      have hspec := arrayLoop_spec fo et elems (by rw [helems]; simp) hel (pre ++ [91, x, 59]) k
        { s with st := .arrayT, stack := .listValue :: s.stack } s.stack .listType 0 [] (f + 1) rfl he ht
        (fun c h1 h2 => step_at_begin _ rfl c h1 h2) (by omega)
      rw [hJ, ← hD3, ← hl3] at hspec
      -- the first `scanWhile` does not end on `]`
      have hop : (scanWhile .skipSpace (DState.mk (pre ++ 91 :: x :: 59 :: (J ++ 93 :: k)) (pre.length + 3) .listType
          { s with st := .arrayT, stack := .listValue :: s.stack })).opcode = .beginLiteral := by
        obtain ⟨w0, b0⟩ := e0
        have hw0 := (hel (w0, b0) (by rw [helems]; simp)).1
        have hJ' : J = w0 ++ sepJoin (rest0.map (fun e : Bytes × Bytes => e.1)) := by
          rw [← hJ, helems, List.map_cons, joinElems_cons]
        have := (tok_read' w0 hw0 (pre ++ [91, x, 59])
          (sepJoin (rest0.map (fun e : Bytes × Bytes => e.1)) ++ 93 :: k) (sepJoin_delim _ _)
          { s with st := .arrayT, stack := .listValue :: s.stack } (fun c h1 h2 => step_at_begin _ rfl c h1 h2)
          (isTok_ne93 hw0) he ht .listType).1
        rw [hD3, hl3, hJ']
        simpa [List.append_assoc] using this
      rw [hop]
      simp only [show (Op.beginLiteral == Op.endValue) = false by decide, Bool.false_eq_true, if_false]
      rw [hspec]
      simp
  have hte : (if (x == 66) = true then some (tagByteArray, tagByte)
      else if (x == 73) = true then some (tagIntArray, tagInt)
      else if (x == 76) = true then some (tagLongArray, tagLong) else none) = some (tt, et) := by
    rcases hx with ⟨a, b, c⟩ | ⟨a, b, c⟩ | ⟨a, b, c⟩ <;> subst a <;> subst b <;> subst c <;> simp
  rw [hte]
  dsimp only
  rw [harr]
  dsimp only
  -- the byte after `]`
  have hD4 : pre ++ 91 :: x :: 59 :: (J ++ 93 :: k) = (pre ++ 91 :: x :: 59 :: (J ++ [93])) ++ k := by simp
  have hl4 : pre.length + 3 + J.length + 1 = (pre ++ 91 :: x :: 59 :: (J ++ [93])).length := by simp; omega
  have hnext := scanNext_after_pop { s with st := .arrayT, stack := .listValue :: s.stack } .listValue s.stack rfl he ht
    (pre ++ 91 :: x :: 59 :: (J ++ [93])) k .endValue
  rw [← hD4, ← hl4] at hnext
  rw [hnext]
  have hfin : finish ({ { s with st := St.arrayT, stack := PS.listValue :: s.stack } with stack := s.stack } : Scanner) k =
      finish s k := by
    have : ({ { s with st := St.arrayT, stack := PS.listValue :: s.stack } with stack := s.stack } : Scanner) =
        { s with st := .arrayT } := rfl
    rw [this, finish_st_irrel]
  rw [hfin]
  congr 2
  simp [List.length_append]; omega


/-- a compound whose values satisfy `ValSpec`: the `compLoop` level statement -/
theorem comp_cl (fo : FloatOracle) (dep need : Nat) (es : List Entry)
    (hval : ∀ e ∈ es, ValSpec fo e.w e.tag e.payload dep need) (hkeys : ∀ e ∈ es, e.key.length ≤ maxStrLen) :
    CLSpec fo (wKvs es ++ [125]) (encEntries es ++ [0]) dep (need + es.length + 1) := by
  intro pre k s o acc f he ht hdep hf
  obtain ⟨f, rfl⟩ : ∃ f', f = f' + 1 := ⟨f - 1, by omega⟩
  have hD1 : pre ++ 123 :: (wKvs es ++ [125]) ++ k = (pre ++ [123]) ++ wKvs es ++ 125 :: k := by simp
  have hl1 : pre.length + 1 = (pre ++ [123]).length := by simp
  have hfin : finish ({ { s with st := St.compoundOrEmpty, stack := PS.compoundName :: s.stack } with stack := s.stack } : Scanner) k =
      finish s k := by
    have : ({ { s with st := St.compoundOrEmpty, stack := PS.compoundName :: s.stack } with stack := s.stack } : Scanner) =
        { s with st := .compoundOrEmpty } := rfl
    rw [this, finish_st_irrel]
  cases hes : es with
  | nil =>
    subst hes
    have hD0 : pre ++ 123 :: (wKvs [] ++ [125]) ++ k = pre ++ 123 :: 125 :: k := by simp [wKvs, joinElems]
    rw [hD0]
    unfold compLoop
    dsimp only
    have e1 := step_ce_close { s with st := .compoundOrEmpty, stack := .compoundName :: s.stack } s.stack rfl rfl
    have hs2 : scanWhile .skipSpace (DState.mk (pre ++ 123 :: 125 :: k) (pre.length + 1) o
          { s with st := .compoundOrEmpty, stack := .compoundName :: s.stack }) =
        DState.mk (pre ++ 123 :: 125 :: k) (pre.length + 2) .endValue
          (pop { s with st := .compoundOrEmpty, stack := .compoundValue :: s.stack }) := by
      unfold scanWhile
      dsimp only
      have : (pre ++ 123 :: 125 :: k).drop (pre.length + 1) = 125 :: k := by
        have : pre ++ 123 :: 125 :: k = (pre ++ [123]) ++ 125 :: k := by simp
        rw [this, hl1, List.drop_left]
      rw [this, scanLoop_stop _ _ _ _ _ _ (by rw [e1]; simp), e1]
    rw [hs2]
    simp only [beq_self_eq_true, if_true]
    have hD2 : pre ++ 123 :: 125 :: k = (pre ++ [123, 125]) ++ k := by simp
    have hl2 : pre.length + 2 = (pre ++ [123, 125]).length := by simp
    have hnext := scanNext_after_pop { s with st := .compoundOrEmpty, stack := .compoundValue :: s.stack }
      .compoundValue s.stack rfl he ht (pre ++ [123, 125]) k .endValue
    rw [← hD2, ← hl2] at hnext
    rw [hnext]
    have hfin' : finish ({ { s with st := St.compoundOrEmpty, stack := PS.compoundValue :: s.stack } with stack := s.stack } : Scanner) k =
        finish s k := by
      have : ({ { s with st := St.compoundOrEmpty, stack := PS.compoundValue :: s.stack } with stack := s.stack } : Scanner) =
          { s with st := .compoundOrEmpty } := rfl
      rw [this, finish_st_irrel]
    rw [hfin']
    simp [encEntries, wKvs, joinElems]
  | cons e0' rest0 =>
    rw [← hes]
    have hspec := compLoop_spec fo dep need es (by rw [hes]; simp) hval hkeys (pre ++ [123]) k
      { s with st := .compoundOrEmpty, stack := .compoundName :: s.stack } s.stack o acc (f + 1)
      (Or.inl rfl) rfl he ht (by omega) (by omega)
    rw [← hD1, ← hl1, hfin] at hspec
    rw [hspec]
    congr 2
    · congr 1
      simp [List.length_append]; omega
    · simp

/-- from the `writeListOrArray` level to the `writeValue` level: the `[` is scanned by `writeValue` -/
theorem valSpec_of_wl (fo : FloatOracle) (w' : Bytes) (tt : Byte) (payload : Bytes) (dep need : Nat)
    (h : WLSpec fo w' tt payload dep need) : ValSpec fo (91 :: w') tt payload (dep + 1) (need + 1) := by
  intro pre k s o ifw name f hst he ht hdep _ _ hf
  obtain ⟨f, rfl⟩ : ∃ f', f = f' + 1 := ⟨f - 1, by omega⟩
  have e0 : s.step 91 = ({ s with st := .listOrArray, stack := .listValue :: s.stack }, .beginList) := by
    unfold Scanner.step; rw [hst]; exact stBeginValue_open_list s (by omega)
  have hD : pre ++ 91 :: w' ++ k = pre ++ 91 :: (w' ++ k) := by simp
  unfold writeValue
  dsimp only
  have hs1 : scanWhile .skipSpace (DState.mk (pre ++ 91 :: w' ++ k) pre.length o s) =
      DState.mk (pre ++ 91 :: w' ++ k) (pre.length + 1) .beginList
        { s with st := .listOrArray, stack := .listValue :: s.stack } := by
    unfold scanWhile
    dsimp only
    rw [hD, List.drop_left, scanLoop_stop _ _ _ _ _ _ (by rw [e0]; simp), e0]
  rw [hs1]
  dsimp only
  rw [h pre k s .beginList ifw name f he ht (by omega) (by omega)]

/-- from the `compLoop` level to the `writeValue` level -/
theorem valSpec_of_cl (fo : FloatOracle) (w' : Bytes) (payload : Bytes) (dep need : Nat)
    (h : CLSpec fo w' payload dep need) : ValSpec fo (123 :: w') tagCompound payload (dep + 1) (need + 1) := by
  intro pre k s o ifw name f hst he ht hdep _ _ hf
  obtain ⟨f, rfl⟩ : ∃ f', f = f' + 1 := ⟨f - 1, by omega⟩
  have e0 : s.step 123 = ({ s with st := .compoundOrEmpty, stack := .compoundName :: s.stack }, .beginCompound) := by
    unfold Scanner.step; rw [hst]; exact stBeginValue_open_comp s (by omega)
  have hD : pre ++ 123 :: w' ++ k = pre ++ 123 :: (w' ++ k) := by simp
  unfold writeValue
  dsimp only
  have hs1 : scanWhile .skipSpace (DState.mk (pre ++ 123 :: w' ++ k) pre.length o s) =
      DState.mk (pre ++ 123 :: w' ++ k) (pre.length + 1) .beginCompound
        { s with st := .compoundOrEmpty, stack := .compoundName :: s.stack } := by
    unfold scanWhile
    dsimp only
    rw [hD, List.drop_left, scanLoop_stop _ _ _ _ _ _ (by rw [e0]; simp), e0]
  rw [hs1]
  dsimp only
  rw [h pre k s .beginCompound [] f he ht (by omega) (by omega)]
  simp


/-! ### reading a literal inside a list -/

/-- `tok_read_core` with the end of the token given as a hypothesis on the byte that follows (inside a list the
token is always followed by `,` or `]`) -/
theorem tok_read_list (c0 : Byte) (ws : Bytes) (st0 stE : St)
    (hrun : ∀ s : Scanner, s.st = st0 → AllOp .cont s ws ∧ run s ws = { s with st := stE })
    (pre : Bytes) (c : Byte) (k' : Bytes) (s : Scanner)
    (hstep0 : s.step c0 = ({ s with st := st0 }, .beginLiteral))
    (hlast : ({ s with st := stE } : Scanner).step c = stEndValue s c) (o : Op) :
    (scanWhile .skipSpace (DState.mk (pre ++ (c0 :: ws) ++ c :: k') pre.length o s)).opcode = .beginLiteral ∧
    readLiteral (scanWhile .skipSpace (DState.mk (pre ++ (c0 :: ws) ++ c :: k') pre.length o s)) =
      (if (stEndValue s c).2 == .error then .err
       else .ok (DState.mk (pre ++ (c0 :: ws) ++ c :: k') (pre.length + (c0 :: ws).length + 1) (stEndValue s c).2
                  (stEndValue s c).1, c0 :: ws)) := by
  have e1 : scanWhile .skipSpace (DState.mk (pre ++ c0 :: ws ++ c :: k') pre.length o s) =
      DState.mk (pre ++ c0 :: ws ++ c :: k') (pre.length + 1) .beginLiteral { s with st := st0 } := by
    unfold scanWhile
    simp only [List.append_assoc, List.drop_left, List.cons_append]
    rw [scanLoop_stop _ _ _ _ _ _ (by rw [hstep0]; simp), hstep0]
  rw [e1]
  refine ⟨rfl, ?_⟩
  obtain ⟨hall, hr⟩ := hrun { s with st := st0 } rfl
  have e2 : scanWhile .cont (DState.mk (pre ++ c0 :: ws ++ c :: k') (pre.length + 1) .beginLiteral { s with st := st0 }) =
      DState.mk (pre ++ c0 :: ws ++ c :: k') (pre.length + (c0 :: ws).length + 1) (stEndValue s c).2 (stEndValue s c).1 := by
    rw [scanWhile_at .cont _ (pre ++ [c0]) ws (c :: k') (by simp) (by simp) hall]
    dsimp only
    rw [hr]
    have hne : (({ s with st := stE } : Scanner).step c).2 ≠ .cont := by
      rw [hlast]; exact stEndValue_ne_cont s c
    rw [scanLoop_stop _ _ _ _ _ _ hne, hlast]
    simp; omega
  unfold readLiteral
  dsimp only
  rw [e2]
  dsimp only
  split
  · rfl
  · have hsl : (DState.mk (pre ++ c0 :: ws ++ c :: k') (pre.length + (c0 :: ws).length + 1) (stEndValue s c).2 (stEndValue s c).1).slice
        (DState.mk (pre ++ c0 :: ws ++ c :: k') (pre.length + 1) .beginLiteral { s with st := st0 }).readIndex
        (DState.mk (pre ++ c0 :: ws ++ c :: k') (pre.length + (c0 :: ws).length + 1) (stEndValue s c).2 (stEndValue s c).1).readIndex
        = some (c0 :: ws) := by
      unfold DState.slice DState.readIndex
      dsimp only
      have h1 : pre.length + 1 - 1 = pre.length := by omega
      have h2 : pre.length + (c0 :: ws).length + 1 - 1 = pre.length + (c0 :: ws).length := by omega
      rw [h1, h2]
      rw [if_pos (by simp)]
      congr 1
      rw [List.append_assoc, List.drop_left, Nat.add_sub_cancel_left, List.take_left]
    rw [hsl]

/-- `w` is one literal token when it is the FIRST element of a list (scanner state `stateListOrArray`, where
`B`, `I`, `L` take the array-prefix path) and is followed by `,` or `]` -/
def IsTokL (w : Bytes) : Prop :=
  ∃ c0 ws st0 stE, w = c0 :: ws ∧
    (∀ s : Scanner, s.st = .listOrArray → s.step c0 = ({ s with st := st0 }, .beginLiteral)) ∧
    (∀ s : Scanner, s.st = st0 → AllOp .cont s ws ∧ run s ws = { s with st := stE }) ∧
    (∀ (s : Scanner) (c : Byte), s.st = stE → (c = 44 ∨ c = 93) → s.step c = stEndValue s c)

theorem step_la_value (s : Scanner) (h : s.st = .listOrArray) (c : Byte) (h1 : isSpace c = false)
    (h2 : (c == 66 || c == 73 || c == 76) = false) (h3 : (c == 93) = false) : s.step c = stBeginValue s c := by
  unfold Scanner.step; rw [h]; dsimp only
  simp only [h1, h2, h3, Bool.false_eq_true, if_false]

theorem comma_close_not_allowed (c : Byte) (h : c = 44 ∨ c = 93) : isAllowedInUnquotedString c = false ∧ (c == 59) = false := by
  rcases h with e | e <;> subst e <;> decide

/-- a token that does not begin with `B`, `I`, `L` is read the same way at the head of a list -/
theorem isTokL_of_isTok (w : Bytes) (hw : IsTok w)
    (hb : ∀ c rest, w = c :: rest → (c == 66 || c == 73 || c == 76) = false) : IsTokL w := by
  obtain ⟨c0, ws, st0, stE, e, hbeg, hrun, hend⟩ := hw
  refine ⟨c0, ws, st0, stE, e, fun s hs => ?_, hrun, fun s c hs hc => ?_⟩
  · have hsp : isSpace c0 = false := by
      have := hbeg s
      unfold stBeginValue at this
      by_cases h : isSpace c0 = true
      · simp [h] at this
      · simpa using h
    have h93 : (c0 == 93) = false := by
      have := isTok_ne93 ⟨c0, ws, st0, stE, rfl, hbeg, hrun, hend⟩ c0 ws rfl
      simpa using this
    rw [step_la_value s hs c0 hsp (hb c0 ws e) h93]; exact hbeg s
  · exact step_end s (by rw [hs]; exact hend) c (comma_close_not_allowed c hc).1



theorem step_lat_allowed (s : Scanner) (h : s.st = .listOrArrayT) (c : Byte) (hc : isAllowedInUnquotedString c = true) :
    s.step c = ({ s with st := .inUnquoted }, .cont) := by
  have h59 : (c == 59) = false := by
    have : ∀ n : Fin (2^8), (let c : Byte := BitVec.ofFin n
        isAllowedInUnquotedString c = true → (c == 59) = false) := by decide +kernel
    exact this c.toFin hc
  unfold Scanner.step; rw [h]; dsimp only
  simp only [h59, Bool.false_eq_true, if_false]
  unfold stInUnquoted
  simp [hc]

theorem step_lat_end (s : Scanner) (h : s.st = .listOrArrayT) (c : Byte) (hc : c = 44 ∨ c = 93) :
    s.step c = stEndValue s c := by
  obtain ⟨h1, h2⟩ := comma_close_not_allowed c hc
  unfold Scanner.step; rw [h]; dsimp only
  simp only [h2, Bool.false_eq_true, if_false]
  unfold stInUnquoted
  simp only [h1, Bool.false_eq_true, if_false]
  exact stEndValue_st_irrel s _ c

/-- whatever `writeEscapeStr` prints is one literal token also at the head of a list -/
theorem isTokL_str (str : Bytes) : IsTokL (writeEscapeStr str) := by
  by_cases hb : ∀ c rest, writeEscapeStr str = c :: rest → (c == 66 || c == 73 || c == 76) = false
  · exact isTokL_of_isTok _ (isTok_str str) hb
  · -- a bare string that begins with B, I or L
    have hnq : needQuote str = false := by
      apply Classical.byContradiction
      intro hq
      have hq' : needQuote str = true := by simpa using hq
      apply hb
      intro c rest e
      unfold writeEscapeStr at e
      simp only [hq', Bool.not_true, Bool.false_eq_true, if_false] at e
      split at e <;> (simp at e; rw [← e.1]; decide)
    have hw : writeEscapeStr str = str := by unfold writeEscapeStr; simp [hnq]
    rw [hw] at hb ⊢
    unfold needQuote at hnq
    cases str with
    | nil => simp at hnq
    | cons c cs =>
      simp only [Bool.or_eq_false_iff, List.any_eq_false, Bool.not_eq_true', Bool.not_eq_false] at hnq
      have hall : ∀ x ∈ c :: cs, isAllowedInUnquotedString x = true := by
        intro x hx; have := hnq.2 x hx; simpa using this
      have hc : (c == 66 || c == 73 || c == 76) = true := by
        apply Classical.byContradiction
        intro h
        apply hb
        intro c' rest e
        injection e with e1 _
        subst e1
        simpa using h
      have hc' : c = 66 ∨ c = 73 ∨ c = 76 := by
        have : (c = 66 ∨ c = 73) ∨ c = 76 := by simpa [Bool.or_eq_true] using hc
        rcases this with (h | h) | h
        · exact Or.inl h
        · exact Or.inr (Or.inl h)
        · exact Or.inr (Or.inr h)
      cases cs with
      | nil =>
        exact ⟨c, [], .listOrArrayT, .listOrArrayT, rfl, fun s hs => step_la_BIL s hs c hc',
          fun s hs => ⟨trivial, by simp only [run]; exact (set_st_eq s _ hs).symm⟩,
          fun s c' hs hc2 => step_lat_end s hs c' hc2⟩
      | cons c1 cs' =>
        refine ⟨c, c1 :: cs', .listOrArrayT, .inUnquoted, rfl, fun s hs => step_la_BIL s hs c hc',
          fun s hs => ?_, fun s c' hs hc2 => step_end s (by rw [hs]; exact Or.inr (Or.inr (Or.inl rfl))) c'
            (comma_close_not_allowed c' hc2).1⟩
        have e1 := step_lat_allowed s hs c1 (hall c1 (by simp))
        obtain ⟨a, b⟩ := AllOp_unq { s with st := .inUnquoted } rfl cs' (fun x hx => hall x (by simp [hx]))
        exact ⟨⟨by rw [e1], by rw [e1]; exact a⟩, by simp only [run]; rw [e1, b]⟩

theorem numstart_not_BIL (c : Byte) (h : (isNumber c || isSign c) = true) : (c == 66 || c == 73 || c == 76) = false := by
  have : ∀ n : Fin (2^8), (let c : Byte := BitVec.ofFin n
      (isNumber c || isSign c) = true → (c == 66 || c == 73 || c == 76) = false) := by decide +kernel
  exact this c.toFin h

theorem isTokL_int (v : Int) (suf : Bytes) (hs : IntSuffix suf) : IsTokL (formatInt v ++ suf) := by
  apply isTokL_of_isTok _ (isTok_int v suf hs)
  intro c rest e
  obtain ⟨c0, ds, he, hc0, _⟩ := formatInt_shape v
  rw [he] at e
  injection e with e1 _
  subst e1
  exact numstart_not_BIL _ hc0

theorem isTokL_float (w : Bytes) (hw : FloatText w) (l : Byte) (hl : l = 70 ∨ l = 68) : IsTokL (w ++ [l]) := by
  apply isTokL_of_isTok _ (isTok_float w hw l hl)
  intro c rest e
  obtain ⟨c0, ip, fd, hc0, _, _, hshape⟩ := hw
  have hstart : (isNumber c0 || isSign c0) = true := by
    rcases hc0 with h | ⟨h, _⟩
    · simp [h]
    · subst h; decide
  rcases hshape with e' | ⟨_, e'⟩ <;> subst e' <;> simp at e <;> rw [← e.1] <;> exact numstart_not_BIL _ hstart




/-- an element of a list of literals: one token (also at the head of a list) that `parseLiteral` reads as a value of
tag `e` with payload `payload` -/
def LitEl (fo : FloatOracle) (e : Byte) (w payload : Bytes) : Prop :=
  IsTok w ∧ IsTokL w ∧ ∃ v, parseLiteral fo w = .ok (e, some v) ∧ litPayload v = payload ∧ litOk v = true

theorem finish_sep_list (sL : Scanner) (σ : List PS) (h : sL.stack = .listValue :: σ) (r : List Bytes) (k : Bytes) :
    finish sL (sepJoin r ++ 93 :: k) =
      (match r with
       | [] => (pop sL, Op.endValue)
       | _ :: _ => ({ sL with st := .beginValue }, Op.listValue)) := by
  cases r with
  | nil => simp only [sepJoin, List.nil_append]; unfold finish; exact stEndValue_close_list sL σ h
  | cons w r' => simp only [sepJoin, List.cons_append]; unfold finish; exact stEndValue_comma_list sL σ h

theorem litListLoop_spec (fo : FloatOracle) (e : Byte) :
    ∀ (rest : List (Bytes × Bytes)), (∀ x ∈ rest, LitEl fo e x.1 x.2) →
    ∀ (w payload : Bytes), LitEl fo e w payload →
    ∀ (pre k : Bytes) (sL : Scanner) (σ : List PS) (elemType : Byte) (count : Nat) (buf : Bytes) (f : Nat),
      sL.stack = .listValue :: σ → sL.err = false → sL.endTop = false → (elemType = 0 ∨ elemType = e) →
      rest.length + 1 ≤ f →
      litListLoop fo f
        (DState.mk (pre ++ w ++ (sepJoin (rest.map (fun x : Bytes × Bytes => x.1)) ++ 93 :: k)) (pre.length + w.length + 1)
          (finish sL (sepJoin (rest.map (fun x : Bytes × Bytes => x.1)) ++ 93 :: k)).2
          (finish sL (sepJoin (rest.map (fun x : Bytes × Bytes => x.1)) ++ 93 :: k)).1)
        w elemType count buf =
      .ok (DState.mk (pre ++ w ++ (sepJoin (rest.map (fun x : Bytes × Bytes => x.1)) ++ 93 :: k))
             (pre.length + w.length + (sepJoin (rest.map (fun x : Bytes × Bytes => x.1))).length + 1) .endValue (pop sL),
           listHeader e (count + 1 + rest.length) ++
             (buf ++ payload ++ (rest.map (fun x : Bytes × Bytes => x.2)).flatten)) := by
  intro rest
  induction rest with
  | nil =>
    intro _ w payload hw pre k sL σ elemType count buf f hst he ht het hf
    obtain ⟨f, rfl⟩ : ∃ f', f = f' + 1 := ⟨f - 1, by omega⟩
    obtain ⟨_, _, v, hpl, hpay, hok⟩ := hw
    simp only [List.map_nil, sepJoin, List.nil_append, List.length_nil, List.flatten_nil, List.append_nil]
    have hfin : finish sL (93 :: k) = (pop sL, .endValue) := by unfold finish; exact stEndValue_close_list sL σ hst
    rw [hfin]
    unfold litListLoop
    rw [hpl]
    dsimp only
    have hety : (if (elemType == 0) = true then e else elemType) = e := by
      rcases het with h | h <;> subst h <;> simp
    rw [hety]
    simp only [bne_self_eq_false, Bool.false_eq_true, if_false, hok, Bool.not_true]
    rw [skip_mk _ _ _ _ (by decide)]
    simp [hpay]
  | cons x rest ih =>
    intro hall w payload hw pre k sL σ elemType count buf f hst he ht het hf
    obtain ⟨f, rfl⟩ : ∃ f', f = f' + 1 := ⟨f - 1, by simp at hf; omega⟩
    obtain ⟨w2, p2⟩ := x
    obtain ⟨_, _, v, hpl, hpay, hok⟩ := hw
    have hx := hall (w2, p2) (by simp)
    generalize hT : sepJoin (rest.map (fun x : Bytes × Bytes => x.1)) = T at ih
    have hsep : sepJoin (((w2, p2) :: rest).map (fun x : Bytes × Bytes => x.1)) = 44 :: (w2 ++ T) := by
      rw [List.map_cons]
      show 44 :: joinElems (w2 :: rest.map (fun x : Bytes × Bytes => x.1)) = _
      rw [joinElems_cons, hT]
    rw [hsep]
    have hfin : finish sL (44 :: (w2 ++ T) ++ 93 :: k) = ({ sL with st := .beginValue }, .listValue) := by
      simp only [List.cons_append]; unfold finish; exact stEndValue_comma_list sL σ hst
    rw [hfin]
    unfold litListLoop
    rw [hpl]
    dsimp only
    have hety : (if (elemType == 0) = true then e else elemType) = e := by
      rcases het with h | h <;> subst h <;> simp
    rw [hety]
    simp only [bne_self_eq_false, Bool.false_eq_true, if_false, hok, Bool.not_true]
    rw [skip_mk _ _ _ _ (by decide)]
    simp only [show (Op.listValue == Op.error) = false by decide, show (Op.listValue == Op.endValue) = false by decide,
      show (Op.listValue != Op.listValue) = false by decide, Bool.false_eq_true, if_false]
    -- the next element
    have hD : pre ++ w ++ (44 :: (w2 ++ T) ++ 93 :: k) = (pre ++ w ++ [44]) ++ w2 ++ (T ++ 93 :: k) := by simp
    have hl : pre.length + w.length + 1 = (pre ++ w ++ [44]).length := by simp [List.length_append]; omega
    rw [hD, hl]
    obtain ⟨h1, h2⟩ := tok_read w2 hx.1 (pre ++ w ++ [44]) (T ++ 93 :: k)
      (by rw [← hT]; exact sepJoin_delim _ _) { sL with st := .beginValue } rfl he ht .listValue
    have hfin2 : finish ({ sL with st := St.beginValue } : Scanner) (T ++ 93 :: k) = finish sL (T ++ 93 :: k) :=
      finish_st_irrel sL _ _
    have hne : ((finish sL (T ++ 93 :: k)).2 == Op.error) = false := by
      rw [← hT, finish_sep_list sL σ hst]
      cases rest.map (fun x : Bytes × Bytes => x.1) <;> simp
    rw [hfin2, hne] at h2
    simp only [Bool.false_eq_true, if_false] at h2
    rw [h1]
    simp only [show (Op.beginLiteral == Op.error) = false by decide,
      show (Op.beginLiteral != Op.beginLiteral) = false by decide, Bool.false_eq_true, if_false]
    rw [h2]
    dsimp only
    have hrec := ih (fun y hy => hall y (by simp [hy])) w2 p2 hx (pre ++ w ++ [44]) k sL σ e (count + 1) (buf ++ litPayload v)
      f hst he ht (Or.inr rfl) (by simp at hf ⊢; omega)
    rw [hrec]
    have e1 : (pre ++ w ++ [44]).length + w2.length + T.length + 1 =
        pre.length + w.length + (44 :: (w2 ++ T)).length + 1 := by simp [List.length_append]; omega
    have e2 : count + 1 + 1 + rest.length = count + 1 + ((w2, p2) :: rest).length := by simp; omega
    rw [e1, e2, hpay]
    simp



theorem sepJoin_head (r : List Bytes) (k : Bytes) :
    ∃ c k', sepJoin r ++ 93 :: k = c :: k' ∧ (c = 44 ∨ c = 93) := by
  cases r with
  | nil => exact ⟨93, k, rfl, Or.inr rfl⟩
  | cons w r' => exact ⟨44, _, rfl, Or.inl rfl⟩

theorem finish_la (s : Scanner) (k : Bytes) :
    finish ({ { s with st := St.listOrArray, stack := PS.listValue :: s.stack } with stack := s.stack } : Scanner) k =
      finish s k := by
  have : ({ { s with st := St.listOrArray, stack := PS.listValue :: s.stack } with stack := s.stack } : Scanner) =
      { s with st := .listOrArray } := rfl
  rw [this, finish_st_irrel]

/-- closure rule: a non-empty list of literals (scalars or strings of one tag) -/
theorem wl_litList (fo : FloatOracle) (e : Byte) (x : Bytes × Bytes) (rest : List (Bytes × Bytes))
    (hall : ∀ y ∈ x :: rest, LitEl fo e y.1 y.2) :
    WLSpec fo (joinElems ((x :: rest).map (fun y : Bytes × Bytes => y.1)) ++ [93]) tagList
      (listHeader e (rest.length + 1) ++ ((x :: rest).map (fun y : Bytes × Bytes => y.2)).flatten) 0 (rest.length + 2) := by
  intro pre k s o ifw name f he ht _ hf
  obtain ⟨f, rfl⟩ : ∃ f', f = f' + 1 := ⟨f - 1, by omega⟩
  obtain ⟨w1, p1⟩ := x
  have hx := hall (w1, p1) (by simp)
  generalize hT : sepJoin (rest.map (fun y : Bytes × Bytes => y.1)) = T
  have hjoin : joinElems (((w1, p1) :: rest).map (fun y : Bytes × Bytes => y.1)) = w1 ++ T := by
    rw [List.map_cons, joinElems_cons, hT]
  rw [hjoin]
  obtain ⟨c, k', hK, hc⟩ := sepJoin_head (rest.map (fun y : Bytes × Bytes => y.1)) k
  rw [hT] at hK
  have hD : pre ++ 91 :: (w1 ++ T ++ [93]) ++ k = (pre ++ [91]) ++ w1 ++ (T ++ 93 :: k) := by simp
  have hl : pre.length + 1 = (pre ++ [91]).length := by simp
  rw [hD, hl]
  obtain ⟨c0, ws, st0, stE, ew, hbegL, hrun, hendL⟩ := hx.2.1
  have hlast : ({ ({ s with st := St.listOrArray, stack := PS.listValue :: s.stack } : Scanner) with st := stE } : Scanner).step c =
      stEndValue { s with st := .listOrArray, stack := .listValue :: s.stack } c := by
    rw [hendL _ c rfl hc]
    exact stEndValue_st_irrel _ _ _
  have hrd := tok_read_list c0 ws st0 stE hrun (pre ++ [91]) c k'
    { s with st := .listOrArray, stack := .listValue :: s.stack } (hbegL _ rfl) hlast o
  rw [← ew, ← hK] at hrd
  obtain ⟨h1, h2⟩ := hrd
  have hfe : stEndValue ({ s with st := St.listOrArray, stack := PS.listValue :: s.stack } : Scanner) c =
      finish { s with st := .listOrArray, stack := .listValue :: s.stack } (T ++ 93 :: k) := by rw [hK]; rfl
  rw [hfe] at h2
  have hne : ((finish ({ s with st := St.listOrArray, stack := PS.listValue :: s.stack } : Scanner) (T ++ 93 :: k)).2 == Op.error) = false := by
    rw [← hT, finish_sep_list _ s.stack rfl]
    cases rest.map (fun y : Bytes × Bytes => y.1) <;> simp
  rw [hne] at h2
  simp only [Bool.false_eq_true, if_false] at h2
  unfold writeListOrArray
  dsimp only
  rw [h1]
  simp only [show (Op.beginLiteral == Op.endValue) = false by decide, Bool.false_eq_true, if_false]
  rw [h2]
  dsimp only
  -- after the first literal: `,` or `]`
  have hop : (finish ({ s with st := St.listOrArray, stack := PS.listValue :: s.stack } : Scanner) (T ++ 93 :: k)).2 = .listValue ∨
      (finish ({ s with st := St.listOrArray, stack := PS.listValue :: s.stack } : Scanner) (T ++ 93 :: k)).2 = .endValue := by
    rw [← hT, finish_sep_list _ s.stack rfl]
    cases rest.map (fun y : Bytes × Bytes => y.1) <;> simp
  have hspec := litListLoop_spec fo e rest (fun y hy => hall y (by simp [hy])) w1 p1 hx (pre ++ [91]) k
    { s with st := .listOrArray, stack := .listValue :: s.stack } s.stack 0 0 [] f rfl he ht (Or.inl rfl) (by omega)
  rw [hT] at hspec
  rcases hop with ho | ho
  all_goals
    rw [skip_mk _ _ _ _ (by rw [ho]; decide)]
    simp only [ho, show (Op.listValue == Op.error) = false by decide, show (Op.listValue == Op.listType) = false by decide,
      show (Op.endValue == Op.error) = false by decide, show (Op.endValue == Op.listType) = false by decide,
      show (Op.listValue != Op.listValue) = false by decide, show (Op.endValue != Op.endValue) = false by decide,
      Bool.false_and, Bool.and_false, Bool.false_eq_true, if_false]
    rw [← ho, hspec]
    dsimp only
    have hD2 : (pre ++ [91]) ++ w1 ++ (T ++ 93 :: k) = ((pre ++ [91]) ++ w1 ++ T ++ [93]) ++ k := by simp
    have hl2 : (pre ++ [91]).length + w1.length + T.length + 1 = ((pre ++ [91]) ++ w1 ++ T ++ [93]).length := by
      simp [List.length_append]; omega
    have hnext := scanNext_after_pop { s with st := .listOrArray, stack := .listValue :: s.stack } .listValue s.stack rfl
      he ht ((pre ++ [91]) ++ w1 ++ T ++ [93]) k .endValue
    rw [← hD2, ← hl2] at hnext
    rw [hnext, finish_la]
    have e1 : (pre ++ [91]).length + w1.length + T.length + 1 + 1 = pre.length + (91 :: (w1 ++ T ++ [93])).length + 1 := by
      simp [List.length_append]; omega
    have e2 : 0 + 1 + rest.length = rest.length + 1 := by omega
    rw [e1, e2]
    simp




theorem step_la_close (s : Scanner) (h : s.st = .listOrArray) : s.step 93 = stEndValue s 93 := by
  unfold Scanner.step; rw [h]; simp [isSpace]

/-- closure rule: the empty list `[]` -/
theorem wl_empty (fo : FloatOracle) : WLSpec fo [93] tagList (listHeader 0 0) 0 1 := by
  intro pre k s o ifw name f he ht _ hf
  obtain ⟨f, rfl⟩ : ∃ f', f = f' + 1 := ⟨f - 1, by omega⟩
  have hD : pre ++ 91 :: [93] ++ k = (pre ++ [91]) ++ 93 :: k := by simp
  have hl : pre.length + 1 = (pre ++ [91]).length := by simp
  have e1 : ({ s with st := St.listOrArray, stack := PS.listValue :: s.stack } : Scanner).step 93 =
      (pop { s with st := .listOrArray, stack := .listValue :: s.stack }, .endValue) := by
    rw [step_la_close _ rfl]; exact stEndValue_close_list _ s.stack rfl
  unfold writeListOrArray
  dsimp only
  have hs : scanWhile .skipSpace (DState.mk (pre ++ 91 :: [93] ++ k) (pre.length + 1) o
        { s with st := .listOrArray, stack := .listValue :: s.stack }) =
      DState.mk (pre ++ 91 :: [93] ++ k) (pre.length + 2) .endValue
        (pop { s with st := .listOrArray, stack := .listValue :: s.stack }) := by
    unfold scanWhile
    dsimp only
    rw [hD, hl, List.drop_left, scanLoop_stop _ _ _ _ _ _ (by rw [e1]; simp), e1]
    simp
  rw [hs]
  simp only [beq_self_eq_true, if_true]
  have hD2 : pre ++ 91 :: [93] ++ k = (pre ++ [91, 93]) ++ k := by simp
  have hl2 : pre.length + 2 = (pre ++ [91, 93]).length := by simp
  have hnext := scanNext_after_pop { s with st := .listOrArray, stack := .listValue :: s.stack } .listValue s.stack rfl
    he ht (pre ++ [91, 93]) k .endValue
  rw [← hD2, ← hl2] at hnext
  rw [hnext, finish_la]
  rfl

/-- an element of a list of lists / arrays: the text after its `[`, with its `WLSpec` -/
structure LEl where
  w' : Bytes
  payload : Bytes

theorem listListLoop_spec (fo : FloatOracle) (tt : Byte) (dep need : Nat) :
    ∀ (els : List LEl), els ≠ [] → (∀ x ∈ els, WLSpec fo x.w' tt x.payload dep need) →
    ∀ (pre k : Bytes) (sL : Scanner) (σ : List PS) (o : Op) (elemType : Byte) (count : Nat) (buf : Bytes) (f : Nat),
      sL.stack = .listValue :: σ → sL.err = false → sL.endTop = false →
      sL.stack.length + 1 + dep ≤ maxNestingDepth + 1 → (count = 0 ∨ elemType = tt) → need + els.length ≤ f →
      listListLoop fo f
        (DState.mk (pre ++ joinElems (els.map fun x => 91 :: x.w') ++ 93 :: k) (pre.length + 1) .beginList
          { sL with st := .listOrArray, stack := .listValue :: sL.stack }) elemType count buf =
      .ok (DState.mk (pre ++ joinElems (els.map fun x => 91 :: x.w') ++ 93 :: k)
             (pre.length + (joinElems (els.map fun x => 91 :: x.w')).length + 1) .endValue (pop sL),
           listHeader tt (count + els.length) ++ (buf ++ (els.map fun x => x.payload).flatten)) := by
  intro els
  induction els with
  | nil => intro h; exact absurd rfl h
  | cons x rest ih =>
    intro _ hall pre k sL σ o elemType count buf f hst he ht hdep hct hf
    obtain ⟨f, rfl⟩ : ∃ f', f = f' + 1 := ⟨f - 1, by simp at hf; omega⟩
    have hx := hall x (by simp)
    generalize hT : sepJoin (rest.map fun x => 91 :: x.w') = T
    have hjoin : joinElems ((x :: rest).map fun x => 91 :: x.w') = 91 :: x.w' ++ T := by
      rw [List.map_cons, joinElems_cons, hT]
    rw [hjoin]
    have hD : pre ++ (91 :: x.w' ++ T) ++ 93 :: k = pre ++ 91 :: x.w' ++ (T ++ 93 :: k) := by simp
    rw [hD]
    unfold listListLoop
    dsimp only
    rw [skip_mk _ _ _ _ (by decide)]
    simp only [show (Op.beginList != Op.beginList) = false by decide, Bool.false_eq_true, if_false]
    rw [hx pre (T ++ 93 :: k) sL .beginList false [] f he ht hdep (by simp at hf; omega)]
    dsimp only
    have hcheck : (decide (count > 0) && tt != elemType) = false := by
      rcases hct with h | h
      · subst h; simp
      · subst h; simp
    rw [hcheck]
    simp only [Bool.false_eq_true, if_false]
    rw [← hT, finish_sep_list sL σ hst]
    cases hr : rest with
    | nil =>
      simp only [List.map_nil]
      rw [skip_mk _ _ _ _ (by decide)]
      simp only [show (Op.endValue == Op.error) = false by decide, Bool.false_eq_true, if_false, beq_self_eq_true, if_true]
      simp [sepJoin, hdr]
    | cons y rest' =>
      simp only [List.map_cons]
      rw [skip_mk _ _ _ _ (by decide)]
      simp only [show (Op.listValue == Op.error) = false by decide, show (Op.listValue == Op.endValue) = false by decide,
        show (Op.listValue != Op.listValue) = false by decide, Bool.false_eq_true, if_false]
      -- the `[` of the next element
      have hsep : sepJoin ((91 :: y.w') :: rest'.map fun x => 91 :: x.w') =
          44 :: joinElems ((y :: rest').map fun x => 91 :: x.w') := by simp [sepJoin]
      rw [hsep]
      generalize hJ : joinElems ((y :: rest').map fun x => 91 :: x.w') = J
      have hJ0 : ∃ J', J = 91 :: J' := by
        rw [← hJ, List.map_cons, joinElems_cons]; exact ⟨_, rfl⟩
      obtain ⟨J', hJ'⟩ := hJ0
      have hD2 : pre ++ 91 :: x.w' ++ (44 :: J ++ 93 :: k) = (pre ++ 91 :: x.w' ++ [44]) ++ J ++ 93 :: k := by simp
      have hl2 : pre.length + (91 :: x.w').length + 1 = (pre ++ 91 :: x.w' ++ [44]).length := by
        simp [List.length_append]; omega
      rw [hD2, hl2]
      have hnext : (DState.mk ((pre ++ 91 :: x.w' ++ [44]) ++ J ++ 93 :: k) (pre ++ 91 :: x.w' ++ [44]).length .listValue
            { sL with st := .beginValue }).scanNext =
          DState.mk ((pre ++ 91 :: x.w' ++ [44]) ++ J ++ 93 :: k) ((pre ++ 91 :: x.w' ++ [44]).length + 1) .beginList
            { sL with st := .listOrArray, stack := .listValue :: sL.stack } := by
        unfold scanNext
        have hget : ((pre ++ 91 :: x.w' ++ [44]) ++ J ++ 93 :: k)[(pre ++ 91 :: x.w' ++ [44]).length]? = some 91 := by
          rw [hJ', List.append_assoc]; simp
        simp only [hget]
        have e0 : ({ sL with st := St.beginValue } : Scanner).step 91 =
            ({ sL with st := .listOrArray, stack := .listValue :: sL.stack }, .beginList) := by
          unfold Scanner.step
          simp only
          exact stBeginValue_open_list { sL with st := .beginValue } (by simp only; omega)
        rw [e0]
      rw [hnext]
      have hrec := ih (by rw [hr]; simp) (fun z hz => hall z (by simp [hz])) (pre ++ 91 :: x.w' ++ [44]) k sL σ .beginList
        tt (count + 1) (buf ++ x.payload) f hst he ht hdep (Or.inr rfl) (by simp at hf ⊢; omega)
      rw [hr, hJ] at hrec
      have hh : hdr false tt [] ++ x.payload = x.payload := by simp [hdr]
      rw [hh, hrec]
      have e1 : (pre ++ 91 :: x.w' ++ [44]).length + J.length + 1 =
          pre.length + (91 :: x.w' ++ 44 :: J).length + 1 := by simp [List.length_append]; omega
      have e2 : count + 1 + (y :: rest').length = count + (x :: y :: rest').length := by simp; omega
      rw [e1, e2]
      simp [hdr]



theorem step_la_open (s : Scanner) (h : s.st = .listOrArray) (hd : s.stack.length ≤ maxNestingDepth) :
    s.step 91 = ({ s with st := .listOrArray, stack := .listValue :: s.stack }, .beginList) := by
  rw [step_la_value s h 91 (by decide) (by decide) (by decide)]
  exact stBeginValue_open_list s hd

/-- closure rule: a non-empty list of lists / typed arrays of one kind -/
theorem wl_listList (fo : FloatOracle) (tt : Byte) (dep need : Nat) (els : List LEl) (hne : els ≠ [])
    (hall : ∀ x ∈ els, WLSpec fo x.w' tt x.payload dep need) :
    WLSpec fo (joinElems (els.map fun x => 91 :: x.w') ++ [93]) tagList
      (listHeader tt els.length ++ (els.map fun x => x.payload).flatten) (dep + 1) (need + els.length + 1) := by
  intro pre k s o ifw name f he ht hdep hf
  obtain ⟨f, rfl⟩ : ∃ f', f = f' + 1 := ⟨f - 1, by omega⟩
  generalize hJ : joinElems (els.map fun x => 91 :: x.w') = J
  have hJ0 : ∃ J', J = 91 :: J' := by
    cases els with
    | nil => exact absurd rfl hne
    | cons x r => rw [← hJ, List.map_cons, joinElems_cons]; exact ⟨_, rfl⟩
  obtain ⟨J', hJ'⟩ := hJ0
  have hD : pre ++ 91 :: (J ++ [93]) ++ k = (pre ++ [91]) ++ J ++ 93 :: k := by simp
  have hl : pre.length + 1 = (pre ++ [91]).length := by simp
  rw [hD, hl]
  have e0 := step_la_open { s with st := .listOrArray, stack := .listValue :: s.stack } rfl (by simp only [List.length_cons]; omega)
  unfold writeListOrArray
  dsimp only
  have hs : scanWhile .skipSpace (DState.mk ((pre ++ [91]) ++ J ++ 93 :: k) (pre ++ [91]).length o
        { s with st := .listOrArray, stack := .listValue :: s.stack }) =
      DState.mk ((pre ++ [91]) ++ J ++ 93 :: k) ((pre ++ [91]).length + 1) .beginList
        { s with st := .listOrArray, stack := .listValue :: .listValue :: s.stack } := by
    unfold scanWhile
    dsimp only
    rw [hJ', List.append_assoc, List.drop_left]
    simp only [List.cons_append]
    rw [scanLoop_stop _ _ _ _ _ _ (by rw [e0]; simp), e0]
  rw [hs]
  simp only [show (Op.beginList == Op.endValue) = false by decide, Bool.false_eq_true, if_false]
  have hspec := listListLoop_spec fo tt dep need els hne hall (pre ++ [91]) k
    { s with st := .listOrArray, stack := .listValue :: s.stack } s.stack o 0 0 [] f rfl he ht
    (by simp only [List.length_cons]; omega) (Or.inl rfl) (by omega)
  rw [hJ] at hspec
  rw [hspec]
  dsimp only
  have hD2 : (pre ++ [91]) ++ J ++ 93 :: k = ((pre ++ [91]) ++ J ++ [93]) ++ k := by simp
  have hl2 : (pre ++ [91]).length + J.length + 1 = ((pre ++ [91]) ++ J ++ [93]).length := by simp [List.length_append]; omega
  have hnext := scanNext_after_pop { s with st := .listOrArray, stack := .listValue :: s.stack } .listValue s.stack rfl
    he ht ((pre ++ [91]) ++ J ++ [93]) k .endValue
  rw [← hD2, ← hl2] at hnext
  rw [hnext, finish_la]
  have e1 : (pre ++ [91]).length + J.length + 1 + 1 = pre.length + (91 :: (J ++ [93])).length + 1 := by
    simp [List.length_append]; omega
  rw [e1]
  simp



theorem compListLoop_spec (fo : FloatOracle) (dep need : Nat) :
    ∀ (els : List LEl), els ≠ [] → (∀ x ∈ els, CLSpec fo x.w' x.payload dep need) →
    ∀ (pre k : Bytes) (sL : Scanner) (σ : List PS) (count : Nat) (buf : Bytes) (f : Nat),
      sL.stack = .listValue :: σ → sL.err = false → sL.endTop = false →
      sL.stack.length + 1 + dep ≤ maxNestingDepth + 1 → need + els.length ≤ f →
      compListLoop fo f
        (DState.mk (pre ++ joinElems (els.map fun x => 123 :: x.w') ++ 93 :: k) (pre.length + 1) .beginCompound
          { sL with st := .compoundOrEmpty, stack := .compoundName :: sL.stack }) count buf =
      .ok (DState.mk (pre ++ joinElems (els.map fun x => 123 :: x.w') ++ 93 :: k)
             (pre.length + (joinElems (els.map fun x => 123 :: x.w')).length + 1) .endValue (pop sL),
           listHeader tagCompound (count + els.length) ++ (buf ++ (els.map fun x => x.payload).flatten)) := by
  intro els
  induction els with
  | nil => intro h; exact absurd rfl h
  | cons x rest ih =>
    intro _ hall pre k sL σ count buf f hst he ht hdep hf
    obtain ⟨f, rfl⟩ : ∃ f', f = f' + 1 := ⟨f - 1, by simp at hf; omega⟩
    have hx := hall x (by simp)
    generalize hT : sepJoin (rest.map fun x => 123 :: x.w') = T
    have hjoin : joinElems ((x :: rest).map fun x => 123 :: x.w') = 123 :: x.w' ++ T := by
      rw [List.map_cons, joinElems_cons, hT]
    rw [hjoin]
    have hD : pre ++ (123 :: x.w' ++ T) ++ 93 :: k = pre ++ 123 :: x.w' ++ (T ++ 93 :: k) := by simp
    rw [hD]
    unfold compListLoop
    dsimp only
    rw [skip_mk _ _ _ _ (by decide)]
    simp only [show (Op.beginCompound != Op.beginCompound) = false by decide, Bool.false_eq_true, if_false]
    rw [hx pre (T ++ 93 :: k) sL .beginCompound [] f he ht hdep (by simp at hf; omega)]
    dsimp only
    rw [← hT, finish_sep_list sL σ hst]
    cases hr : rest with
    | nil =>
      simp only [List.map_nil]
      rw [skip_mk _ _ .endValue _ (by decide), skip_mk _ _ .endValue _ (by decide)]
      simp only [show (Op.endValue == Op.error) = false by decide, Bool.false_eq_true, if_false, beq_self_eq_true, if_true]
      simp [sepJoin]
    | cons y rest' =>
      simp only [List.map_cons]
      rw [skip_mk _ _ .listValue _ (by decide), skip_mk _ _ .listValue _ (by decide)]
      simp only [show (Op.listValue == Op.error) = false by decide, show (Op.listValue == Op.endValue) = false by decide,
        show (Op.listValue != Op.listValue) = false by decide, Bool.false_eq_true, if_false]
      have hsep : sepJoin ((123 :: y.w') :: rest'.map fun x => 123 :: x.w') =
          44 :: joinElems ((y :: rest').map fun x => 123 :: x.w') := by simp [sepJoin]
      rw [hsep]
      generalize hJ : joinElems ((y :: rest').map fun x => 123 :: x.w') = J
      have hJ0 : ∃ J', J = 123 :: J' := by
        rw [← hJ, List.map_cons, joinElems_cons]; exact ⟨_, rfl⟩
      obtain ⟨J', hJ'⟩ := hJ0
      have hD2 : pre ++ 123 :: x.w' ++ (44 :: J ++ 93 :: k) = (pre ++ 123 :: x.w' ++ [44]) ++ J ++ 93 :: k := by simp
      have hl2 : pre.length + (123 :: x.w').length + 1 = (pre ++ 123 :: x.w' ++ [44]).length := by
        simp [List.length_append]; omega
      rw [hD2, hl2]
      have hnext : (DState.mk ((pre ++ 123 :: x.w' ++ [44]) ++ J ++ 93 :: k) (pre ++ 123 :: x.w' ++ [44]).length .listValue
            { sL with st := .beginValue }).scanNext =
          DState.mk ((pre ++ 123 :: x.w' ++ [44]) ++ J ++ 93 :: k) ((pre ++ 123 :: x.w' ++ [44]).length + 1) .beginCompound
            { sL with st := .compoundOrEmpty, stack := .compoundName :: sL.stack } := by
        unfold scanNext
        have hget : ((pre ++ 123 :: x.w' ++ [44]) ++ J ++ 93 :: k)[(pre ++ 123 :: x.w' ++ [44]).length]? = some 123 := by
          rw [hJ', List.append_assoc]; simp
        simp only [hget]
        have e0 : ({ sL with st := St.beginValue } : Scanner).step 123 =
            ({ sL with st := .compoundOrEmpty, stack := .compoundName :: sL.stack }, .beginCompound) := by
          unfold Scanner.step
          simp only
          exact stBeginValue_open_comp { sL with st := .beginValue } (by simp only; omega)
        rw [e0]
      rw [hnext]
      have hrec := ih (by rw [hr]; simp) (fun z hz => hall z (by simp [hz])) (pre ++ 123 :: x.w' ++ [44]) k sL σ
        (count + 1) (buf ++ x.payload) f hst he ht hdep (by simp at hf ⊢; omega)
      rw [hr, hJ] at hrec
      have hh : buf ++ ([] ++ x.payload) = buf ++ x.payload := by simp
      rw [hh, hrec]
      have e1 : (pre ++ 123 :: x.w' ++ [44]).length + J.length + 1 =
          pre.length + (123 :: x.w' ++ 44 :: J).length + 1 := by simp [List.length_append]; omega
      have e2 : count + 1 + (y :: rest').length = count + (x :: y :: rest').length := by simp; omega
      rw [e1, e2]
      simp

theorem step_la_open_comp (s : Scanner) (h : s.st = .listOrArray) (hd : s.stack.length ≤ maxNestingDepth) :
    s.step 123 = ({ s with st := .compoundOrEmpty, stack := .compoundName :: s.stack }, .beginCompound) := by
  rw [step_la_value s h 123 (by decide) (by decide) (by decide)]
  exact stBeginValue_open_comp s hd

/-- closure rule: a non-empty list of compounds -/
theorem wl_compList (fo : FloatOracle) (dep need : Nat) (els : List LEl) (hne : els ≠ [])
    (hall : ∀ x ∈ els, CLSpec fo x.w' x.payload dep need) :
    WLSpec fo (joinElems (els.map fun x => 123 :: x.w') ++ [93]) tagList
      (listHeader tagCompound els.length ++ (els.map fun x => x.payload).flatten) (dep + 1) (need + els.length + 1) := by
  intro pre k s o ifw name f he ht hdep hf
  obtain ⟨f, rfl⟩ : ∃ f', f = f' + 1 := ⟨f - 1, by omega⟩
  generalize hJ : joinElems (els.map fun x => 123 :: x.w') = J
  have hJ0 : ∃ J', J = 123 :: J' := by
    cases els with
    | nil => exact absurd rfl hne
    | cons x r => rw [← hJ, List.map_cons, joinElems_cons]; exact ⟨_, rfl⟩
  obtain ⟨J', hJ'⟩ := hJ0
  have hD : pre ++ 91 :: (J ++ [93]) ++ k = (pre ++ [91]) ++ J ++ 93 :: k := by simp
  have hl : pre.length + 1 = (pre ++ [91]).length := by simp
  rw [hD, hl]
  have e0 := step_la_open_comp { s with st := .listOrArray, stack := .listValue :: s.stack } rfl (by simp only [List.length_cons]; omega)
  unfold writeListOrArray
  dsimp only
  have hs : scanWhile .skipSpace (DState.mk ((pre ++ [91]) ++ J ++ 93 :: k) (pre ++ [91]).length o
        { s with st := .listOrArray, stack := .listValue :: s.stack }) =
      DState.mk ((pre ++ [91]) ++ J ++ 93 :: k) ((pre ++ [91]).length + 1) .beginCompound
        { s with st := .compoundOrEmpty, stack := .compoundName :: .listValue :: s.stack } := by
    unfold scanWhile
    dsimp only
    rw [hJ', List.append_assoc, List.drop_left]
    simp only [List.cons_append]
    rw [scanLoop_stop _ _ _ _ _ _ (by rw [e0]; simp), e0]
  rw [hs]
  simp only [show (Op.beginCompound == Op.endValue) = false by decide, Bool.false_eq_true, if_false]
  have hspec := compListLoop_spec fo dep need els hne hall (pre ++ [91]) k
    { s with st := .listOrArray, stack := .listValue :: s.stack } s.stack 0 [] f rfl he ht
    (by simp only [List.length_cons]; omega) (by omega)
  rw [hJ] at hspec
  rw [hspec]
  dsimp only
  have hD2 : (pre ++ [91]) ++ J ++ 93 :: k = ((pre ++ [91]) ++ J ++ [93]) ++ k := by simp
  have hl2 : (pre ++ [91]).length + J.length + 1 = ((pre ++ [91]) ++ J ++ [93]).length := by simp [List.length_append]; omega
  have hnext := scanNext_after_pop { s with st := .listOrArray, stack := .listValue :: s.stack } .listValue s.stack rfl
    he ht ((pre ++ [91]) ++ J ++ [93]) k .endValue
  rw [← hD2, ← hl2] at hnext
  rw [hnext, finish_la]
  have e1 : (pre ++ [91]).length + J.length + 1 + 1 = pre.length + (91 :: (J ++ [93])).length + 1 := by
    simp [List.length_append]; omega
  rw [e1]
  simp


end GoMC.Model.SNBT
