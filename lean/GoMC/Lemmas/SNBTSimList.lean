import GoMC.Lemmas.SNBTSimArr
namespace GoMC.Model.SNBT
open GoMC Scanner DState Spec
open GoMC.Spec.SNBT (isWs isDigit isLetter isTokenByte skipWs spanToken spanDigits digitsVal stripSign inRange lower
  classify readQuoted readKey arrayElem mkArray readArrayElems readValue readEntries readElems FloatSem Tok)

/-! ### lists: the loops -/

theorem readElems_skip (fs : FloatSem) (g : Nat) (bs bs' : Bytes) (acc : List NBT) (u : Bool) (h : skipWs bs = bs') :
    readElems fs g bs acc u = readElems fs g bs' acc u := by
  cases g with
  | zero => simp [readElems]
  | succ g =>
    unfold readElems
    rw [readValue_skip fs g bs bs' h]

/-- the accumulators of a list loop against the grammar's accumulator (`acc0` is reversed, as in the reader) -/
def ListGhost (et : Byte) (count : Nat) (buf : Bytes) (acc0 : List NBT) (u0 : Bool) : Prop :=
  u0 = false → buf = encList acc0.reverse ∧ count = acc0.length ∧ ∀ x ∈ acc0, x.tag = et

/-- the result of a list loop: the grammar reads the elements from `T` up to and including `]` -/
def ListRes (fs : FloatSem) (T : Bytes) (acc0 : List NBT) (u0 : Bool) (d' : DState) (out : Bytes) : Prop :=
  ∃ xs u, xs ≠ [] ∧
    (∀ F, T.length - d'.next.length + 1 ≤ F →
      readElems fs F T acc0 u0 = some (acc0.reverse ++ xs, u0 || u, d'.next)) ∧
    ((u0 || u) = false → ∃ e, (∀ x ∈ acc0.reverse ++ xs, x.tag = e) ∧
      out = listHeader e (acc0.length + xs.length) ++ encList (acc0.reverse ++ xs))

theorem ListGhost_snoc {et e2 : Byte} {count : Nat} {buf p : Bytes} {acc0 : List NBT} {u0 ux : Bool} {tx : NBT}
    (h : ListGhost et count buf acc0 u0) (hp : ux = false → encPayload tx = p ∧ tx.tag = e2)
    (he : acc0 = [] ∨ u0 = true ∨ e2 = et) : ListGhost e2 (count + 1) (buf ++ p) (tx :: acc0) (u0 || ux) := by
  intro hu
  have hu0 : u0 = false := by cases u0 <;> simp at hu ⊢
  have hux : ux = false := by cases ux <;> simp [hu0] at hu ⊢
  obtain ⟨a1, a2, a3⟩ := h hu0
  obtain ⟨b1, b2⟩ := hp hux
  refine ⟨by rw [List.reverse_cons, doc_encList_append, a1]; simp [encList, b1], by simp [a2], ?_⟩
  intro x hx
  rcases List.mem_cons.mp hx with e | e
  · rw [e]; exact b2
  · rcases he with h0 | h0 | h0
    · rw [h0] at e; cases e
    · rw [h0] at hu0; cases hu0
    · rw [h0]; exact a3 x e

def SimLit (fs : FloatSem) (f : Nat) : Prop :=
  ∀ (d : DState) (σ : List PS) (lit : Bytes) (et : Byte) (count : Nat) (buf : Bytes) (d' : DState) (out : Bytes)
    (k : Bytes) (acc0 : List NBT) (u0 : Bool),
    LitDone lit → TokEnd k → skipWs k = skipWs d.pend → d.pend.length ≤ k.length →
    AfterV (.listValue :: σ) d → ExitRel (.listValue :: σ) d →
    litListLoop (semOracle fs) f d lit et count buf = .ok (d', out) →
    ListGhost et count buf acc0 u0 →
    d'.data = d.data ∧ d.off ≤ d'.off ∧ d'.off ≤ d.data.length ∧ d'.pend = 93 :: d'.next ∧ ListClosed σ d' ∧
    d'.next.length + 1 ≤ k.length ∧ ListRes fs (lit ++ k) acc0 u0 d' out


theorem pend_next_length (d : DState) (c : Byte) (h : d.pend = c :: d.next) : d.pend.length = d.next.length + 1 := by
  rw [h]; simp

theorem simLit (fs : FloatSem) : ∀ f, SimLit fs f := by
  intro f
  induction f with
  | zero =>
    intro d σ lit et count buf d' out k acc0 u0 _ _ _ _ _ _ hrun _
    simp [litListLoop] at hrun
  | succ f ih =>
    intro d σ lit et count buf d' out k acc0 u0 hdone hk hsk hlenk hav hexit hrun hgh
    unfold litListLoop at hrun
    cases hpl : parseLiteral (semOracle fs) lit with
    | err => rw [hpl] at hrun; cases hrun
    | panic => rw [hpl] at hrun; cases hrun
    | fuel => rw [hpl] at hrun; cases hrun
    | ok q =>
      obtain ⟨t, ov⟩ := q
      rw [hpl] at hrun
      cases ov with
      | none => cases hrun
      | some v =>
        dsimp only at hrun
        generalize he2 : (if (et == 0) = true then t else et) = e2 at hrun
        by_cases hte : t = e2
        case neg => rw [if_pos (by simp [hte])] at hrun; cases hrun
        rw [if_neg (by simp [hte])] at hrun
        by_cases hok : litOk v = true
        case neg => rw [if_pos (by simp [hok])] at hrun; cases hrun
        rw [if_neg (by simp [hok])] at hrun
        have htag := parseLiteral_tag (semOracle fs) lit t v hpl
        obtain ⟨tx, ux, hrv, htu⟩ := lit_sim fs lit k hdone hk t v hpl
        -- the accumulators after this element
        have hgh1 : ListGhost e2 (count + 1) (buf ++ litPayload v) (tx :: acc0) (u0 || ux) := by
          refine ListGhost_snoc hgh (fun hux => ?_) ?_
          · rw [htu hux]; exact ⟨(litNBT_enc v).1, by rw [(litNBT_enc v).2, htag, hte]⟩
          · by_cases h0 : (et == 0) = true
            · have hz : et = 0 := eq_of_beq h0
              by_cases hu : u0 = true
              · exact Or.inr (Or.inl hu)
              · have hu' : u0 = false := by simpa using hu
                left
                cases hacc : acc0 with
                | nil => rfl
                | cons x r =>
                  have := (hgh hu').2.2 x (by rw [hacc]; simp)
                  rw [hz] at this
                  exact absurd this (doc_tag_ne_zero x)
            · rw [if_neg h0] at he2
              exact Or.inr (Or.inr he2.symm)
        -- `ws*` and the delimiter
        have hσ1 : (PS.listValue :: σ) ≠ [] := by simp
        have h3 := skipAfterV _ _ hav
        obtain ⟨s1, s2, s3, hexit3⟩ := skip_text (.listValue :: σ) d hσ1 hav hexit
        generalize skip d = d3 at *
        have h3' := h3
        obtain ⟨hg3, ho3, ob3, hp3, hb31, hb32⟩ := h3
        rcases hp3 with e3 | hend3
        · rw [if_pos (by simp [e3])] at hrun; cases hrun
        have hne3 : d3.opcode ≠ .error ∧ d3.opcode ≠ .end_ := by
          rcases EndOk_list hend3 with ⟨a, _⟩ | ⟨a, _⟩ <;> rw [a] <;> simp
        rw [if_neg (by simp [hne3.1])] at hrun
        obtain ⟨c3, hpe3, hle3, h1o3, hw3⟩ := exit_delim (.listValue :: σ) d3 h3' hexit3 hne3.1 hne3.2
        have hskk : skipWs k = c3 :: d3.next := by rw [hsk, s2, hpe3]
        have hlen3 : d3.next.length + 1 ≤ k.length := by
          have a1 := skipWs_length_le k
          rw [hskk] at a1
          simpa using a1
        have hlit1 : 1 ≤ lit.length := by
          have := hdone.shape
          cases lit with
          | nil => simp [LitShape] at this
          | cons _ _ => simp
        rcases EndOk_list hend3 with ⟨a, hbv⟩ | ⟨a, hpop⟩
        · -- `,`: another literal must follow
          rw [if_neg (by simp [a]), if_neg (by simp [a])] at hrun
          have hc3 : c3 = 44 := hw3.2.2.2.2.1 a
          subst hc3
          have h4 := skipBV _ d3 hbv hg3
          obtain ⟨t41, t42, t43⟩ := skipSpace_text d3 (Or.inl hbv.1) hg3 hle3
          generalize scanWhile .skipSpace d3 = d4 at *
          obtain ⟨hg4, ho4, ob4, hp4, hb41, hb42⟩ := h4
          by_cases e4 : d4.opcode = .error
          · rw [if_pos (by simp [e4])] at hrun; cases hrun
          rw [if_neg (by simp [e4])] at hrun
          by_cases hb : d4.opcode = .beginLiteral
          case neg => rw [if_pos (by simp [hb])] at hrun; cases hrun
          rw [if_neg (by simp [hb])] at hrun
          have hlit4 : ∃ c, ob4 = some c ∧ LitStart false (.listValue :: σ) d4.scan c := by
            rcases hp4 with e | ⟨_, c, e, hl⟩ | ⟨e, _⟩ | ⟨e, _⟩
            · exact absurd e e4
            · exact ⟨c, e, hl⟩
            · rw [hb] at e; cases e
            · rw [hb] at e; cases e
          obtain ⟨c4, hob4, hl4⟩ := hlit4
          obtain ⟨hc41, hc42⟩ := hb41 c4 hob4
          have hcore := readLiteral_core false (.listValue :: σ) d4 c4 hl4 hg4 hc41 hc42
          cases hr : readLiteral d4 with
          | err => rw [hr] at hrun; cases hrun
          | panic => rw [hr] at hrun; cases hrun
          | fuel => rw [hr] at hrun; cases hrun
          | ok p =>
            obtain ⟨d5, lit5⟩ := p
            have hexit5 := readLiteral_exit false (.listValue :: σ) d4 c4 hl4 hg4 hc41 hc42 d5 lit5 hr
            rw [hr] at hrun hcore
            dsimp only at hrun hcore
            obtain ⟨hdone5, hat5, hdata5, hsplit5, hprog5, hend5, _, _⟩ := hcore
            have hpend5 : d5.pend = d4.data.drop (d5.off - 1) := by unfold DState.pend; rw [hdata5]
            have htok5 : TokEnd d5.pend := by
              rw [hpend5]
              cases hk' : d4.data.drop (d5.off - 1) with
              | nil => trivial
              | cons x k' => exact hend5 (Or.inl (by simp)) x k' hk'
            have hsplit5' : d4.pend = lit5 ++ d5.pend := by unfold DState.pend; rw [hdata5]; exact hsplit5
            obtain ⟨r1, r2, r3, r4, r5, r6, xs', u', hne', hrd, hout⟩ :=
              ih d5 σ lit5 e2 (count + 1) (buf ++ litPayload v) d' out d5.pend (tx :: acc0) (u0 || ux)
                hdone5 htok5 rfl (Nat.le_refl _) (LitOk.afterV hat5) hexit5 hrun hgh1
            have hdd : d5.data = d.data := by rw [hdata5, t41, s1]
            have hl45 : d4.pend.length ≤ d3.next.length := by
              have := skipWs_length_le d3.next
              rw [t42] at this; exact this
            have hl5 : d5.pend.length + 1 ≤ d3.next.length := by
              have a1 := congrArg List.length hsplit5'
              simp only [List.length_append] at a1
              have : 1 ≤ lit5.length := by
                have := hdone5.shape
                cases lit5 with
                | nil => simp [LitShape] at this
                | cons _ _ => simp
              omega
            refine ⟨by rw [r1, hdd], by omega, by rw [← hdd]; exact r3, r4, r5, by omega, ?_⟩
            refine ⟨tx :: xs', ux || u', by simp, fun F hF => ?_, fun hu => ?_⟩
            · obtain ⟨F', rfl⟩ : ∃ F', F = F' + 1 := ⟨F - 1, by omega⟩
              obtain ⟨F'', rfl⟩ : ∃ F'', F' = F'' + 1 := ⟨F' - 1, by simp only [List.length_append] at hF; omega⟩
              unfold readElems
              rw [hrv F'']
              dsimp only
              rw [hskk]
              simp only [beq_self_eq_true, if_true]
              rw [readElems_skip fs _ _ _ _ _ t42, hsplit5']
              have hl6 : lit5.length + d5.pend.length = d4.pend.length := by
                have := congrArg List.length hsplit5'
                simp only [List.length_append] at this; omega
              rw [hrd (F'' + 1) (by simp only [List.length_append] at hF ⊢; omega)]
              simp [Bool.or_assoc]
            · have hu1 : ((u0 || ux) || u') = false := by simpa [Bool.or_assoc] using hu
              obtain ⟨e, he1, he2'⟩ := hout hu1
              refine ⟨e, ?_, ?_⟩
              · intro x hx; exact he1 x (by simpa using hx)
              · rw [he2']
                have l1 : (tx :: acc0).reverse ++ xs' = acc0.reverse ++ tx :: xs' := by simp
                have l2 : (tx :: acc0).length + xs'.length = acc0.length + (tx :: xs').length := by
                  simp only [List.length_cons]; omega
                rw [l1, l2]
        · -- `]`: the list is closed
          rw [if_pos (by simp [a])] at hrun
          injection hrun with hrun
          injection hrun with e1 e2'
          subst e1
          have hc3 : c3 = 93 := by
            rcases hw3.2.2.2.2.2 a with ⟨r, hr, _⟩ | ⟨r, _, hc⟩
            · cases hr
            · exact hc
          subst hc3
          refine ⟨s1, s3, by rw [← s1]; exact hle3, hpe3, closed_of hg3 ho3 ob3 a hpop hb31 hb32, hlen3, ?_⟩
          refine ⟨[tx], ux, by simp, fun F hF => ?_, fun hu => ?_⟩
          · obtain ⟨F', rfl⟩ : ∃ F', F = F' + 1 := ⟨F - 1, by omega⟩
            obtain ⟨F'', rfl⟩ : ∃ F'', F' = F'' + 1 := ⟨F' - 1, by simp only [List.length_append] at hF; omega⟩
            unfold readElems
            rw [hrv F'']
            dsimp only
            rw [hskk]
            simp only [show ((93 : Byte) == 44) = false by decide, Bool.false_eq_true, if_false,
              beq_self_eq_true, if_true]
            simp
          · obtain ⟨b1, b2, b3⟩ := hgh1 hu
            refine ⟨e2, ?_, ?_⟩
            · intro x hx
              have : x ∈ tx :: acc0 := by simpa [or_comm] using hx
              exact b3 x this
            · rw [← e2', b1, b2]
              simp

/-! ### rules for the positions where a list element is expected -/

theorem stEndValue_ne_begin (s : Scanner) (c : Byte) :
    (stEndValue s c).2 ≠ .beginCompound ∧ (stEndValue s c).2 ≠ .beginList ∧ (stEndValue s c).2 ≠ .beginLiteral := by
  unfold stEndValue
  cases hs : s.stack with
  | nil => dsimp only; unfold stEndTop; split <;> simp
  | cons ps r =>
    dsimp only
    split
    · simp
    · cases ps <;> dsimp only <;> (repeat' split) <;> simp [Scanner.error]

theorem stBeginValue_ne_endValue (s : Scanner) (c : Byte) : (stBeginValue s c).2 ≠ .endValue := by
  unfold stBeginValue
  split
  · simp
  · split
    · rcases push_ops { s with st := .compoundOrEmpty } .compoundName .beginCompound with e | e <;> rw [e] <;> simp
    · split
      · rcases push_ops { s with st := .listOrArray } .listValue .beginList with e | e <;> rw [e] <;> simp
      · have hbs : (stBeginString s c).2 ≠ .endValue := by
          rcases stBeginString_ops s c with e | e | e <;> rw [e] <;> simp
        split
        · exact hbs
        · split
          · simp
          · split
            · exact hbs
            · simp [Scanner.error]

/-- where a list element or the closing bracket is expected: which byte produced which opcode -/
def ElemRel (o : Op) (c : Byte) : Prop := BegRel o c ∧ (o = .endValue → c = 93)

theorem skipLA_char (σ : List PS) (d : DState) (h : LA σ d.scan) (hg : d.scan.Good) :
    ∀ x k, (scanWhile .skipSpace d).pend = x :: k → ElemRel (scanWhile .skipSpace d).opcode x :=
  skipSpace_char d (LA σ) ElemRel (fun s c hs => ⟨(LA_step σ s c hs).1, by
    have key : s.step c = (if isSpace c then (s, .skipSpace)
        else if c == 66 || c == 73 || c == 76 then ({ s with st := .listOrArrayT }, .beginLiteral)
        else if c == 93 then stEndValue s c else stBeginValue s c) := by unfold Scanner.step; rw [hs.1]
    rw [key]
    split
    · exact ⟨⟨by simp, by simp⟩, by simp⟩
    · split
      · exact ⟨⟨by simp, by simp⟩, by simp⟩
      · split
        · rename_i hc
          have := stEndValue_ne_begin s c
          exact ⟨⟨fun h => absurd h this.1, fun h => absurd h this.2.1⟩, fun _ => eq_of_beq hc⟩
        · exact ⟨stBeginValue_BegRel s c, fun h => absurd h (stBeginValue_ne_endValue s c)⟩⟩) h hg

theorem skipAT_char (σ : List PS) (d : DState) (h : AT σ d.scan) (hg : d.scan.Good) :
    ∀ x k, (scanWhile .skipSpace d).pend = x :: k → ElemRel (scanWhile .skipSpace d).opcode x :=
  skipSpace_char d (AT σ) ElemRel (fun s c hs => ⟨(AT_step σ s c hs).1, by
    have key : s.step c = (if isSpace c then (s, .skipSpace)
        else if c == 93 then stEndValue s c else stBeginValue s c) := by unfold Scanner.step; rw [hs.1]
    rw [key]
    split
    · exact ⟨⟨by simp, by simp⟩, by simp⟩
    · split
      · rename_i hc
        have := stEndValue_ne_begin s c
        exact ⟨⟨fun h => absurd h this.1, fun h => absurd h this.2.1⟩, fun _ => eq_of_beq hc⟩
      · exact ⟨stBeginValue_BegRel s c, fun h => absurd h (stBeginValue_ne_endValue s c)⟩⟩) h hg

/-- what a list loop knows about the state in which it looks for the next element (after its `skip`) -/
def ElemPos (T : Bytes) (d d1 : DState) : Prop :=
  d1.data = d.data ∧ d.off ≤ d1.off ∧ skipWs T = d1.pend ∧ d1.pend.length ≤ T.length ∧
  (∀ x k, d1.pend = x :: k → BegRel d1.opcode x) ∧ (d1.pend = [] → d1.opcode = .error ∨ d1.opcode = .end_)

/-- `d.scanNext()` after a `,` in a list, then `skip`: the grammar's `ws*` before the next element -/
theorem nextBV_text (σ : List PS) (d : DState) (h : BV σ d.scan) (hg : d.scan.Good) (ho : d.off ≤ d.data.length + 1) :
    ElemPos d.next d.scanNext (skip d.scanNext) := by
  obtain ⟨n1, n2, n3, n4, n5⟩ := scanNext_text d ho
  have hat := nextBV σ d h hg
  -- the byte consumed by `scanNext`, if any
  by_cases hlt : d.off < d.data.length
  · have hc : ∃ c, d.data[d.off]? = some c := ⟨d.data[d.off], List.getElem?_eq_getElem hlt⟩
    obtain ⟨c, hc⟩ := hc
    have hsn : d.scanNext = { d with opcode := (d.scan.step c).2, off := d.off + 1, scan := (d.scan.step c).1 } := by
      unfold DState.scanNext; rw [hc]
    have hnext : d.next = c :: d.scanNext.next := by
      unfold DState.next
      rw [List.drop_eq_getElem_cons hlt]
      have : d.data[d.off] = c := by rw [List.getElem?_eq_getElem hlt] at hc; exact Option.some.inj hc
      rw [this, hsn]
    have hws : WsState d.scan := Or.inl h.1
    unfold skip
    by_cases hop : d.scanNext.opcode = .skipSpace
    · rw [if_pos (by simp [hop])]
      have hsp : isSpace c = true := by
        apply Classical.byContradiction; intro hn
        have hn' : isSpace c = false := by simpa using hn
        have := step_nws d.scan c hws hn'
        rw [hsn] at hop; exact this hop
      have hbv' : BV σ d.scanNext.scan := by
        rw [hsn]; exact (BV_step σ d.scan c h).1 (by rw [hsn] at hop; exact hop)
      have hg' : d.scanNext.scan.Good := scanNext_good d hg
      obtain ⟨t1, t2, t3⟩ := skipSpace_text d.scanNext (Or.inl hbv'.1) hg' (by rw [n1]; rw [hsn]; simp; omega)
      refine ⟨t1, by omega, ?_, ?_, skipBV_char σ d.scanNext hbv' hg', scanWhile_eof_op .skipSpace d.scanNext hg'⟩
      · rw [hnext, skipWs, (spec_classes c).2.2, hsp]; simp only [if_true]; exact t2
      · have := skipWs_length_le d.scanNext.next
        rw [t2] at this
        rw [hnext]; simp; omega
    · rw [if_neg (by simp [hop])]
      have hsp : isSpace c = false := by
        apply Classical.byContradiction; intro hn
        have hn' : isSpace c = true := by simpa using hn
        have := (step_ws d.scan c hws hn').1
        rw [hsn] at hop; exact hop this
      refine ⟨rfl, Nat.le_refl _, ?_, by rw [n2]; exact Nat.le_refl _, ?_, ?_⟩
      · rw [n2, hnext]; exact skipWs_cons c _ hsp
      · intro x k hx
        rw [n2, hnext] at hx
        injection hx with hx _
        rw [← hx, hsn]
        have key : d.scan.step c = stBeginValue d.scan c := by unfold Scanner.step; rw [h.1]
        simp only [key]
        exact stBeginValue_BegRel d.scan c
      · intro hp
        rw [n2, hnext] at hp; cases hp
  · have hnil : d.next = [] := by unfold DState.next; exact List.drop_eq_nil_of_le (by omega)
    have hnone : d.data[d.off]? = none := List.getElem?_eq_none (by omega)
    have hsn : d.scanNext = { d with opcode := d.scan.eof.2, off := d.data.length + 1, scan := d.scan.eof.1 } := by
      unfold DState.scanNext; rw [hnone]
    have hop : d.scanNext.opcode ≠ .skipSpace := by
      rw [hsn]; rcases Scanner.eof_op d.scan with e | e <;> simp [e]
    unfold skip
    rw [if_neg (by simp [hop])]
    refine ⟨rfl, Nat.le_refl _, by rw [n2, hnil]; rfl, by rw [n2]; exact Nat.le_refl _, ?_, ?_⟩
    · intro x k hx; rw [n2, hnil] at hx; cases hx
    · intro _; rw [hsn]; exact Scanner.eof_op d.scan


/-! ### lists of lists -/

def SimLL (fs : FloatSem) (f : Nat) : Prop :=
  ∀ (d : DState) (σ : List PS) (et : Byte) (count : Nat) (buf : Bytes) (d' : DState) (out : Bytes) (T : Bytes)
    (acc0 : List NBT) (u0 : Bool),
    d.At (fun s o ob => (o = .skipSpace ∧ BV (.listValue :: σ) s) ∨ o = .error ∨ BVOk true (.listValue :: σ) s o ob) →
    ElemPos T d (skip d) →
    listListLoop (semOracle fs) f d et count buf = .ok (d', out) → ListGhost et count buf acc0 u0 →
    d'.data = d.data ∧ d.off ≤ d'.off ∧ d'.off ≤ d.data.length ∧ d'.pend = 93 :: d'.next ∧ ListClosed σ d' ∧
    d'.next.length + 1 ≤ T.length ∧ ListRes fs T acc0 u0 d' out

theorem SimLL_step (fs : FloatSem) (f : Nat) (hWL : SimWL fs f) (hLL : SimLL fs f) : SimLL fs (f + 1) := by
  intro d σ et count buf d' out T acc0 u0 hat hpos hrun hgh
  unfold listListLoop at hrun
  dsimp only at hrun
  have h1 := skipBefore true (.listValue :: σ) d hat
  generalize skip d = d1 at *
  obtain ⟨p1, p2, p3, p4, p5, p6⟩ := hpos
  have h1' := h1
  obtain ⟨hg1, ho1, ob, hp, hb1, hb2⟩ := h1
  by_cases hb : d1.opcode = .beginList
  case neg => rw [if_pos (by simp [hb])] at hrun; cases hrun
  rw [if_neg (by simp [hb])] at hrun
  have hla : LA (.listValue :: σ) d1.scan := by
    rcases hp with e | ⟨e, _⟩ | ⟨e, _⟩ | ⟨_, hla⟩
    · rw [hb] at e; cases e
    · rw [hb] at e; cases e
    · rw [hb] at e; cases e
    · exact hla
  -- the byte just consumed is `[`
  have hpe1 : d1.pend = 91 :: d1.next ∧ d1.off ≤ d1.data.length ∧ 1 ≤ d1.off := by
    obtain ⟨ob', _, hcase⟩ := at_pend h1'
    rcases hcase with ⟨c, _, hpe, hle, h1o⟩ | ⟨_, hpe, _, _⟩
    · have := (p5 c _ hpe).2 hb
      subst this
      exact ⟨hpe, hle, h1o⟩
    · rcases p6 hpe with h | h <;> rw [hb] at h <;> cases h
  cases hr : writeListOrArray (semOracle fs) f d1 false [] with
  | err => rw [hr] at hrun; cases hrun
  | panic => rw [hr] at hrun; cases hrun
  | fuel => rw [hr] at hrun; cases hrun
  | ok p =>
    obtain ⟨d2, t, o⟩ := p
    rw [hr] at hrun
    dsimp only at hrun
    obtain ⟨⟨a1, a2, a3, a4⟩, hexit2, hsimwl⟩ :=
      hWL d1 (.listValue :: σ) false [] d2 t o hla hg1 hpe1.2.1 hr
    obtain ⟨x, ux, hrv, hout⟩ := hsimwl (by intro h; cases h)
    have hsafe2 := (emitters_safe (semOracle fs) f).2.2.1 d1 (.listValue :: σ) false [] hla hg1
    rw [hr] at hsafe2
    split at hrun
    · cases hrun
    rename_i hc
    have hgh1 : ListGhost t (count + 1) (buf ++ o) (x :: acc0) (u0 || ux) := by
      refine ListGhost_snoc hgh (fun hux => ?_) ?_
      · obtain ⟨b1, b2⟩ := hout hux
        exact ⟨by rw [b2]; simp [hdr], b1.symm⟩
      · by_cases hu : u0 = true
        · exact Or.inr (Or.inl hu)
        · have hu' : u0 = false := by simpa using hu
          obtain ⟨_, g2, _⟩ := hgh hu'
          by_cases h0 : count = 0
          · left
            rw [h0] at g2
            exact List.length_eq_zero_iff.mp g2.symm
          · right; right
            apply Classical.byContradiction
            intro hne
            exact hc (by simp [Nat.pos_of_ne_zero h0, hne])
    -- after the element
    have hσ1 : (PS.listValue :: σ) ≠ [] := by simp
    have h3 := skipAfterV _ _ hsafe2.1
    obtain ⟨s1, s2, s3, hexit3⟩ := skip_text (.listValue :: σ) d2 hσ1 hsafe2.1 hexit2
    generalize skip d2 = d3 at *
    have h3' := h3
    obtain ⟨hg3, ho3, ob3, hp3, hb31, hb32⟩ := h3
    rcases hp3 with e3 | hend3
    · rw [if_pos (by simp [e3])] at hrun; cases hrun
    have hne3 : d3.opcode ≠ .error ∧ d3.opcode ≠ .end_ := by
      rcases EndOk_list hend3 with ⟨a, _⟩ | ⟨a, _⟩ <;> rw [a] <;> simp
    rw [if_neg (by simp [hne3.1])] at hrun
    obtain ⟨c3, hpe3, hle3, h1o3, hw3⟩ := exit_delim (.listValue :: σ) d3 h3' hexit3 hne3.1 hne3.2
    have hdd2 : d2.data = d.data := by rw [a1, p1]
    have hdd3 : d3.data = d.data := by rw [s1, hdd2]
    -- lengths
    have hlT : d.data.length + 1 - d1.off ≤ T.length := by
      have := pend_length d1 ho1 hpe1.2.2
      rw [p1] at this; omega
    have hfirst : ∀ F', d2.off - d1.off + 1 ≤ F' → readValue fs F' T = some (x, ux, d2.pend) := by
      intro F' hF'
      rw [readValue_skip fs _ _ _ p3, hpe1.1]
      exact hrv F' hF'
    rcases EndOk_list hend3 with ⟨a, hbv⟩ | ⟨a, hpop⟩
    · -- `,`
      rw [if_neg (by simp [a]), if_neg (by simp [a])] at hrun
      have hc3 : c3 = 44 := hw3.2.2.2.2.1 a
      subst hc3
      have hpos' := nextBV_text (.listValue :: σ) d3 hbv hg3 ho3
      obtain ⟨r1, r2, r3, r4, r5, r6, xs', u', hne', hrd, hout'⟩ :=
        hLL d3.scanNext σ t (count + 1) (buf ++ o) d' out d3.next (x :: acc0) (u0 || ux)
          (nextBV' _ d3 hbv hg3) hpos' hrun hgh1
      obtain ⟨n1, n2, n3, n4, n5⟩ := scanNext_text d3 ho3
      have hn3 := n3 hle3
      have hdd' : d'.data = d.data := by rw [r1, n1, hdd3]
      have hnl' := next_length d'
      have hnl3 := next_length d3
      rw [hdd'] at hnl'
      rw [hdd3] at hnl3
      rw [n1, hdd3] at r3
      rw [hdd3] at hle3
      rw [p1] at hpe1
      refine ⟨hdd', by omega, r3, r4, r5, by omega, ?_⟩
      refine ⟨x :: xs', ux || u', by simp, fun F hF => ?_, fun hu => ?_⟩
      · obtain ⟨F', rfl⟩ : ∃ F', F = F' + 1 := ⟨F - 1, by omega⟩
        unfold readElems
        rw [hfirst F' (by omega)]
        dsimp only
        rw [s2, hpe3]
        simp only [beq_self_eq_true, if_true]
        rw [hrd F' (by omega)]
        simp [Bool.or_assoc]
      · have hu1 : ((u0 || ux) || u') = false := by simpa [Bool.or_assoc] using hu
        obtain ⟨e, he1, he2⟩ := hout' hu1
        refine ⟨e, ?_, ?_⟩
        · intro y hy; exact he1 y (by simpa using hy)
        · rw [he2]
          have l1 : (x :: acc0).reverse ++ xs' = acc0.reverse ++ x :: xs' := by simp
          have l2 : (x :: acc0).length + xs'.length = acc0.length + (x :: xs').length := by
            simp only [List.length_cons]; omega
          rw [l1, l2]
    · -- `]`
      rw [if_pos (by simp [a])] at hrun
      injection hrun with hrun
      injection hrun with e1 e2
      subst e1
      have hc3 : c3 = 93 := by
        rcases hw3.2.2.2.2.2 a with ⟨r, hr', _⟩ | ⟨r, _, hc'⟩
        · cases hr'
        · exact hc'
      subst hc3
      have hnl3 := next_length d3
      rw [hdd3] at hnl3 hle3
      rw [p1] at hpe1
      refine ⟨hdd3, by omega, hle3, hpe3, closed_of hg3 ho3 ob3 a hpop hb31 hb32, by omega, ?_⟩
      refine ⟨[x], ux, by simp, fun F hF => ?_, fun hu => ?_⟩
      · obtain ⟨F', rfl⟩ : ∃ F', F = F' + 1 := ⟨F - 1, by omega⟩
        unfold readElems
        rw [hfirst F' (by omega)]
        dsimp only
        rw [s2, hpe3]
        simp only [show ((93 : Byte) == 44) = false by decide, Bool.false_eq_true, if_false,
          beq_self_eq_true, if_true]
        simp
      · obtain ⟨b1, b2, b3⟩ := hgh1 hu
        refine ⟨t, ?_, ?_⟩
        · intro y hy
          have : y ∈ x :: acc0 := by simpa [or_comm] using hy
          exact b3 y this
        · rw [← e2, b1, b2]
          simp


/-! ### lists of compounds -/

/-- from the entries (`SimCL`, called right after `{`) to the compound as a value -/
theorem simCL_value (fs : FloatSem) (σ : List PS) (d1 d2 : DState) (o : Bytes) (h12 : d1.off ≤ d2.off - 1)
    (h : ∃ kvs u, (u = false → o = [] ++ kvPre kvs ++ [0]) ∧
      ((CE σ d1.scan ∧ kvs = [] ∧ u = false ∧ skipWs d1.next = 125 :: d2.pend) ∨
       (kvs ≠ [] ∧ (∃ c k, skipWs d1.next = c :: k ∧ (c == 125) = false) ∧
        ∀ F, d2.off - d1.off ≤ F → ∀ acc0 u0,
          readEntries fs F d1.next acc0 u0 = some (acc0.reverse ++ kvs, u0 || u, d2.pend)))) :
    ∃ kvs u, (∀ F, d2.off - d1.off + 1 ≤ F → readValue fs F (123 :: d1.next) = some (.compound kvs, u, d2.pend)) ∧
      (u = false → o = encPayload (.compound kvs)) := by
  obtain ⟨kvs, u, hout, hsim⟩ := h
  refine ⟨kvs, u, fun F hF => ?_, fun hu => ?_⟩
  · obtain ⟨F', rfl⟩ : ∃ F', F = F' + 1 := ⟨F - 1, by omega⟩
    unfold readValue
    rw [skipWs_cons 123 _ (by decide)]
    simp only [show ((123 : Byte) == 123) = true by decide, if_true]
    rcases hsim with ⟨_, hk, hu', hsk⟩ | ⟨hne, ⟨c, k, hsk, hc⟩, hre⟩
    · rw [hsk]
      simp only [beq_self_eq_true, if_true]
      rw [hk, hu']
    · rw [hsk]
      simp only [hc, Bool.false_eq_true, if_false]
      rw [hre F' (by omega) [] false]
      simp
  · rw [hout hu]
    simp only [List.nil_append, encPayload, doc_encKvs_eq]

def SimCLL (fs : FloatSem) (f : Nat) : Prop :=
  ∀ (d : DState) (σ : List PS) (count : Nat) (buf : Bytes) (d' : DState) (out : Bytes) (T : Bytes)
    (acc0 : List NBT) (u0 : Bool),
    d.At (fun s o ob => (o = .skipSpace ∧ BV (.listValue :: σ) s) ∨ o = .error ∨ BVOk true (.listValue :: σ) s o ob) →
    ElemPos T d (skip d) →
    compListLoop (semOracle fs) f d count buf = .ok (d', out) → ListGhost tagCompound count buf acc0 u0 →
    d'.data = d.data ∧ d.off ≤ d'.off ∧ d'.off ≤ d.data.length ∧ d'.pend = 93 :: d'.next ∧ ListClosed σ d' ∧
    d'.next.length + 1 ≤ T.length ∧ ListRes fs T acc0 u0 d' out

theorem SimCLL_step (fs : FloatSem) (f : Nat) (hCL : SimCL fs f) (hCLL : SimCLL fs f) : SimCLL fs (f + 1) := by
  intro d σ count buf d' out T acc0 u0 hat hpos hrun hgh
  unfold compListLoop at hrun
  dsimp only at hrun
  have h1 := skipBefore true (.listValue :: σ) d hat
  generalize skip d = d1 at *
  obtain ⟨p1, p2, p3, p4, p5, p6⟩ := hpos
  have h1' := h1
  obtain ⟨hg1, ho1, ob, hp, hb1, hb2⟩ := h1
  by_cases hb : d1.opcode = .beginCompound
  case neg => rw [if_pos (by simp [hb])] at hrun; cases hrun
  rw [if_neg (by simp [hb])] at hrun
  have hce : CE (.listValue :: σ) d1.scan := by
    rcases hp with e | ⟨e, _⟩ | ⟨_, hce⟩ | ⟨e, _⟩
    · rw [hb] at e; cases e
    · rw [hb] at e; cases e
    · exact hce
    · rw [hb] at e; cases e
  have hpe1 : d1.pend = 123 :: d1.next ∧ d1.off ≤ d1.data.length ∧ 1 ≤ d1.off := by
    obtain ⟨ob', _, hcase⟩ := at_pend h1'
    rcases hcase with ⟨c, _, hpe, hle, h1o⟩ | ⟨_, hpe, _, _⟩
    · have := (p5 c _ hpe).1 hb
      subst this
      exact ⟨hpe, hle, h1o⟩
    · rcases p6 hpe with h | h <;> rw [hb] at h <;> cases h
  cases hr : compLoop (semOracle fs) f d1 [] with
  | err => rw [hr] at hrun; cases hrun
  | panic => rw [hr] at hrun; cases hrun
  | fuel => rw [hr] at hrun; cases hrun
  | ok p =>
    obtain ⟨d2, o⟩ := p
    rw [hr] at hrun
    dsimp only at hrun
    obtain ⟨⟨a1, a2, a3, a4⟩, hexit2, hsimcl⟩ := hCL d1 (.listValue :: σ) [] d2 o (Or.inl hce) hg1 hpe1.2.1 hr
    obtain ⟨kvs, ux, hrv, hout⟩ := simCL_value fs (.listValue :: σ) d1 d2 o a2 hsimcl
    have hsafe2 := (emitters_safe (semOracle fs) f).2.1 d1 (.listValue :: σ) [] (Or.inl hce) hg1 kvAcc_nil
    rw [hr] at hsafe2
    have hgh1 : ListGhost tagCompound (count + 1) (buf ++ o) (.compound kvs :: acc0) (u0 || ux) :=
      ListGhost_snoc hgh (fun hux => ⟨(hout hux).symm, rfl⟩) (Or.inr (Or.inr rfl))
    -- after the element
    have hσ1 : (PS.listValue :: σ) ≠ [] := by simp
    have h3 := skipAfterV _ _ hsafe2.1
    obtain ⟨s1, s2, s3, hexit3⟩ := skip_text (.listValue :: σ) d2 hσ1 hsafe2.1 hexit2
    generalize skip d2 = d3 at *
    have hsk : skip d3 = d3 := by
      unfold skip
      obtain ⟨_, _, _, hp3, _, _⟩ := h3
      rcases hp3 with e3 | hend3
      · simp [e3]
      · have := EndOk_ne_skipSpace hend3
        simp [this]
    rw [hsk] at hrun
    have h3' := h3
    obtain ⟨hg3, ho3, ob3, hp3, hb31, hb32⟩ := h3
    rcases hp3 with e3 | hend3
    · rw [if_pos (by simp [e3])] at hrun; cases hrun
    have hne3 : d3.opcode ≠ .error ∧ d3.opcode ≠ .end_ := by
      rcases EndOk_list hend3 with ⟨a, _⟩ | ⟨a, _⟩ <;> rw [a] <;> simp
    rw [if_neg (by simp [hne3.1])] at hrun
    obtain ⟨c3, hpe3, hle3, h1o3, hw3⟩ := exit_delim (.listValue :: σ) d3 h3' hexit3 hne3.1 hne3.2
    have hdd2 : d2.data = d.data := by rw [a1, p1]
    have hdd3 : d3.data = d.data := by rw [s1, hdd2]
    have hlT : d.data.length + 1 - d1.off ≤ T.length := by
      have := pend_length d1 ho1 hpe1.2.2
      rw [p1] at this; omega
    have hfirst : ∀ F', d2.off - d1.off + 1 ≤ F' → readValue fs F' T = some (.compound kvs, ux, d2.pend) := by
      intro F' hF'
      rw [readValue_skip fs _ _ _ p3, hpe1.1]
      exact hrv F' hF'
    rcases EndOk_list hend3 with ⟨a, hbv⟩ | ⟨a, hpop⟩
    · -- `,`
      rw [if_neg (by simp [a]), if_neg (by simp [a])] at hrun
      have hc3 : c3 = 44 := hw3.2.2.2.2.1 a
      subst hc3
      have hpos' := nextBV_text (.listValue :: σ) d3 hbv hg3 ho3
      obtain ⟨r1, r2, r3, r4, r5, r6, xs', u', hne', hrd, hout'⟩ :=
        hCLL d3.scanNext σ (count + 1) (buf ++ o) d' out d3.next (.compound kvs :: acc0) (u0 || ux)
          (nextBV' _ d3 hbv hg3) hpos' hrun hgh1
      obtain ⟨n1, n2, n3, n4, n5⟩ := scanNext_text d3 ho3
      have hn3 := n3 hle3
      have hdd' : d'.data = d.data := by rw [r1, n1, hdd3]
      have hnl' := next_length d'
      have hnl3 := next_length d3
      rw [hdd'] at hnl'
      rw [hdd3] at hnl3
      rw [n1, hdd3] at r3
      rw [hdd3] at hle3
      rw [p1] at hpe1
      refine ⟨hdd', by omega, r3, r4, r5, by omega, ?_⟩
      refine ⟨.compound kvs :: xs', ux || u', by simp, fun F hF => ?_, fun hu => ?_⟩
      · obtain ⟨F', rfl⟩ : ∃ F', F = F' + 1 := ⟨F - 1, by omega⟩
        unfold readElems
        rw [hfirst F' (by omega)]
        dsimp only
        rw [s2, hpe3]
        simp only [beq_self_eq_true, if_true]
        rw [hrd F' (by omega)]
        simp [Bool.or_assoc]
      · have hu1 : ((u0 || ux) || u') = false := by simpa [Bool.or_assoc] using hu
        obtain ⟨e, he1, he2⟩ := hout' hu1
        refine ⟨e, ?_, ?_⟩
        · intro y hy; exact he1 y (by simpa using hy)
        · rw [he2]
          have l1 : (NBT.compound kvs :: acc0).reverse ++ xs' = acc0.reverse ++ .compound kvs :: xs' := by simp
          have l2 : (NBT.compound kvs :: acc0).length + xs'.length = acc0.length + (NBT.compound kvs :: xs').length := by
            simp only [List.length_cons]; omega
          rw [l1, l2]
    · -- `]`
      rw [if_pos (by simp [a])] at hrun
      injection hrun with hrun
      injection hrun with e1 e2
      subst e1
      have hc3 : c3 = 93 := by
        rcases hw3.2.2.2.2.2 a with ⟨r, hr', _⟩ | ⟨r, _, hc'⟩
        · cases hr'
        · exact hc'
      subst hc3
      have hnl3 := next_length d3
      rw [hdd3] at hnl3 hle3
      rw [p1] at hpe1
      refine ⟨hdd3, by omega, hle3, hpe3, closed_of hg3 ho3 ob3 a hpop hb31 hb32, by omega, ?_⟩
      refine ⟨[.compound kvs], ux, by simp, fun F hF => ?_, fun hu => ?_⟩
      · obtain ⟨F', rfl⟩ : ∃ F', F = F' + 1 := ⟨F - 1, by omega⟩
        unfold readElems
        rw [hfirst F' (by omega)]
        dsimp only
        rw [s2, hpe3]
        simp only [show ((93 : Byte) == 44) = false by decide, Bool.false_eq_true, if_false,
          beq_self_eq_true, if_true]
        simp
      · obtain ⟨b1, b2, b3⟩ := hgh1 hu
        refine ⟨tagCompound, ?_, ?_⟩
        · intro y hy
          have : y ∈ NBT.compound kvs :: acc0 := by simpa [or_comm] using hy
          exact b3 y this
        · rw [← e2, b1, b2]
          simp


end GoMC.Model.SNBT
