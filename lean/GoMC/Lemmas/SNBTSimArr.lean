import GoMC.Lemmas.SNBTSimComp
namespace GoMC.Model.SNBT
open GoMC Scanner DState Spec
open GoMC.Spec.SNBT (isWs isDigit isLetter isTokenByte skipWs spanToken spanDigits digitsVal stripSign inRange lower
  classify readQuoted readKey arrayElem mkArray readArrayElems readValue readEntries readElems FloatSem Tok)

/-! ### typed arrays: the element production -/

/-- element tag and element value of a typed array with prefix letter `kind` -/
def arrTag (kind : Byte) : Byte := if kind == 66 then tagByte else if kind == 73 then tagInt else tagLong
def arrLit (kind : Byte) (x : Int) : Lit :=
  if kind == 66 then .i8 (BitVec.ofInt 8 x) else if kind == 73 then .i32 (BitVec.ofInt 32 x) else .i64 (BitVec.ofInt 64 x)

/-- where the grammar gives an array element a definite reading, `parseLiteral` returns it with the element tag of
the array; where the grammar refuses the element, `parseLiteral` does not return a value of that tag -/
def ArrOK (fo : FloatOracle) (kind : Byte) (tok : Bytes) (X : Option (Option Int)) : Prop :=
  (∀ x, X = some (some x) → parseLiteral fo tok = .ok (arrTag kind, some (arrLit kind x))) ∧
  (X = none → ∀ v, parseLiteral fo tok ≠ .ok (arrTag kind, some v))

theorem ArrOK_unspec (fo : FloatOracle) (kind : Byte) (tok : Bytes) : ArrOK fo kind tok (some none) :=
  ⟨(by intro x h; cases h), (by intro h; cases h)⟩

/-- the grammar refuses: the parser's tag is another one -/
theorem ArrOK_tag (fo : FloatOracle) (kind : Byte) (tok : Bytes) (tag : Byte) (o : Option Lit)
    (hp : parseLiteral fo tok = .ok (tag, o)) (hne : tag ≠ arrTag kind) : ArrOK fo kind tok none := by
  refine ⟨(by intro x h; cases h), fun _ v hv => ?_⟩
  rw [hp] at hv; injection hv with hv; injection hv with e _; exact hne e

/-- the range check -/
theorem ArrOK_chk (fo : FloatOracle) (kind : Byte) (tok : Bytes) (o : Option Int) (mk : Int → Lit)
    (hp : parseLiteral fo tok = .ok (arrTag kind, o.map mk)) (hmk : ∀ x, mk x = arrLit kind x)
    (X : Option (Option Int)) (hs : ∀ a, o = some a → X = some (some a)) (hn : o = none → X = none) :
    ArrOK fo kind tok X := by
  cases o with
  | none =>
    rw [hn rfl]
    refine ⟨(by intro x h; cases h), fun _ v hv => ?_⟩
    rw [hp] at hv; injection hv with hv; injection hv with _ e; cases e
  | some a =>
    rw [hs a rfl]
    refine ⟨fun x h => ?_, (by intro h; cases h)⟩
    injection h with h; injection h with h; subst h
    rw [hp, ← hmk]; rfl

theorem arr_sound (fs : FloatSem) (kind : Byte) (hk : kind = 66 ∨ kind = 73 ∨ kind = 76) (tok : Bytes) (hne : tok ≠ [])
    (hall : ∀ c ∈ tok, isAllowedInUnquotedString c = true) :
    ArrOK (semOracle fs) kind tok (arrayElem kind tok) := by
  cases tok with
  | nil => exact absurd rfl hne
  | cons c0 rest =>
    obtain ⟨sg, neg, body, hss, htok, hsg⟩ := stripSign_spec (c0 :: rest)
    obtain ⟨ip, r1, hsd, hbody, hipd, hr1⟩ := spanDigits_spec body
    unfold arrayElem
    simp only [hss, hsd]
    by_cases hip : ip = []
    · subst hip
      simp only [List.isEmpty_nil, if_true]
      by_cases hL : (isLetter c0 || c0 == 95) = true
      · simp only [hL, if_true]
        refine ArrOK_tag _ kind _ tagString _ (parseLiteral_bareTok _ c0 rest hL hall) ?_
        rcases hk with e | e | e <;> subst e <;> decide
      · simp only [hL, Bool.false_eq_true, if_false]
        exact ArrOK_unspec _ _ _
    · have hemp : ip.isEmpty = false := by cases ip with | nil => exact absurd rfl hip | cons _ _ => rfl
      simp only [hemp, Bool.false_eq_true, if_false]
      have htok' : c0 :: rest = sg ++ ip ++ r1 := by rw [htok, hbody]; simp
      rw [htok']
      have leafI : ∀ (w : Nat) (tok : Bytes) (mk : Int → Lit) (X : Option (Option Int)),
          parseLiteral (semOracle fs) tok = .ok (arrTag kind, (parseInt w (sg ++ ip)).map mk) →
          (∀ x, mk x = arrLit kind x) →
          (∀ a, inRange w neg (digitsVal ip) = some a → X = some (some a)) →
          (inRange w neg (digitsVal ip) = none → X = none) → ArrOK (semOracle fs) kind tok X := by
        intro w tok mk X hp hmk h1 h2
        rw [parseInt_sign_digits w sg ip neg hsg hip hipd] at hp
        exact ArrOK_chk _ kind tok _ mk hp hmk X h1 h2
      cases r1 with
      | nil =>
        simp only [List.map_nil, List.append_nil]
        have hp := parseLiteral_intShape (semOracle fs) sg ip neg hsg hip hipd
        by_cases h73 : (kind == 73) = true
        · simp only [h73, if_true]
          have : kind = 73 := eq_of_beq h73
          subst this
          exact leafI 32 _ (fun v => .i32 (BitVec.ofInt 32 v)) _ hp (fun x => rfl) (fun a h => by rw [h]) (fun h => by rw [h])
        · simp only [h73, Bool.false_eq_true, if_false]
          refine ArrOK_tag _ kind _ tagInt _ hp ?_
          rcases hk with e | e | e <;> subst e <;> first | decide | (exfalso; exact h73 rfl)
      | cons d r2 =>
        cases r2 with
        | nil =>
          simp only [List.map_cons, List.map_nil]
          obtain ⟨l1, l2, l3, l4, l5, l6⟩ := lower_cases d
          rw [l1, l3, l4, l2, l5, l6]
          have hps : isIntegerType d = true → parseLiteral (semOracle fs) (sg ++ ip ++ [d]) = intDispatch (semOracle fs) d (sg ++ ip) :=
            fun h => parseLiteral_intSuffix _ sg ip neg d hsg hip hipd h
          have hd0 : (d == 0) = false := by
            have hda := hall d (by rw [htok']; simp)
            have : ∀ n : Fin (2^8), (let c : Byte := BitVec.ofFin n; isAllowedInUnquotedString c = true → (c == 0) = false) := by
              decide +kernel
            exact this d.toFin hda
          by_cases c1 : (d == 66 || d == 98) = true
          · have hi : isIntegerType d = true := by
              rcases Bool.or_eq_true _ _ |>.mp c1 with h | h <;> (have := eq_of_beq h; subst this; decide)
            have hp := hps hi
            unfold intDispatch at hp
            simp only [c1, if_true] at hp ⊢
            by_cases h66 : (kind == 66) = true
            · simp only [h66, if_true]
              have : kind = 66 := eq_of_beq h66
              subst this
              exact leafI 8 _ (fun v => .i8 (BitVec.ofInt 8 v)) _ hp (fun x => rfl) (fun a h => by rw [h]) (fun h => by rw [h])
            · simp only [h66, Bool.false_eq_true, if_false]
              refine ArrOK_tag _ kind _ tagByte _ hp ?_
              rcases hk with e | e | e <;> subst e <;> first | decide | (exfalso; exact h66 rfl)
          · have c1' : (d == 66 || d == 98) = false := by simpa using c1
            simp only [c1', Bool.false_eq_true, if_false]
            by_cases c3 : (d == 73 || d == 105) = true
            · have hi : isIntegerType d = true := by
                rcases Bool.or_eq_true _ _ |>.mp c3 with h | h <;> (have := eq_of_beq h; subst this; decide)
              have c2' : (d == 83 || d == 115) = false := by
                rcases Bool.or_eq_true _ _ |>.mp c3 with h | h <;> (have := eq_of_beq h; subst this; decide)
              have hp := hps hi
              unfold intDispatch at hp
              simp only [c1', c2', c3, Bool.true_or, Bool.false_eq_true, if_false, if_true] at hp ⊢
              by_cases h73 : (kind == 73) = true
              · simp only [h73, if_true]
                have : kind = 73 := eq_of_beq h73
                subst this
                exact leafI 32 _ (fun v => .i32 (BitVec.ofInt 32 v)) _ hp (fun x => rfl) (fun a h => by rw [h]) (fun h => by rw [h])
              · simp only [h73, Bool.false_eq_true, if_false]
                refine ArrOK_tag _ kind _ tagInt _ hp ?_
                rcases hk with e | e | e <;> subst e <;> first | decide | (exfalso; exact h73 rfl)
            · have c3' : (d == 73 || d == 105) = false := by simpa using c3
              simp only [c3', Bool.false_eq_true, if_false]
              by_cases c4 : (d == 76 || d == 108) = true
              · have hi : isIntegerType d = true := by
                  rcases Bool.or_eq_true _ _ |>.mp c4 with h | h <;> (have := eq_of_beq h; subst this; decide)
                have c2' : (d == 83 || d == 115) = false := by
                  rcases Bool.or_eq_true _ _ |>.mp c4 with h | h <;> (have := eq_of_beq h; subst this; decide)
                have hp := hps hi
                unfold intDispatch at hp
                simp only [c1', c2', c3', hd0, c4, Bool.or_false, Bool.false_eq_true, if_false, if_true] at hp ⊢
                by_cases h76 : (kind == 76) = true
                · simp only [h76, if_true]
                  have : kind = 76 := eq_of_beq h76
                  subst this
                  exact leafI 64 _ (fun v => .i64 (BitVec.ofInt 64 v)) _ hp (fun x => rfl) (fun a h => by rw [h]) (fun h => by rw [h])
                · simp only [h76, Bool.false_eq_true, if_false]
                  refine ArrOK_tag _ kind _ tagLong _ hp ?_
                  rcases hk with e | e | e <;> subst e <;> first | decide | (exfalso; exact h76 rfl)
              · have c4' : (d == 76 || d == 108) = false := by simpa using c4
                simp only [c4', Bool.false_eq_true, if_false]
                by_cases c7 : ((d == 83 || d == 115) || (d == 70 || d == 102) || (d == 68 || d == 100)) = true
                · simp only [c7, if_true]
                  have hi : isIntegerType d = true := by
                    have : ∀ n : Fin (2^8), (let c : Byte := BitVec.ofFin n
                        ((c == 83 || c == 115) || (c == 70 || c == 102) || (c == 68 || c == 100)) = true →
                        isIntegerType c = true) := by decide +kernel
                    exact this d.toFin c7
                  have hp := hps hi
                  -- the tag is Short, Float or Double
                  have htag : ∃ tag o, intDispatch (semOracle fs) d (sg ++ ip) = .ok (tag, o) ∧
                      (tag = tagShort ∨ tag = tagFloat ∨ tag = tagDouble) := by
                    unfold intDispatch
                    simp only [c1', c3', hd0, c4', Bool.or_false, Bool.false_eq_true, if_false]
                    by_cases a : (d == 83 || d == 115) = true
                    · simp only [a, if_true]; exact ⟨_, _, rfl, Or.inl rfl⟩
                    · have a' : (d == 83 || d == 115) = false := by simpa using a
                      simp only [a', Bool.false_eq_true, if_false]
                      by_cases b : (d == 70 || d == 102) = true
                      · simp only [b, if_true]; exact ⟨_, _, rfl, Or.inr (Or.inl rfl)⟩
                      · have b' : (d == 70 || d == 102) = false := by simpa using b
                        have cc : (d == 68 || d == 100) = true := by
                          simp only [a', b', Bool.false_or] at c7; exact c7
                        simp only [b', cc, Bool.false_eq_true, if_false, if_true]
                        exact ⟨_, _, rfl, Or.inr (Or.inr rfl)⟩
                  obtain ⟨tag, o, hd, htg⟩ := htag
                  rw [hd] at hp
                  refine ArrOK_tag _ kind _ tag o hp ?_
                  rcases hk with e | e | e <;> subst e <;> rcases htg with t | t | t <;> subst t <;> decide
                · simp only [c7, Bool.false_eq_true, if_false]
                  exact ArrOK_unspec _ _ _
        | cons d2 r3 =>
          simp only [List.map_cons]
          exact ArrOK_unspec _ _ _


/-! ### typed arrays: the loop -/

/-- the bytes of the elements of a typed array -/
def arrBytes (kind : Byte) (xs : List Int) : Bytes :=
  if kind == 66 then xs.map (BitVec.ofInt 8)
  else if kind == 73 then (xs.map fun x => beBytes 4 (BitVec.ofInt 32 x).toNat).flatten
  else (xs.map fun x => beBytes 8 (BitVec.ofInt 64 x).toNat).flatten

theorem arrBytes_snoc (kind : Byte) (xs : List Int) (x : Int) :
    arrBytes kind (xs ++ [x]) = arrBytes kind xs ++ arrBytes kind [x] := by
  unfold arrBytes
  split
  · simp
  · split <;> simp

theorem mkArray_enc (kind : Byte) (xs : List Int) :
    encPayload (mkArray kind xs) = beBytes 4 xs.length ++ arrBytes kind xs := by
  unfold mkArray arrBytes
  split
  · simp [encPayload]
  · split
    · simp [encPayload, be32, List.map_map, Function.comp_def]
    · simp [encPayload, be64, List.map_map, Function.comp_def]

theorem mkArray_tag (kind : Byte) (hk : kind = 66 ∨ kind = 73 ∨ kind = 76) (xs : List Int) :
    (mkArray kind xs).tag = (if kind == 66 then tagByteArray else if kind == 73 then tagIntArray else tagLongArray) := by
  rcases hk with e | e | e <;> subst e <;> rfl

def SimArr (fs : FloatSem) (kind : Byte) (f : Nat) : Prop :=
  ∀ (d : DState) (σ : List PS) (count : Nat) (buf : Bytes) (d' : DState) (out : Bytes) (T : Bytes)
    (acc0 : List Int) (u0 : Bool),
    d.At (fun s o ob => (o = .skipSpace ∧ BV (.listValue :: σ) s) ∨ o = .error ∨ BVOk false (.listValue :: σ) s o ob) →
    d.opcode ≠ .skipSpace → skipWs T = d.pend →
    arrayLoop (semOracle fs) (arrTag kind) f d count buf = .ok (d', out) →
    (u0 = false → count = acc0.length ∧ buf = arrBytes kind acc0.reverse) →
    d'.data = d.data ∧ d.off ≤ d'.off ∧ d'.off ≤ d.data.length ∧ d'.pend = 93 :: d'.next ∧ ListClosed σ d' ∧
    (∃ c k, skipWs T = c :: k ∧ (c == 93) = false) ∧
    ∃ xs u, (∀ F, T.length + 1 ≤ F → readArrayElems kind F T acc0 u0 = some (acc0.reverse ++ xs, u0 || u, d'.next)) ∧
      ((u0 || u) = false → out = beBytes 4 (acc0.length + xs.length) ++ arrBytes kind (acc0.reverse ++ xs))

theorem skipWs_length_le (t : Bytes) : (skipWs t).length ≤ t.length := by
  induction t with
  | nil => simp [skipWs]
  | cons c cs ih =>
    rw [skipWs]
    split
    · simp; omega
    · simp

theorem arrTag_cases (kind : Byte) (hk : kind = 66 ∨ kind = 73 ∨ kind = 76) :
    arrTag kind = tagByte ∨ arrTag kind = tagInt ∨ arrTag kind = tagLong := by
  rcases hk with e | e | e <;> subst e
  · exact Or.inl rfl
  · exact Or.inr (Or.inl rfl)
  · exact Or.inr (Or.inr rfl)

theorem simArr (fs : FloatSem) (kind : Byte) (hk : kind = 66 ∨ kind = 73 ∨ kind = 76) : ∀ f, SimArr fs kind f := by
  intro f
  induction f with
  | zero =>
    intro d σ count buf d' out T acc0 u0 _ _ _ hrun _
    simp [arrayLoop] at hrun
  | succ f ih =>
    intro d σ count buf d' out T acc0 u0 hat hop hT hrun hacc
    unfold arrayLoop at hrun
    dsimp only at hrun
    have hsk : skip d = d := by unfold skip; simp [hop]
    rw [hsk] at hrun
    obtain ⟨hg, ho, ob, hp, hb1, hb2⟩ := hat
    by_cases hb : d.opcode = .beginLiteral
    case neg => rw [if_pos (by simp [hb])] at hrun; cases hrun
    rw [if_neg (by simp [hb])] at hrun
    have hlit : ∃ c, ob = some c ∧ LitStart false (.listValue :: σ) d.scan c := by
      rcases hp with ⟨e, _⟩ | e | ⟨_, c, e, hl⟩ | ⟨e, _⟩ | ⟨e, _⟩
      · exact absurd e hop
      · rw [hb] at e; cases e
      · exact ⟨c, e, hl⟩
      · rw [hb] at e; cases e
      · rw [hb] at e; cases e
    obtain ⟨c, hob, hl⟩ := hlit
    obtain ⟨hc1, hc2⟩ := hb1 c hob
    obtain ⟨hpe, hle⟩ := pend_of_some d c hc1 hc2
    have hcore := readLiteral_core false (.listValue :: σ) d c hl hg hc1 hc2
    cases hr : readLiteral d with
    | err => rw [hr] at hrun; cases hrun
    | panic => rw [hr] at hrun; cases hrun
    | fuel => rw [hr] at hrun; cases hrun
    | ok p =>
      obtain ⟨d2, lit⟩ := p
      have hexit2 := readLiteral_exit false (.listValue :: σ) d c hl hg hc1 hc2 d2 lit hr
      rw [hr] at hrun hcore
      dsimp only at hrun hcore
      obtain ⟨hdone, hat2, hdata2, hsplit, hprog2, hend, _, _⟩ := hcore
      have hpend2 : d2.pend = d.data.drop (d2.off - 1) := by unfold DState.pend; rw [hdata2]
      have htok : TokEnd d2.pend := by
        rw [hpend2]
        cases hk' : d.data.drop (d2.off - 1) with
        | nil => trivial
        | cons x k => exact hend (Or.inl (by simp)) x k hk'
      have hsplit' : d.pend = lit ++ d2.pend := by unfold DState.pend; rw [hdata2]; exact hsplit
      cases hpl : parseLiteral (semOracle fs) lit with
      | err => rw [hpl] at hrun; cases hrun
      | panic => rw [hpl] at hrun; cases hrun
      | fuel => rw [hpl] at hrun; cases hrun
      | ok q =>
        obtain ⟨sub, ov⟩ := q
        rw [hpl] at hrun
        cases ov with
        | none => cases hrun
        | some v =>
          dsimp only at hrun
          by_cases hte : sub = arrTag kind
          case neg => rw [if_pos (by simp [hte])] at hrun; cases hrun
          rw [if_neg (by simp [hte])] at hrun
          subst hte
          have htag := parseLiteral_tag (semOracle fs) lit _ v hpl
          -- the literal is not quoted
          have hunq : lit ≠ [] ∧ ∀ x ∈ lit, isAllowedInUnquotedString x = true := by
            rcases hdone with h | ⟨q', body, r, hq, hlit', _⟩
            · exact h
            · exfalso
              have hqq : (q' == 34 || q' == 39) = true := by rcases hq with e | e <;> subst e <;> decide
              rw [hlit'] at hpl
              obtain ⟨s, _, _, _, ht, _⟩ := quoted_sound (semOracle fs) q' (body ++ [q']) hqq _ _ hpl
              rcases arrTag_cases kind hk with e | e | e <;> rw [e] at ht <;> cases ht
          obtain ⟨hok1, hok2⟩ := arr_sound fs kind hk lit hunq.1 hunq.2
          -- after the element
          have hσ1 : (PS.listValue :: σ) ≠ [] := by simp
          have h3 := skipAfterV _ _ (LitOk.afterV hat2)
          obtain ⟨s1, s2, s3, hexit3⟩ := skip_text (.listValue :: σ) d2 hσ1 (LitOk.afterV hat2) hexit2
          generalize skip d2 = d3 at *
          have h3' := h3
          obtain ⟨hg3, ho3, ob3, hp3, hb31, hb32⟩ := h3
          have hdd3 : d3.data = d.data := by rw [s1, hdata2]
          -- the grammar's reading of this element
          have hspan : spanToken (lit ++ d2.pend) = (lit, d2.pend) := spanToken_run lit d2.pend hunq.2 htok
          have hlemp : lit.isEmpty = false := by
            cases lit with
            | nil => exact absurd rfl hunq.1
            | cons _ _ => rfl
          have hcont : ∀ bs : Bytes, (∀ x, v = arrLit kind x → bs = arrBytes kind [x]) →
              (if d3.opcode == .error then (.err : PRes (DState × Bytes))
               else if d3.opcode == .endValue then .ok (d3, Spec.beBytes 4 (count + 1) ++ (buf ++ bs))
               else if d3.opcode != .listValue then .panic
               else arrayLoop (semOracle fs) (arrTag kind) f (scanWhile .skipSpace d3) (count + 1) (buf ++ bs)) =
                .ok (d', out) →
              d'.data = d.data ∧ d.off ≤ d'.off ∧ d'.off ≤ d.data.length ∧ d'.pend = 93 :: d'.next ∧ ListClosed σ d' ∧
              (∃ c k, skipWs T = c :: k ∧ (c == 93) = false) ∧
              ∃ xs u, (∀ F, T.length + 1 ≤ F → readArrayElems kind F T acc0 u0 = some (acc0.reverse ++ xs, u0 || u, d'.next)) ∧
                ((u0 || u) = false → out = beBytes 4 (acc0.length + xs.length) ++ arrBytes kind (acc0.reverse ++ xs)) := by
            intro bs hbs hrun
            have hhead : ∃ c k, skipWs T = c :: k ∧ (c == 93) = false := by
              refine ⟨c, d.next, by rw [hT, hpe], ?_⟩
              rcases hl.2.2 with ⟨_, hc⟩ | ⟨_, hc⟩ | ⟨_, hc⟩
              · rw [hc]; decide
              · rw [hc]; decide
              · exact (allowed_facts c hc).2.1
            -- accumulate
            have hstep : ∃ acc1 u1, (u1 = false → count + 1 = acc1.length ∧ buf ++ bs = arrBytes kind acc1.reverse) ∧
                (∃ ys, acc1.reverse = acc0.reverse ++ ys) ∧ (∃ w, u1 = (u0 || w)) ∧
                ∀ (F' : Nat) (R : Option (List Int × Bool × Bytes)),
                  (match skipWs d2.pend with
                   | c :: r' => if c == 44 then readArrayElems kind F' r' acc1 u1
                                else if c == 93 then some (acc1.reverse, u1, r') else none
                   | [] => none) = R →
                  readArrayElems kind (F' + 1) T acc0 u0 = R := by
              cases hae : arrayElem kind lit with
              | none => exact absurd hpl (hok2 hae v)
              | some ov' =>
                cases ov' with
                | none =>
                  refine ⟨acc0, true, (by intro h; cases h), ⟨[], by simp⟩, ⟨true, by simp⟩, fun F' R hR => ?_⟩
                  unfold readArrayElems
                  simp only [hT, hsplit', hspan, hlemp, Bool.false_eq_true, if_false, hae]
                  exact hR
                | some x =>
                  have hv : v = arrLit kind x := by
                    have := hok1 x hae
                    rw [hpl] at this
                    injection this with this; injection this with _ this
                    exact Option.some.inj this
                  refine ⟨x :: acc0, u0, fun hu => ?_, ⟨[x], by simp⟩, ⟨false, by simp⟩, fun F' R hR => ?_⟩
                  · obtain ⟨a1, a2⟩ := hacc hu
                    refine ⟨by simp [a1], ?_⟩
                    rw [List.reverse_cons, arrBytes_snoc, a2, hbs x hv]
                  · unfold readArrayElems
                    simp only [hT, hsplit', hspan, hlemp, Bool.false_eq_true, if_false, hae]
                    exact hR
            obtain ⟨acc1, u1, hacc1, ⟨ys, hys⟩, ⟨w, hw⟩, hspec⟩ := hstep
            rcases hp3 with e3 | hend3
            · rw [if_pos (by simp [e3])] at hrun; cases hrun
            have hne3 : d3.opcode ≠ .error ∧ d3.opcode ≠ .end_ := by
              rcases EndOk_list hend3 with ⟨a, _⟩ | ⟨a, _⟩ <;> rw [a] <;> simp
            rw [if_neg (by simp [hne3.1])] at hrun
            obtain ⟨c3, hpe3, hle3, h1o3, hw3⟩ := exit_delim (.listValue :: σ) d3 h3' hexit3 hne3.1 hne3.2
            have hlenT : d3.next.length + 2 ≤ T.length := by
              have a1 := skipWs_length_le T
              have a2 := skipWs_length_le d2.pend
              rw [hT, hsplit'] at a1
              rw [s2, hpe3] at a2
              have a3 : 1 ≤ lit.length := by
                cases lit with
                | nil => exact absurd rfl hunq.1
                | cons _ _ => simp
              simp only [List.length_append, List.length_cons] at a1 a2
              omega
            rcases EndOk_list hend3 with ⟨a, hbv⟩ | ⟨a, hpop⟩
            · -- `,`
              rw [if_neg (by simp [a]), if_neg (by simp [a])] at hrun
              have hc3 : c3 = 44 := hw3.2.2.2.2.1 a
              subst hc3
              have h4 := skipBV _ d3 hbv hg3
              obtain ⟨t41, t42, t43⟩ := skipSpace_text d3 (Or.inl hbv.1) hg3 hle3
              have hop4 : (scanWhile .skipSpace d3).opcode ≠ .skipSpace := by
                obtain ⟨_, _, _, hp4, _, _⟩ := h4
                exact ns_of_BVOk hp4
              obtain ⟨r1, r2, r3, r4, r5, _, xs', u', hrd, hout⟩ :=
                ih (scanWhile .skipSpace d3) σ (count + 1) (buf ++ bs) d' out d3.next acc1 u1
                  (h4.mono (fun s o ob hp => Or.inr hp)) hop4 t42 hrun hacc1
              refine ⟨by rw [r1, t41, hdd3], by omega, by rw [← hdd3, ← t41]; exact r3, r4, r5, hhead,
                ys ++ xs', w || u', fun F hF => ?_, fun hu => ?_⟩
              · obtain ⟨F', rfl⟩ : ∃ F', F = F' + 1 := ⟨F - 1, by omega⟩
                apply hspec F'
                rw [s2, hpe3]
                simp only [beq_self_eq_true, if_true]
                rw [hrd F' (by omega), hys, hw]
                simp [Bool.or_assoc]
              · have hu1 : (u1 || u') = false := by rw [hw]; simpa [Bool.or_assoc] using hu
                rw [hout hu1]
                have : acc1.length = acc0.length + ys.length := by
                  have := congrArg List.length hys
                  simpa using this
                rw [hys, this]
                simp [Nat.add_assoc]
            · -- `]`
              rw [if_pos (by simp [a])] at hrun
              injection hrun with hrun
              injection hrun with e1 e2
              subst e1
              have hc3 : c3 = 93 := by
                rcases hw3.2.2.2.2.2 a with ⟨r, hr, _⟩ | ⟨r, _, hc⟩
                · cases hr
                · exact hc
              subst hc3
              refine ⟨hdd3, by omega, by rw [← hdd3]; exact hle3, hpe3, closed_of hg3 ho3 ob3 a hpop hb31 hb32, hhead,
                ys, w, fun F hF => ?_, fun hu => ?_⟩
              · obtain ⟨F', rfl⟩ : ∃ F', F = F' + 1 := ⟨F - 1, by omega⟩
                apply hspec F'
                rw [s2, hpe3]
                simp only [show ((93 : Byte) == 44) = false by decide, Bool.false_eq_true, if_false,
                  beq_self_eq_true, if_true]
                rw [hys, hw]
              · have hu1 : u1 = false := by rw [hw]; exact hu
                obtain ⟨b1, b2⟩ := hacc1 hu1
                have : acc1.length = acc0.length + ys.length := by
                  have := congrArg List.length hys
                  simpa using this
                rw [← e2, b1, b2, hys, this]
          rcases hk with e | e | e <;> subst e <;> cases v <;>
            first
            | (exfalso; revert htag; simp only [litTag, arrTag]; decide)
            | (simp only [arrTag, tagByte, tagInt, tagLong] at hrun hcont
               refine hcont _ (fun x hx => ?_) hrun
               simp only [arrLit, arrBytes] at hx ⊢
               injection hx with hx
               subst hx
               simp)


end GoMC.Model.SNBT
