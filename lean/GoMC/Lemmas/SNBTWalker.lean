/-
  Lemmas for the binary → text walker (C03 clause of C04): fragmentation invariance, extension stability, fuel
  monotonicity, "a strict prefix of a document is never ok", negative lengths are errors.
-/
import GoMC.Lemmas.SNBT
namespace GoMC.Model.SNBT
open GoMC Rd

/-! ### fragmentation invariance -/

theorem fragInv_readIntBE (k : Nat) : FragInv (readIntBE k) := by
  unfold readIntBE
  exact fragInv_bind (fragInv_readFull k) (fun _ => fragInv_pure _)

theorem fragInv_readString : FragInv readString := by
  unfold readString
  refine fragInv_bind (fragInv_readIntBE 2) (fun n => ?_)
  exact fragInv_ite fragInv_fail (fragInv_ite (fragInv_readFull _) (fragInv_pure _))

theorem fragInv_byteLoop (n : Nat) : ∀ first acc, FragInv (byteLoop n first acc) := by
  induction n with
  | zero => intro first acc; exact fragInv_pure _
  | succ n ih => intro first acc; unfold byteLoop; exact fragInv_bind fragInv_readByte (fun _ => ih _ _)

theorem fragInv_numLoop (k : Nat) (suf : Byte) (n : Nat) : ∀ first acc, FragInv (numLoop k suf n first acc) := by
  induction n with
  | zero => intro first acc; exact fragInv_pure _
  | succ n ih => intro first acc; unfold numLoop; exact fragInv_bind (fragInv_readIntBE k) (fun _ => ih _ _)

theorem walker_fragInv (fo : FmtOracle) : ∀ fuel : Nat,
    (∀ tag, FragInv (encode fo fuel tag)) ∧
    (∀ t n first acc, FragInv (wListLoop fo fuel t n first acc)) ∧
    (∀ first acc, FragInv (wCompLoop fo fuel first acc)) := by
  intro fuel
  induction fuel with
  | zero =>
    refine ⟨?_, ?_, ?_⟩
    · intro tag; unfold encode; exact fragInv_crash
    · intro t n first acc; unfold wListLoop; exact fragInv_ite (fragInv_pure _) fragInv_crash
    · intro first acc; unfold wCompLoop; exact fragInv_crash
  | succ f ih =>
    obtain ⟨ihE, ihL, ihC⟩ := ih
    refine ⟨?_, ?_, ?_⟩
    · intro tag
      unfold encode
      split
      · exact fragInv_bind fragInv_readByte (fun _ => fragInv_pure _)
      · exact fragInv_bind fragInv_readString (fun _ => fragInv_pure _)
      · exact fragInv_bind (fragInv_readIntBE 2) (fun _ => fragInv_pure _)
      · exact fragInv_bind (fragInv_readIntBE 4) (fun _ => fragInv_pure _)
      · exact fragInv_bind (fragInv_readFull 4) (fun _ => fragInv_pure _)
      · exact fragInv_bind (fragInv_readIntBE 8) (fun _ => fragInv_pure _)
      · exact fragInv_bind (fragInv_readFull 8) (fun _ => fragInv_pure _)
      · exact fragInv_bind (fragInv_readIntBE 4) (fun _ => fragInv_ite fragInv_fail
          (fragInv_bind (fragInv_byteLoop _ _ _) (fun _ => fragInv_pure _)))
      · exact fragInv_bind (fragInv_readIntBE 4) (fun _ => fragInv_ite fragInv_fail
          (fragInv_bind (fragInv_numLoop _ _ _ _ _) (fun _ => fragInv_pure _)))
      · exact fragInv_bind (fragInv_readIntBE 4) (fun _ => fragInv_ite fragInv_fail
          (fragInv_bind (fragInv_numLoop _ _ _ _ _) (fun _ => fragInv_pure _)))
      · exact fragInv_bind fragInv_readByte (fun _ => fragInv_bind (fragInv_readIntBE 4) (fun _ =>
          fragInv_ite fragInv_fail (fragInv_ite fragInv_fail
            (fragInv_bind (ihL _ _ _ _) (fun _ => fragInv_pure _)))))
      · exact ihC _ _
      · exact fragInv_fail
    · intro t n first acc
      unfold wListLoop
      cases n with
      | zero => exact fragInv_pure _
      | succ n => exact fragInv_bind (ihE t) (fun _ => ihL _ _ _ _)
    · intro first acc
      unfold wCompLoop
      refine fragInv_bind fragInv_readByte (fun tt => ?_)
      refine fragInv_ite fragInv_fail ?_
      refine fragInv_bind (fragInv_ite (fragInv_pure _) fragInv_readString) (fun tn => ?_)
      dsimp only
      exact fragInv_ite (fragInv_pure _) (fragInv_bind (ihE tt) (fun _ => ihC _ _))

/-! ### extension stability -/

theorem extStable_readIntBE (k : Nat) : ExtStable (readIntBE k) := by
  unfold readIntBE
  exact extStable_bind (extStable_readFull k) (fun _ => extStable_pure _)

theorem extStable_readString : ExtStable readString := by
  unfold readString
  refine extStable_bind (extStable_readIntBE 2) (fun n => ?_)
  exact extStable_ite extStable_fail (extStable_ite (extStable_readFull _) (extStable_pure _))

theorem extStable_byteLoop (n : Nat) : ∀ first acc, ExtStable (byteLoop n first acc) := by
  induction n with
  | zero => intro first acc; exact extStable_pure _
  | succ n ih => intro first acc; unfold byteLoop; exact extStable_bind extStable_readByte (fun _ => ih _ _)

theorem extStable_numLoop (k : Nat) (suf : Byte) (n : Nat) : ∀ first acc, ExtStable (numLoop k suf n first acc) := by
  induction n with
  | zero => intro first acc; exact extStable_pure _
  | succ n ih => intro first acc; unfold numLoop; exact extStable_bind (extStable_readIntBE k) (fun _ => ih _ _)

theorem walker_extStable (fo : FmtOracle) : ∀ fuel : Nat,
    (∀ tag, ExtStable (encode fo fuel tag)) ∧
    (∀ t n first acc, ExtStable (wListLoop fo fuel t n first acc)) ∧
    (∀ first acc, ExtStable (wCompLoop fo fuel first acc)) := by
  intro fuel
  induction fuel with
  | zero =>
    refine ⟨?_, ?_, ?_⟩
    · intro tag; unfold encode; exact extStable_crash
    · intro t n first acc; unfold wListLoop; exact extStable_ite (extStable_pure _) extStable_crash
    · intro first acc; unfold wCompLoop; exact extStable_crash
  | succ f ih =>
    obtain ⟨ihE, ihL, ihC⟩ := ih
    refine ⟨?_, ?_, ?_⟩
    · intro tag
      unfold encode
      split
      · exact extStable_bind extStable_readByte (fun _ => extStable_pure _)
      · exact extStable_bind extStable_readString (fun _ => extStable_pure _)
      · exact extStable_bind (extStable_readIntBE 2) (fun _ => extStable_pure _)
      · exact extStable_bind (extStable_readIntBE 4) (fun _ => extStable_pure _)
      · exact extStable_bind (extStable_readFull 4) (fun _ => extStable_pure _)
      · exact extStable_bind (extStable_readIntBE 8) (fun _ => extStable_pure _)
      · exact extStable_bind (extStable_readFull 8) (fun _ => extStable_pure _)
      · exact extStable_bind (extStable_readIntBE 4) (fun _ => extStable_ite extStable_fail
          (extStable_bind (extStable_byteLoop _ _ _) (fun _ => extStable_pure _)))
      · exact extStable_bind (extStable_readIntBE 4) (fun _ => extStable_ite extStable_fail
          (extStable_bind (extStable_numLoop _ _ _ _ _) (fun _ => extStable_pure _)))
      · exact extStable_bind (extStable_readIntBE 4) (fun _ => extStable_ite extStable_fail
          (extStable_bind (extStable_numLoop _ _ _ _ _) (fun _ => extStable_pure _)))
      · exact extStable_bind extStable_readByte (fun _ => extStable_bind (extStable_readIntBE 4) (fun _ =>
          extStable_ite extStable_fail (extStable_ite extStable_fail
            (extStable_bind (ihL _ _ _ _) (fun _ => extStable_pure _)))))
      · exact ihC _ _
      · exact extStable_fail
    · intro t n first acc
      unfold wListLoop
      cases n with
      | zero => exact extStable_pure _
      | succ n => exact extStable_bind (ihE t) (fun _ => ihL _ _ _ _)
    · intro first acc
      unfold wCompLoop
      refine extStable_bind extStable_readByte (fun tt => ?_)
      refine extStable_ite extStable_fail ?_
      refine extStable_bind (extStable_ite (extStable_pure _) extStable_readString) (fun tn => ?_)
      dsimp only
      exact extStable_ite (extStable_pure _) (extStable_bind (ihE tt) (fun _ => ihC _ _))




/-- whenever `p` succeeds, `q` succeeds with the same value and residual -/
def Le {α} (p q : Rd α) : Prop := ∀ s a s', p s = (Res.ok a, s') → q s = (Res.ok a, s')

theorem Le.refl {α} (p : Rd α) : Le p p := fun _ _ _ h => h

theorem Le.crash {α} (q : Rd α) : Le (Rd.crash : Rd α) q := by
  intro s a s' h; simp [Rd.crash] at h

theorem Le.bind {α β} {p p' : Rd α} {k k' : α → Rd β} (hp : Le p p') (hk : ∀ a, Le (k a) (k' a)) :
    Le (p >>= k) (p' >>= k') := by
  intro s b s'' h
  rw [Rd.bind_apply] at h
  rcases hps : p s with ⟨r, s1⟩
  rw [hps] at h
  cases r with
  | ok a =>
    simp only at h
    rw [Rd.bind_ok (hp s a s1 hps)]
    exact hk a s1 b s'' h
  | err => simp at h
  | panic => simp at h

theorem Le.ite {α} {c : Prop} [Decidable c] {p p' q q' : Rd α} (hp : Le p p') (hq : Le q q') :
    Le (if c then p else q) (if c then p' else q') := by
  split <;> assumption

/-- more fuel never changes a successful walk -/
theorem walker_mono (fo : FmtOracle) : ∀ f : Nat,
    (∀ g tag, f ≤ g → Le (encode fo f tag) (encode fo g tag)) ∧
    (∀ g t n first acc, f ≤ g → Le (wListLoop fo f t n first acc) (wListLoop fo g t n first acc)) ∧
    (∀ g first acc, f ≤ g → Le (wCompLoop fo f first acc) (wCompLoop fo g first acc)) := by
  intro f
  induction f with
  | zero =>
    refine ⟨?_, ?_, ?_⟩
    · intro g tag _; unfold encode; exact Le.crash _
    · intro g t n first acc _
      cases g with
      | zero => exact Le.refl _
      | succ g =>
        cases n with
        | zero => unfold wListLoop; simp; exact Le.refl _
        | succ n =>
          intro s a s' h
          simp [wListLoop, Rd.crash] at h
    · intro g first acc _; unfold wCompLoop; exact Le.crash _
  | succ f ih =>
    obtain ⟨ihE, ihL, ihC⟩ := ih
    refine ⟨?_, ?_, ?_⟩
    · intro g tag hg
      obtain ⟨g, rfl⟩ : ∃ g', g = g' + 1 := ⟨g - 1, by omega⟩
      have hfg : f ≤ g := by omega
      unfold encode
      generalize tag.toNat = n
      match n with
      | 0 => exact Le.refl _
      | 1 => exact Le.refl _
      | 2 => exact Le.refl _
      | 3 => exact Le.refl _
      | 4 => exact Le.refl _
      | 5 => exact Le.refl _
      | 6 => exact Le.refl _
      | 7 => exact Le.refl _
      | 8 => exact Le.refl _
      | 9 =>
        exact Le.bind (Le.refl _) (fun _ => Le.bind (Le.refl _) (fun _ =>
          Le.ite (Le.refl _) (Le.ite (Le.refl _) (Le.bind (ihL g _ _ _ _ hfg) (fun _ => Le.refl _)))))
      | 10 => exact ihC g _ _ hfg
      | 11 => exact Le.refl _
      | 12 => exact Le.refl _
      | n + 13 => exact Le.refl _
    · intro g t n first acc hg
      obtain ⟨g, rfl⟩ : ∃ g', g = g' + 1 := ⟨g - 1, by omega⟩
      have hfg : f ≤ g := by omega
      unfold wListLoop
      cases n with
      | zero => exact Le.refl _
      | succ n => exact Le.bind (ihE g t hfg) (fun _ => ihL g _ _ _ _ hfg)
    · intro g first acc hg
      obtain ⟨g, rfl⟩ : ∃ g', g = g' + 1 := ⟨g - 1, by omega⟩
      have hfg : f ≤ g := by omega
      unfold wCompLoop
      refine Le.bind (Le.refl _) (fun tt => Le.ite (Le.refl _) (Le.bind (Le.refl _) (fun tn => ?_)))
      dsimp only
      exact Le.ite (Le.refl _) (Le.bind (ihE g tt hfg) (fun _ => ihC g _ _ hfg))



/-- a strict prefix of the bytes `UnmarshalNBT` consumed is never accepted -/
theorem unmarshalNBT_prefix (fo : FmtOracle) (tag : Byte) (s s' : Stream) (text : Bytes) (pre more rest : Bytes)
    (hs : s.flat = pre ++ more ++ rest) (hrun : unmarshalNBT fo tag s = (Res.ok text, s')) (hres : s'.flat = rest)
    (hmore : more ≠ []) (t : Stream) (ht : t.flat = pre) : ∀ b, (unmarshalNBT fo tag t).1 ≠ Res.ok b := by
  intro b hb
  unfold unmarshalNBT at hrun hb
  by_cases h0 : (tag == 0) = true
  · rw [if_pos h0] at hrun; cases hrun
  · rw [if_neg h0] at hrun hb
    -- the walk on the prefix, replayed with the (larger) fuel of the full stream
    rcases hpt : encode fo (walkFuel t.flat.length) tag t with ⟨r, t'⟩
    rw [hpt] at hb
    simp only at hb
    subst hb
    have hle : walkFuel t.flat.length ≤ walkFuel s.flat.length := by
      unfold walkFuel; rw [hs, ht]; simp; omega
    have hbig := (walker_mono fo _).1 _ tag hle t b t' hpt
    exact Rd.prefix_fails ((walker_extStable fo (walkFuel s.flat.length)).1 tag) hs hrun hres hmore t ht b
      (by rw [hbig])

theorem beNat4 (b0 b1 b2 b3 : Byte) :
    beNat [b0, b1, b2, b3] = b0.toNat * 16777216 + b1.toNat * 65536 + b2.toNat * 256 + b3.toNat := by
  simp [beNat]; omega

/-- the signed 32-bit count read from four bytes whose first has the top bit set is negative -/
theorem readIntBE4_neg (s : Stream) (b0 b1 b2 b3 : Byte) (rest : Bytes) (hs : s.flat = b0 :: b1 :: b2 :: b3 :: rest)
    (hneg : 128 ≤ b0.toNat) : ∃ n : Int, n < 0 ∧ readIntBE 4 s = (Res.ok n, s.drop 4) := by
  have hfull : Rd.readFull 4 s = (Res.ok [b0, b1, b2, b3], s.drop 4) := by
    unfold Rd.readFull
    rw [hs]; simp
  have h1 := b1.isLt; have h2 := b2.isLt; have h3 := b3.isLt; have h0 := b0.isLt
  refine ⟨(beNat [b0, b1, b2, b3] : Int) - 2 ^ (8 * 4), ?_, ?_⟩
  · rw [beNat4]
    have : (2 : Int) ^ (8 * 4) = 4294967296 := by decide
    rw [this]; omega
  · unfold readIntBE
    rw [Rd.bind_ok hfull]
    have hge : beNat [b0, b1, b2, b3] ≥ 2 ^ (8 * 4 - 1) := by
      rw [beNat4]
      have : (2 : Nat) ^ (8 * 4 - 1) = 2147483648 := by decide
      rw [this]; omega
    simp [hge]

/-- a negative array length (tags 7, 11, 12) is an error -/
theorem encode_neg_array (fo : FmtOracle) (f : Nat) (tag : Byte) (s : Stream) (b0 b1 b2 b3 : Byte) (rest : Bytes)
    (htag : tag = 7 ∨ tag = 11 ∨ tag = 12) (hs : s.flat = b0 :: b1 :: b2 :: b3 :: rest) (hneg : 128 ≤ b0.toNat) :
    (encode fo (f + 1) tag s).1 = Res.err := by
  obtain ⟨n, hn, hr⟩ := readIntBE4_neg s b0 b1 b2 b3 rest hs hneg
  unfold encode
  rcases htag with h | h | h <;> subst h <;> simp only [show (7 : Byte).toNat = 7 from rfl,
      show (11 : Byte).toNat = 11 from rfl, show (12 : Byte).toNat = 12 from rfl] <;>
    rw [Rd.bind_ok hr] <;> simp [hn, Rd.fail]

/-- a negative list length (tag 9) is an error -/
theorem encode_neg_list (fo : FmtOracle) (f : Nat) (s : Stream) (e b0 b1 b2 b3 : Byte) (rest : Bytes)
    (hs : s.flat = e :: b0 :: b1 :: b2 :: b3 :: rest) (hneg : 128 ≤ b0.toNat) :
    (encode fo (f + 1) 9 s).1 = Res.err := by
  have hb : Rd.readByte s = (Res.ok e, s.drop 1) := by unfold Rd.readByte; rw [hs]
  have hs1 : (s.drop 1).flat = b0 :: b1 :: b2 :: b3 :: rest := by simp [hs]
  obtain ⟨n, hn, hr⟩ := readIntBE4_neg (s.drop 1) b0 b1 b2 b3 rest hs1 hneg
  unfold encode
  simp only [show (9 : Byte).toNat = 9 from rfl]
  rw [Rd.bind_ok hb, Rd.bind_ok hr]
  simp [hn, Rd.fail]


/-- `UnmarshalNBT` cannot tell two deliveries of the same bytes apart -/
theorem unmarshalNBT_fragInv (fo : FmtOracle) (tag : Byte) : FragInv (unmarshalNBT fo tag) := by
  intro s t h
  unfold unmarshalNBT
  split
  · exact ⟨rfl, h⟩
  · rw [h.1]
    exact (walker_fragInv fo _).1 tag s t h

end GoMC.Model.SNBT
