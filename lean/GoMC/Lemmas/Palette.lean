/-
  Helper lemmas for C12 (PaletteContainer): palette lookups, the representation invariant, `Get`, `Set`
  without and with a resize (the copy loop), the wire form.
-/
import GoMC.Model.Palette
import GoMC.Spec.Paletted
import GoMC.Lemmas.BitStorage
namespace GoMC.Lemmas.Palette
open GoMC GoMC.Model GoMC.Spec GoMC.Lemmas.BitStorage

/-! ### palette lookups -/

theorem firstIdx_some {v : Int} {l : List Int} {k : Nat} (h : firstIdx v l = some k) :
    k < l.length ∧ l.getD k 0 = v := by
  induction l generalizing k with
  | nil => simp [firstIdx] at h
  | cons x xs ih =>
    unfold firstIdx at h
    by_cases hx : x = v
    · simp only [hx, if_true, Option.some.injEq] at h
      subst h; subst hx; simp
    · simp only [hx, if_false] at h
      cases hf : firstIdx v xs with
      | none => simp [hf] at h
      | some j =>
        simp only [hf, Option.map_some, Option.some.injEq] at h
        subst h
        obtain ⟨h1, h2⟩ := ih hf
        exact ⟨by simp; omega, by simpa using h2⟩

theorem firstIdx_none {v : Int} {l : List Int} : firstIdx v l = none ↔ v ∉ l := by
  induction l with
  | nil => simp [firstIdx]
  | cons x xs ih =>
    unfold firstIdx
    by_cases hx : x = v
    · simp [hx]
    · simp only [hx, if_false, Option.map_eq_none_iff, ih, List.mem_cons, not_or]
      constructor
      · intro h; exact ⟨fun e => hx e.symm, h⟩
      · intro h; exact h.2

theorem lastIdx_some {v : Int} {l : List Int} {k : Nat} (h : lastIdx v l = some k) :
    k < l.length ∧ l.getD k 0 = v := by
  induction l generalizing k with
  | nil => simp [lastIdx] at h
  | cons x xs ih =>
    unfold lastIdx at h
    cases hf : lastIdx v xs with
    | some j =>
      simp only [hf, Option.some.injEq] at h
      subst h
      obtain ⟨h1, h2⟩ := ih hf
      exact ⟨by simp; omega, by simpa using h2⟩
    | none =>
      simp only [hf] at h
      by_cases hx : x = v
      · simp only [hx, if_true, Option.some.injEq] at h
        subst h; subst hx; simp
      · simp [hx] at h

theorem lastIdx_none {v : Int} {l : List Int} : lastIdx v l = none ↔ v ∉ l := by
  induction l with
  | nil => simp [lastIdx]
  | cons x xs ih =>
    unfold lastIdx
    cases hf : lastIdx v xs with
    | some j =>
      have : ¬ v ∉ xs := fun hn => by rw [ih.mpr hn] at hf; cases hf
      simp only [List.mem_cons, not_or]
      constructor
      · intro h; cases h
      · intro h; exact absurd h.2 this
    | none =>
      have hn : v ∉ xs := ih.mp hf
      by_cases hx : x = v
      · simp [hx]
      · simp only [hx, if_false, List.mem_cons, not_or, true_iff]
        exact ⟨fun e => hx e.symm, hn⟩

/-- the lookup of `id`: the slice scan of the linear palette or the map of the hash palette -/
def lookup (h : Bool) (v : Int) (vals : List Int) : Option Nat := if h then lastIdx v vals else firstIdx v vals

theorem lookup_some {h : Bool} {v : Int} {l : List Int} {k : Nat} (hl : lookup h v l = some k) :
    k < l.length ∧ l.getD k 0 = v := by
  unfold lookup at hl
  cases h
  · exact firstIdx_some (by simpa using hl)
  · exact lastIdx_some (by simpa using hl)

theorem lookup_none {h : Bool} {v : Int} {l : List Int} : lookup h v l = none ↔ v ∉ l := by
  unfold lookup
  cases h
  · simpa using firstIdx_none
  · simpa using lastIdx_none

theorem lookup_isSome_of_mem {h : Bool} {v : Int} {l : List Int} (hm : v ∈ l) : ∃ k, lookup h v l = some k := by
  cases hl : lookup h v l with
  | none => exact absurd hm (lookup_none.mp hl)
  | some k => exact ⟨k, rfl⟩

theorem id_indirect (h : Bool) (vals : List Int) (cap : Nat) (bits v : Int) :
    (Pal.indirect h vals cap bits).id v =
      match lookup h v vals with
      | some k => (((k : Int), true), .indirect h vals cap bits)
      | none =>
        if cap - vals.length > 0 then (((vals.length : Int), true), .indirect h (vals ++ [v]) cap bits)
        else ((bits + 1, false), .indirect h vals cap bits) := rfl

/-- a duplicate-free list inside another list is not longer -/
theorem nodup_length_le {l m : List Int} (hn : l.Nodup) (hs : ∀ x ∈ l, x ∈ m) : l.length ≤ m.length := by
  induction l generalizing m with
  | nil => simp
  | cons x xs ih =>
    have hx : x ∈ m := hs x (by simp)
    have hnx : x ∉ xs := (List.nodup_cons.mp hn).1
    have := ih (List.nodup_cons.mp hn).2 (m := m.erase x) (fun y hy => by
      have hym : y ∈ m := hs y (by simp [hy])
      have hne : y ≠ x := fun e => hnx (e ▸ hy)
      exact (List.mem_erase_of_ne hne).mpr hym)
    rw [List.length_erase_of_mem hx] at this
    have hpos : 0 < m.length := List.length_pos_of_mem hx
    simp only [List.length_cons]
    omega

/-! ### shapes and the representation invariant -/

/-- the registry range: ids that fit the direct width -/
def InReg (gb : Nat) (v : Int) : Prop := 0 ≤ v ∧ v < (2 : Int) ^ gb

/-- the logical widths `bits` for which the configuration uses an indirect palette, which one (`h`: hash), and
the width `sb` of its indices -/
def IndShape (k : PalKind) (bits : Int) (h : Bool) (sb : Nat) : Prop :=
  match k with
  | .blocks => (1 ≤ bits ∧ bits ≤ 4 ∧ h = false ∧ sb = 4) ∨ (5 ≤ bits ∧ bits ≤ 8 ∧ h = true ∧ (sb : Int) = bits)
  | .biomes => 1 ≤ bits ∧ bits ≤ 3 ∧ h = false ∧ (sb : Int) = bits

/-- the logical widths for which the configuration uses the global palette (and that fit the bits-per-entry byte) -/
def GlobShape (k : PalKind) (bits : Int) : Prop :=
  match k with
  | .blocks => 9 ≤ bits ∧ bits ≤ 255
  | .biomes => 4 ≤ bits ∧ bits ≤ 255

/-- what the code assumes about the registry width: it lies above the indirect widths (15 and 6 in this data
version); `≤ 31` so that an id survives the conversion to a VarInt -/
def GbOK (cfg : PalCfg) (gb : Nat) : Prop :=
  cfg.gbits = (gb : Int) ∧ gb ≤ 31 ∧ match cfg.kind with
    | .blocks => 9 ≤ gb
    | .biomes => 4 ≤ gb

theorem indShape_sb {k : PalKind} {bits : Int} {h : Bool} {sb : Nat} (hs : IndShape k bits h sb) : 1 ≤ sb ∧ sb ≤ 8 := by
  cases k <;> simp only [IndShape] at hs <;> omega

theorem cfg_ind {cfg : PalCfg} {bits : Int} {h : Bool} {sb : Nat} (hs : IndShape cfg.kind bits h sb) :
    cfg.bits bits = (sb : Int) ∧ cfg.create bits = .indirect h [] (2 ^ sb) (sb : Int) := by
  unfold PalCfg.bits PalCfg.create
  cases hk : cfg.kind <;> rw [hk] at hs <;> simp only [IndShape] at hs
  · rcases hs with ⟨h1, h2, rfl, rfl⟩ | ⟨h1, h2, rfl, h4⟩
    · have h0 : bits ≠ 0 := by omega
      have : bits = 1 ∨ bits = 2 ∨ bits = 3 ∨ bits = 4 := by omega
      simp only [h0, if_false, this, if_true]
      exact ⟨rfl, rfl⟩
    · have h0 : bits ≠ 0 := by omega
      have hn : ¬ (bits = 1 ∨ bits = 2 ∨ bits = 3 ∨ bits = 4) := by omega
      have : bits = 5 ∨ bits = 6 ∨ bits = 7 ∨ bits = 8 := by omega
      simp only [h0, if_false, hn, this, if_true]
      have : bits.toNat = sb := by omega
      rw [this, h4]
      exact ⟨rfl, rfl⟩
  · obtain ⟨h1, h2, rfl, h4⟩ := hs
    have h0 : bits ≠ 0 := by omega
    have : bits = 1 ∨ bits = 2 ∨ bits = 3 := by omega
    simp only [h0, if_false, this, if_true]
    have : bits.toNat = sb := by omega
    rw [this, h4]
    exact ⟨rfl, rfl⟩

theorem cfg_glob {cfg : PalCfg} {gb : Nat} {bits : Int} (hgb : GbOK cfg gb) (hs : GlobShape cfg.kind bits) :
    cfg.bits bits = (gb : Int) ∧ cfg.create bits = .global := by
  unfold PalCfg.bits PalCfg.create
  cases hk : cfg.kind <;> rw [hk] at hs <;> simp only [GlobShape] at hs
  · have h0 : bits ≠ 0 := by omega
    have hn : ¬ (bits = 1 ∨ bits = 2 ∨ bits = 3 ∨ bits = 4) := by omega
    have hn' : ¬ (bits = 5 ∨ bits = 6 ∨ bits = 7 ∨ bits = 8) := by omega
    simp only [h0, if_false, hn, hn']
    exact ⟨hgb.1, trivial⟩
  · have h0 : bits ≠ 0 := by omega
    have hn : ¬ (bits = 1 ∨ bits = 2 ∨ bits = 3) := by omega
    simp only [h0, if_false, hn]
    exact ⟨hgb.1, trivial⟩

theorem gb_pos {cfg : PalCfg} {gb : Nat} (hgb : GbOK cfg gb) : 1 ≤ gb ∧ gb ≤ 31 := by
  obtain ⟨_, h2, h3⟩ := hgb
  cases hk : cfg.kind <;> rw [hk] at h3 <;> simp only at h3 <;> omega

/-- The representation invariant of a container of `n` entries (`strict = false`: as it may look inside a copy
loop, where an indirect palette can still be empty while every index is 0).

* single value: zero-bit storage, the value in the registry range;
* indirect (`linearPalette` / `hashPalette`): the palette kind, its capacity `2^sb` and the storage width `sb`
  are the ones the configuration prescribes for the logical width; entries pairwise distinct, in the registry
  range, at most `2^sb` of them; every stored index names an entry;
* global: storage of the registry width. -/
inductive Inv' (strict : Bool) (cfg : PalCfg) (gb n : Nat) : Container → Prop
  | single (v : Int) (d : BitStorage) (hv : InReg gb v) (hd : WF 0 n d) :
      Inv' strict cfg gb n ⟨0, cfg, .single v, d⟩
  | indirect (bits : Int) (h : Bool) (sb : Nat) (vals : List Int) (d : BitStorage)
      (hs : IndShape cfg.kind bits h sb) (hlen : vals.length ≤ 2 ^ sb) (hnd : vals.Nodup)
      (hreg : ∀ v ∈ vals, InReg gb v) (hd : WF sb n d)
      (hidx : ∀ k, k < n → entry sb d.data k < vals.length ∨ entry sb d.data k = 0)
      (hne : strict = true → n = 0 ∨ vals ≠ []) :
      Inv' strict cfg gb n ⟨bits, cfg, .indirect h vals (2 ^ sb) (sb : Int), d⟩
  | global (bits : Int) (d : BitStorage) (hs : GlobShape cfg.kind bits) (hd : WF gb n d) :
      Inv' strict cfg gb n ⟨bits, cfg, .global, d⟩

abbrev Inv := Inv' true

theorem Inv'.weaken {strict : Bool} {cfg : PalCfg} {gb n : Nat} {c : Container} (h : Inv' strict cfg gb n c) :
    Inv' false cfg gb n c := by
  cases h with
  | single v d hv hd => exact .single v d hv hd
  | indirect bits h sb vals d hs hlen hnd hreg hd hidx hne =>
    exact .indirect bits h sb vals d hs hlen hnd hreg hd hidx (fun e => by cases e)
  | global bits d hs hd => exact .global bits d hs hd

theorem Inv'.cfg_eq {strict : Bool} {cfg : PalCfg} {gb n : Nat} {c : Container} (h : Inv' strict cfg gb n c) :
    c.cfg = cfg := by cases h <;> rfl

theorem Inv'.len_eq {strict : Bool} {cfg : PalCfg} {gb n : Nat} {c : Container} (h : Inv' strict cfg gb n c) :
    c.data.len = (n : Int) := by
  cases h with
  | single v d hv hd => exact hd.length
  | indirect bits h sb vals d hs hlen hnd hreg hd hidx hne => exact hd.length
  | global bits d hs hd => exact hd.length

/-! ### the storage under a container -/

theorem zero_get {n : Nat} {d : BitStorage} (hd : WF 0 n d) (i : Int) : d.get i = .ok 0 := by
  unfold BitStorage.get
  have : d.vpl = 0 := by rw [hd.vpl]; rfl
  simp [this]

theorem zero_set {n : Nat} {d : BitStorage} (hd : WF 0 n d) (i v : Int) : d.set i v = (.ok (), d) := by
  unfold BitStorage.set
  have : d.vpl = 0 := by rw [hd.vpl]; rfl
  simp [this]

theorem get_single (bits : Int) (cfg : PalCfg) (s : Int) {n : Nat} {d : BitStorage} (hd : WF 0 n d) (i : Int) :
    (⟨bits, cfg, .single s, d⟩ : Container).get i = .ok s := by
  simp [Container.get, zero_get hd, Pal.value]

theorem get_indirect (bits : Int) (cfg : PalCfg) (h : Bool) (vals : List Int) (cap : Nat) (pb : Int)
    {sb n : Nat} {d : BitStorage} (hd : WF sb n d) (h1 : 1 ≤ sb) (h63 : sb ≤ 63) {k : Nat} (hk : k < n) :
    (⟨bits, cfg, .indirect h vals cap pb, d⟩ : Container).get (k : Int) =
      if entry sb d.data k < vals.length then .ok (vals.getD (entry sb d.data k) 0) else .panic := by
  simp only [Container.get, get_ok hd h1 h63 hk, Pal.value, Int.toNat_natCast]
  by_cases hlt : entry sb d.data k < vals.length
  · have : (0 : Int) ≤ ((entry sb d.data k : Nat) : Int) ∧ ((entry sb d.data k : Nat) : Int) < (vals.length : Int) := by omega
    simp [hlt, this]
  · have : ¬ ((0 : Int) ≤ ((entry sb d.data k : Nat) : Int) ∧ ((entry sb d.data k : Nat) : Int) < (vals.length : Int)) := by omega
    simp [hlt, this]

theorem get_global (bits : Int) (cfg : PalCfg) {gb n : Nat} {d : BitStorage} (hd : WF gb n d) (h1 : 1 ≤ gb)
    (h63 : gb ≤ 63) {k : Nat} (hk : k < n) :
    (⟨bits, cfg, .global, d⟩ : Container).get (k : Int) = .ok ((entry gb d.data k : Nat) : Int) := by
  simp [Container.get, get_ok hd h1 h63 hk, Pal.value]

/-- `Set` when the palette has the value or has room for it: the first branch of the Go code, for any fuel -/
theorem setF_ok_branch (fuel : Nat) (c : Container) (i v : Int) (h : (c.pal.id v).1.2 = true) :
    c.setF fuel i v = ((c.data.set i (c.pal.id v).1.1).1,
      { c with pal := (c.pal.id v).2, data := (c.data.set i (c.pal.id v).1.1).2 }) := by
  cases fuel <;> simp [Container.setF, h]

/-- the value fits the palette as it is: present, or there is spare capacity, or the palette is global -/
def Room (p : Pal) (v : Int) : Prop :=
  match p with
  | .single s => s = v
  | .indirect _ vals cap _ => v ∈ vals ∨ vals.length < cap
  | .global => True

/-- how `id` changes a palette that has room: not at all, or by appending the new value -/
def Ext (p p' : Pal) (v : Int) : Prop :=
  p' = p ∨ ∃ h vals cap b, p = .indirect h vals cap b ∧ p' = .indirect h (vals ++ [v]) cap b ∧ v ∉ vals

theorem inReg_toNat {gb : Nat} {v : Int} (hv : InReg gb v) : ((v.toNat : Nat) : Int) = v ∧ v.toNat < 2 ^ gb := by
  obtain ⟨h0, h1⟩ := hv
  have e : ((2 ^ gb : Nat) : Int) = (2 : Int) ^ gb := by norm_cast
  constructor
  · omega
  · omega

theorem getD_append_left (l : List Int) (x : Int) {k : Nat} (hk : k < l.length) : (l ++ [x]).getD k 0 = l.getD k 0 := by
  rw [List.getD_eq_getElem?_getD, List.getD_eq_getElem?_getD, List.getElem?_append_left hk]

theorem getD_append_len (l : List Int) (x : Int) : (l ++ [x]).getD l.length 0 = x := by
  rw [List.getD_eq_getElem?_getD, List.getElem?_append_right (Nat.le_refl _)]
  simp

theorem setF_room {strict : Bool} {cfg : PalCfg} {gb n : Nat} {c : Container} {i : Nat} {v : Int}
    (hgb : GbOK cfg gb) (hinv : Inv' strict cfg gb n c) (hi : i < n) (hv : InReg gb v) (hroom : Room c.pal v)
    (fuel : Nat) :
    ∃ c', c.setF fuel (i : Int) v = (.ok (), c') ∧ Inv' true cfg gb n c' ∧ c'.get (i : Int) = .ok v ∧
      (∀ j, j < n → j ≠ i → ∀ x, c.get (j : Int) = .ok x → c'.get (j : Int) = .ok x) ∧
      c'.bits = c.bits ∧ Ext c.pal c'.pal v := by
  obtain ⟨hg1, hg31⟩ := gb_pos hgb
  cases hinv with
  | single s d hs hd =>
    simp only [Room] at hroom
    subst hroom
    have hid : (Pal.single s).id s = ((0, true), .single s) := by simp [Pal.id]
    refine ⟨⟨0, cfg, .single s, d⟩, ?_, .single s d hs hd, get_single _ _ _ hd _, fun j _ _ x hx => hx, rfl, Or.inl rfl⟩
    rw [setF_ok_branch _ _ _ _ (by rw [hid])]
    simp only [hid, zero_set hd]
  | indirect bits h sb vals d hs hlen hnd hreg hd hidx hne =>
    obtain ⟨hsb1, hsb8⟩ := indShape_sb hs
    have h63 : sb ≤ 63 := by omega
    have h64 : sb ≤ 64 := by omega
    simp only [Room] at hroom
    have hid := id_indirect h vals (2 ^ sb) (sb : Int) v
    cases hl : lookup h v vals with
    | some k =>
      obtain ⟨hk1, hk2⟩ := lookup_some hl
      rw [hl] at hid
      have hk : k < 2 ^ sb := by omega
      have hc : i / vpl sb < d.data.length := by rw [hd.size]; exact div_lt_size hsb1 h64 hi
      refine ⟨⟨bits, cfg, .indirect h vals (2 ^ sb) (sb : Int), { d with data := newData sb d.data i k }⟩, ?_, ?_, ?_, ?_, rfl, Or.inl rfl⟩
      · rw [setF_ok_branch _ _ _ _ (by rw [hid])]
        simp only [hid, set_ok hd hsb1 h63 hi hk]
      · refine .indirect bits h sb vals _ hs hlen hnd hreg (wf_newData hd i k) ?_ ?_
        · intro j hj
          simp only [entry_newData hsb1 h64 d.data hc hk j]
          by_cases hji : j = i
          · simp [hji, hk1]
          · simp only [hji, if_false]; exact hidx j hj
        · intro _; right; intro e; rw [e] at hk1; simp at hk1
      · rw [get_indirect _ _ _ _ _ _ (wf_newData hd i k) hsb1 h63 hi]
        simp only [entry_newData hsb1 h64 d.data hc hk i, if_true, hk1, hk2]
      · intro j hj hji x hx
        rw [get_indirect _ _ _ _ _ _ (wf_newData hd i k) hsb1 h63 hj]
        rw [get_indirect _ _ _ _ _ _ hd hsb1 h63 hj] at hx
        simp only [entry_newData hsb1 h64 d.data hc hk j, hji, if_false]
        exact hx
    | none =>
      have hnot : v ∉ vals := lookup_none.mp hl
      rw [hl] at hid
      have hlt : vals.length < 2 ^ sb := by
        rcases hroom with hm | hlt
        · exact absurd hm hnot
        · exact hlt
      have hpos : 2 ^ sb - vals.length > 0 := by omega
      simp only [hpos, if_true] at hid
      have hc : i / vpl sb < d.data.length := by rw [hd.size]; exact div_lt_size hsb1 h64 hi
      refine ⟨⟨bits, cfg, .indirect h (vals ++ [v]) (2 ^ sb) (sb : Int), { d with data := newData sb d.data i vals.length }⟩,
        ?_, ?_, ?_, ?_, rfl, Or.inr ⟨h, vals, 2 ^ sb, (sb : Int), rfl, rfl, hnot⟩⟩
      · rw [setF_ok_branch _ _ _ _ (by rw [hid])]
        simp only [hid, set_ok hd hsb1 h63 hi hlt]
      · refine .indirect bits h sb (vals ++ [v]) _ hs (by simp; omega) ?_ ?_ (wf_newData hd i vals.length) ?_ ?_
        · rw [List.nodup_append]
          refine ⟨hnd, by simp, ?_⟩
          intro a ha b hb
          simp only [List.mem_singleton] at hb
          subst hb
          intro e; subst e; exact hnot ha
        · intro x hx
          rcases List.mem_append.mp hx with hx | hx
          · exact hreg x hx
          · simp only [List.mem_singleton] at hx; subst hx; exact hv
        · intro j hj
          simp only [entry_newData hsb1 h64 d.data hc hlt j, List.length_append, List.length_singleton]
          by_cases hji : j = i
          · simp [hji]
          · simp only [hji, if_false]
            rcases hidx j hj with h' | h'
            · left; omega
            · right; exact h'
        · intro _; right; simp
      · rw [get_indirect _ _ _ _ _ _ (wf_newData hd i vals.length) hsb1 h63 hi]
        simp only [entry_newData hsb1 h64 d.data hc hlt i, if_true, List.length_append, List.length_singleton,
          Nat.lt_succ_self, getD_append_len]
      · intro j hj hji x hx
        rw [get_indirect _ _ _ _ _ _ (wf_newData hd i vals.length) hsb1 h63 hj]
        rw [get_indirect _ _ _ _ _ _ hd hsb1 h63 hj] at hx
        simp only [entry_newData hsb1 h64 d.data hc hlt j, hji, if_false, List.length_append, List.length_singleton]
        by_cases he : entry sb d.data j < vals.length
        · simp only [he, if_true] at hx
          have : entry sb d.data j < vals.length + 1 := by omega
          simp only [this, if_true, getD_append_left vals v he]
          exact hx
        · simp [he] at hx
  | global bits d hs hd =>
    obtain ⟨hvn, hvlt⟩ := inReg_toNat hv
    have h63 : gb ≤ 63 := by omega
    have h64 : gb ≤ 64 := by omega
    have hid : Pal.global.id v = ((v, true), .global) := rfl
    have hc : i / vpl gb < d.data.length := by rw [hd.size]; exact div_lt_size hg1 h64 hi
    have hset := set_ok hd hg1 h63 hi hvlt
    rw [hvn] at hset
    refine ⟨⟨bits, cfg, .global, { d with data := newData gb d.data i v.toNat }⟩, ?_, .global bits _ hs (wf_newData hd i v.toNat),
      ?_, ?_, rfl, Or.inl rfl⟩
    · rw [setF_ok_branch _ _ _ _ (by rw [hid])]
      simp only [hid, hset]
    · rw [get_global _ _ (wf_newData hd i v.toNat) hg1 h63 hi]
      simp only [entry_newData hg1 h64 d.data hc hvlt i, if_true, hvn]
    · intro j hj hji x hx
      rw [get_global _ _ (wf_newData hd i v.toNat) hg1 h63 hj]
      rw [get_global _ _ hd hg1 h63 hj] at hx
      simp only [entry_newData hg1 h64 d.data hc hvlt j, hji, if_false]
      exact hx

/-! ### the copy loop and the resize branch of `Set` -/

theorem setF_resize_branch (fuel : Nat) (c : Container) (i v : Int) (h : (c.pal.id v).1.2 = false) :
    c.setF (fuel + 1) i v =
      match newBitStorage (c.cfg.bits (c.pal.id v).1.1) c.data.len none with
      | .ok d =>
        match copyLoop (Container.setF fuel) (fun k => c.get (k : Int)) (List.range c.data.len.toNat)
            { bits := (c.pal.id v).1.1, cfg := c.cfg, pal := c.cfg.create (c.pal.id v).1.1, data := d } with
        | .ok nc' =>
          if (nc'.pal.id v).1.2 then
            match (nc'.data.set i (nc'.pal.id v).1.1).1 with
            | .ok _ => (.ok (), { nc' with pal := (nc'.pal.id v).2, data := (nc'.data.set i (nc'.pal.id v).1.1).2 })
            | _ => (.panic, c)
          else (.panic, c)
        | _ => (.panic, c)
      | _ => (.panic, c) := by
  rw [Container.setF]
  simp only [h]
  rfl

/-- `id` succeeds when the palette has room -/
theorem id_room {p : Pal} {v : Int} (h : Room p v) : (p.id v).1.2 = true := by
  cases p with
  | single s => simp only [Room] at h; simp [Pal.id, h]
  | indirect hh vals cap b =>
    simp only [Room] at h
    rw [id_indirect]
    cases hl : lookup hh v vals with
    | some k => rfl
    | none =>
      have hnot : v ∉ vals := lookup_none.mp hl
      have : cap - vals.length > 0 := by
        rcases h with h | h
        · exact absurd h hnot
        · omega
      simp [this]
  | global => rfl

/-- capacity clause of a fill loop whose source only delivers values of `M`: the destination palette is global,
or it has capacity for all of `M` and holds only values of `M` -/
def Cap (p : Pal) (M : List Int) : Prop :=
  p = .global ∨ ∃ h vals cap b, p = .indirect h vals cap b ∧ M.length ≤ cap ∧ ∀ x ∈ vals, x ∈ M

theorem Inv'.nodup {strict : Bool} {cfg : PalCfg} {gb n : Nat} {c : Container} (hinv : Inv' strict cfg gb n c)
    {h : Bool} {vals : List Int} {cap : Nat} {b : Int} (hp : c.pal = .indirect h vals cap b) : vals.Nodup := by
  cases hinv with
  | single v d hv hd => cases hp
  | indirect bits h' sb vals' d hs hlen hnd hreg hd hidx hne =>
    simp only [Pal.indirect.injEq] at hp
    obtain ⟨_, rfl, _, _⟩ := hp
    exact hnd
  | global bits d hs hd => cases hp

theorem room_of_cap {strict : Bool} {cfg : PalCfg} {gb n : Nat} {c : Container} {M : List Int} {x : Int}
    (hinv : Inv' strict cfg gb n c) (hcap : Cap c.pal M) (hx : x ∈ M) : Room c.pal x := by
  rcases hcap with hg | ⟨h, vals, cap, b, hp, hM, hsub⟩
  · rw [hg]; trivial
  · rw [hp]
    simp only [Room]
    by_cases hm : x ∈ vals
    · exact Or.inl hm
    · right
      have hnd := hinv.nodup hp
      have : (x :: vals).length ≤ M.length := nodup_length_le (List.nodup_cons.mpr ⟨hm, hnd⟩) (fun y hy => by
        rcases List.mem_cons.mp hy with rfl | hy
        · exact hx
        · exact hsub y hy)
      simp only [List.length_cons] at this
      omega

theorem cap_ext {p p' : Pal} {M : List Int} {x : Int} (hcap : Cap p M) (hext : Ext p p' x) (hx : x ∈ M) : Cap p' M := by
  rcases hext with rfl | ⟨h, vals, cap, b, rfl, rfl, _⟩
  · exact hcap
  · rcases hcap with hg | ⟨h', vals', cap', b', hp, hM, hsub⟩
    · cases hg
    · simp only [Pal.indirect.injEq] at hp
      obtain ⟨rfl, rfl, rfl, rfl⟩ := hp
      refine Or.inr ⟨h, vals ++ [x], cap, b, rfl, hM, ?_⟩
      intro y hy
      rcases List.mem_append.mp hy with hy | hy
      · exact hsub y hy
      · simp only [List.mem_singleton] at hy; subst hy; exact hx

theorem Inv'.of_true {strict : Bool} {cfg : PalCfg} {gb n : Nat} {c : Container} (h : Inv' true cfg gb n c) :
    Inv' strict cfg gb n c := by
  cases h with
  | single v d hv hd => exact .single v d hv hd
  | indirect bits h sb vals d hs hlen hnd hreg hd hidx hne =>
    exact .indirect bits h sb vals d hs hlen hnd hreg hd hidx (fun _ => hne rfl)
  | global bits d hs hd => exact .global bits d hs hd

/-- The loop `for k in ks { dst.Set(k, src(k)) }` when the source only delivers values of `M` (in the registry
range) and the destination has capacity for `M`: no inner `Set` resizes (so any fuel will do), the invariant
is kept, the written positions hold the source's values, and readable positions outside `ks` keep theirs. -/
theorem copyLoop_ok {cfg : PalCfg} {gb n : Nat} (hgb : GbOK cfg gb) (fuel : Nat) (src : Nat → Res Int) (M : List Int)
    (hsrc : ∀ k, k < n → ∃ x, src k = .ok x ∧ x ∈ M ∧ InReg gb x) :
    ∀ (ks : List Nat), (∀ k ∈ ks, k < n) → ∀ (strict : Bool) (nc : Container), Inv' strict cfg gb n nc → Cap nc.pal M →
      ∃ nc', copyLoop (Container.setF fuel) src ks nc = .ok nc' ∧ Inv' strict cfg gb n nc' ∧
        (ks ≠ [] → Inv' true cfg gb n nc') ∧ Cap nc'.pal M ∧ nc'.bits = nc.bits ∧
        (∀ j, j ∈ ks → nc'.get (j : Int) = src j) ∧
        (∀ j, j < n → j ∉ ks → ∀ x, nc.get (j : Int) = .ok x → nc'.get (j : Int) = .ok x) := by
  intro ks
  induction ks with
  | nil =>
    intro _ strict nc hinv hcap
    exact ⟨nc, rfl, hinv, fun h => absurd rfl h, hcap, rfl, fun j hj => (by cases hj), fun j _ _ x hx => hx⟩
  | cons k ks ih =>
    intro hks strict nc hinv hcap
    have hk : k < n := hks k (by simp)
    obtain ⟨x, hsx, hxM, hxr⟩ := hsrc k hk
    obtain ⟨c1, hset, hinv1, hget1, hpres1, hbits1, hext1⟩ :=
      setF_room hgb hinv hk hxr (room_of_cap hinv hcap hxM) fuel
    obtain ⟨nc', hloop, hinv', _, hcap', hbits', hgets', hpres'⟩ :=
      ih (fun j hj => hks j (by simp [hj])) true c1 hinv1 (cap_ext hcap hext1 hxM)
    refine ⟨nc', ?_, hinv'.of_true, fun _ => hinv', hcap', hbits'.trans hbits1, ?_, ?_⟩
    · simp only [copyLoop, hsx, hset, hloop]
    · intro j hj
      by_cases hjk : j ∈ ks
      · exact hgets' j hjk
      · have : j = k := by
          rcases List.mem_cons.mp hj with h | h
          · exact h
          · exact absurd h hjk
        subst this
        rw [hsx]
        exact hpres' j hk hjk x hget1
    · intro j hj hjn y hy
      have hjk : j ≠ k := fun e => hjn (by simp [e])
      have hjks : j ∉ ks := fun e => hjn (by simp [e])
      exact hpres' j hj hjks y (hpres1 j hj hjk y hy)

/-- under the same hypotheses the loop does not depend on the fuel handed to the inner `Set`s -/
theorem copyLoop_fuel {cfg : PalCfg} {gb n : Nat} (hgb : GbOK cfg gb) (fuel : Nat) (src : Nat → Res Int) (M : List Int)
    (hsrc : ∀ k, k < n → ∃ x, src k = .ok x ∧ x ∈ M ∧ InReg gb x) :
    ∀ (ks : List Nat), (∀ k ∈ ks, k < n) → ∀ (strict : Bool) (nc : Container), Inv' strict cfg gb n nc → Cap nc.pal M →
      copyLoop (Container.setF fuel) src ks nc = copyLoop (Container.setF 0) src ks nc := by
  intro ks
  induction ks with
  | nil => intro _ _ _ _ _; rfl
  | cons k ks ih =>
    intro hks strict nc hinv hcap
    have hk : k < n := hks k (by simp)
    obtain ⟨x, hsx, hxM, hxr⟩ := hsrc k hk
    have hroom := room_of_cap hinv hcap hxM
    obtain ⟨c1, hset, hinv1, _, _, _, hext1⟩ := setF_room hgb hinv hk hxr hroom fuel
    have hset0 : nc.setF 0 (k : Int) x = (.ok (), c1) := by
      rw [setF_ok_branch 0 _ _ _ (id_room hroom), ← setF_ok_branch fuel _ _ _ (id_room hroom)]; exact hset
    simp only [copyLoop, hsx, hset, hset0]
    exact ih (fun j hj => hks j (by simp [hj])) true c1 hinv1 (cap_ext hcap hext1 hxM)

theorem entry_zeros (b m k : Nat) : entry b (List.replicate m 0#64) k = 0 := by
  unfold entry
  have : (List.replicate m 0#64).getD (k / vpl b) 0#64 = 0#64 := by
    rw [List.getD_eq_getElem?_getD, List.getElem?_replicate]
    split <;> rfl
  rw [this]; simp

/-- the resize branch of `Set`, in the form shared by its callers: the palette refused `v` and asks for the
logical width `vv`, for which the configuration provides either an indirect palette with room for one more than
the values `M` now stored, or the global palette -/
theorem resize_core {cfg : PalCfg} {gb n : Nat} {c : Container} {i : Nat} {v vv : Int} {M : List Int}
    (hgb : GbOK cfg gb) (hcfg : c.cfg = cfg) (hlen : c.data.len = (n : Int))
    (hgets : ∀ k, k < n → ∃ x, c.get (k : Int) = .ok x ∧ x ∈ M ∧ InReg gb x)
    (hid : c.pal.id v = ((vv, false), c.pal))
    (hnext : (∃ h' sb', IndShape cfg.kind vv h' sb' ∧ M.length < 2 ^ sb') ∨ GlobShape cfg.kind vv)
    (hv : InReg gb v) (hi : i < n) (fuel : Nat) :
    ∃ c', c.setF (fuel + 1) (i : Int) v = (.ok (), c') ∧ Inv cfg gb n c' ∧ c'.get (i : Int) = .ok v ∧
      (∀ j, j < n → j ≠ i → c'.get (j : Int) = c.get (j : Int)) ∧ c'.bits = vv ∧
      c.setF (fuel + 1) (i : Int) v = c.setF 1 (i : Int) v := by
  obtain ⟨hg1, hg31⟩ := gb_pos hgb
  have hidf : (c.pal.id v).1.2 = false := by rw [hid]
  have hidv : (c.pal.id v).1.1 = vv := by rw [hid]
  -- the fresh container and its capacity for `v :: M`
  have hfresh : ∃ d nc0, newBitStorage (cfg.bits vv) (n : Int) none = .ok d ∧
      nc0 = (⟨vv, cfg, cfg.create vv, d⟩ : Container) ∧ Inv' false cfg gb n nc0 ∧ Cap nc0.pal (v :: M) := by
    rcases hnext with ⟨h', sb', hs', hM⟩ | hs'
    · obtain ⟨hb, hc⟩ := cfg_ind hs'
      obtain ⟨h1, h8⟩ := indShape_sb hs'
      refine ⟨_, _, by rw [hb]; exact new_nil h1 (by omega) n, rfl, ?_, ?_⟩
      · rw [hc]
        exact .indirect vv h' sb' [] _ hs' (by simp) List.nodup_nil (fun x hx => by cases hx)
          (wf_fresh sb' n _ (by simp)) (fun k _ => Or.inr (entry_zeros sb' _ k)) (fun e => by cases e)
      · rw [hc]
        exact Or.inr ⟨h', [], 2 ^ sb', (sb' : Int), rfl, (by simp only [List.length_cons]; omega), fun x hx => (by cases hx)⟩
    · obtain ⟨hb, hc⟩ := cfg_glob hgb hs'
      refine ⟨_, _, by rw [hb]; exact new_nil hg1 (by omega) n, rfl, ?_, ?_⟩
      · rw [hc]
        exact .global vv _ hs' (wf_fresh gb n _ (by simp))
      · rw [hc]; exact Or.inl rfl
  obtain ⟨d, nc0, hnew, hnc0, hinv0, hcap0⟩ := hfresh
  subst hnc0
  -- the copy loop
  have hsrc : ∀ k, k < n → ∃ x, (fun k : Nat => c.get (k : Int)) k = .ok x ∧ x ∈ v :: M ∧ InReg gb x := by
    intro k hk
    obtain ⟨x, h1, h2, h3⟩ := hgets k hk
    exact ⟨x, h1, by simp [h2], h3⟩
  obtain ⟨nc', hloop, hinv', _, hcap', hbits', hgets', _⟩ :=
    copyLoop_ok hgb fuel (fun k : Nat => c.get (k : Int)) (v :: M) hsrc (List.range n)
      (fun k hk => List.mem_range.mp hk) false _ hinv0 hcap0
  -- the final `id` + `data.Set`
  have hroom : Room nc'.pal v := room_of_cap hinv' hcap' (by simp)
  obtain ⟨c', hset, hinvc, hgetc, hpresc, hbitsc, _⟩ := setF_room hgb hinv' hi hv hroom 0
  have hidt := id_room hroom
  rw [setF_ok_branch 0 nc' _ v hidt] at hset
  simp only [Prod.mk.injEq] at hset
  obtain ⟨hw1, hw2⟩ := hset
  have hfuel := copyLoop_fuel hgb fuel (fun k : Nat => c.get (k : Int)) (v :: M) hsrc (List.range n)
      (fun k hk => List.mem_range.mp hk) false _ hinv0 hcap0
  refine ⟨c', ?_, hinvc, hgetc, ?_, by rw [hbitsc, hbits'], ?_⟩
  · rw [setF_resize_branch fuel c _ v hidf, hidv, hcfg, hlen, hnew]
    simp only [Int.toNat_natCast, hloop, hidt, if_true, hw1, hw2]
  · intro j hj hji
    obtain ⟨x, hx, _, _⟩ := hgets j hj
    rw [hx]
    apply hpresc j hj hji x
    rw [hgets' j (List.mem_range.mpr hj)]
    exact hx
  · rw [setF_resize_branch fuel c _ v hidf, setF_resize_branch 0 c _ v hidf, hidv, hcfg, hlen, hnew]
    simp only [Int.toNat_natCast, hfuel]

/-! ### `Get` and `Set` on a well-formed container -/

theorem entry_lt (b : Nat) (data : List (BitVec 64)) (k : Nat) : entry b data k < 2 ^ b := by
  unfold entry
  exact Nat.mod_lt _ (Nat.two_pow_pos b)

/-- `Get` on a well-formed container never panics; the value is in the registry range and (unless the palette
is global) one of the palette's entries -/
theorem get_mem {cfg : PalCfg} {gb n : Nat} {c : Container} (hgb : GbOK cfg gb) (hinv : Inv cfg gb n c) {j : Nat}
    (hj : j < n) : ∃ x, c.get (j : Int) = .ok x ∧ InReg gb x ∧ (c.pal = .global ∨ x ∈ c.pal.export) := by
  obtain ⟨hg1, hg31⟩ := gb_pos hgb
  cases hinv with
  | single s d hs hd => exact ⟨s, get_single _ _ _ hd _, hs, Or.inr (by simp [Pal.export])⟩
  | indirect bits h sb vals d hs hlen hnd hreg hd hidx hne =>
    obtain ⟨hsb1, hsb8⟩ := indShape_sb hs
    have hne' : vals ≠ [] := by
      rcases hne rfl with h0 | h0
      · omega
      · exact h0
    have hpos : 0 < vals.length := List.length_pos_iff.mpr hne'
    have hlt : entry sb d.data j < vals.length := by
      rcases hidx j hj with h' | h'
      · exact h'
      · omega
    have hmem : vals.getD (entry sb d.data j) 0 ∈ vals := by
      rw [List.getD_eq_getElem?_getD, List.getElem?_eq_getElem hlt]
      simp
    refine ⟨vals.getD (entry sb d.data j) 0, ?_, hreg _ hmem, Or.inr hmem⟩
    rw [get_indirect _ _ _ _ _ _ hd hsb1 (by omega) hj, if_pos hlt]
  | global bits d hs hd =>
    refine ⟨((entry gb d.data j : Nat) : Int), get_global _ _ hd hg1 (by omega) hj, ?_, Or.inl rfl⟩
    have := entry_lt gb d.data j
    have e : ((2 ^ gb : Nat) : Int) = (2 : Int) ^ gb := by norm_cast
    constructor <;> omega

/-- `Set(i, v)` on a well-formed container, index in range, value in the registry range: succeeds with fuel 1
(so the `panic("not reachable")` and every inner resize are unreachable), keeps the invariant, `Get(i)` then
returns `v`, every other position is unchanged -/
theorem setF_inv {cfg : PalCfg} {gb n : Nat} {c : Container} {i : Nat} {v : Int} (hgb : GbOK cfg gb)
    (hinv : Inv cfg gb n c) (hi : i < n) (hv : InReg gb v) (fuel : Nat) :
    ∃ c', c.setF (fuel + 1) (i : Int) v = (.ok (), c') ∧ Inv cfg gb n c' ∧ c'.get (i : Int) = .ok v ∧
      (∀ j, j < n → j ≠ i → c'.get (j : Int) = c.get (j : Int)) ∧
      c.setF (fuel + 1) (i : Int) v = c.setF 1 (i : Int) v := by
  by_cases hroom : Room c.pal v
  · obtain ⟨c', h1, h2, h3, h4, _, _⟩ := setF_room hgb hinv hi hv hroom (fuel + 1)
    refine ⟨c', h1, h2, h3, ?_, ?_⟩
    · intro j hj hji
      obtain ⟨x, hx, _, _⟩ := get_mem hgb hinv hj
      rw [hx]; exact h4 j hj hji x hx
    · rw [setF_ok_branch (fuel + 1) _ _ _ (id_room hroom), setF_ok_branch 1 _ _ _ (id_room hroom)]
  · have hgets : ∀ k, k < n → ∃ x, c.get (k : Int) = .ok x ∧ InReg gb x ∧ (c.pal = .global ∨ x ∈ c.pal.export) :=
      fun k hk => get_mem hgb hinv hk
    have hcfg := hinv.cfg_eq
    have hlen := hinv.len_eq
    cases hinv with
    | single s d hs hd =>
      simp only [Room] at hroom
      have hid : (Pal.single s).id v = ((1, false), .single s) := by simp [Pal.id, hroom]
      have hnext : (∃ h' sb', IndShape cfg.kind 1 h' sb' ∧ [s].length < 2 ^ sb') ∨ GlobShape cfg.kind 1 := by
        left
        cases hk : cfg.kind
        · exact ⟨false, 4, by simp [IndShape], by simp⟩
        · exact ⟨false, 1, by simp [IndShape], by simp⟩
      obtain ⟨c', h1, h2, h3, h4, _, h6⟩ := resize_core (M := [s]) hgb hcfg hlen
        (fun k hk => by
          obtain ⟨x, hx, hr, hm⟩ := hgets k hk
          rcases hm with hm | hm
          · cases hm
          · exact ⟨x, hx, hm, hr⟩) hid hnext hv hi fuel
      exact ⟨c', h1, h2, h3, h4, h6⟩
    | indirect bits h sb vals d hs hlen' hnd hreg hd hidx hne =>
      obtain ⟨hsb1, hsb8⟩ := indShape_sb hs
      simp only [Room, not_or] at hroom
      obtain ⟨hnot, hfull⟩ := hroom
      have hfull' : vals.length = 2 ^ sb := by omega
      have hid : (Pal.indirect h vals (2 ^ sb) (sb : Int)).id v = (((sb : Int) + 1, false), .indirect h vals (2 ^ sb) (sb : Int)) := by
        rw [id_indirect, lookup_none.mpr hnot]
        have : ¬ (2 ^ sb - vals.length > 0) := by omega
        simp [this]
      have hpow : 2 ^ sb < 2 ^ (sb + 1) := Nat.pow_lt_pow_right (by omega) (by omega)
      have hnext : (∃ h' sb', IndShape cfg.kind ((sb : Int) + 1) h' sb' ∧ vals.length < 2 ^ sb') ∨
          GlobShape cfg.kind ((sb : Int) + 1) := by
        cases hk : cfg.kind <;> rw [hk] at hs <;> simp only [IndShape] at hs
        · rcases hs with ⟨_, _, _, rfl⟩ | ⟨h5, h8, _, hsbb⟩
          · left; exact ⟨true, 5, by simp [IndShape], by rw [hfull']; decide⟩
          · by_cases h88 : sb = 8
            · right; subst h88; simp [GlobShape]
            · left
              refine ⟨true, sb + 1, ?_, by rw [hfull']; exact hpow⟩
              simp only [IndShape]
              right
              refine ⟨by omega, by omega, trivial, by omega⟩
        · obtain ⟨h1', h3', _, hsbb⟩ := hs
          by_cases h33 : sb = 3
          · right; subst h33; simp [GlobShape]
          · left
            refine ⟨false, sb + 1, ?_, by rw [hfull']; exact hpow⟩
            simp only [IndShape]
            refine ⟨by omega, by omega, trivial, by omega⟩
      obtain ⟨c', h1, h2, h3, h4, _, h6⟩ := resize_core (M := vals) hgb hcfg hlen
        (fun k hk => by
          obtain ⟨x, hx, hr, hm⟩ := hgets k hk
          rcases hm with hm | hm
          · cases hm
          · exact ⟨x, hx, hm, hr⟩) hid hnext hv hi fuel
      exact ⟨c', h1, h2, h3, h4, h6⟩
    | global bits d hs hd => exact absurd trivial hroom

/-- what `Get` returns, 0 standing in for a panic (which `get_mem` excludes on well-formed containers) -/
def getV (c : Container) (k : Nat) : Int :=
  match c.get (k : Int) with
  | .ok v => v
  | _ => 0

/-- the abstraction: the `n` entries as `Get` reports them -/
def abs (n : Nat) (c : Container) : List Int := (List.range n).map (getV c)

@[simp] theorem abs_length (n : Nat) (c : Container) : (abs n c).length = n := by simp [abs]

theorem abs_set {n : Nat} {c c' : Container} {i : Nat} {v : Int} (hi : i < n) (h1 : c'.get (i : Int) = .ok v)
    (h2 : ∀ j, j < n → j ≠ i → c'.get (j : Int) = c.get (j : Int)) : abs n c' = (abs n c).set i v := by
  apply List.ext_getElem
  · simp
  · intro j hj1 hj2
    simp only [abs, List.getElem_map, List.getElem_range, List.getElem_set]
    have hj : j < n := by simpa using hj1
    by_cases hji : i = j
    · subst hji; simp [getV, h1]
    · simp only [hji, if_false]
      unfold getV
      rw [h2 j hj (fun e => hji e.symm)]

/-- a history of `Set` calls (index in range, value in the registry range), run on the model with the given
fuel: the results in order and the container afterwards -/
def runSets (fuel : Nat) (c : Container) : List (Nat × Int) → List (Res Unit) × Container
  | [] => ([], c)
  | (i, v) :: ops =>
    let r := c.setF fuel (i : Int) v
    let rs := runSets fuel r.2 ops
    (r.1 :: rs.1, rs.2)

/-- the same history on a plain array -/
def arraySets (xs : List Int) : List (Nat × Int) → List Int
  | [] => xs
  | (i, v) :: ops => arraySets (xs.set i v) ops

theorem runSets_refines {cfg : PalCfg} {gb n : Nat} (hgb : GbOK cfg gb) (fuel : Nat) (ops : List (Nat × Int))
    (hops : ∀ op ∈ ops, op.1 < n ∧ InReg gb op.2) (c : Container) (hinv : Inv cfg gb n c) :
    (runSets (fuel + 1) c ops).1 = ops.map (fun _ => .ok ()) ∧ Inv cfg gb n (runSets (fuel + 1) c ops).2 ∧
    abs n (runSets (fuel + 1) c ops).2 = arraySets (abs n c) ops := by
  induction ops generalizing c with
  | nil => exact ⟨rfl, hinv, rfl⟩
  | cons op ops ih =>
    obtain ⟨i, v⟩ := op
    obtain ⟨hi, hv⟩ := hops (i, v) (by simp)
    obtain ⟨c', h1, h2, h3, h4, _⟩ := setF_inv hgb hinv hi hv fuel
    obtain ⟨e1, e2, e3⟩ := ih (fun o ho => hops o (by simp [ho])) c' h2
    simp only [runSets, arraySets, h1, List.map_cons]
    refine ⟨by rw [e1], e2, ?_⟩
    rw [e3, abs_set hi h3 h4]

/-! ### the wire form: what `WriteTo` emits, read by the independent decoder -/

def specKind : PalKind → PKind
  | .blocks => .blocks
  | .biomes => .biomes

theorem size_le {b : Nat} (h1 : 1 ≤ b) (h64 : b ≤ 64) (n : Nat) : size b n ≤ n := by
  have hvp := vpl_pos h1 h64
  have := Nat.div_add_mod n (vpl b)
  have hle : n / vpl b ≤ vpl b * (n / vpl b) := Nat.le_mul_of_pos_left _ hvp
  unfold size
  have : b ≠ 0 := by omega
  simp only [this, if_false]
  split <;> omega

theorem varInt32_leb (m : Nat) (hm : m < 2 ^ 32) (rest : Bytes) :
    varInt32 (leb m ++ rest) = some (if m < 2 ^ 31 then (m : Int) else (m : Int) - 2 ^ 32, rest) := by
  unfold varInt32
  rw [unleb_leb]
  simp [hm]

/-- an id of the registry range (at most 31 bits) converts to a VarInt without loss -/
theorem varIntOfInt_eq {v : Int} (h0 : 0 ≤ v) (h31 : v < 2 ^ 31) : varIntOfInt v = leb v.toNat := by
  unfold varIntOfInt varIntBytes
  obtain ⟨m, rfl⟩ : ∃ m : Nat, v = (m : Int) := ⟨v.toNat, by omega⟩
  have hm : m < 2 ^ 32 := by omega
  rw [BitVec.ofInt_natCast, BitVec.toNat_ofNat, Nat.mod_eq_of_lt hm, Int.toNat_natCast]

theorem varInt32_ofInt {v : Int} (h0 : 0 ≤ v) (h31 : v < 2 ^ 31) (rest : Bytes) :
    varInt32 (varIntOfInt v ++ rest) = some (v, rest) := by
  rw [varIntOfInt_eq h0 h31, varInt32_leb _ (by omega)]
  have : v.toNat < 2 ^ 31 := by omega
  simp only [this, if_true]
  congr 2
  omega

theorem varInts_flatMap (vals : List Int) (h : ∀ v ∈ vals, 0 ≤ v ∧ v < 2 ^ 31) (rest : Bytes) :
    varInts vals.length (vals.flatMap varIntOfInt ++ rest) = some (vals, rest) := by
  induction vals with
  | nil => rfl
  | cons v vs ih =>
    obtain ⟨h0, h1⟩ := h v (by simp)
    simp only [List.flatMap_cons, List.append_assoc, List.length_cons, varInts,
      varInt32_ofInt h0 h1, ih (fun x hx => h x (by simp [hx]))]

theorem long_beLong (v : BitVec 64) (rest : Bytes) : Spec.long (beLong v ++ rest) = some (v, rest) := by
  unfold Spec.long
  have hl : (beLong v).length = 8 := rfl
  have h8 : 8 ≤ (beLong v ++ rest).length := by simp [hl]
  simp only [h8, if_true]
  rw [List.take_append_of_le_length (by simp [hl]), List.drop_append_of_le_length (by simp [hl])]
  have ht : List.take 8 (beLong v) = beLong v := List.take_of_length_le (by simp [hl])
  have hd : List.drop 8 (beLong v) = [] := List.drop_eq_nil_of_le (by simp [hl])
  rw [ht, hd]
  simp only [List.nil_append, Option.some.injEq, Prod.mk.injEq, and_true]
  apply BitVec.eq_of_toNat_eq
  simp only [beLong, List.foldl, BitVec.toNat_ofNat]
  have := v.isLt
  omega

theorem longs_beLongs (ls : List (BitVec 64)) (rest : Bytes) :
    Spec.longs ls.length (beLongs ls ++ rest) = some (ls, rest) := by
  induction ls with
  | nil => rfl
  | cons l ls ih =>
    simp only [beLongs, List.flatMap_cons, List.append_assoc, List.length_cons, Spec.longs, long_beLong]
    unfold beLongs at ih
    rw [ih]

theorem dataArray_ok (ls : List (BitVec 64)) (h31 : ls.length < 2 ^ 31) (rest : Bytes) :
    dataArray (leb ls.length ++ beLongs ls ++ rest) = some (ls, rest) := by
  unfold dataArray
  rw [List.append_assoc, varInt32_leb _ (by omega)]
  simp only [h31, if_true]
  have : ¬ ((ls.length : Int) < 0) := by omega
  simp only [this, if_false, Int.toNat_natCast, longs_beLongs]

theorem byte_of_bits {bits : Int} (h0 : 0 ≤ bits) (h255 : bits ≤ 255) : (BitVec.ofInt 8 bits).toNat = bits.toNat := by
  obtain ⟨m, rfl⟩ : ∃ m : Nat, bits = (m : Int) := ⟨bits.toNat, by omega⟩
  rw [BitVec.ofInt_natCast, BitVec.toNat_ofNat, Int.toNat_natCast]
  exact Nat.mod_eq_of_lt (by omega)

theorem layout_ind {k : PalKind} {gb : Nat} {bits : Int} {h : Bool} {sb : Nat} (hs : IndShape k bits h sb) :
    layout (specKind k) gb bits.toNat = .indirect sb ∧ 0 ≤ bits ∧ bits ≤ 255 := by
  cases k <;> simp only [IndShape] at hs <;> simp only [specKind, layout]
  · rcases hs with ⟨h1, h2, _, rfl⟩ | ⟨h1, h2, _, h4⟩
    · have a : ¬ bits.toNat = 0 := by omega
      have b : bits.toNat ≤ 4 := by omega
      simp only [a, b, if_false, if_true]
      exact ⟨trivial, by omega, by omega⟩
    · have a : ¬ bits.toNat = 0 := by omega
      have b : ¬ bits.toNat ≤ 4 := by omega
      have c : bits.toNat ≤ 8 := by omega
      have d : bits.toNat = sb := by omega
      simp only [a, b, c, if_false, if_true]
      exact ⟨by rw [d], by omega, by omega⟩
  · obtain ⟨h1, h2, _, h4⟩ := hs
    have a : ¬ bits.toNat = 0 := by omega
    have b : bits.toNat ≤ 3 := by omega
    have d : bits.toNat = sb := by omega
    simp only [a, b, if_false, if_true]
    exact ⟨by rw [d], by omega, by omega⟩

theorem layout_glob {k : PalKind} {gb : Nat} {bits : Int} (hs : GlobShape k bits) :
    layout (specKind k) gb bits.toNat = .direct gb ∧ 0 ≤ bits ∧ bits ≤ 255 := by
  cases k <;> simp only [GlobShape] at hs <;> simp only [specKind, layout]
  · have a : ¬ bits.toNat = 0 := by omega
    have b : ¬ bits.toNat ≤ 4 := by omega
    have c : ¬ bits.toNat ≤ 8 := by omega
    simp only [a, b, c, if_false]
    exact ⟨trivial, by omega, by omega⟩
  · have a : ¬ bits.toNat = 0 := by omega
    have b : ¬ bits.toNat ≤ 3 := by omega
    simp only [a, b, if_false]
    exact ⟨trivial, by omega, by omega⟩

theorem inReg_31 {gb : Nat} (hg : gb ≤ 31) {v : Int} (hv : InReg gb v) : 0 ≤ v ∧ v < 2 ^ 31 := by
  obtain ⟨h0, h1⟩ := hv
  have hp : (2 : Nat) ^ gb ≤ 2 ^ 31 := Nat.pow_le_pow_right (by omega) hg
  have e : ((2 ^ gb : Nat) : Int) = (2 : Int) ^ gb := by norm_cast
  exact ⟨h0, by omega⟩

/-- the data part of what `WriteTo` emits -/
theorem data_writeTo {b n : Nat} {d : BitStorage} (hd : WF b n d) (h64 : b ≤ 64) (hn : n < 2 ^ 31) :
    d.writeTo = leb d.data.length ++ beLongs d.data ∧ d.data.length < 2 ^ 31 := by
  have hlt : d.data.length < 2 ^ 31 := by
    rw [hd.size]
    by_cases h0 : b = 0
    · subst h0; simp [size]
    · have := size_le (by omega : 1 ≤ b) h64 n
      omega
  exact ⟨writeTo_eq d hlt, hlt⟩

theorem abs_single {bits : Int} {cfg : PalCfg} {s : Int} {n : Nat} {d : BitStorage} (hd : WF 0 n d) :
    abs n ⟨bits, cfg, .single s, d⟩ = List.replicate n s := by
  apply List.ext_getElem
  · simp
  · intro j _ _
    simp [abs, getV, get_single _ _ _ hd]

/-- what the `n` entries of a well-formed container are, in terms of the raw longs and the palette -/
theorem abs_indirect {strict : Bool} {cfg : PalCfg} {gb n : Nat} {bits : Int} {h : Bool} {sb : Nat} {vals : List Int}
    {cap : Nat} {pb : Int} {d : BitStorage} (hs : IndShape cfg.kind bits h sb) (hd : WF sb n d)
    (hidx : ∀ k, k < n → entry sb d.data k < vals.length) :
    abs n ⟨bits, cfg, .indirect h vals cap pb, d⟩ = (unpack sb n d.data).map fun i => vals.getD i 0 := by
  obtain ⟨h1, h8⟩ := indShape_sb hs
  apply List.ext_getElem
  · simp
  · intro j hj _
    have hj' : j < n := by simpa using hj
    simp only [abs, getV, unpack, List.getElem_map, List.getElem_range]
    rw [get_indirect _ _ _ _ _ _ hd h1 (by omega) hj', if_pos (hidx j hj')]

theorem abs_global {cfg : PalCfg} {gb n : Nat} {bits : Int} {d : BitStorage} (hd : WF gb n d) (h1 : 1 ≤ gb)
    (h63 : gb ≤ 63) : abs n ⟨bits, cfg, .global, d⟩ = (unpack gb n d.data).map fun (i : Nat) => (i : Int) := by
  apply List.ext_getElem
  · simp
  · intro j hj _
    have hj' : j < n := by simpa using hj
    simp only [abs, getV, unpack, List.getElem_map, List.getElem_range]
    rw [get_global _ _ hd h1 h63 hj']

theorem strict_idx {n : Nat} {vals : List Int} {sb : Nat} {data : List (BitVec 64)}
    (hidx : ∀ k, k < n → entry sb data k < vals.length ∨ entry sb data k = 0) (hne : n = 0 ∨ vals ≠ []) :
    ∀ k, k < n → entry sb data k < vals.length := by
  intro k hk
  have hne' : vals ≠ [] := by
    rcases hne with h0 | h0
    · omega
    · exact h0
  have hpos : 0 < vals.length := List.length_pos_iff.mpr hne'
  rcases hidx k hk with h' | h'
  · exact h'
  · omega

/-- `Spec.readPaletted (WriteTo c ++ rest) = (the entries of c, rest)` -/
theorem read_writeTo {cfg : PalCfg} {gb n : Nat} {c : Container} (hgb : GbOK cfg gb) (hinv : Inv cfg gb n c)
    (hn : n < 2 ^ 31) (rest : Bytes) :
    readPaletted (specKind cfg.kind) gb n (c.writeTo ++ rest) = some (abs n c, rest) := by
  obtain ⟨hg1, hg31⟩ := gb_pos hgb
  cases hinv with
  | single s d hs hd =>
    obtain ⟨hw, _⟩ := data_writeTo hd (by omega) hn
    have hdata : d.data = [] := List.length_eq_zero_iff.mp (by rw [hd.size]; simp [size])
    obtain ⟨s0, s31⟩ := inReg_31 hg31 hs
    have hb : (BitVec.ofInt 8 0).toNat = 0 := rfl
    have hlay : layout (specKind cfg.kind) gb 0 = .single := by cases cfg.kind <;> rfl
    simp only [Container.writeTo, Pal.writeTo, hw, hdata, List.length_nil, List.cons_append, List.nil_append,
      List.append_assoc, readPaletted, hb, hlay, varInt32_ofInt s0 s31]
    have := dataArray_ok [] (by simp) rest
    simp only [List.length_nil, List.append_assoc] at this
    rw [this, abs_single hd]
  | indirect bits h sb vals d hs hlen hnd hreg hd hidx hne =>
    obtain ⟨hsb1, hsb8⟩ := indShape_sb hs
    obtain ⟨hw, hl31⟩ := data_writeTo hd (by omega) hn
    obtain ⟨hlay, hb0, hb255⟩ := layout_ind (gb := gb) hs
    have hidx' := strict_idx hidx (hne rfl)
    have hpow : (2 : Nat) ^ sb ≤ 2 ^ 8 := Nat.pow_le_pow_right (by omega) hsb8
    have hvl : vals.length < 2 ^ 32 := by omega
    have hvl31 : vals.length < 2 ^ 31 := by omega
    have hcnt : (BitVec.ofNat 32 vals.length).toNat = vals.length := by
      rw [BitVec.toNat_ofNat, Nat.mod_eq_of_lt hvl]
    have hc1 : ¬ ((vals.length : Int) < 0 ∨ (vals.length : Int) > 2 ^ sb) := by
      have e : ((2 ^ sb : Nat) : Int) = (2 : Int) ^ sb := by norm_cast
      omega
    have hall : (unpack sb n d.data).all (fun x => decide (x < vals.length)) = true := by
      rw [List.all_eq_true]
      intro x hx
      simp only [unpack, List.mem_map, List.mem_range] at hx
      obtain ⟨k, hk, rfl⟩ := hx
      simpa using hidx' k hk
    simp only [Container.writeTo, Pal.writeTo, hw, List.cons_append, List.nil_append, List.append_assoc,
      readPaletted, byte_of_bits hb0 hb255, hlay, varIntBytes, hcnt, varInt32_leb _ hvl, hvl31, if_true, hc1,
      if_false, Int.toNat_natCast, varInts_flatMap vals (fun v hv => inReg_31 hg31 (hreg v hv))]
    have := dataArray_ok d.data hl31 rest
    rw [List.append_assoc] at this
    rw [this]
    simp only [hd.size, hall, and_self, if_true]
    rw [abs_indirect (gb := gb) (strict := true) hs hd hidx']
  | global bits d hs hd =>
    obtain ⟨hw, hl31⟩ := data_writeTo hd (by omega) hn
    obtain ⟨hlay, hb0, hb255⟩ := layout_glob (gb := gb) hs
    simp only [Container.writeTo, Pal.writeTo, hw, List.cons_append, List.nil_append, List.append_assoc,
      readPaletted, byte_of_bits hb0 hb255, hlay]
    have := dataArray_ok d.data hl31 rest
    rw [List.append_assoc] at this
    rw [this]
    simp only [hd.size, if_true]
    rw [abs_global hd hg1 (by omega)]

/-! ### the wire form read back by the model of `ReadFrom` -/

theorem readByte_cons {s : Stream} {b : Byte} {tl : Bytes} (hs : s.flat = b :: tl) :
    Rd.readByte s = (.ok b, s.drop 1) ∧ (s.drop 1).flat = tl ∧ (s.drop 1).failing = s.failing := by
  refine ⟨?_, by simp [hs], rfl⟩
  unfold Rd.readByte
  rw [hs]

theorem toInt_ofInt32 {v : Int} (h0 : 0 ≤ v) (h31 : v < 2 ^ 31) : (BitVec.ofInt 32 v).toInt = v := by
  obtain ⟨m, rfl⟩ : ∃ m : Nat, v = (m : Int) := ⟨v.toNat, by omega⟩
  have hm : m < 2 ^ 32 := by omega
  have ht : (BitVec.ofNat 32 m).toNat = m := by rw [BitVec.toNat_ofNat, Nat.mod_eq_of_lt hm]
  rw [BitVec.ofInt_natCast, BitVec.toInt_eq_toNat_of_lt (by rw [ht]; omega), ht]

theorem readVals_ok (vals : List Int) (h : ∀ v ∈ vals, 0 ≤ v ∧ v < 2 ^ 31) :
    ∀ (old : List Int), old.length = vals.length → ∀ (rest : Bytes) (s : Stream),
      s.flat = vals.flatMap varIntOfInt ++ rest →
      ∃ s', readVals old s = ((true, vals, (vals.flatMap varIntOfInt).length), s') ∧ s'.flat = rest ∧
        s'.failing = s.failing := by
  induction vals with
  | nil =>
    intro old hlen rest s hs
    have : old = [] := List.length_eq_zero_iff.mp hlen
    subst this
    exact ⟨s, rfl, by simpa using hs, rfl⟩
  | cons v vs ih =>
    intro old hlen rest s hs
    match old, hlen with
    | o :: old', hlen =>
      obtain ⟨h0, h31⟩ := h v (by simp)
      simp only [List.flatMap_cons, List.append_assoc] at hs
      obtain ⟨s1, hr, hf, hfl⟩ := varIntRead_ok (BitVec.ofInt 32 v) (vs.flatMap varIntOfInt ++ rest) s hs
      obtain ⟨s2, hr2, hf2, hfl2⟩ := ih (fun x hx => h x (by simp [hx])) old' (by simpa using hlen) rest s1 hf
      refine ⟨s2, ?_, hf2, hfl2.trans hfl⟩
      simp only [readVals, hr, hr2, toInt_ofInt32 h0 h31, List.flatMap_cons, List.length_append]
      rfl

theorem single_readFrom_ok (x : Int) {v : Int} (h0 : 0 ≤ v) (h31 : v < 2 ^ 31) (rest : Bytes) (s : Stream)
    (hs : s.flat = varIntOfInt v ++ rest) :
    ∃ s', (Pal.single x).readFrom s = (.ok (varIntOfInt v).length, .single v, s') ∧ s'.flat = rest ∧
      s'.failing = s.failing := by
  obtain ⟨s1, hr, hf, hfl⟩ := varIntRead_ok (BitVec.ofInt 32 v) rest s hs
  refine ⟨s1, ?_, hf, hfl⟩
  simp only [Pal.readFrom, hr, toInt_ofInt32 h0 h31]
  rfl

theorem indirect_readFrom_ok (h : Bool) (sb : Nat) (hsb : sb ≤ 8) (vals : List Int) (hlen : vals.length ≤ 2 ^ sb)
    (hv : ∀ v ∈ vals, 0 ≤ v ∧ v < 2 ^ 31) (rest : Bytes) (s : Stream)
    (hs : s.flat = varIntBytes (BitVec.ofNat 32 vals.length) ++ vals.flatMap varIntOfInt ++ rest) :
    ∃ s', (Pal.indirect h [] (2 ^ sb) (sb : Int)).readFrom s =
        (.ok ((varIntBytes (BitVec.ofNat 32 vals.length)).length + (vals.flatMap varIntOfInt).length),
         .indirect h vals (2 ^ sb) (sb : Int), s') ∧ s'.flat = rest ∧ s'.failing = s.failing := by
  have hpow : (2 : Nat) ^ sb ≤ 2 ^ 8 := Nat.pow_le_pow_right (by omega) hsb
  have hvl : vals.length < 2 ^ 32 := by omega
  have hcnt : (BitVec.ofNat 32 vals.length).toNat = vals.length := by
    rw [BitVec.toNat_ofNat, Nat.mod_eq_of_lt hvl]
  rw [List.append_assoc] at hs
  obtain ⟨s1, hr, hf, hfl⟩ := varIntRead_ok (BitVec.ofNat 32 vals.length) (vals.flatMap varIntOfInt ++ rest) s hs
  have hti : (BitVec.ofNat 32 vals.length).toInt = (vals.length : Int) := by
    rw [BitVec.toInt_eq_toNat_of_lt (by rw [hcnt]; omega), hcnt]
  have hc0 : ¬ ((vals.length : Int) < 0) := by omega
  have e : ((2 ^ sb : Nat) : Int) = (2 : Int) ^ sb := by norm_cast
  have hc1 : ¬ ((vals.length : Int) > (2 : Int) ^ sb) := by omega
  have hc2 : ¬ (vals.length > 2 ^ sb) := by omega
  have hcl : ((([] : List Int) ++ List.replicate (2 ^ sb - ([] : List Int).length) 0).take vals.length).length = vals.length := by
    simp; omega
  obtain ⟨s2, hr2, hf2, hfl2⟩ := readVals_ok vals hv _ hcl rest s1 hf
  refine ⟨s2, ?_, hf2, hfl2.trans hfl⟩
  simp only [Pal.readFrom, hr, hti, hc0, Int.toNat_natCast, hc1, hcnt, hc2, if_false, hr2, if_true, varIntBytes]

theorem fix_zero (st : BitStorage) : st.fix 0 = (.ok (), { st with mask := 0#64, bits := 0, vpl := 0 }) := by
  simp [BitStorage.fix]

theorem writeTo_length (c : Container) : c.writeTo.length = 1 + c.pal.writeTo.length + c.data.writeTo.length := by
  simp [Container.writeTo]; omega

/-- the destination's storage after `ReadFrom` + `Fix b`: new longs, the rest of the old backing array as spare
capacity, the width-dependent fields recomputed -/
def refit (st : BitStorage) (b : Nat) (data spare : List (BitVec 64)) : BitStorage :=
  { st with data := data, spare := spare, mask := maskOf (b : Int), bits := (b : Int), vpl := ((vpl b : Nat) : Int) }

theorem wf_refit {st : BitStorage} {b n : Nat} {data spare : List (BitVec 64)} (hl : st.length = (n : Int))
    (hd : data.length = size b n) : WF b n (refit st b data spare) := ⟨rfl, hl, rfl, rfl, hd⟩

theorem refit_zero (st : BitStorage) (data spare : List (BitVec 64)) :
    ({ st with data := data, spare := spare, mask := 0#64, bits := 0, vpl := 0 } : BitStorage) = refit st 0 data spare := rfl

/-- `ReadFrom` into any container of the same configuration and length, fed the wire form of a well-formed
container followed by anything: succeeds, reports and consumes exactly the bytes written, leaves the rest, and the
destination then is well-formed and holds the same entries -/
theorem readFrom_writeTo {cfg : PalCfg} {gb n : Nat} {c d : Container} (hgb : GbOK cfg gb) (hinv : Inv cfg gb n c)
    (hn : n < 2 ^ 31) (hdcfg : d.cfg = cfg) (hdlen : d.data.length = (n : Int)) (rest : Bytes) (s : Stream)
    (hs : s.flat = c.writeTo ++ rest) :
    ∃ d' s', d.readFrom s = (.ok c.writeTo.length, d', s') ∧ s'.flat = rest ∧ s'.failing = s.failing ∧
      Inv cfg gb n d' ∧ ∀ j, j < n → d'.get (j : Int) = c.get (j : Int) := by
  obtain ⟨hg1, hg31⟩ := gb_pos hgb
  rw [writeTo_length]
  cases hinv with
  | single v dd hv hd =>
    obtain ⟨hw, hl31⟩ := data_writeTo hd (by omega) hn
    obtain ⟨v0, v31⟩ := inReg_31 hg31 hv
    simp only [Container.writeTo, Pal.writeTo, List.cons_append, List.nil_append, List.append_assoc] at hs
    obtain ⟨hrb, hf0, hfl0⟩ := readByte_cons hs
    obtain ⟨s1, hrp, hf1, hfl1⟩ := single_readFrom_ok (-1) v0 v31 _ _ hf0
    rw [hw] at hf1
    obtain ⟨s2, spare, hrd, hf2, hfl2⟩ := readFrom_ok d.data dd.data hl31 rest s1 (by rw [hf1, List.append_assoc])
    have hb : ((BitVec.ofInt 8 0).toNat : Int) = 0 := rfl
    have hcb : d.cfg.bits 0 = 0 := by unfold PalCfg.bits; cases d.cfg.kind <;> rfl
    have hcc : d.cfg.create 0 = .single (-1) := by unfold PalCfg.create; cases d.cfg.kind <;> rfl
    have hdata : dd.data = [] := List.length_eq_zero_iff.mp (by rw [hd.size]; simp [size])
    have hwf : WF 0 n (refit d.data 0 dd.data spare) := wf_refit hdlen hd.size
    refine ⟨⟨0, cfg, .single v, refit d.data 0 dd.data spare⟩, s2, ?_,
      hf2, (hfl2.trans hfl1).trans hfl0, .single v _ hv hwf, ?_⟩
    · subst hdcfg
      simp only [Container.readFrom, hrb, hb, hcb, hcc, hrp, hrd, fix_zero, refit_zero, Pal.writeTo, hw,
        List.length_append, beLongs_length]
    · intro j _
      rw [get_single _ _ _ hd, get_single _ _ _ hwf]
  | indirect bits h sb vals dd hs' hlen hnd hreg hd hidx hne =>
    obtain ⟨hsb1, hsb8⟩ := indShape_sb hs'
    obtain ⟨hw, hl31⟩ := data_writeTo hd (by omega) hn
    obtain ⟨_, hb0, hb255⟩ := layout_ind (gb := gb) hs'
    obtain ⟨hcb, hcc⟩ := cfg_ind hs'
    simp only [Container.writeTo, Pal.writeTo, List.cons_append, List.nil_append, List.append_assoc] at hs
    obtain ⟨hrb, hf0, hfl0⟩ := readByte_cons hs
    obtain ⟨s1, hrp, hf1, hfl1⟩ := indirect_readFrom_ok h sb hsb8 vals hlen
      (fun v hv => inReg_31 hg31 (hreg v hv)) _ _ (by rw [hf0, List.append_assoc])
    rw [hw] at hf1
    obtain ⟨s2, spare, hrd, hf2, hfl2⟩ := readFrom_ok d.data dd.data hl31 rest s1 (by rw [hf1, List.append_assoc])
    have hb : ((BitVec.ofInt 8 bits).toNat : Int) = bits := by rw [byte_of_bits hb0 hb255]; omega
    have hfix := fix_eq hsb1 (by omega : sb ≤ 64) n { d.data with data := dd.data, spare := spare } hdlen
    -- the logical width the reader stores is the storage width, for which the configuration selects the same palette
    have hs'' : IndShape cfg.kind (sb : Int) h sb := by
      cases hk : cfg.kind <;> rw [hk] at hs' <;> simp only [IndShape] at hs' ⊢
      · rcases hs' with ⟨_, _, rfl, rfl⟩ | ⟨h5, h8, rfl, hsbb⟩
        · left; exact ⟨by omega, by omega, by simp, by simp⟩
        · right; exact ⟨by omega, by omega, by simp, by simp⟩
      · obtain ⟨h1', h3', rfl, hsbb⟩ := hs'
        exact ⟨by omega, by omega, by simp, by simp⟩
    have hwf : WF sb n (refit d.data sb dd.data spare) := wf_refit hdlen hd.size
    have hfix' : ({ d.data with data := dd.data, spare := spare } : BitStorage).fix (sb : Int) =
        (if dd.data.length = size sb n then .ok () else .err, refit d.data sb dd.data spare) := hfix
    refine ⟨⟨(sb : Int), cfg, .indirect h vals (2 ^ sb) (sb : Int), refit d.data sb dd.data spare⟩, s2, ?_, hf2, (hfl2.trans hfl1).trans hfl0,
      .indirect (sb : Int) h sb vals _ hs'' hlen hnd hreg hwf hidx hne, ?_⟩
    · subst hdcfg
      simp only [Container.readFrom, hrb, hb, hcb, hcc, hrp, hrd, hfix', hd.size, if_true, Pal.writeTo, hw,
        List.length_append, beLongs_length]
    · intro j hj
      rw [get_indirect _ _ _ _ _ _ hwf hsb1 (by omega) hj, get_indirect _ _ _ _ _ _ hd hsb1 (by omega) hj]
      rfl
  | global bits dd hs' hd =>
    obtain ⟨hw, hl31⟩ := data_writeTo hd (by omega) hn
    obtain ⟨_, hb0, hb255⟩ := layout_glob (gb := gb) hs'
    obtain ⟨hcb, hcc⟩ := cfg_glob hgb hs'
    simp only [Container.writeTo, Pal.writeTo, List.cons_append, List.nil_append, List.append_assoc] at hs
    obtain ⟨hrb, hf0, hfl0⟩ := readByte_cons hs
    rw [hw] at hf0
    obtain ⟨s2, spare, hrd, hf2, hfl2⟩ := readFrom_ok d.data dd.data hl31 rest (s.drop 1) (by rw [hf0, List.append_assoc])
    have hb : ((BitVec.ofInt 8 bits).toNat : Int) = bits := by rw [byte_of_bits hb0 hb255]; omega
    have hfix := fix_eq hg1 (by omega : gb ≤ 64) n { d.data with data := dd.data, spare := spare } hdlen
    have hs'' : GlobShape cfg.kind (gb : Int) := by
      obtain ⟨_, _, h3⟩ := hgb
      cases hk : cfg.kind <;> rw [hk] at h3 <;> simp only [GlobShape] <;> simp only at h3 <;> omega
    have hwf : WF gb n (refit d.data gb dd.data spare) := wf_refit hdlen hd.size
    have hfix' : ({ d.data with data := dd.data, spare := spare } : BitStorage).fix (gb : Int) =
        (if dd.data.length = size gb n then .ok () else .err, refit d.data gb dd.data spare) := hfix
    refine ⟨⟨(gb : Int), cfg, .global, refit d.data gb dd.data spare⟩, s2, ?_, hf2, hfl2.trans hfl0, .global (gb : Int) _ hs'' hwf, ?_⟩
    · subst hdcfg
      simp only [Container.readFrom, hrb, hb, hcb, hcc, Pal.readFrom, hrd, hfix', hd.size, if_true, Pal.writeTo, hw,
        List.length_append, beLongs_length, List.length_nil]
    · intro j hj
      rw [get_global _ _ hwf hg1 (by omega) hj, get_global _ _ hd hg1 (by omega) hj]
      rfl

/-! ### containers built from a saved palette and packed indices -/

theorem lt_two_pow_bitLen (x : Nat) : x < 2 ^ bitLen x := by
  unfold bitLen
  by_cases h : x = 0
  · simp [h]
  · simp only [h, if_false]; exact Nat.lt_log2_self

theorem bitLen_le {x k : Nat} (h : x < 2 ^ k) : bitLen x ≤ k := by
  unfold bitLen
  by_cases h0 : x = 0
  · simp [h0]
  · simp only [h0, if_false]
    have := (Nat.log2_lt h0).mpr h
    omega

theorem bitLen_pos {x : Nat} (h : 0 < x) : 1 ≤ bitLen x := by
  unfold bitLen
  have : x ≠ 0 := by omega
  simp [this]

theorem ceilLog2_eq (len : Nat) (h2 : 2 ≤ len) : ceilLog2 len = bitLen (len - 1) := by
  obtain ⟨m, rfl⟩ : ∃ m, len = m + 2 := ⟨len - 2, by omega⟩
  simp [ceilLog2, bitLen]

/-- the width of the save format as a natural number -/
def saveW (k : PalKind) (len : Nat) : Nat :=
  match k with
  | .blocks => max 4 (bitLen (len - 1))
  | .biomes => bitLen (len - 1)

theorem saveBits_eq (cfg : PalCfg) (len : Nat) : saveBits cfg len = ((saveW cfg.kind len : Nat) : Int) := by
  unfold saveBits saveW PalCfg.minBits
  cases cfg.kind <;> simp only <;> omega

theorem saveWidth_eq (k : PalKind) (len : Nat) (h2 : 2 ≤ len) : saveWidth (specKind k) len = saveW k len := by
  cases k <;> simp [saveWidth, specKind, saveW, ceilLog2_eq len h2]

theorem saveW_bounds (k : PalKind) {len : Nat} (h2 : 2 ≤ len) (h31 : len ≤ 2 ^ 31) :
    1 ≤ saveW k len ∧ saveW k len ≤ 31 ∧ len ≤ 2 ^ saveW k len := by
  have hlt := lt_two_pow_bitLen (len - 1)
  have hpos := bitLen_pos (by omega : 0 < len - 1)
  have hle := bitLen_le (by omega : len - 1 < 2 ^ 31)
  have hlen : len ≤ 2 ^ bitLen (len - 1) := by omega
  cases k <;> simp only [saveW]
  · refine ⟨by omega, by omega, ?_⟩
    exact Nat.le_trans hlen (Nat.pow_le_pow_right (by omega) (by omega))
  · exact ⟨hpos, hle, hlen⟩

/-- the palette the configuration provides for a save width: indirect with room for `2^w` values, or global -/
theorem shape_of_width (cfg : PalCfg) {w : Nat} (h1 : 1 ≤ w) (h31 : w ≤ 31) (hk : cfg.kind = .blocks → 4 ≤ w) :
    (∃ h', IndShape cfg.kind (w : Int) h' w) ∨ GlobShape cfg.kind (w : Int) := by
  cases hkk : cfg.kind
  · have := hk hkk
    simp only [IndShape, GlobShape]
    by_cases h4 : w = 4
    · left; exact ⟨false, Or.inl ⟨by omega, by omega, by simp, h4⟩⟩
    · by_cases h8 : w ≤ 8
      · left; exact ⟨true, Or.inr ⟨by omega, by omega, by simp, by simp⟩⟩
      · right; omega
  · simp only [IndShape, GlobShape]
    by_cases h3 : w ≤ 3
    · left; exact ⟨false, by omega, by omega, by simp, by simp⟩
    · right; omega

theorem fresh_get {b n : Nat} (h1 : 1 ≤ b) (h63 : b ≤ 63) (data : List (BitVec 64)) (hd : data.length = size b n)
    {k : Nat} (hk : k < n) : (fresh b n data).get (k : Int) = .ok ((entry b data k : Nat) : Int) :=
  get_ok (wf_fresh b n data hd) h1 h63 hk

/-- The fill loop of the `…WithData` constructors on a fresh container of logical width `w`: every position
receives the source's value.  `M`: the values the source can deliver (the palette, or all ids), `|M| ≤ 2^w`
unless the configuration goes global at `w`. -/
theorem fill_ok {cfg : PalCfg} {gb n w : Nat} (hgb : GbOK cfg gb) (h1 : 1 ≤ w) (h31 : w ≤ 31)
    (hk : cfg.kind = .blocks → 4 ≤ w) (src : Nat → Res Int) (M : List Int)
    (hsrc : ∀ k, k < n → ∃ x, src k = .ok x ∧ x ∈ M ∧ InReg gb x)
    (hM : (∃ h', IndShape cfg.kind (w : Int) h' w) → M.length ≤ 2 ^ w) :
    ∃ d c, newBitStorage (cfg.bits (w : Int)) (n : Int) none = .ok d ∧
      copyLoop Container.set src (List.range n) ⟨(w : Int), cfg, cfg.create (w : Int), d⟩ = .ok c ∧
      Inv cfg gb n c ∧ ∀ j, j < n → c.get (j : Int) = src j := by
  obtain ⟨hg1, hg31⟩ := gb_pos hgb
  have hfresh : ∃ d nc0, newBitStorage (cfg.bits (w : Int)) (n : Int) none = .ok d ∧
      nc0 = (⟨(w : Int), cfg, cfg.create (w : Int), d⟩ : Container) ∧ Inv' (decide (n = 0)) cfg gb n nc0 ∧ Cap nc0.pal M := by
    rcases shape_of_width cfg h1 h31 hk with ⟨h', hs'⟩ | hs'
    · obtain ⟨hb, hc⟩ := cfg_ind hs'
      refine ⟨_, _, by rw [hb]; exact new_nil h1 (by omega) n, rfl, ?_, ?_⟩
      · rw [hc]
        exact .indirect (w : Int) h' w [] _ hs' (by simp) List.nodup_nil (fun x hx => by cases hx)
          (wf_fresh w n _ (by simp)) (fun k _ => Or.inr (entry_zeros w _ k)) (fun e => Or.inl (by simpa using e))
      · rw [hc]
        exact Or.inr ⟨h', [], 2 ^ w, (w : Int), rfl, hM ⟨h', hs'⟩, fun x hx => (by cases hx)⟩
    · obtain ⟨hb, hc⟩ := cfg_glob hgb hs'
      refine ⟨_, _, by rw [hb]; exact new_nil hg1 (by omega) n, rfl, ?_, ?_⟩
      · rw [hc]; exact .global (w : Int) _ hs' (wf_fresh gb n _ (by simp))
      · rw [hc]; exact Or.inl rfl
  obtain ⟨d, nc0, hnew, hnc0, hinv0, hcap0⟩ := hfresh
  subst hnc0
  obtain ⟨c, hloop, hinvs, hinvt, _, _, hgets, _⟩ :=
    copyLoop_ok hgb 16 src M hsrc (List.range n) (fun k hk => List.mem_range.mp hk) _ _ hinv0 hcap0
  refine ⟨d, c, hnew, hloop, ?_, fun j hj => hgets j (List.mem_range.mpr hj)⟩
  by_cases hn : n = 0
  · simpa [hn] using hinvs
  · apply hinvt
    intro e
    have := congrArg List.length e
    simp at this
    exact hn this

/-- `New…WithData(n, pack w idx, pat)` for a palette of at least two entries and indices inside it, `w` being
the save format's width for the palette size: succeeds, well-formed, position `k` holds `pat[idx[k]]` -/
theorem withData_ok {cfg : PalCfg} {gb n : Nat} (hgb : GbOK cfg gb) (pat : List Int) (hpat : ∀ v ∈ pat, InReg gb v)
    (hp2 : 2 ≤ pat.length) (hp31 : pat.length ≤ 2 ^ 31) (idx : List Nat) (hidx : ∀ i ∈ idx, i < pat.length)
    (hn : idx.length = n) :
    ∃ c, Container.withData cfg (n : Int) (some (pack (saveW cfg.kind pat.length) idx)) pat = .ok c ∧
      Inv cfg gb n c ∧ abs n c = idx.map fun i => pat.getD i 0 := by
  obtain ⟨hw1, hw31, hlen⟩ := saveW_bounds cfg.kind hp2 hp31
  generalize hwd : saveW cfg.kind pat.length = w at *
  have hkw : cfg.kind = .blocks → 4 ≤ w := by
    intro hk; rw [← hwd, hk]; simp only [saveW]; omega
  have hidx2 : ∀ v ∈ idx, v < 2 ^ w := fun v hv => Nat.lt_of_lt_of_le (hidx v hv) hlen
  have hunp : unpack w n (pack w idx) = idx := by rw [← hn]; exact unpack_pack hw1 (by omega) idx hidx2
  have hpl : (pack w idx).length = size w n := by rw [pack_length, hn]
  have hentry : ∀ k, k < n → entry w (pack w idx) k = idx.getD k 0 := by
    intro k hk
    have := congrArg (fun l => l.getD k 0) hunp
    simp only [unpack] at this
    rw [← this, List.getD_eq_getElem?_getD, List.getElem?_eq_getElem (by simpa using hk)]
    simp
  have hmem : ∀ k, k < n → idx.getD k 0 < pat.length := by
    intro k hk
    apply hidx
    rw [List.getD_eq_getElem?_getD, List.getElem?_eq_getElem (by omega)]
    simp
  let src : Nat → Res Int := fun k =>
    match (fresh w n (pack w idx)).get (k : Int) with
    | .ok j => if 0 ≤ j ∧ j < pat.length then .ok (pat.getD j.toNat 0) else .panic
    | _ => .panic
  have hne : pat.isEmpty = false := by
    cases pat with
    | nil => simp at hp2
    | cons _ _ => rfl
  have hsrcv : ∀ k, k < n → src k = .ok (pat.getD (idx.getD k 0) 0) := by
    intro k hk
    have h1 := hmem k hk
    have hc : (0 : Int) ≤ ((idx.getD k 0 : Nat) : Int) ∧ ((idx.getD k 0 : Nat) : Int) < (pat.length : Int) := by omega
    simp only [src, fresh_get hw1 (by omega) _ hpl hk, hentry k hk, hc, and_self, if_true, Int.toNat_natCast]
  have hsrc : ∀ k, k < n → ∃ x, src k = .ok x ∧ x ∈ pat ∧ InReg gb x := by
    intro k hk
    have hm : pat.getD (idx.getD k 0) 0 ∈ pat := by
      rw [List.getD_eq_getElem?_getD, List.getElem?_eq_getElem (hmem k hk)]
      simp
    exact ⟨_, hsrcv k hk, hm, hpat _ hm⟩
  obtain ⟨d, c, hnew, hloop, hinv, hgets⟩ := fill_ok hgb hw1 hw31 hkw src pat hsrc (fun _ => hlen)
  refine ⟨c, ?_, hinv, ?_⟩
  · unfold Container.withData
    have hpat' : ∀ v, pat ≠ [v] := by
      intro v e; rw [e] at hp2; simp at hp2
    split
    · rename_i v; exact absurd rfl (hpat' v)
    · simp only [hne, Bool.false_eq_true, if_false, saveBits_eq, hwd, new_some hw1 (by omega : w ≤ 64), hpl, if_true,
        hnew, Int.toNat_natCast]
      exact hloop
  · apply List.ext_getElem
    · simp [hn]
    · intro j hj1 hj2
      have hj : j < n := by simpa using hj1
      simp only [abs, getV, List.getElem_map, List.getElem_range, hgets j hj, hsrcv j hj]
      rw [List.getD_eq_getElem?_getD (l := idx), List.getElem?_eq_getElem (by omega)]
      simp

/-- a palette of one entry: the single-value container, whatever the data -/
theorem withData_single {cfg : PalCfg} {gb n : Nat} (data : Option (List (BitVec 64))) {v : Int} (hv : InReg gb v) :
    Container.withData cfg (n : Int) data [v] = .ok (Container.new cfg (n : Int) v) ∧
    Inv cfg gb n (Container.new cfg (n : Int) v) ∧ abs n (Container.new cfg (n : Int) v) = List.replicate n v := by
  have hwf : WF 0 n { data := [], mask := 0#64, bits := 0, length := (n : Int), vpl := 0 } :=
    ⟨rfl, rfl, rfl, rfl, by simp [size]⟩
  exact ⟨rfl, .single v _ hv hwf, abs_single hwf⟩

/-- no palette: the data holds ids of the registry width -/
theorem withData_direct {cfg : PalCfg} {gb n : Nat} (hgb : GbOK cfg gb) (ids : List Nat) (hids : ∀ i ∈ ids, i < 2 ^ gb)
    (hn : ids.length = n) :
    ∃ c, Container.withData cfg (n : Int) (some (pack gb ids)) [] = .ok c ∧ Inv cfg gb n c ∧
      abs n c = ids.map fun (i : Nat) => (i : Int) := by
  obtain ⟨hg1, hg31⟩ := gb_pos hgb
  have hunp : unpack gb n (pack gb ids) = ids := by rw [← hn]; exact unpack_pack hg1 (by omega) ids hids
  have hpl : (pack gb ids).length = size gb n := by rw [pack_length, hn]
  have hentry : ∀ k, k < n → entry gb (pack gb ids) k = ids.getD k 0 := by
    intro k hk
    have := congrArg (fun l => l.getD k 0) hunp
    simp only [unpack] at this
    rw [← this, List.getD_eq_getElem?_getD, List.getElem?_eq_getElem (by simpa using hk)]
    simp
  let src : Nat → Res Int := fun k =>
    match (fresh gb n (pack gb ids)).get (k : Int) with
    | .ok j => .ok j
    | _ => .panic
  have hsrcv : ∀ k, k < n → src k = .ok ((ids.getD k 0 : Nat) : Int) := by
    intro k hk
    simp only [src, fresh_get hg1 (by omega) _ hpl hk, hentry k hk]
  -- the values the source can deliver: every id of the registry range
  let M : List Int := (List.range (2 ^ gb)).map fun (i : Nat) => (i : Int)
  have hsrc : ∀ k, k < n → ∃ x, src k = .ok x ∧ x ∈ M ∧ InReg gb x := by
    intro k hk
    have hlt : ids.getD k 0 < 2 ^ gb := by
      apply hids
      rw [List.getD_eq_getElem?_getD, List.getElem?_eq_getElem (by omega)]
      simp
    have e : ((2 ^ gb : Nat) : Int) = (2 : Int) ^ gb := by norm_cast
    refine ⟨_, hsrcv k hk, ?_, ⟨by omega, by omega⟩⟩
    simp only [M, List.mem_map, List.mem_range]
    exact ⟨_, hlt, rfl⟩
  have hkw : cfg.kind = .blocks → 4 ≤ gb := by
    intro hk
    obtain ⟨_, _, h3⟩ := hgb
    rw [hk] at h3; simp only at h3; omega
  have hnoind : ¬ ∃ h', IndShape cfg.kind (gb : Int) h' gb := by
    obtain ⟨_, _, h3⟩ := hgb
    rintro ⟨h', hs⟩
    cases hk : cfg.kind <;> rw [hk] at h3 hs <;> simp only [IndShape] at hs <;> simp only at h3 <;> omega
  obtain ⟨d, c, hnew, hloop, hinv, hgets⟩ := fill_ok hgb hg1 hg31 hkw src M hsrc (fun h => absurd h hnoind)
  refine ⟨c, ?_, hinv, ?_⟩
  · simp only [Container.withData, List.isEmpty_nil, if_true, hgb.1, new_some hg1 (by omega : gb ≤ 64), hpl, hnew,
      Int.toNat_natCast]
    exact hloop
  · apply List.ext_getElem
    · simp [hn]
    · intro j hj1 hj2
      have hj : j < n := by simpa using hj1
      simp only [abs, getV, List.getElem_map, List.getElem_range, hgets j hj, hsrcv j hj]
      rw [List.getD_eq_getElem?_getD (l := ids), List.getElem?_eq_getElem (by omega)]
      simp

/-! ### `ReadFrom` never panics (generic `Rd` lemma `NoPanic` + its closure properties; for C08) -/

/-- a reader program that never reaches a Go panic, whatever the source delivers -/
def NoPanic {α : Type} (p : Rd α) : Prop := ∀ s, (p s).1 ≠ Res.panic

theorem noPanic_pure {α : Type} (a : α) : NoPanic (Pure.pure a : Rd α) := by intro s; simp
theorem noPanic_fail {α : Type} : NoPanic (Rd.fail : Rd α) := by intro s; simp [Rd.fail]
theorem noPanic_readByte : NoPanic Rd.readByte := by
  intro s; unfold Rd.readByte; split <;> simp
theorem noPanic_readFull (n : Nat) : NoPanic (Rd.readFull n) := by
  intro s; unfold Rd.readFull; split <;> simp
theorem noPanic_bind {α β : Type} {p : Rd α} {f : α → Rd β} (hp : NoPanic p) (hf : ∀ a, NoPanic (f a)) :
    NoPanic (p >>= f) := by
  intro s
  rw [Rd.bind_apply]
  rcases hps : p s with ⟨r, s'⟩
  cases r with
  | ok a => exact hf a s'
  | err => simp
  | panic => exact absurd (by rw [hps]) (hp s)
theorem noPanic_ite {α : Type} {c : Prop} [Decidable c] {p q : Rd α} (hp : NoPanic p) (hq : NoPanic q) :
    NoPanic (if c then p else q) := by
  split <;> assumption

theorem noPanic_varLoop (w fuel num : Nat) (V : BitVec w) : NoPanic (varLoop w fuel num V) := by
  induction fuel generalizing num V with
  | zero => exact noPanic_fail
  | succ fuel ih =>
    unfold varLoop
    apply noPanic_bind noPanic_readByte
    intro sec
    split
    · exact ih _ _
    · exact noPanic_pure _

theorem noPanic_varIntRead : NoPanic varIntRead := noPanic_varLoop _ _ _ _

theorem bitStorage_readFrom_noPanic (st : BitStorage) (s : Stream) : (st.readFrom s).1 ≠ .panic := by
  rcases h : varIntRead s with ⟨r, s1⟩
  cases r with
  | ok a =>
    obtain ⟨len, n⟩ := a
    simp only [BitStorage.readFrom, h]
    (repeat' split) <;> simp
  | err => simp [BitStorage.readFrom, h]
  | panic => exact absurd (by rw [h]) (noPanic_varIntRead s)

theorem pal_readFrom_noPanic (p : Pal) (s : Stream) : (p.readFrom s).1 ≠ .panic := by
  cases p with
  | single v =>
    rcases h : varIntRead s with ⟨r, s1⟩
    cases r with
    | ok a => obtain ⟨x, n⟩ := a; simp [Pal.readFrom, h]
    | err => simp [Pal.readFrom, h]
    | panic => exact absurd (by rw [h]) (noPanic_varIntRead s)
  | indirect hh vals cap bits =>
    rcases h : varIntRead s with ⟨r, s1⟩
    cases r with
    | ok a =>
      obtain ⟨size, n⟩ := a
      simp only [Pal.readFrom, h]
      (repeat' split) <;> simp
    | err => simp [Pal.readFrom, h]
    | panic => exact absurd (by rw [h]) (noPanic_varIntRead s)
  | global => simp [Pal.readFrom]

theorem fix_noPanic (st : BitStorage) {bits : Int} (h0 : 0 ≤ bits) (h64 : bits ≤ 64) : (st.fix bits).1 ≠ .panic := by
  unfold BitStorage.fix
  by_cases hz : bits = 0
  · simp [hz]
  · have hneg : ¬ bits < 0 := by omega
    simp only [hz, if_false, hneg]
    obtain ⟨b, rfl⟩ : ∃ b : Nat, bits = (b : Int) := ⟨bits.toNat, by omega⟩
    have hsz := size_model (by omega : 1 ≤ b) (by omega : b ≤ 64) 0
    unfold calcBitStorageSize
    have e64 : (64 : Int) = ((64 : Nat) : Int) := rfl
    have hv : Int.tdiv 64 (b : Int) ≠ 0 := by
      rw [e64, ← Int.ofNat_tdiv]
      have : 0 < 64 / b := Nat.div_pos (by omega) (by omega)
      omega
    simp only [hz, if_false, hv]
    split <;> simp

theorem cfg_bits_range (cfg : PalCfg) (hg0 : 0 ≤ cfg.gbits) (hg64 : cfg.gbits ≤ 64) (nb : Int) :
    0 ≤ cfg.bits nb ∧ cfg.bits nb ≤ 64 := by
  unfold PalCfg.bits
  cases cfg.kind <;> simp only <;> (repeat' split) <;> omega

/-- `PaletteContainer.ReadFrom` returns (a value or an error) on every input, from every destination state -/
theorem readFrom_noPanic (d : Container) (hg0 : 0 ≤ d.cfg.gbits) (hg64 : d.cfg.gbits ≤ 64) (s : Stream) :
    (d.readFrom s).1 ≠ .panic := by
  unfold Container.readFrom
  rcases hb : Rd.readByte s with ⟨r, s1⟩
  cases r with
  | ok b =>
    simp only
    rcases hp : (d.cfg.create (b.toNat : Int)).readFrom s1 with ⟨r1, p, s2⟩
    cases r1 with
    | ok n1 =>
      simp only
      rcases hd : d.data.readFrom s2 with ⟨r2, dd, s3⟩
      cases r2 with
      | ok n2 =>
        simp only
        have := fix_noPanic dd (cfg_bits_range d.cfg hg0 hg64 (b.toNat : Int)).1 (cfg_bits_range d.cfg hg0 hg64 (b.toNat : Int)).2
        split <;> simp_all
      | err => simp
      | panic => exact absurd (by rw [hd]) (bitStorage_readFrom_noPanic d.data s2)
    | err => simp
    | panic => exact absurd (by rw [hp]) (pal_readFrom_noPanic _ s1)
  | err => simp
  | panic => exact absurd (by rw [hb]) (noPanic_readByte s)

/-- the independent reading of a saved palette + data pair, on the packing of in-range indices -/
theorem readSaved_pack (k : PalKind) (n : Nat) (pat : List Int) (hp2 : 2 ≤ pat.length) (hp31 : pat.length ≤ 2 ^ 31)
    (idx : List Nat) (hidx : ∀ i ∈ idx, i < pat.length) (hn : idx.length = n) :
    readSaved (specKind k) n pat (pack (saveW k pat.length) idx) = some (idx.map fun i => pat.getD i 0) := by
  obtain ⟨hw1, hw31, hlen⟩ := saveW_bounds k hp2 hp31
  have hidx2 : ∀ v ∈ idx, v < 2 ^ saveW k pat.length := fun v hv => Nat.lt_of_lt_of_le (hidx v hv) hlen
  have hunp : unpack (saveW k pat.length) n (pack (saveW k pat.length) idx) = idx := by
    rw [← hn]; exact unpack_pack hw1 (by omega) idx hidx2
  unfold readSaved
  split
  · simp at hp2
  · simp at hp2
  · simp only [saveWidth_eq k _ hp2, pack_length, hn, hunp, true_and]
    have : idx.all (fun x => decide (x < pat.length)) = true := by
      rw [List.all_eq_true]; intro x hx; simpa using hidx x hx
    simp [this]

theorem ofNat64_eq_iff (b k : Nat) (hb : b < 2 ^ 64) (hk : k < 2 ^ 64) :
    (BitVec.ofNat 64 b = BitVec.ofNat 64 k) ↔ b = k := by
  constructor
  · intro h
    have := congrArg BitVec.toNat h
    rwa [ofNat_toNat_lt hb, ofNat_toNat_lt hk] at this
  · intro h; rw [h]


/-! ### fragmentation invariance and extension stability of the `ReadFrom` model (for C09) -/

/-- `PaletteContainer.ReadFrom` as a reader program: the count and the destination afterwards -/
def readRd (d : Container) : Rd (Nat × Container) := fun s =>
  ((d.readFrom s).1.map fun n => (n, (d.readFrom s).2.1), (d.readFrom s).2.2)

theorem fragInv_readLong : Rd.FragInv readLong :=
  Rd.fragInv_bind (Rd.fragInv_readFull 8) (fun _ => Rd.fragInv_pure _)

theorem readVals_frag : ∀ (cells : List Int) (s t : Stream), Stream.Equiv s t →
    (readVals cells s).1 = (readVals cells t).1 ∧ Stream.Equiv (readVals cells s).2 (readVals cells t).2
  | [], s, t, h => ⟨rfl, h⟩
  | o :: old, s, t, h => by
    have := Lemmas.fragInv_varIntRead s t h
    rcases hs : varIntRead s with ⟨r, s'⟩
    rcases ht : varIntRead t with ⟨r', t'⟩
    rw [hs, ht] at this
    simp only at this
    obtain ⟨hr, he⟩ := this
    subst hr
    cases r with
    | ok a =>
      obtain ⟨v, n⟩ := a
      have ih := readVals_frag old s' t' he
      simp only [readVals, hs, ht]
      exact ⟨by rw [ih.1], ih.2⟩
    | err => simp only [readVals, hs, ht]; exact ⟨(by first | rfl | trivial), he⟩
    | panic => simp only [readVals, hs, ht]; exact ⟨(by first | rfl | trivial), he⟩

theorem readLongs_frag : ∀ (cells : List (BitVec 64)) (s t : Stream), Stream.Equiv s t →
    (readLongs cells s).1 = (readLongs cells t).1 ∧ Stream.Equiv (readLongs cells s).2 (readLongs cells t).2
  | [], s, t, h => ⟨rfl, h⟩
  | o :: old, s, t, h => by
    have := fragInv_readLong s t h
    rcases hs : readLong s with ⟨r, s'⟩
    rcases ht : readLong t with ⟨r', t'⟩
    rw [hs, ht] at this
    simp only at this
    obtain ⟨hr, he⟩ := this
    subst hr
    cases r with
    | ok v =>
      have ih := readLongs_frag old s' t' he
      simp only [readLongs, hs, ht]
      exact ⟨by rw [ih.1], ih.2⟩
    | err => simp only [readLongs, hs, ht]; exact ⟨(by first | rfl | trivial), he⟩
    | panic => simp only [readLongs, hs, ht]; exact ⟨(by first | rfl | trivial), he⟩

theorem pal_readFrom_frag (p : Pal) (s t : Stream) (h : Stream.Equiv s t) :
    (p.readFrom s).1 = (p.readFrom t).1 ∧ (p.readFrom s).2.1 = (p.readFrom t).2.1 ∧
      Stream.Equiv (p.readFrom s).2.2 (p.readFrom t).2.2 := by
  have := Lemmas.fragInv_varIntRead s t h
  rcases hs : varIntRead s with ⟨r, s'⟩
  rcases ht : varIntRead t with ⟨r', t'⟩
  rw [hs, ht] at this
  simp only at this
  obtain ⟨hr, he⟩ := this
  subst hr
  cases p with
  | single v =>
    cases r with
    | ok a => obtain ⟨x, n⟩ := a; simp only [Pal.readFrom, hs, ht]; exact ⟨(by first | rfl | trivial), (by first | rfl | trivial), he⟩
    | err => simp only [Pal.readFrom, hs, ht]; exact ⟨(by first | rfl | trivial), (by first | rfl | trivial), he⟩
    | panic => simp only [Pal.readFrom, hs, ht]; exact ⟨(by first | rfl | trivial), (by first | rfl | trivial), he⟩
  | indirect hh vals cap bits =>
    cases r with
    | ok a =>
      obtain ⟨size, n⟩ := a
      simp only [Pal.readFrom, hs, ht]
      split
      · exact ⟨(by first | rfl | trivial), (by first | rfl | trivial), he⟩
      · split
        · exact ⟨(by first | rfl | trivial), (by first | rfl | trivial), he⟩
        · have ih := readVals_frag
            (if size.toNat > cap then List.replicate size.toNat 0
             else (vals ++ List.replicate (cap - vals.length) 0).take size.toNat) s' t' he
          exact ⟨by rw [ih.1], by rw [ih.1], ih.2⟩
    | err => simp only [Pal.readFrom, hs, ht]; exact ⟨(by first | rfl | trivial), (by first | rfl | trivial), he⟩
    | panic => simp only [Pal.readFrom, hs, ht]; exact ⟨(by first | rfl | trivial), (by first | rfl | trivial), he⟩
  | global => simp only [Pal.readFrom]; exact ⟨(by first | rfl | trivial), (by first | rfl | trivial), h⟩

theorem bitStorage_readFrom_frag (st : BitStorage) (s t : Stream) (h : Stream.Equiv s t) :
    (st.readFrom s).1 = (st.readFrom t).1 ∧ (st.readFrom s).2.1 = (st.readFrom t).2.1 ∧
      Stream.Equiv (st.readFrom s).2.2 (st.readFrom t).2.2 := by
  have := Lemmas.fragInv_varIntRead s t h
  rcases hs : varIntRead s with ⟨r, s'⟩
  rcases ht : varIntRead t with ⟨r', t'⟩
  rw [hs, ht] at this
  simp only at this
  obtain ⟨hr, he⟩ := this
  subst hr
  cases r with
  | ok a =>
    obtain ⟨len, n⟩ := a
    simp only [BitStorage.readFrom, hs, ht]
    split
    · exact ⟨(by first | rfl | trivial), (by first | rfl | trivial), he⟩
    · have ih := readLongs_frag
        (if len.toNat ≤ (st.data ++ st.spare).length then (st.data ++ st.spare).take len.toNat
         else List.replicate len.toNat 0#64) s' t' he
      exact ⟨by rw [ih.1], by rw [ih.1], ih.2⟩
  | err => simp only [BitStorage.readFrom, hs, ht]; exact ⟨(by first | rfl | trivial), (by first | rfl | trivial), he⟩
  | panic => simp only [BitStorage.readFrom, hs, ht]; exact ⟨(by first | rfl | trivial), (by first | rfl | trivial), he⟩

/-- the container's `ReadFrom` cannot tell two deliveries of the same bytes apart: same outcome, same
destination afterwards, equivalent residual -/
theorem readFrom_frag (d : Container) (s t : Stream) (h : Stream.Equiv s t) :
    (d.readFrom s).1 = (d.readFrom t).1 ∧ (d.readFrom s).2.1 = (d.readFrom t).2.1 ∧
      Stream.Equiv (d.readFrom s).2.2 (d.readFrom t).2.2 := by
  have := Rd.fragInv_readByte s t h
  rcases hs : Rd.readByte s with ⟨r, s1⟩
  rcases ht : Rd.readByte t with ⟨r', t1⟩
  rw [hs, ht] at this
  simp only at this
  obtain ⟨hr, he⟩ := this
  subst hr
  cases r with
  | ok b =>
    have hp := pal_readFrom_frag (d.cfg.create (b.toNat : Int)) s1 t1 he
    rcases hps : (d.cfg.create (b.toNat : Int)).readFrom s1 with ⟨r1, p, s2⟩
    rcases hpt : (d.cfg.create (b.toNat : Int)).readFrom t1 with ⟨r1', p', t2⟩
    rw [hps, hpt] at hp
    simp only at hp
    obtain ⟨hr1, hpp, he2⟩ := hp
    subst hr1; subst hpp
    cases r1 with
    | ok n1 =>
      have hd := bitStorage_readFrom_frag d.data s2 t2 he2
      rcases hds : d.data.readFrom s2 with ⟨r2, dd, s3⟩
      rcases hdt : d.data.readFrom t2 with ⟨r2', dd', t3⟩
      rw [hds, hdt] at hd
      simp only at hd
      obtain ⟨hr2, hdd, he3⟩ := hd
      subst hr2; subst hdd
      cases r2 with
      | ok n2 => simp only [Container.readFrom, hs, ht, hps, hpt, hds, hdt]; exact ⟨(by first | rfl | trivial), (by first | rfl | trivial), he3⟩
      | err => simp only [Container.readFrom, hs, ht, hps, hpt, hds, hdt]; exact ⟨(by first | rfl | trivial), (by first | rfl | trivial), he3⟩
      | panic => simp only [Container.readFrom, hs, ht, hps, hpt, hds, hdt]; exact ⟨(by first | rfl | trivial), (by first | rfl | trivial), he3⟩
    | err => simp only [Container.readFrom, hs, ht, hps, hpt]; exact ⟨(by first | rfl | trivial), (by first | rfl | trivial), he2⟩
    | panic => simp only [Container.readFrom, hs, ht, hps, hpt]; exact ⟨(by first | rfl | trivial), (by first | rfl | trivial), he2⟩
  | err => simp only [Container.readFrom, hs, ht]; exact ⟨(by first | rfl | trivial), (by first | rfl | trivial), he⟩
  | panic => simp only [Container.readFrom, hs, ht]; exact ⟨(by first | rfl | trivial), (by first | rfl | trivial), he⟩

theorem fragInv_readRd (d : Container) : Rd.FragInv (readRd d) := by
  intro s t h
  obtain ⟨h1, h2, h3⟩ := readFrom_frag d s t h
  unfold readRd
  exact ⟨by rw [h1, h2], h3⟩

theorem extStable_readLong : Rd.ExtStable readLong :=
  Rd.extStable_bind (Rd.extStable_readFull 8) (fun _ => Rd.extStable_pure _)

theorem readVals_ext : ∀ (cells : List Int) (s : Stream) (vs : List Int) (k : Nat) (s' : Stream),
    readVals cells s = ((true, vs, k), s') → ∀ (t : Stream) (extra : Bytes), t.flat = s.flat ++ extra →
      ∃ t', readVals cells t = ((true, vs, k), t') ∧ t'.flat = s'.flat ++ extra ∧ t'.failing = t.failing
  | [], s, vs, k, s', h, t, extra, ht => by
    simp only [readVals, Prod.mk.injEq] at h
    obtain ⟨⟨_, rfl, rfl⟩, rfl⟩ := h
    exact ⟨t, rfl, ht, rfl⟩
  | o :: old, s, vs, k, s', h, t, extra, ht => by
    rcases hs : varIntRead s with ⟨r, s1⟩
    cases r with
    | ok a =>
      obtain ⟨v, n⟩ := a
      simp only [readVals, hs, Prod.mk.injEq] at h
      obtain ⟨⟨h1, h2, h3⟩, h4⟩ := h
      obtain ⟨t1, hvt, hf1, hfl1⟩ := Lemmas.extStable_varIntRead s (v, n) s1 hs t extra ht
      have hrec : readVals old s1 = ((true, (readVals old s1).1.2.1, (readVals old s1).1.2.2), (readVals old s1).2) := by
        rw [← h1]
      obtain ⟨t', hr, hf', hfl'⟩ := readVals_ext old s1 _ _ _ hrec t1 extra hf1
      refine ⟨t', ?_, by rw [hf', h4], hfl'.trans hfl1⟩
      simp only [readVals, hvt, hr, h2, h3]
    | err => simp [readVals, hs] at h
    | panic => simp [readVals, hs] at h

theorem readLongs_ext : ∀ (cells : List (BitVec 64)) (s : Stream) (vs : List (BitVec 64)) (s' : Stream),
    readLongs cells s = ((true, vs), s') → ∀ (t : Stream) (extra : Bytes), t.flat = s.flat ++ extra →
      ∃ t', readLongs cells t = ((true, vs), t') ∧ t'.flat = s'.flat ++ extra ∧ t'.failing = t.failing
  | [], s, vs, s', h, t, extra, ht => by
    simp only [readLongs, Prod.mk.injEq] at h
    obtain ⟨⟨_, rfl⟩, rfl⟩ := h
    exact ⟨t, rfl, ht, rfl⟩
  | o :: old, s, vs, s', h, t, extra, ht => by
    rcases hs : readLong s with ⟨r, s1⟩
    cases r with
    | ok v =>
      simp only [readLongs, hs, Prod.mk.injEq] at h
      obtain ⟨⟨h1, h2⟩, h4⟩ := h
      obtain ⟨t1, hvt, hf1, hfl1⟩ := extStable_readLong s v s1 hs t extra ht
      have hrec : readLongs old s1 = ((true, (readLongs old s1).1.2), (readLongs old s1).2) := by
        rw [← h1]
      obtain ⟨t', hr, hf', hfl'⟩ := readLongs_ext old s1 _ _ hrec t1 extra hf1
      refine ⟨t', ?_, by rw [hf', h4], hfl'.trans hfl1⟩
      simp only [readLongs, hvt, hr, h2]
    | err => simp [readLongs, hs] at h
    | panic => simp [readLongs, hs] at h

theorem pal_readFrom_ext (p : Pal) (s : Stream) (n : Nat) (p' : Pal) (s' : Stream)
    (h : p.readFrom s = (.ok n, p', s')) (t : Stream) (extra : Bytes) (ht : t.flat = s.flat ++ extra) :
    ∃ t', p.readFrom t = (.ok n, p', t') ∧ t'.flat = s'.flat ++ extra ∧ t'.failing = t.failing := by
  cases p with
  | single v =>
    rcases hs : varIntRead s with ⟨r, s1⟩
    cases r with
    | ok a =>
      obtain ⟨x, m⟩ := a
      simp only [Pal.readFrom, hs, Prod.mk.injEq, Res.ok.injEq] at h
      obtain ⟨rfl, rfl, rfl⟩ := h
      obtain ⟨t1, hvt, hf1, hfl1⟩ := Lemmas.extStable_varIntRead s (x, m) s1 hs t extra ht
      exact ⟨t1, by simp only [Pal.readFrom, hvt], hf1, hfl1⟩
    | err => simp [Pal.readFrom, hs] at h
    | panic => simp [Pal.readFrom, hs] at h
  | indirect hh vals cap bits =>
    rcases hs : varIntRead s with ⟨r, s1⟩
    cases r with
    | ok a =>
      obtain ⟨size, m⟩ := a
      obtain ⟨t1, hvt, hf1, hfl1⟩ := Lemmas.extStable_varIntRead s (size, m) s1 hs t extra ht
      simp only [Pal.readFrom, hs] at h
      simp only [Pal.readFrom, hvt]
      split at h
      · simp at h
      · split at h
        · simp at h
        · rename_i hc1 hc2
          simp only [hc1, hc2, if_false]
          generalize hcells : (if size.toNat > cap then List.replicate size.toNat 0
             else (vals ++ List.replicate (cap - vals.length) 0).take size.toNat) = cells at h ⊢
          simp only [Prod.mk.injEq] at h
          obtain ⟨h1, h2, h3⟩ := h
          have hflag : (readVals cells s1).1.1 = true := by
            by_cases hf : (readVals cells s1).1.1 = true
            · exact hf
            · simp [hf] at h1
          have hrec : readVals cells s1 = ((true, (readVals cells s1).1.2.1, (readVals cells s1).1.2.2), (readVals cells s1).2) := by
            rw [← hflag]
          obtain ⟨t', hr, hf', hfl'⟩ := readVals_ext cells s1 _ _ _ hrec t1 extra hf1
          refine ⟨t', ?_, by rw [hf', h3], hfl'.trans hfl1⟩
          simp only [hr, if_true]
          simp only [hflag, if_true] at h1
          rw [h1, h2]
    | err => simp [Pal.readFrom, hs] at h
    | panic => simp [Pal.readFrom, hs] at h
  | global =>
    simp only [Pal.readFrom, Prod.mk.injEq, Res.ok.injEq] at h
    obtain ⟨rfl, rfl, rfl⟩ := h
    exact ⟨t, rfl, ht, rfl⟩

theorem bitStorage_readFrom_ext (st : BitStorage) (s : Stream) (n : Nat) (st' : BitStorage) (s' : Stream)
    (h : st.readFrom s = (.ok n, st', s')) (t : Stream) (extra : Bytes) (ht : t.flat = s.flat ++ extra) :
    ∃ t', st.readFrom t = (.ok n, st', t') ∧ t'.flat = s'.flat ++ extra ∧ t'.failing = t.failing := by
  rcases hs : varIntRead s with ⟨r, s1⟩
  cases r with
  | ok a =>
    obtain ⟨len, m⟩ := a
    obtain ⟨t1, hvt, hf1, hfl1⟩ := Lemmas.extStable_varIntRead s (len, m) s1 hs t extra ht
    simp only [BitStorage.readFrom, hs] at h
    simp only [BitStorage.readFrom, hvt]
    split at h
    · simp at h
    · rename_i hc1
      simp only [hc1, if_false]
      generalize hcells : (if len.toNat ≤ (st.data ++ st.spare).length then (st.data ++ st.spare).take len.toNat
         else List.replicate len.toNat 0#64) = cells at h ⊢
      simp only [Prod.mk.injEq] at h
      obtain ⟨h1, h2, h3⟩ := h
      have hflag : (readLongs cells s1).1.1 = true := by
        by_cases hf : (readLongs cells s1).1.1 = true
        · exact hf
        · simp [hf] at h1
      have hrec : readLongs cells s1 = ((true, (readLongs cells s1).1.2), (readLongs cells s1).2) := by
        rw [← hflag]
      obtain ⟨t', hr, hf', hfl'⟩ := readLongs_ext cells s1 _ _ hrec t1 extra hf1
      refine ⟨t', ?_, by rw [hf', h3], hfl'.trans hfl1⟩
      simp only [hr, if_true]
      simp only [hflag, if_true] at h1
      rw [h1, h2]
  | err => simp [BitStorage.readFrom, hs] at h
  | panic => simp [BitStorage.readFrom, hs] at h

/-- a successful `ReadFrom` does not depend on what follows the bytes it consumed -/
theorem readFrom_ext (d : Container) (s : Stream) (n : Nat) (d' : Container) (s' : Stream)
    (h : d.readFrom s = (.ok n, d', s')) (t : Stream) (extra : Bytes) (ht : t.flat = s.flat ++ extra) :
    ∃ t', d.readFrom t = (.ok n, d', t') ∧ t'.flat = s'.flat ++ extra ∧ t'.failing = t.failing := by
  rcases hs : Rd.readByte s with ⟨r, s1⟩
  cases r with
  | ok b =>
    obtain ⟨t1, hbt, hf1, hfl1⟩ := Rd.extStable_readByte s b s1 hs t extra ht
    rcases hps : (d.cfg.create (b.toNat : Int)).readFrom s1 with ⟨r1, p, s2⟩
    cases r1 with
    | ok n1 =>
      obtain ⟨t2, hpt, hf2, hfl2⟩ := pal_readFrom_ext _ s1 n1 p s2 hps t1 extra hf1
      rcases hds : d.data.readFrom s2 with ⟨r2, dd, s3⟩
      cases r2 with
      | ok n2 =>
        obtain ⟨t3, hdt, hf3, hfl3⟩ := bitStorage_readFrom_ext _ s2 n2 dd s3 hds t2 extra hf2
        simp only [Container.readFrom, hs, hps, hds, Prod.mk.injEq] at h
        obtain ⟨h1, h2, h3⟩ := h
        refine ⟨t3, ?_, by rw [hf3, h3], (hfl3.trans hfl2).trans hfl1⟩
        simp only [Container.readFrom, hbt, hpt, hdt]
        rw [h1, h2]
      | err => simp [Container.readFrom, hs, hps, hds] at h
      | panic => simp [Container.readFrom, hs, hps, hds] at h
    | err => simp [Container.readFrom, hs, hps] at h
    | panic => simp [Container.readFrom, hs, hps] at h
  | err => simp [Container.readFrom, hs] at h
  | panic => simp [Container.readFrom, hs] at h

theorem extStable_readRd (d : Container) : Rd.ExtStable (readRd d) := by
  intro s a s' h t extra ht
  obtain ⟨n, d'⟩ := a
  unfold readRd at h
  rcases hr : d.readFrom s with ⟨r, dd, s2⟩
  rw [hr] at h
  cases r with
  | ok m =>
    simp only [Res.map, Prod.mk.injEq, Res.ok.injEq] at h
    obtain ⟨⟨rfl, rfl⟩, rfl⟩ := h
    obtain ⟨t', h1, h2, h3⟩ := readFrom_ext d s m dd s2 hr t extra ht
    exact ⟨t', by unfold readRd; rw [h1]; rfl, h2, h3⟩
  | err => simp [Res.map] at h
  | panic => simp [Res.map] at h

/-! ### a reload is independent of what the destination held before -/

/-- the longs loop: success, residual and (on success) the cells read depend on the old cells only through
their number -/
theorem readLongs_indep : ∀ (c1 c2 : List (BitVec 64)) (s : Stream), c1.length = c2.length →
    (readLongs c1 s).1.1 = (readLongs c2 s).1.1 ∧ (readLongs c1 s).2 = (readLongs c2 s).2 ∧
      ((readLongs c1 s).1.1 = true → (readLongs c1 s).1.2 = (readLongs c2 s).1.2)
  | [], [], s, _ => ⟨rfl, rfl, fun _ => rfl⟩
  | [], _ :: _, _, h => by simp at h
  | _ :: _, [], _, h => by simp at h
  | o1 :: r1, o2 :: r2, s, h => by
    rcases hs : readLong s with ⟨r, s1⟩
    cases r with
    | ok v =>
      obtain ⟨h1, h2, h3⟩ := readLongs_indep r1 r2 s1 (by simpa using h)
      simp only [readLongs, hs]
      exact ⟨h1, h2, fun hf => by rw [h3 hf]⟩
    | err => simp [readLongs, hs]
    | panic => simp [readLongs, hs]

/-- two storages that differ at most in their spare capacity (which no operation but the slice reuse of
`ReadFrom` looks at) -/
def SameButSpare (a b : BitStorage) : Prop :=
  a.data = b.data ∧ a.mask = b.mask ∧ a.bits = b.bits ∧ a.length = b.length ∧ a.vpl = b.vpl

theorem SameButSpare.get_eq {a b : BitStorage} (h : SameButSpare a b) (i : Int) : a.get i = b.get i := by
  obtain ⟨h1, h2, h3, h4, h5⟩ := h
  unfold BitStorage.get BitStorage.indexBad BitStorage.locate
  rw [h1, h2, h3, h4, h5]

theorem take_or_fresh_length (l : List (BitVec 64)) (k : Nat) :
    (if k ≤ l.length then l.take k else List.replicate k 0#64).length = k := by
  split
  · rename_i h; simp [List.length_take, h]
  · simp

theorem bitStorage_readFrom_indep (a b : BitStorage) (hl : a.length = b.length) (s : Stream) :
    (a.readFrom s).1 = (b.readFrom s).1 ∧ (a.readFrom s).2.2 = (b.readFrom s).2.2 ∧
      (a.readFrom s).2.1.length = (b.readFrom s).2.1.length ∧
      (∀ n, (a.readFrom s).1 = .ok n → (a.readFrom s).2.1.data = (b.readFrom s).2.1.data) := by
  rcases hs : varIntRead s with ⟨r, s1⟩
  cases r with
  | ok x =>
    obtain ⟨len, m⟩ := x
    simp only [BitStorage.readFrom, hs]
    split
    · exact ⟨(by first | rfl | trivial), (by first | rfl | trivial), hl, fun n hn => (by simp at hn)⟩
    · obtain ⟨h1, h2, h3⟩ := readLongs_indep
        (if len.toNat ≤ (a.data ++ a.spare).length then (a.data ++ a.spare).take len.toNat else List.replicate len.toNat 0#64)
        (if len.toNat ≤ (b.data ++ b.spare).length then (b.data ++ b.spare).take len.toNat else List.replicate len.toNat 0#64)
        s1 (by rw [take_or_fresh_length, take_or_fresh_length])
      refine ⟨by rw [h1], h2, hl, ?_⟩
      intro n hn
      apply h3
      by_cases hf : (readLongs (if len.toNat ≤ (a.data ++ a.spare).length then (a.data ++ a.spare).take len.toNat
            else List.replicate len.toNat 0#64) s1).1.1 = true
      · exact hf
      · rw [if_neg hf] at hn; cases hn
  | err => simp only [BitStorage.readFrom, hs]; exact ⟨(by first | rfl | trivial), (by first | rfl | trivial), hl, fun n hn => (by simp at hn)⟩
  | panic => simp only [BitStorage.readFrom, hs]; exact ⟨(by first | rfl | trivial), (by first | rfl | trivial), hl, fun n hn => (by simp at hn)⟩

theorem fix_indep (a b : BitStorage) (hd : a.data = b.data) (hl : a.length = b.length) (bits : Int) :
    (a.fix bits).1 = (b.fix bits).1 ∧ ((a.fix bits).1 = .ok () → SameButSpare (a.fix bits).2 (b.fix bits).2) := by
  unfold BitStorage.fix SameButSpare
  by_cases h0 : bits = 0
  · simp only [h0, if_true]; exact ⟨trivial, fun _ => ⟨hd, trivial, trivial, hl, trivial⟩⟩
  · simp only [h0, if_false]
    by_cases hn : bits < 0
    · simp [hn]
    · simp only [hn, if_false, hl, hd]
      rcases calcBitStorageSize bits b.length with sz | _ | _
      · simp only
        split <;> simp
      · simp
      · simp

/-- `ReadFrom` determines the container from the wire bytes: two destinations of the same configuration and
length — whatever palette, logical width, storage width and longs they held — give the same outcome and the
same residual on every stream, and on success the same logical width, palette and storage (up to the spare
capacity of the backing array) -/
theorem readFrom_indep (d1 d2 : Container) (hcfg : d1.cfg = d2.cfg) (hlen : d1.data.length = d2.data.length)
    (s : Stream) :
    (d1.readFrom s).1 = (d2.readFrom s).1 ∧ (d1.readFrom s).2.2 = (d2.readFrom s).2.2 ∧
      (∀ n, (d1.readFrom s).1 = .ok n →
        (d1.readFrom s).2.1.bits = (d2.readFrom s).2.1.bits ∧ (d1.readFrom s).2.1.cfg = (d2.readFrom s).2.1.cfg ∧
        (d1.readFrom s).2.1.pal = (d2.readFrom s).2.1.pal ∧
        SameButSpare (d1.readFrom s).2.1.data (d2.readFrom s).2.1.data) := by
  rcases hb : Rd.readByte s with ⟨r, s1⟩
  cases r with
  | ok b =>
    rcases hp : (d2.cfg.create (b.toNat : Int)).readFrom s1 with ⟨r1, p, s2⟩
    cases r1 with
    | ok n1 =>
      obtain ⟨e1, e2, e3, e4⟩ := bitStorage_readFrom_indep d1.data d2.data hlen s2
      rcases hd1 : d1.data.readFrom s2 with ⟨ra, da, sa⟩
      rcases hd2 : d2.data.readFrom s2 with ⟨rb, db, sb⟩
      rw [hd1, hd2] at e1 e2 e3 e4
      simp only at e1 e2 e3 e4
      subst e1; subst e2
      cases ra with
      | ok n2 =>
        obtain ⟨f1, f2⟩ := fix_indep da db (e4 n2 rfl) e3 (d2.cfg.bits (b.toNat : Int))
        simp only [Container.readFrom, hb, hcfg, hp, hd1, hd2]
        refine ⟨by rw [f1], (by first | rfl | trivial), ?_⟩
        intro n hn
        refine ⟨(by first | rfl | trivial), (by first | exact hcfg | trivial), (by first | rfl | trivial), f2 ?_⟩
        rcases hfa : (da.fix (d2.cfg.bits (b.toNat : Int))).1 with u | _ | _
        · rfl
        · simp [hfa] at hn
        · simp [hfa] at hn
      | err => simp only [Container.readFrom, hb, hcfg, hp, hd1, hd2]; exact ⟨(by first | rfl | trivial), (by first | rfl | trivial), fun n hn => (by simp at hn)⟩
      | panic => simp only [Container.readFrom, hb, hcfg, hp, hd1, hd2]; exact ⟨(by first | rfl | trivial), (by first | rfl | trivial), fun n hn => (by simp at hn)⟩
    | err => simp only [Container.readFrom, hb, hcfg, hp]; exact ⟨(by first | rfl | trivial), (by first | rfl | trivial), fun n hn => (by simp at hn)⟩
    | panic => simp only [Container.readFrom, hb, hcfg, hp]; exact ⟨(by first | rfl | trivial), (by first | rfl | trivial), fun n hn => (by simp at hn)⟩
  | err => simp only [Container.readFrom, hb]; exact ⟨(by first | rfl | trivial), (by first | rfl | trivial), fun n hn => (by simp at hn)⟩
  | panic => simp only [Container.readFrom, hb]; exact ⟨(by first | rfl | trivial), (by first | rfl | trivial), fun n hn => (by simp at hn)⟩

/-- containers that agree up to spare capacity answer every `Get` alike -/
theorem get_of_same {c1 c2 : Container} (hp : c1.pal = c2.pal) (hd : SameButSpare c1.data c2.data) (i : Int) :
    c1.get i = c2.get i := by
  simp only [Container.get, hd.get_eq, hp]

end GoMC.Lemmas.Palette
