/-
  Lemmas about the typed NBT codec models (`Model/NBTTyped`, `Model/NBTEncode`, `Model/TypeInfo`).

  Part 1: closure. Any property of reader programs that is `Closed` (holds for the primitives, kept by `>>=` and
  `if`) and also holds for `Rd.crash` and for the two foreign carriers' decoders holds for the typed `unmarshal`
  at every destination type (`closedC_typed`). Instances: `Rd.FragInv`, `Rd.ExtStable`.
-/
import GoMC.Lemmas.NBTDecode
import GoMC.Model.NBTTyped
namespace GoMC.Lemmas.NBTTyped
open GoMC GoMC.Rd GoMC.Model GoMC.Model.NBT GoMC.Model.Go GoMC.Lemmas.NBTDecode

section
variable {P : ∀ {α : Type}, Rd α → Prop} (hP : Closed P)
include hP

theorem closed_refuseG {α : Type} (tag : Byte) : P (refuseG tag : Rd α) := by
  have := closed_refuse hP tag
  unfold refuseG; rd_closed hP

theorem closed_rdRepeat {α : Type} (p : Rd α) (hp : P p) (n : Nat) : P (rdRepeat p n) := by
  induction n with
  | zero => exact hP.pure _
  | succ n ih => unfold rdRepeat; rd_closed hP

theorem closed_rdMapFirst (k : GoVal → Rd GoVal) (hk : ∀ x, P (k x)) (n : Nat) (xs : List GoVal) :
    P (rdMapFirst k n xs) := by
  induction n generalizing xs with
  | zero => unfold rdMapFirst; exact hP.pure _
  | succ n ih =>
    cases xs with
    | nil => unfold rdMapFirst; exact hP.pure _
    | cons x xs => unfold rdMapFirst; rd_closed hP

theorem closed_kvLoop {σ : Type} (step : Byte → Bytes → σ → Rd σ) (hs : ∀ a b c, P (step a b c)) (w : Nat) (st : σ) :
    P (kvLoop step w st) := by
  have ht := closed_readTag hP
  induction w generalizing st with
  | zero => unfold kvLoop; exact hP.fail
  | succ w ih => unfold kvLoop; rd_closed hP

theorem closed_updField (hc : ∀ {α : Type}, P (Rd.crash : Rd α)) (rec : Bool → GoVal → Rd GoVal)
    (hr : ∀ b x, P (rec b x)) (i : Nat) (s : GoVal) : P (updField rec i s) := by
  unfold updField
  repeat (first
    | exact hP.pure _ | exact hP.fail | exact hc | assumption | apply_assumption
    | apply hP.bind | apply hP.ite | intro _ | split)

theorem closed_updAt (hc : ∀ {α : Type}, P (Rd.crash : Rd α)) (k : GoVal → Rd GoVal) (hk : ∀ x, P (k x))
    (path : List Nat) (settable : Bool) (v : GoVal) : P (updAt k path settable v) := by
  induction path generalizing settable v with
  | nil => unfold updAt; exact hk v
  | cons i is ih =>
    have hf := closed_updField hP hc (updAt k is) ih i
    unfold updAt
    repeat (first
      | exact hP.pure _ | exact hP.fail | exact hc | assumption | apply_assumption
      | apply hP.bind | apply hP.ite | intro _ | split)

macro "rd_closedr" h:ident : tactic => `(tactic| repeat (first
  | exact ($h).pure _ | exact ($h).fail | exact ($h).readFull _ | exact ($h).readByte
  | with_reducible assumption | with_reducible apply_assumption
  | apply ($h).bind | apply ($h).ite | intro _ | split))

theorem closed_arrayLen : P arrayLen := by
  have := closed_readInt32 hP
  unfold arrayLen; rd_closedr hP
theorem closed_listHeader : P listHeader := by
  have := closed_readInt32 hP
  unfold listHeader; rd_closedr hP

theorem closed_umBool (tag : Byte) : P (umBool tag) := by
  have := closed_readInt8 hP
  have hrf : P (refuseG tag : Rd GoVal) := closed_refuseG hP tag
  unfold umBool; rd_closedr hP
theorem closed_umInt (k : IK) (tag : Byte) : P (umInt k tag) := by
  have h8 := closed_readInt8 hP
  have h16 := closed_readInt16 hP
  have h32 := closed_readInt32 hP
  have h64 := closed_readInt64 hP
  have hrf : P (refuseG tag : Rd GoVal) := closed_refuseG hP tag
  unfold umInt
  apply hP.ite
  · split
    · exact hP.bind h8 (fun _ => hP.pure _)
    · exact hP.bind h16 (fun _ => hP.pure _)
    · exact hP.bind h32 (fun _ => hP.pure _)
    · exact hP.bind h64 (fun _ => hP.pure _)
  · exact hrf
theorem closed_umF32 (tag : Byte) : P (umF32 tag) := by
  have := closed_readInt32 hP
  have hrf : P (refuseG tag : Rd GoVal) := closed_refuseG hP tag
  unfold umF32; rd_closedr hP
theorem closed_umF64 (tag : Byte) : P (umF64 tag) := by
  have := closed_readInt32 hP
  have := closed_readInt64 hP
  have hrf : P (refuseG tag : Rd GoVal) := closed_refuseG hP tag
  unfold umF64; rd_closedr hP
theorem closed_umStr (tag : Byte) : P (umStr tag) := by
  have := closed_readString hP
  have hrf : P (refuseG tag : Rd GoVal) := closed_refuseG hP tag
  unfold umStr; rd_closedr hP

theorem closed_umSlice (rec : Rec) (hr : ∀ a b c, P (rec a b c)) (e : GoType) (old : GoVal) (tag : Byte) :
    P (umSlice rec e old tag) := by
  have hal := closed_arrayLen hP
  have hlh := closed_listHeader hP
  have hi := closed_readInts hP
  have hl := closed_readLongs hP
  have hrf : P (refuseG tag : Rd GoVal) := closed_refuseG hP tag
  unfold umSlice
  split
  · apply hP.ite
    · exact hP.bind hal (fun n => hP.bind (hP.readFull _) (fun _ => hP.pure _))
    · exact hrf
  · apply hP.ite
    · exact hP.bind hal (fun n => hP.bind (hi _) (fun _ => hP.pure _))
    · exact hrf
  · apply hP.ite
    · exact hP.bind hal (fun n => hP.bind (hl _) (fun _ => hP.pure _))
    · exact hrf
  · apply hP.bind hlh
    rintro ⟨lt, n⟩
    exact hP.bind (closed_rdRepeat hP _ (hr _ _ _) _) (fun _ => hP.pure _)
  · exact hrf

theorem closed_umArray (rec : Rec) (hr : ∀ a b c, P (rec a b c)) (len : Nat) (e : GoType) (old : GoVal) (tag : Byte) :
    P (umArray rec len e old tag) := by
  have hal := closed_arrayLen hP
  have hlh := closed_listHeader hP
  have hi := closed_readInts hP
  have hl := closed_readLongs hP
  have hrf : P (refuseG tag : Rd GoVal) := closed_refuseG hP tag
  unfold umArray
  split
  · apply hP.bind hal; intro n
    apply hP.bind (hP.readFull _); intro ba
    apply hP.ite hP.fail
    apply hP.ite hP.fail
    exact hP.pure _
  · apply hP.bind hal; intro n
    apply hP.ite hP.fail
    apply hP.ite hP.fail
    exact hP.bind (hi _) (fun _ => hP.pure _)
  · apply hP.bind hal; intro n
    apply hP.ite hP.fail
    apply hP.ite hP.fail
    exact hP.bind (hl _) (fun _ => hP.pure _)
  · apply hP.bind hlh
    rintro ⟨lt, n⟩
    apply hP.ite hP.fail
    exact hP.bind (closed_rdMapFirst hP _ (fun x => hr _ _ _) _ _) (fun _ => hP.pure _)
  · exact hrf

theorem closed_umMap (rec : Rec) (hr : ∀ a b c, P (rec a b c)) (fuel : Nat) (e : GoType) (old : GoVal) (tag : Byte) :
    P (umMap rec fuel e old tag) := by
  have hrf : P (refuseG tag : Rd GoVal) := closed_refuseG hP tag
  unfold umMap
  split
  · apply hP.bind
    · apply closed_kvLoop hP
      intro tt tn acc
      exact hP.bind (hr _ _ _) (fun _ => hP.pure _)
    · intro _; exact hP.pure _
  · exact hrf

theorem closed_structStep (hc : ∀ {α : Type}, P (Rd.crash : Rd α)) (rec : Rec) (hr : ∀ a b c, P (rec a b c))
    (disallow : Bool) (fuel : Nat) (flds : List Fld) (tt : Byte) (tn : Bytes) (sv : GoVal) :
    P (structStep rec disallow fuel flds tt tn sv) := by
  have hraw := (closed_raw hP fuel).1
  unfold structStep
  split
  · split
    · exact closed_updAt hP hc _ (fun x => hr _ _ _) _ _ _
    · exact hc
  · split
    · exact hP.fail
    · exact hP.bind (hraw _) (fun _ => hP.pure _)

theorem closed_umStruct (hc : ∀ {α : Type}, P (Rd.crash : Rd α)) (rec : Rec) (hr : ∀ a b c, P (rec a b c))
    (disallow : Bool) (fuel : Nat) (n : Bytes) (fields : List (FieldInfo × GoType)) (old : GoVal) (tag : Byte) :
    P (umStruct rec disallow fuel n fields old tag) := by
  have hrf : P (refuseG tag : Rd GoVal) := closed_refuseG hP tag
  unfold umStruct
  split
  · exact closed_kvLoop hP _ (fun a b c => closed_structStep hP hc rec hr _ _ _ a b c) _ _
  · exact hrf

theorem closed_umPtr (rec : Rec) (hr : ∀ a b c, P (rec a b c)) (e : GoType) (old : GoVal) (tag : Byte) :
    P (umPtr rec e old tag) := by
  unfold umPtr; rd_closedr hP

theorem closed_umIface (rec : Rec) (hr : ∀ a b c, P (rec a b c)) (fuel : Nat) (old : GoVal) (tag : Byte) :
    P (umIface rec fuel old tag) := by
  have hany := (closed_any hP fuel).1
  unfold umIface
  apply hP.ite hP.fail
  split
  · exact hP.bind (hr _ _ _) (fun _ => hP.pure _)
  · exact hP.bind (hr _ _ _) (fun _ => hP.pure _)
  · exact hP.bind (hany _) (fun _ => hP.pure _)

theorem closed_umCarrier (cx : SnbtCarrier) (hdyn : ∀ tag, P (DynBT.unmarshal tag)) (hsn : ∀ tag, P (cx.unmarshal tag))
    (fuel : Nat) (ty : GoType) (tag : Byte) : P (umCarrier cx fuel ty tag) := by
  have hraw := (closed_raw hP fuel).1
  unfold umCarrier
  split
  · exact hP.bind (hdyn _) (fun _ => hP.pure _)
  · exact hP.ite hP.fail (hP.bind (hraw _) (fun _ => hP.pure _))
  · exact hP.ite hP.fail (hP.bind (hsn _) (fun _ => hP.pure _))

/-- the typed decoder: any property closed under the combinators, that holds for a crash and for the two
foreign carriers, holds for `unmarshal` at every type -/
theorem closedC_typed (hc : ∀ {α : Type}, P (Rd.crash : Rd α)) (cx : SnbtCarrier) (disallow : Bool)
    (hdyn : ∀ tag, P (DynBT.unmarshal tag)) (hsn : ∀ tag, P (cx.unmarshal tag)) (fuel : Nat) :
    ∀ ty old tag, P (unmarshal cx disallow fuel ty old tag) := by
  induction fuel with
  | zero => intro ty old tag; unfold unmarshal; exact hP.fail
  | succ f ih =>
    intro ty old tag
    unfold unmarshal
    split
    · exact closed_umCarrier hP cx hdyn hsn _ _ _
    · exact closed_umCarrier hP cx hdyn hsn _ _ _
    · exact closed_umCarrier hP cx hdyn hsn _ _ _
    · exact closed_umPtr hP _ ih _ _ _
    · exact closed_umIface hP _ ih _ _ _
    · exact closed_umBool hP _
    · exact closed_umInt hP _ _
    · exact closed_umF32 hP _
    · exact closed_umF64 hP _
    · exact closed_umStr hP _
    · exact closed_umSlice hP _ ih _ _ _
    · exact closed_umArray hP _ ih _ _ _ _
    · exact closed_umMap hP _ ih _ _ _ _
    · exact closed_umStruct hP hc _ ih _ _ _ _ _ _

theorem closedC_decodeTypedF (hc : ∀ {α : Type}, P (Rd.crash : Rd α)) (cx : SnbtCarrier)
    (hdyn : ∀ tag, P (DynBT.unmarshal tag)) (hsn : ∀ tag, P (cx.unmarshal tag))
    (fuel : Nat) (network disallow : Bool) (ty : GoType) : P (decodeTypedF cx fuel network disallow ty) := by
  have := closed_readHead hP network
  have := closedC_typed hP hc cx disallow hdyn hsn fuel
  unfold decodeTypedF; rd_closed hP
end
/-! ### Part 2: the encoder never panics -/

def isSeq : GoVal → Bool
  | .slice _ _ _ | .array _ _ => true
  | _ => false

/-- what `getTagType` guarantees about the (tag, value) pair it returns: the kind `writeValue` will ask for -/
def Compat (t : Byte) (r : GoVal) : Prop :=
  r.isCarrier = true ∨
    ((t.toNat = 2 ∨ t.toNat = 3 ∨ t.toNat = 4 → ∃ k v, r = .int k v) ∧
     (t.toNat = 5 → ∃ b, r = .f32 b) ∧ (t.toNat = 6 → ∃ b, r = .f64 b) ∧
     (t.toNat = 7 ∨ t.toNat = 9 ∨ t.toNat = 11 ∨ t.toNat = 12 → isSeq r = true) ∧
     (t.toNat = 8 → ∃ s, r = .str s))

theorem arrTag_cases (t : Byte) : (arrTag t).toNat = 7 ∨ (arrTag t).toNat = 11 ∨ (arrTag t).toNat = 12 ∨ (arrTag t).toNat = 9 := by
  unfold arrTag
  split
  · left; rfl
  · split
    · right; left; rfl
    · split
      · right; right; left; rfl
      · right; right; right; rfl

theorem compat_seq (t : Byte) (v : GoVal) (hv : isSeq v = true)
    (ht : t.toNat = 7 ∨ t.toNat = 11 ∨ t.toNat = 12 ∨ t.toNat = 9) : Compat t v := by
  right
  refine ⟨?_, ?_, ?_, ?_, ?_⟩
  · intro h; omega
  · intro h; omega
  · intro h; omega
  · intro _; exact hv
  · intro h; omega

theorem compat_getTagType (cx : SnbtCarrier) (f : Nat) (v : GoVal) :
    Compat (getTagType cx f v).1 (getTagType cx f v).2 := by
  induction f generalizing v with
  | zero =>
    unfold getTagType
    right
    simp only
    refine ⟨?_, ?_, ?_, ?_, ?_⟩ <;> (intro h; simp at h)
  | succ f ih =>
    unfold getTagType
    split
    · exact ih _
    · simp only
      split
      · left; assumption
      · exact ih _
    · left; rfl
    · left; rfl
    · left; rfl
    · -- slice
      split
      · simp only
        split
        · exact compat_seq _ _ rfl (Or.inr (Or.inr (Or.inr rfl)))
        · exact compat_seq _ _ rfl (arrTag_cases _)
      · exact compat_seq _ _ rfl (arrTag_cases _)
    · split
      · simp only
        split
        · exact compat_seq _ _ rfl (Or.inr (Or.inr (Or.inr rfl)))
        · exact compat_seq _ _ rfl (arrTag_cases _)
      · exact compat_seq _ _ rfl (arrTag_cases _)
    · -- by kind
      rename_i h1 h2 h3 h4 h5 h6 h7
      right
      cases v with
      | bool b => refine ⟨?_, ?_, ?_, ?_, ?_⟩ <;> (intro h; simp [tagOfType, GoVal.typeOf] at h)
      | int k x =>
        refine ⟨fun _ => ⟨k, x, rfl⟩, ?_, ?_, ?_, ?_⟩ <;> (intro h; cases k <;> simp [tagOfType, GoVal.typeOf] at h)
      | f32 b => refine ⟨?_, fun _ => ⟨b, rfl⟩, ?_, ?_, ?_⟩ <;> (intro h; simp [tagOfType, GoVal.typeOf] at h)
      | f64 b => refine ⟨?_, ?_, fun _ => ⟨b, rfl⟩, ?_, ?_⟩ <;> (intro h; simp [tagOfType, GoVal.typeOf] at h)
      | str s => refine ⟨?_, ?_, ?_, ?_, fun _ => ⟨s, rfl⟩⟩ <;> (intro h; simp [tagOfType, GoVal.typeOf] at h)
      | slice e nl xs => exact absurd rfl (h6 e nl xs)
      | array e xs => exact absurd rfl (h7 e xs)
      | map e nl kvs => refine ⟨?_, ?_, ?_, ?_, ?_⟩ <;> (intro h; simp [tagOfType, GoVal.typeOf] at h)
      | struct n fields fs => refine ⟨?_, ?_, ?_, ?_, ?_⟩ <;> (intro h; simp [tagOfType, GoVal.typeOf] at h)
      | ptr e p => exact absurd rfl (h2 e p)
      | iface p =>
        cases p with
        | none => refine ⟨?_, ?_, ?_, ?_, ?_⟩ <;> (intro h; simp [tagOfType, GoVal.typeOf] at h)
        | some x => exact absurd rfl (h1 x)
      | raw t d => exact absurd rfl (h3 t d)
      | snbt t => exact absurd rfl (h4 t)
      | dyn d => exact absurd rfl (h5 d)

theorem resMapM_noPanic {α β : Type} (f : α → Res β) (xs : List α) (h : ∀ x, f x ≠ Res.panic) :
    resMapM f xs ≠ Res.panic := by
  induction xs with
  | nil => simp [resMapM]
  | cons x xs ih =>
    unfold resMapM
    have := h x
    split
    · split
      · simp
      · simp
      · rename_i hp; exact absurd hp ih
    · simp
    · rename_i hp; exact absurd hp this

theorem resMap_noPanic {α β : Type} (r : Res α) (g : α → β) (h : r ≠ Res.panic) : r.map g ≠ Res.panic := by
  cases r <;> simp_all [Res.map]

theorem resFlatten_noPanic (r : Res (List Bytes)) (g : Bytes → Bytes) (h : r ≠ Res.panic) : resFlatten r g ≠ Res.panic := by
  unfold resFlatten
  cases r <;> simp_all

mutual
  theorem dynMarshal_noPanic : ∀ d : DynBT.Val, DynBT.marshal d ≠ Res.panic
    | .leaf t d => by
      unfold DynBT.marshal
      repeat (first | split | simp)
    | .list e xs => by
      have := dynMarshalList_noPanic xs
      unfold DynBT.marshal
      split
      · simp
      · simp
      · rename_i h; exact absurd h this
    | .comp kvs => by
      unfold DynBT.marshal
      exact dynMarshalKvs_noPanic kvs
  theorem dynMarshalList_noPanic : ∀ xs : List DynBT.Val, DynBT.marshalList xs ≠ Res.panic
    | [] => by unfold DynBT.marshalList; simp
    | x :: xs => by
      have h1 := dynMarshal_noPanic x
      have h2 := dynMarshalList_noPanic xs
      unfold DynBT.marshalList
      split
      · split
        · simp
        · simp
        · rename_i h; exact absurd h h2
      · simp
      · rename_i h; exact absurd h h1
  theorem dynMarshalKvs_noPanic : ∀ kvs : List (Bytes × DynBT.Val), DynBT.marshalKvs kvs ≠ Res.panic
    | [] => by unfold DynBT.marshalKvs; simp
    | (k, v) :: kvs => by
      have h1 := dynMarshal_noPanic v
      have h2 := dynMarshalKvs_noPanic kvs
      unfold DynBT.marshalKvs
      split
      · split
        · simp
        · simp
        · rename_i h; exact absurd h h2
      · simp
      · rename_i h; exact absurd h h1
end

theorem writeTag_noPanic (t : Byte) (n : Bytes) : writeTag t n ≠ Res.panic := by
  unfold writeTag; split <;> simp

theorem byteOfElem_noPanic (x : GoVal) : byteOfElem x ≠ Res.panic := by
  unfold byteOfElem; split <;> simp
theorem numOfElem_noPanic (k : Nat) (x : GoVal) : numOfElem k x ≠ Res.panic := by
  unfold numOfElem; split <;> simp

theorem carrierMarshal_noPanic (cx : SnbtCarrier) (hsn : ∀ s, cx.marshal s ≠ Res.panic) (v : GoVal)
    (hv : v.isCarrier = true) : carrierMarshal cx v ≠ Res.panic := by
  cases v <;> simp [GoVal.isCarrier, GoVal.typeOf, GoType.isCarrier] at hv
  · simp [carrierMarshal]
  · exact hsn _
  · exact dynMarshal_noPanic _


theorem compat_isSeq {t : Byte} {r : GoVal} (h : Compat t r) (hc : r.isCarrier = false)
    (ht : t.toNat = 7 ∨ t.toNat = 9 ∨ t.toNat = 11 ∨ t.toNat = 12) : isSeq r = true := by
  rcases h with h | h
  · rw [hc] at h; cases h
  · exact h.2.2.2.1 ht

theorem elemEnc_noPanic (g : GoVal → Byte × GoVal) (m : GoVal → Byte → Res Bytes) (eleType : Byte) (x : GoVal)
    (hm : m (g x).2 (g x).1 ≠ Res.panic) : elemEnc g m eleType x ≠ Res.panic := by
  unfold elemEnc
  simp only
  split
  · simp
  · exact hm

theorem entryEnc_noPanic (g : GoVal → Byte × GoVal) (m : GoVal → Byte → Res Bytes) (kv : Bytes × GoVal)
    (hm : m (g kv.2).2 (g kv.2).1 ≠ Res.panic) : entryEnc g m kv ≠ Res.panic := by
  unfold entryEnc
  simp only
  split
  · simp
  · have := writeTag_noPanic (g kv.2).1 kv.1
    split
    · split
      · simp
      · simp
      · rename_i h; exact absurd h hm
    · simp
    · rename_i h; exact absurd h this

theorem fieldEnc_noPanic (g : GoVal → Byte × GoVal) (m : GoVal → Byte → Res Bytes) (sv : GoVal) (fld : Fld)
    (hg : ∀ x, Compat (g x).1 (g x).2)
    (hm : ∀ r t, Compat t r → m r t ≠ Res.panic) : fieldEnc g m sv fld ≠ Res.panic := by
  unfold fieldEnc
  split
  · simp
  · rename_i fv _
    split
    · simp
    · simp only
      split
      · simp
      · split
        · simp
        · rename_i t ht
          have hw := writeTag_noPanic t fld.name
          have hc : Compat t (g fv).2 := by
            by_cases hl : fld.asList = true
            · simp only [hl, if_true] at ht
              by_cases hcar : (g fv).2.isCarrier = true
              · simp [hcar] at ht
              · have hcar' : (g fv).2.isCarrier = false := by simpa using hcar
                simp only [hcar', Bool.false_eq_true, if_false] at ht
                split at ht
                · rename_i h7
                  have ht9 : t = 9 := by simpa using ht.symm
                  subst ht9
                  have hs := compat_isSeq (hg fv) hcar' (by
                    rcases h7 with h | h | h
                    · left; rw [h]; rfl
                    · right; right; left; rw [h]; rfl
                    · right; right; right; rw [h]; rfl)
                  exact compat_seq _ _ hs (Or.inr (Or.inr (Or.inr rfl)))
                · cases ht
            · have hl' : fld.asList = false := by simpa using hl
              simp only [hl', Bool.false_eq_true, if_false, Option.some.injEq] at ht
              subst ht
              exact hg fv
          have := hm _ _ hc
          split
          · split
            · simp
            · simp
            · rename_i h; exact absurd h this
          · simp
          · rename_i h; exact absurd h hw

/-- `marshal` / `writeValue` never panic on a (tag, value) pair that comes from `getTagType` -/
theorem enc_noPanic (cx : SnbtCarrier) (hsn : ∀ s, cx.marshal s ≠ Res.panic) (f : Nat) :
    (∀ v t, Compat t v → marshal cx f v t ≠ Res.panic) ∧
    (∀ v t, Compat t v → v.isCarrier = false → writeValue cx f v t ≠ Res.panic) := by
  induction f with
  | zero =>
    refine ⟨?_, ?_⟩
    · intro v t _; unfold marshal; simp
    · intro v t _ _; unfold writeValue; simp
  | succ f ih =>
    obtain ⟨ihM, ihW⟩ := ih
    refine ⟨?_, ?_⟩
    · intro v t hc
      unfold marshal
      split
      · rename_i hcar; exact carrierMarshal_noPanic cx hsn v hcar
      · rename_i hcar; exact ihW v t hc (by simpa using hcar)
    · intro v t hc hcar
      obtain ⟨hint, hf32, hf64, hseq, hstr⟩ : ((t.toNat = 2 ∨ t.toNat = 3 ∨ t.toNat = 4 → ∃ k x, v = .int k x) ∧
          (t.toNat = 5 → ∃ b, v = .f32 b) ∧ (t.toNat = 6 → ∃ b, v = .f64 b) ∧
          (t.toNat = 7 ∨ t.toNat = 9 ∨ t.toNat = 11 ∨ t.toNat = 12 → isSeq v = true) ∧
          (t.toNat = 8 → ∃ s, v = .str s)) := by
        rcases hc with h | h
        · rw [hcar] at h; cases h
        · exact h
      have hg := compat_getTagType cx f
      unfold writeValue
      split
      · -- 1
        split <;> simp
      · rename_i h; obtain ⟨k, x, rfl⟩ := hint (Or.inl h); simp [intValue]
      · rename_i h; obtain ⟨k, x, rfl⟩ := hint (Or.inr (Or.inl h)); simp [intValue]
      · rename_i h; obtain ⟨k, x, rfl⟩ := hint (Or.inr (Or.inr h)); simp [intValue]
      · rename_i h; obtain ⟨b, rfl⟩ := hf32 h; simp
      · rename_i h; obtain ⟨b, rfl⟩ := hf64 h; simp
      · -- 7
        rename_i h
        have hs := hseq (Or.inl h)
        split
        · split
          · simp
          · simp
          · simp
          · exact resFlatten_noPanic _ _ (resMap_noPanic _ _ (resMapM_noPanic _ _ byteOfElem_noPanic))
        · split
          · simp
          · simp
          · simp
          · exact resFlatten_noPanic _ _ (resMap_noPanic _ _ (resMapM_noPanic _ _ byteOfElem_noPanic))
        · rename_i h1 h2; cases v <;> simp_all [isSeq]
      · -- 11
        rename_i h
        have hs := hseq (Or.inr (Or.inr (Or.inl h)))
        split
        · exact resFlatten_noPanic _ _ (resMapM_noPanic _ _ (numOfElem_noPanic 4))
        · exact resFlatten_noPanic _ _ (resMapM_noPanic _ _ (numOfElem_noPanic 4))
        · rename_i h1 h2; cases v <;> simp_all [isSeq]
      · -- 12
        rename_i h
        have hs := hseq (Or.inr (Or.inr (Or.inr h)))
        split
        · exact resFlatten_noPanic _ _ (resMapM_noPanic _ _ (numOfElem_noPanic 8))
        · exact resFlatten_noPanic _ _ (resMapM_noPanic _ _ (numOfElem_noPanic 8))
        · rename_i h1 h2; cases v <;> simp_all [isSeq]
      · -- 9
        rename_i h
        have hs := hseq (Or.inr (Or.inl h))
        split
        · exact resFlatten_noPanic _ _ (resMapM_noPanic _ _ (fun x => elemEnc_noPanic _ _ _ x (ihM _ _ (hg x))))
        · exact resFlatten_noPanic _ _ (resMapM_noPanic _ _ (fun x => elemEnc_noPanic _ _ _ x (ihM _ _ (hg x))))
        · rename_i h1 h2; cases v <;> simp_all [isSeq]
      · -- 8
        rename_i h; obtain ⟨s, rfl⟩ := hstr h
        simp only
        split <;> simp
      · -- 10
        split
        · exact resFlatten_noPanic _ _ (resMapM_noPanic _ _ (fun fld => fieldEnc_noPanic _ _ _ fld hg ihM))
        · exact resFlatten_noPanic _ _ (resMapM_noPanic _ _ (fun kv => entryEnc_noPanic _ _ kv (ihM _ _ (hg kv.2))))
        · simp
      · simp


/-- `Encoder.Encode` never panics — for every value of the universe (well-typed or not), every name, both formats,
any fuel — provided `StringifiedMessage.MarshalNBT` does not -/
theorem encodeF_noPanic (cx : SnbtCarrier) (hsn : ∀ s, cx.marshal s ≠ Res.panic) (fuel : Nat) (network : Bool)
    (name : Bytes) (v : Option GoVal) : encodeF cx fuel network name v ≠ Res.panic := by
  unfold encodeF
  cases v with
  | none => simp
  | some v =>
    simp only
    have hc := compat_getTagType cx fuel v
    have hm := (enc_noPanic cx hsn fuel).1 _ _ hc
    have hw := writeTag_noPanic (getTagType cx fuel v).1 name
    split
    · split
      · simp
      · simp
      · rename_i h; exact absurd h hm
    · simp
    · rename_i h
      split at h
      · cases h
      · exact absurd h hw

end GoMC.Lemmas.NBTTyped
