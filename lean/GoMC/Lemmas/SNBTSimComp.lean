import GoMC.Lemmas.SNBTSimRules
namespace GoMC.Model.SNBT
open GoMC Scanner DState Spec
open GoMC.Spec.SNBT (isWs isDigit isLetter isTokenByte skipWs spanToken spanDigits digitsVal stripSign inRange lower
  classify readQuoted readKey arrayElem mkArray readArrayElems readValue readEntries readElems FloatSem Tok)

/-! ### the simulation: statements -/

/-- positions after a call: same text, progress, within bounds -/
def Adv2 (d d' : DState) : Prop :=
  d'.data = d.data ∧ d.off ≤ d'.off - 1 ∧ 1 ≤ d'.off ∧ d'.off ≤ d.data.length + 1

/-- a value: the grammar reads, from where `writeValue` started, the same value up to where it stopped -/
def SimV (fs : FloatSem) (ifw : Bool) (name : Bytes) (d d' : DState) (out : Bytes) : Prop :=
  ∃ t u, (∀ F, d'.off - d.off ≤ F → readValue fs F d.next = some (t, u, d'.pend)) ∧
    (u = false → out = hdr ifw t.tag name ++ encPayload t)

def SimWV (fs : FloatSem) (f : Nat) : Prop :=
  ∀ (d : DState) (σ : List PS) (ifw : Bool) (name : Bytes) (d' : DState) (out : Bytes),
    BV σ d.scan → d.scan.Good → d.off ≤ d.data.length →
    writeValue (semOracle fs) f d ifw name = .ok (d', out) →
    Adv2 d d' ∧ ExitRel σ d' ∧ ((σ = [] → TokEnd d'.pend) → SimV fs ifw name d d' out)

/-- the entries of a compound, from after `{` (`CE`) or after `,` (`BS`) -/
def SimCL (fs : FloatSem) (f : Nat) : Prop :=
  ∀ (d : DState) (σ : List PS) (acc : Bytes) (d' : DState) (out : Bytes),
    (CE σ d.scan ∨ BS σ d.scan) → d.scan.Good → d.off ≤ d.data.length →
    compLoop (semOracle fs) f d acc = .ok (d', out) →
    Adv2 d d' ∧ ExitRel σ d' ∧
    ∃ kvs u, (u = false → out = acc ++ kvPre kvs ++ [0]) ∧
      ((CE σ d.scan ∧ kvs = [] ∧ u = false ∧ skipWs d.next = 125 :: d'.pend) ∨
       (kvs ≠ [] ∧ (∃ c k, skipWs d.next = c :: k ∧ (c == 125) = false) ∧
        ∀ F, d'.off - d.off ≤ F → ∀ acc0 u0,
          readEntries fs F d.next acc0 u0 = some (acc0.reverse ++ kvs, u0 || u, d'.pend)))

/-- a list or array, from after `[` -/
def SimWL (fs : FloatSem) (f : Nat) : Prop :=
  ∀ (d : DState) (σ : List PS) (ifw : Bool) (name : Bytes) (d' : DState) (t : Byte) (out : Bytes),
    LA σ d.scan → d.scan.Good → d.off ≤ d.data.length →
    writeListOrArray (semOracle fs) f d ifw name = .ok (d', t, out) →
    Adv2 d d' ∧ ExitRel σ d' ∧ ((σ = [] → TokEnd d'.pend) →
    ∃ x u, (∀ F, d'.off - d.off + 1 ≤ F → readValue fs F (91 :: d.next) = some (x, u, d'.pend)) ∧
      (u = false → t = x.tag ∧ out = hdr ifw x.tag name ++ encPayload x))


/-! ### the simulation: `writeValue` -/

theorem readValue_zero (fs : FloatSem) (t : Bytes) : readValue fs 0 t = none := by simp [readValue]

theorem SimWV_step (fs : FloatSem) (f : Nat) (hCL : SimCL fs f) (hWL : SimWL fs f) : SimWV fs (f + 1) := by
  intro d σ ifw name d' out hbv hg hlen hrun
  unfold writeValue at hrun
  dsimp only at hrun
  have h1 := skipBV σ d hbv hg
  obtain ⟨t1, t2, t3⟩ := skipSpace_text d (Or.inl hbv.1) hg hlen
  have hch := skipBV_char σ d hbv hg
  have heof := scanWhile_eof_op .skipSpace d hg
  generalize scanWhile .skipSpace d = d1 at *
  obtain ⟨hg1, ho1, ob, hp, hb1, hb2⟩ := h1
  rcases hp with e | ⟨e, hl⟩ | ⟨e, hce⟩ | ⟨e, hla⟩
  · rw [e] at hrun; cases hrun
  · -- a literal
    rw [e] at hrun; dsimp only at hrun
    obtain ⟨c, hob, hl⟩ := hl
    obtain ⟨hc1, hc2⟩ := hb1 c hob
    have hcore := readLiteral_core false σ d1 c hl hg1 hc1 hc2
    cases hr : readLiteral d1 with
    | err => rw [hr] at hrun; cases hrun
    | panic => rw [hr] at hrun; cases hrun
    | fuel => rw [hr] at hrun; cases hrun
    | ok p =>
      obtain ⟨d2, lit⟩ := p
      rw [hr] at hrun hcore
      dsimp only at hrun hcore
      obtain ⟨hdone, hat, hdata2, hsplit, hprog2, hend, hws, _⟩ := hcore
      cases hpl : parseLiteral (semOracle fs) lit with
      | err => rw [hpl] at hrun; cases hrun
      | panic => rw [hpl] at hrun; cases hrun
      | fuel => rw [hpl] at hrun; cases hrun
      | ok q =>
        obtain ⟨tag, ov⟩ := q
        rw [hpl] at hrun
        cases ov with
        | none => cases hrun
        | some v =>
          dsimp only at hrun
          by_cases hok : litOk v = true
          case neg => rw [if_pos (by simp [hok])] at hrun; cases hrun
          rw [if_neg (by simp [hok])] at hrun
          injection hrun with hrun
          injection hrun with e1 e2
          subst e1
          obtain ⟨hg2, ho2, _⟩ := hat
          have hdd : d2.data = d.data := by rw [hdata2, t1]
          have hpend2 : d2.pend = d1.data.drop (d2.off - 1) := by unfold DState.pend; rw [hdata2]
          refine ⟨⟨hdd, by omega, by omega, by rw [← t1, ← hdata2]; exact ho2⟩, ?_, fun herr => ?_⟩
          · exact readLiteral_exit false σ d1 c hl hg1 hc1 hc2 d2 lit hr
          · have htok : TokEnd d2.pend := by
              by_cases hσ : σ = []
              · exact herr hσ
              · rw [hpend2]
                cases hk : d1.data.drop (d2.off - 1) with
                | nil => trivial
                | cons x k => exact hend (Or.inl hσ) x k hk
            have htag := parseLiteral_tag (semOracle fs) lit tag v hpl
            obtain ⟨t, u, hrv, htu⟩ := lit_sim fs lit d2.pend hdone htok tag v hpl
            refine ⟨t, u, fun F hF => ?_, fun hu => ?_⟩
            · obtain ⟨F', rfl⟩ : ∃ F', F = F' + 1 := ⟨F - 1, by omega⟩
              rw [readValue_skip fs _ _ _ t2]
              have : d1.pend = lit ++ d2.pend := by
                unfold DState.pend; rw [hdata2]; exact hsplit
              rw [this]
              exact hrv F'
            · rw [← e2, htu hu, (litNBT_enc v).1, (litNBT_enc v).2, htag]
  · -- a compound
    rw [e] at hrun; dsimp only at hrun
    -- the byte just consumed is `{`
    have hpe : d1.pend = 123 :: d1.next ∧ d1.off ≤ d1.data.length ∧ 1 ≤ d1.off := by
      cases ob with
      | none =>
        have hoff := hb2 rfl
        have : d1.pend = [] := by unfold DState.pend; rw [hoff]; simp
        rcases heof this with h | h <;> rw [e] at h <;> cases h
      | some c =>
        obtain ⟨hc1, hc2⟩ := hb1 c rfl
        obtain ⟨p1, p2⟩ := pend_of_some d1 c hc1 hc2
        have := (hch c _ p1).1 e
        subst this
        exact ⟨p1, p2, hc1⟩
    cases hr : compLoop (semOracle fs) f d1 [] with
    | err => rw [hr] at hrun; cases hrun
    | panic => rw [hr] at hrun; cases hrun
    | fuel => rw [hr] at hrun; cases hrun
    | ok p =>
      obtain ⟨d2, o⟩ := p
      rw [hr] at hrun
      dsimp only at hrun
      injection hrun with hrun
      injection hrun with e1 e2
      subst e1
      obtain ⟨⟨a1, a2, a3, a4⟩, hwsr, kvs, u, hout, hsim⟩ := hCL d1 σ [] d2 o (Or.inl hce) hg1 hpe.2.1 hr
      refine ⟨⟨by rw [a1, t1], by omega, a3, by rw [← t1]; exact a4⟩, hwsr, fun _ => ?_⟩
      refine ⟨.compound kvs, u, fun F hF => ?_, fun hu => ?_⟩
      · obtain ⟨F', rfl⟩ : ∃ F', F = F' + 1 := ⟨F - 1, by omega⟩
        rw [readValue_skip fs _ _ _ t2, hpe.1]
        unfold readValue
        rw [skipWs_cons 123 _ (by decide)]
        simp only [show ((123 : Byte) == 123) = true by decide, if_true]
        rcases hsim with ⟨_, hk, hu', hsk⟩ | ⟨hne, ⟨c, k, hsk, hc⟩, hre⟩
        · rw [hsk]
          simp only [beq_self_eq_true, if_true]
          rw [hk, hu']
        · rw [hsk]
          simp only [hc, Bool.false_eq_true, if_false]
          rw [hre F' (by omega) [] false]
          simp
      · rw [← e2, hout hu]
        simp only [List.nil_append, NBT.tag, encPayload, doc_encKvs_eq]
        rfl
  · -- a list or array
    rw [e] at hrun; dsimp only at hrun
    have hpe : d1.pend = 91 :: d1.next ∧ d1.off ≤ d1.data.length ∧ 1 ≤ d1.off := by
      cases ob with
      | none =>
        have hoff := hb2 rfl
        have : d1.pend = [] := by unfold DState.pend; rw [hoff]; simp
        rcases heof this with h | h <;> rw [e] at h <;> cases h
      | some c =>
        obtain ⟨hc1, hc2⟩ := hb1 c rfl
        obtain ⟨p1, p2⟩ := pend_of_some d1 c hc1 hc2
        have := (hch c _ p1).2 e
        subst this
        exact ⟨p1, p2, hc1⟩
    cases hr : writeListOrArray (semOracle fs) f d1 ifw name with
    | err => rw [hr] at hrun; cases hrun
    | panic => rw [hr] at hrun; cases hrun
    | fuel => rw [hr] at hrun; cases hrun
    | ok p =>
      obtain ⟨d2, tt, o⟩ := p
      rw [hr] at hrun
      dsimp only at hrun
      injection hrun with hrun
      injection hrun with e1 e2
      subst e1; subst e2
      obtain ⟨⟨a1, a2, a3, a4⟩, hwsr, hsimwl⟩ := hWL d1 σ ifw name d2 tt o hla hg1 hpe.2.1 hr
      refine ⟨⟨by rw [a1, t1], by omega, a3, by rw [← t1]; exact a4⟩, hwsr, fun herr => ?_⟩
      obtain ⟨x, u, hrv, hout⟩ := hsimwl herr
      refine ⟨x, u, fun F hF => ?_, fun hu => (hout hu).2⟩
      rw [readValue_skip fs _ _ _ t2, hpe.1]
      exact hrv F (by omega)


/-! ### the simulation: compounds -/

theorem skipCE_char (σ : List PS) (d : DState) (h : CE σ d.scan) (hg : d.scan.Good) :
    ∀ x k, (scanWhile .skipSpace d).pend = x :: k → ((scanWhile .skipSpace d).opcode = .endValue → x = 125) :=
  skipSpace_char d (CE σ) (fun o c => o = .endValue → c = 125) (fun s c hs => ⟨(CE_step σ s c hs).1, by
    have key : s.step c = stCompoundOrEmpty s c := by unfold Scanner.step; rw [hs.1]
    rw [key]
    unfold stCompoundOrEmpty
    split
    · simp
    · split
      · rename_i hc; exact fun _ => eq_of_beq hc
      · intro ho
        rcases stBeginString_ops s c with e | e | e <;> rw [e] at ho <;> cases ho⟩) h hg

theorem skipBS_char (σ : List PS) (d : DState) (h : BS σ d.scan) (hg : d.scan.Good) :
    ∀ x k, (scanWhile .skipSpace d).pend = x :: k → (scanWhile .skipSpace d).opcode ≠ .endValue :=
  skipSpace_char d (BS σ) (fun o _ => o ≠ .endValue) (fun s c hs => ⟨(BS_step σ s c hs).1, by
    have key : s.step c = stBeginString s c := by unfold Scanner.step; rw [hs.1]
    rw [key]
    rcases stBeginString_ops s c with e | e | e <;> rw [e] <;> simp⟩) h hg

/-- a compound name: the literal `nm` (complete, followed by text `k` that cannot continue a token) is read by the
grammar as the name the parser computes -/
theorem key_sim (fs : FloatSem) (nm k : Bytes) (hd : LitDone nm) (hk : TokEnd k) (tn : Bytes)
    (hname : ∃ q rest, nm = q :: rest ∧
      (if (q == 34 || q == 39) = true then
         ∃ t, parseLiteral (semOracle fs) nm = .ok (t, some (.str tn))
       else tn = nm)) :
    ∃ ub, readKey (nm ++ k) = some (tn, ub, k) := by
  obtain ⟨q, rest, hnm, hif⟩ := hname
  rcases hd with ⟨hne, hall⟩ | ⟨q', body, r, hq, hlit, hn⟩
  · -- a bare name
    have hq0 := allowed_not_quote q (hall q (by rw [hnm]; simp))
    have hqq : (q == 34 || q == 39) = false := by rw [hq0.1, hq0.2]; rfl
    rw [if_neg (by rw [hqq]; simp)] at hif
    rw [hif]
    have hsp := spanToken_run nm k hall hk
    refine ⟨false, ?_⟩
    rw [hnm] at hsp ⊢
    simp only [List.cons_append] at hsp ⊢
    unfold readKey
    simp only [hqq, Bool.false_eq_true, if_false, hsp]
    simp
  · rw [hlit] at hnm
    injection hnm with e1 e2
    subst e1
    have hqq : (q' == 34 || q' == 39) = true := by rcases hq with e | e <;> subst e <;> decide
    rw [if_pos hqq] at hif
    obtain ⟨t, hp⟩ := hif
    rw [hlit] at hp
    obtain ⟨s, pre, tail, ub, _, hv, he, hr, hu⟩ := quoted_sound (semOracle fs) q' (body ++ [q']) hqq t _ hp
    have htail : tail = [] := norm_first_quote q' body r pre tail hn he (fun k' => ⟨s, hu k'⟩)
    subst htail
    have hs : tn = s := by
      have := Option.some.inj hv
      injection this with this
    subst hs
    refine ⟨ub, ?_⟩
    rw [hlit]
    simp only [List.cons_append]
    unfold readKey
    simp only [hqq, if_true]
    rw [he]
    have := hr k false
    simp only [List.append_assoc, List.cons_append, List.nil_append] at this ⊢
    rw [this]
    simp


theorem SimCL_step (fs : FloatSem) (f : Nat) (hWV : SimWV fs f) (hCL : SimCL fs f) : SimCL fs (f + 1) := by
  intro d σ acc d' out hcls hg hlen hrun
  unfold compLoop at hrun
  dsimp only at hrun
  have hws : WsState d.scan := by
    rcases hcls with h | h
    · exact Or.inr (Or.inl h.1)
    · exact Or.inr (Or.inr (Or.inl h.1))
  have h1 : (scanWhile .skipSpace d).At (fun s o ob => o = .error ∨ KeyOk σ s o ob) := by
    rcases hcls with h | h
    · exact skipCE σ d h hg
    · exact skipBS σ d h hg
  obtain ⟨t1, t2, t3⟩ := skipSpace_text d hws hg hlen
  have hchE : ∀ x k, (scanWhile .skipSpace d).pend = x :: k → (scanWhile .skipSpace d).opcode = .endValue →
      CE σ d.scan ∧ x = 125 := by
    intro x k hx ho
    rcases hcls with h | h
    · exact ⟨h, skipCE_char σ d h hg x k hx ho⟩
    · exact absurd ho (skipBS_char σ d h hg x k hx)
  have heof := scanWhile_eof_op .skipSpace d hg
  generalize scanWhile .skipSpace d = d1 at *
  obtain ⟨hg1, ho1, ob, hp, hb1, hb2⟩ := h1
  rcases hp with e | ⟨e, c, hob, hl⟩ | ⟨e, hpop⟩
  · rw [if_neg (by simp [e]), if_pos (by simp [e])] at hrun; cases hrun
  · -- an entry
    rw [if_neg (by simp [e]), if_neg (by simp [e]), if_neg (by simp [e])] at hrun
    obtain ⟨hc1, hc2⟩ := hb1 c hob
    obtain ⟨hpe1, hle1⟩ := pend_of_some d1 c hc1 hc2
    have hcore := readLiteral_core false (.compoundName :: σ) d1 c hl hg1 hc1 hc2
    cases hr : readLiteral d1 with
    | err => rw [hr] at hrun; cases hrun
    | panic => rw [hr] at hrun; cases hrun
    | fuel => rw [hr] at hrun; cases hrun
    | ok p =>
      obtain ⟨d2, nm⟩ := p
      have hexit2 := readLiteral_exit false (.compoundName :: σ) d1 c hl hg1 hc1 hc2 d2 nm hr
      rw [hr] at hrun hcore
      dsimp only at hrun hcore
      obtain ⟨hdone, hat, hdata2, hsplit, hprog2, hend, _, _⟩ := hcore
      have hpend2 : d2.pend = d1.data.drop (d2.off - 1) := by unfold DState.pend; rw [hdata2]
      have htok : TokEnd d2.pend := by
        rw [hpend2]
        cases hk : d1.data.drop (d2.off - 1) with
        | nil => trivial
        | cons x k => exact hend (Or.inl (by simp)) x k hk
      have hsplit' : d1.pend = nm ++ d2.pend := by unfold DState.pend; rw [hdata2]; exact hsplit
      cases nm with
      | nil => cases hrun
      | cons q rest =>
        dsimp only at hrun
        generalize hX : (ite ((q == 34 || q == 39) = true) _ _ : PRes Bytes) = X at hrun
        cases X with
        | err => cases hrun
        | panic => cases hrun
        | fuel => cases hrun
        | ok tn =>
          dsimp only at hrun
          -- the grammar reads the same name
          have hname : ∃ q' rest', q :: rest = q' :: rest' ∧
              (if (q' == 34 || q' == 39) = true then
                 ∃ t, parseLiteral (semOracle fs) (q :: rest) = .ok (t, some (.str tn))
               else tn = q :: rest) := by
            refine ⟨q, rest, rfl, ?_⟩
            by_cases hq : (q == 34 || q == 39) = true
            · rw [if_pos hq] at hX ⊢
              cases hpl : parseLiteral (semOracle fs) (q :: rest) with
              | err => rw [hpl] at hX; cases hX
              | panic => rw [hpl] at hX; cases hX
              | fuel => rw [hpl] at hX; cases hX
              | ok pr =>
                obtain ⟨t, ov⟩ := pr
                rw [hpl] at hX
                cases ov with
                | none => cases hX
                | some v =>
                  cases v <;> first | (cases hX; done) | skip
                  case str s0 =>
                    dsimp only at hX
                    injection hX with hX
                    subst hX
                    exact ⟨t, rfl⟩
            · rw [if_neg hq] at hX ⊢
              injection hX with hX
              exact hX.symm
          obtain ⟨uk, hkey⟩ := key_sim fs (q :: rest) d2.pend hdone htok tn hname
          by_cases hlen : tn.length > maxStrLen
          · rw [if_pos hlen] at hrun; cases hrun
          rw [if_neg hlen] at hrun
          -- after the name: `ws* :`
          have hσ1 : (PS.compoundName :: σ) ≠ [] := by simp
          have h3 := skipAfterV _ _ (LitOk.afterV hat)
          obtain ⟨s1, s2, s3, hexit3⟩ := skip_text (.compoundName :: σ) d2 hσ1 (LitOk.afterV hat) hexit2
          generalize skip d2 = d3 at *
          have h3' := h3
          obtain ⟨hg3, ho3, ob3, hp3, _, _⟩ := h3
          rcases hp3 with e3 | ⟨e3, hbv⟩
          · rw [if_pos (by simp [e3])] at hrun; cases hrun
          rw [if_neg (by simp [e3]), if_neg (by simp [e3])] at hrun
          obtain ⟨c3, hpe3, hle3, h1o3, hw3⟩ := exit_delim (.compoundName :: σ) d3 h3' hexit3
            (by rw [e3]; simp) (by rw [e3]; simp)
          have hc3 : c3 = 58 := hw3.2.2.1 e3
          subst hc3
          -- the first byte of the name is not `}`
          have hq125 : (q == 125) = false := by
            rcases hl.2.2 with ⟨_, hc⟩ | ⟨_, hc⟩ | ⟨_, hc⟩
            · have : q = c := by rw [hpe1] at hsplit'; injection hsplit' with a _; exact a.symm
              rw [this, hc]; decide
            · have : q = c := by rw [hpe1] at hsplit'; injection hsplit' with a _; exact a.symm
              rw [this, hc]; decide
            · have : q = c := by rw [hpe1] at hsplit'; injection hsplit' with a _; exact a.symm
              rw [this]; exact (allowed_facts c hc).2.2.1
          -- the value
          cases hrw : writeValue (semOracle fs) f d3 true tn with
          | err => rw [hrw] at hrun; cases hrun
          | panic => rw [hrw] at hrun; cases hrun
          | fuel => rw [hrw] at hrun; cases hrun
          | ok p4 =>
            obtain ⟨d4, o4⟩ := p4
            rw [hrw] at hrun
            dsimp only at hrun
            obtain ⟨⟨b1, b2, b3, b4⟩, hexit4, hsim4⟩ :=
              hWV d3 (.compoundValue :: σ) true tn d4 o4 hbv hg3 hle3 hrw
            obtain ⟨t, uv, hrv, hout4⟩ := hsim4 (by intro h; cases h)
            have hsafe4 := (emitters_safe (semOracle fs) f).1 d3 (.compoundValue :: σ) true tn hbv hg3
            rw [hrw] at hsafe4
            have h5 := skipAfterV _ _ hsafe4.1
            obtain ⟨s41, s42, s43, hexit5⟩ := skip_text (.compoundValue :: σ) d4 (by simp) hsafe4.1 hexit4
            generalize skip d4 = d5 at *
            have h5' := h5
            obtain ⟨hg5, ho5, ob5, hp5, hc51, hc52⟩ := h5
            -- common: the grammar up to the delimiter after the value
            have hdd3 : d3.data = d.data := by rw [s1, hdata2, t1]
            have hdd4 : d4.data = d.data := by rw [b1, hdd3]
            have hdd5 : d5.data = d.data := by rw [s41, hdd4]
            rcases hp5 with e5 | ⟨e5, hbs⟩ | ⟨e5, hpop⟩
            · rw [if_pos (by simp [e5])] at hrun; cases hrun
            · -- `,`: another entry follows
              rw [if_neg (by simp [e5]), if_neg (by simp [e5]), if_neg (by simp [e5])] at hrun
              obtain ⟨c5, hpe5, hle5, h1o5, hw5⟩ := exit_delim (.compoundValue :: σ) d5 h5' hexit5
                (by rw [e5]; simp) (by rw [e5]; simp)
              have hc5 : c5 = 44 := hw5.2.2.2.1 e5
              subst hc5
              obtain ⟨⟨r1, r2, r3, r4⟩, hexit', kvs', u', hout', hdisj⟩ :=
                hCL d5 σ (acc ++ o4) d' out (Or.inr hbs) hg5 hle5 hrun
              have hrest : kvs' ≠ [] ∧ ∀ F, d'.off - d5.off ≤ F → ∀ acc0 u0,
                  readEntries fs F d5.next acc0 u0 = some (acc0.reverse ++ kvs', u0 || u', d'.pend) := by
                rcases hdisj with ⟨hce, _⟩ | ⟨a, _, b⟩
                · have := hce.1; rw [hbs.1] at this; cases this
                · exact ⟨a, b⟩
              refine ⟨⟨by rw [r1, hdd5], by omega, r3, by rw [← hdd5]; exact r4⟩, hexit',
                (tn, t) :: kvs', uk || uv || u', fun hu => ?_, Or.inr ⟨by simp, ⟨q, _, by rw [t2, hsplit']; rfl, hq125⟩,
                  fun F hF acc0 u0 => ?_⟩⟩
              · have hu1 : uk = false ∧ uv = false ∧ u' = false := by
                  cases uk <;> cases uv <;> cases u' <;> simp at hu ⊢
                rw [hout' hu1.2.2, hout4 hu1.2.1]
                simp [kvPre, hdr, writeTag, encString]
              · obtain ⟨F', rfl⟩ : ∃ F', F = F' + 1 := ⟨F - 1, by omega⟩
                unfold readEntries
                rw [t2, hsplit', hkey]
                dsimp only
                rw [s2, hpe3]
                simp only [bne_self_eq_false, Bool.false_eq_true, if_false]
                rw [hrv F' (by omega)]
                dsimp only
                rw [s42, hpe5]
                simp only [beq_self_eq_true, if_true]
                rw [hrest.2 F' (by omega)]
                simp [Bool.or_assoc]
            · -- `}`: the last entry
              rw [if_neg (by simp [e5]), if_pos (by simp [e5])] at hrun
              injection hrun with hrun
              injection hrun with e1 e2
              subst e1
              obtain ⟨c5, hpe5, hle5, h1o5, hw5⟩ := exit_delim (.compoundValue :: σ) d5 h5' hexit5
                (by rw [e5]; simp) (by rw [e5]; simp)
              have hc5 : c5 = 125 := by
                rcases hw5.2.2.2.2.2 e5 with ⟨r, _, hc⟩ | ⟨r, hr, _⟩
                · exact hc
                · cases hr
              subst hc5
              obtain ⟨n1, n2, n3, n4, n5⟩ := scanNext_text d5 ho5
              have hn3 := n3 hle5
              refine ⟨⟨by rw [n1, hdd5], by omega, n5, by rw [← hdd5]; exact n4⟩,
                nextPopped_exit σ d5 (closed_of hg5 ho5 ob5 e5 hpop hc51 hc52),
                [(tn, t)], uk || uv, fun hu => ?_, Or.inr ⟨by simp, ⟨q, _, by rw [t2, hsplit']; rfl, hq125⟩,
                  fun F hF acc0 u0 => ?_⟩⟩
              · have hu1 : uk = false ∧ uv = false := by
                  cases uk <;> cases uv <;> simp at hu ⊢
                rw [← e2, hout4 hu1.2]
                simp [kvPre, hdr, writeTag, encString]
              · obtain ⟨F', rfl⟩ : ∃ F', F = F' + 1 := ⟨F - 1, by omega⟩
                unfold readEntries
                rw [t2, hsplit', hkey]
                dsimp only
                rw [s2, hpe3]
                simp only [bne_self_eq_false, Bool.false_eq_true, if_false]
                rw [hrv F' (by omega)]
                dsimp only
                rw [s42, hpe5]
                simp only [show ((125 : Byte) == 44) = false by decide, Bool.false_eq_true, if_false,
                  beq_self_eq_true, if_true]
                rw [n2]
                simp [Bool.or_assoc]
  · -- `}`: the compound is closed
    rw [if_pos (by simp [e])] at hrun
    injection hrun with hrun
    injection hrun with e1 e2
    subst e1
    have hpe : d1.pend = 125 :: d1.next ∧ d1.off ≤ d1.data.length ∧ 1 ≤ d1.off ∧ CE σ d.scan := by
      cases ob with
      | none =>
        have hoff := hb2 rfl
        have : d1.pend = [] := by unfold DState.pend; rw [hoff]; simp
        rcases heof this with h | h <;> rw [e] at h <;> cases h
      | some c =>
        obtain ⟨hc1, hc2⟩ := hb1 c rfl
        obtain ⟨p1, p2⟩ := pend_of_some d1 c hc1 hc2
        obtain ⟨hce, hc⟩ := hchE c _ p1 e
        subst hc
        exact ⟨p1, p2, hc1, hce⟩
    obtain ⟨n1, n2, n3, n4, n5⟩ := scanNext_text d1 ho1
    have hn3 := n3 hpe.2.1
    refine ⟨⟨by rw [n1, t1], by omega, n5, by rw [← t1]; exact n4⟩,
      nextPopped_exit σ d1 (closed_of hg1 ho1 ob e hpop hb1 hb2), [], false, fun _ => by rw [← e2]; simp [kvPre], ?_⟩
    exact Or.inl ⟨hpe.2.2.2, rfl, rfl, by rw [t2, hpe.1, n2]⟩

end GoMC.Model.SNBT
