/-
  Lemmas for C04_parse_total, part 2: parser-level rules (what each `scanWhile` / `scanNext` / `readLiteral` of the
  emitters returns, by scanner class), totality of `parseLiteral` on the literals the scanner delivers, and the
  panic-freedom of the emitters.
-/
import GoMC.Lemmas.SNBTPhase
import GoMC.Lemmas.SNBTDoc
namespace GoMC.Model.SNBT
open GoMC Scanner DState

/-! ### rules -/

theorem skipBV (σ : List PS) (d : DState) (h : BV σ d.scan) (hg : d.scan.Good) :
    (scanWhile .skipSpace d).At (fun s o ob => o = .error ∨ BVOk false σ s o ob) :=
  (scanWhile_spec .skipSpace d (fun s _ => BV σ s) (fun s o _ ob => o = .error ∨ BVOk false σ s o ob)
    (fun s _ c hI => BV_step σ s c hI) (fun s _ hI => Or.inl (BV_eof σ s hI)) [] h hg).2.2

theorem skipCE (σ : List PS) (d : DState) (h : CE σ d.scan) (hg : d.scan.Good) :
    (scanWhile .skipSpace d).At (fun s o ob => o = .error ∨ KeyOk σ s o ob) :=
  (scanWhile_spec .skipSpace d (fun s _ => CE σ s) (fun s o _ ob => o = .error ∨ KeyOk σ s o ob)
    (fun s _ c hI => CE_step σ s c hI) (fun s _ hI => Or.inl (CE_eof σ s hI)) [] h hg).2.2

theorem skipBS (σ : List PS) (d : DState) (h : BS σ d.scan) (hg : d.scan.Good) :
    (scanWhile .skipSpace d).At (fun s o ob => o = .error ∨ KeyOk σ s o ob) :=
  (scanWhile_spec .skipSpace d (fun s _ => BS σ s) (fun s o _ ob => o = .error ∨ KeyOk σ s o ob)
    (fun s _ c hI => BS_step σ s c hI) (fun s _ hI => Or.inl (BS_eof σ s hI)) [] h hg).2.2

theorem skipLA (σ : List PS) (d : DState) (h : LA σ d.scan) (hg : d.scan.Good) :
    (scanWhile .skipSpace d).At (fun s o ob => o = .error ∨ ElemOk true σ s o ob) :=
  (scanWhile_spec .skipSpace d (fun s _ => LA σ s) (fun s o _ ob => o = .error ∨ ElemOk true σ s o ob)
    (fun s _ c hI => LA_step σ s c hI) (fun s _ hI => Or.inl (LA_eof σ s hI)) [] h hg).2.2

theorem skipAT (σ : List PS) (d : DState) (h : AT σ d.scan) (hg : d.scan.Good) :
    (scanWhile .skipSpace d).At (fun s o ob => o = .error ∨ ElemOk false σ s o ob) :=
  (scanWhile_spec .skipSpace d (fun s _ => AT σ s) (fun s o _ ob => o = .error ∨ ElemOk false σ s o ob)
    (fun s _ c hI => AT_step σ s c hI) (fun s _ hI => Or.inl (AT_eof σ s hI)) [] h hg).2.2

theorem skipEV (σ : List PS) (d : DState) (h : EV σ d.scan) (hg : d.scan.Good) :
    (scanWhile .skipSpace d).At (fun s o _ => o = .error ∨ EndOk σ s o) :=
  (scanWhile_spec .skipSpace d (fun s _ => EV σ s) (fun s o _ _ => o = .error ∨ EndOk σ s o)
    (fun s _ c hI => EV_step σ s c hI) (fun s _ hI => Or.inl (EV_eof σ s hI)) [] h hg).2.2

/-- "a value has just ended in a context with stack `σ`" (possibly with spaces already seen) -/
def AfterV (σ : List PS) (d : DState) : Prop :=
  d.At (fun s o _ => (o = .skipSpace ∧ EV σ s) ∨ o = .error ∨ EndOk σ s o)

/-- "the closing bracket of the list / array was the last byte read" -/
def ListClosed (σ : List PS) (d : DState) : Prop :=
  d.At (fun s o _ => o = .endValue ∧ Popped σ s)

theorem nextPopped (σ : List PS) (d : DState) (h : ListClosed σ d) : AfterV σ d.scanNext := by
  obtain ⟨hg, _, _, ⟨_, hp⟩, _⟩ := h
  exact (scanNext_spec d (fun s o _ => (o = .skipSpace ∧ EV σ s) ∨ o = .error ∨ EndOk σ s o)
    (fun c => Popped_step σ d.scan c hp) (Or.inr (Popped_eof σ d.scan hp)) hg).2

theorem nextBV (σ : List PS) (d : DState) (h : BV σ d.scan) (hg : d.scan.Good) :
    d.scanNext.At (fun s o ob => (o = .skipSpace ∧ BV σ s) ∨ o = .error ∨ BVOk false σ s o ob) := by
  refine (scanNext_spec d _ (fun c => ?_) (Or.inr (Or.inl (BV_eof σ d.scan h))) hg).2
  by_cases hs : (d.scan.step c).2 = .skipSpace
  · exact Or.inl ⟨hs, (BV_step σ d.scan c h).1 hs⟩
  · exact Or.inr ((BV_step σ d.scan c h).2 hs)

/-- `if d.opcode == scanSkipSpace { d.scanWhile(scanSkipSpace) }` after a value -/
theorem skipAfterV (σ : List PS) (d : DState) (h : AfterV σ d) :
    (skip d).At (fun s o _ => o = .error ∨ EndOk σ s o) := by
  unfold skip
  obtain ⟨hg, ho, ob, hp, h1, h2⟩ := h
  split
  · rename_i hop
    have hop' : d.opcode = .skipSpace := by simpa using hop
    rcases hp with ⟨_, hev⟩ | he | he
    · exact skipEV σ d hev hg
    · rw [he] at hop'; cases hop'
    · exfalso; revert he; rw [hop']
      cases σ with
      | nil => simp [EndOk]
      | cons ps r => cases ps <;> simp [EndOk]
  · rename_i hop
    refine ⟨hg, ho, ob, ?_, h1, h2⟩
    rcases hp with ⟨a, _⟩ | he | he
    · rw [a] at hop; simp at hop
    · exact Or.inl he
    · exact Or.inr he

/-- `skip` where a value is expected -/
theorem skipBefore (arr : Bool) (σ : List PS) (d : DState)
    (h : d.At (fun s o ob => (o = .skipSpace ∧ BV σ s) ∨ o = .error ∨ BVOk arr σ s o ob)) :
    (skip d).At (fun s o ob => o = .error ∨ BVOk arr σ s o ob) := by
  unfold skip
  obtain ⟨hg, ho, ob, hp, h1, h2⟩ := h
  split
  · rename_i hop
    have hop' : d.opcode = .skipSpace := by simpa using hop
    rcases hp with ⟨_, hbv⟩ | he | he
    · obtain ⟨g, o, ob', hp', r1, r2⟩ := skipBV σ d hbv hg
      refine ⟨g, o, ob', ?_, r1, r2⟩
      rcases hp' with e | e
      · exact Or.inl e
      · cases arr
        · exact Or.inr e
        · exact Or.inr e.mono
    · rw [he] at hop'; cases hop'
    · exact absurd hop' (ns_of_BVOk (Or.inr he))
  · rename_i hop
    refine ⟨hg, ho, ob, ?_, h1, h2⟩
    rcases hp with ⟨a, _⟩ | he | he
    · rw [a] at hop; simp at hop
    · exact Or.inl he
    · exact Or.inr he



/-- `start := d.readIndex(); d.scanWhile(scanContinue); literal := d.data[start:d.readIndex()]` after
`scanBeginLiteral`: never a slice panic; the literal is complete (`LitDone`), it is exactly the text between the
byte that began it and the byte that ended it, and — unless the scanner recorded an error at the top level — the
byte that ended it cannot continue an unquoted literal -/
theorem readLiteral_core (arr : Bool) (σ : List PS) (d : DState) (c : Byte)
    (hs : LitStart arr σ d.scan c) (hg : d.scan.Good) (hoff : 1 ≤ d.off) (hc : d.data[d.off - 1]? = some c) :
    match readLiteral d with
    | .ok (d', lit) => LitDone lit ∧ d'.At (fun s o _ => LitOk arr σ s o) ∧ d'.data = d.data ∧
        d.data.drop (d.off - 1) = lit ++ d.data.drop (d'.off - 1) ∧ d.off ≤ d'.off - 1 ∧
        ((σ ≠ [] ∨ d'.scan.err = false) →
          ∀ x k, d.data.drop (d'.off - 1) = x :: k → isAllowedInUnquotedString x = false) ∧
        (∀ x k, d.data.drop (d'.off - 1) = x :: k → WsRel σ d'.opcode x) ∧
        (d'.opcode = .listType → lit.length = 1 ∧ ∀ x k, d.data.drop (d'.off - 1) = x :: k → x = 59) ∧
        (∀ x k, d.data.drop (d'.off - 1) = x :: k → TopSt σ d'.scan x)
    | .err => True
    | _ => False := by
  have hlt : d.off - 1 < d.data.length := by
    apply Classical.byContradiction; intro hn
    rw [List.getElem?_eq_none (by omega)] at hc; cases hc
  obtain ⟨hdata, hprog, hgd, hle, ob, hR, h1, h2⟩ :=
    scanWhile_spec .cont d (LitInv arr σ)
      (fun s o acc ob => o = .error ∨ (LitDone acc ∧ LitOk arr σ s o ∧
        ((σ ≠ [] ∨ s.err = false) → ∀ x, ob = some x → isAllowedInUnquotedString x = false) ∧
        (∀ x, ob = some x → WsRel σ o x) ∧
        (o = .listType → acc.length = 1 ∧ ∀ x, ob = some x → x = 59) ∧
        (∀ x, ob = some x → TopSt σ s x)))
      (fun s acc c hI => by
        refine ⟨(Lit_step arr σ s acc c hI).1, fun hne => ?_⟩
        rcases (Lit_step arr σ s acc c hI).2 hne with h | ⟨a, b, e, w, l, tp⟩
        · exact Or.inl h
        · exact Or.inr ⟨a, b, (by intro he x hx; cases hx; exact e he), (by intro x hx; cases hx; exact w),
            fun hl => ⟨(l hl).2, by intro x hx; cases hx; exact (l hl).1⟩, (by intro x hx; cases hx; exact tp)⟩)
      (fun s acc hI => by
        rcases Lit_eof arr σ s acc hI with h | ⟨a, b⟩
        · exact Or.inl h
        · refine Or.inr ⟨a, Or.inr (Or.inl b), (by intro _ x hx; cases hx), (by intro x hx; cases hx), fun hl => ?_,
            (by intro x hx; cases hx)⟩
          rcases Scanner.eof_op s with h | h <;> rw [h] at hl <;> cases hl) [c] hs.inv hg
  have hp := hprog (by omega)
  unfold readLiteral
  dsimp only
  generalize scanWhile .cont d = d1 at *
  by_cases hne' : d1.opcode = .error
  · simp [hne']
  · rw [if_neg (by simpa using hne')]
    have e1 : d.data.drop (d.off - 1) = c :: d.data.drop d.off := by
      rw [List.drop_eq_getElem_cons hlt]
      have : d.data[d.off - 1] = c := by
        rw [List.getElem?_eq_getElem hlt] at hc; exact Option.some.inj hc
      rw [this]
      congr 2; omega
    have hsl : d1.slice d.readIndex d1.readIndex =
        some (c :: (d.data.drop d.off).take (d1.off - 1 - d.off)) := by
      unfold DState.slice DState.readIndex
      have : (d.off - 1 ≤ d1.off - 1 && d1.off - 1 ≤ d1.data.length) = true := by
        simp only [Bool.and_eq_true, decide_eq_true_eq]; omega
      rw [if_pos this, hdata]
      congr 1
      have e2 : d1.off - 1 - (d.off - 1) = (d1.off - 1 - d.off) + 1 := by omega
      rw [e1, e2, List.take_succ_cons]
    rw [hsl]
    dsimp only
    have hpend : ∀ x k, d.data.drop (d1.off - 1) = x :: k → ob = some x := by
      intro x k hx
      cases ob with
      | none =>
        have := h2 rfl
        rw [hdata] at this
        rw [this] at hx
        simp at hx
      | some y =>
        obtain ⟨hy1, hy2⟩ := h1 y rfl
        rw [hdata] at hy2
        have hlt2 : d1.off - 1 < d.data.length := by
          apply Classical.byContradiction; intro hn
          rw [List.getElem?_eq_none (by omega)] at hy2; cases hy2
        rw [List.drop_eq_getElem_cons hlt2] at hx
        injection hx with hx _
        have : d.data[d1.off - 1] = y := by
          rw [List.getElem?_eq_getElem hlt2] at hy2; exact Option.some.inj hy2
        rw [← hx, this]
    rcases hR with h | ⟨a, b, e, w, l, tp⟩
    · exact absurd h hne'
    · refine ⟨by simpa using a, ⟨hgd, hle, ob, b, h1, h2⟩, hdata, ?_, by omega, ?_, fun x k hx => w x (hpend x k hx),
        fun hl => ⟨by have := (l hl).1; simpa using this, fun x k hx => (l hl).2 x (hpend x k hx)⟩,
        fun x k hx => tp x (hpend x k hx)⟩
      · rw [e1]
        simp only [List.cons_append]
        congr 1
        have : d.data.drop (d1.off - 1) = (d.data.drop d.off).drop (d1.off - 1 - d.off) := by
          rw [List.drop_drop]; congr 1; omega
        rw [this, List.take_append_drop]
      · intro he x k hx
        exact e he x (hpend x k hx)

theorem readLiteral_spec (arr : Bool) (σ : List PS) (d : DState) (c : Byte)
    (hs : LitStart arr σ d.scan c) (hg : d.scan.Good) (hoff : 1 ≤ d.off) (hc : d.data[d.off - 1]? = some c) :
    match readLiteral d with
    | .ok (d', lit) => LitShape lit ∧ d'.At (fun s o _ => LitOk arr σ s o)
    | .err => True
    | _ => False := by
  have h := readLiteral_core arr σ d c hs hg hoff hc
  cases hr : readLiteral d with
  | ok p => obtain ⟨d', lit⟩ := p; rw [hr] at h; exact ⟨h.1.shape, h.2.1⟩
  | err => trivial
  | panic => rw [hr] at h; exact h
  | fuel => rw [hr] at h; exact h



/-- invariant of the classification loop on a literal of unquoted-class bytes -/
def Cls.Inv (k : Cls) : Prop := (k.numberType = 0 ∨ isIntegerType k.numberType = true) ∧ k.unqstr = true

theorem float_is_integer_type (c : Byte) (h : isFloatType c = true) : isIntegerType c = true := by
  unfold isIntegerType; simp [h]

theorem clsStep_inv (k : Cls) (i : Nat) (c : Byte) (hk : k.Inv) (hc : isAllowedInUnquotedString c = true) :
    (clsStep k i c).Inv := by
  obtain ⟨h1, h2⟩ := hk
  unfold clsStep
  split
  · exact ⟨h1, h2⟩
  · split
    · split
      · rename_i h
        simp only [Bool.and_eq_true] at h
        exact ⟨Or.inr h.2, h2⟩
      · split
        · dsimp only; split <;> exact ⟨h1, h2⟩
        · exact ⟨h1, h2⟩
    · split
      · split
        · exact ⟨h1, h2⟩
        · split
          · exact ⟨h1, h2⟩
          · split
            · rename_i h
              simp only [Bool.and_eq_true] at h
              exact ⟨Or.inr (float_is_integer_type c h.2), h2⟩
            · exact ⟨h1, h2⟩
      · simp only [hc, Bool.not_true, Bool.false_eq_true, if_false]
        exact ⟨h1, h2⟩

theorem clsLoop_inv (k : Cls) (i : Nat) (cs : Bytes) (hk : k.Inv)
    (hc : ∀ c ∈ cs, isAllowedInUnquotedString c = true) : (clsLoop k i cs).Inv := by
  induction cs generalizing k i with
  | nil => exact hk
  | cons c cs ih =>
    unfold clsLoop
    exact ih _ _ (clsStep_inv k i c hk (hc c (by simp))) (fun c' h' => hc c' (by simp [h']))

theorem numberType_cases (t : Byte) (h : t = 0 ∨ isIntegerType t = true) :
    ((t == 66 || t == 98) || (t == 83 || t == 115) || (t == 73 || t == 105 || t == 0) || (t == 76 || t == 108)
      || (t == 70 || t == 102) || (t == 68 || t == 100)) = true := by
  have : ∀ n : Fin (2^8), (let t : Byte := BitVec.ofFin n
      (t = 0 ∨ isIntegerType t = true) →
      ((t == 66 || t == 98) || (t == 83 || t == 115) || (t == 73 || t == 105 || t == 0) || (t == 76 || t == 108)
      || (t == 70 || t == 102) || (t == 68 || t == 100)) = true) := by decide +kernel
  exact this t.toFin h

/-- `parseLiteral` never panics on a literal of the shape the scanner delivers (no index out of range in the
quoted loop, no `panic(phasePanicMsg)` after the classification loop) -/
theorem parseLiteral_total (fo : FloatOracle) (lit : Bytes) (h : LitShape lit) :
    ∃ t v, parseLiteral fo lit = .ok (t, v) := by
  cases lit with
  | nil => exact absurd h (by simp [LitShape])
  | cons q rest =>
    unfold LitShape at h
    unfold parseLiteral
    by_cases hq : (q == 34 || q == 39) = true
    · simp only [hq, if_true] at h ⊢
      obtain ⟨r, hr⟩ := h
      rw [hr []]
      exact ⟨_, _, rfl⟩
    · simp only [hq, Bool.false_eq_true, if_false] at h ⊢
      have hinv : (clsLoop { strlen := (q :: rest).length } 0 (q :: rest)).Inv :=
        clsLoop_inv _ _ _ ⟨Or.inl rfl, rfl⟩ h
      generalize clsLoop { strlen := (q :: rest).length } 0 (q :: rest) = k at hinv ⊢
      obtain ⟨hn, hu⟩ := hinv
      have hcases := numberType_cases k.numberType hn
      by_cases hi : k.integer = true
      · simp only [hi, if_true]
        repeat' split
        all_goals first | exact ⟨_, _, rfl⟩ | skip
        all_goals (exfalso; simp_all)
      · simp only [hi, Bool.false_eq_true, if_false]
        repeat' split
        all_goals first | exact ⟨_, _, rfl⟩ | skip
        all_goals (exfalso; simp_all)

theorem parseLiteral_quoted (fo : FloatOracle) (q : Byte) (rest : Bytes) (hq : (q == 34 || q == 39) = true)
    (h : LitShape (q :: rest)) : ∃ r, parseLiteral fo (q :: rest) = .ok (tagString, some (.str r)) := by
  unfold LitShape at h
  simp only [hq, if_true] at h
  obtain ⟨r, hr⟩ := h
  unfold parseLiteral
  simp only [hq, if_true]
  rw [hr []]
  exact ⟨_, rfl⟩




theorem map_some_tag {α} {o : Option α} {mk : α → Lit} {tag t : Byte} {v : Lit}
    (h : (PRes.ok (tag, o.map mk) : PRes (Byte × Option Lit)) = .ok (t, some v)) : tag = t ∧ ∃ x, v = mk x := by
  injection h with h
  injection h with h1 h2
  cases o with
  | none => cases h2
  | some x => exact ⟨h1, x, (Option.some.inj h2).symm⟩

/-- the dynamic type of the value `parseLiteral` returns is the one its tag announces (the type assertions
`litVal.(int8)` … of `writeArray` cannot fail) -/
theorem parseLiteral_tag (fo : FloatOracle) (lit : Bytes) (t : Byte) (v : Lit)
    (h : parseLiteral fo lit = .ok (t, some v)) : litTag v = t := by
  unfold parseLiteral at h
  split at h
  · cases h
  · split at h
    · split at h
      · injection h with h; injection h with h1 h2
        rw [← h1, ← Option.some.inj h2]; rfl
      all_goals cases h
    · dsimp only at h
      repeat' split at h
      all_goals first
        | (cases h; done)
        | (cases h; rfl)
        | (obtain ⟨h1, x, h2⟩ := map_some_tag h; rw [h2, ← h1]; rfl)
        | (injection h with h; injection h with h1 h2; rw [← h1, ← Option.some.inj h2]; rfl)




/-- the modelled call neither panics nor — when it returns normally — leaves the phase `P` -/
def Safe {α} (P : α → Prop) : PRes α → Prop
  | .ok a => P a | .err => True | .fuel => True | .panic => False

theorem DState.At.mono {P Q : Scanner → Op → Option Byte → Prop} {d : DState} (h : d.At P)
    (hpq : ∀ s o ob, P s o ob → Q s o ob) : d.At Q := by
  obtain ⟨hg, ho, ob, hp, h1, h2⟩ := h
  exact ⟨hg, ho, ob, hpq _ _ _ hp, h1, h2⟩

theorem LitOk.afterV {σ : List PS} {d : DState} (h : d.At (fun s o _ => LitOk false σ s o)) : AfterV σ d :=
  h.mono (fun s o _ hp => by
    rcases hp with hp | hp | ⟨a, _⟩
    · exact Or.inl hp
    · exact Or.inr (Or.inr hp)
    · cases a)

theorem EndOk_list {σ : List PS} {s : Scanner} {o : Op} (h : EndOk (.listValue :: σ) s o) :
    (o = .listValue ∧ BV (.listValue :: σ) s) ∨ (o = .endValue ∧ Popped σ s) := h

theorem tag_defs : tagByte = 1 ∧ tagInt = 3 ∧ tagLong = 4 ∧ tagString = 8 ∧ tagShort = 2 ∧ tagFloat = 5 ∧ tagDouble = 6 :=
  ⟨rfl, rfl, rfl, rfl, rfl, rfl, rfl⟩

theorem arrayLoop_safe (fo : FloatOracle) (elemType : Byte)
    (he : elemType = tagByte ∨ elemType = tagInt ∨ elemType = tagLong) (σ : List PS) :
    ∀ (f : Nat) (d : DState) (count : Nat) (buf : Bytes),
      d.At (fun s o ob => (o = .skipSpace ∧ BV (.listValue :: σ) s) ∨ o = .error ∨ BVOk false (.listValue :: σ) s o ob) →
      ArrAcc elemType count buf →
      Safe (fun r => ListClosed σ r.1 ∧ ArrOut elemType r.2) (arrayLoop fo elemType f d count buf) := by
  intro f
  induction f with
  | zero => intro d count buf _ _; simp [arrayLoop, Safe]
  | succ f ih =>
    intro d count buf h hacc
    unfold arrayLoop
    dsimp only
    have h1 := skipBefore false (.listValue :: σ) d h
    generalize skip d = d1 at h1 ⊢
    by_cases hb : d1.opcode = .beginLiteral
    · rw [if_neg (by simp [hb])]
      obtain ⟨hg, ho, ob, hp, hb1, hb2⟩ := h1
      have hlit : ∃ c, ob = some c ∧ LitStart false (.listValue :: σ) d1.scan c := by
        rcases hp with e | ⟨_, c, e, hl⟩ | ⟨e, _⟩ | ⟨e, _⟩
        · rw [hb] at e; cases e
        · exact ⟨c, e, hl⟩
        · rw [hb] at e; cases e
        · rw [hb] at e; cases e
      obtain ⟨c, hob, hl⟩ := hlit
      have hrl := readLiteral_spec false (.listValue :: σ) d1 c hl hg (hb1 c hob).1 (hb1 c hob).2
      cases hr : readLiteral d1 with
      | err => simp [Safe]
      | panic => rw [hr] at hrl; exact hrl.elim
      | fuel => rw [hr] at hrl; exact hrl.elim
      | ok p =>
        obtain ⟨d2, lit⟩ := p
        rw [hr] at hrl
        obtain ⟨hshape, hat⟩ := hrl
        dsimp only
        obtain ⟨t, v, hpl⟩ := parseLiteral_total fo lit hshape
        rw [hpl]
        cases v with
        | none => simp [Safe]
        | some v =>
          dsimp only
          by_cases hte : t = elemType
          · rw [if_neg (by simp [hte])]
            have htag := parseLiteral_tag fo lit t v hpl
            have h3 := skipAfterV _ _ (LitOk.afterV hat)
            generalize skip d2 = d3 at h3 ⊢
            -- the value has the dynamic type announced by the tag
            have hcont : ∀ bs : Bytes, ArrAcc elemType (count + 1) (buf ++ bs) →
                Safe (fun r => ListClosed σ r.1 ∧ ArrOut elemType r.2)
                  (if d3.opcode == .error then .err
                   else if d3.opcode == .endValue then .ok (d3, Spec.beBytes 4 (count + 1) ++ (buf ++ bs))
                   else if d3.opcode != .listValue then .panic
                   else arrayLoop fo elemType f (scanWhile .skipSpace d3) (count + 1) (buf ++ bs)) := by
              intro bs hacc'
              obtain ⟨hg3, ho3, ob3, hp3, hb31, hb32⟩ := h3
              by_cases e1 : d3.opcode = .error
              · simp [e1, Safe]
              · rw [if_neg (by simp [e1])]
                rcases hp3 with e | hend
                · exact absurd e e1
                · rcases EndOk_list hend with ⟨e, hbv⟩ | ⟨e, hpop⟩
                  · rw [if_neg (by simp [e]), if_neg (by simp [e])]
                    exact ih _ _ _ ((skipBV _ d3 hbv hg3).mono (fun s o ob hp => Or.inr hp)) hacc'
                  · rw [if_pos (by simp [e])]
                    exact ⟨⟨hg3, ho3, ob3, ⟨e, hpop⟩, hb31, hb32⟩, ⟨count + 1, buf ++ bs, rfl, hacc'⟩⟩
            subst hte
            cases v <;> subst htag
            case i8 x => simp only [litTag, beq_self_eq_true, if_true]; exact hcont _ (arrAcc_snoc8 hacc x)
            case i32 x => simp only [litTag, beq_self_eq_true, if_true]; exact hcont _ (arrAcc_snoc32 hacc x)
            case i64 x => simp only [litTag, beq_self_eq_true, if_true]; exact hcont _ (arrAcc_snoc64 hacc x)
            all_goals (exfalso; revert he; simp only [litTag]; decide)
          · rw [if_pos (by simp [hte])]; simp [Safe]
    · rw [if_pos (by simp [hb])]; simp [Safe]



theorem BVOk_ne_endValue {arr : Bool} {σ : List PS} {s : Scanner} {o : Op} {ob : Option Byte}
    (h : BVOk arr σ s o ob) : o ≠ .endValue := by
  rcases h with ⟨a, _⟩ | ⟨a, _⟩ | ⟨a, _⟩ <;> rw [a] <;> simp

theorem writeArray_safe (fo : FloatOracle) (elemType : Byte)
    (he : elemType = tagByte ∨ elemType = tagInt ∨ elemType = tagLong) (σ : List PS) (f : Nat) (d : DState)
    (h : d.At (fun s o _ => o = .listType ∧ AT σ s)) :
    Safe (fun r => ListClosed σ r.1 ∧ ArrOut elemType r.2) (writeArray fo f d elemType) := by
  unfold writeArray
  obtain ⟨hg, ho, ob, ⟨hop, hat⟩, hb1, hb2⟩ := h
  have hskip : skip d = d := by unfold skip; simp [hop]
  rw [hskip]
  dsimp only
  have h1 := skipAT σ d hat hg
  generalize scanWhile .skipSpace d = d1 at h1 ⊢
  by_cases e : d1.opcode = .endValue
  · rw [if_pos (by simp [e])]
    obtain ⟨hg1, ho1, ob1, hp1, hc1, hc2⟩ := h1
    refine ⟨⟨hg1, ho1, ob1, ⟨e, ?_⟩, hc1, hc2⟩, ⟨0, [], by simp, arrAcc_nil _ he⟩⟩
    rcases hp1 with h | ⟨_, hp⟩ | h
    · rw [e] at h; cases h
    · exact hp
    · exact absurd e (BVOk_ne_endValue h)
  · rw [if_neg (by simp [e])]
    refine arrayLoop_safe fo elemType he σ _ _ _ _ ?_ (arrAcc_nil _ he)
    obtain ⟨hg1, ho1, ob1, hp1, hc1, hc2⟩ := h1
    refine ⟨hg1, ho1, ob1, ?_, hc1, hc2⟩
    rcases hp1 with h | ⟨a, _⟩ | h
    · exact Or.inr (Or.inl h)
    · exact absurd a e
    · exact Or.inr (Or.inr h)


theorem litListLoop_safe (fo : FloatOracle) (σ : List PS) :
    ∀ (f : Nat) (d : DState) (literal : Bytes) (elemType : Byte) (count : Nat) (buf : Bytes),
      LitShape literal → AfterV (.listValue :: σ) d → ListAcc elemType count buf →
      Safe (fun r => ListClosed σ r.1 ∧ Doc tagList r.2) (litListLoop fo f d literal elemType count buf) := by
  intro f
  induction f with
  | zero => intro d literal elemType count buf _ _ _; simp [litListLoop, Safe]
  | succ f ih =>
    intro d literal elemType count buf hshape h hacc
    unfold litListLoop
    obtain ⟨t, v, hpl⟩ := parseLiteral_total fo literal hshape
    rw [hpl]
    cases v with
    | none => simp [Safe]
    | some v =>
      dsimp only
      generalize he2 : (if (elemType == 0) = true then t else elemType) = e2
      by_cases hte : t = e2
      case neg => rw [if_pos (by simp [hte])]; simp [Safe]
      case pos =>
        rw [if_neg (by simp [hte])]
        by_cases hok : litOk v = true
        case neg => rw [if_pos (by simp [hok])]; simp [Safe]
        rw [if_neg (by simp [hok])]
        have hacc' : ListAcc e2 (count + 1) (buf ++ litPayload v) := by
          have hd : Doc t (litPayload v) := by rw [← parseLiteral_tag fo literal t v hpl]; exact doc_lit v hok
          rw [← hte]
          refine listAcc_snoc hacc hd ?_
          by_cases h0 : (elemType == 0) = true
          · have : elemType = 0 := by simpa using h0
            rw [this] at hacc
            exact Or.inl (listAcc_zero hacc)
          · rw [if_neg h0] at he2
            exact Or.inr (by rw [hte, he2])
        have h3 := skipAfterV _ _ h
        generalize skip d = d3 at h3 ⊢
        obtain ⟨hg3, ho3, ob3, hp3, hb31, hb32⟩ := h3
        by_cases e1 : d3.opcode = .error
        · simp [e1, Safe]
        · rw [if_neg (by simp [e1])]
          rcases hp3 with e | hend
          · exact absurd e e1
          · rcases EndOk_list hend with ⟨e, hbv⟩ | ⟨e, hpop⟩
            · rw [if_neg (by simp [e]), if_neg (by simp [e])]
              have h4 := skipBV _ d3 hbv hg3
              generalize scanWhile .skipSpace d3 = d4 at h4 ⊢
              by_cases e4 : d4.opcode = .error
              · simp [e4, Safe]
              · rw [if_neg (by simp [e4])]
                by_cases hb : d4.opcode = .beginLiteral
                · rw [if_neg (by simp [hb])]
                  obtain ⟨hg, ho, ob, hp, hb1, hb2⟩ := h4
                  have hlit : ∃ c, ob = some c ∧ LitStart false (.listValue :: σ) d4.scan c := by
                    rcases hp with e | ⟨_, c, e, hl⟩ | ⟨e, _⟩ | ⟨e, _⟩
                    · exact absurd e e4
                    · exact ⟨c, e, hl⟩
                    · rw [hb] at e; cases e
                    · rw [hb] at e; cases e
                  obtain ⟨c, hob, hl⟩ := hlit
                  have hrl := readLiteral_spec false (.listValue :: σ) d4 c hl hg (hb1 c hob).1 (hb1 c hob).2
                  cases hr : readLiteral d4 with
                  | err => simp [Safe]
                  | panic => rw [hr] at hrl; exact hrl.elim
                  | fuel => rw [hr] at hrl; exact hrl.elim
                  | ok p =>
                    obtain ⟨d5, lit⟩ := p
                    rw [hr] at hrl
                    exact ih _ _ _ _ _ hrl.1 (LitOk.afterV hrl.2) hacc'
                · rw [if_pos (by simp [hb])]; simp [Safe]
            · rw [if_pos (by simp [e])]
              exact ⟨⟨hg3, ho3, ob3, ⟨e, hpop⟩, hb31, hb32⟩, doc_list hacc' (by omega)⟩




def WVspec (fo : FloatOracle) (f : Nat) : Prop :=
  ∀ (d : DState) (σ : List PS) (ifw : Bool) (name : Bytes), BV σ d.scan → d.scan.Good →
    Safe (fun r => AfterV σ r.1 ∧ WVOut ifw name r.2) (writeValue fo f d ifw name)
def CLspec (fo : FloatOracle) (f : Nat) : Prop :=
  ∀ (d : DState) (σ : List PS) (acc : Bytes), (CE σ d.scan ∨ BS σ d.scan) → d.scan.Good → KvAcc acc →
    Safe (fun r => AfterV σ r.1 ∧ Doc tagCompound r.2) (compLoop fo f d acc)
def WLspec (fo : FloatOracle) (f : Nat) : Prop :=
  ∀ (d : DState) (σ : List PS) (ifw : Bool) (name : Bytes), LA σ d.scan → d.scan.Good →
    Safe (fun r => AfterV σ r.1 ∧ WLOut ifw name r.2.1 r.2.2) (writeListOrArray fo f d ifw name)
def LLspec (fo : FloatOracle) (f : Nat) : Prop :=
  ∀ (d : DState) (σ : List PS) (e : Byte) (c : Nat) (b : Bytes),
    d.At (fun s o ob => (o = .skipSpace ∧ BV (.listValue :: σ) s) ∨ o = .error ∨ BVOk true (.listValue :: σ) s o ob) →
    ListAcc e c b →
    Safe (fun r => ListClosed σ r.1 ∧ Doc tagList r.2) (listListLoop fo f d e c b)
def CLLspec (fo : FloatOracle) (f : Nat) : Prop :=
  ∀ (d : DState) (σ : List PS) (c : Nat) (b : Bytes),
    d.At (fun s o ob => (o = .skipSpace ∧ BV (.listValue :: σ) s) ∨ o = .error ∨ BVOk true (.listValue :: σ) s o ob) →
    ListAcc tagCompound c b →
    Safe (fun r => ListClosed σ r.1 ∧ Doc tagList r.2) (compListLoop fo f d c b)

theorem litStart_of_BVOk {arr : Bool} {σ : List PS} {d : DState} {ob : Option Byte}
    (hp : d.opcode = .error ∨ BVOk arr σ d.scan d.opcode ob) (hb : d.opcode = .beginLiteral) :
    ∃ c, ob = some c ∧ LitStart arr σ d.scan c := by
  rcases hp with e | ⟨_, c, e, hl⟩ | ⟨e, _⟩ | ⟨e, _⟩
  · rw [hb] at e; cases e
  · exact ⟨c, e, hl⟩
  · rw [hb] at e; cases e
  · rw [hb] at e; cases e

theorem WV_step (fo : FloatOracle) (f : Nat) (hCL : CLspec fo f) (hWL : WLspec fo f) : WVspec fo (f + 1) := by
  intro d σ ifw name hbv hg
  unfold writeValue
  dsimp only
  have h1 := skipBV σ d hbv hg
  generalize scanWhile .skipSpace d = d1 at h1 ⊢
  obtain ⟨hg1, ho1, ob, hp, hb1, hb2⟩ := h1
  rcases hp with e | ⟨e, hl⟩ | ⟨e, hce⟩ | ⟨e, hla⟩
  · rw [e]; simp [Safe]
  · rw [e]; dsimp only
    obtain ⟨c, hob, hl⟩ := hl
    have hrl := readLiteral_spec false σ d1 c hl hg1 (hb1 c hob).1 (hb1 c hob).2
    cases hr : readLiteral d1 with
    | err => simp [Safe]
    | panic => rw [hr] at hrl; exact hrl.elim
    | fuel => rw [hr] at hrl; exact hrl.elim
    | ok p =>
      obtain ⟨d2, lit⟩ := p
      rw [hr] at hrl
      dsimp only
      obtain ⟨t, v, hpl⟩ := parseLiteral_total fo lit hrl.1
      rw [hpl]
      cases v with
      | none => simp [Safe]
      | some v =>
        dsimp only
        by_cases hok : litOk v = true
        · rw [if_neg (by simp [hok])]
          exact ⟨LitOk.afterV hrl.2, ⟨t, litPayload v, rfl, by
            rw [← parseLiteral_tag fo lit t v hpl]; exact doc_lit v hok⟩⟩
        · rw [if_pos (by simp [hok])]; simp [Safe]
  · rw [e]; dsimp only
    have := hCL d1 σ [] (Or.inl hce) hg1 kvAcc_nil
    cases hr : compLoop fo f d1 [] with
    | err => simp [Safe]
    | fuel => simp [Safe]
    | panic => rw [hr] at this; exact this.elim
    | ok p => rw [hr] at this; obtain ⟨d2, out⟩ := p; exact ⟨this.1, ⟨tagCompound, out, rfl, this.2⟩⟩
  · rw [e]; dsimp only
    have := hWL d1 σ ifw name hla hg1
    cases hr : writeListOrArray fo f d1 ifw name with
    | err => simp [Safe]
    | fuel => simp [Safe]
    | panic => rw [hr] at this; exact this.elim
    | ok p => rw [hr] at this; obtain ⟨d2, t, out⟩ := p; exact ⟨this.1, ⟨t, this.2⟩⟩



theorem closed_of {σ : List PS} {d : DState} (hg : d.scan.Good) (ho : d.off ≤ d.data.length + 1) (ob : Option Byte)
    (e : d.opcode = .endValue) (hp : Popped σ d.scan)
    (h1 : ∀ c, ob = some c → 1 ≤ d.off ∧ d.data[d.off - 1]? = some c) (h2 : ob = none → d.off = d.data.length + 1) :
    ListClosed σ d := ⟨hg, ho, ob, ⟨e, hp⟩, h1, h2⟩

theorem CL_step (fo : FloatOracle) (f : Nat) (hWV : WVspec fo f) (hCL : CLspec fo f) : CLspec fo (f + 1) := by
  intro d σ acc hcls hg hacc
  unfold compLoop
  dsimp only
  have h1 : (scanWhile .skipSpace d).At (fun s o ob => o = .error ∨ KeyOk σ s o ob) := by
    rcases hcls with h | h
    · exact skipCE σ d h hg
    · exact skipBS σ d h hg
  generalize scanWhile .skipSpace d = d1 at h1 ⊢
  obtain ⟨hg1, ho1, ob, hp, hb1, hb2⟩ := h1
  rcases hp with e | ⟨e, c, hob, hl⟩ | ⟨e, hpop⟩
  · rw [if_neg (by simp [e]), if_pos (by simp [e])]; simp [Safe]
  · rw [if_neg (by simp [e]), if_neg (by simp [e]), if_neg (by simp [e])]
    have hrl := readLiteral_spec false (.compoundName :: σ) d1 c hl hg1 (hb1 c hob).1 (hb1 c hob).2
    cases hr : readLiteral d1 with
    | err => simp [Safe]
    | panic => rw [hr] at hrl; exact hrl.elim
    | fuel => rw [hr] at hrl; exact hrl.elim
    | ok p =>
      obtain ⟨d2, nm⟩ := p
      rw [hr] at hrl
      obtain ⟨hshape, hat⟩ := hrl
      dsimp only
      cases nm with
      | nil => exact absurd hshape (by simp [LitShape])
      | cons q rest =>
        dsimp only
        -- the name
        generalize hX : (ite ((q == 34 || q == 39) = true) _ _ : PRes Bytes) = X
        have hname : ∃ tn, X = .ok tn := by
          by_cases hq : (q == 34 || q == 39) = true
          · obtain ⟨r, hr⟩ := parseLiteral_quoted fo q rest hq hshape
            rw [if_pos hq, hr] at hX; exact ⟨r, hX.symm⟩
          · rw [if_neg hq] at hX; exact ⟨_, hX.symm⟩
        obtain ⟨tn, htn⟩ := hname
        rw [htn]
        dsimp only
        by_cases hlen : tn.length > maxStrLen
        · rw [if_pos hlen]; simp [Safe]
        rw [if_neg hlen]
        have h3 := skipAfterV _ _ (LitOk.afterV hat)
        generalize skip d2 = d3 at h3 ⊢
        obtain ⟨hg3, ho3, ob3, hp3, _, _⟩ := h3
        rcases hp3 with e3 | ⟨e3, hbv⟩
        · rw [if_pos (by simp [e3])]; simp [Safe]
        · rw [if_neg (by simp [e3]), if_neg (by simp [e3])]
          have hw := hWV d3 (.compoundValue :: σ) true tn hbv hg3
          cases hrw : writeValue fo f d3 true tn with
          | err => simp [Safe]
          | fuel => simp [Safe]
          | panic => rw [hrw] at hw; exact hw.elim
          | ok p =>
            obtain ⟨d4, out⟩ := p
            rw [hrw] at hw
            dsimp only
            have hacc' : KvAcc (acc ++ out) := kvAcc_snoc hacc (by omega) hw.2
            have h5 := skipAfterV _ _ hw.1
            generalize skip d4 = d5 at h5 ⊢
            obtain ⟨hg5, ho5, ob5, hp5, hc1, hc2⟩ := h5
            rcases hp5 with e5 | ⟨e5, hbs⟩ | ⟨e5, hpop⟩
            · rw [if_pos (by simp [e5])]; simp [Safe]
            · rw [if_neg (by simp [e5]), if_neg (by simp [e5]), if_neg (by simp [e5])]
              exact hCL d5 σ _ (Or.inr hbs) hg5 hacc'
            · rw [if_neg (by simp [e5]), if_pos (by simp [e5])]
              exact ⟨nextPopped σ d5 (closed_of hg5 ho5 ob5 e5 hpop hc1 hc2), doc_compound hacc'⟩
  · rw [if_pos (by simp [e])]
    exact ⟨nextPopped σ d1 (closed_of hg1 ho1 ob e hpop hb1 hb2), doc_compound hacc⟩



theorem EndOk_ne_skipSpace {σ : List PS} {s : Scanner} {o : Op} (h : EndOk σ s o) : o ≠ .skipSpace := by
  intro e; subst e
  cases σ with
  | nil => simp [EndOk] at h
  | cons ps r => cases ps <;> simp [EndOk] at h

/-- `skip` after the first literal inside `[` (it may have been an array prefix) -/
theorem skipLitArr (σ : List PS) (d : DState) (h : d.At (fun s o _ => LitOk true (.listValue :: σ) s o)) :
    (skip d).At (fun s o _ => o = .error ∨ EndOk (.listValue :: σ) s o ∨ (o = .listType ∧ AT σ s)) := by
  unfold skip
  obtain ⟨hg, ho, ob, hp, h1, h2⟩ := h
  split
  · rename_i hop
    have hop' : d.opcode = .skipSpace := by simpa using hop
    rcases hp with ⟨_, hev⟩ | he | ⟨_, e, _⟩
    · exact (skipEV _ d hev hg).mono (fun s o _ hp => by
        rcases hp with hp | hp
        · exact Or.inl hp
        · exact Or.inr (Or.inl hp))
    · exact absurd hop' (EndOk_ne_skipSpace he)
    · rw [hop'] at e; cases e
  · rename_i hop
    refine ⟨hg, ho, ob, ?_, h1, h2⟩
    rcases hp with ⟨a, _⟩ | he | ⟨_, e, r, hr, hat⟩
    · rw [a] at hop; simp at hop
    · exact Or.inr (Or.inl he)
    · have : r = σ := by injection hr with _ h; exact h.symm
      subst this
      exact Or.inr (Or.inr ⟨e, hat⟩)

theorem Safe_next {σ : List PS} {α} (x : PRes (DState × α)) (g : DState → α → DState × Byte × Bytes)
    (hg : ∀ d a, (g d a).1 = d.scanNext) (h : Safe (fun r => ListClosed σ r.1) x) :
    Safe (fun r => AfterV σ r.1)
      (match x with
       | .err => .err | .panic => .panic | .fuel => .fuel
       | .ok (d, out) => .ok (g d out)) := by
  cases x with
  | err => simp [Safe]
  | fuel => simp [Safe]
  | panic => exact h.elim
  | ok p =>
    obtain ⟨d, out⟩ := p
    simp only [Safe]
    rw [hg]
    exact nextPopped σ d h



theorem WL_step (fo : FloatOracle) (f : Nat) (hLL : LLspec fo f) (hCLL : CLLspec fo f) : WLspec fo (f + 1) := by
  intro d σ ifw name hla hg
  unfold writeListOrArray
  dsimp only
  have h1 := skipLA σ d hla hg
  generalize scanWhile .skipSpace d = d1 at h1 ⊢
  obtain ⟨hg1, ho1, ob, hp, hb1, hb2⟩ := h1
  by_cases hend : d1.opcode = .endValue
  · rw [if_pos (by simp [hend])]
    have hpop : Popped σ d1.scan := by
      rcases hp with e | ⟨_, hpop⟩ | hb
      · rw [hend] at e; cases e
      · exact hpop
      · exact absurd hend (BVOk_ne_endValue hb)
    exact ⟨nextPopped σ d1 (closed_of hg1 ho1 ob hend hpop hb1 hb2), ⟨listHeader 0 0, rfl, doc_list_empty⟩⟩
  · rw [if_neg (by simp [hend])]
    have hp' : d1.opcode = .error ∨ BVOk true (.listValue :: σ) d1.scan d1.opcode ob := by
      rcases hp with e | ⟨e, _⟩ | hb
      · exact Or.inl e
      · exact absurd e hend
      · exact Or.inr hb
    rcases hp' with e | ⟨e, hl⟩ | ⟨e, hce⟩ | ⟨e, hla'⟩
    · rw [e]; simp [Safe]
    · -- a literal: list of literals, or an array prefix
      rw [e]; dsimp only
      obtain ⟨c, hob, hl⟩ := hl
      have hrl := readLiteral_spec true (.listValue :: σ) d1 c hl hg1 (hb1 c hob).1 (hb1 c hob).2
      cases hr : readLiteral d1 with
      | err => simp [Safe]
      | panic => rw [hr] at hrl; exact hrl.elim
      | fuel => rw [hr] at hrl; exact hrl.elim
      | ok p =>
        obtain ⟨d2, lit⟩ := p
        rw [hr] at hrl
        obtain ⟨hshape, hat⟩ := hrl
        dsimp only
        have h3 := skipLitArr σ d2 hat
        generalize skip d2 = d3 at h3 ⊢
        obtain ⟨hg3, ho3, ob3, hp3, hc1, hc2⟩ := h3
        rcases hp3 with e3 | hend3 | ⟨e3, hat3⟩
        · rw [if_pos (by simp [e3])]; simp [Safe]
        · have hne : d3.opcode ≠ .error ∧ d3.opcode ≠ .listType ∧ (d3.opcode = .listValue ∨ d3.opcode = .endValue) := by
            rcases EndOk_list hend3 with ⟨a, _⟩ | ⟨a, _⟩ <;> rw [a] <;> simp
          rw [if_neg (by simp [hne.1]), if_neg (by simp [hne.2.1])]
          have : (d3.opcode != .listValue && d3.opcode != .endValue) = false := by
            rcases hne.2.2 with a | a <;> rw [a] <;> simp
          rw [if_neg (by simp [this])]
          have hll := litListLoop_safe fo σ f d3 lit 0 0 [] hshape ⟨hg3, ho3, ob3, Or.inr (Or.inr hend3), hc1, hc2⟩
            (listAcc_nil 0)
          cases hr2 : litListLoop fo f d3 lit 0 0 [] with
          | err => simp [Safe]
          | fuel => simp [Safe]
          | panic => rw [hr2] at hll; exact hll.elim
          | ok p => obtain ⟨d4, out⟩ := p; rw [hr2] at hll; exact ⟨nextPopped σ d4 hll.1, ⟨out, rfl, hll.2⟩⟩
        · rw [if_neg (by simp [e3]), if_pos (by simp [e3])]
          cases lit with
          | nil => exact absurd hshape (by simp [LitShape])
          | cons c0 rest =>
            dsimp only
            have hw : ∀ (tt et : Byte), ((tt = tagByteArray ∧ et = tagByte) ∨ (tt = tagIntArray ∧ et = tagInt) ∨
                  (tt = tagLongArray ∧ et = tagLong)) →
                Safe (fun r => AfterV σ r.1 ∧ WLOut ifw name r.2.1 r.2.2)
                  (match writeArray fo f d3 et with
                   | .err => .err | .panic => .panic | .fuel => .fuel
                   | .ok (d, out) => (.ok (scanNext d, tt, hdr ifw tt name ++ out) : PRes (DState × Byte × Bytes))) := by
              intro tt et hpair
              have het : et = tagByte ∨ et = tagInt ∨ et = tagLong := by
                rcases hpair with ⟨_, a⟩ | ⟨_, a⟩ | ⟨_, a⟩
                · exact Or.inl a
                · exact Or.inr (Or.inl a)
                · exact Or.inr (Or.inr a)
              have hwa := writeArray_safe fo et het σ f d3 ⟨hg3, ho3, ob3, ⟨e3, hat3⟩, hc1, hc2⟩
              cases hr2 : writeArray fo f d3 et with
              | err => simp [Safe]
              | fuel => simp [Safe]
              | panic => rw [hr2] at hwa; exact hwa.elim
              | ok p =>
                obtain ⟨d4, out⟩ := p; rw [hr2] at hwa
                exact ⟨nextPopped σ d4 hwa.1, ⟨out, rfl, doc_array hpair hwa.2⟩⟩
            by_cases c1 : (c0 == 66) = true
            · simp only [c1, if_true]; exact hw _ _ (Or.inl ⟨rfl, rfl⟩)
            · by_cases c2 : (c0 == 73) = true
              · simp only [c1, c2, if_true, Bool.false_eq_true, if_false]; exact hw _ _ (Or.inr (Or.inl ⟨rfl, rfl⟩))
              · by_cases c3 : (c0 == 76) = true
                · simp only [c1, c2, c3, if_true, Bool.false_eq_true, if_false]; exact hw _ _ (Or.inr (Or.inr ⟨rfl, rfl⟩))
                · simp only [c1, c2, c3, Bool.false_eq_true, if_false]; simp [Safe]
    · rw [e]; dsimp only
      have hcl := hCLL d1 σ 0 [] ⟨hg1, ho1, ob, Or.inr (Or.inr (Or.inr (Or.inl ⟨e, hce⟩))), hb1, hb2⟩ (listAcc_nil _)
      cases hr2 : compListLoop fo f d1 0 [] with
      | err => simp [Safe]
      | fuel => simp [Safe]
      | panic => rw [hr2] at hcl; exact hcl.elim
      | ok p => obtain ⟨d4, out⟩ := p; rw [hr2] at hcl; exact ⟨nextPopped σ d4 hcl.1, ⟨out, rfl, hcl.2⟩⟩
    · rw [e]; dsimp only
      have hll := hLL d1 σ 0 0 [] ⟨hg1, ho1, ob, Or.inr (Or.inr (Or.inr (Or.inr ⟨e, hla'⟩))), hb1, hb2⟩ (listAcc_nil 0)
      cases hr2 : listListLoop fo f d1 0 0 [] with
      | err => simp [Safe]
      | fuel => simp [Safe]
      | panic => rw [hr2] at hll; exact hll.elim
      | ok p => obtain ⟨d4, out⟩ := p; rw [hr2] at hll; exact ⟨nextPopped σ d4 hll.1, ⟨out, rfl, hll.2⟩⟩



theorem nextBV' (σ : List PS) (d : DState) (h : BV σ d.scan) (hg : d.scan.Good) :
    d.scanNext.At (fun s o ob => (o = .skipSpace ∧ BV σ s) ∨ o = .error ∨ BVOk true σ s o ob) :=
  (nextBV σ d h hg).mono (fun s o ob hp => by
    rcases hp with hp | hp | hp
    · exact Or.inl hp
    · exact Or.inr (Or.inl hp)
    · exact Or.inr (Or.inr hp.mono))

theorem LL_step (fo : FloatOracle) (f : Nat) (hWL : WLspec fo f) (hLL : LLspec fo f) : LLspec fo (f + 1) := by
  intro d σ et count buf h hacc
  unfold listListLoop
  dsimp only
  have h1 := skipBefore true (.listValue :: σ) d h
  generalize skip d = d1 at h1 ⊢
  obtain ⟨hg1, ho1, ob, hp, hb1, hb2⟩ := h1
  by_cases hb : d1.opcode = .beginList
  · rw [if_neg (by simp [hb])]
    have hla : LA (.listValue :: σ) d1.scan := by
      rcases hp with e | ⟨e, _⟩ | ⟨e, _⟩ | ⟨_, hla⟩
      · rw [hb] at e; cases e
      · rw [hb] at e; cases e
      · rw [hb] at e; cases e
      · exact hla
    have hw := hWL d1 (.listValue :: σ) false [] hla hg1
    cases hr : writeListOrArray fo f d1 false [] with
    | err => simp [Safe]
    | fuel => simp [Safe]
    | panic => rw [hr] at hw; exact hw.elim
    | ok p =>
      obtain ⟨d2, t, out⟩ := p
      rw [hr] at hw
      dsimp only
      split
      · simp [Safe]
      · rename_i hc
        have hacc' : ListAcc t (count + 1) (buf ++ out) := by
          obtain ⟨p, hp, hd⟩ := hw.2
          have : out = p := by simpa [hdr] using hp
          rw [this]
          refine listAcc_snoc hacc hd ?_
          by_cases h0 : count = 0
          · exact Or.inl h0
          · refine Or.inr (Classical.byContradiction fun hne => hc ?_)
            simp [Nat.pos_of_ne_zero h0, hne]
        have h3 := skipAfterV _ _ hw.1
        generalize skip d2 = d3 at h3 ⊢
        obtain ⟨hg3, ho3, ob3, hp3, hc1, hc2⟩ := h3
        rcases hp3 with e3 | hend3
        · rw [if_pos (by simp [e3])]; simp [Safe]
        · rcases EndOk_list hend3 with ⟨a, hbv⟩ | ⟨a, hpop⟩
          · rw [if_neg (by simp [a]), if_neg (by simp [a]), if_neg (by simp [a])]
            exact hLL _ σ _ _ _ (nextBV' _ d3 hbv hg3) hacc'
          · rw [if_neg (by simp [a]), if_pos (by simp [a])]
            exact ⟨closed_of hg3 ho3 ob3 a hpop hc1 hc2, doc_list hacc' (by omega)⟩
  · rw [if_pos (by simp [hb])]; simp [Safe]

theorem CLL_step (fo : FloatOracle) (f : Nat) (hCL : CLspec fo f) (hCLL : CLLspec fo f) : CLLspec fo (f + 1) := by
  intro d σ count buf h hacc
  unfold compListLoop
  dsimp only
  have h1 := skipBefore true (.listValue :: σ) d h
  generalize skip d = d1 at h1 ⊢
  obtain ⟨hg1, ho1, ob, hp, hb1, hb2⟩ := h1
  by_cases hb : d1.opcode = .beginCompound
  · rw [if_neg (by simp [hb])]
    have hce : CE (.listValue :: σ) d1.scan := by
      rcases hp with e | ⟨e, _⟩ | ⟨_, hce⟩ | ⟨e, _⟩
      · rw [hb] at e; cases e
      · rw [hb] at e; cases e
      · exact hce
      · rw [hb] at e; cases e
    have hw := hCL d1 (.listValue :: σ) [] (Or.inl hce) hg1 kvAcc_nil
    cases hr : compLoop fo f d1 [] with
    | err => simp [Safe]
    | fuel => simp [Safe]
    | panic => rw [hr] at hw; exact hw.elim
    | ok p =>
      obtain ⟨d2, out⟩ := p
      rw [hr] at hw
      dsimp only
      have hacc' : ListAcc tagCompound (count + 1) (buf ++ out) := listAcc_snoc hacc hw.2 (Or.inr rfl)
      have h3 := skipAfterV _ _ hw.1
      generalize skip d2 = d3 at h3 ⊢
      -- the second `skip` is a no-op: the opcode is not a space any more
      have hsk : skip d3 = d3 := by
        unfold skip
        obtain ⟨_, _, _, hp3, _, _⟩ := h3
        rcases hp3 with e3 | hend3
        · simp [e3]
        · have := EndOk_ne_skipSpace hend3
          simp [this]
      rw [hsk]
      obtain ⟨hg3, ho3, ob3, hp3, hc1, hc2⟩ := h3
      rcases hp3 with e3 | hend3
      · rw [if_pos (by simp [e3])]; simp [Safe]
      · rcases EndOk_list hend3 with ⟨a, hbv⟩ | ⟨a, hpop⟩
        · rw [if_neg (by simp [a]), if_neg (by simp [a]), if_neg (by simp [a])]
          exact hCLL _ σ _ _ (nextBV' _ d3 hbv hg3) hacc'
        · rw [if_neg (by simp [a]), if_pos (by simp [a])]
          exact ⟨closed_of hg3 ho3 ob3 a hpop hc1 hc2, doc_list hacc' (by omega)⟩
  · rw [if_pos (by simp [hb])]; simp [Safe]

/-- no emitter ever panics: every `panic(phasePanicMsg)`, every slice expression, every `literal[0]` and every
type assertion of nbt/snbt_decode.go is unreachable from the scanner's phase invariant -/
theorem emitters_safe (fo : FloatOracle) : ∀ f : Nat,
    WVspec fo f ∧ CLspec fo f ∧ WLspec fo f ∧ LLspec fo f ∧ CLLspec fo f := by
  intro f
  induction f with
  | zero =>
    refine ⟨?_, ?_, ?_, ?_, ?_⟩
    · intro d σ ifw name _ _; simp [writeValue, Safe]
    · intro d σ acc _ _ _; simp [compLoop, Safe]
    · intro d σ ifw name _ _; simp [writeListOrArray, Safe]
    · intro d σ e c b _ _; simp [listListLoop, Safe]
    · intro d σ c b _ _; simp [compListLoop, Safe]
  | succ f ih =>
    obtain ⟨hWV, hCL, hWL, hLL, hCLL⟩ := ih
    exact ⟨WV_step fo f hCL hWL, CL_step fo f hWV hCL, WL_step fo f hLL hCLL, LL_step fo f hWL hLL,
      CLL_step fo f hCL hCLL⟩




theorem reset_BV : BV [] Scanner.reset := ⟨rfl, rfl, rfl⟩

/-- `MarshalNBT` never panics, whatever the fuel -/
theorem marshalWith_no_panic (fo : FloatOracle) (fuel : Nat) (text : Bytes) :
    marshalWith fo fuel text ≠ .panic := by
  unfold marshalWith
  dsimp only
  have h := (emitters_safe fo fuel).1 { data := text, scan := Scanner.reset } [] false [] reset_BV reset_good
  cases hr : writeValue fo fuel { data := text, scan := Scanner.reset } false [] with
  | err => simp
  | fuel => simp
  | panic => rw [hr] at h; exact h.elim
  | ok p =>
    obtain ⟨d, out⟩ := p
    rw [hr] at h
    dsimp only
    have hg : (scanWhile .end_ d).scan.Good := scanWhile_good _ _ h.1.1
    split
    · simp
    · rw [if_neg (by simp [hg.1])]; simp

/-- whatever `MarshalNBT` writes (arbitrary accepted text, any fuel) is the payload of an NBT tree, well-formed
if it is shorter than 2^31 bytes -/
theorem marshalWith_doc (fo : FloatOracle) (fuel : Nat) (text : Bytes) (bs : Bytes)
    (hm : marshalWith fo fuel text = .ok bs) : ∃ t, Doc t bs := by
  unfold marshalWith at hm
  dsimp only at hm
  have h := (emitters_safe fo fuel).1 { data := text, scan := Scanner.reset } [] false [] reset_BV reset_good
  cases hr : writeValue fo fuel { data := text, scan := Scanner.reset } false [] with
  | err => rw [hr] at hm; cases hm
  | fuel => rw [hr] at hm; cases hm
  | panic => rw [hr] at h; exact h.elim
  | ok p =>
    obtain ⟨d, out⟩ := p
    rw [hr] at h hm
    dsimp only at hm
    obtain ⟨t, p, hp, hd⟩ := h.2
    have hout : out = p := by simpa [hdr] using hp
    split at hm
    · cases hm
    · split at hm
      · cases hm
      · injection hm with hm; rw [← hm, hout]; exact ⟨t, hd⟩

/-- `TagType()` never panics -/
theorem tagType_no_panic (fo : FloatOracle) (text : Bytes) : tagType fo text ≠ .panic := by
  unfold tagType
  dsimp only
  have h1 := skipBV [] { data := text, scan := Scanner.reset } reset_BV reset_good
  generalize scanWhile .skipSpace { data := text, scan := Scanner.reset } = d1 at h1 ⊢
  obtain ⟨hg1, ho1, ob, hp, hb1, hb2⟩ := h1
  rcases hp with e | ⟨e, c, hob, hl⟩ | ⟨e, hce⟩ | ⟨e, hla⟩
  · rw [e]; simp
  · rw [e]; dsimp only
    have hrl := readLiteral_spec false [] d1 c hl hg1 (hb1 c hob).1 (hb1 c hob).2
    unfold readLiteral at hrl
    dsimp only at hrl
    generalize scanWhile .cont d1 = d2 at hrl ⊢
    by_cases e2 : d2.opcode = .error
    · simp [e2]
    · rw [if_neg (by simp [e2])] at hrl ⊢
      cases hs : d2.slice d1.readIndex d2.readIndex with
      | none => rw [hs] at hrl; exact hrl.elim
      | some lit =>
        rw [hs] at hrl
        dsimp only at hrl ⊢
        obtain ⟨t, v, hpl⟩ := parseLiteral_total fo lit hrl.1
        rw [hpl]; simp
  · rw [e]; simp
  · rw [e]; dsimp only
    have h2 := skipLA [] d1 hla hg1
    generalize scanWhile .skipSpace d1 = d2 at h2 ⊢
    obtain ⟨hg2, ho2, ob2, hp2, hc1, hc2⟩ := h2
    by_cases eb : d2.opcode = .beginLiteral
    · rw [if_pos (by simp [eb])]
      have hl : ∃ c, ob2 = some c ∧ LitStart true [.listValue] d2.scan c := by
        rcases hp2 with e | ⟨e, _⟩ | hb
        · rw [eb] at e; cases e
        · rw [eb] at e; cases e
        · exact litStart_of_BVOk (Or.inr hb) eb
      obtain ⟨c, hob, hl⟩ := hl
      have hrl := readLiteral_spec true [.listValue] d2 c hl hg2 (hc1 c hob).1 (hc1 c hob).2
      unfold readLiteral at hrl
      dsimp only at hrl
      generalize scanWhile .cont d2 = d3 at hrl ⊢
      by_cases e3 : d3.opcode = .error
      · simp [e3]
      · rw [if_neg (by simp [e3])] at hrl ⊢
        cases hs : d3.slice d2.readIndex d3.readIndex with
        | none => rw [hs] at hrl; exact hrl.elim
        | some lit =>
          rw [hs] at hrl
          dsimp only at hrl ⊢
          cases lit with
          | nil => exact absurd hrl.1 (by simp [LitShape])
          | cons c0 rest =>
            dsimp only
            split
            · repeat' split
              all_goals simp
            · simp
    · rw [if_neg (by simp [eb])]; simp


end GoMC.Model.SNBT
