/-
  Lemmas for C04 (SNBT): the decimal printer/parser pair (`strconv.FormatInt/ParseInt` models), the
  escape/unquote pair, the classification loop on unquoted strings, and the panic-freedom / fuel bound of the
  binary → text walker.
-/
import GoMC.Model.SNBTParse
import GoMC.Model.SNBTWrite
namespace GoMC.Model.SNBT
open GoMC

theorem digit_facts : ∀ d : Fin 10,
    isNumber (BitVec.ofNat 8 (48 + d.val)) = true ∧ digitVal (BitVec.ofNat 8 (48 + d.val)) = d.val
    ∧ (BitVec.ofNat 8 (48 + d.val) == (43 : Byte)) = false ∧ (BitVec.ofNat 8 (48 + d.val) == (45 : Byte)) = false := by
  decide

theorem parseDigits_append (xs ys : Bytes) (acc : Nat) :
    parseDigits (xs ++ ys) acc = (parseDigits xs acc).bind (parseDigits ys) := by
  induction xs generalizing acc with
  | nil => simp [parseDigits]
  | cons c cs ih =>
    simp only [List.cons_append, parseDigits]
    split
    · exact ih _
    · rfl

theorem parseDigits_natDigits (f n acc : Nat) (h : n < f) :
    parseDigits (natDigits f n) acc = some (acc * 10 ^ (natDigits f n).length + n) := by
  induction f generalizing n acc with
  | zero => omega
  | succ f ih =>
    unfold natDigits
    split
    · rename_i hn
      have := digit_facts ⟨n, hn⟩
      simp only at this
      simp [parseDigits, this.1, this.2.1]
      omega
    · rename_i hn
      have hlt : n / 10 < f := by omega
      rw [parseDigits_append, ih _ _ hlt]
      have hd := digit_facts ⟨n % 10, Nat.mod_lt _ (by decide)⟩
      simp only at hd
      simp only [Option.bind_some, parseDigits, hd.1, hd.2.1, if_true, List.length_append, List.length_singleton,
        Nat.pow_succ]
      have := Nat.div_add_mod n 10
      generalize 10 ^ (natDigits f (n / 10)).length = p at *
      have e : acc * (p * 10) = 10 * (acc * p) := by
        rw [Nat.mul_comm p 10, ← Nat.mul_assoc, Nat.mul_comm acc 10, Nat.mul_assoc]
      rw [e]
      congr 1
      omega
end GoMC.Model.SNBT

namespace GoMC.Model.SNBT
open GoMC

theorem natDigits_head (f n : Nat) (h : n < f) :
    ∃ d rest, natDigits f n = d :: rest ∧ (d == (43 : Byte)) = false ∧ (d == (45 : Byte)) = false := by
  induction f generalizing n with
  | zero => omega
  | succ f ih =>
    unfold natDigits
    split
    · rename_i hn
      have := digit_facts ⟨n, hn⟩
      exact ⟨_, [], rfl, this.2.2.1, this.2.2.2⟩
    · obtain ⟨d, rest, he, h1, h2⟩ := ih (n / 10) (by omega)
      exact ⟨d, rest ++ _, by rw [he]; rfl, h1, h2⟩

theorem parseInt_formatNat (bits n : Nat) :
    parseInt bits (formatNat n) = if n < 2 ^ (bits - 1) then some (n : Int) else none := by
  unfold formatNat
  obtain ⟨d, rest, he, h1, h2⟩ := natDigits_head (n + 1) n (by omega)
  have hp := parseDigits_natDigits (n + 1) n 0 (by omega)
  rw [he] at hp ⊢
  simp only [parseInt, h1, h2, Bool.false_eq_true, if_false, hp]
  simp only [Nat.zero_mul, Nat.zero_add, Bool.not_false, Bool.true_and, Bool.false_and, if_false,
    decide_eq_true_eq]
  by_cases hlt : n < 2 ^ (bits - 1)
  · have : ¬ (n ≥ 2 ^ (bits - 1)) := by omega
    simp [hlt, this]
  · have : n ≥ 2 ^ (bits - 1) := by omega
    simp [hlt, this]

theorem parseInt_neg_formatNat (bits n : Nat) :
    parseInt bits ((45 : Byte) :: formatNat n) = if n ≤ 2 ^ (bits - 1) then some (-(n : Int)) else none := by
  unfold formatNat
  obtain ⟨d, rest, he, h1, h2⟩ := natDigits_head (n + 1) n (by omega)
  have hp := parseDigits_natDigits (n + 1) n 0 (by omega)
  rw [he] at hp ⊢
  have e1 : ((45 : Byte) == (43 : Byte)) = false := by decide
  have e2 : ((45 : Byte) == (45 : Byte)) = true := by decide
  simp only [parseInt, e1, e2, Bool.false_eq_true, if_false, if_true, hp]
  simp only [Nat.zero_mul, Nat.zero_add, Bool.not_true, Bool.false_and, Bool.true_and, if_false,
    decide_eq_true_eq]
  by_cases hle : n ≤ 2 ^ (bits - 1)
  · have : ¬ (n > 2 ^ (bits - 1)) := by omega
    simp [hle, this]
  · have : n > 2 ^ (bits - 1) := by omega
    simp [hle, this]

/-- `strconv.ParseInt(strconv.FormatInt(v, 10), 10, bits)`: the value when it fits `bits` bits, a range error otherwise -/
theorem parseInt_formatInt (bits : Nat) (v : Int) :
    parseInt bits (formatInt v) =
      if -((2 : Int) ^ (bits - 1)) ≤ v ∧ v < (2 : Int) ^ (bits - 1) then some v else none := by
  unfold formatInt
  have hpow : ((2 ^ (bits - 1) : Nat) : Int) = (2 : Int) ^ (bits - 1) := by simp
  by_cases hv : v < 0
  · simp only [hv, if_true]
    rw [parseInt_neg_formatNat]
    have hn : (v.natAbs : Int) = -v := by omega
    by_cases hle : v.natAbs ≤ 2 ^ (bits - 1)
    · have h1 : -((2 : Int) ^ (bits - 1)) ≤ v := by rw [← hpow]; omega
      have h2 : v < (2 : Int) ^ (bits - 1) := by
        have : (0 : Int) < (2 : Int) ^ (bits - 1) := by rw [← hpow]; exact Int.natCast_pos.mpr (Nat.two_pow_pos _)
        omega
      simp only [hle, if_true, h1, h2, and_self]
      congr 1; omega
    · have h1 : ¬ (-((2 : Int) ^ (bits - 1)) ≤ v) := by rw [← hpow]; omega
      simp [hle, h1]
  · simp only [hv, if_false]
    rw [parseInt_formatNat]
    have hn : (v.toNat : Int) = v := by omega
    by_cases hlt : v.toNat < 2 ^ (bits - 1)
    · have h2 : v < (2 : Int) ^ (bits - 1) := by rw [← hpow]; omega
      have h1 : -((2 : Int) ^ (bits - 1)) ≤ v := by
        have : (0 : Int) < (2 : Int) ^ (bits - 1) := by rw [← hpow]; exact Int.natCast_pos.mpr (Nat.two_pow_pos _)
        omega
      simp [hlt, h1, h2, hn]
    · have h2 : ¬ (v < (2 : Int) ^ (bits - 1)) := by rw [← hpow]; omega
      simp [hlt, h2]
end GoMC.Model.SNBT
namespace GoMC.Model.SNBT
open GoMC

theorem unquote_escape (q : Byte) (hq : (q == (92 : Byte)) = false) (s rest acc : Bytes) :
    unquoteLoop q (escapeWith q s ++ q :: rest) acc = .ok (acc ++ s) := by
  have hq' : ((92 : Byte) == q) = false := by
    rw [Bool.eq_false_iff] at hq ⊢
    intro h; apply hq; simp only [beq_iff_eq] at h ⊢; exact h.symm
  induction s generalizing acc with
  | nil => simp [escapeWith]; unfold unquoteLoop; simp
  | cons c cs ih =>
    unfold escapeWith
    by_cases h1 : (c == q) = true
    · have : c = q := by simpa using h1
      subst this
      simp only [h1, if_true, List.cons_append, List.nil_append]
      unfold unquoteLoop
      simp only [hq', Bool.false_eq_true, if_false, beq_self_eq_true, if_true]
      rw [ih]; simp
    · have h1' : (c == q) = false := by simpa using h1
      by_cases h2 : (c == (92 : Byte)) = true
      · have : c = 92 := by simpa using h2
        subst this
        simp only [h1', Bool.false_eq_true, if_false, beq_self_eq_true, if_true, List.cons_append, List.nil_append]
        unfold unquoteLoop
        simp only [hq', Bool.false_eq_true, if_false, beq_self_eq_true, if_true]
        rw [ih]; simp
      · have h2' : (c == (92 : Byte)) = false := by simpa using h2
        simp only [h1', h2', Bool.false_eq_true, if_false, List.cons_append, List.nil_append]
        unfold unquoteLoop
        simp only [h1', h2', Bool.false_eq_true, if_false]
        rw [ih]; simp

/-- a byte allowed in an unquoted string is neither quote -/
theorem allowed_not_quote (c : Byte) (h : isAllowedInUnquotedString c = true) :
    (c == (34 : Byte)) = false ∧ (c == (39 : Byte)) = false := by
  have : ∀ n : Fin (2^8), isAllowedInUnquotedString (BitVec.ofFin n) = true →
      (BitVec.ofFin n == (34 : Byte)) = false ∧ (BitVec.ofFin n == (39 : Byte)) = false := by decide +kernel
  exact this c.toFin h

/-- the classification loop has settled on "unquoted string" -/
def Cls.IsStr (k : Cls) : Prop := k.integer = false ∧ k.number = false ∧ k.unqstr = true

theorem clsStep_isStr (k : Cls) (i : Nat) (c : Byte) (hk : k.IsStr) (hc : isAllowedInUnquotedString c = true) :
    (clsStep k i c).IsStr := by
  obtain ⟨h1, h2, h3⟩ := hk
  unfold clsStep
  split
  · exact ⟨h1, h2, h3⟩
  · simp only [h1, h2, hc, Bool.false_eq_true, if_false, Bool.not_true]
    exact ⟨h1, h2, h3⟩

theorem clsLoop_isStr (k : Cls) (i : Nat) (cs : Bytes) (hk : k.IsStr)
    (hc : ∀ c ∈ cs, isAllowedInUnquotedString c = true) : (clsLoop k i cs).IsStr := by
  induction cs generalizing k i with
  | nil => exact hk
  | cons c cs ih =>
    unfold clsLoop
    exact ih _ _ (clsStep_isStr k i c hk (hc c (by simp))) (fun c' h' => hc c' (by simp [h']))

theorem clsStep_first (n : Nat) (c : Byte) (hn : isNumber c = false) (h45 : (c == (45 : Byte)) = false)
    (h43 : (c == (43 : Byte)) = false) : (clsStep { strlen := n } 0 c).IsStr := by
  have a : c ≠ 45#8 := by intro h; simp [h] at h45
  have b : c ≠ 43#8 := by intro h; simp [h] at h43
  unfold clsStep
  simp [hn, a, b, Cls.IsStr]

/-- `C04_escape`, strong form: whatever `writeEscapeStr` prints for `s` — quoted with either quote, or bare —
`parseLiteral` reads back as the string `s` (in particular number-like and empty strings are quoted). -/
theorem parseLiteral_writeEscapeStr (fo : FloatOracle) (s : Bytes) :
    parseLiteral fo (writeEscapeStr s) = .ok (tagString, some (.str s)) := by
  unfold writeEscapeStr
  by_cases hq : needQuote s = true
  · simp only [hq, Bool.not_true, Bool.false_eq_true, if_false]
    split
    · simp only [List.cons_append, List.nil_append, parseLiteral]
      have e : (((39 : Byte) == (34 : Byte)) || ((39 : Byte) == (39 : Byte))) = true := by decide
      simp only [e, if_true]
      rw [unquote_escape 39 (by decide) s [] []]; simp
    · simp only [List.cons_append, List.nil_append, parseLiteral]
      have e : (((34 : Byte) == (34 : Byte)) || ((34 : Byte) == (39 : Byte))) = true := by decide
      simp only [e, if_true]
      rw [unquote_escape 34 (by decide) s [] []]; simp
  · have hq' : needQuote s = false := by simpa using hq
    simp only [hq', Bool.not_false, if_true]
    unfold needQuote at hq'
    cases s with
    | nil => simp at hq'
    | cons c cs =>
      simp only [Bool.or_eq_false_iff, List.any_eq_false, Bool.not_eq_true', Bool.not_eq_false] at hq'
      obtain ⟨⟨⟨⟨hn, h45⟩, h43⟩, _⟩, hall⟩ := hq'
      have hall' : ∀ x ∈ c :: cs, isAllowedInUnquotedString x = true := by
        intro x hx; have := hall x hx; simpa using this
      have hc := hall' c (by simp)
      obtain ⟨q1, q2⟩ := allowed_not_quote c hc
      have hs : (clsLoop { strlen := (c :: cs).length } 0 (c :: cs)).IsStr := by
        unfold clsLoop
        exact clsLoop_isStr _ _ _ (clsStep_first _ c hn h45 h43) (fun x hx => hall' x (by simp [hx]))
      unfold parseLiteral
      simp only [q1, q2, Bool.or_self, Bool.false_eq_true, if_false]
      generalize clsLoop { strlen := (c :: cs).length } 0 (c :: cs) = k at hs ⊢
      obtain ⟨a, b, d⟩ := hs
      simp [a, b, d]
end GoMC.Model.SNBT
namespace GoMC.Model.SNBT
open GoMC

/-- `p` run on `s` does not panic, and when it succeeds it has consumed at least `k` bytes -/
def NP {α} (k : Nat) (p : Rd α) (s : Stream) : Prop :=
  (p s).1 ≠ Res.panic ∧ ∀ a s', p s = (Res.ok a, s') → s'.flat.length + k ≤ s.flat.length

theorem NP_pure {α} (a : α) (s : Stream) : NP 0 (pure a : Rd α) s := by
  refine ⟨by simp, ?_⟩
  intro b s' h
  simp only [Rd.pure_apply, Prod.mk.injEq] at h
  rw [← h.2]; omega

theorem NP_fail {α} (k : Nat) (s : Stream) : NP k (Rd.fail : Rd α) s := by
  refine ⟨by simp [Rd.fail], ?_⟩
  intro b s' h; simp [Rd.fail] at h

theorem NP_mono {α} {k j : Nat} {p : Rd α} {s : Stream} (h : NP k p s) (hj : j ≤ k) : NP j p s :=
  ⟨h.1, fun a s' e => by have := h.2 a s' e; omega⟩

theorem NP_bind {α β} {k j : Nat} {p : Rd α} {f : α → Rd β} {s : Stream}
    (hp : NP k p s) (hf : ∀ a s', p s = (Res.ok a, s') → NP j (f a) s') : NP (k + j) (p >>= f) s := by
  rw [NP, Rd.bind_apply]
  rcases hps : p s with ⟨r, s1⟩
  cases r with
  | ok a =>
    have h1 := hp.2 a s1 hps
    have h2 := hf a s1 hps
    refine ⟨h2.1, ?_⟩
    intro b s' e
    have := h2.2 b s' e
    omega
  | err => exact ⟨by simp, by intro b s' e; simp at e⟩
  | panic => exact absurd (by rw [hps]) hp.1

theorem NP_readByte (s : Stream) : NP 1 Rd.readByte s := by
  unfold NP Rd.readByte
  cases hs : s.flat with
  | nil => exact ⟨by simp, by intro a s' e; simp at e⟩
  | cons b bs =>
    refine ⟨by simp, ?_⟩
    intro a s' e
    simp only [Prod.mk.injEq, Res.ok.injEq] at e
    rw [← e.2, Stream.flat_drop, hs]; simp

theorem NP_readFull (n : Nat) (s : Stream) : NP n (Rd.readFull n) s := by
  unfold NP Rd.readFull
  split
  · rename_i h
    refine ⟨by simp, ?_⟩
    intro a s' e
    simp only [Prod.mk.injEq, Res.ok.injEq] at e
    rw [← e.2, Stream.flat_drop, List.length_drop]; omega
  · exact ⟨by simp, by intro a s' e; simp at e⟩

theorem NP_readIntBE (k : Nat) (s : Stream) : NP k (readIntBE k) s := by
  unfold readIntBE
  have := NP_bind (k := k) (j := 0) (f := fun bs => (pure (if beNat bs ≥ 2 ^ (8 * k - 1) then (beNat bs : Int) - 2 ^ (8 * k) else beNat bs) : Rd Int))
    (NP_readFull k s) (fun a s' _ => NP_pure _ s')
  simpa using this

theorem NP_readString (s : Stream) : NP 2 readString s := by
  unfold readString
  have := NP_bind (k := 2) (j := 0) (s := s) (NP_readIntBE 2 s)
    (f := fun n => if n < 0 then Rd.fail else if n > 0 then Rd.readFull n.toNat else pure [])
    (fun a s' _ => by
      split
      · exact NP_fail _ _
      · split
        · exact NP_mono (NP_readFull _ _) (Nat.zero_le _)
        · exact NP_pure _ _)
  simpa using this

theorem NP_byteLoop (n : Nat) (first : Bool) (acc : Bytes) (s : Stream) : NP 0 (byteLoop n first acc) s := by
  induction n generalizing first acc s with
  | zero => exact NP_pure _ _
  | succ n ih =>
    unfold byteLoop
    exact NP_mono (NP_bind (NP_readByte s) (fun a s' _ => ih _ _ s')) (Nat.zero_le _)

theorem NP_numLoop (k : Nat) (suf : Byte) (n : Nat) (first : Bool) (acc : Bytes) (s : Stream) :
    NP 0 (numLoop k suf n first acc) s := by
  induction n generalizing first acc s with
  | zero => exact NP_pure _ _
  | succ n ih =>
    unfold numLoop
    exact NP_mono (NP_bind (NP_readIntBE k s) (fun a s' _ => ih _ _ s')) (Nat.zero_le _)



/-- The three mutually recursive walker functions never panic — in particular never run out of fuel — when the
fuel is at least `2·(bytes left) + 2` (`encode`), `+ 3` (list loop), `+ 1` (compound loop); a successful
`encode` / compound loop has consumed at least one byte. -/
theorem walker_NP (fo : FmtOracle) : ∀ fuel : Nat,
    (∀ tag s, 2 * s.flat.length + 2 ≤ fuel → NP 1 (encode fo fuel tag) s) ∧
    (∀ t n first acc s, 2 * s.flat.length + 3 ≤ fuel → NP 0 (wListLoop fo fuel t n first acc) s) ∧
    (∀ first acc s, 2 * s.flat.length + 1 ≤ fuel → NP 1 (wCompLoop fo fuel first acc) s) := by
  intro fuel
  induction fuel with
  | zero =>
    refine ⟨?_, ?_, ?_⟩
    · intro tag s h; omega
    · intro t n first acc s h; omega
    · intro first acc s h; omega
  | succ f ih =>
    obtain ⟨ihE, ihL, ihC⟩ := ih
    refine ⟨?_, ?_, ?_⟩
    · intro tag s hf
      unfold encode
      split
      · exact NP_mono (NP_bind (NP_readByte s) (fun a s' _ => NP_pure _ s')) (by omega)
      · exact NP_mono (NP_bind (NP_readString s) (fun a s' _ => NP_pure _ s')) (by omega)
      · exact NP_mono (NP_bind (NP_readIntBE 2 s) (fun a s' _ => NP_pure _ s')) (by omega)
      · exact NP_mono (NP_bind (NP_readIntBE 4 s) (fun a s' _ => NP_pure _ s')) (by omega)
      · exact NP_mono (NP_bind (NP_readFull 4 s) (fun a s' _ => NP_pure _ s')) (by omega)
      · exact NP_mono (NP_bind (NP_readIntBE 8 s) (fun a s' _ => NP_pure _ s')) (by omega)
      · exact NP_mono (NP_bind (NP_readFull 8 s) (fun a s' _ => NP_pure _ s')) (by omega)
      · refine NP_mono (NP_bind (j := 0) (NP_readIntBE 4 s) (fun a s' _ => ?_)) (by omega)
        split
        · exact NP_fail _ _
        · exact NP_bind (k := 0) (j := 0) (NP_byteLoop _ _ _ s') (fun a s'' _ => NP_pure _ s'')
      · refine NP_mono (NP_bind (j := 0) (NP_readIntBE 4 s) (fun a s' _ => ?_)) (by omega)
        split
        · exact NP_fail _ _
        · exact NP_bind (k := 0) (j := 0) (NP_numLoop _ _ _ _ _ s') (fun a s'' _ => NP_pure _ s'')
      · refine NP_mono (NP_bind (j := 0) (NP_readIntBE 4 s) (fun a s' _ => ?_)) (by omega)
        split
        · exact NP_fail _ _
        · exact NP_bind (k := 0) (j := 0) (NP_numLoop _ _ _ _ _ s') (fun a s'' _ => NP_pure _ s'')
      · refine NP_mono (NP_bind (j := 4) (NP_readByte s) (fun lt s1 h1 => ?_)) (by omega)
        have l1 := (NP_readByte s).2 lt s1 h1
        refine NP_bind (k := 4) (j := 0) (NP_readIntBE 4 s1) (fun n s2 h2 => ?_)
        have l2 := (NP_readIntBE 4 s1).2 n s2 h2
        split
        · exact NP_fail _ _
        · split
          · exact NP_fail _ _
          · exact NP_bind (k := 0) (j := 0) (ihL _ _ _ _ s2 (by omega)) (fun a s'' _ => NP_pure _ s'')
      · exact ihC _ _ s (by omega)
      · exact NP_fail _ _
    · intro t n first acc s hf
      unfold wListLoop
      cases n with
      | zero => exact NP_pure _ _
      | succ n =>
        refine NP_mono (NP_bind (j := 0) (ihE t s (by omega)) (fun el s1 h1 => ?_)) (by omega)
        have l1 := (ihE t s (by omega)).2 el s1 h1
        exact ihL _ _ _ _ s1 (by omega)
    · intro first acc s hf
      unfold wCompLoop
      refine NP_mono (NP_bind (j := 0) (NP_readByte s) (fun tt s1 h1 => ?_)) (by omega)
      have l1 := (NP_readByte s).2 tt s1 h1
      split
      · exact NP_fail _ _
      · have hname : NP 0 (if tt == 0 then pure [] else readString : Rd Bytes) s1 := by
          split
          · exact NP_pure _ _
          · exact NP_mono (NP_readString s1) (by omega)
        refine NP_bind (k := 0) (j := 0) hname (fun tn s2 h2 => ?_)
        have l2 := hname.2 tn s2 h2
        dsimp only
        by_cases h0 : (tt == 0) = true
        · simp only [h0, if_true]; exact NP_pure _ _
        · simp only [h0, if_false]
          refine NP_mono (NP_bind (j := 1) (ihE tt s2 (by omega)) (fun v s3 h3 => ?_)) (by omega)
          have l3 := (ihE tt s2 (by omega)).2 v s3 h3
          exact ihC _ _ s3 (by omega)

/-- `C04_walker_total` (model level): `UnmarshalNBT` on any tag and any stream does not panic and does not run
out of the linear fuel `2n+2`. -/
theorem unmarshalNBT_no_panic (fo : FmtOracle) (tag : Byte) (s : Stream) :
    (unmarshalNBT fo tag s).1 ≠ Res.panic := by
  unfold unmarshalNBT
  split
  · simp
  · exact ((walker_NP fo _).1 tag s (by unfold walkFuel; omega)).1


/-- the stack is non-empty wherever the Go code indexes it -/
def Scanner.Good (s : Scanner) : Prop := s.oob = false ∧ (s.st = .compoundOrEmpty → s.stack ≠ [])

theorem Scanner.error_good (s : Scanner) (h : s.Good) : (Scanner.error s).1.Good := by
  simp [Scanner.error, Scanner.Good, h.1]

theorem Scanner.pop_good (s : Scanner) (h : s.Good) (hs : s.stack ≠ []) : (Scanner.pop s).Good := by
  unfold Scanner.pop
  split
  · contradiction
  · simp [Scanner.Good, h.1]
  · simp [Scanner.Good, h.1]

theorem Scanner.stEndTop_good (s : Scanner) (c : Byte) (h : s.Good) (hst : s.st ≠ .compoundOrEmpty) :
    (Scanner.stEndTop s c).1.Good := by
  unfold Scanner.stEndTop
  split
  · exact Scanner.error_good s h
  · exact h

theorem Scanner.stEndValue_good (s : Scanner) (c : Byte) (h : s.Good) : (Scanner.stEndValue s c).1.Good := by
  unfold Scanner.stEndValue
  split
  · apply Scanner.stEndTop_good
    · simp [Scanner.Good, h.1]
    · simp
  · rename_i ps rest hs
    split
    · simp [Scanner.Good, h.1]
    · split
      · split
        · simp [Scanner.Good, h.1]
        · exact Scanner.error_good s h
      · split
        · simp [Scanner.Good, h.1]
        · split
          · exact Scanner.pop_good s h (by rw [hs]; simp)
          · exact Scanner.error_good s h
      · split
        · simp [Scanner.Good, h.1]
        · split
          · exact Scanner.pop_good s h (by rw [hs]; simp)
          · exact Scanner.error_good s h



theorem Scanner.good_set {s : Scanner} (h : s.Good) (st : St) (hst : st ≠ .compoundOrEmpty) :
    Scanner.Good { s with st := st } := by
  refine ⟨h.1, ?_⟩
  intro e; exact absurd e hst

theorem Scanner.stBeginString_good (s : Scanner) (c : Byte) (h : s.Good) : (Scanner.stBeginString s c).1.Good := by
  unfold Scanner.stBeginString
  split
  · exact h
  · split
    · exact Scanner.good_set h _ (by simp)
    · split
      · exact Scanner.good_set h _ (by simp)
      · split
        · exact Scanner.good_set h _ (by simp)
        · exact Scanner.error_good s h

theorem Scanner.stEndNumDotValue_good (s : Scanner) (c : Byte) (h : s.Good) :
    (Scanner.stEndNumDotValue s c).1.Good := by
  unfold Scanner.stEndNumDotValue
  split
  · exact Scanner.good_set h _ (by simp)
  · exact Scanner.stEndValue_good s c h

theorem Scanner.stInUnquoted_good (s : Scanner) (c : Byte) (h : s.Good) : (Scanner.stInUnquoted s c).1.Good := by
  unfold Scanner.stInUnquoted
  split
  · exact h
  · exact Scanner.stEndValue_good s c h

theorem Scanner.stEndNumValue_good (s : Scanner) (c : Byte) (h : s.Good) : (Scanner.stEndNumValue s c).1.Good := by
  unfold Scanner.stEndNumValue
  split
  · exact Scanner.good_set h _ (by simp)
  · split
    · exact Scanner.stEndNumDotValue_good s c h
    · split
      · exact Scanner.good_set h _ (by simp)
      · exact Scanner.stEndValue_good s c h

theorem Scanner.stNum0_good (s : Scanner) (c : Byte) (h : s.Good) : (Scanner.stNum0 s c).1.Good := by
  unfold Scanner.stNum0
  split
  · exact Scanner.good_set h _ (by simp)
  · exact Scanner.stEndNumValue_good s c h

theorem Scanner.push_good (s : Scanner) (p : PS) (op : Op) (h : s.oob = false) : (Scanner.push s p op).1.Good := by
  unfold Scanner.push
  dsimp only
  split <;> simp [Scanner.Good, h]

theorem Scanner.stBeginValue_good (s : Scanner) (c : Byte) (h : s.Good) : (Scanner.stBeginValue s c).1.Good := by
  unfold Scanner.stBeginValue
  split
  · exact Scanner.good_set h _ (by simp)
  · split
    · exact Scanner.push_good _ _ _ h.1
    · split
      · exact Scanner.push_good _ _ _ h.1
      · split
        · exact Scanner.stBeginString_good s c h
        · split
          · exact Scanner.stNum0_good s c h
          · split
            · exact Scanner.stBeginString_good s c h
            · exact Scanner.error_good s h

theorem Scanner.stCompoundOrEmpty_good (s : Scanner) (c : Byte) (h : s.Good) (hst : s.st = .compoundOrEmpty) :
    (Scanner.stCompoundOrEmpty s c).1.Good := by
  unfold Scanner.stCompoundOrEmpty
  split
  · exact h
  · split
    · split
      · rename_i hs; exact absurd hs (h.2 hst)
      · apply Scanner.stEndValue_good
        exact ⟨h.1, fun _ => by simp⟩
    · exact Scanner.stBeginString_good s c h

/-- every scanner step keeps the stack non-empty where the Go code indexes it: the `oob` flag is never raised -/
theorem Scanner.step_good (s : Scanner) (c : Byte) (h : s.Good) : (s.step c).1.Good := by
  unfold Scanner.step
  split
  · exact Scanner.stBeginValue_good s c h
  · rename_i hst; exact Scanner.stCompoundOrEmpty_good s c h hst
  · exact Scanner.stBeginString_good s c h
  · split
    · exact Scanner.good_set h _ (by simp)
    · split
      · exact Scanner.good_set h _ (by simp)
      · exact h
  · split
    · exact Scanner.good_set h _ (by simp)
    · exact Scanner.error_good s h
  · split
    · exact Scanner.good_set h _ (by simp)
    · split
      · exact Scanner.good_set h _ (by simp)
      · exact h
  · split
    · exact Scanner.good_set h _ (by simp)
    · exact Scanner.error_good s h
  · exact Scanner.stInUnquoted_good s c h
  · split
    · exact h
    · split
      · exact Scanner.good_set h _ (by simp)
      · split
        · exact Scanner.stEndValue_good s c h
        · exact Scanner.stBeginValue_good s c h
  · split
    · exact Scanner.good_set h _ (by simp)
    · exact Scanner.stInUnquoted_good _ c (Scanner.good_set h _ (by simp))
  · split
    · exact h
    · split
      · exact Scanner.stEndValue_good s c h
      · exact Scanner.stBeginValue_good s c h
  · split
    · exact Scanner.good_set h _ (by simp)
    · split
      · exact Scanner.good_set h _ (by simp)
      · exact Scanner.stEndNumValue_good s c h
  · split
    · exact Scanner.good_set h _ (by simp)
    · split
      · exact Scanner.good_set h _ (by simp)
      · split
        · exact Scanner.good_set h _ (by simp)
        · exact Scanner.error_good s h
  · split
    · exact Scanner.good_set h _ (by simp)
    · split
      · exact Scanner.good_set h _ (by simp)
      · exact Scanner.stEndNumDotValue_good s c h
  · split
    · exact Scanner.good_set h _ (by simp)
    · exact Scanner.stEndNumDotValue_good s c h
  · split
    · exact Scanner.good_set h _ (by simp)
    · exact Scanner.stEndNumDotValue_good s c h
  · exact Scanner.stEndValue_good s c h
  · rename_i hst; exact Scanner.stEndTop_good s c h (by rw [hst]; simp)
  · exact h

theorem Scanner.eof_good (s : Scanner) (h : s.Good) : s.eof.1.Good := by
  unfold Scanner.eof
  split
  · exact h
  · split
    · exact h
    · have := Scanner.step_good s 32 h
      dsimp only
      split
      · exact this
      · exact ⟨this.1, this.2⟩

theorem Scanner.reset_good : Scanner.reset.Good := by
  simp [Scanner.reset, Scanner.Good]


theorem scanLoop_good (op : Op) (data : Bytes) (s : Scanner) (rest : Bytes) (i : Nat) (h : s.Good) :
    (DState.scanLoop op data s rest i).scan.Good := by
  induction rest generalizing s i with
  | nil => unfold DState.scanLoop; exact Scanner.eof_good s h
  | cons c cs ih =>
    unfold DState.scanLoop
    dsimp only
    split
    · exact Scanner.step_good s c h
    · exact ih _ _ (Scanner.step_good s c h)

theorem scanWhile_good (op : Op) (d : DState) (h : d.scan.Good) : (DState.scanWhile op d).scan.Good :=
  scanLoop_good op d.data d.scan _ _ h

theorem scanNext_good (d : DState) (h : d.scan.Good) : d.scanNext.scan.Good := by
  unfold DState.scanNext
  split
  · exact Scanner.step_good _ _ h
  · exact Scanner.eof_good _ h

/-- an unknown tag id (0 or > 12) is an error of the walker -/
theorem encode_unknown_tag (fo : FmtOracle) (f : Nat) (tag : Byte) (s : Stream)
    (h : tag.toNat = 0 ∨ 12 < tag.toNat) : (encode fo (f + 1) tag s).1 = Res.err := by
  unfold encode
  generalize tag.toNat = n at h
  match n, h with
  | 0, _ => rfl
  | n + 13, _ => rfl

end GoMC.Model.SNBT
