/-
  Lemmas for C09, reader side: the decoders for which the owning property had not yet proved
  `Rd.FragInv` / `Rd.ExtStable`.

  * `BitStorage.ReadFrom` (C11's model is a plain function on streams): `bitsRead` packages it as an `Rd`,
    `bitsRead_eq` shows it equal to a monadic transcription, from which both properties follow by closure.
  * the SNBT walker `StringifiedMessage.UnmarshalNBT` (C04's model): `FragInv` and `ExtStable` for the three
    mutually recursive loops at any fuel, fuel monotonicity (`OkLe`: a successful run stays the same run with
    more fuel), hence `ExtStable` for `unmarshalNBT`, whose fuel is computed from the length of the source.
    This also closes C04's OPEN item `C04_walker_prefix` (see `Props/C09.lean: C09_reader_fault_snbt`).

  * `noPanic_codec`, `noPanic_bitsRead`, `noPanic_snbtDoc`: these decoders return a value or an error on every
    source (so "never success" in the reader-fault theorems becomes "an error").

  New generic lemmas about the `Rd` monad (not in Basic/Core): `Rd.frag_result` (the property's sentence for any
  `FragInv` program), `OkLe` with closure under `bind`/`ite`, `fragInv_congr`/`extStable_congr`.
-/
import GoMC.Model.Readers
import GoMC.Lemmas.BitStorage
import GoMC.Lemmas.SNBT
import GoMC.Lemmas.Fields
import GoMC.Lemmas.Frame
namespace GoMC

namespace Rd

/-- The sentence of C09 for a fragmentation-invariant program: however a source `s` delivers the bytes `bs`
(any chunking), the result and the bytes left are those of the contiguous in-memory run — provided the two
sources end the same way (`s.failing = false`: EOF, like `Stream.ofBytes`). For a source that ends with an
I/O error compare with `⟨[bs], true⟩`: `FragInv` itself is that statement. -/
theorem frag_result {α} {p : Rd α} (hp : FragInv p) (bs : Bytes) (s : Stream)
    (hflat : s.flat = bs) (htail : s.failing = false) :
    (p s).1 = (p (Stream.ofBytes bs)).1 ∧ (p s).2.flat = (p (Stream.ofBytes bs)).2.flat ∧
      (p s).2.failing = (p (Stream.ofBytes bs)).2.failing := by
  have h := hp s (Stream.ofBytes bs) ⟨by simp [hflat], by simp [htail, Stream.ofBytes]⟩
  exact ⟨h.1, h.2.1, h.2.2⟩

/-- the same for two arbitrary deliveries with the same end -/
theorem frag_result₂ {α} {p : Rd α} (hp : FragInv p) (s t : Stream)
    (hflat : s.flat = t.flat) (htail : s.failing = t.failing) :
    (p s).1 = (p t).1 ∧ (p s).2.flat = (p t).2.flat ∧ (p s).2.failing = (p t).2.failing := by
  have h := hp s t ⟨hflat, htail⟩
  exact ⟨h.1, h.2.1, h.2.2⟩

theorem fragInv_congr {α} {p q : Rd α} (h : ∀ s, p s = q s) (hq : FragInv q) : FragInv p := by
  have : p = q := funext h
  rw [this]; exact hq

theorem extStable_congr {α} {p q : Rd α} (h : ∀ s, p s = q s) (hq : ExtStable q) : ExtStable p := by
  have : p = q := funext h
  rw [this]; exact hq

/-- every successful run of `p` is the same successful run of `q` -/
def OkLe {α} (p q : Rd α) : Prop := ∀ s a s', p s = (Res.ok a, s') → q s = (Res.ok a, s')

theorem okLe_refl {α} (p : Rd α) : OkLe p p := fun _ _ _ h => h

theorem okLe_crash {α} (q : Rd α) : OkLe (crash : Rd α) q := by
  intro s a s' h; simp [crash] at h

theorem okLe_bind {α β} {p p' : Rd α} {f f' : α → Rd β} (hp : OkLe p p') (hf : ∀ a, OkLe (f a) (f' a)) :
    OkLe (p >>= f) (p' >>= f') := by
  intro s b s'' h
  rw [bind_apply] at h
  rcases hps : p s with ⟨r, s'⟩
  rw [hps] at h
  cases r with
  | ok a =>
    simp only at h
    rw [bind_apply, hp s a s' hps]
    exact hf a s' b s'' h
  | err => simp at h
  | panic => simp at h

theorem okLe_ite {α} {c : Prop} [Decidable c] {p p' q q' : Rd α} (hp : OkLe p p') (hq : OkLe q q') :
    OkLe (if c then p else q) (if c then p' else q') := by
  split <;> assumption

end Rd

namespace Lemmas
open GoMC.Model GoMC.Spec Rd

/-! ## BitStorage.ReadFrom -/

/-- the cell loop, monadically -/
def readLongsM : List (BitVec 64) → Rd (List (BitVec 64))
  | [] => Pure.pure []
  | _ :: old => do
    let v ← readLong
    let vs ← readLongsM old
    Pure.pure (v :: vs)

/-- `ReadFrom`, monadically -/
def bitsReadM (st : BitStorage) : Rd (Nat × BitStorage) := do
  let (len, n) ← varIntRead
  if len.toInt < 0 then Rd.fail else do
  let vs ← readLongsM (if len.toNat ≤ (st.data ++ st.spare).length then (st.data ++ st.spare).take len.toNat
                       else List.replicate len.toNat 0#64)
  Pure.pure (n + 8 * len.toNat,
    { st with data := vs,
              spare := if len.toNat ≤ (st.data ++ st.spare).length then (st.data ++ st.spare).drop len.toNat else [] })

theorem readLong_cases (s : Stream) :
    (∃ v s', readLong s = (Res.ok v, s')) ∨ (∃ s', readLong s = (Res.err, s')) := by
  by_cases h : 8 ≤ s.flat.length
  · left; exact ⟨be64 (s.flat.take 8), s.drop 8, by simp [readLong, Rd.bind_apply, Rd.readFull, h]⟩
  · right; exact ⟨s.drained, by simp [readLong, Rd.bind_apply, Rd.readFull, h]⟩

theorem readLongsM_eq (cells : List (BitVec 64)) (s : Stream) :
    readLongsM cells s =
      (if (readLongs cells s).1.1 then Res.ok (readLongs cells s).1.2 else Res.err, (readLongs cells s).2) := by
  induction cells generalizing s with
  | nil => simp [readLongsM, readLongs]
  | cons o old ih =>
    unfold readLongsM readLongs
    rcases readLong_cases s with ⟨v, s', h⟩ | ⟨s', h⟩
    · rw [Rd.bind_ok h, h]
      simp only
      rw [Rd.bind_apply, ih s']
      by_cases hb : (readLongs old s').1.1 = true
      · simp [hb]
      · simp [hb]
    · rw [Rd.bind_err h, h]
      simp

theorem bitsRead_eq (st : BitStorage) (s : Stream) : bitsRead st s = bitsReadM st s := by
  unfold bitsRead bitsReadM BitStorage.readFrom
  rw [Rd.bind_apply]
  rcases hv : varIntRead s with ⟨r, s1⟩
  cases r with
  | ok a =>
    obtain ⟨len, n⟩ := a
    simp only
    by_cases hneg : len.toInt < 0
    · simp [hneg, Rd.fail, Res.map]
    · simp only [hneg, if_false]
      rw [Rd.bind_apply, readLongsM_eq]
      generalize readLongs (if len.toNat ≤ (st.data ++ st.spare).length then (st.data ++ st.spare).take len.toNat
          else List.replicate len.toNat 0#64) s1 = R
      obtain ⟨⟨b, cs⟩, s2⟩ := R
      cases b <;> simp [Res.map]
  | err => simp [Res.map]
  | panic => simp [Res.map]

theorem fragInv_readLong : FragInv readLong :=
  fragInv_bind (fragInv_readFull 8) fun _ => fragInv_pure _
theorem extStable_readLong : ExtStable readLong :=
  extStable_bind (extStable_readFull 8) fun _ => extStable_pure _

theorem fragInv_readLongsM (cells : List (BitVec 64)) : FragInv (readLongsM cells) := by
  induction cells with
  | nil => exact fragInv_pure _
  | cons o old ih =>
    unfold readLongsM
    exact fragInv_bind fragInv_readLong fun _ => fragInv_bind ih fun _ => fragInv_pure _

theorem extStable_readLongsM (cells : List (BitVec 64)) : ExtStable (readLongsM cells) := by
  induction cells with
  | nil => exact extStable_pure _
  | cons o old ih =>
    unfold readLongsM
    exact extStable_bind extStable_readLong fun _ => extStable_bind ih fun _ => extStable_pure _

theorem fragInv_bitsRead (st : BitStorage) : FragInv (bitsRead st) := by
  refine fragInv_congr (bitsRead_eq st) ?_
  unfold bitsReadM
  refine fragInv_bind fragInv_varIntRead fun a => ?_
  exact fragInv_ite fragInv_fail (fragInv_bind (fragInv_readLongsM _) fun _ => fragInv_pure _)

theorem extStable_bitsRead (st : BitStorage) : ExtStable (bitsRead st) := by
  refine extStable_congr (bitsRead_eq st) ?_
  unfold bitsReadM
  refine extStable_bind extStable_varIntRead fun a => ?_
  exact extStable_ite extStable_fail (extStable_bind (extStable_readLongsM _) fun _ => extStable_pure _)

end Lemmas

/-! ## the SNBT walker -/

namespace Model.SNBT
open GoMC.Rd

theorem fragInv_readIntBE (k : Nat) : FragInv (readIntBE k) :=
  fragInv_bind (fragInv_readFull k) fun _ => fragInv_pure _
theorem extStable_readIntBE (k : Nat) : ExtStable (readIntBE k) :=
  extStable_bind (extStable_readFull k) fun _ => extStable_pure _

theorem fragInv_readString : FragInv readString := by
  unfold readString
  exact fragInv_bind (fragInv_readIntBE 2) fun _ =>
    fragInv_ite fragInv_fail (fragInv_ite (fragInv_readFull _) (fragInv_pure _))
theorem extStable_readString : ExtStable readString := by
  unfold readString
  exact extStable_bind (extStable_readIntBE 2) fun _ =>
    extStable_ite extStable_fail (extStable_ite (extStable_readFull _) (extStable_pure _))

theorem fragInv_byteLoop (n : Nat) (first : Bool) (acc : Bytes) : FragInv (byteLoop n first acc) := by
  induction n generalizing first acc with
  | zero => exact fragInv_pure _
  | succ n ih => unfold byteLoop; exact fragInv_bind fragInv_readByte fun _ => ih _ _
theorem extStable_byteLoop (n : Nat) (first : Bool) (acc : Bytes) : ExtStable (byteLoop n first acc) := by
  induction n generalizing first acc with
  | zero => exact extStable_pure _
  | succ n ih => unfold byteLoop; exact extStable_bind extStable_readByte fun _ => ih _ _

theorem fragInv_numLoop (k : Nat) (suf : Byte) (n : Nat) (first : Bool) (acc : Bytes) :
    FragInv (numLoop k suf n first acc) := by
  induction n generalizing first acc with
  | zero => exact fragInv_pure _
  | succ n ih => unfold numLoop; exact fragInv_bind (fragInv_readIntBE k) fun _ => ih _ _
theorem extStable_numLoop (k : Nat) (suf : Byte) (n : Nat) (first : Bool) (acc : Bytes) :
    ExtStable (numLoop k suf n first acc) := by
  induction n generalizing first acc with
  | zero => exact extStable_pure _
  | succ n ih => unfold numLoop; exact extStable_bind (extStable_readIntBE k) fun _ => ih _ _

/-- a closure property `P` of reader programs that holds for the primitives is inherited by the three walker
loops at every fuel: instantiated with `FragInv` and with `ExtStable` -/
theorem walker_closed (P : ∀ {α : Type}, Rd α → Prop)
    (hpure : ∀ {α : Type} (a : α), P (Pure.pure a : Rd α))
    (hfail : ∀ {α : Type}, P (Rd.fail : Rd α))
    (hcrash : ∀ {α : Type}, P (Rd.crash : Rd α))
    (hbind : ∀ {α β : Type} {p : Rd α} {f : α → Rd β}, P p → (∀ a, P (f a)) → P (p >>= f))
    (hite : ∀ {α : Type} {c : Prop} [Decidable c] {p q : Rd α}, P p → P q → P (if c then p else q))
    (hbyte : P Rd.readByte) (hfull : ∀ n, P (Rd.readFull n))
    (fo : FmtOracle) : ∀ fuel : Nat,
    (∀ tag, P (encode fo fuel tag)) ∧
    (∀ t n first acc, P (wListLoop fo fuel t n first acc)) ∧
    (∀ first acc, P (wCompLoop fo fuel first acc)) := by
  have hint : ∀ k, P (readIntBE k) := fun k => hbind (hfull k) fun _ => hpure _
  have hstr : P readString := by
    unfold readString
    exact hbind (hint 2) fun _ => hite hfail (hite (hfull _) (hpure _))
  have hbl : ∀ n first acc, P (byteLoop n first acc) := by
    intro n
    induction n with
    | zero => intro first acc; exact hpure _
    | succ n ih => intro first acc; unfold byteLoop; exact hbind hbyte fun _ => ih _ _
  have hnl : ∀ k suf n first acc, P (numLoop k suf n first acc) := by
    intro k suf n
    induction n with
    | zero => intro first acc; exact hpure _
    | succ n ih => intro first acc; unfold numLoop; exact hbind (hint k) fun _ => ih _ _
  intro fuel
  induction fuel with
  | zero =>
    refine ⟨?_, ?_, ?_⟩
    · intro tag; unfold encode; exact hcrash
    · intro t n first acc; unfold wListLoop; exact hite (hpure _) hcrash
    · intro first acc; unfold wCompLoop; exact hcrash
  | succ f ih =>
    obtain ⟨ihE, ihL, ihC⟩ := ih
    refine ⟨?_, ?_, ?_⟩
    · intro tag
      unfold encode
      split
      · exact hbind hbyte fun _ => hpure _
      · exact hbind hstr fun _ => hpure _
      · exact hbind (hint 2) fun _ => hpure _
      · exact hbind (hint 4) fun _ => hpure _
      · exact hbind (hfull 4) fun _ => hpure _
      · exact hbind (hint 8) fun _ => hpure _
      · exact hbind (hfull 8) fun _ => hpure _
      · exact hbind (hint 4) fun _ => hite hfail (hbind (hbl _ _ _) fun _ => hpure _)
      · exact hbind (hint 4) fun _ => hite hfail (hbind (hnl _ _ _ _ _) fun _ => hpure _)
      · exact hbind (hint 4) fun _ => hite hfail (hbind (hnl _ _ _ _ _) fun _ => hpure _)
      · exact hbind hbyte fun _ => hbind (hint 4) fun _ =>
          hite hfail (hite hfail (hbind (ihL _ _ _ _) fun _ => hpure _))
      · exact ihC _ _
      · exact hfail
    · intro t n first acc
      unfold wListLoop
      cases n with
      | zero => exact hpure _
      | succ n => exact hbind (ihE t) fun _ => ihL _ _ _ _
    · intro first acc
      unfold wCompLoop
      refine hbind hbyte fun tt => hite hfail ?_
      refine hbind (hite (hpure _) hstr) fun tn => ?_
      exact hite (hpure _) (hbind (ihE tt) fun _ => ihC _ _)

theorem fragInv_encode (fo : FmtOracle) (fuel : Nat) (tag : Byte) : FragInv (encode fo fuel tag) :=
  (walker_closed (fun p => FragInv p) fragInv_pure fragInv_fail fragInv_crash fragInv_bind fragInv_ite
    fragInv_readByte fragInv_readFull fo fuel).1 tag

theorem extStable_encode (fo : FmtOracle) (fuel : Nat) (tag : Byte) : ExtStable (encode fo fuel tag) :=
  (walker_closed (fun p => ExtStable p) extStable_pure extStable_fail extStable_crash extStable_bind extStable_ite
    extStable_readByte extStable_readFull fo fuel).1 tag

/-- more fuel never changes a successful walk -/
theorem walker_fuel_mono (fo : FmtOracle) : ∀ f : Nat,
    (∀ g tag, f ≤ g → OkLe (encode fo f tag) (encode fo g tag)) ∧
    (∀ g t n first acc, f ≤ g → OkLe (wListLoop fo f t n first acc) (wListLoop fo g t n first acc)) ∧
    (∀ g first acc, f ≤ g → OkLe (wCompLoop fo f first acc) (wCompLoop fo g first acc)) := by
  intro f
  induction f with
  | zero =>
    refine ⟨?_, ?_, ?_⟩
    · intro g tag _; unfold encode; exact okLe_crash _
    · intro g t n first acc _
      cases n with
      | zero =>
        cases g with
        | zero => exact okLe_refl _
        | succ g => unfold wListLoop; simp; exact okLe_refl _
      | succ n =>
        have : wListLoop fo 0 t (n + 1) first acc = Rd.crash := by unfold wListLoop; simp
        rw [this]; exact okLe_crash _
    · intro g first acc _; unfold wCompLoop; exact okLe_crash _
  | succ f ih =>
    obtain ⟨ihE, ihL, ihC⟩ := ih
    refine ⟨?_, ?_, ?_⟩
    · intro g tag hfg
      obtain ⟨g', rfl⟩ : ∃ g', g = g' + 1 := ⟨g - 1, by omega⟩
      have hle : f ≤ g' := by omega
      unfold encode
      split
      · exact okLe_refl _
      · exact okLe_refl _
      · exact okLe_refl _
      · exact okLe_refl _
      · exact okLe_refl _
      · exact okLe_refl _
      · exact okLe_refl _
      · exact okLe_refl _
      · exact okLe_refl _
      · exact okLe_refl _
      · exact okLe_bind (okLe_refl _) fun _ => okLe_bind (okLe_refl _) fun _ =>
          okLe_ite (okLe_refl _) (okLe_ite (okLe_refl _) (okLe_bind (ihL g' _ _ _ _ hle) fun _ => okLe_refl _))
      · exact ihC g' _ _ hle
      · exact okLe_refl _
    · intro g t n first acc hfg
      obtain ⟨g', rfl⟩ : ∃ g', g = g' + 1 := ⟨g - 1, by omega⟩
      have hle : f ≤ g' := by omega
      unfold wListLoop
      cases n with
      | zero => exact okLe_refl _
      | succ n => exact okLe_bind (ihE g' t hle) fun _ => ihL g' _ _ _ _ hle
    · intro g first acc hfg
      obtain ⟨g', rfl⟩ : ∃ g', g = g' + 1 := ⟨g - 1, by omega⟩
      have hle : f ≤ g' := by omega
      unfold wCompLoop
      refine okLe_bind (okLe_refl _) fun tt => okLe_ite (okLe_refl _) ?_
      refine okLe_bind (okLe_refl _) fun tn => ?_
      exact okLe_ite (okLe_refl _) (okLe_bind (ihE g' tt hle) fun _ => ihC g' _ _ hle)

/-- `StringifiedMessage.UnmarshalNBT` cannot tell two deliveries of the same bytes apart -/
theorem fragInv_unmarshalNBT (fo : FmtOracle) (tag : Byte) : FragInv (unmarshalNBT fo tag) := by
  intro s t h
  unfold unmarshalNBT
  split
  · exact ⟨rfl, h⟩
  · rw [h.1]
    exact fragInv_encode fo _ tag s t h

/-- a successful walk does not depend on what follows the bytes it consumed (although the fuel is computed
from the length of the source: more fuel never changes a successful walk) -/
theorem extStable_unmarshalNBT (fo : FmtOracle) (tag : Byte) : ExtStable (unmarshalNBT fo tag) := by
  intro s a s' h t extra ht
  unfold unmarshalNBT at h ⊢
  split at h
  · simp at h
  · rename_i htag
    simp only [htag]
    obtain ⟨t', h1, h2, h3⟩ := extStable_encode fo (walkFuel s.flat.length) tag s a s' h t extra ht
    have hle : walkFuel s.flat.length ≤ walkFuel t.flat.length := by
      unfold walkFuel; rw [ht, List.length_append]; omega
    exact ⟨t', (walker_fuel_mono fo _).1 _ tag hle t a t' h1, h2, h3⟩

end Model.SNBT

namespace Lemmas
open GoMC.Model GoMC.Spec

theorem fragInv_snbtDoc (fo : SNBT.FmtOracle) : Rd.FragInv (snbtDoc fo) :=
  Rd.fragInv_bind Rd.fragInv_readByte fun t =>
    Rd.fragInv_bind (SNBT.fragInv_unmarshalNBT fo t) fun _ => Rd.fragInv_pure _

theorem extStable_snbtDoc (fo : SNBT.FmtOracle) : Rd.ExtStable (snbtDoc fo) :=
  Rd.extStable_bind Rd.extStable_readByte fun t =>
    Rd.extStable_bind (SNBT.extStable_unmarshalNBT fo t) fun _ => Rd.extStable_pure _

/-! ## the field decoders never panic (the repaired code has no panic point left: negative lengths are errors) -/

theorem noPanic_readAll : NoPanic Rd.readAll := by
  intro s; unfold Rd.readAll; split <;> simp
theorem noPanic_readByte1 : NoPanic readByte1 := noPanic_bind noPanic_readByte fun _ => noPanic_pure _
theorem noPanic_bool (d : Bool) : NoPanic (boolDec d) := noPanic_bind noPanic_readByte1 fun _ => noPanic_pure _
theorem noPanic_byte (d : BitVec 8) : NoPanic (byteDec d) := noPanic_bind noPanic_readByte1 fun _ => noPanic_pure _
theorem noPanic_fix (k : Nat) (d : BitVec (8 * k)) : NoPanic (fixDec k d) :=
  noPanic_bind (noPanic_readFull k) fun _ => noPanic_pure _
theorem noPanic_varLongRead : NoPanic varLongRead := noPanic_varLoop _ _ _ _
theorem noPanic_string (d : Bytes) : NoPanic (stringDec d) := by
  unfold stringDec
  refine noPanic_bind noPanic_varIntRead fun ⟨l, n⟩ => ?_
  exact noPanic_ite noPanic_fail (noPanic_bind (noPanic_readFull _) fun _ => noPanic_pure _)
theorem noPanic_byteArray (d : Slice Byte) : NoPanic (byteArrayDec d) := by
  unfold byteArrayDec
  refine noPanic_bind noPanic_varIntRead fun ⟨l, n⟩ => ?_
  exact noPanic_ite noPanic_fail (noPanic_bind (noPanic_readFull _) fun _ => noPanic_pure _)
theorem noPanic_longs (ds : List (BitVec 64)) : NoPanic (longsDec ds) := by
  induction ds with
  | nil => exact noPanic_pure _
  | cons d ds ih =>
    unfold longsDec
    exact noPanic_bind (noPanic_fix 8 d) fun _ => noPanic_bind ih fun _ => noPanic_pure _
theorem noPanic_bitSet (d : Slice (BitVec 64)) : NoPanic (bitSetDec d) := by
  unfold bitSetDec
  refine noPanic_bind noPanic_varIntRead fun ⟨l, n⟩ => ?_
  exact noPanic_ite noPanic_fail (noPanic_bind (noPanic_longs _) fun _ => noPanic_pure _)
theorem noPanic_position (d : Pos) : NoPanic (positionDec d) :=
  noPanic_bind (noPanic_fix 8 0) fun _ => noPanic_pure _
theorem noPanic_plugin (d : Bytes) : NoPanic (pluginDec d) :=
  noPanic_bind noPanic_readAll fun _ => noPanic_pure _
theorem noPanic_lenDec (l : LenKind) : NoPanic (lenDec l) := by
  cases l <;> unfold lenDec
  · exact noPanic_bind noPanic_varIntRead fun _ => noPanic_pure _
  · exact noPanic_bind noPanic_varLongRead fun _ => noPanic_pure _
  · exact noPanic_bind (noPanic_byte 0) fun _ => noPanic_pure _
  · exact noPanic_bind (noPanic_byte 0) fun _ => noPanic_pure _
  · exact noPanic_bind (noPanic_fix 2 0) fun _ => noPanic_pure _
  · exact noPanic_bind (noPanic_fix 2 0) fun _ => noPanic_pure _
  · exact noPanic_bind (noPanic_fix 4 0) fun _ => noPanic_pure _
  · exact noPanic_bind (noPanic_fix 8 0) fun _ => noPanic_pure _
theorem noPanic_decElems {α} (c : Codec α) (hc : ∀ d, NoPanic (c.dec d)) (ds : List α) : NoPanic (decElems c ds) := by
  induction ds with
  | nil => exact noPanic_pure _
  | cons d ds ih =>
    unfold decElems
    exact noPanic_bind (hc d) fun _ => noPanic_bind ih fun _ => noPanic_pure _
theorem noPanic_ary {α} (l : LenKind) (c : Codec α) (hc : ∀ d, NoPanic (c.dec d)) (d : Slice α) : NoPanic (aryDec l c d) := by
  unfold aryDec
  refine noPanic_bind (noPanic_lenDec l) fun ⟨len, n⟩ => ?_
  exact noPanic_ite noPanic_fail (noPanic_bind (noPanic_decElems c hc _) fun _ => noPanic_pure _)
theorem noPanic_option {α} (c : Codec α) (hc : ∀ d, NoPanic (c.dec d)) (d : Bool × α) : NoPanic (optionDec c d) := by
  unfold optionDec
  refine noPanic_bind (noPanic_bool _) fun ⟨h, n⟩ => ?_
  exact noPanic_ite (noPanic_pure _) (noPanic_bind (hc _) fun _ => noPanic_pure _)
theorem noPanic_pair {α β} (a : Codec α) (b : Codec β) (ha : ∀ d, NoPanic (a.dec d)) (hb : ∀ d, NoPanic (b.dec d))
    (d : α × β) : NoPanic (pairDec a b d) :=
  noPanic_bind (ha _) fun _ => noPanic_bind (hb _) fun _ => noPanic_pure _

theorem noPanic_readLongsM (cells : List (BitVec 64)) : NoPanic (readLongsM cells) := by
  induction cells with
  | nil => exact noPanic_pure _
  | cons o old ih =>
    unfold readLongsM
    refine noPanic_bind ?_ fun _ => noPanic_bind ih fun _ => noPanic_pure _
    exact noPanic_bind (noPanic_readFull 8) fun _ => noPanic_pure _

/-- `BitStorage.ReadFrom` returns a count or an error on every source -/
theorem noPanic_bitsRead (st : BitStorage) : NoPanic (bitsRead st) := by
  intro s
  rw [bitsRead_eq]
  revert s
  unfold bitsReadM
  refine noPanic_bind noPanic_varIntRead fun a => ?_
  exact noPanic_ite noPanic_fail (noPanic_bind (noPanic_readLongsM _) fun _ => noPanic_pure _)

theorem noPanic_snbtDoc (fo : SNBT.FmtOracle) : NoPanic (snbtDoc fo) :=
  noPanic_bind noPanic_readByte fun t =>
    noPanic_bind (fun s => SNBT.unmarshalNBT_no_panic fo t s) fun _ => noPanic_pure _

/-- every decoder of the term language returns a value or an error on every source -/
theorem noPanic_codec : ∀ (t : Ty) (d : Rep t), NoPanic ((codec t).dec d)
  | .bool, d => noPanic_bool d
  | .byte, d | .ubyte, d | .angle, d => noPanic_byte d
  | .short, d | .ushort, d => noPanic_fix 2 d
  | .int, d | .float, d => noPanic_fix 4 d
  | .long, d | .double, d => noPanic_fix 8 d
  | .varint, _ => noPanic_varIntRead
  | .varlong, _ => noPanic_varLongRead
  | .string, d => noPanic_string d
  | .pluginmsg, d => noPanic_plugin d
  | .bytearray, d => noPanic_byteArray d
  | .position, d => noPanic_position d
  | .uuid, d => noPanic_fix 16 d
  | .bitset, d => noPanic_bitSet d
  | .fixedbits n, d => noPanic_fix n d
  | .unit, _ => noPanic_pure _
  | .pair a b, d => noPanic_pair _ _ (noPanic_codec a) (noPanic_codec b) d
  | .option t, d => noPanic_option _ (noPanic_codec t) d
  | .opt1 t, d => noPanic_codec t d
  | .opt0 _, _ => noPanic_pure _
  | .ary l t, d => noPanic_ary l _ (noPanic_codec t) d

/-- neither success nor a panic: an error -/
theorem Res.eq_err_of {α} {r : Res α} (hnot : ∀ b, r ≠ Res.ok b) (hnp : r ≠ Res.panic) : r = Res.err := by
  cases r with
  | ok a => exact absurd rfl (hnot a)
  | err => rfl
  | panic => exact absurd rfl hnp

end Lemmas
end GoMC
