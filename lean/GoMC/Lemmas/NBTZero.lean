/-
  `zeroNeverEnds` (Model/NBTEncode) on the universe of finite type trees: the verdict is a function of the type
  alone — the search carries the struct types on the CURRENT PATH, nothing else — and it is `false` for every type:
  a type tree does not contain itself, so no path meets a type twice. In particular a struct type that occurs twice
  as a sibling (`Box{Min, Max Pos}`: a diamond) is not "self-containing".
-/
import GoMC.Model.NBTEncode
namespace GoMC.Lemmas.NBTZero
open GoMC GoMC.Model GoMC.Model.Go

mutual
  /-- equal types have the same nesting depth -/
  theorem beq_encFuel : ∀ a b : GoType, GoType.beq a b = true → a.encFuel = b.encFuel
    | .slice a, b, h => by
      cases b <;> simp only [GoType.beq, Bool.false_eq_true] at h
      simp only [GoType.encFuel, beq_encFuel a _ h]
    | .map a, b, h => by
      cases b <;> simp only [GoType.beq, Bool.false_eq_true] at h
      simp only [GoType.encFuel, beq_encFuel a _ h]
    | .ptr a, b, h => by
      cases b <;> simp only [GoType.beq, Bool.false_eq_true] at h
      simp only [GoType.encFuel, beq_encFuel a _ h]
    | .array n a, b, h => by
      cases b <;> simp only [GoType.beq, Bool.false_eq_true, Bool.and_eq_true] at h
      simp only [GoType.encFuel, beq_encFuel a _ h.2]
    | .struct n fs, b, h => by
      cases b <;> simp only [GoType.beq, Bool.false_eq_true, Bool.and_eq_true] at h
      simp only [GoType.encFuel, beqFields_encFuel fs _ h.2]
    | .bool, b, h | .f32, b, h | .f64, b, h | .str, b, h | .iface, b, h | .raw, b, h | .snbt, b, h | .dyn, b, h => by
      cases b <;> simp only [GoType.beq, Bool.false_eq_true] at h <;> rfl
    | .int k, b, h => by
      cases b <;> simp only [GoType.beq, Bool.false_eq_true] at h
      rfl
  theorem beqFields_encFuel : ∀ fs gs : List (FieldInfo × GoType), GoType.beqFields fs gs = true →
      GoType.encFuelFields fs = GoType.encFuelFields gs
    | [], gs, h => by
      cases gs with
      | nil => rfl
      | cons g gs => simp [GoType.beqFields] at h
    | (i, a) :: fs, gs, h => by
      cases gs with
      | nil => simp [GoType.beqFields] at h
      | cons g gs =>
        obtain ⟨j, b⟩ := g
        simp only [GoType.beqFields, Bool.and_eq_true] at h
        simp only [GoType.encFuelFields, beq_encFuel a b h.1.2, beqFields_encFuel fs gs h.2]
end

theorem encFuelFields_ge : ∀ {fs : List (FieldInfo × GoType)} {f : FieldInfo × GoType}, f ∈ fs → f.2.encFuel ≤ GoType.encFuelFields fs
  | [], _, h => by cases h
  | (i, a) :: fs, f, h => by
    simp only [GoType.encFuelFields]
    rcases List.mem_cons.mp h with rfl | h'
    · show a.encFuel ≤ _; omega
    · have := encFuelFields_ge h'; omega

/-- a field type lies strictly deeper than the struct type it is reached from -/
theorem typeAlongZero_lt : ∀ (p : List Nat) (t ft : GoType), p ≠ [] → typeAlongZero p t = some ft → ft.encFuel + 3 ≤ t.encFuel
  | [], _, _, h, _ => absurd rfl h
  | i :: is, t, ft, _, h => by
    cases t with
    | struct n fields =>
      simp only [typeAlongZero] at h
      cases hf : fields[i]? with
      | none => simp [hf] at h
      | some f =>
        simp only [hf, Option.bind_some] at h
        have hmem : f ∈ fields := List.mem_of_getElem? hf
        have h1 := encFuelFields_ge hmem
        simp only [GoType.encFuel]
        cases is with
        | nil =>
          simp only [typeAlongZero, Option.some.injEq] at h
          subst h; omega
        | cons j js =>
          have := typeAlongZero_lt (j :: js) f.2 ft (by simp) h
          omega
    | _ => simp [typeAlongZero] at h

/-- no type tree contains itself: the search never meets a type that is on its path -/
theorem zneFrom_false : ∀ (fuel : Nat) (path : List GoType) (t : GoType), (∀ p ∈ path, t.encFuel < p.encFuel) →
    zneFrom fuel path t = false
  | 0, _, _, _ => rfl
  | fuel + 1, path, t, hp => by
    unfold zneFrom
    cases t with
    | ptr e => exact zneFrom_false fuel path e (fun p h => by have := hp p h; simp only [GoType.encFuel] at this; omega)
    | array n e =>
      simp only [Bool.and_eq_false_imp]
      intro _
      exact zneFrom_false fuel path e (fun p h => by have := hp p h; simp only [GoType.encFuel] at this; omega)
    | struct n fields =>
      have hnot : path.any (fun p => p == GoType.struct n fields) = false := by
        rw [List.any_eq_false]
        intro p hpm hbeq
        have h1 := beq_encFuel p (.struct n fields) hbeq
        have h2 := hp p hpm
        omega
      simp only [hnot, Bool.false_eq_true, if_false]
      rw [List.any_eq_false]
      intro fld _
      split
      · simp
      · rename_i i is hidx
        split
        · simp
        · rename_i ft hft
          have hlt := typeAlongZero_lt (i :: is) (.struct n fields) ft (by simp) hft
          have key := zneFrom_false fuel (.struct n fields :: path) ft (fun p h => by
            rcases List.mem_cons.mp h with rfl | h'
            · omega
            · have := hp p h'; omega)
          rw [key]
          simp only [ite_self, Bool.false_eq_true, not_false_eq_true]
    | _ => rfl

/-- **The verdict depends on the type alone, and in this universe it is "no":** for every type `t` (a finite tree;
diamonds — one struct type at several sibling places — included), `zeroNeverEnds t = false`. So a nil pointer always
has a finite encoding here: `getTagType` replaces it by the zero value of its element type. -/
theorem zeroNeverEnds_false (t : GoType) : zeroNeverEnds t = false :=
  zneFrom_false _ [] t (fun _ h => by cases h)

/-- `type Pos struct{ X, Y float64 }; type Box struct{ Min, Max Pos }`: `Pos` occurs twice below `Box` (a diamond in the
type graph) — evaluated, not only by the theorem -/
def pos : GoType := .struct [80, 111, 115] [
  ({ name := [88], anonymous := false, exported := true }, .f64), ({ name := [89], anonymous := false, exported := true }, .f64)]
def box : GoType := .struct [66, 111, 120] [
  ({ name := [77, 105, 110], anonymous := false, exported := true }, pos), ({ name := [77, 97, 120], anonymous := false, exported := true }, pos)]
example : zeroNeverEnds box = false ∧ zeroNeverEnds (.ptr box) = false ∧ zeroNeverEnds (.slice (.ptr box)) = false := by
  refine ⟨by decide, by decide, by decide⟩

end GoMC.Lemmas.NBTZero
