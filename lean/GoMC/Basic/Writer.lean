/-
  GoMC.Basic.Writer — the writer monad for encoder models and the fault-injecting sink of C09.

  `WState.budget = none`   : a sink that never fails (bytes.Buffer)
  `WState.budget = some k` : a sink that accepts `k` more bytes and then fails (short write + error)

  `Wr.write bs` is one `w.Write(bs)` call. `Faithful e` says that `e` propagates sink failures: under a
  budget that covers everything `e` writes it behaves as on the unlimited sink, and under a smaller
  budget it returns an error — never success with a silently truncated output. It is closed under
  `pure`, `bind`, `if` and holds for `write`, so every encoder model built from these gets it by composition.
-/
import GoMC.Basic.Core
namespace GoMC

structure WState where
  out : Bytes
  budget : Option Nat
deriving Repr, DecidableEq

abbrev Wr (α : Type) := WState → Res α × WState

namespace Wr

@[inline] def pure {α} (a : α) : Wr α := fun st => (Res.ok a, st)
@[inline] def bind {α β} (e : Wr α) (f : α → Wr β) : Wr β := fun st =>
  match e st with
  | (Res.ok a, st') => f a st'
  | (Res.err, st') => (Res.err, st')
  | (Res.panic, st') => (Res.panic, st')
instance : Monad Wr where
  pure := Wr.pure
  bind := Wr.bind

def fail {α} : Wr α := fun st => (Res.err, st)
def crash {α} : Wr α := fun st => (Res.panic, st)

/-- one `Write` call; returns the count like Go -/
def write (bs : Bytes) : Wr Nat := fun st =>
  match st.budget with
  | none => (Res.ok bs.length, { st with out := st.out ++ bs })
  | some k =>
    if bs.length ≤ k then (Res.ok bs.length, { out := st.out ++ bs, budget := some (k - bs.length) })
    else (Res.err, { out := st.out ++ bs.take k, budget := some 0 })

/-- run on an unlimited sink: result and bytes written -/
def run {α} (e : Wr α) : Res α × Bytes :=
  let (r, st) := e ⟨[], none⟩
  (r, st.out)

theorem bind_apply {α β} (e : Wr α) (f : α → Wr β) (st : WState) :
    (e >>= f) st = match e st with
      | (Res.ok a, st') => f a st'
      | (Res.err, st') => (Res.err, st')
      | (Res.panic, st') => (Res.panic, st') := rfl
@[simp] theorem pure_apply {α} (a : α) (st : WState) : (Pure.pure a : Wr α) st = (Res.ok a, st) := rfl

/-- `e` never swallows a sink failure. -/
def Faithful {α} (e : Wr α) : Prop :=
  ∀ out : Bytes, ∃ (r : Res α) (bs : Bytes),
    e ⟨out, none⟩ = (r, ⟨out ++ bs, none⟩) ∧
    ∀ k : Nat,
      (bs.length ≤ k → e ⟨out, some k⟩ = (r, ⟨out ++ bs, some (k - bs.length)⟩)) ∧
      (k < bs.length → (e ⟨out, some k⟩).1 = Res.err)

theorem faithful_pure {α} (a : α) : Faithful (Pure.pure a : Wr α) := by
  intro out
  refine ⟨Res.ok a, [], by simp, ?_⟩
  intro k
  constructor
  · intro _; simp
  · intro h; simp at h

theorem faithful_fail {α} : Faithful (fail : Wr α) := by
  intro out
  refine ⟨Res.err, [], by simp [fail], ?_⟩
  intro k
  constructor
  · intro _; simp [fail]
  · intro h; simp at h

theorem faithful_crash {α} : Faithful (crash : Wr α) := by
  intro out
  refine ⟨Res.panic, [], by simp [crash], ?_⟩
  intro k
  constructor
  · intro _; simp [crash]
  · intro h; simp at h

theorem faithful_write (bs : Bytes) : Faithful (write bs) := by
  intro out
  refine ⟨Res.ok bs.length, bs, by simp [write], ?_⟩
  intro k
  constructor
  · intro h; simp [write, h]
  · intro h
    have : ¬ bs.length ≤ k := by omega
    simp [write, this]

theorem faithful_bind {α β} {e : Wr α} {f : α → Wr β}
    (he : Faithful e) (hf : ∀ a, Faithful (f a)) : Faithful (e >>= f) := by
  intro out
  obtain ⟨r, bs1, h0, hk⟩ := he out
  cases r with
  | ok a =>
    obtain ⟨r2, bs2, g0, gk⟩ := hf a (out ++ bs1)
    refine ⟨r2, bs1 ++ bs2, ?_, ?_⟩
    · rw [bind_apply, h0]; simp only; rw [g0, List.append_assoc]
    · intro k
      constructor
      · intro hle
        simp only [List.length_append] at hle
        have h1 := (hk k).1 (by omega)
        have h2 := (gk (k - bs1.length)).1 (by omega)
        rw [bind_apply, h1]; simp only
        rw [h2, List.append_assoc]
        simp only [List.length_append, Nat.sub_sub]
      · intro hlt
        simp only [List.length_append] at hlt
        by_cases hb : bs1.length ≤ k
        · have h1 := (hk k).1 hb
          have h2 := (gk (k - bs1.length)).2 (by omega)
          rw [bind_apply, h1]; simpa using h2
        · have h1 := (hk k).2 (by omega)
          rw [bind_apply]
          rcases hr : e ⟨out, some k⟩ with ⟨r', st'⟩
          rw [hr] at h1
          simp only at h1
          subst h1
          rfl
  | err =>
    refine ⟨Res.err, bs1, ?_, ?_⟩
    · rw [bind_apply, h0]
    · intro k
      constructor
      · intro hle
        rw [bind_apply, (hk k).1 hle]
      · intro hlt
        have h1 := (hk k).2 hlt
        rw [bind_apply]
        rcases hr : e ⟨out, some k⟩ with ⟨r', st'⟩
        rw [hr] at h1
        simp only at h1
        subst h1
        rfl
  | panic =>
    refine ⟨Res.panic, bs1, ?_, ?_⟩
    · rw [bind_apply, h0]
    · intro k
      constructor
      · intro hle
        rw [bind_apply, (hk k).1 hle]
      · intro hlt
        have h1 := (hk k).2 hlt
        rw [bind_apply]
        rcases hr : e ⟨out, some k⟩ with ⟨r', st'⟩
        rw [hr] at h1
        simp only at h1
        subst h1
        rfl

theorem faithful_ite {α} {c : Prop} [Decidable c] {p q : Wr α} (hp : Faithful p) (hq : Faithful q) :
    Faithful (if c then p else q) := by
  split <;> assumption

/-- The consequence C09 states: with a sink that fails before everything is written, the result is an error. -/
theorem fault_is_error {α} {e : Wr α} (he : Faithful e) (r : Res α) (bs : Bytes)
    (hrun : e ⟨[], none⟩ = (r, ⟨bs, none⟩)) (k : Nat) (hk : k < bs.length) :
    (e ⟨[], some k⟩).1 = Res.err := by
  obtain ⟨r', bs', h0, hk'⟩ := he []
  rw [hrun] at h0
  simp only [List.nil_append, Prod.mk.injEq, WState.mk.injEq, and_true] at h0
  obtain ⟨_, rfl⟩ := h0
  exact (hk' k).2 hk

end Wr
end GoMC
