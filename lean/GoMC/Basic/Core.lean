/-
  GoMC.Basic.Core — bytes, outcomes, and the reader (stream) monad shared by every decoder model.

  Conventions (DESIGN §4):
  * `Bytes = List UInt8`.
  * `Res α` is the outcome of a modelled Go call: `ok a` (nil error), `err` (non-nil error),
    `panic` (Go would panic here).
  * `Stream` is how an `io.Reader` delivers its bytes: a list of chunks followed by a tail
    (`failing = false`: io.EOF, `true`: an injected I/O error).  `flat` is the byte content.
  * Standard-library primitives (`io.ReadFull`, `ReadByte` wrappers built on it, `io.ReadAll`,
    `io.CopyN`) are *defined by their documented contract on `flat`*.  Only `readOnce` (a bare
    `Read` call) looks at the chunk structure.
-/
namespace GoMC

abbrev Byte := BitVec 8
abbrev Bytes := List Byte

inductive Res (α : Type) where
  | ok (a : α)
  | err
  | panic
deriving Repr, DecidableEq

namespace Res
def isOk {α} : Res α → Bool
  | ok _ => true
  | _ => false
def map {α β} (f : α → β) : Res α → Res β
  | ok a => ok (f a)
  | err => err
  | panic => panic
def bind {α β} (r : Res α) (f : α → Res β) : Res β :=
  match r with
  | ok a => f a
  | err => err
  | panic => panic
instance : Monad Res where
  pure := ok
  bind := Res.bind
@[simp] theorem bind_ok {α β} (a : α) (f : α → Res β) : (Res.ok a >>= f) = f a := rfl
@[simp] theorem bind_err {α β} (f : α → Res β) : ((Res.err : Res α) >>= f) = Res.err := rfl
@[simp] theorem bind_panic {α β} (f : α → Res β) : ((Res.panic : Res α) >>= f) = Res.panic := rfl
@[simp] theorem pure_eq {α} (a : α) : (pure a : Res α) = Res.ok a := rfl
end Res

/-- How a source delivers its bytes. -/
structure Stream where
  chunks : List Bytes
  failing : Bool := false
deriving Repr, DecidableEq

namespace Stream

def flat (s : Stream) : Bytes := s.chunks.flatten

/-- the one-chunk, EOF-terminated in-memory source (`bytes.Reader`) -/
def ofBytes (bs : Bytes) : Stream := { chunks := if bs.isEmpty then [] else [bs], failing := false }

@[simp] theorem flat_ofBytes (bs : Bytes) : (ofBytes bs).flat = bs := by
  unfold ofBytes flat
  cases bs <;> simp

def dropChunks : Nat → List Bytes → List Bytes
  | _, [] => []
  | n, c :: cs =>
    if n = 0 then c :: cs
    else if n < c.length then (c.drop n) :: cs
    else dropChunks (n - c.length) cs

theorem flatten_dropChunks (n : Nat) (cs : List Bytes) :
    (dropChunks n cs).flatten = cs.flatten.drop n := by
  induction cs generalizing n with
  | nil => simp [dropChunks]
  | cons c cs ih =>
    unfold dropChunks
    by_cases h0 : n = 0
    · simp [h0]
    · simp only [h0, if_false]
      by_cases h1 : n < c.length
      · simp only [h1, if_true, List.flatten_cons]
        rw [List.drop_append_of_le_length (by omega)]
      · simp only [h1, if_false, List.flatten_cons]
        rw [ih]
        rw [List.drop_append]
        have : List.drop n c = [] := List.drop_eq_nil_of_le (by omega)
        simp [this]

/-- discard the first `n` bytes of the content -/
def drop (s : Stream) (n : Nat) : Stream := { s with chunks := dropChunks n s.chunks }

@[simp] theorem flat_drop (s : Stream) (n : Nat) : (s.drop n).flat = s.flat.drop n := by
  simp [drop, flat, flatten_dropChunks]
@[simp] theorem failing_drop (s : Stream) (n : Nat) : (s.drop n).failing = s.failing := rfl

/-- everything consumed -/
def drained (s : Stream) : Stream := { s with chunks := [] }
@[simp] theorem flat_drained (s : Stream) : s.drained.flat = [] := rfl
@[simp] theorem failing_drained (s : Stream) : s.drained.failing = s.failing := rfl

/-- the same source with `extra` delivered after the present content (as one more chunk) and a new tail -/
def extend (s : Stream) (extra : Bytes) (failing' : Bool) : Stream :=
  { chunks := s.chunks ++ (if extra.isEmpty then [] else [extra]), failing := failing' }
@[simp] theorem flat_extend (s : Stream) (e : Bytes) (f : Bool) : (s.extend e f).flat = s.flat ++ e := by
  unfold extend flat
  cases e <;> simp

/-- two deliveries of the same bytes with the same tail -/
def Equiv (s t : Stream) : Prop := s.flat = t.flat ∧ s.failing = t.failing

theorem Equiv.refl (s : Stream) : Equiv s s := ⟨rfl, rfl⟩
theorem Equiv.symm {s t : Stream} (h : Equiv s t) : Equiv t s := ⟨h.1.symm, h.2.symm⟩
theorem Equiv.trans {s t u : Stream} (h : Equiv s t) (h' : Equiv t u) : Equiv s u :=
  ⟨h.1.trans h'.1, h.2.trans h'.2⟩
theorem Equiv.drop {s t : Stream} (h : Equiv s t) (n : Nat) : Equiv (s.drop n) (t.drop n) := by
  constructor
  · simp [h.1]
  · simpa using h.2
theorem Equiv.drained {s t : Stream} (h : Equiv s t) : Equiv s.drained t.drained :=
  ⟨rfl, h.2⟩

end Stream

/-- A modelled Go function that reads from an `io.Reader`. -/
abbrev Rd (α : Type) := Stream → Res α × Stream

namespace Rd

@[inline] def pure {α} (a : α) : Rd α := fun s => (Res.ok a, s)
@[inline] def bind {α β} (p : Rd α) (f : α → Rd β) : Rd β := fun s =>
  match p s with
  | (Res.ok a, s') => f a s'
  | (Res.err, s') => (Res.err, s')
  | (Res.panic, s') => (Res.panic, s')
instance : Monad Rd where
  pure := Rd.pure
  bind := Rd.bind

/-- return a non-nil error -/
def fail {α} : Rd α := fun s => (Res.err, s)
/-- Go panics here -/
def crash {α} : Rd α := fun s => (Res.panic, s)

/-- `io.ReadFull(r, buf)` with `len(buf) = n`: all `n` bytes or an error (everything available consumed). -/
def readFull (n : Nat) : Rd Bytes := fun s =>
  if n ≤ s.flat.length then (Res.ok (s.flat.take n), s.drop n)
  else (Res.err, s.drained)

/-- One byte through an `io.ByteReader`, or through a wrapper built on `io.ReadFull`. -/
def readByte : Rd Byte := fun s =>
  match s.flat with
  | [] => (Res.err, s.drained)
  | b :: _ => (Res.ok b, s.drop 1)

/-- `io.ReadAll`: the rest of the content; an error iff the source ends with an injected failure. -/
def readAll : Rd Bytes := fun s =>
  if s.failing then (Res.err, s.drained) else (Res.ok s.flat, s.drained)

/-- A bare `r.Read(buf)` with `len(buf) = n > 0`: whatever the next chunk holds, up to `n` bytes. This
is the only primitive that observes how the source fragments its bytes. Returns the bytes read
(possibly fewer than `n`); at end of input it is an error. -/
def readOnce (n : Nat) : Rd Bytes := fun s =>
  match s.chunks with
  | [] => (Res.err, s)
  | c :: cs =>
    if n < c.length then (Res.ok (c.take n), { s with chunks := c.drop n :: cs })
    else (Res.ok c, { s with chunks := cs })

/-- run a reader on an in-memory byte string; result and the bytes left unread -/
def run {α} (p : Rd α) (bs : Bytes) : Res α × Bytes :=
  let (r, s) := p (Stream.ofBytes bs)
  (r, s.flat)

@[simp] theorem pure_apply {α} (a : α) (s : Stream) : (Pure.pure a : Rd α) s = (Res.ok a, s) := rfl
theorem bind_apply {α β} (p : Rd α) (f : α → Rd β) (s : Stream) :
    (p >>= f) s = match p s with
      | (Res.ok a, s') => f a s'
      | (Res.err, s') => (Res.err, s')
      | (Res.panic, s') => (Res.panic, s') := rfl

theorem bind_ok {α β} {p : Rd α} {f : α → Rd β} {s s' : Stream} {a : α}
    (h : p s = (Res.ok a, s')) : (p >>= f) s = f a s' := by
  rw [bind_apply, h]
theorem bind_err {α β} {p : Rd α} {f : α → Rd β} {s s' : Stream}
    (h : p s = (Res.err, s')) : (p >>= f) s = (Res.err, s') := by
  rw [bind_apply, h]
theorem bind_panic {α β} {p : Rd α} {f : α → Rd β} {s s' : Stream}
    (h : p s = (Res.panic, s')) : (p >>= f) s = (Res.panic, s') := by
  rw [bind_apply, h]

/-! ### Fragmentation invariance (DESIGN §4, `frag_invariant`) -/

/-- `p` cannot tell two deliveries of the same bytes apart: same result, equivalent residual. -/
def FragInv {α} (p : Rd α) : Prop :=
  ∀ s t : Stream, Stream.Equiv s t → (p s).1 = (p t).1 ∧ Stream.Equiv (p s).2 (p t).2

theorem fragInv_pure {α} (a : α) : FragInv (Pure.pure a : Rd α) := by
  intro s t h; exact ⟨rfl, h⟩
theorem fragInv_fail {α} : FragInv (fail : Rd α) := by
  intro s t h; exact ⟨rfl, h⟩
theorem fragInv_crash {α} : FragInv (crash : Rd α) := by
  intro s t h; exact ⟨rfl, h⟩

theorem fragInv_bind {α β} {p : Rd α} {f : α → Rd β}
    (hp : FragInv p) (hf : ∀ a, FragInv (f a)) : FragInv (p >>= f) := by
  intro s t h
  have := hp s t h
  rw [bind_apply, bind_apply]
  rcases hps : p s with ⟨r, s'⟩
  rcases hpt : p t with ⟨r', t'⟩
  rw [hps, hpt] at this
  simp only at this
  obtain ⟨hr, he⟩ := this
  subst hr
  cases r with
  | ok a => exact hf a s' t' he
  | err => exact ⟨rfl, he⟩
  | panic => exact ⟨rfl, he⟩

theorem fragInv_readFull (n : Nat) : FragInv (readFull n) := by
  intro s t h
  unfold readFull
  rw [h.1]
  split
  · refine ⟨rfl, ?_⟩
    exact h.drop n
  · exact ⟨rfl, h.drained⟩

theorem fragInv_readByte : FragInv readByte := by
  intro s t h
  unfold readByte
  rw [h.1]
  split
  · exact ⟨rfl, h.drained⟩
  · exact ⟨rfl, h.drop 1⟩

theorem fragInv_readAll : FragInv readAll := by
  intro s t h
  unfold readAll
  rw [h.2, h.1]
  split
  · exact ⟨rfl, h.drained⟩
  · exact ⟨rfl, h.drained⟩

theorem fragInv_ite {α} {c : Prop} [Decidable c] {p q : Rd α} (hp : FragInv p) (hq : FragInv q) :
    FragInv (if c then p else q) := by
  split <;> assumption

/-- `readOnce` is *not* fragmentation invariant: the witness behind every C09 defect. -/
theorem readOnce_not_fragInv : ¬ FragInv (readOnce 2) := by
  intro h
  have := h { chunks := [[1, 2]] } { chunks := [[1], [2]] } ⟨rfl, rfl⟩
  simp [readOnce] at this

/-! ### Extension stability and prefix failure (`extension_stable`, `prefix_fails`) -/

/-- A successful run never depends on what lies beyond the bytes it consumed: on any source whose
content extends `s`'s content by `extra`, `p` succeeds with the same value and leaves `extra` more. -/
def ExtStable {α} (p : Rd α) : Prop :=
  ∀ (s : Stream) (a : α) (s' : Stream), p s = (Res.ok a, s') →
    ∀ (t : Stream) (extra : Bytes), t.flat = s.flat ++ extra →
      ∃ t', p t = (Res.ok a, t') ∧ t'.flat = s'.flat ++ extra ∧ t'.failing = t.failing

theorem extStable_pure {α} (a : α) : ExtStable (Pure.pure a : Rd α) := by
  intro s b s' h t extra ht
  simp only [pure_apply, Prod.mk.injEq, Res.ok.injEq] at h
  obtain ⟨rfl, rfl⟩ := h
  exact ⟨t, rfl, ht, rfl⟩

theorem extStable_fail {α} : ExtStable (fail : Rd α) := by
  intro s b s' h; simp [fail] at h
theorem extStable_crash {α} : ExtStable (crash : Rd α) := by
  intro s b s' h; simp [crash] at h

theorem extStable_bind {α β} {p : Rd α} {f : α → Rd β}
    (hp : ExtStable p) (hf : ∀ a, ExtStable (f a)) : ExtStable (p >>= f) := by
  intro s b s'' h t extra ht
  rw [bind_apply] at h
  rcases hps : p s with ⟨r, s'⟩
  rw [hps] at h
  cases r with
  | ok a =>
    simp only at h
    obtain ⟨t', hpt, hflat, hfail⟩ := hp s a s' hps t extra ht
    obtain ⟨t'', hft, hflat', hfail'⟩ := hf a s' b s'' h t' extra hflat
    refine ⟨t'', ?_, hflat', hfail'.trans hfail⟩
    rw [bind_apply, hpt]; exact hft
  | err => simp at h
  | panic => simp at h

theorem extStable_ite {α} {c : Prop} [Decidable c] {p q : Rd α} (hp : ExtStable p) (hq : ExtStable q) :
    ExtStable (if c then p else q) := by
  split <;> assumption

theorem extStable_readFull (n : Nat) : ExtStable (readFull n) := by
  intro s a s' h t extra ht
  unfold readFull at h ⊢
  split at h
  · rename_i hn
    simp only [Prod.mk.injEq, Res.ok.injEq] at h
    obtain ⟨rfl, rfl⟩ := h
    have : n ≤ t.flat.length := by rw [ht]; simp; omega
    simp only [this, if_true]
    refine ⟨t.drop n, ?_, ?_, rfl⟩
    · rw [ht, List.take_append_of_le_length hn]
    · rw [Stream.flat_drop, Stream.flat_drop, ht, List.drop_append_of_le_length hn]
  · simp at h

theorem extStable_readByte : ExtStable readByte := by
  intro s a s' h t extra ht
  unfold readByte at h ⊢
  split at h
  · simp at h
  · rename_i b bs hb
    simp only [Prod.mk.injEq, Res.ok.injEq] at h
    obtain ⟨rfl, rfl⟩ := h
    rw [hb] at ht
    simp only [List.cons_append] at ht
    rw [ht]
    refine ⟨_, rfl, ?_, rfl⟩
    simp [ht, hb]

/-- `prefix_fails`: if `p` consumes exactly `enc` from a source holding `enc ++ rest`, then on any source
holding only a strict prefix of `enc`, `p` does not succeed. -/
theorem prefix_fails {α} {p : Rd α} (hp : ExtStable p)
    {s : Stream} {a : α} {s' : Stream} {pre more rest : Bytes}
    (hs : s.flat = pre ++ more ++ rest) (hrun : p s = (Res.ok a, s')) (hres : s'.flat = rest)
    (hmore : more ≠ []) (t : Stream) (ht : t.flat = pre) : ∀ b, (p t).1 ≠ Res.ok b := by
  intro b hb
  rcases hpt : p t with ⟨r, t'⟩
  rw [hpt] at hb
  simp only at hb
  subst hb
  obtain ⟨s'', hps, hflat, _⟩ := hp t b t' hpt s (more ++ rest) (by rw [hs, ht, List.append_assoc])
  rw [hrun] at hps
  simp only [Prod.mk.injEq, Res.ok.injEq] at hps
  obtain ⟨_, rfl⟩ := hps
  rw [hres] at hflat
  have := congrArg List.length hflat
  simp at this
  have : more.length = 0 := by omega
  exact hmore (List.length_eq_zero_iff.mp this)

end Rd

end GoMC
