import GoMC.Props.C13
#print axioms GoMC.Props.C13.C13_count_step
#print axioms GoMC.Props.C13.C13_count_no_wrap
#print axioms GoMC.Props.C13.C13_count
#print axioms GoMC.Props.C13.C13_count_empty
#print axioms GoMC.Props.C13.C13_count_from_save
#print axioms GoMC.Props.C13.C13_packXZ_bridge
#print axioms GoMC.Props.C13.C13_packXZ_reject
#print axioms GoMC.Props.C13.C13_packXZ_reject_keeps
#print axioms GoMC.Props.C13.C13_packXZ_roundtrip
#print axioms GoMC.Props.C13.C13_unpackXZ_pack
