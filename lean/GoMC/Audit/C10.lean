import GoMC.Props.C10
#print axioms GoMC.Props.C10.C10_tempPos
#print axioms GoMC.Props.C10.C10_tempPos_mod
#print axioms GoMC.Props.C10.C10_inv_new
#print axioms GoMC.Props.C10.C10_inv
#print axioms GoMC.Props.C10.C10_call
#print axioms GoMC.Props.C10.C10_call_short
#print axioms GoMC.Props.C10.C10_any_split_from
#print axioms GoMC.Props.C10.C10_any_split
#print axioms GoMC.Props.C10.C10_split_independent
#print axioms GoMC.Props.C10.C10_dec_enc
#print axioms GoMC.Props.C10.C10_dec_enc_impl
#print axioms GoMC.Props.C10.C10_stream_transparent
#print axioms GoMC.Props.C10.C10_conn_transparent
#print axioms GoMC.Props.C10.C10_switch_transparent
#print axioms GoMC.Props.C10.C10_switch_readahead_loses
#print axioms GoMC.Props.C10.C10_hist_delivered
#print axioms GoMC.Props.C10.C10_hist_independent
