import GoMC.Props.C18
#print axioms GoMC.Props.C18.C18_gen_byte6
#print axioms GoMC.Props.C18.C18_gen_byte8
#print axioms GoMC.Props.C18.C18_mask_version
#print axioms GoMC.Props.C18.C18_mask_variant
#print axioms GoMC.Props.C18.C18_prefix_text
#print axioms GoMC.Props.C18.C18_uuid
#print axioms GoMC.Props.C18.C18_twos
#print axioms GoMC.Props.C18.C18_digest_chars
#print axioms GoMC.Props.C18.C18_digest
#print axioms GoMC.Props.C18.C18_digest_zero
#print axioms GoMC.Props.C18.C18_sides_agree
#print axioms GoMC.Props.C18.C18_pem_text
#print axioms GoMC.Props.C18.C18_pem_injective
#print axioms GoMC.Props.C18.C18_verify_eq
#print axioms GoMC.Props.C18.C18_verify_sound
#print axioms GoMC.Props.C18.C18_pubkey_verify_sound
