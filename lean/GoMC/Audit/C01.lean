import GoMC.Props.C01
#print axioms GoMC.Props.C01.C01_const_tags
#print axioms GoMC.Props.C01.C01_spec_parse_enc
#print axioms GoMC.Props.C01.C01_spec_unambiguous
#print axioms GoMC.Props.C01.C01_decode_any
#print axioms GoMC.Props.C01.C01_decode_map
#print axioms GoMC.Props.C01.C01_skip_exact
#print axioms GoMC.Props.C01.C01_decode_skip
#print axioms GoMC.Props.C01.C01_decode_raw
#print axioms GoMC.Props.C01.C01_no_overread
#print axioms GoMC.Props.C01.C01_encode_conforms_partial
#print axioms GoMC.Props.C01.C01_encode_conforms_value_partial
#print axioms GoMC.Props.C01.C01_decode_typed_partial
#print axioms GoMC.Props.C01.C01_marshal_history_conforms_partial
#print axioms GoMC.Props.C01.C01_encoder_history_conforms_partial
