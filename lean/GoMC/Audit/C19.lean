import GoMC.Props.C19
#print axioms GoMC.Props.C19.C19_ids
#print axioms GoMC.Props.C19.C19_dispatch_order
#print axioms GoMC.Props.C19.C19_dispatch_outside
#print axioms GoMC.Props.C19.C19_order_is_mergeSort
#print axioms GoMC.Props.C19.C19_bundle
#print axioms GoMC.Props.C19.C19_bundle_unterminated
#print axioms GoMC.Props.C19.C19_bundle_limit
#print axioms GoMC.Props.C19.C19_game_loop
#print axioms GoMC.Props.C19.C19_bundle_in_order
#print axioms GoMC.Props.C19.C19_join
#print axioms GoMC.Props.C19.C19_join_any_schedule
#print axioms GoMC.Props.C19.C19_join_refused
#print axioms GoMC.Props.C19.C19_status
#print axioms GoMC.Props.C19.C19_play_fifo
#print axioms GoMC.Props.C19.C19_play_sent
