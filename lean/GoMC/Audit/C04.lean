import GoMC.Props.C04
#print axioms GoMC.Props.C04.C04_opcodes
#print axioms GoMC.Props.C04.C04_depth_cond
#print axioms GoMC.Props.C04.C04_byte_classes
#print axioms GoMC.Props.C04.C04_int_roundtrip
#print axioms GoMC.Props.C04.C04_escape
#print axioms GoMC.Props.C04.C04_escape_quoted
#print axioms GoMC.Props.C04.C04_walker_total
#print axioms GoMC.Props.C04.C04_rawString_total
#print axioms GoMC.Props.C04.C04_walker_consumes
#print axioms GoMC.Props.C04.C04_walker_unknown_tag
#print axioms GoMC.Props.C04.C04_scanner_stack_safe
