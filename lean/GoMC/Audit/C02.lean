import GoMC.Props.C02
#print axioms GoMC.Props.C02.C02_encode_no_panic
#print axioms GoMC.Props.C02.C02_encode_nil
#print axioms GoMC.Props.C02.C02_raw_exact_root
#print axioms GoMC.Props.C02.C02_raw_exact_field
#print axioms GoMC.Props.C02.C02_raw_exact_map
#print axioms GoMC.Props.C02.C02_raw_exact_list
#print axioms GoMC.Props.C02.C02_dyn_exact_root
#print axioms GoMC.Props.C02.C02_dyn_exact_field
#print axioms GoMC.Props.C02.C02_dyn_exact_map
#print axioms GoMC.Props.C02.C02_dyn_exact_list
#print axioms GoMC.Props.C02.C02_field_read_no_panic
#print axioms GoMC.Props.C02.C02_field_write_no_panic
#print axioms GoMC.Props.C02.C02_field_read_fragInv
#print axioms GoMC.Props.C02.C02_field_read_count
#print axioms GoMC.Props.C02.C02_field_roundtrip
#print axioms GoMC.Props.C02.C02_roundtrip_partial
#print axioms GoMC.Props.C02.C02_field_roundtrip_plain
