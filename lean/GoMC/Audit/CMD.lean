import GoMC.Props.CMD
#print axioms GoMC.Props.CMD.reach_inv
#print axioms GoMC.Props.CMD.CMD_total
#print axioms GoMC.Props.CMD.CMD_progress
#print axioms GoMC.Props.CMD.CMD_fuel
#print axioms GoMC.Props.CMD.CMD_fuel_Execute
#print axioms GoMC.Props.CMD.CMD_ran_handler
#print axioms GoMC.Props.CMD.CMD_witness_prefix_bug
