import GoMC.Props.C12
#print axioms GoMC.Props.C12.C12_gen_states_bits
#print axioms GoMC.Props.C12.C12_gen_biomes_bits
#print axioms GoMC.Props.C12.C12_new
#print axioms GoMC.Props.C12.C12_get
#print axioms GoMC.Props.C12.C12_set_refines
#print axioms GoMC.Props.C12.C12_set_fuel
#print axioms GoMC.Props.C12.C12_history
#print axioms GoMC.Props.C12.C12_wire_conformant
#print axioms GoMC.Props.C12.C12_wire_roundtrip
#print axioms GoMC.Props.C12.C12_readFrom_total
#print axioms GoMC.Props.C12.C12_readFrom_fragInv
#print axioms GoMC.Props.C12.C12_readFrom_extStable
#print axioms GoMC.Props.C12.C12_reload_independent
#print axioms GoMC.Props.C12.C12_containers_independent
#print axioms GoMC.Props.C12.C12_with_data
#print axioms GoMC.Props.C12.C12_with_data_single
#print axioms GoMC.Props.C12.C12_with_data_direct
