import GoMC.Props.C15
#print axioms GoMC.Props.C15.C15_footprint
#print axioms GoMC.Props.C15.C15_isolation
#print axioms GoMC.Props.C15.C15_reads_do_not_interfere
#print axioms GoMC.Props.C15.C15_isolation_any_order
#print axioms GoMC.Props.C15.C15_history
#print axioms GoMC.Props.C15.C15_history_any_order
#print axioms GoMC.Props.C15.C15_writes_are_the_write
#print axioms GoMC.Props.C15.C15_no_crash_image
#print axioms GoMC.Props.C15.C15_crash_between_writes
