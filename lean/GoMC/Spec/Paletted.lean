/-
  Spec: the protocol's "Paletted Container" (wiki.vg, Chunk Format), written from the format description and
  independent of the Go code and of its model.  A reader, because the property judges the emitted bytes
  "by an independent decoder".

    Bits Per Entry   Unsigned Byte
    Palette          depends on Bits Per Entry and on what the container holds:
        block states:  0        single valued:  the value as a VarInt
                       1 … 4    indirect, entries of 4 bits:    VarInt count (at most 2^width: an entry cannot
                                name more), then that many VarInts
                       5 … 8    indirect, entries of that width: VarInt count, then that many VarInts
                       ≥ 9      direct: no palette, entries are registry ids of ⌈log2(#states)⌉ bits
        biomes:        0        single valued
                       1 … 3    indirect, entries of that width
                       ≥ 4      direct: no palette, entries of ⌈log2(#biomes)⌉ bits
    Data Array Length  VarInt (number of longs)
    Data Array         that many big-endian longs: the compacted data array of `Spec/Packing.lean`
                       (entries never span longs); empty for a single valued container — a reader skips
                       whatever is announced there

  Entry `i` of the container is the palette value at the `i`-th index (indirect), the `i`-th id itself
  (direct), or the single value.  `gb` is the registry width (15 for block states of this data version, 6
  for biomes), `n` the number of entries (4096 / 64).
-/
import GoMC.Basic.Core
import GoMC.Spec.LEB128
import GoMC.Spec.Packing
namespace GoMC.Spec

inductive PKind where
  | blocks | biomes
deriving Repr, DecidableEq

inductive Layout where
  | single
  | indirect (w : Nat)
  | direct (w : Nat)
deriving Repr, DecidableEq

def layout (k : PKind) (gb bpe : Nat) : Layout :=
  match k with
  | .blocks => if bpe = 0 then .single else if bpe ≤ 4 then .indirect 4 else if bpe ≤ 8 then .indirect bpe else .direct gb
  | .biomes => if bpe = 0 then .single else if bpe ≤ 3 then .indirect bpe else .direct gb

/-- a VarInt: the minimal LEB128 encoding of a 32-bit pattern, read as a two's complement int32 -/
def varInt32 (bs : Bytes) : Option (Int × Bytes) :=
  match unleb bs with
  | some (n, r) =>
    if n < 2 ^ 32 ∧ (leb n).length + r.length = bs.length then
      some (if n < 2 ^ 31 then (n : Int) else (n : Int) - 2 ^ 32, r)
    else none
  | none => none

/-- `k` VarInts -/
def varInts : Nat → Bytes → Option (List Int × Bytes)
  | 0, bs => some ([], bs)
  | k + 1, bs =>
    match varInt32 bs with
    | some (v, r) =>
      match varInts k r with
      | some (vs, r') => some (v :: vs, r')
      | none => none
    | none => none

/-- one big-endian long -/
def long (bs : Bytes) : Option (BitVec 64 × Bytes) :=
  if 8 ≤ bs.length then some (BitVec.ofNat 64 ((bs.take 8).foldl (fun acc b => 256 * acc + b.toNat) 0), bs.drop 8)
  else none

/-- `k` longs -/
def longs : Nat → Bytes → Option (List (BitVec 64) × Bytes)
  | 0, bs => some ([], bs)
  | k + 1, bs =>
    match long bs with
    | some (v, r) =>
      match longs k r with
      | some (vs, r') => some (v :: vs, r')
      | none => none
    | none => none

/-- the data array: VarInt count, then the longs -/
def dataArray (bs : Bytes) : Option (List (BitVec 64) × Bytes) :=
  match varInt32 bs with
  | some (cnt, r) => if cnt < 0 then none else longs cnt.toNat r
  | none => none

/-- the `n` entries of a paletted container and the bytes after it -/
def readPaletted (k : PKind) (gb n : Nat) (bs : Bytes) : Option (List Int × Bytes) :=
  match bs with
  | [] => none
  | b :: rest =>
    match layout k gb b.toNat with
    | .single =>
      match varInt32 rest with
      | some (v, r1) =>
        match dataArray r1 with
        | some (_, r2) => some (List.replicate n v, r2)
        | none => none
      | none => none
    | .indirect w =>
      match varInt32 rest with
      | some (cnt, r1) =>
        if cnt < 0 ∨ cnt > 2 ^ w then none else
        match varInts cnt.toNat r1 with
        | some (pal, r2) =>
          match dataArray r2 with
          | some (ls, r3) =>
            if ls.length = size w n ∧ (unpack w n ls).all (· < pal.length) then
              some ((unpack w n ls).map fun i => pal.getD i 0, r3)
            else none
          | none => none
        | none => none
      | none => none
    | .direct w =>
      match dataArray rest with
      | some (ls, r1) =>
        if ls.length = size w n then some ((unpack w n ls).map fun (i : Nat) => (i : Int), r1) else none
      | none => none

/-- the width the save format (Anvil `block_states` / `biomes`) uses for the indices of a palette of `len ≥ 2`
entries: ⌈log2 len⌉, at least 4 for block states; a palette of one entry has no data -/
def ceilLog2 : Nat → Nat
  | 0 => 0
  | 1 => 0
  | n + 2 => Nat.log2 (n + 1) + 1

def saveWidth (k : PKind) (len : Nat) : Nat :=
  match k with
  | .blocks => max 4 (ceilLog2 len)
  | .biomes => ceilLog2 len

/-- the entries of a saved palette + data pair (`none`: ill-formed: wrong number of longs, index outside the
palette, empty palette) -/
def readSaved (k : PKind) (n : Nat) (pal : List Int) (data : List (BitVec 64)) : Option (List Int) :=
  match pal with
  | [] => none
  | [v] => some (List.replicate n v)
  | _ =>
    let w := saveWidth k pal.length
    if data.length = size w n ∧ (unpack w n data).all (· < pal.length) then
      some ((unpack w n data).map fun i => pal.getD i 0)
    else none

end GoMC.Spec
