/-
  Spec: the "compacted data array" of the Minecraft chunk format since 1.16 (wiki.vg, Chunk Format,
  "Compacted data array"), written from the format description and independent of the Go code:

  * every entry occupies `b` bits (`b` = bits per entry);
  * a long holds `⌊64 / b⌋` entries, the first entry in the least significant bits, the next one directly
    above it, and so on; an entry never spans two longs: the `64 mod b` most significant bits of every
    long are padding (zero when written by the game);
  * entry `i` therefore lives in long `i / ⌊64/b⌋` at bit offset `(i mod ⌊64/b⌋) · b`;
  * `n` entries need `⌈n / ⌊64/b⌋⌉` longs.
-/
import GoMC.Basic.Core
namespace GoMC.Spec

/-- entries per long -/
def vpl (b : Nat) : Nat := 64 / b

/-- number of longs holding `n` entries of `b` bits: `⌈n / vpl b⌉` (0 for `b = 0`: nothing is stored) -/
def size (b n : Nat) : Nat :=
  if b = 0 then 0 else n / vpl b + (if n % vpl b = 0 then 0 else 1)

/-- entry `i` of a data array -/
def entry (b : Nat) (longs : List (BitVec 64)) (i : Nat) : Nat :=
  (longs.getD (i / vpl b) 0#64).toNat / 2 ^ ((i % vpl b) * b) % 2 ^ b

/-- the `n` entries of a data array -/
def unpack (b n : Nat) (longs : List (BitVec 64)) : List Nat :=
  (List.range n).map (entry b longs)

/-- one long: the entries as base-`2^b` digits, least significant first -/
def packLong (b : Nat) : List Nat → Nat
  | [] => 0
  | v :: vs => v + 2 ^ b * packLong b vs

/-- the data array of a list of entries: consecutive groups of `vpl b` entries, one long per group,
padding and the unused entries of the last long zero -/
def pack (b : Nat) (vals : List Nat) : List (BitVec 64) :=
  (List.range (size b vals.length)).map fun c =>
    BitVec.ofNat 64 (packLong b ((vals.drop (c * vpl b)).take (vpl b)))

/-- the wire form of a data array: big-endian 8-byte longs -/
def beLong (v : BitVec 64) : Bytes :=
  [BitVec.ofNat 8 (v.toNat / 2 ^ 56), BitVec.ofNat 8 (v.toNat / 2 ^ 48), BitVec.ofNat 8 (v.toNat / 2 ^ 40),
   BitVec.ofNat 8 (v.toNat / 2 ^ 32), BitVec.ofNat 8 (v.toNat / 2 ^ 24), BitVec.ofNat 8 (v.toNat / 2 ^ 16),
   BitVec.ofNat 8 (v.toNat / 2 ^ 8), BitVec.ofNat 8 v.toNat]

def beLongs (vs : List (BitVec 64)) : Bytes := vs.flatMap beLong

/-! ### Spec sanity -/

@[simp] theorem pack_length (b : Nat) (vals : List Nat) : (pack b vals).length = size b vals.length := by
  simp [pack]

@[simp] theorem unpack_length (b n : Nat) (longs : List (BitVec 64)) : (unpack b n longs).length = n := by
  simp [unpack]

theorem vpl_pos {b : Nat} (h1 : 1 ≤ b) (h64 : b ≤ 64) : 0 < vpl b :=
  Nat.div_pos h64 (by omega)

theorem vpl_mul_le (b : Nat) : vpl b * b ≤ 64 := Nat.div_mul_le_self 64 b

/-- `size` is the ceiling: the least number of longs with room for `n` entries -/
theorem size_spec {b : Nat} (h1 : 1 ≤ b) (h64 : b ≤ 64) (n : Nat) :
    n ≤ size b n * vpl b ∧ (size b n = 0 ∨ (size b n - 1) * vpl b < n) := by
  have hv := vpl_pos h1 h64
  have hb : b ≠ 0 := by omega
  have hdm := Nat.div_add_mod n (vpl b)
  have hlt := Nat.mod_lt n hv
  unfold size
  simp only [hb, if_false]
  generalize hq : n / vpl b = q at *
  generalize hr : n % vpl b = r at *
  generalize hV : vpl b = V at *
  by_cases hm : r = 0
  · simp only [hm, if_true, Nat.add_zero]
    subst hm
    constructor
    · rw [Nat.mul_comm]; omega
    · by_cases h0 : q = 0
      · exact Or.inl h0
      · right
        obtain ⟨q', rfl⟩ : ∃ q', q = q' + 1 := ⟨q - 1, by omega⟩
        rw [Nat.mul_succ] at hdm
        rw [Nat.add_sub_cancel, Nat.mul_comm]
        omega
  · simp only [hm, if_false]
    constructor
    · rw [Nat.add_mul, Nat.one_mul, Nat.mul_comm]; omega
    · right
      rw [Nat.add_sub_cancel, Nat.mul_comm]
      omega

/-- digits of a packed long are below the base -/
theorem packLong_lt (b : Nat) (ds : List Nat) (h : ∀ v ∈ ds, v < 2 ^ b) :
    packLong b ds < 2 ^ (b * ds.length) := by
  induction ds with
  | nil => simp [packLong]
  | cons v vs ih =>
    have hv := h v (by simp)
    have := ih (fun x hx => h x (by simp [hx]))
    simp only [packLong, List.length_cons, Nat.mul_succ, Nat.pow_add]
    have h2 : 2 ^ b * (packLong b vs + 1) ≤ 2 ^ b * 2 ^ (b * vs.length) := Nat.mul_le_mul_left _ this
    rw [Nat.mul_add, Nat.mul_one] at h2
    rw [Nat.mul_comm (2 ^ (b * vs.length))]
    omega

/-- digit `j` of a packed long is the `j`-th entry -/
theorem packLong_digit (b : Nat) (ds : List Nat) (h : ∀ v ∈ ds, v < 2 ^ b) (j : Nat) (hj : j < ds.length) :
    packLong b ds / 2 ^ (j * b) % 2 ^ b = ds[j] := by
  induction ds generalizing j with
  | nil => simp at hj
  | cons v vs ih =>
    have hv := h v (by simp)
    have hp : 0 < 2 ^ b := Nat.two_pow_pos b
    cases j with
    | zero =>
      simp only [packLong, Nat.zero_mul, Nat.pow_zero, Nat.div_one, List.getElem_cons_zero]
      rw [Nat.add_mul_mod_self_left, Nat.mod_eq_of_lt hv]
    | succ j =>
      simp only [packLong, List.getElem_cons_succ]
      rw [Nat.succ_mul, Nat.add_comm (j * b) b, Nat.pow_add, ← Nat.div_div_eq_div_mul]
      rw [Nat.add_mul_div_left _ _ hp, Nat.div_eq_of_lt hv, Nat.zero_add]
      exact ih (fun x hx => h x (by simp [hx])) j (by simpa using hj)

/-- reading back the data array of a list of `b`-bit entries returns the list -/
theorem unpack_pack {b : Nat} (h1 : 1 ≤ b) (h64 : b ≤ 64) (vals : List Nat) (h : ∀ v ∈ vals, v < 2 ^ b) :
    unpack b vals.length (pack b vals) = vals := by
  have hv := vpl_pos h1 h64
  apply List.ext_getElem
  · simp
  · intro i h1' h2'
    simp only [unpack, List.getElem_map, List.getElem_range]
    unfold entry
    have hi : i < vals.length := h2'
    have hdm := Nat.div_add_mod i (vpl b)
    have hml := Nat.mod_lt i hv
    obtain ⟨hs1, hs2⟩ := size_spec h1 h64 vals.length
    have hc : i / vpl b < size b vals.length := by
      have h3 : i / vpl b * vpl b ≤ i := Nat.div_mul_le_self i (vpl b)
      apply Nat.lt_of_mul_lt_mul_right (a := vpl b)
      omega
    have hget : (pack b vals).getD (i / vpl b) 0#64 =
        BitVec.ofNat 64 (packLong b ((vals.drop (i / vpl b * vpl b)).take (vpl b))) := by
      rw [List.getD_eq_getElem?_getD, List.getElem?_eq_getElem (by simpa using hc)]
      simp [pack]
    rw [hget]
    let ds := (vals.drop (i / vpl b * vpl b)).take (vpl b)
    have hds : ∀ v ∈ ds, v < 2 ^ b := fun v hv' => h v (List.mem_of_mem_drop (List.mem_of_mem_take hv'))
    have hlen : ds.length ≤ vpl b := by simp [ds]; omega
    have hjl : i % vpl b < ds.length := by
      simp only [ds, List.length_take, List.length_drop]
      rw [Nat.mul_comm] ; omega
    have hlt : packLong b ds < 2 ^ 64 := by
      have h4 := packLong_lt b ds hds
      have h5 : b * ds.length ≤ 64 := by
        have := vpl_mul_le b
        calc b * ds.length ≤ b * vpl b := Nat.mul_le_mul_left _ hlen
          _ = vpl b * b := Nat.mul_comm _ _
          _ ≤ 64 := this
      exact Nat.lt_of_lt_of_le h4 (Nat.pow_le_pow_right (by omega) h5)
    show (BitVec.ofNat 64 (packLong b ds)).toNat / 2 ^ (i % vpl b * b) % 2 ^ b = vals[i]
    rw [BitVec.toNat_ofNat, Nat.mod_eq_of_lt hlt, packLong_digit b ds hds _ hjl]
    simp only [ds, List.getElem_take, List.getElem_drop]
    congr 1
    rw [Nat.mul_comm]; omega

/-- with zero bits per entry nothing is stored and every entry reads 0 -/
theorem unpack_zero (n : Nat) (longs : List (BitVec 64)) : unpack 0 n longs = List.replicate n 0 := by
  apply List.ext_getElem
  · simp
  · intro i _ _
    simp [unpack, entry, Nat.mod_one]


/-! ### what "an array of `n` unsigned `b`-bit integers" means (the reference the storage must refine)

Indices and values arrive as (possibly negative) integers; an out-of-range index or value is refused
(`panic`) and leaves the array as it was. -/

inductive ArrOp where
  | get (i : Int)
  | set (i v : Int)
  | swap (i v : Int)
deriving Repr, DecidableEq

def arrInRange (b : Nat) (xs : List Nat) (i v : Int) : Prop :=
  0 ≤ v ∧ v < 2 ^ b ∧ 0 ≤ i ∧ i < xs.length

instance (b : Nat) (xs : List Nat) (i v : Int) : Decidable (arrInRange b xs i v) := by
  unfold arrInRange; infer_instance

/-- one operation on the reference array: what is returned (`none` for Set), and the array afterwards -/
def arrStep (b : Nat) (xs : List Nat) : ArrOp → Res (Option Int) × List Nat
  | .get i => if 0 ≤ i ∧ i < xs.length then (.ok (some (xs.getD i.toNat 0 : Nat)), xs) else (.panic, xs)
  | .set i v => if arrInRange b xs i v then (.ok none, xs.set i.toNat v.toNat) else (.panic, xs)
  | .swap i v =>
    if arrInRange b xs i v then (.ok (some (xs.getD i.toNat 0 : Nat)), xs.set i.toNat v.toNat) else (.panic, xs)

/-- a history: the observations in order and the final array -/
def arrRun (b : Nat) (xs : List Nat) : List ArrOp → List (Res (Option Int)) × List Nat
  | [] => ([], xs)
  | op :: ops =>
    let r := arrStep b xs op
    let rs := arrRun b r.2 ops
    (r.1 :: rs.1, rs.2)

end GoMC.Spec
