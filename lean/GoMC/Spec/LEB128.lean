/-
  Spec: unsigned little-endian base-128 (LEB128), written from the format description —
  7 payload bits per byte, least-significant group first, bit 7 set on every byte but the last.
  Independent of the Go code and of the generated definitions.
-/
import GoMC.Basic.Core
namespace GoMC.Spec

/-- the minimal LEB128 encoding of `n` -/
def leb (n : Nat) : Bytes :=
  if h : n < 128 then [BitVec.ofNat 8 n] else BitVec.ofNat 8 (n % 128 + 128) :: leb (n / 128)
termination_by n
decreasing_by omega

/-- the reader: groups until a byte without the continuation bit; `none` if the input ends first -/
def unleb : Bytes → Option (Nat × Bytes)
  | [] => none
  | b :: bs =>
    if b.toNat < 128 then some (b.toNat, bs)
    else match unleb bs with
      | some (n, r) => some (b.toNat - 128 + 128 * n, r)
      | none => none

theorem leb_lt {n : Nat} (h : n < 128) : leb n = [BitVec.ofNat 8 n] := by
  rw [leb]; simp [h]
theorem leb_ge {n : Nat} (h : ¬ n < 128) : leb n = BitVec.ofNat 8 (n % 128 + 128) :: leb (n / 128) := by
  rw [leb]; simp [h]

theorem leb_ne_nil (n : Nat) : leb n ≠ [] := by
  by_cases h : n < 128
  · rw [leb_lt h]; simp
  · rw [leb_ge h]; simp

private theorem toNat_small {k : Nat} (h : k < 256) : (BitVec.ofNat 8 k).toNat = k := by
  simp [BitVec.toNat_ofNat, Nat.mod_eq_of_lt h]

/-- reading an encoding back returns the number and leaves the rest untouched -/
theorem unleb_leb (n : Nat) (rest : Bytes) : unleb (leb n ++ rest) = some (n, rest) := by
  induction n using Nat.strongRecOn with
  | _ n ih =>
    by_cases h : n < 128
    · rw [leb_lt h]
      simp only [List.cons_append, List.nil_append, unleb]
      rw [toNat_small (by omega)]
      simp [h]
    · rw [leb_ge h]
      simp only [List.cons_append, unleb]
      rw [toNat_small (by omega)]
      have : ¬ (n % 128 + 128 < 128) := by omega
      simp only [this, if_false]
      rw [ih (n / 128) (by omega)]
      simp only [Option.some.injEq, Prod.mk.injEq, and_true]
      omega

/-- `k` bytes suffice exactly for the numbers below `128^k` -/
theorem leb_length_le (n k : Nat) (hk : 1 ≤ k) : (leb n).length ≤ k ↔ n < 128 ^ k := by
  induction k generalizing n with
  | zero => omega
  | succ k ih =>
    by_cases h : n < 128
    · rw [leb_lt h]
      have : 128 ≤ 128 ^ (k + 1) := by
        calc 128 = 128 ^ 1 := by simp
          _ ≤ 128 ^ (k + 1) := Nat.pow_le_pow_right (by omega) (by omega)
      simp; omega
    · rw [leb_ge h]
      simp only [List.length_cons, Nat.add_le_add_iff_right]
      by_cases hk0 : k = 0
      · subst hk0
        have := leb_ne_nil (n / 128)
        have hl : (leb (n / 128)).length ≠ 0 := by
          intro h0; exact this (List.length_eq_zero_iff.mp h0)
        have h1 : (128 : Nat) ^ (0 + 1) = 128 := by decide
        rw [h1]; omega
      · rw [ih (n / 128) (by omega)]
        rw [Nat.pow_succ]
        constructor
        · intro hlt
          have := Nat.div_add_mod n 128
          have : n / 128 + 1 ≤ 128 ^ k := hlt
          have : 128 * (n / 128 + 1) ≤ 128 * 128 ^ k := Nat.mul_le_mul_left 128 this
          have hmod : n % 128 < 128 := Nat.mod_lt _ (by omega)
          rw [Nat.mul_comm (128 ^ k) 128]
          omega
        · intro hlt
          exact Nat.div_lt_of_lt_mul (by rw [Nat.mul_comm]; exact hlt)

/-- every byte of an encoding except the last carries the continuation bit; the last does not -/
theorem unleb_minimal (bs : Bytes) (n : Nat) (r : Bytes) (h : unleb bs = some (n, r)) :
    (leb n).length + r.length ≤ bs.length := by
  induction bs generalizing n r with
  | nil => simp [unleb] at h
  | cons b bs ih =>
    simp only [unleb] at h
    by_cases hb : b.toNat < 128
    · simp only [hb, if_true, Option.some.injEq, Prod.mk.injEq] at h
      obtain ⟨rfl, rfl⟩ := h
      rw [leb_lt hb]; simp; omega
    · simp only [hb, if_false] at h
      cases hu : unleb bs with
      | none => simp [hu] at h
      | some p =>
        obtain ⟨m, r'⟩ := p
        simp only [hu, Option.some.injEq, Prod.mk.injEq] at h
        obtain ⟨rfl, rfl⟩ := h
        have := ih m r' hu
        by_cases hsmall : b.toNat - 128 + 128 * m < 128
        · rw [leb_lt hsmall]
          have := leb_ne_nil m
          have hl : (leb m).length ≠ 0 := by
            intro h0; exact this (List.length_eq_zero_iff.mp h0)
          simp; omega
        · rw [leb_ge hsmall]
          have hb' : b.toNat < 256 := b.isLt
          have : (b.toNat - 128 + 128 * m) / 128 = m := by omega
          rw [this]; simp; omega

end GoMC.Spec
