/-
  Spec: a sequential FIFO queue with Close, and linearizability of a finite concurrent history
  against it.  Written from the property statement, not from the Go code:

    * `push v` appends `v`; a bounded queue REFUSES (returns false, state unchanged) when it holds `cap` items
      and accepts otherwise; an unbounded queue always accepts.  Pushing after Close is outside the domain
      (no history containing it is legal).
    * `pull` returns the head; it reports closure `(zero,false)` only when the queue is closed AND empty
      (so after Close the remaining items are handed out first).  A pull on an empty open queue has no
      sequential result (it blocks), hence is never legal at that point.
    * `close` sets the closed flag.

  A history is a list of completed calls with invocation/response times taken from one global clock.
  It is linearizable iff the calls can be ordered so that (1) a call that returned before another was
  invoked comes first, (2) the sequence is legal for the sequential queue started empty and open.
  `linearize` is an executable decision procedure (Wing–Gong search with memoisation of failed
  (set of linearized calls, queue state) pairs); `validWitness` re-checks the order it returns.
-/
import Std.Data.HashSet
namespace GoMC.Spec.FifoClose

inductive Call where
  | push (v : Nat) (ok : Bool)
  | pull (r : Option Nat)
  | close
deriving DecidableEq, Repr, Inhabited

structure Q where
  items : List Nat := []
  closed : Bool := false
deriving DecidableEq, Repr, Hashable, Inhabited

/-- one call applied to the sequential queue; `none` = this call with this result is not legal here -/
def apply (cap : Option Nat) (q : Q) : Call → Option Q
  | .push v true =>
    if q.closed then none
    else match cap with
      | none => some { q with items := q.items ++ [v] }
      | some c => if q.items.length < c then some { q with items := q.items ++ [v] } else none
  | .push _ false =>
    if q.closed then none
    else match cap with
      | none => none
      | some c => if c ≤ q.items.length then some q else none
  | .pull (some v) =>
    match q.items with
    | x :: rest => if x = v then some { q with items := rest } else none
    | [] => none
  | .pull none => if q.closed && q.items.isEmpty then some q else none
  | .close => some { q with closed := true }

/-- legal sequential execution from `q` -/
def legal (cap : Option Nat) : Q → List Call → Bool
  | _, [] => true
  | q, c :: cs => match apply cap q c with
    | some q' => legal cap q' cs
    | none => false

/-- the state after a sequential execution, if it is legal -/
def runCalls (cap : Option Nat) : Q → List Call → Option Q
  | q, [] => some q
  | q, c :: cs => match apply cap q c with
    | some q' => runCalls cap q' cs
    | none => none

theorem legal_iff_runCalls (cap : Option Nat) (q : Q) (cs : List Call) : legal cap q cs = (runCalls cap q cs).isSome := by
  induction cs generalizing q with
  | nil => rfl
  | cons c cs ih =>
    simp only [legal, runCalls]
    split <;> simp [*]

theorem runCalls_append (cap : Option Nat) (q : Q) (as bs : List Call) :
    runCalls cap q (as ++ bs) = (runCalls cap q as).bind fun q' => runCalls cap q' bs := by
  induction as generalizing q with
  | nil => rfl
  | cons c cs ih =>
    simp only [List.cons_append, runCalls]
    split <;> simp [*]

/-- a completed call of a concurrent history -/
structure Ev where
  tid : Nat
  call : Call
  st : Nat      -- invocation time
  en : Nat      -- response time (st < en)
deriving Repr, Inhabited

/-- `order` (indices into `h`) is a linearization of `h` -/
def validWitness (cap : Option Nat) (h : Array Ev) (order : List Nat) : Bool :=
  order.length == h.size
  && order.all (fun i => i < h.size)
  && (List.range h.size).all (fun i => order.contains i)
  && legal cap {} (order.map fun i => h[i]!.call)
  && (let evs := order.map fun i => h[i]!
      -- real-time order: nothing placed later returned before something placed earlier was invoked
      let rec ok : List Ev → Bool
        | [] => true
        | e :: rest => rest.all (fun f => !(f.en < e.st)) && ok rest
      ok evs)

def Linearizable (cap : Option Nat) (h : Array Ev) : Prop := ∃ order, validWitness cap h order = true

abbrev Memo := Std.HashSet (Nat × Q)

/-- calls not yet linearized that no other not-yet-linearized call precedes in real time -/
def candidates (h : Array Ev) (mask : Nat) : List Nat :=
  let rem := (List.range h.size).filter fun i => !mask.testBit i
  match rem with
  | [] => []
  | r :: _ =>
    let minEnd := rem.foldl (fun m i => min m h[i]!.en) h[r]!.en
    rem.filter fun i => h[i]!.st < minEnd

/-- search order only (completeness does not depend on it): pulls first, then pushes in the order in which
their values are pulled, then close -/
def priority (h : Array Ev) (i : Nat) : Nat :=
  match h[i]!.call with
  | .pull _ => 0
  | .push _ false => 1
  | .push v true =>
    match h.find? (fun e => e.call == .pull (some v)) with
    | some e => 2 + e.en
    | none => 2 + 1000000000
  | .close => 2 + 2000000000

def insertBy (key : Nat → Nat) (x : Nat) : List Nat → List Nat
  | [] => [x]
  | y :: ys => if key x ≤ key y then x :: y :: ys else y :: insertBy key x ys

def sortBy (key : Nat → Nat) (xs : List Nat) : List Nat := xs.foldr (insertBy key) []

structure Search where
  memo : Memo := {}
  nodes : Nat := 0

/-- depth-first search; `fuel` = number of calls still to place (structural recursion) -/
def dfs (cap : Option Nat) (h : Array Ev) (prio : Array Nat) (full budget : Nat) :
    Nat → Nat → Q → List Nat → Search → Option (List Nat) × Search
  | 0, mask, _, acc, S => (if mask == full then some acc.reverse else none, S)
  | fuel + 1, mask, q, acc, S =>
    if mask == full then (some acc.reverse, S)
    else if S.memo.contains (mask, q) || S.nodes > budget then (none, S)
    else
      let S := { S with nodes := S.nodes + 1 }
      let cands := sortBy (fun i => prio[i]!) (candidates h mask)
      let r := cands.foldl (fun (st : Option (List Nat) × Search) i =>
        match st.1 with
        | some _ => st
        | none =>
          match apply cap q h[i]!.call with
          | none => st
          | some q' => dfs cap h prio full budget fuel (mask ||| (1 <<< i)) q' (i :: acc) st.2) (none, S)
      match r.1 with
      | some _ => r
      | none => (none, { r.2 with memo := r.2.memo.insert (mask, q) })

inductive Verdict where
  | lin (order : List Nat)
  | notLin
  | undecided           -- node budget exhausted
deriving Repr

def linearize (cap : Option Nat) (h : Array Ev) (budget : Nat := 3000000) : Verdict :=
  let full := 2 ^ h.size - 1
  let prio := (Array.range h.size).map (priority h)
  let (r, S) := dfs cap h prio full budget h.size 0 {} [] {}
  match r with
  | some o => .lin o
  | none => if S.nodes > budget then .undecided else .notLin

/-! ### spec sanity -/

/-- FIFO: what is pulled is what was pushed, in order -/
example : legal none {} [.push 1 true, .push 2 true, .pull (some 1), .close, .pull (some 2), .pull none] = true := by decide
/-- closure is not reported while items remain -/
example : legal none {} [.push 1 true, .close, .pull none] = false := by decide
/-- no duplication -/
example : legal none {} [.push 1 true, .pull (some 1), .pull (some 1)] = false := by decide
/-- the bounded queue refuses exactly when full -/
example : legal (some 1) {} [.push 1 true, .push 2 false, .pull (some 1), .push 3 true] = true := by decide
example : legal (some 2) {} [.push 1 true, .push 2 false] = false := by decide
example : legal (some 1) {} [.push 1 true, .push 2 true] = false := by decide

end GoMC.Spec.FifoClose
