/-
  GoMC.Spec.Chunk — what a chunk IS, independent of level/chunk.go: per section an array of 4096 block-state ids,
  an array of 64 biome ids and two optional light arrays; six height maps of 256 heights each; a list of block
  entities; a status string.  Histories of SetBlock / biome Set / height-map Set / light / block-entity / status
  operations act on these arrays in the obvious way (array update).  Written from the property statement
  ("identical block states, biomes and block counts in every section, …"), not from the Go code.

  The driver folds a history over this structure and compares digests of the arrays with what the harness observed
  on the real chunk before writing and after reading back.  The digest is FNV-1a-style over whole values
  (`h := (h xor v) * 1099511628211 mod 2^64`, start 14695981039346656037); the harness has the same function.

  Height maps are compared through their raw longs (`HeightMaps.*.Raw()`), so the expected longs are the
  independent packing of `Spec/Packing.lean` with `bitlen (16·sections + 1)` bits per height.
-/
import GoMC.Basic.Core
import GoMC.Spec.Packing
namespace GoMC.Spec.Chunk
open GoMC GoMC.Spec

/-! ### digests -/

def fnvOff : UInt64 := 14695981039346656037
def fnvPrime : UInt64 := 1099511628211

@[inline] def fnvStep (h : UInt64) (v : UInt64) : UInt64 := (h ^^^ v) * fnvPrime

def hexDigitC (n : Nat) : Char := if n < 10 then Char.ofNat (48 + n) else Char.ofNat (87 + n)

def hex16 (h : UInt64) : String :=
  let n := h.toNat
  String.ofList ((List.range 16).reverse.map fun i => hexDigitC (n / 16 ^ i % 16))

def digestNats (xs : Array Nat) : String :=
  hex16 (xs.foldl (fun h v => fnvStep h (UInt64.ofNat v)) fnvOff)

/-- `<count>:<digest>` of raw longs -/
def digestLongs (ls : List (BitVec 64)) : String :=
  s!"{ls.length}:{hex16 (ls.foldl (fun h v => fnvStep h (UInt64.ofNat v.toNat)) fnvOff)}"

/-- `-` for an absent or empty byte array, `<len>:<digest>` otherwise -/
def digestBytes (bs : Array Nat) : String :=
  if bs.isEmpty then "-" else s!"{bs.size}:{digestNats bs}"

/-! ### the abstract chunk -/

structure Sec where
  states : Array Nat          -- 4096 ids
  biomes : Array Nat          -- 64 ids
  sky : Array Nat := #[]      -- light bytes; empty = absent (nil and empty are not distinguished)
  blk : Array Nat := #[]
deriving Inhabited

structure Ent where
  xz : Nat                    -- the packed byte, 0..255
  y : Int                     -- int16
  typ : Int                   -- int32
  tag : Nat                   -- NBT tag id of the data, 0 = no data
  data : Bytes                -- NBT payload
deriving Inhabited

structure Chunk where
  nsec : Nat
  secs : Array Sec
  hm : Array (Array Nat)      -- 6 × 256 heights, in the order WORLD_SURFACE_WG, WORLD_SURFACE, OCEAN_FLOOR_WG,
                              -- OCEAN_FLOOR, MOTION_BLOCKING, MOTION_BLOCKING_NO_LEAVES
  ents : Array Ent := #[]
  status : Bytes
deriving Inhabited

def bitLen (n : Nat) : Nat := if n = 0 then 0 else Nat.log2 n + 1

/-- bits per height of a chunk with `n` sections: enough for the values `0 … 16·n` -/
def hmBits (n : Nat) : Nat := bitLen (16 * n + 1)

/-- a chunk of `n` sections with nothing in it (air everywhere, biome 0, heights 0, status "empty") -/
def empty (n : Nat) : Chunk :=
  { nsec := n,
    secs := Array.replicate n { states := Array.replicate 4096 0, biomes := Array.replicate 64 0 },
    hm := Array.replicate 6 (Array.replicate 256 0),
    status := "empty".toUTF8.toList.map fun b => BitVec.ofNat 8 b.toNat }

/-! ### histories -/

inductive Op where
  | sb (s i v : Nat)                       -- SetBlock on section s
  | fb (s start cnt v0 step : Nat)         -- cnt SetBlocks at (start+k) mod 4096 with ids (v0 + k·step) mod reg
  | bi (s i v : Nat)
  | fbi (s start cnt v0 step : Nat)        -- positions mod 64, ids mod nb
  | hm (k i v : Nat)
  | fhm (k start cnt v0 step : Nat)        -- positions mod 256, heights mod 2^hmBits
  | sl (s : Nat) (len : Int) (a m : Nat)   -- sky light: len < 0 = absent, else bytes (a + k·m) mod 256
  | bl (s : Nat) (len : Int) (a m : Nat)
  | be (e : Ent)
  | st (s : Bytes)

structure Env where
  reg : Nat   -- number of block states in the registry
  nb : Nat    -- number of biomes

def lightBytes (len : Int) (a m : Nat) : Array Nat :=
  if len < 0 then #[] else (Array.range len.toNat).map fun k => (a + k * m) % 256

def modSec (c : Chunk) (s : Nat) (f : Sec → Sec) : Option Chunk :=
  if h : s < c.secs.size then some { c with secs := c.secs.set s (f c.secs[s]) } else none

def fill (xs : Array Nat) (len start cnt v0 step md : Nat) : Array Nat :=
  (List.range cnt).foldl (fun acc k => acc.set! ((start + k) % len) ((v0 + k * step) % md)) xs

/-- one operation; `none` when it is outside the domain of the calls it stands for -/
def apply (e : Env) (c : Chunk) : Op → Option Chunk
  | .sb s i v => if i < 4096 ∧ v < e.reg then modSec c s fun x => { x with states := x.states.set! i v } else none
  | .fb s start cnt v0 step =>
    if e.reg = 0 then none else modSec c s fun x => { x with states := fill x.states 4096 start cnt v0 step e.reg }
  | .bi s i v => if i < 64 then modSec c s fun x => { x with biomes := x.biomes.set! i v } else none
  | .fbi s start cnt v0 step =>
    if e.nb = 0 then none else modSec c s fun x => { x with biomes := fill x.biomes 64 start cnt v0 step e.nb }
  | .hm k i v =>
    if k < 6 ∧ i < 256 ∧ v < 2 ^ hmBits c.nsec then some { c with hm := c.hm.set! k ((c.hm.getD k #[]).set! i v) } else none
  | .fhm k start cnt v0 step =>
    if k < 6 then some { c with hm := c.hm.set! k (fill (c.hm.getD k #[]) 256 start cnt v0 step (2 ^ hmBits c.nsec)) } else none
  | .sl s len a m => modSec c s fun x => { x with sky := lightBytes len a m }
  | .bl s len a m => modSec c s fun x => { x with blk := lightBytes len a m }
  | .be ent => some { c with ents := c.ents.push ent }
  | .st s => some { c with status := s }

def run (e : Env) (c : Chunk) : List Op → Option Chunk
  | [] => some c
  | op :: ops => (apply e c op).bind fun c' => run e c' ops

/-! ### what must be observed -/

def nonAirCount (air : List Nat) (states : Array Nat) : Nat :=
  states.foldl (fun n v => if air.contains v then n else n + 1) 0

/-- raw longs of a height map -/
def hmRaw (c : Chunk) (k : Nat) : List (BitVec 64) :=
  pack (hmBits c.nsec) (c.hm.getD k #[]).toList

end GoMC.Spec.Chunk
