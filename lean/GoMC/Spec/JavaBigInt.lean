/-
  Spec for C18, written from the Java documentation — independent of the Go code and of the model.

  * `new BigInteger(byte[] d)`: "translates a byte array containing the two's-complement binary
    representation of a BigInteger … in big-endian byte-order".
  * `BigInteger.toString(16)`: a minus sign if negative, then the magnitude in lower-case digits
    (`Character.forDigit`) without leading zeros, "0" for zero.
  * `UUID.nameUUIDFromBytes(name)`: the MD5 of `name` with the version field set to 3
    (`md5[6] &= 0x0f; md5[6] |= 0x30`) and the variant field set to IETF (`md5[8] &= 0x3f; md5[8] |= 0x80`).
    Stated here arithmetically: the high nibble of byte 6 is 3, the two high bits of byte 8 are `10`,
    the remaining bits are those of the hash.
-/
import GoMC.Basic.Core
namespace GoMC.Spec

/-- magnitude of a big-endian byte string -/
def beNat (d : Bytes) : Nat := d.foldl (fun acc b => acc * 256 + b.toNat) 0

/-- `new BigInteger(d)`: two's complement over `8 * d.length` bits -/
def toSigned (d : Bytes) : Int :=
  if 2 * beNat d < 256 ^ d.length then (beNat d : Int) else (beNat d : Int) - ((256 ^ d.length : Nat) : Int)

/-- `Character.forDigit(k, 16)` -/
def forDigit (k : Nat) : Char := if k < 10 then Char.ofNat (48 + k) else Char.ofNat (87 + k)

/-- the magnitude in base 16, most significant digit first, no leading zeros; "0" for zero -/
def natHex (n : Nat) : List Char :=
  if _h : n < 16 then [forDigit n] else natHex (n / 16) ++ [forDigit (n % 16)]
termination_by n
decreasing_by omega

/-- `BigInteger.toString(16)` as a list of characters -/
def javaHexChars (i : Int) : List Char :=
  if i < 0 then '-' :: natHex i.natAbs else natHex i.natAbs

/-- `BigInteger.toString(16)` -/
def javaHex (i : Int) : String := String.ofList (javaHexChars i)

/-- `UUID.nameUUIDFromBytes` applied to the 16-byte MD5 output `h`: version 3, IETF variant -/
def nameUUID (h : Bytes) : Bytes :=
  h.mapIdx fun i b =>
    if i = 6 then BitVec.ofNat 8 (0x30 + b.toNat % 16)
    else if i = 8 then BitVec.ofNat 8 (0x80 + b.toNat % 64)
    else b

/-! ### spec sanity -/

theorem natHex_lt {n : Nat} (h : n < 16) : natHex n = [forDigit n] := by
  rw [natHex]; simp [h]
theorem natHex_ge {n : Nat} (h : ¬ n < 16) : natHex n = natHex (n / 16) ++ [forDigit (n % 16)] := by
  rw [natHex]; simp [h]

example : javaHexChars 0 = ['0'] := by
  simp [javaHexChars, natHex_lt, forDigit]
example : javaHexChars (toSigned [0x00, 0x80]) = ['8', '0'] := by
  simp [toSigned, beNat, javaHexChars, natHex_ge, natHex_lt, forDigit]
example : javaHexChars (toSigned [0xff, 0x80]) = ['-', '8', '0'] := by
  simp [toSigned, beNat, javaHexChars, natHex_ge, natHex_lt, forDigit]

end GoMC.Spec
