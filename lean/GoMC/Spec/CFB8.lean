/-
  GoMC.Spec.CFB8 — the 8-bit cipher feedback mode (NIST SP 800-38A §6.3 with s = 8), written from the
  definition of the mode, independently of net/CFB8/cfb8.go.

  The forward block function `E : Bytes → Bytes` (a block of `bs` bytes to a block of `bs` bytes, e.g.
  AES under a fixed key) is a parameter.  The mode keeps a shift register `S` of `bs` bytes, initially
  the IV, and handles one byte at a time:

      k  = (E S)[0]                 -- most significant byte of the output block
      encrypt:  c = p ⊕ k           decrypt:  p = c ⊕ k
      S' = S[1:] ++ [c]             -- the CIPHERTEXT byte is shifted in, in both directions
-/
import GoMC.Basic.Core
namespace GoMC.Spec.CFB8
open GoMC

/-- the key-stream byte for register `S` -/
def ksByte (E : Bytes → Bytes) (S : Bytes) : Byte := (E S).headD 0

/-- one byte: output byte and next register (`de = true`: decrypt) -/
def step (E : Bytes → Bytes) (de : Bool) (S : Bytes) (x : Byte) : Byte × Bytes :=
  let y := x ^^^ ksByte E S
  (y, S.drop 1 ++ [if de then x else y])

/-- a whole message from register `S`: output and final register -/
def run (E : Bytes → Bytes) (de : Bool) : Bytes → Bytes → Bytes × Bytes
  | S, [] => ([], S)
  | S, x :: xs =>
    let r := step E de S x
    let rest := run E de r.2 xs
    (r.1 :: rest.1, rest.2)

def enc (E : Bytes → Bytes) (iv msg : Bytes) : Bytes := (run E false iv msg).1
def dec (E : Bytes → Bytes) (iv msg : Bytes) : Bytes := (run E true iv msg).1

/-! ### spec sanity -/

@[simp] theorem run_nil (E de S) : run E de S [] = ([], S) := rfl

theorem run_cons (E de S x xs) :
    run E de S (x :: xs) = ((step E de S x).1 :: (run E de (step E de S x).2 xs).1,
                            (run E de (step E de S x).2 xs).2) := rfl

/-- processing `a ++ b` is processing `a`, then `b` from the register `a` left behind -/
theorem run_append (E : Bytes → Bytes) (de : Bool) (S a b : Bytes) :
    run E de S (a ++ b) =
      ((run E de S a).1 ++ (run E de (run E de S a).2 b).1, (run E de (run E de S a).2 b).2) := by
  induction a generalizing S with
  | nil => simp
  | cons x xs ih => simp [run_cons, ih]

@[simp] theorem length_run (E : Bytes → Bytes) (de : Bool) (S m : Bytes) :
    (run E de S m).1.length = m.length := by
  induction m generalizing S with
  | nil => rfl
  | cons x xs ih => simp [run_cons, ih]

/-- the register keeps its length (for a non-empty register) -/
theorem length_step_reg (E : Bytes → Bytes) (de : Bool) (S : Bytes) (x : Byte) :
    (step E de S x).2.length = S.length - 1 + 1 := by
  simp [step]

theorem length_run_reg (E : Bytes → Bytes) (de : Bool) (S m : Bytes) (h : 1 ≤ S.length) :
    (run E de S m).2.length = S.length := by
  induction m generalizing S with
  | nil => rfl
  | cons x xs ih =>
    rw [run_cons]
    have h1 : (step E de S x).2.length = S.length := by rw [length_step_reg]; omega
    simp only
    rw [ih _ (by omega), h1]

/-- encrypting and decrypting a message move the register identically, and decryption undoes encryption -/
theorem run_dec_enc (E : Bytes → Bytes) (S m : Bytes) :
    run E true S (run E false S m).1 = (m, (run E false S m).2) := by
  induction m generalizing S with
  | nil => rfl
  | cons x xs ih =>
    rw [run_cons E false, run_cons E true]
    have h1 : (step E true S (step E false S x).1).1 = x := by
      simp [step, BitVec.xor_assoc]
    have h2 : (step E true S (step E false S x).1).2 = (step E false S x).2 := by
      simp [step]
    simp only [h1, h2, ih]

theorem dec_enc (E : Bytes → Bytes) (iv m : Bytes) : dec E iv (enc E iv m) = m := by
  simp [dec, enc, run_dec_enc]

/-- once `bs` bytes have been processed, the register is the last `bs` ciphertext bytes: this is what
makes the mode self-synchronising, and what the optimised path of the implementation relies on -/
theorem step_reg_eq (E : Bytes → Bytes) (de : Bool) (S : Bytes) (x : Byte) :
    (step E de S x).2 = S.drop 1 ++ [if de then x else (step E de S x).1] := by
  cases de <;> simp [step]

end GoMC.Spec.CFB8
