/-
  Spec: Minecraft text components (the value, and what the property C17 says about its two wire forms
  and its rendering), written from the protocol description (wiki.vg "Text formatting", "Chat"),
  independent of the Go code.

  * `Msg` — the component value: text, five style flags, font, colour, insertion, click event,
    hover event (action, contents, legacy value), translation key with arguments, extras.
    Translation arguments are components or plain strings (`Msg ⊕ Bytes`).
  * JSON form (`jsonToMsg`): a bare string is the text; a list is the extras of an empty component;
    an object carries the fields under their protocol names.
  * NBT form (`nbtToMsg`): the same three shapes as TAG_String / TAG_List / TAG_Compound,
    strings as TAG_String, flags as TAG_Byte, numeric translation arguments as typed arrays.
  * `strip` — plain text: every `§` + format code is deleted, left to right.
  * `substSeq` / `substIdx` — a translation format consumes its arguments in order (`%s`) or by index (`%n$s`).
-/
import GoMC.Spec.JSON
import GoMC.Spec.NBT
namespace GoMC.Spec
open GoMC

structure Click where
  action : Bytes
  value : Bytes
deriving Repr, DecidableEq, Inhabited

/-- a text component -/
structure Msg where
  text : Bytes
  bold : Bool
  italic : Bool
  underlined : Bool
  strikethrough : Bool
  obfuscated : Bool
  font : Bytes
  color : Bytes
  insertion : Bytes
  click : Option Click
  /-- action, contents (as the JSON tree of the value; `null` = none), legacy value -/
  hover : Option (Bytes × JSON × Msg)
  translate : Bytes
  args : List (Msg ⊕ Bytes)
  extra : List Msg
deriving Repr, Inhabited

namespace Msg
/-- Go's zero value of `chat.Message` -/
def zero : Msg := ⟨[], false, false, false, false, false, [], [], [], none, none, [], [], []⟩
def ofText (s : Bytes) : Msg := { zero with text := s }
end Msg

/-! ### protocol field names (ASCII) -/

def kText : Bytes := [0x74#8, 0x65#8, 0x78#8, 0x74#8]
def kBold : Bytes := [0x62#8, 0x6f#8, 0x6c#8, 0x64#8]
def kItalic : Bytes := [0x69#8, 0x74#8, 0x61#8, 0x6c#8, 0x69#8, 0x63#8]
def kUnderlined : Bytes := [0x75#8, 0x6e#8, 0x64#8, 0x65#8, 0x72#8, 0x6c#8, 0x69#8, 0x6e#8, 0x65#8, 0x64#8]
def kStrikethrough : Bytes :=
  [0x73#8, 0x74#8, 0x72#8, 0x69#8, 0x6b#8, 0x65#8, 0x74#8, 0x68#8, 0x72#8, 0x6f#8, 0x75#8, 0x67#8, 0x68#8]
def kObfuscated : Bytes := [0x6f#8, 0x62#8, 0x66#8, 0x75#8, 0x73#8, 0x63#8, 0x61#8, 0x74#8, 0x65#8, 0x64#8]
def kFont : Bytes := [0x66#8, 0x6f#8, 0x6e#8, 0x74#8]
def kColor : Bytes := [0x63#8, 0x6f#8, 0x6c#8, 0x6f#8, 0x72#8]
def kInsertion : Bytes := [0x69#8, 0x6e#8, 0x73#8, 0x65#8, 0x72#8, 0x74#8, 0x69#8, 0x6f#8, 0x6e#8]
def kClickEvent : Bytes := [0x63#8, 0x6c#8, 0x69#8, 0x63#8, 0x6b#8, 0x45#8, 0x76#8, 0x65#8, 0x6e#8, 0x74#8]
def kHoverEvent : Bytes := [0x68#8, 0x6f#8, 0x76#8, 0x65#8, 0x72#8, 0x45#8, 0x76#8, 0x65#8, 0x6e#8, 0x74#8]
def kTranslate : Bytes := [0x74#8, 0x72#8, 0x61#8, 0x6e#8, 0x73#8, 0x6c#8, 0x61#8, 0x74#8, 0x65#8]
def kWith : Bytes := [0x77#8, 0x69#8, 0x74#8, 0x68#8]
def kExtra : Bytes := [0x65#8, 0x78#8, 0x74#8, 0x72#8, 0x61#8]
def kAction : Bytes := [0x61#8, 0x63#8, 0x74#8, 0x69#8, 0x6f#8, 0x6e#8]
def kValue : Bytes := [0x76#8, 0x61#8, 0x6c#8, 0x75#8, 0x65#8]
def kContents : Bytes := [0x63#8, 0x6f#8, 0x6e#8, 0x74#8, 0x65#8, 0x6e#8, 0x74#8, 0x73#8]

/-! ### JSON form -/

def lookupKey {α} (k : Bytes) : List (Bytes × α) → Option α
  | [] => none
  | (k', v) :: rest => if k' = k then some v else lookupKey k rest

def keysOf {α} : List (Bytes × α) → List Bytes
  | [] => []
  | (k, _) :: rest => k :: keysOf rest

def noDupKeys : List Bytes → Bool
  | [] => true
  | k :: rest => !rest.contains k && noDupKeys rest

def msgKeys : List Bytes :=
  [kText, kBold, kItalic, kUnderlined, kStrikethrough, kObfuscated, kFont, kColor, kInsertion,
   kClickEvent, kHoverEvent, kTranslate, kWith, kExtra]

def jStr? : Option JSON → Option Bytes
  | none => some []
  | some (.str s) => some s
  | _ => none
def jBool? : Option JSON → Option Bool
  | none => some false
  | some (.bool b) => some b
  | _ => none

def jsonToClick : Option JSON → Option (Option Click)
  | none => some none
  | some (.obj kvs) =>
    if noDupKeys (keysOf kvs) && (keysOf kvs).all (fun k => k = kAction || k = kValue) then
      match jStr? (lookupKey kAction kvs), jStr? (lookupKey kValue kvs) with
      | some a, some v => some (some ⟨a, v⟩)
      | _, _ => none
    else none
  | _ => none

mutual
  /-- the component a JSON value denotes; `none` outside the grammar this spec covers (unknown or repeated
  keys, `null`, numbers, wrong value kinds): there the spec demands nothing -/
  def jsonToMsg : JSON → Option Msg
    | .str s => some (Msg.ofText s)
    | .arr xs => (jsonToMsgs xs).map fun ms => { Msg.zero with extra := ms }
    | .obj kvs =>
      if noDupKeys (keysOf kvs) && (keysOf kvs).all (fun k => msgKeys.contains k) then
        jsonFields kvs kvs
      else none
    | .null => none
    | .bool _ => none
    | .num _ => none
  termination_by structural x => x
  /-- `all` is the whole object (for the scalar fields), the first argument is walked for the nested ones -/
  def jsonFields (all : List (Bytes × JSON)) : List (Bytes × JSON) → Option Msg
    | [] =>
      match jStr? (lookupKey kText all), jBool? (lookupKey kBold all), jBool? (lookupKey kItalic all),
            jBool? (lookupKey kUnderlined all), jBool? (lookupKey kStrikethrough all), jBool? (lookupKey kObfuscated all),
            jStr? (lookupKey kFont all), jStr? (lookupKey kColor all), jStr? (lookupKey kInsertion all),
            jsonToClick (lookupKey kClickEvent all), jStr? (lookupKey kTranslate all) with
      | some t, some b, some i, some u, some s, some o, some f, some c, some ins, some ce, some tr =>
        some ⟨t, b, i, u, s, o, f, c, ins, ce, none, tr, [], []⟩
      | _, _, _, _, _, _, _, _, _, _, _ => none
    | (k, v) :: rest =>
      match jsonFields all rest with
      | none => none
      | some m => jsonNested k v m
  termination_by structural x => x
  /-- the three keys whose values contain components -/
  def jsonNested (k : Bytes) : JSON → Msg → Option Msg
    | .obj hk, m =>
      if k = kHoverEvent then
        if noDupKeys (keysOf hk) && (keysOf hk).all (fun k => k = kAction || k = kContents || k = kValue) then
          match jStr? (lookupKey kAction hk), jsonHoverValue hk with
          | some a, some hv => some { m with hover := some (a, (lookupKey kContents hk).getD .null, hv) }
          | _, _ => none
        else none
      else if k = kWith ∨ k = kExtra then none
      else some m
    | .arr xs, m =>
      if k = kWith then (jsonToMsgs xs).map fun ms => { m with args := ms.map Sum.inl }
      else if k = kExtra then (jsonToMsgs xs).map fun ms => { m with extra := ms }
      else if k = kHoverEvent then none
      else some m
    | .null, m => if k = kHoverEvent ∨ k = kWith ∨ k = kExtra then none else some m
    | .bool _, m => if k = kHoverEvent ∨ k = kWith ∨ k = kExtra then none else some m
    | .num _, m => if k = kHoverEvent ∨ k = kWith ∨ k = kExtra then none else some m
    | .str _, m => if k = kHoverEvent ∨ k = kWith ∨ k = kExtra then none else some m
  termination_by structural x => x
  def jsonHoverValue : List (Bytes × JSON) → Option Msg
    | [] => some Msg.zero
    | (k, v) :: rest => if k = kValue then jsonToMsg v else jsonHoverValue rest
  termination_by structural x => x
  def jsonToMsgs : List JSON → Option (List Msg)
    | [] => some []
    | x :: xs =>
      match jsonToMsg x, jsonToMsgs xs with
      | some m, some ms => some (m :: ms)
      | _, _ => none
  termination_by structural x => x
end

/-! ### NBT form -/

def nStr? : Option NBT → Option Bytes
  | none => some []
  | some (.string s) => some s
  | _ => none
def nBool? : Option NBT → Option Bool
  | none => some false
  | some (.byte b) => some (b != 0#8)
  | _ => none

def nbtToClick : Option NBT → Option (Option Click)
  | none => some none
  | some (.compound kvs) =>
    if noDupKeys (keysOf kvs) && (keysOf kvs).all (fun k => k = kAction || k = kValue) then
      match nStr? (lookupKey kAction kvs), nStr? (lookupKey kValue kvs) with
      | some a, some v => some (some ⟨a, v⟩)
      | _, _ => none
    else none
  | _ => none

/-- hover `contents` is free-form ("any"): only a plain string is read, everything else counts as absent -/
def nbtContents : Option NBT → Option JSON
  | none => some .null
  | some (.string s) => some (.str s)
  | _ => some .null

/-- decimal text of a signed `w`-bit number (numeric translation arguments) -/
def decimalNat : Nat → Nat → List Byte
  | 0, _ => []
  | fuel + 1, n => if n < 10 then [BitVec.ofNat 8 (48 + n)] else decimalNat fuel (n / 10) ++ [BitVec.ofNat 8 (48 + n % 10)]
def decimalInt (i : Int) : Bytes :=
  if i < 0 then 0x2d#8 :: decimalNat 25 i.natAbs else decimalNat 25 i.natAbs

mutual
  /-- the component an NBT value denotes; `none` outside the grammar this spec covers -/
  def nbtToMsg : NBT → Option Msg
    | .string s => some (Msg.ofText s)
    | .list _ xs => (nbtToMsgs xs).map fun ms => { Msg.zero with extra := ms }
    | .compound kvs =>
      if noDupKeys (keysOf kvs) && (keysOf kvs).all (fun k => msgKeys.contains k) then
        nbtFields kvs kvs
      else none
    | .byte _ => none
    | .short _ => none
    | .int _ => none
    | .long _ => none
    | .float _ => none
    | .double _ => none
    | .byteArray _ => none
    | .intArray _ => none
    | .longArray _ => none
  termination_by structural x => x
  def nbtFields (all : List (Bytes × NBT)) : List (Bytes × NBT) → Option Msg
    | [] =>
      match nStr? (lookupKey kText all), nBool? (lookupKey kBold all), nBool? (lookupKey kItalic all),
            nBool? (lookupKey kUnderlined all), nBool? (lookupKey kStrikethrough all), nBool? (lookupKey kObfuscated all),
            nStr? (lookupKey kFont all), nStr? (lookupKey kColor all), nStr? (lookupKey kInsertion all),
            nbtToClick (lookupKey kClickEvent all), nStr? (lookupKey kTranslate all) with
      | some t, some b, some i, some u, some s, some o, some f, some c, some ins, some ce, some tr =>
        some ⟨t, b, i, u, s, o, f, c, ins, ce, none, tr, [], []⟩
      | _, _, _, _, _, _, _, _, _, _, _ => none
    | (k, v) :: rest =>
      match nbtFields all rest with
      | none => none
      | some m => nbtNested k v m
  termination_by structural x => x
  /-- the three keys whose values contain components (numeric translation arguments: typed arrays) -/
  def nbtNested (k : Bytes) : NBT → Msg → Option Msg
    | .compound hk, m =>
      if k = kHoverEvent then
        if noDupKeys (keysOf hk) && (keysOf hk).all (fun k => k = kAction || k = kContents || k = kValue) then
          match nStr? (lookupKey kAction hk), nbtContents (lookupKey kContents hk), nbtHoverValue hk with
          | some a, some c, some hv => some { m with hover := some (a, c, hv) }
          | _, _, _ => none
        else none
      else if k = kWith ∨ k = kExtra then none
      else some m
    | .list _ xs, m =>
      if k = kWith then (nbtToMsgs xs).map fun ms => { m with args := ms.map Sum.inl }
      else if k = kExtra then (nbtToMsgs xs).map fun ms => { m with extra := ms }
      else if k = kHoverEvent then none
      else some m
    | .byteArray xs, m =>
      if k = kWith then some { m with args := xs.map fun x => Sum.inr (decimalInt x.toInt) }
      else if k = kHoverEvent ∨ k = kExtra then none else some m
    | .intArray xs, m =>
      if k = kWith then some { m with args := xs.map fun x => Sum.inr (decimalInt x.toInt) }
      else if k = kHoverEvent ∨ k = kExtra then none else some m
    | .longArray xs, m =>
      if k = kWith then some { m with args := xs.map fun x => Sum.inr (decimalInt x.toInt) }
      else if k = kHoverEvent ∨ k = kExtra then none else some m
    | .byte _, m => if k = kHoverEvent ∨ k = kWith ∨ k = kExtra then none else some m
    | .short _, m => if k = kHoverEvent ∨ k = kWith ∨ k = kExtra then none else some m
    | .int _, m => if k = kHoverEvent ∨ k = kWith ∨ k = kExtra then none else some m
    | .long _, m => if k = kHoverEvent ∨ k = kWith ∨ k = kExtra then none else some m
    | .float _, m => if k = kHoverEvent ∨ k = kWith ∨ k = kExtra then none else some m
    | .double _, m => if k = kHoverEvent ∨ k = kWith ∨ k = kExtra then none else some m
    | .string _, m => if k = kHoverEvent ∨ k = kWith ∨ k = kExtra then none else some m
  termination_by structural x => x
  def nbtHoverValue : List (Bytes × NBT) → Option Msg
    | [] => some Msg.zero
    | (k, v) :: rest => if k = kValue then nbtToMsg v else nbtHoverValue rest
  termination_by structural x => x
  def nbtToMsgs : List NBT → Option (List Msg)
    | [] => some []
    | x :: xs =>
      match nbtToMsg x, nbtToMsgs xs with
      | some m, some ms => some (m :: ms)
      | _, _ => none
  termination_by structural x => x
end

/-! ### equality of components (the tree type has no derived `DecidableEq`) -/

mutual
  def JSON.beq : JSON → JSON → Bool
    | .null, .null => true
    | .bool a, .bool b => a == b
    | .num a, .num b => a == b
    | .str a, .str b => a == b
    | .arr a, .arr b => JSON.beqList a b
    | .obj a, .obj b => JSON.beqKvs a b
    | _, _ => false
  def JSON.beqList : List JSON → List JSON → Bool
    | [], [] => true
    | a :: as, b :: bs => JSON.beq a b && JSON.beqList as bs
    | _, _ => false
  def JSON.beqKvs : List (Bytes × JSON) → List (Bytes × JSON) → Bool
    | [], [] => true
    | (k, a) :: as, (k', b) :: bs => k == k' && JSON.beq a b && JSON.beqKvs as bs
    | _, _ => false
end

mutual
  def Msg.beq : Msg → Msg → Bool
    | ⟨t, b, i, u, s, o, f, c, ins, ce, h, tr, a, x⟩, ⟨t', b', i', u', s', o', f', c', ins', ce', h', tr', a', x'⟩ =>
      t == t' && b == b' && i == i' && u == u' && s == s' && o == o' && f == f' && c == c' && ins == ins'
      && ce == ce' && tr == tr'
      && (match h, h' with
          | none, none => true
          | some (ha, hc, hv), some (ha', hc', hv') => ha == ha' && JSON.beq hc hc' && Msg.beq hv hv'
          | _, _ => false)
      && Msg.beqArgs a a' && Msg.beqList x x'
  def Msg.beqArgs : List (Msg ⊕ Bytes) → List (Msg ⊕ Bytes) → Bool
    | [], [] => true
    | .inl m :: r, .inl m' :: r' => Msg.beq m m' && Msg.beqArgs r r'
    | .inr s :: r, .inr s' :: r' => s == s' && Msg.beqArgs r r'
    | _, _ => false
  def Msg.beqList : List Msg → List Msg → Bool
    | [], [] => true
    | m :: r, m' :: r' => Msg.beq m m' && Msg.beqList r r'
    | _, _ => false
end

/-! ### plain text: `§` + format code is deleted -/

/-- the 22 format codes of the game, either case: `0-9 a-f k l m n o r` -/
def formatCodes : List Byte :=
  [0x30#8, 0x31#8, 0x32#8, 0x33#8, 0x34#8, 0x35#8, 0x36#8, 0x37#8, 0x38#8, 0x39#8,
   0x61#8, 0x62#8, 0x63#8, 0x64#8, 0x65#8, 0x66#8, 0x6b#8, 0x6c#8, 0x6d#8, 0x6e#8, 0x6f#8, 0x72#8,
   0x41#8, 0x42#8, 0x43#8, 0x44#8, 0x45#8, 0x46#8, 0x4b#8, 0x4c#8, 0x4d#8, 0x4e#8, 0x4f#8, 0x52#8]

def isFormatCode (c : Byte) : Bool := formatCodes.contains c

/-- `skip` = bytes of the `§`+code just deleted that are still to pass over -/
def stripGo : Nat → Bytes → Bytes
  | _, [] => []
  | skip + 1, _ :: r => stripGo skip r
  | 0, b :: r =>
    match r with
    | b2 :: c :: _ => if b = 0xC2#8 ∧ b2 = 0xA7#8 ∧ isFormatCode c = true then stripGo 2 r else b :: stripGo 0 r
    | _ => b :: stripGo 0 r

/-- left-to-right deletion of every `§` (U+00A7 = C2 A7) followed by a format code -/
def strip (bs : Bytes) : Bytes := stripGo 0 bs

/-! ### translation formats -/

/-- a piece of a translation format -/
inductive Seg where
  | lit (bs : Bytes)      -- literal text (no `%`)
  | next                  -- `%s`: the next argument
  | idx (n : Nat)         -- `%n$s` (written `%[n]s` in the Go tables), `n ≥ 1`
  | pct                   -- `%%`
deriving Repr, DecidableEq

/-- `%s` only: arguments in order (vanilla and Go agree) -/
def substSeq : List Seg → List Bytes → Bytes
  | [], _ => []
  | .lit bs :: r, as => bs ++ substSeq r as
  | .pct :: r, as => 0x25#8 :: substSeq r as
  | .next :: r, a :: as => a ++ substSeq r as
  | .next :: r, [] => substSeq r []
  | .idx _ :: r, as => substSeq r as

/-- `%n$s` only: arguments by index -/
def substIdx (as : List Bytes) : List Seg → Bytes
  | [] => []
  | .lit bs :: r => bs ++ substIdx as r
  | .pct :: r => 0x25#8 :: substIdx as r
  | .idx n :: r => (as.getD (n - 1) []) ++ substIdx as r
  | .next :: r => substIdx as r

/-- the format text of a segment list (Go table syntax) -/
def Seg.render : List Seg → Bytes
  | [] => []
  | .lit bs :: r => bs ++ Seg.render r
  | .next :: r => [0x25#8, 0x73#8] ++ Seg.render r
  | .pct :: r => [0x25#8, 0x25#8] ++ Seg.render r
  | .idx n :: r => [0x25#8, 0x5b#8] ++ decimalNat 25 n ++ [0x5d#8, 0x73#8] ++ Seg.render r

def consLit (b : Byte) : List Seg → List Seg
  | .lit bs :: r => .lit (b :: bs) :: r
  | r => .lit [b] :: r

def digitVal? (c : Byte) : Option Nat := if 0x30 ≤ c.toNat ∧ c.toNat ≤ 0x39 then some (c.toNat - 0x30) else none

/-- read a translation format made of literal text, `%s`, `%%` and `%[n]s` with `1 ≤ n ≤ 99`;
`none` for anything else (the spec then demands nothing) -/
def parseSegs : Bytes → Option (List Seg)
  | [] => some []
  | b :: rest =>
    if b ≠ 0x25#8 then (parseSegs rest).map (consLit b)
    else match rest with
      | c :: r1 =>
        if c = 0x73#8 then (parseSegs r1).map (Seg.next :: ·)
        else if c = 0x25#8 then (parseSegs r1).map (Seg.pct :: ·)
        else if c = 0x5b#8 then
          match r1 with
          | d1 :: c2 :: c3 :: r2 =>
            match digitVal? d1 with
            | none => none
            | some v1 =>
              if c2 = 0x5d#8 ∧ c3 = 0x73#8 ∧ v1 ≥ 1 then (parseSegs r2).map (Seg.idx v1 :: ·)
              else match digitVal? c2, r2 with
                | some v2, c4 :: r3 =>
                  if c3 = 0x5d#8 ∧ c4 = 0x73#8 ∧ v1 ≥ 1 then (parseSegs r3).map (Seg.idx (10 * v1 + v2) :: ·) else none
                | _, _ => none
          | _ => none
        else none
      | [] => none

def countNext : List Seg → Nat
  | [] => 0
  | .next :: r => countNext r + 1
  | _ :: r => countNext r
def maxIdx : List Seg → Nat
  | [] => 0
  | .idx n :: r => max n (maxIdx r)
  | _ :: r => maxIdx r
def hasIdx : List Seg → Bool
  | [] => false
  | .idx _ :: _ => true
  | _ :: r => hasIdx r

/-- what the property demands of a translated text: defined when the format uses `%s` only and consumes every
argument, or `%n$s` only with every index in range -/
def substitute (segs : List Seg) (as : List Bytes) : Option Bytes :=
  if !hasIdx segs then
    if countNext segs = as.length then some (substSeq segs as) else none
  else if countNext segs = 0 ∧ maxIdx segs ≤ as.length then some (substIdx as segs)
  else none

mutual
  /-- the plain text the property demands for a component under the translation table `lang`
  (`none`: outside the formats above). String arguments are inserted as they are. -/
  def plainOf (lang : Bytes → Option Bytes) : Msg → Option Bytes
    | ⟨text, _, _, _, _, _, _, _, _, _, _, translate, args, extra⟩ =>
      match (if translate = [] then some [] else
              match lang translate with
              | none => none
              | some fmt =>
                match parseSegs fmt, plainArgs lang args with
                | some segs, some as => substitute segs as
                | _, _ => none),
            plainList lang extra with
      | some tr, some xs => some (strip text ++ tr ++ xs)
      | _, _ => none
  def plainArgs (lang : Bytes → Option Bytes) : List (Msg ⊕ Bytes) → Option (List Bytes)
    | [] => some []
    | .inl m :: r =>
      match plainOf lang m, plainArgs lang r with
      | some s, some as => some (s :: as)
      | _, _ => none
    | .inr s :: r => (plainArgs lang r).map (s :: ·)
  def plainList (lang : Bytes → Option Bytes) : List Msg → Option Bytes
    | [] => some []
    | m :: r =>
      match plainOf lang m, plainList lang r with
      | some s, some ss => some (s ++ ss)
      | _, _ => none
end


/-! ### the NBT form of a component (what `WriteTo` must produce) -/

def optS (k s : Bytes) : List (Bytes × NBT) := if s = [] then [] else [(k, .string s)]
def optB (k : Bytes) (b : Bool) : List (Bytes × NBT) := if b then [(k, .byte 1)] else []

def clickForm : Option Click → List (Bytes × NBT)
  | none => []
  | some c => [(kClickEvent, .compound [(kAction, .string c.action), (kValue, .string c.value)])]

def isStrArg : Msg ⊕ Bytes → Bool
  | .inr _ => true
  | .inl _ => false

/-- the elements of an all-string argument list -/
def strForms : List (Msg ⊕ Bytes) → List NBT
  | [] => []
  | .inr s :: r => .string s :: strForms r
  | .inl _ :: r => strForms r

mutual
  /-- The compound a component is written as: a key for every non-empty field under its protocol name, strings as
  TAG_String, set flags as TAG_Byte 1, events as compounds, arguments as a list of strings (when all are plain
  strings) or of components (a plain string among components as the text component it stands for), extras as a
  list of components. `text` is always there unless a translation key is (then only when non-empty). Hover
  `contents` are not covered (absent). -/
  def nbtForm : Msg → NBT
    | ⟨text, bold, italic, underlined, strikethrough, obfuscated, font, color, insertion, click, hover, translate, args, extra⟩ =>
      .compound (
        (if translate ≠ [] then optS kText text else [(kText, .string text)])
        ++ optB kBold bold ++ optB kItalic italic ++ optB kUnderlined underlined
        ++ optB kStrikethrough strikethrough ++ optB kObfuscated obfuscated
        ++ optS kFont font ++ optS kColor color ++ optS kInsertion insertion
        ++ clickForm click ++ hoverForm hover ++ optS kTranslate translate ++ withForm args ++ extraForm extra)
  def hoverForm : Option (Bytes × JSON × Msg) → List (Bytes × NBT)
    | none => []
    | some (a, _, v) => [(kHoverEvent, .compound [(kAction, .string a), (kValue, nbtForm v)])]
  def withForm : List (Msg ⊕ Bytes) → List (Bytes × NBT)
    | [] => []
    | a :: as =>
      [(kWith, if (a :: as).all isStrArg then .list NBT.tagString (strForms (a :: as))
               else .list NBT.tagCompound (argForms (a :: as)))]
  def extraForm : List Msg → List (Bytes × NBT)
    | [] => []
    | x :: xs => [(kExtra, .list NBT.tagCompound (formList (x :: xs)))]
  def argForms : List (Msg ⊕ Bytes) → List NBT
    | [] => []
    | .inl m :: r => nbtForm m :: argForms r
    | .inr s :: r => .compound [(kText, .string s)] :: argForms r
  def formList : List Msg → List NBT
    | [] => []
    | m :: r => nbtForm m :: formList r
end

def shortStr (s : Bytes) : Prop := s.length < 32768

mutual
  /-- the components the NBT form can carry (and the theorems cover): strings below 32768 bytes, lists below 2^31
  elements, no hover contents -/
  def NbtOK : Msg → Prop
    | ⟨text, _, _, _, _, _, font, color, insertion, click, hover, translate, args, extra⟩ =>
      shortStr text ∧ shortStr font ∧ shortStr color ∧ shortStr insertion ∧ shortStr translate
      ∧ (match click with
         | none => True
         | some c => shortStr c.action ∧ shortStr c.value)
      ∧ (match hover with
         | none => True
         | some (a, c, v) => shortStr a ∧ c = .null ∧ NbtOK v)
      ∧ args.length < 2 ^ 31 ∧ NbtOKArgs args ∧ extra.length < 2 ^ 31 ∧ NbtOKList extra
  def NbtOKArgs : List (Msg ⊕ Bytes) → Prop
    | [] => True
    | .inl m :: r => NbtOK m ∧ NbtOKArgs r
    | .inr s :: r => shortStr s ∧ NbtOKArgs r
  def NbtOKList : List Msg → Prop
    | [] => True
    | m :: r => NbtOK m ∧ NbtOKList r
end

end GoMC.Spec
