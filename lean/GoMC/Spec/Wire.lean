/-
  Spec: the Minecraft protocol's field layouts (written from the protocol description, wiki.vg "Data types",
  not from the Go code):
    * fixed-width numbers are big-endian, two's complement;
    * VarInt/VarLong are LEB128 of the 32/64-bit pattern (Spec.LEB128);
    * String / ByteArray = VarInt byte length, then the bytes;  BitSet = VarInt count, then big-endian longs;
    * Position = one 64-bit word  x:26 | z:26 | y:12  (two's complement fields);
    * UUID = 16 raw bytes (an unsigned 128-bit big-endian integer);
    * "Array of X" = a count in the stated prefix type, then the elements;  Optional X = Boolean, then X if true.
  The universe `Ty` is the small term language shared by the harness and the driver
  (`tuple(varint,ary:short(string),option(long))`); `Ty.Abs` is the abstract value of a field.
-/
import GoMC.Basic.Core
import GoMC.Spec.LEB128
namespace GoMC.Spec

/-- `n` bytes, most significant first, of `x mod 256^n` -/
def be : Nat → Nat → Bytes
  | 0, _ => []
  | n + 1, x => BitVec.ofNat 8 (x / 256 ^ n) :: be n x

/-- the number a big-endian byte string denotes -/
def unbe (bs : Bytes) : Nat := bs.foldl (fun acc b => acc * 256 + b.toNat) 0

theorem be_length (n x : Nat) : (be n x).length = n := by
  induction n with
  | zero => rfl
  | succ n ih => simp [be, ih]

theorem unbe_foldl (bs : Bytes) (a : Nat) :
    bs.foldl (fun acc b => acc * 256 + b.toNat) a = a * 256 ^ bs.length + unbe bs := by
  induction bs generalizing a with
  | nil => simp [unbe]
  | cons b bs ih =>
    simp only [List.foldl_cons, unbe, List.length_cons]
    rw [ih, ih (0 * 256 + b.toNat)]
    rw [Nat.pow_succ, Nat.add_mul]
    simp [Nat.mul_assoc, Nat.mul_comm, Nat.add_assoc]

/-- spec sanity: reading a big-endian string back gives the number (mod 256^n) -/
theorem unbe_be (n x : Nat) : unbe (be n x) = x % 256 ^ n := by
  induction n with
  | zero => simp [be, unbe, Nat.mod_one]
  | succ n ih =>
    simp only [be, unbe, List.foldl_cons]
    rw [unbe_foldl, ih, be_length]
    simp only [Nat.zero_mul, Nat.zero_add, BitVec.toNat_ofNat]
    have h256 : (2:Nat) ^ 8 = 256 := by decide
    rw [h256, Nat.pow_succ, Nat.mod_mul, Nat.mul_comm]
    omega

/-- the prefix types an "Array of X" can be counted with -/
inductive LenKind where
  | varint | varlong | byte | ubyte | short | ushort | int | long
deriving DecidableEq, Repr

/-- the count is written in the prefix type's own layout -/
def LenKind.wire : LenKind → Nat → Bytes
  | .varint, n => leb n
  | .varlong, n => leb n
  | .byte, n => be 1 n
  | .ubyte, n => be 1 n
  | .short, n => be 2 n
  | .ushort, n => be 2 n
  | .int, n => be 4 n
  | .long, n => be 8 n

/-- counts the prefix type can represent as a non-negative number: `0 ≤ n < bound` -/
def LenKind.bound : LenKind → Nat
  | .varint => 2 ^ 31
  | .varlong => 2 ^ 63
  | .byte => 2 ^ 7
  | .ubyte => 2 ^ 8
  | .short => 2 ^ 15
  | .ushort => 2 ^ 16
  | .int => 2 ^ 31
  | .long => 2 ^ 63

/-- field types -/
inductive Ty where
  | bool | byte | ubyte | short | ushort | int | long | float | double
  | string | varint | varlong | position | angle | uuid
  | bytearray | pluginmsg | bitset
  | fixedbits (n : Nat)
  | unit
  | pair (a b : Ty)          -- `tuple(a,b,c)` is `pair a (pair b (pair c unit))`
  | option (t : Ty)          -- Boolean, then the value if true
  | opt1 (t : Ty)            -- `Opt` whose `Has` is true: just the value
  | opt0 (t : Ty)            -- `Opt` whose `Has` is false: nothing on the wire
  | ary (l : LenKind) (t : Ty)
deriving DecidableEq, Repr

/-- abstract values (integers and floats are bit patterns) -/
@[reducible] def Ty.Abs : Ty → Type
  | .bool => Bool
  | .byte | .ubyte | .angle => BitVec 8
  | .short | .ushort => BitVec 16
  | .int | .float | .varint => BitVec 32
  | .long | .double | .varlong => BitVec 64
  | .string | .bytearray | .pluginmsg => Bytes
  | .position => BitVec 64 × BitVec 64 × BitVec 64     -- X, Y, Z (Go `int`)
  | .uuid => BitVec 128
  | .bitset => List (BitVec 64)
  | .fixedbits n => BitVec (8 * n)
  | .unit => Unit
  | .pair a b => a.Abs × b.Abs
  | .option t => Option t.Abs
  | .opt1 t => t.Abs
  | .opt0 _ => Unit
  | .ary _ t => List t.Abs

/-- the packed position word: x in bits 63..38, z in bits 37..12, y in bits 11..0 -/
def posPack (x y z : Int) : Nat :=
  (x % 2 ^ 26).toNat * 2 ^ 38 + (z % 2 ^ 26).toNat * 2 ^ 12 + (y % 2 ^ 12).toNat

/-- the cube of positions the format can carry -/
def posIn (x y z : Int) : Prop :=
  -(2 ^ 25) ≤ x ∧ x < 2 ^ 25 ∧ -(2 ^ 11) ≤ y ∧ y < 2 ^ 11 ∧ -(2 ^ 25) ≤ z ∧ z < 2 ^ 25

instance (x y z : Int) : Decidable (posIn x y z) := by unfold posIn; exact inferInstance

/-- the bytes on the wire -/
def wire : (t : Ty) → t.Abs → Bytes
  | .bool, b => [if b then 1 else 0]
  | .byte, v | .ubyte, v | .angle, v => be 1 v.toNat
  | .short, v | .ushort, v => be 2 v.toNat
  | .int, v | .float, v => be 4 v.toNat
  | .long, v | .double, v => be 8 v.toNat
  | .varint, v => leb v.toNat
  | .varlong, v => leb v.toNat
  | .string, bs | .bytearray, bs => leb bs.length ++ bs
  | .pluginmsg, bs => bs
  | .position, (x, y, z) => be 8 (posPack x.toInt y.toInt z.toInt)
  | .uuid, v => be 16 v.toNat
  | .bitset, xs => leb xs.length ++ (xs.map fun x => be 8 x.toNat).flatten
  | .fixedbits n, v => be n v.toNat
  | .unit, _ => []
  | .pair a b, (x, y) => wire a x ++ wire b y
  | .option _, none => [0]
  | .option t, some v => 1 :: wire t v
  | .opt1 t, v => wire t v
  | .opt0 _, _ => []
  | .ary l t, xs => l.wire xs.length ++ (xs.map (wire t)).flatten

/-- the protocol domain of each type (outside it the codec is lossy by design, and nothing is claimed).
String / Identifier: the VarInt prefix counts UTF-8 BYTES and the domain is `length in bytes < 2^31` (what a
non-negative VarInt can carry). The protocol's "max 32767" for String is a limit in CHARACTERS (up to 3 bytes
each, so up to 98301 bytes); the library enforces no character-count limit on either side, and a reader-side
guard on the byte prefix (e.g. 32767) would reject strings the writer emits. -/
def inDom : (t : Ty) → t.Abs → Prop
  | .string, bs | .bytearray, bs => bs.length < 2 ^ 31
  | .bitset, xs => xs.length < 2 ^ 31
  | .position, (x, y, z) => posIn x.toInt y.toInt z.toInt
  | .pair a b, (x, y) => inDom a x ∧ inDom b y
  | .option _, none => True
  | .option t, some v => inDom t v
  | .opt1 t, v => inDom t v
  | .ary l t, xs => xs.length < l.bound ∧ ∀ x ∈ xs, inDom t x
  | _, _ => True

/-- executable version of `inDom` for the driver's oracle -/
def inDomB : (t : Ty) → t.Abs → Bool
  | .string, bs | .bytearray, bs => bs.length < 2 ^ 31
  | .bitset, xs => xs.length < 2 ^ 31
  | .position, (x, y, z) => decide (posIn x.toInt y.toInt z.toInt)
  | .pair a b, (x, y) => inDomB a x && inDomB b y
  | .option _, none => true
  | .option t, some v => inDomB t v
  | .opt1 t, v => inDomB t v
  | .ary l t, xs => decide (xs.length < l.bound) && xs.all (inDomB t)
  | _, _ => true

/-- types whose decoder stops at the end of its own encoding (everything but "the rest of the packet") -/
def Ty.regular : Ty → Bool
  | .pluginmsg => false
  | .pair a b => a.regular && b.regular
  | .option t | .opt1 t | .opt0 t | .ary _ t => t.regular
  | _ => true

end GoMC.Spec
