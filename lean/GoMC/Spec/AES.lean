/-
  GoMC.Spec.AES — an executable AES (FIPS-197) forward cipher, for the correspondence driver only.
  NO proof depends on this file: the C10 theorems are stated for an arbitrary block function `E`.
  It is validated (1) against the FIPS-197 example vectors by `selfTest` (run by the driver's
  `aes.selftest` op) and (2) against Go's crypto/aes on every run (`aes.block` lines).

  Also `toyBlock`, a keyed byte mixer with a free block size, mirrored byte for byte by `toyBlock` in
  harness/c10.go, so that block sizes other than 16 are exercised.
-/
import GoMC.Basic.Core
namespace GoMC.Spec.AES
open GoMC

/-- multiply by x in GF(2^8) modulo x^8 + x^4 + x^3 + x + 1 -/
@[inline] def xtime (a : UInt8) : UInt8 :=
  (a <<< 1) ^^^ (if a &&& 0x80 != 0 then 0x1b else 0)

@[inline] def rotl8 (x : UInt8) (k : UInt8) : UInt8 := (x <<< k) ||| (x >>> (8 - k))

/-- the S-box, generated from its definition (multiplicative inverse, then the affine map):
`p` walks the powers of the generator 3, `q` the powers of its inverse -/
def sbox : Array UInt8 := Id.run do
  let mut t : Array UInt8 := Array.replicate 256 0
  let mut p : UInt8 := 1
  let mut q : UInt8 := 1
  for _ in [0:255] do
    -- p := p * 3
    p := p ^^^ xtime p
    -- q := q / 3
    q := q ^^^ (q <<< 1)
    q := q ^^^ (q <<< 2)
    q := q ^^^ (q <<< 4)
    if q &&& 0x80 != 0 then q := q ^^^ 0x09
    let x := q ^^^ rotl8 q 1 ^^^ rotl8 q 2 ^^^ rotl8 q 3 ^^^ rotl8 q 4
    t := t.set! p.toNat (x ^^^ 0x63)
  t := t.set! 0 0x63
  return t

@[inline] def sub (b : UInt8) : UInt8 := sbox[b.toNat]!

/-- key schedule: `4·(Nr+1)` words as bytes; `none` unless the key has 16, 24 or 32 bytes -/
def expandKey (key : Array UInt8) : Option (Array UInt8 × Nat) :=
  let nk := key.size / 4
  if key.size != 16 && key.size != 24 && key.size != 32 then none else
  let nr := nk + 6
  let total := 4 * (nr + 1)
  some (Id.run do
    let mut w : Array UInt8 := key
    let mut rcon : UInt8 := 1
    for i in [nk:total] do
      let mut t0 := w[4 * (i - 1)]!
      let mut t1 := w[4 * (i - 1) + 1]!
      let mut t2 := w[4 * (i - 1) + 2]!
      let mut t3 := w[4 * (i - 1) + 3]!
      if i % nk == 0 then
        -- SubWord(RotWord(temp)) xor Rcon
        let a0 := sub t1 ^^^ rcon
        let a1 := sub t2
        let a2 := sub t3
        let a3 := sub t0
        t0 := a0; t1 := a1; t2 := a2; t3 := a3
        rcon := xtime rcon
      else if nk > 6 && i % nk == 4 then
        t0 := sub t0; t1 := sub t1; t2 := sub t2; t3 := sub t3
      w := w.push (w[4 * (i - nk)]! ^^^ t0)
      w := w.push (w[4 * (i - nk) + 1]! ^^^ t1)
      w := w.push (w[4 * (i - nk) + 2]! ^^^ t2)
      w := w.push (w[4 * (i - nk) + 3]! ^^^ t3)
    return w, nr)

def addRoundKey (s rk : Array UInt8) (round : Nat) : Array UInt8 :=
  Array.ofFn (n := 16) fun i => s[i.val]! ^^^ rk[16 * round + i.val]!

/-- SubBytes then ShiftRows (state index = 4·column + row) -/
def subShift (s : Array UInt8) : Array UInt8 :=
  Array.ofFn (n := 16) fun i =>
    let r := i.val % 4
    let c := i.val / 4
    sub s[4 * ((c + r) % 4) + r]!

def mixColumns (s : Array UInt8) : Array UInt8 :=
  Array.ofFn (n := 16) fun i =>
    let r := i.val % 4
    let c := i.val / 4
    let a0 := s[4 * c + r]!
    let a1 := s[4 * c + (r + 1) % 4]!
    let a2 := s[4 * c + (r + 2) % 4]!
    let a3 := s[4 * c + (r + 3) % 4]!
    -- 2·a0 + 3·a1 + a2 + a3
    xtime a0 ^^^ (xtime a1 ^^^ a1) ^^^ a2 ^^^ a3

def encryptArr (rk : Array UInt8) (nr : Nat) (blk : Array UInt8) : Array UInt8 := Id.run do
  let mut s := addRoundKey blk rk 0
  for round in [1:nr] do
    s := addRoundKey (mixColumns (subShift s)) rk round
  return addRoundKey (subShift s) rk nr

def toArr (b : Bytes) : Array UInt8 := (b.map fun x => UInt8.ofNat x.toNat).toArray
def ofArr (a : Array UInt8) : Bytes := a.toList.map fun x => BitVec.ofNat 8 x.toNat

/-- the forward block function under `key`, on 16-byte blocks -/
def blockFn (key : Bytes) : Option (Bytes → Bytes) :=
  match expandKey (toArr key) with
  | none => none
  | some (rk, nr) => some fun blk => ofArr (encryptArr rk nr (toArr blk))

def hexNib (c : Char) : Nat :=
  if '0' ≤ c ∧ c ≤ '9' then c.toNat - 48 else if 'a' ≤ c ∧ c ≤ 'f' then c.toNat - 87 else 0

def hexBytes (s : String) : Bytes :=
  let rec go : List Char → Bytes
    | a :: b :: rest => BitVec.ofNat 8 (16 * hexNib a + hexNib b) :: go rest
    | _ => []
  go s.toList

/-- FIPS-197 Appendix B and Appendix C.1–C.3 (key, plaintext, ciphertext), and three S-box entries -/
def vectors : List (String × String × String) := [
  ("2b7e151628aed2a6abf7158809cf4f3c", "3243f6a8885a308d313198a2e0370734", "3925841d02dc09fbdc118597196a0b32"),
  ("000102030405060708090a0b0c0d0e0f", "00112233445566778899aabbccddeeff", "69c4e0d86a7b0430d8cdb78070b4c55a"),
  ("000102030405060708090a0b0c0d0e0f1011121314151617", "00112233445566778899aabbccddeeff",
   "dda97ca4864cdfe06eaf70a0ec0d7191"),
  ("000102030405060708090a0b0c0d0e0f101112131415161718191a1b1c1d1e1f", "00112233445566778899aabbccddeeff",
   "8ea2b7ca516745bfeafc49904b496089")]

/-- `none` when every vector checks, otherwise the first failure -/
def selfTest : Option String :=
  if sub 0x00 != 0x63 || sub 0x53 != 0xed || sub 0xff != 0x16 then some "sbox" else
  vectors.findSome? fun (k, p, c) =>
    match blockFn (hexBytes k) with
    | none => some ("key " ++ k)
    | some f => if f (hexBytes p) == hexBytes c then none else some ("vector " ++ k)

/-! ### toy block function (free block size) -/

/-- `out[i] = rotl8(in[i] + acc + key[(7i+3) mod |key|], i mod 8) xor in[(i+1) mod bs] xor i` with
`acc = fold (acc·31 + in[j] + key[j mod |key|])` from `0x5a` — every output byte depends on every input
byte and on its position. Reads the first `bs` bytes of `blk`. -/
def toyBlock (bs : Nat) (key : Bytes) (blk : Bytes) : Bytes :=
  let k := toArr key
  let a := toArr (blk.take bs)
  let kl := k.size
  let acc : UInt8 := (List.range bs).foldl (fun (acc : UInt8) (j : Nat) => acc * (31 : UInt8) + a[j]! + k[j % kl]!) (0x5a : UInt8)
  ofArr (Array.ofFn (n := bs) fun i =>
    rotl8 (a[i.val]! + acc + k[(7 * i.val + 3) % kl]!) (UInt8.ofNat (i.val % 8))
      ^^^ a[(i.val + 1) % bs]! ^^^ UInt8.ofNat (i.val % 256))

end GoMC.Spec.AES
