/-
  GoMC.Spec.Anvil — the Anvil region container, read independently of the Go code (C14, C15).

  Written from the format description (Minecraft wiki, "Region file format"):
  * bytes 0..4095: 1024 location entries, entry `k = 32*z + x`, big-endian 4 bytes:
    3 bytes sector offset, 1 byte sector count (`offset << 8 | count`); an all-zero entry = chunk absent;
  * bytes 4096..8191: 1024 big-endian 4-byte timestamps;
  * a present chunk's data starts at byte `4096 * offset`: a 4-byte big-endian length `L` followed by
    `L` bytes (go-mc stores the compression-type byte as the first of these `L` bytes);
  * sectors are 4096 bytes; sectors 0 and 1 are the header; the runs `[offset, offset+count)` of
    different chunks do not overlap.
-/
namespace GoMC.Spec.Anvil

def byteAt (f : ByteArray) (i : Nat) : Nat := if h : i < f.size then (f[i]).toNat else 0

/-- big-endian 32-bit unsigned number at byte `i` -/
def u32 (f : ByteArray) (i : Nat) : Nat :=
  ((byteAt f i * 256 + byteAt f (i + 1)) * 256 + byteAt f (i + 2)) * 256 + byteAt f (i + 3)

/-- location entry of chunk `k` -/
def entry (f : ByteArray) (k : Nat) : Nat := u32 f (4 * k)
def sector (f : ByteArray) (k : Nat) : Nat := entry f k / 256
def count (f : ByteArray) (k : Nat) : Nat := entry f k % 256
def timestamp (f : ByteArray) (k : Nat) : Nat := u32 f (4096 + 4 * k)
def present (f : ByteArray) (k : Nat) : Bool := entry f k != 0

/-- declared byte length of chunk `k` -/
def chunkLen (f : ByteArray) (k : Nat) : Nat := u32 f (4096 * sector f k)

/-- the stored bytes of chunk `k`, `none` when the entry says "absent" -/
def chunk (f : ByteArray) (k : Nat) : Option ByteArray :=
  if present f k then
    some (f.extract (4096 * sector f k + 4) (4096 * sector f k + 4 + chunkLen f k))
  else none

/-- entry `k` is well formed: after the header, length word and data inside the run and inside the file -/
def EntryOk (f : ByteArray) (k : Nat) : Prop :=
  present f k = true →
    2 ≤ sector f k ∧ 4 + chunkLen f k ≤ 4096 * count f k ∧ 4096 * sector f k + 4 + chunkLen f k ≤ f.size

def Disjoint (f : ByteArray) (k k' : Nat) : Prop :=
  present f k = true → present f k' = true →
    sector f k + count f k ≤ sector f k' ∨ sector f k' + count f k' ≤ sector f k

/-- the file is a valid Anvil region -/
def Valid (f : ByteArray) : Prop :=
  8192 ≤ f.size ∧ (∀ k, k < 1024 → EntryOk f k) ∧
    (∀ k k', k < 1024 → k' < 1024 → k ≠ k' → Disjoint f k k')

end GoMC.Spec.Anvil
