/-
  Spec: the NBT binary format (Named Binary Tag), written from the format description
  (wiki.vg / minecraft.wiki "NBT format"), independent of the Go code.

  * 13 tag ids 0..12; all numbers big-endian, signed; strings = unsigned 16-bit byte length + bytes
    (the format's "modified UTF-8" is carried as raw bytes here);
  * List = element tag id, signed 32-bit count, payloads; Compound = (tag id, name, payload)* then End;
  * a document = tag id, [name — file format only], payload.  Network format (≥ 1.20.2) has no root name.
-/
import GoMC.Basic.Core
namespace GoMC.Spec

/-- An NBT value as a tree. Floats are carried as bit patterns. -/
inductive NBT where
  | byte (v : BitVec 8)
  | short (v : BitVec 16)
  | int (v : BitVec 32)
  | long (v : BitVec 64)
  | float (bits : BitVec 32)
  | double (bits : BitVec 64)
  | byteArray (xs : List (BitVec 8))
  | string (s : Bytes)
  | list (elem : BitVec 8) (xs : List NBT)
  | compound (kvs : List (Bytes × NBT))
  | intArray (xs : List (BitVec 32))
  | longArray (xs : List (BitVec 64))
deriving Repr, Inhabited

namespace NBT

def tagEnd : BitVec 8 := 0
def tagByte : BitVec 8 := 1
def tagShort : BitVec 8 := 2
def tagInt : BitVec 8 := 3
def tagLong : BitVec 8 := 4
def tagFloat : BitVec 8 := 5
def tagDouble : BitVec 8 := 6
def tagByteArray : BitVec 8 := 7
def tagString : BitVec 8 := 8
def tagList : BitVec 8 := 9
def tagCompound : BitVec 8 := 10
def tagIntArray : BitVec 8 := 11
def tagLongArray : BitVec 8 := 12

/-- the tag id of a value -/
def tag : NBT → BitVec 8
  | byte _ => tagByte | short _ => tagShort | int _ => tagInt | long _ => tagLong
  | float _ => tagFloat | double _ => tagDouble | byteArray _ => tagByteArray | string _ => tagString
  | list _ _ => tagList | compound _ => tagCompound | intArray _ => tagIntArray | longArray _ => tagLongArray

end NBT

/-- big-endian encoding of the low `8*k` bits of `n`, `k` bytes -/
def beBytes : (k : Nat) → (n : Nat) → Bytes
  | 0, _ => []
  | k + 1, n => BitVec.ofNat 8 (n / 256 ^ k) :: beBytes k n

/-- big-endian value of a byte string -/
def beVal : Bytes → Nat
  | [] => 0
  | b :: bs => b.toNat * 256 ^ bs.length + beVal bs

def be16 (v : BitVec 16) : Bytes := beBytes 2 v.toNat
def be32 (v : BitVec 32) : Bytes := beBytes 4 v.toNat
def be64 (v : BitVec 64) : Bytes := beBytes 8 v.toNat

/-- a string: unsigned 16-bit length, then the bytes -/
def encString (s : Bytes) : Bytes := beBytes 2 s.length ++ s

mutual
  /-- the payload of a value (no tag id, no name) -/
  def encPayload : NBT → Bytes
    | .byte v => [v]
    | .short v => be16 v
    | .int v => be32 v
    | .long v => be64 v
    | .float b => be32 b
    | .double b => be64 b
    | .byteArray xs => beBytes 4 xs.length ++ xs
    | .string s => encString s
    | .list e xs => e :: beBytes 4 xs.length ++ encList xs
    | .compound kvs => encKvs kvs
    | .intArray xs => beBytes 4 xs.length ++ (xs.map be32).flatten
    | .longArray xs => beBytes 4 xs.length ++ (xs.map be64).flatten
  def encList : List NBT → Bytes
    | [] => []
    | x :: xs => encPayload x ++ encList xs
  def encKvs : List (Bytes × NBT) → Bytes
    | [] => [NBT.tagEnd]
    | (k, v) :: kvs => v.tag :: encString k ++ encPayload v ++ encKvs kvs
end

inductive Format | file | network
deriving Repr, DecidableEq

/-- a whole document: tag id, root name (file format only), payload -/
def encDoc (fmt : Format) (name : Bytes) (t : NBT) : Bytes :=
  match fmt with
  | .file => t.tag :: encString name ++ encPayload t
  | .network => t.tag :: encPayload t

mutual
  /-- well-formedness: what the format can represent -/
  def NBT.WF : NBT → Prop
    | .byteArray xs => xs.length < 2 ^ 31
    | .string s => s.length < 2 ^ 16
    | .list e xs => xs.length < 2 ^ 31 ∧ (xs = [] ∨ e ≠ NBT.tagEnd) ∧ e.toNat ≤ 12 ∧ NBT.WFList e xs
    | .compound kvs => NBT.WFKvs kvs
    | .intArray xs => xs.length < 2 ^ 31
    | .longArray xs => xs.length < 2 ^ 31
    | _ => True
  def NBT.WFList (e : BitVec 8) : List NBT → Prop
    | [] => True
    | x :: xs => x.tag = e ∧ NBT.WF x ∧ NBT.WFList e xs
  def NBT.WFKvs : List (Bytes × NBT) → Prop
    | [] => True
    | (k, v) :: kvs => k.length < 2 ^ 16 ∧ NBT.WF v ∧ NBT.WFKvs kvs
end

/-! ### The independent reader -/

def take? (n : Nat) (bs : Bytes) : Option (Bytes × Bytes) :=
  if n ≤ bs.length then some (bs.take n, bs.drop n) else none

/-- signed 32-bit big-endian count; `none` if negative or input too short -/
def readCount (bs : Bytes) : Option (Nat × Bytes) :=
  match take? 4 bs with
  | some (h, r) => if beVal h < 2 ^ 31 then some (beVal h, r) else none
  | none => none

def readString (bs : Bytes) : Option (Bytes × Bytes) :=
  match take? 2 bs with
  | some (h, r) => take? (beVal h) r
  | none => none

/-- `n` fixed-width big-endian numbers of `k` bytes each -/
def readNums (k : Nat) : Nat → Bytes → Option (List Nat × Bytes)
  | 0, bs => some ([], bs)
  | n + 1, bs =>
    match take? k bs with
    | some (h, r) =>
      match readNums k n r with
      | some (xs, r') => some (beVal h :: xs, r')
      | none => none
    | none => none

mutual
  /-- read the payload of a value with tag id `tag`; `fuel` bounds the nesting depth -/
  def parsePayload : Nat → BitVec 8 → Bytes → Option (NBT × Bytes)
    | 0, _, _ => none
    | fuel + 1, tag, bs =>
      match tag.toNat with
      | 1 => (take? 1 bs).bind fun (h, r) => some (.byte (BitVec.ofNat 8 (beVal h)), r)
      | 2 => (take? 2 bs).bind fun (h, r) => some (.short (BitVec.ofNat 16 (beVal h)), r)
      | 3 => (take? 4 bs).bind fun (h, r) => some (.int (BitVec.ofNat 32 (beVal h)), r)
      | 4 => (take? 8 bs).bind fun (h, r) => some (.long (BitVec.ofNat 64 (beVal h)), r)
      | 5 => (take? 4 bs).bind fun (h, r) => some (.float (BitVec.ofNat 32 (beVal h)), r)
      | 6 => (take? 8 bs).bind fun (h, r) => some (.double (BitVec.ofNat 64 (beVal h)), r)
      | 7 => (readCount bs).bind fun (n, r) => (take? n r).bind fun (xs, r') => some (.byteArray xs, r')
      | 8 => (readString bs).bind fun (s, r) => some (.string s, r)
      | 9 =>
        match bs with
        | [] => none
        | e :: r =>
          (readCount r).bind fun (n, r') =>
            if e.toNat > 12 then none
            else if e = NBT.tagEnd ∧ n ≠ 0 then none
            else (parseList fuel e n r').bind fun (xs, r'') => some (.list e xs, r'')
      | 10 => (parseKvs fuel bs.length bs).bind fun (kvs, r) => some (.compound kvs, r)
      | 11 => (readCount bs).bind fun (n, r) => (readNums 4 n r).bind fun (xs, r') =>
                some (.intArray (xs.map (BitVec.ofNat 32)), r')
      | 12 => (readCount bs).bind fun (n, r) => (readNums 8 n r).bind fun (xs, r') =>
                some (.longArray (xs.map (BitVec.ofNat 64)), r')
      | _ => none
  def parseList : Nat → BitVec 8 → Nat → Bytes → Option (List NBT × Bytes)
    | _, _, 0, bs => some ([], bs)
    | fuel, e, n + 1, bs =>
      match parsePayload fuel e bs with
      | some (x, r) =>
        match parseList fuel e n r with
        | some (xs, r') => some (x :: xs, r')
        | none => none
      | none => none
  /-- entries until the End tag; `width` bounds the number of entries (each consumes ≥ 1 byte) -/
  def parseKvs : Nat → Nat → Bytes → Option (List (Bytes × NBT) × Bytes)
    | _, _, [] => none
    | fuel, width, t :: r =>
      if t = NBT.tagEnd then some ([], r)
      else match width with
        | 0 => none
        | width + 1 =>
          match readString r with
          | some (k, r') =>
            match parsePayload fuel t r' with
            | some (v, r'') =>
              match parseKvs fuel width r'' with
              | some (kvs, r''') => some ((k, v) :: kvs, r''')
              | none => none
            | none => none
          | none => none
end

/-- read a whole document: `(root name, value, rest)`; the nesting fuel is the input length -/
def parseDoc (fmt : Format) (bs : Bytes) : Option (Bytes × NBT × Bytes) :=
  match bs with
  | [] => none
  | t :: r =>
    match fmt with
    | .file => (readString r).bind fun (name, r') =>
        (parsePayload (bs.length + 1) t r').bind fun (v, r'') => some (name, v, r'')
    | .network => (parsePayload (bs.length + 1) t r).bind fun (v, r') => some ([], v, r')

-- nesting depth (fuel that suffices for `parsePayload`)
mutual
  def NBT.depth : NBT → Nat
    | .list _ xs => NBT.depthList xs + 1
    | .compound kvs => NBT.depthKvs kvs + 1
    | _ => 1
  def NBT.depthList : List NBT → Nat
    | [] => 0
    | x :: xs => max (NBT.depth x) (NBT.depthList xs)
  def NBT.depthKvs : List (Bytes × NBT) → Nat
    | [] => 0
    | (_, v) :: kvs => max (NBT.depth v) (NBT.depthKvs kvs)
end

end GoMC.Spec
