/-
  Spec: the Minecraft protocol's packet frame, written from the protocol description
  (wiki.vg "Protocol", section "Packet format"), independent of the Go code.

  Without compression
      Length      VarInt      length of Packet ID + Data
      Packet ID   VarInt
      Data        bytes
  With compression (after Set Compression with a non-negative threshold)
      Packet Length   VarInt  length of (Data Length) + length of what follows
      Data Length     VarInt  0, or the length of the uncompressed (Packet ID + Data)
      then, if Data Length = 0: Packet ID and Data in the clear;
      otherwise one zlib stream that inflates to Packet ID + Data, exactly Data Length bytes long;
      a compressed packet whose Data Length is below the threshold is a protocol error;
      the uncompressed Packet ID + Data is at most 2097152 bytes.
  A VarInt is a little-endian base-128 number of at most 5 bytes carrying a 32-bit two's complement pattern.

  zlib is a parameter: `inflate z = some x` means "z is one complete, valid zlib stream and x is its content".
-/
import GoMC.Basic.Core
import GoMC.Spec.LEB128
namespace GoMC.Spec

/-- the protocol maximum for the uncompressed Packet ID + Data -/
def maxDataLength : Nat := 2097152

/-- a VarInt on the wire: at most five bytes, a 32-bit pattern -/
def readVarInt (bs : Bytes) : Option (Nat × Bytes) :=
  match unleb bs with
  | some (n, r) => if bs.length - r.length ≤ 5 ∧ n < 2 ^ 32 then some (n, r) else none
  | none => none

/-- the signed reading of a 32-bit pattern -/
def int32 (n : Nat) : Int := if n < 2 ^ 31 then (n : Int) else (n : Int) - 2 ^ 32

/-- a packet: id (32-bit pattern) and payload -/
abbrev Packet := BitVec 32 × Bytes

/-- `Packet ID ++ Data` in the clear -/
def readBody (body : Bytes) : Option Packet :=
  match readVarInt body with
  | some (id, data) => if body.length ≤ maxDataLength then some (BitVec.ofNat 32 id, data) else none
  | none => none

/-- one frame of the uncompressed format from the front of `bs`; the bytes after it -/
def readPlain (bs : Bytes) : Option (Packet × Bytes) :=
  match readVarInt bs with
  | none => none
  | some (len, r) =>
    if 0 ≤ int32 len ∧ len ≤ r.length then
      match readBody (r.take len) with
      | some p => some (p, r.drop len)
      | none => none
    else none

/-- one frame of the compressed format (threshold `t ≥ 0`) from the front of `bs` -/
def readCompressed (inflate : Bytes → Option Bytes) (t : Int) (bs : Bytes) : Option (Packet × Bytes) :=
  match readVarInt bs with
  | none => none
  | some (plen, r) =>
    if 0 ≤ int32 plen ∧ plen ≤ r.length then
      match readVarInt (r.take plen) with
      | none => none
      | some (dlen, body) =>
        if dlen = 0 then
          match readBody body with
          | some p => some (p, r.drop plen)
          | none => none
        else if t ≤ int32 dlen ∧ int32 dlen ≤ maxDataLength then
          match inflate body with
          | some x =>
            if x.length = dlen then
              match readBody x with
              | some p => some (p, r.drop plen)
              | none => none
            else none
          | none => none
        else none
    else none

/-- the protocol's frame reader: compression is enabled iff the threshold is non-negative -/
def readFrame (inflate : Bytes → Option Bytes) (t : Int) (bs : Bytes) : Option (Packet × Bytes) :=
  if 0 ≤ t then readCompressed inflate t bs else readPlain bs

/-- the Data Length field of a compressed-format frame (for statements about it) -/
def dataLengthField (bs : Bytes) : Option Nat :=
  match readVarInt bs with
  | none => none
  | some (plen, r) =>
    match readVarInt (r.take plen) with
    | some (dlen, _) => some dlen
    | none => none

/-! ### spec sanity -/

theorem leb_length_le5 {n : Nat} (h : n < 2 ^ 32) : (leb n).length ≤ 5 := by
  rw [leb_length_le n 5 (by omega)]
  have : (128 : Nat) ^ 5 = 34359738368 := by decide
  omega

/-- the reader recovers a minimally encoded VarInt and leaves the rest -/
theorem readVarInt_leb {n : Nat} (h : n < 2 ^ 32) (rest : Bytes) :
    readVarInt (leb n ++ rest) = some (n, rest) := by
  unfold readVarInt
  rw [unleb_leb]
  have := leb_length_le5 h
  simp only [List.length_append]
  rw [if_pos ⟨by omega, h⟩]

theorem int32_of_lt {n : Nat} (h : n < 2 ^ 31) : int32 n = (n : Int) := by
  unfold int32; simp [h]

end GoMC.Spec
