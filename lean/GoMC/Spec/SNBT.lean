/-
  Spec: an independent recursive-descent reading of the SNBT text grammar (stringified NBT), producing the `NBT`
  tree of `Spec/NBT.lean`.  Written from the format description (minecraft.wiki "NBT format § SNBT", Java
  edition ≤ 1.21.4 syntax), not from the Go scanner.

      document  := value ws* <end of text>
      value     := ws* ( compound | array | list | quoted | token )
      compound  := '{' ws* '}'  |  '{' entry ( ws* ',' entry )* ws* '}'
      entry     := ws* key ws* ':' value                  key := quoted | token (taken as it stands)
      array     := '[' ws* ('B'|'I'|'L') ';' ws* ']'  |  '[' ws* ('B'|'I'|'L') ';' elem ( ws* ',' elem )* ws* ']'
      elem      := ws* token         -- an integer literal of the array's element type
      list      := '[' ws* ']'  |  '[' value ( ws* ',' value )* ws* ']'        -- all values of one tag type
      quoted    := '"' ( [^"\] | '\' '"' | '\' '\' )* '"'   |  the same with '
      token     := [0-9A-Za-z_.+-]+  (maximal run)
      ws        := ' ' | TAB | CR | LF

  A token is read as
      integer   [+-]? [0-9]+  with suffix  b|B → Byte,  s|S → Short,  i|I or none → Int,  l|L → Long
                              (out of the type's range: the text is malformed),  f|F → Float,  d|D → Double;
      decimal   [+-]? [0-9]+ '.' [0-9]+ ( [eE] [+-]? [0-9]+ )?  with suffix f|F → Float, d|D or none → Double
                              (value = the correctly rounded IEEE number — a parameter `FloatSem`; overflow: malformed);
      string    a token that begins with a letter or '_' is the string of its bytes.
  Where published descriptions of SNBT disagree or are silent the reader answers `unspecified` and the oracle
  demands nothing about the content (only that an accepted text yields a well-formed document): tokens that begin
  with a digit, sign or '.' and are neither of the two number forms above (`1e5`, `.5`, `1.`, `1.d`, `1-`, `0x1`),
  escapes other than `\\` and `\<the quote>`, strings and names of 65536 bytes or more.
-/
import GoMC.Spec.NBT
namespace GoMC.Spec.SNBT
open GoMC GoMC.Spec

/-- correctly rounded decimal → IEEE-754 conversion (bit patterns); `none` = out of range.  A parameter. -/
structure FloatSem where
  f32 : Bytes → Option (BitVec 32)
  f64 : Bytes → Option (BitVec 64)

def isWs (c : Byte) : Bool := c == 32 || c == 9 || c == 13 || c == 10
def isDigit (c : Byte) : Bool := 48 ≤ c.toNat && c.toNat ≤ 57
def isLetter (c : Byte) : Bool := (65 ≤ c.toNat && c.toNat ≤ 90) || (97 ≤ c.toNat && c.toNat ≤ 122)
def isTokenByte (c : Byte) : Bool := isDigit c || isLetter c || c == 95 || c == 46 || c == 43 || c == 45

def skipWs : Bytes → Bytes
  | [] => []
  | c :: cs => if isWs c then skipWs cs else c :: cs

/-- the maximal run of token bytes and the rest -/
def spanToken : Bytes → Bytes × Bytes
  | [] => ([], [])
  | c :: cs => if isTokenByte c then let (t, r) := spanToken cs; (c :: t, r) else ([], c :: cs)

/-- a run of digits and the rest -/
def spanDigits : Bytes → Bytes × Bytes
  | [] => ([], [])
  | c :: cs => if isDigit c then let (t, r) := spanDigits cs; (c :: t, r) else ([], c :: cs)

def digitsVal (ds : Bytes) : Nat := ds.foldl (fun acc c => 10 * acc + (c.toNat - 48)) 0

inductive Tok where
  | val (t : NBT)        -- a definite reading
  | bad                  -- a number out of range: malformed
  | unspec               -- the grammar descriptions do not settle it
deriving Inhabited

def stripSign (t : Bytes) : Bool × Bytes :=
  match t with
  | c :: cs => if c == 45 then (true, cs) else if c == 43 then (false, cs) else (false, t)
  | [] => (false, [])

/-- signed integer of width `w` from sign and magnitude, `none` if out of range -/
def inRange (w : Nat) (neg : Bool) (mag : Nat) : Option Int :=
  if neg then (if mag ≤ 2 ^ (w - 1) then some (-(mag : Int)) else none)
  else (if mag < 2 ^ (w - 1) then some (mag : Int) else none)

def lower (c : Byte) : Byte := if 65 ≤ c.toNat && c.toNat ≤ 90 then c + 32 else c

/-- classify a non-empty token -/
def classify (fs : FloatSem) (tok : Bytes) : Tok :=
  match tok with
  | [] => .unspec
  | c0 :: _ =>
    if isLetter c0 || c0 == 95 then .val (.string tok)
    else
      let (neg, body) := stripSign tok
      let (ip, r1) := spanDigits body
      if ip.isEmpty then .unspec else
      let mkInt (w : Nat) (mk : Int → NBT) : Tok :=
        match inRange w neg (digitsVal ip) with
        | some v => .val (mk v)
        | none => .bad
      match r1 with
      | [] => mkInt 32 fun v => .int (BitVec.ofInt 32 v)
      | [s] =>
        let numText := tok.take (tok.length - 1)
        let s := lower s
        if s == 98 then mkInt 8 fun v => .byte (BitVec.ofInt 8 v)
        else if s == 115 then mkInt 16 fun v => .short (BitVec.ofInt 16 v)
        else if s == 105 then mkInt 32 fun v => .int (BitVec.ofInt 32 v)
        else if s == 108 then mkInt 64 fun v => .long (BitVec.ofInt 64 v)
        else if s == 102 then (match fs.f32 numText with | some b => .val (.float b) | none => .bad)
        else if s == 100 then (match fs.f64 numText with | some b => .val (.double b) | none => .bad)
        else .unspec
      | d :: r2 =>
        if d != 46 then .unspec else
        let (fp, r3) := spanDigits r2
        if fp.isEmpty then .unspec else
        -- optional exponent
        let r4 : Option Bytes :=
          match r3 with
          | e :: r =>
            if e == 101 || e == 69 then
              let (_, r) := stripSign r
              let (ed, r') := spanDigits r
              if ed.isEmpty then none else some r'
            else some r3
          | [] => some []
        match r4 with
        | none => .unspec
        | some [] => (match fs.f64 tok with | some b => .val (.double b) | none => .bad)
        | some [s] =>
          let numText := tok.take (tok.length - 1)
          let s := lower s
          if s == 102 then (match fs.f32 numText with | some b => .val (.float b) | none => .bad)
          else if s == 100 then (match fs.f64 numText with | some b => .val (.double b) | none => .bad)
          else .unspec
        | some _ => .unspec

/-- after the opening quote `q`: the string, whether an unspecified escape was met, the rest after the closing quote -/
def readQuoted (q : Byte) : Bytes → Bytes → Bool → Option (Bytes × Bool × Bytes)
  | [], _, _ => none
  | c :: cs, acc, u =>
    if c == q then some (acc.reverse, u, cs)
    else if c == 92 then
      match cs with
      | [] => none
      | e :: cs' => readQuoted q cs' (e :: acc) (u || !(e == q || e == 92))
    else readQuoted q cs (c :: acc) u

/-- a compound name: quoted, or a token taken as it stands -/
def readKey (bs : Bytes) : Option (Bytes × Bool × Bytes) :=
  match bs with
  | [] => none
  | c :: cs =>
    if c == 34 || c == 39 then readQuoted c cs [] false
    else
      let (t, r) := spanToken bs
      if t.isEmpty then none else some (t, false, r)

/-- expected array element: tag of the array `B/I/L` → reading of one element token -/
def arrayElem (kind : Byte) (tok : Bytes) : Option (Option Int) :=   -- none = malformed; some none = unspecified
  let (neg, body) := stripSign tok
  let (ip, r1) := spanDigits body
  if ip.isEmpty then
    (match tok with
     | c0 :: _ => if isLetter c0 || c0 == 95 then none else some none
     | [] => none)
  else
    let chk (w : Nat) : Option (Option Int) :=
      match inRange w neg (digitsVal ip) with
      | some v => some (some v)
      | none => none
    match r1.map lower with
    | [] => if kind == 73 then chk 32 else none
    | [s] =>
      if s == 98 then (if kind == 66 then chk 8 else none)
      else if s == 105 then (if kind == 73 then chk 32 else none)
      else if s == 108 then (if kind == 76 then chk 64 else none)
      else if s == 115 || s == 102 || s == 100 then none
      else some none
    | _ => some none

def mkArray (kind : Byte) (xs : List Int) : NBT :=
  if kind == 66 then .byteArray (xs.map (BitVec.ofInt 8))
  else if kind == 73 then .intArray (xs.map (BitVec.ofInt 32))
  else .longArray (xs.map (BitVec.ofInt 64))

/-- elements of a typed array after `X;`: up to and including `]` -/
def readArrayElems (kind : Byte) : Nat → Bytes → List Int → Bool → Option (List Int × Bool × Bytes)
  | 0, _, _, _ => none
  | f + 1, bs, acc, u =>
    let bs := skipWs bs
    let (t, r) := spanToken bs
    if t.isEmpty then none else
    match arrayElem kind t with
    | none => none
    | some ov =>
      let (acc, u) := match ov with
        | some v => (v :: acc, u)
        | none => (acc, true)
      match skipWs r with
      | c :: r' =>
        if c == 44 then readArrayElems kind f r' acc u
        else if c == 93 then some (acc.reverse, u, r')
        else none
      | [] => none

mutual
  /-- one value; result: tree, "something unspecified was met", rest -/
  def readValue (fs : FloatSem) : Nat → Bytes → Option (NBT × Bool × Bytes)
    | 0, _ => none
    | f + 1, bs =>
      match skipWs bs with
      | [] => none
      | c :: cs =>
        if c == 123 then
          match skipWs cs with
          | c' :: cs' =>
            if c' == 125 then some (.compound [], false, cs')
            else (readEntries fs f cs [] false).map fun (kvs, u, r) => (.compound kvs, u, r)
          | [] => none
        else if c == 91 then
          match skipWs cs with
          | [] => none
          | c' :: cs' =>
            if c' == 93 then some (.list 0 [], false, cs')
            else if (c' == 66 || c' == 73 || c' == 76) && cs'.head? == some 59 then
              let r := skipWs (cs'.drop 1)
              match r with
              | c'' :: r' =>
                if c'' == 93 then some (mkArray c' [], false, r')
                else (readArrayElems c' (r.length + 1) r [] false).map fun (xs, u, r) => (mkArray c' xs, u, r)
              | [] => none
            else
              match readElems fs f cs [] false with
              | none => none
              | some (xs, u, r) =>
                match xs with
                | [] => none
                | x :: _ =>
                  if u then some (.list x.tag xs, true, r)
                  else if xs.all (fun y => y.tag == x.tag) then some (.list x.tag xs, false, r)
                  else none
        else if c == 34 || c == 39 then
          (readQuoted c cs [] false).map fun (s, u, r) => (.string s, u, r)
        else
          let (t, r) := spanToken (c :: cs)
          if t.isEmpty then none else
          match classify fs t with
          | .val v => some (v, false, r)
          | .bad => none
          | .unspec => some (.string t, true, r)

  /-- compound entries after `{` (at least one), up to and including `}` -/
  def readEntries (fs : FloatSem) : Nat → Bytes → List (Bytes × NBT) → Bool → Option (List (Bytes × NBT) × Bool × Bytes)
    | 0, _, _, _ => none
    | f + 1, bs, acc, u =>
      match readKey (skipWs bs) with
      | none => none
      | some (k, uk, r) =>
        match skipWs r with
        | c :: r' =>
          if c != 58 then none else
          match readValue fs f r' with
          | none => none
          | some (v, uv, r'') =>
            let acc := (k, v) :: acc
            let u := u || uk || uv
            match skipWs r'' with
            | c :: r''' =>
              if c == 44 then readEntries fs f r''' acc u
              else if c == 125 then some (acc.reverse, u, r''')
              else none
            | [] => none
        | [] => none

  /-- list elements after `[` (at least one), up to and including `]` -/
  def readElems (fs : FloatSem) : Nat → Bytes → List NBT → Bool → Option (List NBT × Bool × Bytes)
    | 0, _, _, _ => none
    | f + 1, bs, acc, u =>
      match readValue fs f bs with
      | none => none
      | some (v, uv, r) =>
        let acc := v :: acc
        let u := u || uv
        match skipWs r with
        | c :: r' =>
          if c == 44 then readElems fs f r' acc u
          else if c == 93 then some (acc.reverse, u, r')
          else none
        | [] => none
end

/-- strings and names must fit the 16-bit length of the binary format -/
def fits : NBT → Bool
  | .string s => s.length < 65536
  | .list _ xs => fitsList xs
  | .compound kvs => fitsKvs kvs
  | _ => true
where
  fitsList : List NBT → Bool
    | [] => true
    | x :: xs => fits x && fitsList xs
  fitsKvs : List (Bytes × NBT) → Bool
    | [] => true
    | (k, v) :: kvs => k.length < 65536 && fits v && fitsKvs kvs

/-- SNBT cannot say which element type an EMPTY list has (`[]`): the text form of a document is the document
with every empty list given element tag 0 — the form a reader of the text produces. -/
def canon : NBT → NBT
  | .list e xs => match xs with
    | [] => .list 0 []
    | x :: xs' => .list e (canon x :: canonList xs')
  | .compound kvs => .compound (canonKvs kvs)
  | t => t
where
  canonList : List NBT → List NBT
    | [] => []
    | x :: xs => canon x :: canonList xs
  canonKvs : List (Bytes × NBT) → List (Bytes × NBT)
    | [] => []
    | (k, v) :: kvs => (k, canon v) :: canonKvs kvs

inductive Reading where
  | ok (t : NBT)
  | malformed
  | unspecified
deriving Inhabited

/-- the reading of a whole text -/
def read (fs : FloatSem) (text : Bytes) : Reading :=
  match readValue fs (text.length + 2) text with
  | none => .malformed
  | some (t, u, r) =>
    if !(skipWs r).isEmpty then .malformed
    else if u || !fits t then .unspecified
    else .ok t

end GoMC.Spec.SNBT
