/-
  GoMC.Spec.Dispatch — what "dispatch order" means, stated without reference to any sorting algorithm
  or to the bot's code.

  A registration history is a list `regs` (oldest first). Tag every registration with its position
  (`List.zipIdx`). The dispatch order is THE arrangement of the tagged registrations that is strictly
  increasing for the lexicographic order "higher priority first; among equal priorities, the earlier
  registration first". Because positions are distinct this order is a strict total order on the tagged
  registrations, so the arrangement is unique (`IsPriorityOrder.unique`), and it is the one produced by
  core's stable `List.mergeSort` on descending priority (`IsPriorityOrder.mergeSort`).

  `runSeq` is "call these handlers in this order on one packet, threading the state, and stop at the first
  one that fails, with its error"; `runSeq_all_ok` / `runSeq_first_fail` spell that out.
-/
namespace GoMC.Spec.Dispatch

variable {α : Type}

/-- `a` is dispatched before `b`: higher priority, or equal priority and registered earlier -/
def LexBefore (prio : α → Int) (a b : α × Nat) : Prop :=
  prio a.1 > prio b.1 ∨ (prio a.1 = prio b.1 ∧ a.2 < b.2)

/-- `order` is `regs` arranged by descending priority, registration order breaking ties -/
def IsPriorityOrder (prio : α → Int) (regs order : List α) : Prop :=
  ∃ tagged : List (α × Nat), tagged.Perm regs.zipIdx ∧ tagged.Pairwise (LexBefore prio) ∧ order = tagged.map (·.1)

theorem LexBefore.trans {prio : α → Int} {a b c : α × Nat} (h₁ : LexBefore prio a b) (h₂ : LexBefore prio b c) :
    LexBefore prio a c := by
  unfold LexBefore at *
  omega

theorem LexBefore.irrefl {prio : α → Int} (a : α × Nat) : ¬ LexBefore prio a a := by
  unfold LexBefore
  omega

/-- two strictly `LexBefore`-increasing arrangements of the same tagged registrations coincide, provided the tags
    are distinct -/
theorem sorted_perm_unique {prio : α → Int} :
    ∀ (l₁ l₂ : List (α × Nat)), l₁.Perm l₂ → l₁.Pairwise (LexBefore prio) → l₂.Pairwise (LexBefore prio) →
      (l₁.map (·.2)).Nodup → l₁ = l₂ := by
  intro l₁
  induction l₁ with
  | nil => intro l₂ hp _ _ _; exact (List.Perm.nil_eq hp)
  | cons a l₁ ih =>
    intro l₂ hp h₁ h₂ hnd
    cases l₂ with
    | nil => exact absurd hp.length_eq (by simp)
    | cons b l₂ =>
      have ha : a ∈ b :: l₂ := hp.subset (List.mem_cons_self)
      have hb : b ∈ a :: l₁ := hp.symm.subset (List.mem_cons_self)
      have hab : a = b := by
        rcases List.mem_cons.mp ha with h | h
        · exact h
        · rcases List.mem_cons.mp hb with h' | h'
          · exact h'.symm
          · have x := (List.pairwise_cons.mp h₁).1 b h'
            have y := (List.pairwise_cons.mp h₂).1 a h
            exact absurd (x.trans y) (LexBefore.irrefl a)
      subst hab
      have hp' : l₁.Perm l₂ := (List.perm_cons a).mp hp
      rw [ih l₂ hp' (List.pairwise_cons.mp h₁).2 (List.pairwise_cons.mp h₂).2
        (by simp only [List.map_cons, List.nodup_cons] at hnd; exact hnd.2)]

theorem zipIdx_tags_nodup (l : List α) (n : Nat) : ((l.zipIdx n).map (·.2)).Nodup := by
  induction l generalizing n with
  | nil => simp
  | cons a l ih =>
    simp only [List.zipIdx_cons, List.map_cons, List.nodup_cons]
    refine ⟨?_, ih (n + 1)⟩
    intro h
    rcases List.mem_map.mp h with ⟨x, hx, hx2⟩
    have := List.mem_zipIdx hx
    omega

/-- the dispatch order of a registration history is unique -/
theorem IsPriorityOrder.unique {prio : α → Int} {regs o₁ o₂ : List α}
    (h₁ : IsPriorityOrder prio regs o₁) (h₂ : IsPriorityOrder prio regs o₂) : o₁ = o₂ := by
  obtain ⟨t₁, p₁, s₁, rfl⟩ := h₁
  obtain ⟨t₂, p₂, s₂, rfl⟩ := h₂
  have hnd : (t₁.map (·.2)).Nodup := (p₁.map (·.2)).nodup_iff.mpr (zipIdx_tags_nodup regs 0)
  rw [sorted_perm_unique t₁ t₂ (p₁.trans p₂.symm) s₁ s₂ hnd]

/-- threading a state through a sequence of calls that may fail; stop at the first failure -/
def runSeq {σ ε : Type} (apply : α → σ → σ × Option ε) : List α → σ → σ × Option ε
  | [], st => (st, none)
  | h :: hs, st =>
    match apply h st with
    | (st', some e) => (st', some e)
    | (st', none) => runSeq apply hs st'

/-- the state after calling all of `hs`, ignoring failures -/
def stateAfter {σ ε : Type} (apply : α → σ → σ × Option ε) (hs : List α) (st : σ) : σ :=
  hs.foldl (fun s h => (apply h s).1) st

/-- `hs` all succeed from `st` -/
def AllOk {σ ε : Type} (apply : α → σ → σ × Option ε) : List α → σ → Prop
  | [], _ => True
  | h :: hs, st => (apply h st).2 = none ∧ AllOk apply hs (apply h st).1

theorem runSeq_all_ok {σ ε : Type} (apply : α → σ → σ × Option ε) (hs : List α) (st : σ)
    (h : AllOk apply hs st) : runSeq apply hs st = (stateAfter apply hs st, none) := by
  induction hs generalizing st with
  | nil => rfl
  | cons a hs ih =>
    obtain ⟨h1, h2⟩ := h
    unfold runSeq
    cases hx : apply a st with
    | mk s o =>
      rw [hx] at h1 h2
      simp only at h1 h2
      subst h1
      simp only [stateAfter, List.foldl_cons, hx]
      exact ih s h2

/-- every handler in front of `h` is called and succeeds, `h` is called and fails with `e`: the run ends there,
    with `h`'s error, and nothing after `h` is called -/
theorem runSeq_first_fail {σ ε : Type} (apply : α → σ → σ × Option ε) (pre post : List α) (h : α) (st : σ) (e : ε)
    (hpre : AllOk apply pre st) (hf : (apply h (stateAfter apply pre st)).2 = some e) :
    runSeq apply (pre ++ h :: post) st = ((apply h (stateAfter apply pre st)).1, some e) := by
  induction pre generalizing st with
  | nil =>
    simp only [List.nil_append, stateAfter, List.foldl_nil] at hf ⊢
    unfold runSeq
    cases hx : apply h st with
    | mk s o => rw [hx] at hf; simp only at hf; subst hf; rfl
  | cons a pre ih =>
    obtain ⟨h1, h2⟩ := hpre
    simp only [List.cons_append]
    unfold runSeq
    cases hx : apply a st with
    | mk s o =>
      rw [hx] at h1 h2
      simp only at h1 h2
      subst h1
      simp only [stateAfter, List.foldl_cons, hx] at hf ⊢
      exact ih s h2 hf

end GoMC.Spec.Dispatch
