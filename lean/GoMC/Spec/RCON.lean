/-
  Spec: Source RCON packets (written from the protocol description, not from the Go code).

    Size  : 32-bit little-endian signed integer — the number of bytes that FOLLOW the size field
            (id + type + body + the two terminating zero bytes); at least 10, at most 4096
    ID    : 32-bit little-endian signed integer chosen by the client, mirrored by the server;
            −1 in the auth response means "authentication failed"
    Type  : 32-bit little-endian signed integer; 3 = SERVERDATA_AUTH, 2 = SERVERDATA_AUTH_RESPONSE
            and SERVERDATA_EXECCOMMAND, 0 = SERVERDATA_RESPONSE_VALUE
    Body  : the payload bytes, followed by one zero byte; then one more zero byte (the empty string)

  Integers are described arithmetically (`n / 256^k % 256`), independent of the shift/mask code of
  the model.
-/
import GoMC.Basic.Core
namespace GoMC.Spec.RCON
open GoMC

/-- smallest legal value of the size field: id + type + empty body + two zero bytes -/
def minSize : Nat := 10
/-- largest legal value of the size field -/
def maxSize : Nat := 4096

/-- the four bytes of `n mod 2^32`, least significant first -/
def le32 (n : Nat) : Bytes :=
  [BitVec.ofNat 8 (n % 256), BitVec.ofNat 8 (n / 256 % 256), BitVec.ofNat 8 (n / 65536 % 256),
   BitVec.ofNat 8 (n / 16777216 % 256)]

/-- the number (0 … 2^32−1) held by four little-endian bytes -/
def unle32 (b0 b1 b2 b3 : Byte) : Nat :=
  b0.toNat + 256 * b1.toNat + 65536 * b2.toNat + 16777216 * b3.toNat

/-- two's-complement reading of a 32-bit pattern -/
def signed32 (n : Nat) : Int := if n < 2147483648 then (n : Int) else (n : Int) - 4294967296

/-- A packet: id and type as 32-bit two's-complement patterns (0 … 2^32−1), arbitrary payload bytes. -/
structure Pkt where
  id : Nat
  typ : Nat
  payload : Bytes
deriving DecidableEq, Repr

/-- the value of the size field -/
def Pkt.size (p : Pkt) : Nat := 4 + 4 + p.payload.length + 2

/-- a packet that the protocol allows on the wire -/
def Pkt.Valid (p : Pkt) : Prop := p.id < 2 ^ 32 ∧ p.typ < 2 ^ 32 ∧ p.size ≤ maxSize

/-- the frame of a packet -/
def frame (p : Pkt) : Bytes :=
  le32 p.size ++ le32 p.id ++ le32 p.typ ++ p.payload ++ [0#8, 0#8]

/-- The independent reader: size word, bounds, body. `none`: not a (complete) legal frame. The two
trailing bytes are only counted, not inspected (a reader may be liberal there). -/
def parse : Bytes → Option (Pkt × Bytes)
  | s0 :: s1 :: s2 :: s3 :: body =>
    let size := signed32 (unle32 s0 s1 s2 s3)
    if size < 10 ∨ size > 4096 then none
    else
      let n := size.toNat
      if body.length < n then none
      else
        match body.take n with
        | i0 :: i1 :: i2 :: i3 :: t0 :: t1 :: t2 :: t3 :: more =>
          some ({ id := unle32 i0 i1 i2 i3, typ := unle32 t0 t1 t2 t3, payload := more.take (n - 10) }, body.drop n)
        | _ => none
  | _ => none

/-- read frames until the input is exhausted or a frame is refused; the packets and the unread rest -/
def parseMany : Nat → Bytes → List Pkt × Bytes
  | 0, bs => ([], bs)
  | fuel + 1, bs =>
    match parse bs with
    | some (p, rest) => let (ps, r) := parseMany fuel rest; (p :: ps, r)
    | none => ([], bs)

/-! ### spec sanity -/

theorem le32_length (n : Nat) : (le32 n).length = 4 := rfl

theorem unle32_le32 (n : Nat) (h : n < 2 ^ 32) :
    unle32 (BitVec.ofNat 8 (n % 256)) (BitVec.ofNat 8 (n / 256 % 256)) (BitVec.ofNat 8 (n / 65536 % 256))
      (BitVec.ofNat 8 (n / 16777216 % 256)) = n := by
  unfold unle32
  simp only [BitVec.toNat_ofNat]
  omega

theorem frame_length (p : Pkt) : (frame p).length = 4 + p.size := by
  simp [frame, le32_length, Pkt.size]; omega

/-- reading a legal frame back returns the packet and leaves the rest untouched -/
theorem parse_frame (p : Pkt) (hv : p.Valid) (rest : Bytes) : parse (frame p ++ rest) = some (p, rest) := by
  obtain ⟨hid, htyp, hsz⟩ := hv
  have hsz' : p.size < 2 ^ 32 := by unfold maxSize at hsz; omega
  have hlen : p.size = p.payload.length + 10 := by unfold Pkt.size; omega
  unfold frame le32
  simp only [List.cons_append, List.nil_append, List.append_assoc, parse]
  rw [unle32_le32 _ hsz']
  have hs : signed32 p.size = (p.size : Int) := by
    unfold signed32; unfold maxSize at hsz; rw [if_pos (by omega)]
  rw [hs]
  unfold maxSize at hsz
  have h1 : ¬ ((p.size : Int) < 10 ∨ (p.size : Int) > 4096) := by omega
  rw [if_neg h1]
  simp only [Int.toNat_natCast]
  have h2 : ¬ ((BitVec.ofNat 8 (p.id % 256) :: BitVec.ofNat 8 (p.id / 256 % 256) :: BitVec.ofNat 8 (p.id / 65536 % 256) ::
      BitVec.ofNat 8 (p.id / 16777216 % 256) :: BitVec.ofNat 8 (p.typ % 256) :: BitVec.ofNat 8 (p.typ / 256 % 256) ::
      BitVec.ofNat 8 (p.typ / 65536 % 256) :: BitVec.ofNat 8 (p.typ / 16777216 % 256) ::
      (p.payload ++ 0#8 :: 0#8 :: rest)).length < p.size) := by
    simp; omega
  rw [if_neg h2]
  rw [hlen]
  simp only [List.take_succ_cons, List.drop_succ_cons]
  rw [unle32_le32 _ hid, unle32_le32 _ htyp]
  have e1 : p.payload.length + 10 - 10 = p.payload.length := by omega
  have t1 : List.take (p.payload.length + 2) (p.payload ++ 0#8 :: 0#8 :: rest) = p.payload ++ [0#8, 0#8] := by
    rw [List.take_append]; simp [List.take_of_length_le]
  have t2 : List.drop (p.payload.length + 2) (p.payload ++ 0#8 :: 0#8 :: rest) = rest := by
    rw [List.drop_append]; simp [List.drop_eq_nil_of_le]
  simp only [e1, t1, t2, List.take_left']

/-- frames are uniquely decodable: equal byte strings carry equal packets and equal continuations -/
theorem frame_unique (p q : Pkt) (hp : p.Valid) (hq : q.Valid) (r r' : Bytes)
    (h : frame p ++ r = frame q ++ r') : p = q ∧ r = r' := by
  have a := parse_frame p hp r
  have b := parse_frame q hq r'
  rw [h, b] at a
  simp only [Option.some.injEq, Prod.mk.injEq] at a
  exact ⟨a.1.symm, a.2.symm⟩

end GoMC.Spec.RCON
