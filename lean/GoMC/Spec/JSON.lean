/-
  Spec: the JSON value tree (RFC 8259 data model), and the two facts about JSON *text* that the
  C17 models need from `encoding/json` (whose text ↔ tree layer is trusted, DESIGN §7):

  * a JSON string is Unicode text: Go's encoder replaces every byte that is not part of a well-formed
    UTF-8 sequence by U+FFFD (`utf8Sanitize`, written from the UTF-8 definition, RFC 3629 table 3-7);
  * numbers are kept as their text (never interpreted here).

  Objects are association lists: order and duplicate keys are what the text had.
-/
import GoMC.Basic.Core
namespace GoMC.Spec
open GoMC

inductive JSON where
  | null
  | bool (b : Bool)
  | num (text : Bytes)
  | str (s : Bytes)
  | arr (xs : List JSON)
  | obj (kvs : List (Bytes × JSON))
deriving Repr, Inhabited

/-! ### UTF-8 (RFC 3629): well-formed byte sequences -/

def isCont (b : Byte) : Bool := 0x80 ≤ b.toNat && b.toNat ≤ 0xBF

/-- length (1..4) of the well-formed UTF-8 sequence at the head of `bs`; 0 if there is none -/
def utf8SeqLen : Bytes → Nat
  | [] => 0
  | b :: r =>
    let n := b.toNat
    if n < 0x80 then 1
    else if 0xC2 ≤ n ∧ n ≤ 0xDF then
      match r with
      | c1 :: _ => if isCont c1 then 2 else 0
      | _ => 0
    else if 0xE0 ≤ n ∧ n ≤ 0xEF then
      match r with
      | c1 :: c2 :: _ =>
        let lo := if n = 0xE0 then 0xA0 else 0x80
        let hi := if n = 0xED then 0x9F else 0xBF
        if lo ≤ c1.toNat ∧ c1.toNat ≤ hi ∧ isCont c2 then 3 else 0
      | _ => 0
    else if 0xF0 ≤ n ∧ n ≤ 0xF4 then
      match r with
      | c1 :: c2 :: c3 :: _ =>
        let lo := if n = 0xF0 then 0x90 else 0x80
        let hi := if n = 0xF4 then 0x8F else 0xBF
        if lo ≤ c1.toNat ∧ c1.toNat ≤ hi ∧ isCont c2 ∧ isCont c3 then 4 else 0
      | _ => 0
    else 0

/-- U+FFFD -/
def replacementChar : Bytes := [0xEF#8, 0xBF#8, 0xBD#8]

/-- `skip` = bytes still to copy of a sequence already recognised as well formed -/
def utf8SanitizeGo : Nat → Bytes → Bytes
  | _, [] => []
  | skip + 1, b :: r => b :: utf8SanitizeGo skip r
  | 0, b :: r =>
    match utf8SeqLen (b :: r) with
    | 0 => replacementChar ++ utf8SanitizeGo 0 r
    | n + 1 => b :: utf8SanitizeGo n r

/-- every byte that is not part of a well-formed UTF-8 sequence becomes U+FFFD; everything else is kept -/
def utf8Sanitize (bs : Bytes) : Bytes := utf8SanitizeGo 0 bs

theorem utf8Sanitize_nil : utf8Sanitize [] = [] := rfl

/-- ASCII text is unchanged (spec sanity) -/
theorem utf8Sanitize_ascii (bs : Bytes) (h : ∀ b ∈ bs, b.toNat < 0x80) : utf8Sanitize bs = bs := by
  unfold utf8Sanitize
  induction bs with
  | nil => rfl
  | cons b r ih =>
    have hb : b.toNat < 0x80 := h b (by simp)
    have hl : utf8SeqLen (b :: r) = 1 := by simp [utf8SeqLen, hb]
    simp only [utf8SanitizeGo, hl]
    rw [ih (fun x hx => h x (by simp [hx]))]

end GoMC.Spec
