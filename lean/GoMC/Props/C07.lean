/-
  C07 — packet framing round-trips at every threshold and emits conformant frames; plus the frame part of
  C08 (frame unpacking in both modes returns a value or an error: never panics).

  Property theorems only; helper lemmas live in GoMC.Lemmas.Frame.  `Gen.*` are regenerated from /repo's
  net/packet/packet.go on every run.

  Reading guide
  * `Z : ZLib` is compress/zlib as a parameter; `H : Z.Contract` is zlib's contract and is a HYPOTHESIS of
    every theorem that mentions it: (1) a strict reader inflates what the writer emitted to the written
    bytes, (2) Go's incremental reader delivers the whole content of a valid stream, (3) the compressed
    form of at most 2 MiB is shorter than 2^31 − 10 bytes.
  * `pool`, `pools i` are the stale contents of the pooled `bytes.Buffer` / `zlib.Writer`: universally
    quantified everywhere, separately for the sending and the receiving side.
  * `p₀` is the receiving `Packet` before the call (any id, any data, any capacity).
  * Domain of the sending side: `idLen + |data| ≤ MaxDataLength` (2 MiB for id plus payload, the protocol
    maximum).  `Pack` itself does not check this; see `C07_oversize_rejected` for what happens beyond it.
-/
import GoMC.Model.Frame
import GoMC.Spec.Frame
import GoMC.Lemmas.Frame
import GoMC.Gen.Packet
namespace GoMC.Props.C07
open GoMC GoMC.Model GoMC.Spec GoMC.Lemmas

/-- length of the VarInt encoding of a packet id -/
abbrev idLen (id : BitVec 32) : Nat := (leb id.toNat).length

/-! ### T1 bridges: the generated constants and reject conditions are the ones the model uses -/

theorem C07_const_maxDataLength :
    Gen.MaxDataLength = (Model.maxDataLength : Int) ∧ Model.maxDataLength = Spec.maxDataLength := by decide

/-- `lengthOfData < 0 || lengthOfData > MaxDataLength` (Go `int`, 64 bit) -/
theorem C07_cond_plainLengthBad (x : BitVec 64) :
    Gen.Unpack_plainLengthBad x = decide (x.toInt < 0 ∨ x.toInt > (Model.maxDataLength : Int)) := by
  unfold Gen.Unpack_plainLengthBad
  have k0 : (0#64).toInt = 0 := by decide
  have k1 : (2097152#64).toInt = 2097152 := by decide
  have hm : (Model.maxDataLength : Int) = 2097152 := rfl
  simp only [BitVec.slt, k0, k1, hm]
  first
    | done
    | (by_cases h1 : x.toInt < 0 <;> by_cases h2 : x.toInt > 2097152 <;> simp [h1, h2] <;> (try omega))

/-- `int(DataLength) < threshold` -/
theorem C07_cond_belowThreshold (threshold : BitVec 64) (DL : BitVec 32) :
    Gen.Unpack_belowThreshold threshold DL = decide (DL.toInt < threshold.toInt) := by
  unfold Gen.Unpack_belowThreshold
  simp only [BitVec.slt]
  rw [BitVec.toInt_signExtend_of_le (by omega)]

/-- `DataLength > MaxDataLength` -/
theorem C07_cond_aboveMaximum (DL : BitVec 32) :
    Gen.Unpack_aboveMaximum DL = decide (DL.toInt > (Model.maxDataLength : Int)) := by
  unfold Gen.Unpack_aboveMaximum
  have k1 : (2097152#32).toInt = 2097152 := by decide
  have hm : (Model.maxDataLength : Int) = 2097152 := rfl
  simp only [BitVec.slt, k1, hm]
  first
    | done
    | (by_cases h : DL.toInt > 2097152 <;> simp [h] <;> (try omega))

/-- the repair: `int64(DataLength) < n3` -/
theorem C07_cond_belowIdLen (DL : BitVec 32) (n3 : BitVec 64) :
    Gen.Unpack_belowIdLen DL n3 = decide (DL.toInt < n3.toInt) := by
  unfold Gen.Unpack_belowIdLen
  simp only [BitVec.slt]
  rw [BitVec.toInt_signExtend_of_le (by omega)]

/-- the placeholder for the Packet Length in `packWithCompression` is `MaxVarIntLen` bytes at its three sites
(`buff.Write(make([]byte, MaxVarIntLen))`, `VarInt(buff.Len() - MaxVarIntLen)`,
`buff.Next(MaxVarIntLen - packetLengthLen)`: syntactic facts regenerated from the source), and `MaxVarIntLen` is the
model's `maxVarIntLen`, the longest VarInt — so `Next` never gets a negative count (`C07_pack` proves the model's
panic point unreachable for every size in the domain, including Packet Lengths of four bytes). -/
theorem C07_padding_sites :
    Gen.Pack_padWrite = 1 ∧ Gen.Pack_padLength = 1 ∧ Gen.Pack_padNext = 1 ∧
      Gen.MaxVarIntLen = (maxVarIntLen : Int) := by decide

/-! ### what `Pack` emits (closed form), independent of the pool -/

/-- `Pack` succeeds and emits `frameOf`, whatever the pooled buffer and zlib writer held before -/
theorem C07_pack (Z : ZLib) (H : Z.Contract) (t : Int) (id : BitVec 32) (data : Bytes) (cap : Nat) (pool : Pool)
    (hsize : idLen id + data.length ≤ Model.maxDataLength) :
    pack Z t ⟨id, data, cap⟩ pool = Res.ok (frameOf Z t id data) :=
  pack_eq Z H t id data cap pool hsize

/-- the three shapes of an emitted frame -/
theorem C07_frame_shape (Z : ZLib) (t : Int) (id : BitVec 32) (data : Bytes) :
    (t < 0 → frameOf Z t id data = leb (idLen id + data.length) ++ leb id.toNat ++ data) ∧
    (0 ≤ t → (data.length : Int) < t →
      frameOf Z t id data = leb (1 + (idLen id + data.length)) ++ [0#8] ++ leb id.toNat ++ data) ∧
    (0 ≤ t → t ≤ (data.length : Int) →
      frameOf Z t id data =
        leb ((leb (idLen id + data.length)).length + (Z.deflate (leb id.toNat ++ data)).length)
          ++ leb (idLen id + data.length) ++ Z.deflate (leb id.toNat ++ data)) := by
  unfold frameOf idLen
  refine ⟨?_, ?_, ?_⟩
  · intro h; simp [h, List.append_assoc]
  · intro h0 h1
    have : ¬ t < 0 := by omega
    simp [this, h1, List.append_assoc]
  · intro h0 h1
    have h2 : ¬ t < 0 := by omega
    have h3 : ¬ (data.length : Int) < t := by omega
    simp [h2, h3, List.append_assoc]

/-! ### round trip -/

/-- Packing and then unpacking with the same threshold returns the identical id and payload and consumes
exactly one frame: the bytes after it (`rest`) are left unread.  For every id, every payload within the
protocol maximum, every threshold (negative = compression disabled, 0, positive), every prior receiver
state, every stale pool content on both sides. -/
theorem C07_roundtrip (Z : ZLib) (H : Z.Contract) (t : Int) (id : BitVec 32) (data : Bytes) (cap : Nat)
    (hsize : idLen id + data.length ≤ Model.maxDataLength)
    (p₀ : Pkt) (poolW poolR : Pool) (rest : Bytes) (frame : Bytes) (s : Stream)
    (hp : pack Z t ⟨id, data, cap⟩ poolW = Res.ok frame) (hs : s.flat = frame ++ rest) :
    ∃ s', unpack Z t p₀ poolR s = (Res.ok (p₀.store id data), s') ∧ s'.flat = rest ∧ s'.failing = s.failing := by
  rw [pack_eq Z H t id data cap poolW hsize] at hp
  simp only [Res.ok.injEq] at hp
  subst hp
  exact unpack_frameOf Z H t id data p₀ poolR rest s hsize hs

/-- the same through `Conn.WritePacket` / `Conn.ReadPacket` after `SetThreshold(t)` on both ends -/
theorem C07_roundtrip_conn (Z : ZLib) (H : Z.Contract) (t : Int) (id : BitVec 32) (data : Bytes) (cap : Nat)
    (hsize : idLen id + data.length ≤ Model.maxDataLength)
    (cw cr : Conn) (p₀ : Pkt) (poolW poolR : Pool) (rest : Bytes) (frame : Bytes) (s : Stream)
    (hp : (cw.setThreshold t).writePacket Z ⟨id, data, cap⟩ poolW = Res.ok frame) (hs : s.flat = frame ++ rest) :
    ∃ s', (cr.setThreshold t).readPacket Z p₀ poolR s = (Res.ok (p₀.store id data), s') ∧ s'.flat = rest :=
  let ⟨s', h, hf, _⟩ := C07_roundtrip Z H t id data cap hsize p₀ poolW poolR rest frame s hp hs
  ⟨s', h, hf⟩

/-- what the receiver holds afterwards: the id, the payload, and a capacity that is reused when it suffices -/
theorem C07_store (p₀ : Pkt) (id : BitVec 32) (data : Bytes) :
    (p₀.store id data).id = id ∧ (p₀.store id data).data = data ∧
      (p₀.store id data).cap = max p₀.cap data.length := by
  refine ⟨rfl, rfl, ?_⟩
  unfold Pkt.store
  simp only
  split <;> omega

/-- Any concatenation of frames is recovered packet by packet, in order, with ONE receiver value that is
reused from call to call (`unpackMany`), leaving exactly the bytes after the last frame. -/
theorem C07_concat (Z : ZLib) (H : Z.Contract) (t : Int) (pools : Nat → Pool) (ps : List (BitVec 32 × Bytes))
    (hsize : ∀ p ∈ ps, idLen p.1 + p.2.length ≤ Model.maxDataLength)
    (p₀ : Pkt) (rest : Bytes) (s : Stream)
    (hs : s.flat = (ps.map fun p => frameOf Z t p.1 p.2).flatten ++ rest) :
    ∃ s', unpackMany Z t pools ps.length p₀ s = (Res.ok ps, s') ∧ s'.flat = rest ∧ s'.failing = s.failing := by
  induction ps generalizing p₀ s with
  | nil =>
    refine ⟨s, rfl, ?_, rfl⟩
    simpa using hs
  | cons p ps ih =>
    simp only [List.map_cons, List.flatten_cons, List.append_assoc] at hs
    obtain ⟨s1, h1, hf1, hx1⟩ := unpack_frameOf Z H t p.1 p.2 p₀ (pools ps.length) _ s
      (hsize p (by simp)) hs
    obtain ⟨s2, h2, hf2, hx2⟩ := ih (fun q hq => hsize q (by simp [hq])) (p₀.store p.1 p.2) s1 hf1
    refine ⟨s2, ?_, hf2, by rw [hx2, hx1]⟩
    simp only [List.length_cons, unpackMany]
    rw [Rd.bind_ok h1, Rd.bind_ok h2]
    rfl

/-- The same stream read into a FRESH `Packet` per frame, all packets HELD until the end: every one of them is
the packet that was sent (with exactly its own capacity).  In the model a returned packet is a value; that no
later call can change it is the ownership fact `C07_data_owned` below, tied to the code by `frame.hold`. -/
theorem C07_held (Z : ZLib) (H : Z.Contract) (t : Int) (pools : Nat → Pool) (ps : List (BitVec 32 × Bytes))
    (hsize : ∀ p ∈ ps, idLen p.1 + p.2.length ≤ Model.maxDataLength) (rest : Bytes) (s : Stream)
    (hs : s.flat = (ps.map fun p => frameOf Z t p.1 p.2).flatten ++ rest) :
    ∃ s', unpackHeld Z t pools ps.length s = (Res.ok (ps.map fun p => ⟨p.1, p.2, p.2.length⟩), s') ∧
      s'.flat = rest ∧ s'.failing = s.failing := by
  induction ps generalizing s with
  | nil =>
    refine ⟨s, rfl, ?_, rfl⟩
    simpa using hs
  | cons p ps ih =>
    simp only [List.map_cons, List.flatten_cons, List.append_assoc] at hs
    obtain ⟨s1, h1, hf1, hx1⟩ := unpack_frameOf Z H t p.1 p.2 Pkt.zero (pools ps.length) _ s
      (hsize p (by simp)) hs
    obtain ⟨s2, h2, hf2, hx2⟩ := ih (fun q hq => hsize q (by simp [hq])) s1 hf1
    refine ⟨s2, ?_, hf2, by rw [hx2, hx1]⟩
    simp only [List.length_cons, unpackHeld]
    rw [Rd.bind_ok h1, Rd.bind_ok h2]
    simp only [Rd.pure_apply, List.map_cons, Prod.mk.injEq, Res.ok.injEq, List.cons.injEq, and_true]
    unfold Pkt.store Pkt.zero
    simp only [Pkt.mk.injEq, true_and]
    split <;> omega

/-- ownership: the payload of a returned packet never lives in the pooled buffer -/
theorem C07_data_owned (p₀ : Pkt) (n : Nat) :
    p₀.backing n ≠ Backing.pooled ∧ (p₀.cap < n → p₀.backing n = Backing.fresh) := by
  unfold Pkt.backing
  constructor
  · split <;> simp
  · intro h; simp [h]

/-- …and the frames in `C07_concat` are what successive `Pack` calls emit, each with its own stale pool -/
theorem C07_concat_packed (Z : ZLib) (H : Z.Contract) (t : Int) (poolsW : Nat → Pool) (ps : List (BitVec 32 × Bytes))
    (hsize : ∀ p ∈ ps, idLen p.1 + p.2.length ≤ Model.maxDataLength) (i : Nat) (hi : i < ps.length) (cap : Nat) :
    pack Z t ⟨ps[i].1, ps[i].2, cap⟩ (poolsW i) = Res.ok (frameOf Z t ps[i].1 ps[i].2) :=
  pack_eq Z H t _ _ cap _ (hsize _ (List.getElem_mem hi))

/-! ### conformance, as judged by the independent reader `Spec.readFrame` -/

/-- The emitted bytes are one protocol-conformant frame carrying exactly this packet (and the reader stops
at its end). -/
theorem C07_conformant (Z : ZLib) (H : Z.Contract) (t : Int) (id : BitVec 32) (data : Bytes) (rest : Bytes)
    (hsize : idLen id + data.length ≤ Model.maxDataLength) :
    Spec.readFrame Z.inflate t (frameOf Z t id data ++ rest) = some ((id, data), rest) := by
  have hm : Model.maxDataLength = Spec.maxDataLength := rfl
  have hm2 : Model.maxDataLength = 2097152 := rfl
  rw [hm] at hsize
  unfold idLen at hsize
  unfold Spec.readFrame frameOf
  by_cases h0 : 0 ≤ t
  · have h0' : ¬ t < 0 := by omega
    simp only [h0, h0', if_true, if_false]
    by_cases ht : (data.length : Int) < t
    · simp only [ht, if_true]
      exact readCompressed_small Z.inflate t id data rest hsize
    · simp only [ht, if_false]
      exact readCompressed_big Z.inflate t id data _ rest hsize
        (by simp only [List.length_append]; push_cast; omega) (H.roundtrip _)
        (H.bound _ (by simp only [List.length_append]; omega))
  · have h0' : t < 0 := by omega
    simp only [h0, h0', if_true, if_false]
    exact readPlain_frame id data rest hsize

/-- With compression enabled the Data Length field is 0 below the threshold, and otherwise the true
uncompressed size `idLen + |data|`, which is then at least the threshold. -/
theorem C07_dataLength_field (Z : ZLib) (H : Z.Contract) (t : Int) (ht : 0 ≤ t) (id : BitVec 32) (data : Bytes)
    (hsize : idLen id + data.length ≤ Model.maxDataLength) :
    ((data.length : Int) < t → Spec.dataLengthField (frameOf Z t id data) = some 0) ∧
    (t ≤ (data.length : Int) →
      Spec.dataLengthField (frameOf Z t id data) = some (idLen id + data.length) ∧
      t ≤ ((idLen id + data.length : Nat) : Int)) := by
  have hm2 : Model.maxDataLength = 2097152 := rfl
  obtain ⟨_, hsmall, hbig⟩ := C07_frame_shape Z t id data
  unfold idLen at *
  constructor
  · intro hlt
    rw [hsmall ht hlt]
    unfold Spec.dataLengthField
    rw [List.append_assoc, List.append_assoc, readVarInt_leb (by omega)]
    simp only
    have : ([0#8] ++ (leb id.toNat ++ data)) = leb 0 ++ (leb id.toNat ++ data) := by rw [leb_zero]
    rw [this, List.take_of_length_le (by simp only [List.length_append, leb_zero, List.length_cons, List.length_nil]; omega),
      readVarInt_leb (by omega)]
  · intro hge
    refine ⟨?_, by push_cast; omega⟩
    rw [hbig ht hge]
    have hb := H.bound (leb id.toNat ++ data) (by simp only [List.length_append]; omega)
    have hdl : (leb ((leb id.toNat).length + data.length)).length ≤ 5 := leb_length_le5 (by omega)
    unfold Spec.dataLengthField
    rw [List.append_assoc, readVarInt_leb (by omega)]
    simp only
    rw [List.take_of_length_le (by simp only [List.length_append]; omega), readVarInt_leb (by omega)]

/-! ### rejection -/

/-- Compression disabled: a frame whose declared payload size (`Length − idLen`) is negative or exceeds the
protocol maximum is rejected with an error. -/
theorem C07_reject_plain (Z : ZLib) (t : Int) (ht : t < 0) (p₀ : Pkt) (pool : Pool) (L id : BitVec 32) (more : Bytes)
    (s : Stream) (hs : s.flat = leb L.toNat ++ leb id.toNat ++ more)
    (hbad : L.toInt - (idLen id : Int) < 0 ∨ L.toInt - (idLen id : Int) > (Model.maxDataLength : Int)) :
    (unpack Z t p₀ pool s).1 = Res.err := by
  unfold unpack
  have : ¬ 0 ≤ t := by omega
  rw [if_neg this]
  exact unpackPlain_reject p₀ L id more s (by rw [hs, List.append_assoc]) hbad

/-- Compression enabled with threshold `t`: a frame whose Data Length field is negative, exceeds the protocol
maximum, or is non-zero but below `t` is rejected with an error — whatever the Packet Length field says and
whatever follows. -/
theorem C07_reject_compressed (Z : ZLib) (t : Int) (ht : 0 ≤ t) (p₀ : Pkt) (pool : Pool) (PL DL : BitVec 32)
    (more : Bytes) (s : Stream) (hs : s.flat = leb PL.toNat ++ leb DL.toNat ++ more)
    (hbad : DL.toInt < 0 ∨ DL.toInt > (Model.maxDataLength : Int) ∨ (0 < DL.toInt ∧ DL.toInt < t)) :
    (unpack Z t p₀ pool s).1 = Res.err := by
  unfold unpack
  rw [if_pos ht]
  exact unpackCompressed_reject Z t ht p₀ pool PL DL more s (by rw [hs, List.append_assoc]) hbad

/-- The rejection clause at full strength (all encodings of the header, minimal or not, all inputs): if
`UnPack` without compression ACCEPTS, the payload has at most `MaxDataLength` bytes. -/
theorem C07_accepted_size_plain (Z : ZLib) (t : Int) (ht : t < 0) (p₀ p : Pkt) (pool : Pool) (s s' : Stream)
    (h : unpack Z t p₀ pool s = (Res.ok p, s')) : p.data.length ≤ Model.maxDataLength := by
  unfold unpack at h
  have : ¬ 0 ≤ t := by omega
  rw [if_neg this] at h
  exact unpackPlain_ok_size p₀ p s s' h

/-- …and if `UnPack` with threshold `t ≥ 0` ACCEPTS a frame whose Data Length field (as the code reads it:
`PL`, then `PL` bytes buffered, then `DL` from the buffer) is non-zero, then `t ≤ DL ≤ MaxDataLength` and the
payload is shorter than `DL`.  Contrapositive: negative, oversize and below-threshold Data Lengths are never
accepted. -/
theorem C07_accepted_bounds_compressed (Z : ZLib) (t : Int) (ht : 0 ≤ t) (p₀ p : Pkt) (pool : Pool) (s s' : Stream)
    (h : unpack Z t p₀ pool s = (Res.ok p, s'))
    (PL DL : BitVec 32) (n1 n2 : Nat) (s1 s2 b1 : Stream) (buf : Bytes)
    (h1 : varIntRead s = (Res.ok (PL, n1), s1)) (h2 : copyN PL.toInt s1 = (Res.ok buf, s2))
    (h3 : varIntRead (Stream.ofBytes buf) = (Res.ok (DL, n2), b1)) (hne : DL ≠ 0#32) :
    t ≤ DL.toInt ∧ DL.toInt ≤ (Model.maxDataLength : Int) ∧ (p.data.length : Int) < DL.toInt := by
  unfold unpack at h
  rw [if_pos ht] at h
  unfold unpackCompressed at h
  rw [Rd.bind_ok h1] at h
  simp only at h
  rw [Rd.bind_ok h2] at h
  simp only [liftRes, bufReset, List.nil_append, Prod.mk.injEq] at h
  exact unpackBuffered_ok_bounds Z t p₀ p PL DL n2 _ b1 h.1 h3 hne

/-- Beyond the sending domain: `Pack` does not check the size.  In the compressed branch a packet with
`idLen + |data| > MaxDataLength` (but a Data Length that still fits the field) yields a frame that the
receiver rejects — the round trip does not extend past the protocol maximum. -/
theorem C07_oversize_rejected (Z : ZLib) (t : Int) (ht : 0 ≤ t) (p₀ : Pkt) (pool : Pool) (id : BitVec 32) (data : Bytes)
    (hover : Model.maxDataLength < idLen id + data.length) (hfit : idLen id + data.length < 2 ^ 31)
    (PL : BitVec 32) (z rest : Bytes) (s : Stream)
    (hs : s.flat = leb PL.toNat ++ leb (idLen id + data.length) ++ (z ++ rest)) :
    (unpack Z t p₀ pool s).1 = Res.err := by
  have e : (BitVec.ofNat 32 (idLen id + data.length)).toNat = idLen id + data.length := by
    simp only [BitVec.toNat_ofNat]; omega
  apply C07_reject_compressed Z t ht p₀ pool PL (BitVec.ofNat 32 (idLen id + data.length)) (z ++ rest) s
  · rw [e]; exact hs
  · right; left
    rw [ofNat32_toInt hfit]
    omega

/-! ### the pool never matters -/

/-- Neither side's result depends on what the pooled `bytes.Buffer` and `zlib.Writer` held before
(`Reset` discards it): for ALL inputs, valid or not. -/
theorem C07_pool_independent (Z : ZLib) (t : Int) (p p₀ : Pkt) (pool₁ pool₂ : Pool) (s : Stream) :
    pack Z t p pool₁ = pack Z t p pool₂ ∧ unpack Z t p₀ pool₁ s = unpack Z t p₀ pool₂ s :=
  ⟨rfl, rfl⟩

/-! ### totality (the frame part of C08), fragmentation invariance, no look-ahead -/

/-- Peer-controlled bytes never panic the unpackers: for every source, threshold, receiver state, pool and
zlib behaviour, `UnPack` returns a value or an error. -/
theorem C07_unpack_total (Z : ZLib) (t : Int) (p₀ : Pkt) (pool : Pool) (s : Stream) :
    (unpack Z t p₀ pool s).1 ≠ Res.panic :=
  noPanic_unpack Z t p₀ pool s

/-- `k` successive reads never panic either -/
theorem C07_unpackMany_total (Z : ZLib) (t : Int) (pools : Nat → Pool) (k : Nat) (p₀ : Pkt) (s : Stream) :
    (unpackMany Z t pools k p₀ s).1 ≠ Res.panic := by
  induction k generalizing p₀ s with
  | zero => simp [unpackMany]
  | succ k ih =>
    unfold unpackMany
    apply noPanic_bind (noPanic_unpack Z t p₀ (pools k))
    intro p
    apply noPanic_bind (fun s => ih p s)
    intro ps
    exact noPanic_pure _

/-- the repaired defect, as a statement: a Data Length that is positive but smaller than the packet id's own
length is an error (it used to be `p.Data[:negative]`) -/
theorem C07_reject_below_idLen (p₀ : Pkt) (DL id : BitVec 32) (more : Bytes) (s : Stream)
    (hs : s.flat = leb id.toNat ++ more) (hbad : DL.toInt < (idLen id : Int)) :
    (unpackInflated p₀ DL s).1 = Res.err := by
  obtain ⟨s1, h1, _, _⟩ := varIntRead_leb id more s hs
  unfold unpackInflated
  rw [Rd.bind_ok h1]
  simp only
  rw [if_pos hbad]
  rfl

/-- however the source fragments the bytes, `UnPack` returns the same result and leaves the same residue -/
theorem C07_unpack_fragInv (Z : ZLib) (t : Int) (p₀ : Pkt) (pool : Pool) : Rd.FragInv (unpack Z t p₀ pool) := by
  unfold unpack
  exact Rd.fragInv_ite (fragInv_unpackCompressed Z t p₀ pool) (fragInv_unpackPlain p₀)

/-- a successful `UnPack` never depends on, or consumes, bytes beyond its frame -/
theorem C07_unpack_extStable (Z : ZLib) (t : Int) (p₀ : Pkt) (pool : Pool) : Rd.ExtStable (unpack Z t p₀ pool) := by
  unfold unpack
  exact Rd.extStable_ite (extStable_unpackCompressed Z t p₀ pool) (extStable_unpackPlain p₀)

/-- on any strict prefix of an emitted frame `UnPack` returns an error (never a packet, never a panic) -/
theorem C07_truncated_frame (Z : ZLib) (H : Z.Contract) (t : Int) (id : BitVec 32) (data : Bytes)
    (hsize : idLen id + data.length ≤ Model.maxDataLength) (p₀ : Pkt) (pool : Pool) (k : Nat)
    (hk : k < (frameOf Z t id data).length) (s : Stream) (hs : s.flat = (frameOf Z t id data).take k) :
    (unpack Z t p₀ pool s).1 = Res.err := by
  have hsplit : frameOf Z t id data = (frameOf Z t id data).take k ++ (frameOf Z t id data).drop k :=
    (List.take_append_drop k _).symm
  have hne : (frameOf Z t id data).drop k ≠ [] := by
    intro h0
    have := congrArg List.length h0
    simp at this; omega
  obtain ⟨s1, hrun, hres, _⟩ := unpack_frameOf Z H t id data p₀ pool [] (Stream.ofBytes (frameOf Z t id data)) hsize (by simp)
  have hnot := Rd.prefix_fails (C07_unpack_extStable Z t p₀ pool) (s := Stream.ofBytes (frameOf Z t id data))
    (pre := (frameOf Z t id data).take k) (more := (frameOf Z t id data).drop k) (rest := [])
    (by simp) hrun hres hne s hs
  have hnp := noPanic_unpack Z t p₀ pool s
  cases hr : (unpack Z t p₀ pool s).1 with
  | ok a => exact absurd hr (hnot a)
  | err => rfl
  | panic => exact absurd hr hnp

/-! ### Non-vacuity: a zlib satisfying the contract exists, and the theorems' hypotheses are met -/

/-- a toy "zlib" (two header bytes + stored data): satisfies the contract -/
def toyZ : ZLib where
  deflate x := [0x78#8, 0x9c#8] ++ x
  inflate z := if z.take 2 = [0x78#8, 0x9c#8] then some (z.drop 2) else none
  zread z := if z.take 2 = [0x78#8, 0x9c#8] then some (z.drop 2) else none

theorem toyZ_contract : toyZ.Contract where
  roundtrip x := by simp [toyZ]
  lenient z x h := h
  bound x hx := by
    have : Model.maxDataLength = 2097152 := rfl
    simp only [toyZ, List.length_append, List.length_cons, List.length_nil]
    omega

theorem small_ok (id : BitVec 32) (n : Nat) (hn : n ≤ 1000) : idLen id + n ≤ Model.maxDataLength := by
  have := leb_length_le5 id.isLt
  have : Model.maxDataLength = 2097152 := rfl
  unfold idLen; omega

example : pack toyZ 2 ⟨5#32, [1, 2, 3], 0⟩ ⟨[9, 9], [8]⟩ = Res.ok (frameOf toyZ 2 5#32 [1, 2, 3]) :=
  C07_pack toyZ toyZ_contract 2 5#32 [1, 2, 3] 0 _ (small_ok _ 3 (by omega))
example : ∃ s', unpack toyZ 2 ⟨0#32, [], 10⟩ ⟨[7], []⟩ (Stream.ofBytes (frameOf toyZ 2 5#32 [1, 2, 3] ++ [0xaa#8])) =
    (Res.ok ⟨5#32, [1, 2, 3], 10⟩, s') ∧ s'.flat = [0xaa#8] ∧ s'.failing = false :=
  C07_roundtrip toyZ toyZ_contract 2 5#32 [1, 2, 3] 0 (small_ok _ 3 (by omega)) ⟨0#32, [], 10⟩ ⟨[9, 9], [8]⟩ ⟨[7], []⟩
    [0xaa#8] _ _ (C07_pack toyZ toyZ_contract 2 5#32 [1, 2, 3] 0 _ (small_ok _ 3 (by omega))) (by simp)
example : (unpack toyZ 2 ⟨0#32, [], 10⟩ ⟨[7], []⟩ (Stream.ofBytes [7, 4, 0x78, 0x9c, 5, 1, 2, 3, 0xaa])) =
    (Res.ok ⟨5#32, [1, 2, 3], 10⟩, Stream.ofBytes [0xaa]) := by decide
example : (unpack toyZ 5 ⟨0#32, [], 1⟩ ⟨[], []⟩ (Stream.ofBytes [6, 0, 0xac, 2, 1, 2, 3])).1 =
    Res.ok ⟨300#32, [1, 2, 3], 3⟩ := by decide
example : (unpack toyZ (-1) ⟨0#32, [], 1⟩ ⟨[], []⟩ (Stream.ofBytes [5, 0xac, 2, 1, 2, 3])).1 =
    Res.ok ⟨300#32, [1, 2, 3], 3⟩ := by decide
/-- the input that used to panic: Data Length 1, id `80 01` (two bytes) -/
example : (unpack toyZ 0 ⟨0#32, [], 0⟩ ⟨[], []⟩ (Stream.ofBytes [5, 1, 0x78, 0x9c, 0x80, 0x01])).1 = Res.err := by decide
/-- rejection: Data Length 2 below threshold 3 -/
example : (unpack toyZ 3 ⟨0#32, [], 0⟩ ⟨[], []⟩ (Stream.ofBytes [5, 2, 0x78, 0x9c, 0x05, 0x01])).1 = Res.err := by decide

end GoMC.Props.C07
