/-
  DYNBT — the `dynbt.Value` carrier: its part of C02 (byte-exact re-encoding), C03 (totality) and
  C09 (fragmentation invariance, reader faults).  Property theorems only; lemmas are in GoMC.Lemmas.DynBT.

  Model: GoMC.Model.DynBT (`unm fuel tag` = `(*Value).UnmarshalNBT(tag, r)`, `unmarshal tag` = the same with
  fuel = bytes in the source + 2, `marshal` = `MarshalNBT`, `decodeDoc file` = `nbt.Decoder.Decode(&v)`).
  Spec: GoMC.Spec.NBT (`NBT`, `encPayload`, `encDoc`, `WF`).

  Extra hypothesis `Small t` (every string and compound key shorter than 2^15 bytes): the format's string
  length is an unsigned 16-bit number (`NBT.WF` allows `< 2^16`), the Go code reads it as `int16` and refuses
  negative values — which is what C03 asks for ("a negative declared length is an error").
-/
import GoMC.Model.DynBT
import GoMC.Lemmas.DynBT
namespace GoMC.Props.DYNBT
open GoMC GoMC.Spec GoMC.Model.DynBT GoMC.Lemmas.DynBT

/-! ### C02 (carrier): decode, then encode, is the identity on bytes -/

/-- `UnmarshalNBT` on a source that starts with the payload of a well-formed tree (followed by anything:
the rest of an enclosing compound, list, map or struct, or nothing at the root), delivered in any
fragmentation: it succeeds, consumes exactly the payload, reports the same tag, and `MarshalNBT` of the
result writes the payload back byte for byte. -/
theorem DYNBT_exact (t : NBT) (hw : t.WF) (hs : Small t) (s : Stream) (rest : Bytes)
    (h : s.flat = encPayload t ++ rest) :
    ∃ v s', unmarshal t.tag s = (Res.ok v, s') ∧ s'.flat = rest ∧ s'.failing = s.failing ∧
      v.tag = t.tag ∧ marshal v = Res.ok (encPayload t) := by
  obtain ⟨s', h1, h2, h3⟩ := unm_reads t hw hs (s.flat.length + 2) (by rw [h, List.length_append]; omega) s rest h
  exact ⟨toVal t, s', h1, h2, h3, tag_toVal t, marshal_toVal t hw⟩

/-- the same for elements of a list and fields of a compound held inside a `Value`: the children decoded by
the recursive calls re-encode to exactly their own payloads, in order -/
theorem DYNBT_exact_children (e : BitVec 8) (xs : List NBT) (kvs : List (Bytes × NBT))
    (hx : NBT.WFList e xs) (hk : NBT.WFKvs kvs) :
    marshalList (toValList xs) = Res.ok (encList xs) ∧ marshalKvs (toValKvs kvs) = Res.ok (encKvs kvs) :=
  ⟨marshalList_toVal e xs hx, marshalKvs_toVal kvs hk⟩

/-- at the root through `nbt.Decoder.Decode`, both formats: the document is consumed exactly, the root name
is returned, and tag ++ [name] ++ `MarshalNBT` is the document again -/
theorem DYNBT_exact_doc (file : Bool) (name : Bytes) (hn : name.length < 2 ^ 15)
    (t : NBT) (hw : t.WF) (hs : Small t) (s : Stream) (rest : Bytes)
    (h : s.flat = encDoc (if file then .file else .network) name t ++ rest) :
    ∃ v s', decodeDoc file s = (Res.ok (t.tag, (if file then name else []), v), s') ∧ s'.flat = rest ∧
      s'.failing = s.failing ∧ marshal v = Res.ok (encPayload t) := by
  have hu : Reads (unmarshal t.tag) (encPayload t) (toVal t) := by
    intro s rest h
    exact unm_reads t hw hs (s.flat.length + 2) (by rw [h, List.length_append]; omega) s rest h
  obtain ⟨h0, h1f, h78⟩ := tag_small t
  cases file with
  | true =>
    have hr : Reads (decodeDoc true) (t.tag :: encString name ++ encPayload t) (t.tag, name, toVal t) := by
      unfold decodeDoc
      refine reads_bind (b1 := [t.tag]) (reads_readByte _) ?_
      simp only [if_true, h0, h1f, h78, or_self, if_false]
      refine reads_bind (reads_readString hn) ?_
      have := reads_bind (f := fun v => (Pure.pure (t.tag, name, v) : Rd (Byte × Bytes × Val))) hu (reads_pure _)
      rwa [List.append_nil] at this
    obtain ⟨s', h1, h2, h3⟩ := hr s rest (by simpa [encDoc] using h)
    exact ⟨toVal t, s', by simpa using h1, h2, h3, marshal_toVal t hw⟩
  | false =>
    have hr : Reads (decodeDoc false) (t.tag :: encPayload t) (t.tag, [], toVal t) := by
      unfold decodeDoc
      refine reads_bind (b1 := [t.tag]) (reads_readByte _) ?_
      simp only [Bool.false_eq_true, if_false]
      have := reads_bind (f := fun v => (Pure.pure (t.tag, ([] : Bytes), v) : Rd (Byte × Bytes × Val))) hu (reads_pure _)
      rwa [List.append_nil] at this
    obtain ⟨s', h1, h2, h3⟩ := hr s rest (by simpa [encDoc] using h)
    exact ⟨toVal t, s', by simpa using h1, h2, h3, marshal_toVal t hw⟩

/-! ### C03: totality -/

/-- `UnmarshalNBT` never panics and never runs out of fuel (never "does not return"), on any source, for any
tag byte, however the bytes are delivered and whether the source ends with EOF or an I/O error -/
theorem DYNBT_total (tag : Byte) (s : Stream) : (unmarshal tag s).1 ≠ Res.panic :=
  unm_ne_panic (s.flat.length + 2) tag s (Nat.le_refl _)

/-- giving the decoder more fuel than `unmarshal` does changes nothing: the fuel is not a bound on the
behaviour of the Go code, only a termination device of the model -/
theorem DYNBT_fuel_irrelevant (tag : Byte) (s : Stream) (fuel : Nat) (h : s.flat.length + 2 ≤ fuel) :
    unm fuel tag s = unmarshal tag s := by
  rcases hr : unmarshal tag s with ⟨r, s'⟩
  exact ext_unm_le tag h s r s' hr (by
    have := DYNBT_total tag s
    rw [hr] at this
    exact this)

theorem DYNBT_total_doc (file : Bool) (s : Stream) : (decodeDoc file s).1 ≠ Res.panic := by
  unfold decodeDoc
  refine bind_ne_panic (np_readByte s) (fun t s1 _ => ?_)
  have hu : ∀ s', ((unmarshal t >>= fun v => (Pure.pure (t, ([] : Bytes), v) : Rd (Byte × Bytes × Val))) s').1 ≠ Res.panic :=
    fun s' => bind_ne_panic (DYNBT_total t s') (fun _ _ _ => by simp)
  cases file with
  | false => simpa using hu s1
  | true =>
    simp only [if_true]
    by_cases c1 : t = 0x1f ∨ t = 0x78
    · rw [if_pos c1]; simp [Rd.fail]
    · rw [if_neg c1]
      by_cases c2 : t = 0
      · rw [if_pos c2]
        exact hu s1
      · rw [if_neg c2]
        refine bind_ne_panic (np_readString s1) (fun name s2 _ => ?_)
        exact bind_ne_panic (DYNBT_total t s2) (fun _ _ _ => by simp)

/-- no loop iterates without consuming input: the number of loop iterations (list elements and compound
entries, over all nesting levels) performed by a call is at most twice the number of bytes it consumed,
plus one — whatever the outcome.  (Before the repair, `09 00 7f ff ff ff` made 2^31 iterations on 6 bytes.) -/
theorem DYNBT_work (fuel : Nat) (tag : Byte) (s : Stream) :
    work fuel tag s + 2 * (unm fuel tag s).2.flat.length ≤ 2 * s.flat.length + 1 := by
  by_cases h : tag = 0
  · subst h
    have hc := (cons0_unm fuel 0).le s
    have hw : work fuel 0 s = 0 := by
      cases fuel with
      | zero => rfl
      | succ f => rw [work_succ]; simp
    omega
  · exact (work_bound fuel tag h s).1

/-- a declared ByteArray / IntArray / LongArray length with the sign bit set is an error -/
theorem DYNBT_neg_len_array (fuel : Nat) (tag : Byte) (ht : tag = 7 ∨ tag = 11 ∨ tag = 12)
    (s : Stream) (hd rest : Bytes) (h : s.flat = hd ++ rest) (hl : hd.length = 4) (hneg : 2 ^ 31 ≤ beVal hd) :
    (unm (fuel + 1) tag s).1 = Res.err := by
  have hlt := beVal_lt hd
  rw [hl] at hlt
  have p : (256 : Nat) ^ 4 = 4294967296 := by decide
  have q : (2 : Nat) ^ 31 = 2147483648 := by decide
  obtain ⟨s1, h1, _, _⟩ := reads_readFull hd s rest h
  rw [hl] at h1
  have hri : readInt32 s = (Res.ok (toSigned 4 (beVal hd)), s1) := by
    unfold readInt32; rw [Rd.bind_ok h1]; rfl
  have hn : toSigned 4 (beVal hd) < 0 := by
    unfold toSigned
    have : ¬ beVal hd < 2 ^ (8 * 4 - 1) := by simp; omega
    simp only [this, if_false]
    have : (2 : Nat) ^ (8 * 4) = 4294967296 := by decide
    rw [this]; omega
  have key : ∀ k, (unmArray tag k s).1 = Res.err := by
    intro k
    unfold unmArray
    rw [Rd.bind_ok hri]
    simp [hn, Rd.fail]
  rcases ht with rfl | rfl | rfl
  · rw [unm_succ_leaf fuel 7 (by decide) (by decide)]; exact key 1
  · rw [unm_succ_leaf fuel 11 (by decide) (by decide)]; exact key 4
  · rw [unm_succ_leaf fuel 12 (by decide) (by decide)]; exact key 8

/-- a declared String length with the sign bit set is an error -/
theorem DYNBT_neg_len_string (fuel : Nat) (s : Stream) (hd rest : Bytes) (h : s.flat = hd ++ rest)
    (hl : hd.length = 2) (hneg : 2 ^ 15 ≤ beVal hd) : (unm (fuel + 1) 8 s).1 = Res.err := by
  have hlt := beVal_lt hd
  rw [hl] at hlt
  have p : (256 : Nat) ^ 2 = 65536 := by decide
  have q : (2 : Nat) ^ 15 = 32768 := by decide
  obtain ⟨s1, h1, _, _⟩ := reads_readFull hd s rest h
  rw [hl] at h1
  have hri : readInt16 s = (Res.ok (toSigned 2 (beVal hd)), s1) := by
    unfold readInt16; rw [Rd.bind_ok h1]; rfl
  have hn : toSigned 2 (beVal hd) < 0 := by
    unfold toSigned
    have : ¬ beVal hd < 2 ^ (8 * 2 - 1) := by simp; omega
    simp only [this, if_false]
    have : (2 : Nat) ^ (8 * 2) = 65536 := by decide
    rw [this]; omega
  rw [unm_succ_leaf fuel 8 (by decide) (by decide)]
  show (unmString 8 s).1 = Res.err
  unfold unmString
  rw [Rd.bind_ok hri]
  simp [hn, Rd.fail]

/-- a declared List count with the sign bit set is an error, whatever the element type -/
theorem DYNBT_neg_len_list (fuel : Nat) (s : Stream) (e : Byte) (hd rest : Bytes) (h : s.flat = e :: hd ++ rest)
    (hl : hd.length = 4) (hneg : 2 ^ 31 ≤ beVal hd) : (unm (fuel + 1) 9 s).1 = Res.err := by
  have hlt := beVal_lt hd
  rw [hl] at hlt
  have p : (256 : Nat) ^ 4 = 4294967296 := by decide
  have q : (2 : Nat) ^ 31 = 2147483648 := by decide
  obtain ⟨s0, h0, hf0, _⟩ := reads_readByte e s (hd ++ rest) (by simpa using h)
  obtain ⟨s1, h1, _, _⟩ := reads_readFull hd s0 rest hf0
  rw [hl] at h1
  have hri : readInt32 s0 = (Res.ok (toSigned 4 (beVal hd)), s1) := by
    unfold readInt32; rw [Rd.bind_ok h1]; rfl
  have hn : toSigned 4 (beVal hd) < 0 := by
    unfold toSigned
    have : ¬ beVal hd < 2 ^ (8 * 4 - 1) := by simp; omega
    simp only [this, if_false]
    have : (2 : Nat) ^ (8 * 4) = 4294967296 := by decide
    rw [this]; omega
  have hh : listHdr s = (Res.err, s1) := by
    unfold listHdr
    rw [Rd.bind_ok h0, Rd.bind_ok hri]
    simp [hn, Rd.fail]
  rw [unm_succ]
  simp only [if_true]
  rw [Rd.bind_err hh]

/-- a tag id above 12 where a value is expected is an error (and nothing is consumed for it) -/
theorem DYNBT_unknown_tag (fuel : Nat) (tag : Byte) (h : 12 < tag.toNat) (s : Stream) :
    unm (fuel + 1) tag s = (Res.err, s) := by
  have h9 : tag ≠ 9 := by intro h'; subst h'; simp at h
  have h10 : tag ≠ 10 := by intro h'; subst h'; simp at h
  rw [unm_succ_leaf fuel tag h9 h10]
  have : unmLeaf tag = Rd.fail := by
    unfold unmLeaf
    split <;> first | omega | rfl
  rw [this]; rfl

/-- … also as the element type of a list (even an empty one) … -/
theorem DYNBT_unknown_tag_list (fuel : Nat) (s : Stream) (e : Byte) (he : 12 < e.toNat) (hd rest : Bytes)
    (h : s.flat = e :: hd ++ rest) (hl : hd.length = 4) : (unm (fuel + 1) 9 s).1 = Res.err := by
  obtain ⟨s0, h0, hf0, _⟩ := reads_readByte e s (hd ++ rest) (by simpa using h)
  obtain ⟨s1, h1, _, _⟩ := reads_readFull hd s0 rest hf0
  rw [hl] at h1
  have hri : readInt32 s0 = (Res.ok (toSigned 4 (beVal hd)), s1) := by
    unfold readInt32; rw [Rd.bind_ok h1]; rfl
  have hh : (listHdr s).1 = Res.err := by
    unfold listHdr
    rw [Rd.bind_ok h0, Rd.bind_ok hri]
    by_cases c : toSigned 4 (beVal hd) < 0 <;> simp [c, he, Rd.fail]
  rw [unm_succ]
  simp only [if_true]
  rw [Rd.bind_apply]
  rcases hx : listHdr s with ⟨r, sx⟩
  rw [hx] at hh
  simp only at hh
  subst hh
  rfl

/-- … and as the tag of a compound entry -/
theorem DYNBT_unknown_tag_field (fuel w : Nat) (s s1 : Stream) (t : Byte) (name : Bytes) (ht : 12 < t.toNat)
    (h : readTag s = (Res.ok (t, name), s1)) : (loopKvs (unm (fuel + 1)) (w + 1) s).1 = Res.err := by
  rw [loopKvs_succ, Rd.bind_ok h]
  have h0 : t ≠ 0 := by intro h'; subst h'; simp at ht
  simp only [h0, if_false]
  rw [Rd.bind_err (DYNBT_unknown_tag fuel t ht s1)]

/-! ### C03/C09: a strict prefix is never a document; reader faults are never swallowed -/

/-- the decoder's result does not depend on what follows the bytes it consumed -/
theorem DYNBT_ext_stable (tag : Byte) : Rd.ExtStable (unmarshal tag) := extStable_unmarshal tag

/-- a strict prefix of the payload of a well-formed tree is never decoded successfully
(instance of `prefix_fails`) -/
theorem DYNBT_prefix (t : NBT) (hw : t.WF) (hs : Small t) (pre more : Bytes)
    (h : encPayload t = pre ++ more) (hmore : more ≠ []) (s : Stream) (hsf : s.flat = pre) :
    ∀ v, (unmarshal t.tag s).1 ≠ Res.ok v := by
  obtain ⟨v, s', h1, h2, _, _, _⟩ := DYNBT_exact t hw hs (Stream.ofBytes (encPayload t)) [] (by simp)
  exact Rd.prefix_fails (extStable_unmarshal t.tag) (s := Stream.ofBytes (encPayload t)) (rest := [])
    (by simp [h]) h1 h2 hmore s hsf

/-- a strict prefix of a document (either format) is never reported as a decoded document -/
theorem DYNBT_prefix_doc (file : Bool) (name : Bytes) (hn : name.length < 2 ^ 15)
    (t : NBT) (hw : t.WF) (hs : Small t) (pre more : Bytes)
    (h : encDoc (if file then .file else .network) name t = pre ++ more) (hmore : more ≠ [])
    (s : Stream) (hsf : s.flat = pre) : ∀ r, (decodeDoc file s).1 ≠ Res.ok r := by
  obtain ⟨v, s', h1, h2, _, _⟩ := DYNBT_exact_doc file name hn t hw hs
    (Stream.ofBytes (encDoc (if file then .file else .network) name t)) [] (by simp)
  exact Rd.prefix_fails (extStable_decodeDoc file)
    (s := Stream.ofBytes (encDoc (if file then .file else .network) name t)) (rest := [])
    (by simp [h]) h1 h2 hmore s hsf

/-- C09, reader side: if the source ends (EOF) or fails (injected error) after any strict prefix of a
document, however it was fragmented, `Decode` returns a non-nil error — not success, not a panic -/
theorem DYNBT_reader_fault (file : Bool) (name : Bytes) (hn : name.length < 2 ^ 15)
    (t : NBT) (hw : t.WF) (hs : Small t) (pre more : Bytes)
    (h : encDoc (if file then .file else .network) name t = pre ++ more) (hmore : more ≠ [])
    (s : Stream) (hsf : s.flat = pre) : (decodeDoc file s).1 = Res.err := by
  have h1 := DYNBT_prefix_doc file name hn t hw hs pre more h hmore s hsf
  have h2 := DYNBT_total_doc file s
  rcases hr : (decodeDoc file s).1 with r | _ | _
  · exact absurd hr (h1 r)
  · rfl
  · exact absurd hr h2

/-! ### C09: fragmentation invariance -/

/-- `UnmarshalNBT` returns the same value / error class and leaves the same bytes unread for any two
deliveries of the same bytes with the same end (EOF or error): every read goes through `io.ReadFull` or
`ReadByte`.  (Before the repair the scalar cases used a bare `Read`, for which this is false:
`Rd.readOnce_not_fragInv`.) -/
theorem DYNBT_frag (tag : Byte) : Rd.FragInv (unmarshal tag) := fragInv_unmarshal tag

theorem DYNBT_frag_doc (file : Bool) : Rd.FragInv (decodeDoc file) := by
  unfold decodeDoc
  refine Rd.fragInv_bind Rd.fragInv_readByte (fun t => ?_)
  have hu : ∀ name : Bytes, Rd.FragInv
      (unmarshal t >>= fun v => (Pure.pure (t, name, v) : Rd (Byte × Bytes × Val))) :=
    fun name => Rd.fragInv_bind (fragInv_unmarshal t) (fun _ => Rd.fragInv_pure _)
  refine Rd.fragInv_ite ?_ (hu [])
  refine Rd.fragInv_ite Rd.fragInv_fail (Rd.fragInv_ite (hu []) ?_)
  exact Rd.fragInv_bind fragInv_readString (fun name => hu name)

/-! ### Non-vacuity -/

/-- `{"a": [I; ] (empty list of Int), "": "hi"}` is well-formed and small -/
example : (NBT.compound [([0x61], .list 3 []), ([], .string [0x68, 0x69])]).WF ∧
    Small (NBT.compound [([0x61], .list 3 []), ([], .string [0x68, 0x69])]) := by
  simp [NBT.WF, NBT.WFKvs, NBT.WFList, Small, SmallKvs, SmallList]

/-- the hypotheses of the negative-length theorems are met: `ff ff ff ff` -/
example : (2 : Nat) ^ 31 ≤ beVal [0xff, 0xff, 0xff, 0xff] := by decide

end GoMC.Props.DYNBT
