/-
  C13 — chunk wire/save conversions preserve blocks, biomes, height maps, entities.
  Property theorems only (helper lemmas: GoMC.Lemmas.Chunk; model: GoMC.Model.Chunk).

  STAGE 1 (this file, so far): the clauses that do not depend on the representation of the palette container:
    * `C13_count…`   — after any history of SetBlock calls a section's block count equals the number of non-air
                       blocks it holds, and the int16 counter never wraps;
    * `C13_packXZ…`  — BlockEntity.PackXZ/UnpackXZ (regenerated from level/chunk.go into `Gen.*` on every run).
  The container enters through the interface `Container` (abstraction to a list of ids + the array laws), which is
  exactly the statement of `C12_set_refines`; stage 2 instantiates it with `Model/Palette.lean`.

  `C13_registry_bijection` is NOT a Lean theorem (DESIGN §8/§9): it is established by exhaustive enumeration on the
  real registry in the harness on every run (`registry.bijection n=<count> => ok`) and enters the save round-trip
  theorem of stage 2 as hypothesis `Bij`.
-/
/- OPEN (stage 2, needs Model/Palette.lean and theorems C12_set_refines, C12_wire_roundtrip):
     C13_wire_roundtrip — a chunk written in network form and read into a chunk with the same number of sections
       (however used before) has equal abs of states and biomes and equal counters in every section, equal
       MOTION_BLOCKING / WORLD_SURFACE, equal block entities, and the reader consumes exactly the bytes written.
     C13_save_roundtrip — ChunkFromSave (ChunkToSave c) preserves every block state, biome, light array, status and
       each of the six height maps under its own name, under `Bij` and within the width range of C12's WithData theorem. -/
/-
  Hypotheses a reader should know: `K.len ≤ 32767` (the real length is 4096) is what keeps the int16 counter from
  wrapping; indices are in range and values are `K.valid` (SetBlock outside that domain panics in Go and is outside
  the property); `isAir` is an arbitrary predicate on ids (the real one is `block.IsAir`, total on registry ids).
-/
import GoMC.Model.Chunk
import GoMC.Lemmas.Chunk
import GoMC.Gen.Level
namespace GoMC.Props.C13
open GoMC GoMC.Model.Chunk GoMC.Lemmas.Chunk

/-- the counter of a section is exact: it is the number of non-air entries of the abstract state list -/
def Exact {C} (K : Container C) (isAir : Nat → Bool) (s : Section C) : Prop :=
  K.Inv s.states ∧ s.blockCount = BitVec.ofNat 16 (nonAir isAir (K.abs s.states))

/-! ### one SetBlock -/

/-- One `SetBlock` keeps the counter exact and updates exactly position `i` of the abstract list. -/
theorem C13_count_step {C} (K : Container C) (hlen : K.len ≤ 32767) (isAir : Nat → Bool) (s : Section C)
    (i v : Nat) (h : Exact K isAir s) (hi : i < K.len) (hv : K.valid v) :
    Exact K isAir (s.setBlock K isAir i v) ∧
    K.abs (s.setBlock K isAir i v).states = (K.abs s.states).set i v := by
  obtain ⟨hinv, hcnt⟩ := h
  have hL := K.abs_length _ hinv
  have hi' : i < (K.abs s.states).length := by omega
  have hset := K.set_abs s.states i v hinv hi hv
  refine ⟨⟨K.set_inv _ _ _ hinv hi hv, ?_⟩, hset⟩
  have hbook := nonAir_set isAir (K.abs s.states) i v hi'
  have hle := nonAir_le isAir (K.abs s.states)
  have hle' := nonAir_set_le isAir (K.abs s.states) i v
  show (if !isAir v then (if !isAir (K.get s.states i) then s.blockCount - 1#16 else s.blockCount) + 1#16
        else (if !isAir (K.get s.states i) then s.blockCount - 1#16 else s.blockCount))
      = BitVec.ofNat 16 (nonAir isAir (K.abs (K.set s.states i v)))
  rw [hset, K.get_abs _ _ hinv hi, hcnt]
  cases hold : isAir ((K.abs s.states).getD i 0) <;> cases hnew : isAir v <;>
    simp only [hold, hnew, Bool.not_false, Bool.not_true, if_true, Bool.false_eq_true, if_false, Nat.add_zero] at hbook ⊢
  · -- old non-air, new non-air: -1 then +1
    have hpos := nonAir_pos isAir (K.abs s.states) i hi' hold
    rw [ofNat16_sub_one hpos (by omega), ofNat16_add_one (by omega)]
    congr 1; omega
  · -- old non-air, new air: -1
    have hpos := nonAir_pos isAir (K.abs s.states) i hi' hold
    rw [ofNat16_sub_one hpos (by omega)]
    congr 1; omega
  · -- old air, new non-air: +1
    rw [ofNat16_add_one (by omega)]
    congr 1; omega
  · congr 1; omega

/-- the counter after the first statement of `SetBlock` (the conditional decrement) -/
def afterDec {C} (K : Container C) (isAir : Nat → Bool) (s : Section C) (i : Nat) : BitVec 16 :=
  if !isAir (K.get s.states i) then s.blockCount - 1#16 else s.blockCount

/-- The int16 arithmetic of one `SetBlock` never wraps: the decrement happens only when the count is at least
one, the increment only when the result stays at most `len ≤ 32767`; read as integers the two statements compute
`count − [old non-air] + [new non-air]`. -/
theorem C13_count_no_wrap {C} (K : Container C) (hlen : K.len ≤ 32767) (isAir : Nat → Bool) (s : Section C)
    (i v : Nat) (h : Exact K isAir s) (hi : i < K.len) (hv : K.valid v) :
    (afterDec K isAir s i).toInt = s.blockCount.toInt - (if !isAir (K.get s.states i) then 1 else 0) ∧
    0 ≤ (afterDec K isAir s i).toInt ∧
    (s.setBlock K isAir i v).blockCount.toInt = (afterDec K isAir s i).toInt + (if !isAir v then 1 else 0) ∧
    (s.setBlock K isAir i v).blockCount.toInt ≤ (K.len : Int) := by
  obtain ⟨hinv, hcnt⟩ := h
  have hL := K.abs_length _ hinv
  have hi' : i < (K.abs s.states).length := by omega
  have hle := nonAir_le isAir (K.abs s.states)
  have hbook := nonAir_set isAir (K.abs s.states) i v hi'
  have hle' := nonAir_set_le isAir (K.abs s.states) i v
  have hstep := (C13_count_step K hlen isAir s i v ⟨hinv, hcnt⟩ hi hv)
  have hfin : (s.setBlock K isAir i v).blockCount.toInt = (nonAir isAir ((K.abs s.states).set i v) : Int) := by
    rw [hstep.1.2, hstep.2]; exact ofNat16_toInt (by omega)
  have hc1 : afterDec K isAir s i
      = BitVec.ofNat 16 (nonAir isAir (K.abs s.states) - (if !isAir ((K.abs s.states).getD i 0) then 1 else 0)) := by
    unfold afterDec
    rw [K.get_abs _ _ hinv hi, hcnt]
    cases hold : isAir ((K.abs s.states).getD i 0)
    · have hpos := nonAir_pos isAir (K.abs s.states) i hi' hold
      simp only [Bool.not_false, if_true]
      exact ofNat16_sub_one hpos (by omega)
    · simp
  rw [hc1, hfin, hcnt, ofNat16_toInt (n := nonAir isAir (K.abs s.states)) (by omega),
    ofNat16_toInt (n := nonAir isAir (K.abs s.states) - _) (by omega), K.get_abs _ _ hinv hi]
  cases hold : isAir ((K.abs s.states).getD i 0) <;> cases hnew : isAir v <;>
    simp only [hold, hnew, Bool.not_false, Bool.not_true, if_true, Bool.false_eq_true, if_false, Nat.add_zero] at hbook ⊢
  · have hpos := nonAir_pos isAir (K.abs s.states) i hi' hold
    omega
  · have hpos := nonAir_pos isAir (K.abs s.states) i hi' hold
    omega
  · omega
  · omega

/-! ### every history -/

/-- **C13_count.** For every history of `SetBlock` calls (indices in range, ids the container can hold) on a
section whose counter is exact, the section still satisfies the container invariant, its abstract state list is
the plain array updated by the same history, and `BlockCount` — as the Go int16 and as an integer — equals the
number of non-air entries it holds. -/
theorem C13_count {C} (K : Container C) (hlen : K.len ≤ 32767) (isAir : Nat → Bool) (s : Section C)
    (h : Exact K isAir s) (hist : List (Nat × Nat)) (hh : ∀ p ∈ hist, p.1 < K.len ∧ K.valid p.2) :
    K.Inv (s.run K isAir hist).states ∧
    K.abs (s.run K isAir hist).states = hist.foldl (fun xs p => xs.set p.1 p.2) (K.abs s.states) ∧
    (s.run K isAir hist).blockCount = BitVec.ofNat 16 (nonAir isAir (K.abs (s.run K isAir hist).states)) ∧
    (s.run K isAir hist).blockCount.toInt = (nonAir isAir (K.abs (s.run K isAir hist).states) : Int) := by
  induction hist generalizing s with
  | nil =>
    refine ⟨h.1, rfl, h.2, ?_⟩
    show s.blockCount.toInt = _
    rw [h.2]
    have := nonAir_le isAir (K.abs s.states)
    have := K.abs_length _ h.1
    exact ofNat16_toInt (by omega)
  | cons p rest ih =>
    have hp := hh p (List.mem_cons_self)
    have hstep := C13_count_step K hlen isAir s p.1 p.2 h hp.1 hp.2
    have := ih (s.setBlock K isAir p.1 p.2) hstep.1 (fun q hq => hh q (List.mem_cons_of_mem _ hq))
    rw [hstep.2] at this
    simpa [Section.run] using this

/-- The counter of a fresh section (`EmptyChunk`: `BlockCount: 0`, every state the default id) is exact when the
default id is air. -/
theorem C13_count_empty {C} (K : Container C) (isAir : Nat → Bool) (c : C) (d : Nat)
    (hinv : K.Inv c) (habs : K.abs c = List.replicate K.len d) (hd : isAir d = true) :
    Exact K isAir { blockCount := 0#16, states := c } := by
  refine ⟨hinv, ?_⟩
  show (0#16 : BitVec 16) = BitVec.ofNat 16 (nonAir isAir (K.abs c))
  rw [habs]
  have : nonAir isAir (List.replicate K.len d) = 0 := by
    unfold nonAir
    rw [List.countP_eq_zero]
    intro x hx
    rw [List.eq_of_mem_replicate hx]; simp [hd]
  rw [this]

/-- `countNoneAirBlocks` (what `ChunkFromSave` stores into `BlockCount`) is exact for a container of 4096 entries:
its int16 accumulator does not wrap. -/
theorem C13_count_from_save {C} (K : Container C) (hlen : K.len = 4096) (isAir : Nat → Bool) (c : C)
    (hinv : K.Inv c) :
    Exact K isAir { blockCount := countNoneAirBlocks K isAir c, states := c } ∧
    (countNoneAirBlocks K isAir c).toInt = (nonAir isAir (K.abs c) : Int) := by
  have hL := K.abs_length _ hinv
  have hcl := countLoop_eq isAir (K.abs c) (K.get c)
    (fun i hi => K.get_abs c i hinv (by omega)) 4096 (by omega) (by omega)
  have htake : (K.abs c).take 4096 = K.abs c := List.take_of_length_le (by omega)
  rw [htake] at hcl
  have hle := nonAir_le isAir (K.abs c)
  refine ⟨⟨hinv, hcl⟩, ?_⟩
  show (countLoop (K.get c) isAir (16 * 16 * 16)).toInt = _
  rw [show (16 * 16 * 16 : Nat) = 4096 from rfl, hcl]
  exact ofNat16_toInt (by omega)

/-- non-vacuity: the plain-list container meets the interface (here with 8 entries); a fresh section is exact,
and a history that overwrites a stone with air and sets two more blocks ends with counter 2 -/
example :
    let K := listContainer 8
    let isAir : Nat → Bool := fun v => v == 0
    let s0 : Section (List Nat) := { blockCount := 0#16, states := List.replicate 8 0 }
    Exact K isAir s0 ∧ (s0.run K isAir [(5, 1), (5, 0), (2, 9), (7, 3)]).blockCount = 2#16 := by
  refine ⟨C13_count_empty (listContainer 8) _ _ 0 (by simp [listContainer]) rfl rfl, ?_⟩
  decide

/-! ### BlockEntity.PackXZ / UnpackXZ — T1 bridges and the round trip -/

theorem C13_packXZ_bridge (x z : BitVec 64) (xz : BitVec 8) :
    Gen.BlockEntity_PackXZ_reject x z = packReject x z ∧
    Gen.BlockEntity_PackXZ_value x z = packValue x z ∧
    Gen.BlockEntity_UnpackXZ xz = unpackXZ xz := ⟨rfl, rfl, rfl⟩

/-- `PackXZ` rejects exactly the pairs outside `0..15 × 0..15` (as Go ints) … -/
theorem C13_packXZ_reject (x z : BitVec 64) :
    Gen.BlockEntity_PackXZ_reject x z = true ↔ ¬ (0 ≤ x.toInt ∧ x.toInt ≤ 15 ∧ 0 ≤ z.toInt ∧ z.toInt ≤ 15) := by
  rw [(C13_packXZ_bridge x z 0).1]
  unfold packReject
  simp only [slt_iff, toInt15, toInt0, Bool.or_eq_true, decide_eq_true_eq]
  omega

/-- … and then leaves the entity's field untouched. -/
theorem C13_packXZ_reject_keeps (old : BitVec 8) (x z : BitVec 64)
    (h : ¬ (0 ≤ x.toInt ∧ x.toInt ≤ 15 ∧ 0 ≤ z.toInt ∧ z.toInt ≤ 15)) :
    packXZ old x z = (false, old) := by
  have := (C13_packXZ_reject x z).2 h
  rw [(C13_packXZ_bridge x z 0).1] at this
  simp [packXZ, this]

/-- **Round trip on `0..15 × 0..15`**: `PackXZ` accepts, stores `16·X + Z`, and `UnpackXZ` returns `(X, Z)`. -/
theorem C13_packXZ_roundtrip (x z : BitVec 64)
    (hx0 : 0 ≤ x.toInt) (hx : x.toInt ≤ 15) (hz0 : 0 ≤ z.toInt) (hz : z.toInt ≤ 15) :
    Gen.BlockEntity_PackXZ_reject x z = false ∧
    Gen.BlockEntity_UnpackXZ (Gen.BlockEntity_PackXZ_value x z) = (x, z) ∧
    (Gen.BlockEntity_PackXZ_value x z).toNat = 16 * x.toNat + z.toNat := by
  obtain ⟨a, rfl⟩ := small_of_toInt hx0 hx
  obtain ⟨b, rfl⟩ := small_of_toInt hz0 hz
  have := pack_table a b
  refine ⟨this.1, this.2.1, ?_⟩
  rw [(C13_packXZ_bridge _ _ 0).2.1, this.2.2]
  have ha : (BitVec.ofNat 64 a.val).toNat = a.val := by simp [BitVec.toNat_ofNat]; omega
  have hb : (BitVec.ofNat 64 b.val).toNat = b.val := by simp [BitVec.toNat_ofNat]; omega
  rw [ha, hb]

/-- **Every byte is a packed pair**: `UnpackXZ` yields coordinates in `0..15` that `PackXZ` accepts and packs back
to the same byte (so packing is a bijection between `0..15 × 0..15` and the 256 byte values). -/
theorem C13_unpackXZ_pack (xz : BitVec 8) :
    Gen.BlockEntity_PackXZ_reject (Gen.BlockEntity_UnpackXZ xz).1 (Gen.BlockEntity_UnpackXZ xz).2 = false ∧
    Gen.BlockEntity_PackXZ_value (Gen.BlockEntity_UnpackXZ xz).1 (Gen.BlockEntity_UnpackXZ xz).2 = xz ∧
    (Gen.BlockEntity_UnpackXZ xz).1.toNat ≤ 15 ∧ (Gen.BlockEntity_UnpackXZ xz).2.toNat ≤ 15 :=
  unpack_table xz.toFin

end GoMC.Props.C13
