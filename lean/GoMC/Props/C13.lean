/-
  C13 — chunk wire/save conversions preserve blocks, biomes, height maps, entities.
  Property theorems only (helper lemmas: GoMC.Lemmas.Chunk / ChunkWire / ChunkSave; models: GoMC.Model.Chunk,
  GoMC.Model.ChunkWire, GoMC.Model.ChunkSave on top of the models of C05/C06 (fields), C11 (BitStorage),
  C12 (palette container) and C01/C03 (NBT readers)).

  * `C13_count…`          — after any history of SetBlock calls a section's block count equals the number of non-air
                            blocks it holds, the int16 counter never wraps (over the array interface `Container`);
                            `C13_setBlock_refines` instantiates the interface with the real palette container (C12).
  * `C13_packXZ…`         — BlockEntity.PackXZ/UnpackXZ (regenerated from level/chunk.go into `Gen.*` on every run).
  * `C13_wire_roundtrip`  — the network form: written and read into a chunk with the same number of sections, fresh
                            or used: equal block states, biomes, counters, MOTION_BLOCKING / WORLD_SURFACE, block
                            entities; exactly the bytes written are consumed.
  * `C13_readFrom_total / _fragInv / _extStable` (+ Section, BlockEntity, lightData) — for C08 and C09.
  * `C13_save_roundtrip`  — the save form: `ChunkFromSave (ChunkToSave c)` preserves block states, biomes, light,
                            status and each of the six height maps under its own name, relative to `Bij` at the
                            palette entries (`C13_save_container`: every container representation;
                            `C13_save_roundtrip_sections`: the chunk-level index arithmetic and slot filling).

  `C13_registry_bijection` is NOT a Lean theorem (DESIGN §8/§9): it is established by exhaustive enumeration on the
  real registry in the harness on every run (`registry.bijection n=<count> => ok`) and enters the save round trip
  as the hypothesis `BijAt` (`Bij` at the ids that occur).

  Hypotheses a reader should know: `K.len ≤ 32767` (the real length is 4096) keeps the int16 counter from wrapping;
  indices in range and ids in the registry range (SetBlock outside that domain panics in Go and is outside the
  property); `isAir` is an arbitrary predicate on ids (the real one is `block.IsAir`, total on registry ids);
  registry widths `gbS ≥ 9`, `gbB ≥ 4`, both ≤ 31 (`GbOK`; the real values are 15 and 6); block entities carry no
  data or the payload of a well-formed NBT value with strings shorter than 2^15; every length fits a VarInt
  (< 2^31); the source chunk's two network height maps are height maps of its own height (`ChunkDom.mb/ws`);
  the destination has the same number of sections and containers of the right configuration and length — nothing
  else (`ChunkDst`).  The height-map NBT codec is modelled concretely (`hmEnc`/`hmDecF`), not taken as a parameter.
-/
import GoMC.Model.Chunk
import GoMC.Lemmas.Chunk
import GoMC.Gen.Level
import GoMC.Lemmas.ChunkWire
import GoMC.Lemmas.ChunkSave
import GoMC.Props.C12
namespace GoMC.Props.C13
open GoMC GoMC.Model.Chunk GoMC.Lemmas.Chunk

/-- the counter of a section is exact: it is the number of non-air entries of the abstract state list -/
def Exact {C} (K : Container C) (isAir : Nat → Bool) (s : Section C) : Prop :=
  K.Inv s.states ∧ s.blockCount = BitVec.ofNat 16 (nonAir isAir (K.abs s.states))

/-! ### one SetBlock -/

/-- One `SetBlock` keeps the counter exact and updates exactly position `i` of the abstract list. -/
theorem C13_count_step {C} (K : Container C) (hlen : K.len ≤ 32767) (isAir : Nat → Bool) (s : Section C)
    (i v : Nat) (h : Exact K isAir s) (hi : i < K.len) (hv : K.valid v) :
    Exact K isAir (s.setBlock K isAir i v) ∧
    K.abs (s.setBlock K isAir i v).states = (K.abs s.states).set i v := by
  obtain ⟨hinv, hcnt⟩ := h
  have hL := K.abs_length _ hinv
  have hi' : i < (K.abs s.states).length := by omega
  have hset := K.set_abs s.states i v hinv hi hv
  refine ⟨⟨K.set_inv _ _ _ hinv hi hv, ?_⟩, hset⟩
  have hbook := nonAir_set isAir (K.abs s.states) i v hi'
  have hle := nonAir_le isAir (K.abs s.states)
  have hle' := nonAir_set_le isAir (K.abs s.states) i v
  show (if !isAir v then (if !isAir (K.get s.states i) then s.blockCount - 1#16 else s.blockCount) + 1#16
        else (if !isAir (K.get s.states i) then s.blockCount - 1#16 else s.blockCount))
      = BitVec.ofNat 16 (nonAir isAir (K.abs (K.set s.states i v)))
  rw [hset, K.get_abs _ _ hinv hi, hcnt]
  cases hold : isAir ((K.abs s.states).getD i 0) <;> cases hnew : isAir v <;>
    simp only [hold, hnew, Bool.not_false, Bool.not_true, if_true, Bool.false_eq_true, if_false, Nat.add_zero] at hbook ⊢
  · -- old non-air, new non-air: -1 then +1
    have hpos := nonAir_pos isAir (K.abs s.states) i hi' hold
    rw [ofNat16_sub_one hpos (by omega), ofNat16_add_one (by omega)]
    congr 1; omega
  · -- old non-air, new air: -1
    have hpos := nonAir_pos isAir (K.abs s.states) i hi' hold
    rw [ofNat16_sub_one hpos (by omega)]
    congr 1; omega
  · -- old air, new non-air: +1
    rw [ofNat16_add_one (by omega)]
    congr 1; omega
  · congr 1; omega

/-- the counter after the first statement of `SetBlock` (the conditional decrement) -/
def afterDec {C} (K : Container C) (isAir : Nat → Bool) (s : Section C) (i : Nat) : BitVec 16 :=
  if !isAir (K.get s.states i) then s.blockCount - 1#16 else s.blockCount

/-- The int16 arithmetic of one `SetBlock` never wraps: the decrement happens only when the count is at least
one, the increment only when the result stays at most `len ≤ 32767`; read as integers the two statements compute
`count − [old non-air] + [new non-air]`. -/
theorem C13_count_no_wrap {C} (K : Container C) (hlen : K.len ≤ 32767) (isAir : Nat → Bool) (s : Section C)
    (i v : Nat) (h : Exact K isAir s) (hi : i < K.len) (hv : K.valid v) :
    (afterDec K isAir s i).toInt = s.blockCount.toInt - (if !isAir (K.get s.states i) then 1 else 0) ∧
    0 ≤ (afterDec K isAir s i).toInt ∧
    (s.setBlock K isAir i v).blockCount.toInt = (afterDec K isAir s i).toInt + (if !isAir v then 1 else 0) ∧
    (s.setBlock K isAir i v).blockCount.toInt ≤ (K.len : Int) := by
  obtain ⟨hinv, hcnt⟩ := h
  have hL := K.abs_length _ hinv
  have hi' : i < (K.abs s.states).length := by omega
  have hle := nonAir_le isAir (K.abs s.states)
  have hbook := nonAir_set isAir (K.abs s.states) i v hi'
  have hle' := nonAir_set_le isAir (K.abs s.states) i v
  have hstep := (C13_count_step K hlen isAir s i v ⟨hinv, hcnt⟩ hi hv)
  have hfin : (s.setBlock K isAir i v).blockCount.toInt = (nonAir isAir ((K.abs s.states).set i v) : Int) := by
    rw [hstep.1.2, hstep.2]; exact ofNat16_toInt (by omega)
  have hc1 : afterDec K isAir s i
      = BitVec.ofNat 16 (nonAir isAir (K.abs s.states) - (if !isAir ((K.abs s.states).getD i 0) then 1 else 0)) := by
    unfold afterDec
    rw [K.get_abs _ _ hinv hi, hcnt]
    cases hold : isAir ((K.abs s.states).getD i 0)
    · have hpos := nonAir_pos isAir (K.abs s.states) i hi' hold
      simp only [Bool.not_false, if_true]
      exact ofNat16_sub_one hpos (by omega)
    · simp
  rw [hc1, hfin, hcnt, ofNat16_toInt (n := nonAir isAir (K.abs s.states)) (by omega),
    ofNat16_toInt (n := nonAir isAir (K.abs s.states) - _) (by omega), K.get_abs _ _ hinv hi]
  cases hold : isAir ((K.abs s.states).getD i 0) <;> cases hnew : isAir v <;>
    simp only [hold, hnew, Bool.not_false, Bool.not_true, if_true, Bool.false_eq_true, if_false, Nat.add_zero] at hbook ⊢
  · have hpos := nonAir_pos isAir (K.abs s.states) i hi' hold
    omega
  · have hpos := nonAir_pos isAir (K.abs s.states) i hi' hold
    omega
  · omega
  · omega

/-! ### every history -/

/-- **C13_count.** For every history of `SetBlock` calls (indices in range, ids the container can hold) on a
section whose counter is exact, the section still satisfies the container invariant, its abstract state list is
the plain array updated by the same history, and `BlockCount` — as the Go int16 and as an integer — equals the
number of non-air entries it holds. -/
theorem C13_count {C} (K : Container C) (hlen : K.len ≤ 32767) (isAir : Nat → Bool) (s : Section C)
    (h : Exact K isAir s) (hist : List (Nat × Nat)) (hh : ∀ p ∈ hist, p.1 < K.len ∧ K.valid p.2) :
    K.Inv (s.run K isAir hist).states ∧
    K.abs (s.run K isAir hist).states = hist.foldl (fun xs p => xs.set p.1 p.2) (K.abs s.states) ∧
    (s.run K isAir hist).blockCount = BitVec.ofNat 16 (nonAir isAir (K.abs (s.run K isAir hist).states)) ∧
    (s.run K isAir hist).blockCount.toInt = (nonAir isAir (K.abs (s.run K isAir hist).states) : Int) := by
  induction hist generalizing s with
  | nil =>
    refine ⟨h.1, rfl, h.2, ?_⟩
    show s.blockCount.toInt = _
    rw [h.2]
    have := nonAir_le isAir (K.abs s.states)
    have := K.abs_length _ h.1
    exact ofNat16_toInt (by omega)
  | cons p rest ih =>
    have hp := hh p (List.mem_cons_self)
    have hstep := C13_count_step K hlen isAir s p.1 p.2 h hp.1 hp.2
    have := ih (s.setBlock K isAir p.1 p.2) hstep.1 (fun q hq => hh q (List.mem_cons_of_mem _ hq))
    rw [hstep.2] at this
    simpa [Section.run] using this

/-- The counter of a fresh section (`EmptyChunk`: `BlockCount: 0`, every state the default id) is exact when the
default id is air. -/
theorem C13_count_empty {C} (K : Container C) (isAir : Nat → Bool) (c : C) (d : Nat)
    (hinv : K.Inv c) (habs : K.abs c = List.replicate K.len d) (hd : isAir d = true) :
    Exact K isAir { blockCount := 0#16, states := c } := by
  refine ⟨hinv, ?_⟩
  show (0#16 : BitVec 16) = BitVec.ofNat 16 (nonAir isAir (K.abs c))
  rw [habs]
  have : nonAir isAir (List.replicate K.len d) = 0 := by
    unfold nonAir
    rw [List.countP_eq_zero]
    intro x hx
    rw [List.eq_of_mem_replicate hx]; simp [hd]
  rw [this]

/-- `countNoneAirBlocks` (what `ChunkFromSave` stores into `BlockCount`) is exact for a container of 4096 entries:
its int16 accumulator does not wrap. -/
theorem C13_count_from_save {C} (K : Container C) (hlen : K.len = 4096) (isAir : Nat → Bool) (c : C)
    (hinv : K.Inv c) :
    Exact K isAir { blockCount := countNoneAirBlocks K isAir c, states := c } ∧
    (countNoneAirBlocks K isAir c).toInt = (nonAir isAir (K.abs c) : Int) := by
  have hL := K.abs_length _ hinv
  have hcl := countLoop_eq isAir (K.abs c) (K.get c)
    (fun i hi => K.get_abs c i hinv (by omega)) 4096 (by omega) (by omega)
  have htake : (K.abs c).take 4096 = K.abs c := List.take_of_length_le (by omega)
  rw [htake] at hcl
  have hle := nonAir_le isAir (K.abs c)
  refine ⟨⟨hinv, hcl⟩, ?_⟩
  show (countLoop (K.get c) isAir (16 * 16 * 16)).toInt = _
  rw [show (16 * 16 * 16 : Nat) = 4096 from rfl, hcl]
  exact ofNat16_toInt (by omega)

/-- non-vacuity: the plain-list container meets the interface (here with 8 entries); a fresh section is exact,
and a history that overwrites a stone with air and sets two more blocks ends with counter 2 -/
example :
    let K := listContainer 8
    let isAir : Nat → Bool := fun v => v == 0
    let s0 : Section (List Nat) := { blockCount := 0#16, states := List.replicate 8 0 }
    Exact K isAir s0 ∧ (s0.run K isAir [(5, 1), (5, 0), (2, 9), (7, 3)]).blockCount = 2#16 := by
  refine ⟨C13_count_empty (listContainer 8) _ _ 0 (by simp [listContainer]) rfl rfl, ?_⟩
  decide

/-! ### BlockEntity.PackXZ / UnpackXZ — T1 bridges and the round trip -/

theorem C13_packXZ_bridge (x z : BitVec 64) (xz : BitVec 8) :
    Gen.BlockEntity_PackXZ_reject x z = packReject x z ∧
    Gen.BlockEntity_PackXZ_value x z = packValue x z ∧
    Gen.BlockEntity_UnpackXZ xz = unpackXZ xz := ⟨rfl, rfl, rfl⟩

/-- `PackXZ` rejects exactly the pairs outside `0..15 × 0..15` (as Go ints) … -/
theorem C13_packXZ_reject (x z : BitVec 64) :
    Gen.BlockEntity_PackXZ_reject x z = true ↔ ¬ (0 ≤ x.toInt ∧ x.toInt ≤ 15 ∧ 0 ≤ z.toInt ∧ z.toInt ≤ 15) := by
  rw [(C13_packXZ_bridge x z 0).1]
  unfold packReject
  simp only [slt_iff, toInt15, toInt0, Bool.or_eq_true, decide_eq_true_eq]
  omega

/-- … and then leaves the entity's field untouched. -/
theorem C13_packXZ_reject_keeps (old : BitVec 8) (x z : BitVec 64)
    (h : ¬ (0 ≤ x.toInt ∧ x.toInt ≤ 15 ∧ 0 ≤ z.toInt ∧ z.toInt ≤ 15)) :
    packXZ old x z = (false, old) := by
  have := (C13_packXZ_reject x z).2 h
  rw [(C13_packXZ_bridge x z 0).1] at this
  simp [packXZ, this]

/-- **Round trip on `0..15 × 0..15`**: `PackXZ` accepts, stores `16·X + Z`, and `UnpackXZ` returns `(X, Z)`. -/
theorem C13_packXZ_roundtrip (x z : BitVec 64)
    (hx0 : 0 ≤ x.toInt) (hx : x.toInt ≤ 15) (hz0 : 0 ≤ z.toInt) (hz : z.toInt ≤ 15) :
    Gen.BlockEntity_PackXZ_reject x z = false ∧
    Gen.BlockEntity_UnpackXZ (Gen.BlockEntity_PackXZ_value x z) = (x, z) ∧
    (Gen.BlockEntity_PackXZ_value x z).toNat = 16 * x.toNat + z.toNat := by
  obtain ⟨a, rfl⟩ := small_of_toInt hx0 hx
  obtain ⟨b, rfl⟩ := small_of_toInt hz0 hz
  have := pack_table a b
  refine ⟨this.1, this.2.1, ?_⟩
  rw [(C13_packXZ_bridge _ _ 0).2.1, this.2.2]
  have ha : (BitVec.ofNat 64 a.val).toNat = a.val := by simp [BitVec.toNat_ofNat]; omega
  have hb : (BitVec.ofNat 64 b.val).toNat = b.val := by simp [BitVec.toNat_ofNat]; omega
  rw [ha, hb]

/-- **Every byte is a packed pair**: `UnpackXZ` yields coordinates in `0..15` that `PackXZ` accepts and packs back
to the same byte (so packing is a bijection between `0..15 × 0..15` and the 256 byte values). -/
theorem C13_unpackXZ_pack (xz : BitVec 8) :
    Gen.BlockEntity_PackXZ_reject (Gen.BlockEntity_UnpackXZ xz).1 (Gen.BlockEntity_UnpackXZ xz).2 = false ∧
    Gen.BlockEntity_PackXZ_value (Gen.BlockEntity_UnpackXZ xz).1 (Gen.BlockEntity_UnpackXZ xz).2 = xz ∧
    (Gen.BlockEntity_UnpackXZ xz).1.toNat ≤ 15 ∧ (Gen.BlockEntity_UnpackXZ xz).2.toNat ≤ 15 :=
  unpack_table xz.toFin

/-! ## STAGE 2 — the byte-level models (Model/ChunkWire.lean) -/

section stage2
open GoMC.Model GoMC.Lemmas.ChunkWire
open GoMC.Lemmas.Palette (Inv abs GbOK InReg getV)

/-! ### the real container meets the array interface (C12), so the counter theorems apply to the real section -/

/-- `PaletteContainer` of `n` entries as an instance of the interface: `abs` is C12's abstraction, the laws are
`C12_get` and `C12_set_refines` -/
def palK (cfg : PalCfg) (gb n : Nat) (hgb : GbOK cfg gb) : Container PCont where
  len := n
  valid := fun v => v < 2 ^ gb
  Inv := Inv cfg gb n
  abs := fun c => (abs n c).map Int.toNat
  get := fun c i => (getV c i).toNat
  set := fun c i v => (c.set (i : Int) (v : Int)).2
  abs_length := fun c _ => by simp
  get_abs := fun c i _ hi => by simp [Lemmas.Palette.abs, hi]
  set_inv := fun c i v hinv hi hv => by
    have hv' : InReg gb (v : Int) := ⟨by omega, by exact_mod_cast hv⟩
    obtain ⟨c', h1, h2, _⟩ := C12.C12_set_refines hgb hinv hi hv' 0
    rw [(C12.C12_set_fuel hgb hinv hi hv' 0).2, h1]
    exact h2
  set_abs := fun c i v hinv hi hv => by
    have hv' : InReg gb (v : Int) := ⟨by omega, by exact_mod_cast hv⟩
    obtain ⟨c', h1, _, h3⟩ := C12.C12_set_refines hgb hinv hi hv' 0
    rw [(C12.C12_set_fuel hgb hinv hi hv' 0).2, h1]
    simp only [h3, List.map_set, Int.toNat_natCast]

theorem C13_palK_abs (cfg : PalCfg) (gb n : Nat) (hgb : GbOK cfg gb) (c : PCont) :
    (palK cfg gb n hgb).abs c = (abs n c).map Int.toNat := rfl

/-- `(*Section).SetBlock` on the real container IS the interface-level `SetBlock` of stage 1: it succeeds, and
counter and container afterwards are those of `Section.setBlock (palK …)` — so `C13_count`, `C13_count_no_wrap`
hold for every history of real `SetBlock` calls (indices below 4096, ids in the registry range). -/
theorem C13_setBlock_refines {gb : Nat} (hgb : GbOK (blocksCfg gb) gb) (isAir : Int → Bool) (s : WSec)
    (hinv : Inv (blocksCfg gb) gb 4096 s.states) (i v : Nat) (hi : i < 4096) (hv : v < 2 ^ gb) :
    let K := palK (blocksCfg gb) gb 4096 hgb
    let t := Section.setBlock K (fun n => isAir (n : Int)) ⟨s.count, s.states⟩ i v
    s.setBlock isAir (i : Int) (v : Int) = (.ok (), { s with count := t.blockCount, states := t.states }) := by
  intro K t
  have hv' : InReg gb (v : Int) := ⟨by omega, by exact_mod_cast hv⟩
  obtain ⟨x, hx, _, hxr⟩ := C12.C12_get hgb hinv hi
  obtain ⟨c', h1, _, _⟩ := C12.C12_set_refines hgb hinv hi hv' 0
  have hset : s.states.set (i : Int) (v : Int) = (.ok (), c') := by
    rw [(C12.C12_set_fuel hgb hinv hi hv' 0).2, h1]
  have hget : (getV s.states i : Int) = x := by simp [getV, hx]
  have hx0 : ((x.toNat : Nat) : Int) = x := Int.toNat_of_nonneg hxr.1
  unfold WSec.setBlock
  simp only [hx, hset]
  show _ = (Res.ok (), { s with count := (Section.setBlock K (fun n => isAir (n : Int)) ⟨s.count, s.states⟩ i v).blockCount,
                                states := (Section.setBlock K (fun n => isAir (n : Int)) ⟨s.count, s.states⟩ i v).states })
  simp only [Section.setBlock, K, palK, hget, hx0, hset]

/-! ### C13_wire_roundtrip -/

/-- **C13_wire_roundtrip.**  Let `c` be a chunk whose containers are well-formed (`ChunkDom`: C12's invariant for the
block-state and biome container of every section, height maps of the chunk's height, block entities carrying
well-formed NBT or none) and `d` ANY chunk with the same number of sections whose containers have the right kind
and length (`ChunkDst` — built by `EmptyChunk`, used, or read into before).  On every source that delivers
`c.WriteTo`'s bytes followed by `rest` — however fragmented — `d.ReadFrom` succeeds, returns the number of bytes
written, leaves exactly `rest`, and afterwards every section of `d` has the counter, the block states and the
biomes of the corresponding section of `c` (as abstract arrays, in containers that are well-formed again),
MOTION_BLOCKING and WORLD_SURFACE are those of `c`, and the block entities are those of `c`. -/
theorem C13_wire_roundtrip {gbS gbB : Nat} (hS : GbOK (blocksCfg gbS) gbS) (hB : GbOK (biomesCfg gbB) gbB)
    (c d : Chunk) (hc : ChunkDom gbS gbB c) (hd : ChunkDst gbS gbB c.secs.length d) (rest : Bytes) (s : Stream)
    (hs : s.flat = (c.writeTo gbS gbB).1 ++ rest) :
    ∃ d' s', Chunk.readFrom gbS gbB d s = (Res.ok (d', (c.writeTo gbS gbB).1.length), s') ∧
      s'.flat = rest ∧ s'.failing = s.failing ∧
      d'.secs.length = c.secs.length ∧
      (∀ (i : Nat) (h1 : i < d'.secs.length) (h2 : i < c.secs.length),
        d'.secs[i].count = c.secs[i].count ∧
        Inv (blocksCfg gbS) gbS 4096 d'.secs[i].states ∧ abs 4096 d'.secs[i].states = abs 4096 c.secs[i].states ∧
        Inv (biomesCfg gbB) gbB 64 d'.secs[i].biomes ∧ abs 64 d'.secs[i].biomes = abs 64 c.secs[i].biomes) ∧
      d'.hm.motionBlocking = c.hm.motionBlocking ∧ d'.hm.worldSurface = c.hm.worldSurface ∧
      d'.ents.elems = c.ents.elems := by
  obtain ⟨d', s', h1, h2, h3, h4, h5, h6, h7, h8⟩ := wire_roundtrip hS hB c d hc hd rest s hs
  refine ⟨d', s', h1, h2, h3, h4, ?_, h6, h7, h8⟩
  intro i i1 i2
  have := listRel_get h5 i (by simpa using i1) (by simpa using i2)
  simp only [List.getElem_map] at this
  obtain ⟨a, ⟨b1, b2⟩, ⟨c1, c2⟩⟩ := this
  exact ⟨a, b1, b2, c1, c2⟩

/-- **`ReadFrom` establishes the representation invariant — and the exact counter — independently of what the
destination held before.**  In `C13_wire_roundtrip` the destination `d` is constrained by `ChunkDst` only (number of
sections, configuration and length of its containers): nothing is assumed about its palettes, its palette maps,
its longs or how often it was read into or edited before (this is C12's `C12_wire_roundtrip`, whose destination is
likewise unconstrained: the model's `Container.readFrom` installs the FRESH palette `cfg.create bits` before it
reads; a reader that kept the previous palette object would not satisfy it).  Consequently every section of the
chunk read is again a legal starting point for the counter theorems: if the sender's counters were exact, then
after the read `Exact` holds for the real container (`palK`), so `C13_count` / `C13_count_no_wrap` apply to EVERY
later history of `SetBlock` calls on the received chunk — `BlockCount` stays the number of non-air blocks and each
call changes exactly the addressed cell (`C13_setBlock_refines`: the real `SetBlock` is the interface-level one) —
whatever states the earlier contents of the destination contained. -/
theorem C13_read_establishes_invariant {gbS gbB : Nat} (hS : GbOK (blocksCfg gbS) gbS) (hB : GbOK (biomesCfg gbB) gbB)
    (c d : Chunk) (hc : ChunkDom gbS gbB c) (hd : ChunkDst gbS gbB c.secs.length d) (rest : Bytes) (s : Stream)
    (hs : s.flat = (c.writeTo gbS gbB).1 ++ rest) (isAir : Nat → Bool)
    (hexact : ∀ sec ∈ c.secs, Exact (palK (blocksCfg gbS) gbS 4096 hS) isAir ⟨sec.count, sec.states⟩) :
    ∃ d' s', Chunk.readFrom gbS gbB d s = (Res.ok (d', (c.writeTo gbS gbB).1.length), s') ∧ s'.flat = rest ∧
      ∀ (i : Nat) (h : i < d'.secs.length),
        Exact (palK (blocksCfg gbS) gbS 4096 hS) isAir ⟨d'.secs[i].count, d'.secs[i].states⟩ := by
  obtain ⟨d', s', h1, h2, _, h4, h5, _⟩ := C13_wire_roundtrip hS hB c d hc hd rest s hs
  refine ⟨d', s', h1, h2, ?_⟩
  intro i hi
  have hi' : i < c.secs.length := by omega
  obtain ⟨a, b1, b2, _, _⟩ := h5 i hi hi'
  obtain ⟨_, e2⟩ := hexact c.secs[i] (List.getElem_mem hi')
  refine ⟨b1, ?_⟩
  have habs : (palK (blocksCfg gbS) gbS 4096 hS).abs d'.secs[i].states = (palK (blocksCfg gbS) gbS 4096 hS).abs c.secs[i].states := by
    rw [C13_palK_abs, C13_palK_abs, b2]
  have e2' : c.secs[i].count = BitVec.ofNat 16 (nonAir isAir ((palK (blocksCfg gbS) gbS 4096 hS).abs c.secs[i].states)) := e2
  have goal : d'.secs[i].count = BitVec.ofNat 16 (nonAir isAir ((palK (blocksCfg gbS) gbS 4096 hS).abs d'.secs[i].states)) := by
    rw [habs, a]; exact e2'
  exact goal

/-! ### C13_readFrom_total / fragInv / extStable (for C08 and C09) -/

/-- `Chunk.ReadFrom` never panics: on every byte stream, into every destination whose containers have a sane
registry width (0..64 bits) — with any NBT fuel, in particular with the fuel of the entry point. -/
theorem C13_readFrom_total (gbS gbB : Int) (d : Chunk) (hd : ChunkSane d) (s : Stream) :
    (Chunk.readFrom gbS gbB d s).1 ≠ Res.panic :=
  (good_chunkReadF gbS gbB (NBT.fuelFor s) d hd).noPanic s

theorem C13_readFrom_total_fuel (gbS gbB : Int) (fuel : Nat) (d : Chunk) (hd : ChunkSane d) (s : Stream) :
    (Chunk.readFromF gbS gbB fuel d s).1 ≠ Res.panic :=
  (good_chunkReadF gbS gbB fuel d hd).noPanic s

/-- `Chunk.ReadFrom` cannot observe how its source fragments the bytes -/
theorem C13_readFrom_fragInv (gbS gbB : Int) (d : Chunk) (hd : ChunkSane d) : Rd.FragInv (Chunk.readFrom gbS gbB d) :=
  fragInv_fuelFor (fun fuel => Chunk.readFromF gbS gbB fuel d) (fun fuel => (good_chunkReadF gbS gbB fuel d hd).fragInv)

/-- a successful `Chunk.ReadFrom` (at fixed NBT fuel) does not depend on what follows the bytes it consumed -/
theorem C13_readFrom_extStable (gbS gbB : Int) (fuel : Nat) (d : Chunk) (hd : ChunkSane d) :
    Rd.ExtStable (Chunk.readFromF gbS gbB fuel d) := (good_chunkReadF gbS gbB fuel d hd).extStable

/-- the same three facts for `Section.ReadFrom`, `BlockEntity.ReadFrom` and `lightData.ReadFrom` -/
theorem C13_section_readFrom_good (gbS gbB : Int) (sec : WSec) (h : SecSane sec.core) :
    (∀ s, (Section.readFrom gbS gbB sec s).1 ≠ Res.panic) ∧ Rd.FragInv (Section.readFrom gbS gbB sec) ∧
    Rd.ExtStable (Section.readFrom gbS gbB sec) :=
  let g := good_secRead gbS gbB sec h
  ⟨g.noPanic, g.fragInv, g.extStable⟩

theorem C13_entity_readFrom_good (e : EntRep) :
    (∀ s, (BlockEntity.readFrom e s).1 ≠ Res.panic) ∧ Rd.FragInv (BlockEntity.readFrom e) ∧
    (∀ fuel, Rd.ExtStable ((entC fuel).dec e)) :=
  ⟨fun s => (good_ent (NBT.fuelFor s) e).noPanic s,
   fragInv_fuelFor (fun fuel => (entC fuel).dec e) (fun fuel => (good_ent fuel e).fragInv),
   fun fuel => (good_ent fuel e).extStable⟩

theorem C13_light_readFrom_good (l : LightData) :
    (∀ s, (lightC.dec l s).1 ≠ Res.panic) ∧ Rd.FragInv (lightC.dec l) ∧ Rd.ExtStable (lightC.dec l) :=
  let g := good_light l
  ⟨g.noPanic, g.fragInv, g.extStable⟩

end stage2

/-! ### non-vacuity: `EmptyChunk(1)` (real registry widths 15 and 6) is both a legal source and a legal destination,
so the round-trip theorem applies to it; it stays so under `SetBlock` by `C13_setBlock_refines` + `C12_set_refines` -/

section nonvacuity
open GoMC.Model GoMC.Lemmas.ChunkWire
open GoMC.Lemmas.Palette (Inv GbOK InReg)

def sec0 : WSec :=
  { count := 0#16, states := Model.Container.new (blocksCfg 15) 4096 0, biomes := Model.Container.new (biomesCfg 6) 64 0 }

/-- the height map of a one-section chunk: 5 bits per height, 12 heights per long, 22 longs -/
def hm1 : BitStorage := { data := List.replicate 22 0#64, mask := maskOf 5, bits := 5, length := 256, vpl := 12 }

def empty1 : Chunk :=
  { secs := [sec0], hm := ⟨hm1, hm1, hm1, hm1, hm1, hm1⟩, ents := Slice.nil, status := [0x65, 0x6d, 0x70, 0x74, 0x79] }

example : newBitStorage (hmBitsOf 1) 256 none = .ok hm1 := by decide +kernel

theorem C13_gbok_blocks : GbOK (blocksCfg (15 : Nat)) 15 := ⟨rfl, by decide, by show 9 ≤ 15; decide⟩
theorem C13_gbok_biomes : GbOK (biomesCfg (6 : Nat)) 6 := ⟨rfl, by decide, by show 4 ≤ 6; decide⟩

theorem C13_empty_is_destination : ChunkDst 15 6 1 empty1 := by
  refine ⟨rfl, ?_⟩
  intro s hs
  have : s = sec0 := by simpa [empty1] using hs
  subst this
  exact ⟨⟨rfl, rfl⟩, ⟨rfl, rfl⟩⟩

theorem C13_empty_is_source : ChunkDom 15 6 empty1 := by
  refine ⟨?_, by decide +kernel, by decide +kernel, by decide +kernel, by decide +kernel, by decide +kernel, ?_,
    by decide +kernel, ?_⟩
  · intro s hs
    have : s = sec0 := by simpa [empty1] using hs
    subst this
    exact ⟨(C12.C12_new (blocksCfg (15 : Nat)) 15 4096 0 ⟨by decide, by decide⟩).1,
           (C12.C12_new (biomesCfg (6 : Nat)) 6 64 0 ⟨by decide, by decide⟩).1⟩
  · intro e he
    simp [empty1, Slice.nil] at he
  · refine ⟨by decide +kernel, by decide +kernel, by decide +kernel, by decide +kernel, ?_, ?_⟩ <;>
      (intro a ha; simp [empty1, sec0, lightOf, freshLight, Slice.nil] at ha)

/-- the round-trip theorem applied: an empty chunk written and read into an empty chunk -/
example (rest : Bytes) (s : Stream) (hs : s.flat = (empty1.writeTo 15 6).1 ++ rest) :
    ∃ d' s', Chunk.readFrom 15 6 empty1 s = (Res.ok (d', (empty1.writeTo 15 6).1.length), s') ∧ s'.flat = rest :=
  let ⟨d', s', h1, h2, _⟩ := C13_wire_roundtrip (gbS := 15) (gbB := 6) C13_gbok_blocks C13_gbok_biomes
    empty1 empty1 C13_empty_is_source C13_empty_is_destination rest s hs
  ⟨d', s', h1, h2⟩

end nonvacuity

/-! ## the save form -/

section save
open GoMC.Model GoMC.Lemmas.ChunkWire GoMC.Lemmas.ChunkSave
open GoMC.Lemmas.Palette (Inv abs GbOK InReg)

/-! Nothing is left OPEN for the save form.  Modelling boundaries (see Model/ChunkSave.lean): the registries are
parameters (`Registry`); `save.Chunk.BlockEntities` is not written by `ChunkToSave` and assumed empty on load; a
save form that leaves a section slot unfilled is reported as `panic` (Go returns a chunk with nil containers). -/

/-- **C13_save_roundtrip_sections.**  The chunk-level part of the save round trip: if every section survives
`write…Palette`/`read…Palette` (`SecSaveRT`: C12's `…WithData` constructors composed with `saveIndices`), then
`ChunkToSave` succeeds, stores section `k` under `Y = int8(k + YPos)`, each of the six height maps under its own
name and the status; `ChunkFromSave` of that save form succeeds, puts every section back into its slot (the
index `int32(Y) − YPos` is `k` again), with the same block states and biomes (in well-formed containers), the
counter recomputed exactly, the same light arrays, the same six height maps and the same status. -/
theorem C13_save_roundtrip_sections {DS DB} (R : Registry DS DB) (gbS gbB : Nat) (dst₀ : SaveChunk DS DB) (c : Chunk)
    (hn : c.secs.length < 2 ^ 31)
    (hy : ∀ k : Nat, k < c.secs.length → -128 ≤ (k : Int) + dst₀.ypos.toInt ∧ (k : Int) + dst₀.ypos.toInt ≤ 127)
    (hsecs : ∀ s ∈ c.secs, SecSaveRT R gbS gbB s) (hhm : HmOK c.secs.length c.hm) :
    ∃ sv c', chunkToSave R gbS gbB dst₀ c = .ok sv ∧ chunkFromSave R gbS gbB sv = .ok c' ∧
      sv.otherHM = dst₀.otherHM ∧ sv.untouched = dst₀.untouched ∧ sv.ypos = dst₀.ypos ∧
      sv.secs.length = c.secs.length ∧
      (∀ (k : Nat) (h : k < sv.secs.length), sv.secs[k].y = BitVec.setWidth 8 (BitVec.ofNat 32 k + dst₀.ypos)) ∧
      sv.hm = ⟨some c.hm.worldSurfaceWG.data, some c.hm.worldSurface.data, some c.hm.oceanFloorWG.data,
               some c.hm.oceanFloor.data, some c.hm.motionBlocking.data, some c.hm.motionBlockingNoLeaves.data⟩ ∧
      sv.status = c.status ∧
      c'.secs.length = c.secs.length ∧
      (∀ (k : Nat) (h1 : k < c'.secs.length) (h2 : k < c.secs.length), SecSame R.isAir gbS gbB c'.secs[k] c.secs[k]) ∧
      c'.hm = c.hm ∧ c'.status = c.status :=
  save_roundtrip R gbS gbB dst₀ c hn hy hsecs hhm

/-- a section survives the save form as soon as its two containers do -/
theorem C13_save_section_of_containers {DS DB} (R : Registry DS DB) {gbS gbB : Nat} (hS : GbOK (blocksCfg gbS) gbS)
    (s : WSec) (h1 : ContSaveRT R.descS R.stateOf 4 (blocksCfg gbS) gbS 4096 s.states)
    (h2 : ContSaveRT R.descB R.biomeOf 0 (biomesCfg gbB) gbB 64 s.biomes) : SecSaveRT R gbS gbB s :=
  secSaveRT_of R hS s h1 h2

/-- a single-valued container survives the save form, relative to `Bij` at its value -/
theorem C13_save_container_single {D} (desc : Int → Res D) (ofDesc : D → Option Int) (minBits : Int) (cfg : PalCfg)
    (gb n : Nat) (v : Int) (d : BitStorage) (hinv : Inv cfg gb n ⟨0, cfg, .single v, d⟩) (hb : BijAt desc ofDesc v) :
    ContSaveRT desc ofDesc minBits cfg gb n ⟨0, cfg, .single v, d⟩ :=
  contSaveRT_single desc ofDesc minBits cfg gb n v d hinv hb

/-- every well-formed container survives `write…Palette` / `read…Palette`, relative to `Bij` at the entries of its
palette: single value (no data), indirect (the indices re-packed at the width of the palette size, C11's packing
invariant through the `saveIndices` loop, then `C12_with_data`), direct (empty palette, raw ids — whatever padding
bits the longs carry) -/
theorem C13_save_container {D} (desc : Int → Res D) (ofDesc : D → Option Int) (cfg : PalCfg) (gb n : Nat)
    (hgb : GbOK cfg gb) (hn : 0 < n) (c : PCont) (hinv : Inv cfg gb n c)
    (hb : ∀ v ∈ c.pal.export, BijAt desc ofDesc v) : ContSaveRT desc ofDesc cfg.minBits cfg gb n c :=
  contSaveRT_all desc ofDesc cfg gb n hgb hn c hinv hb

/-- **C13_save_roundtrip.**  Let `c` be a chunk whose sections hold well-formed containers, `R` a registry for which
the description mapping leads back to every id that occurs in a palette (`Bij`: block-state ↔ (name, properties)
— established on the whole real registry by the exhaustive test — and biome id ↔ name), `YPos + section index`
inside int8, the six height maps those of a chunk of this height, and `dst₀` ANY prior content of the destination
`save.Chunk` (a fresh one, or one filled before by another chunk with more or fewer sections, with light where this
chunk has none, other height-map entries, another status, …).  Then `ChunkToSave` succeeds, keeps `YPos`, the other
`Heightmaps` entries and every field it does not own, lets nothing of `dst₀`'s sections survive, stores
section `k` under `Y = int8(k + YPos)`, each of the six height maps under its own name and the status; and
`ChunkFromSave` of that save form succeeds and yields a chunk with, in every section, the same block states and
biomes (in well-formed containers), `BlockCount` = the number of non-air blocks, the same light arrays; the same
six height maps; the same status. -/
theorem C13_save_roundtrip {DS DB} (R : Registry DS DB) {gbS gbB : Nat} (hS : GbOK (blocksCfg gbS) gbS)
    (hB : GbOK (biomesCfg gbB) gbB) (dst₀ : SaveChunk DS DB) (c : Chunk)
    (hn : c.secs.length < 2 ^ 31)
    (hy : ∀ k : Nat, k < c.secs.length → -128 ≤ (k : Int) + dst₀.ypos.toInt ∧ (k : Int) + dst₀.ypos.toInt ≤ 127)
    (hinv : ∀ s ∈ c.secs, SecDom gbS gbB s.core)
    (hbijS : ∀ s ∈ c.secs, ∀ v ∈ s.states.pal.export, BijAt R.descS R.stateOf v)
    (hbijB : ∀ s ∈ c.secs, ∀ v ∈ s.biomes.pal.export, BijAt R.descB R.biomeOf v)
    (hhm : HmOK c.secs.length c.hm) :
    ∃ sv c', chunkToSave R gbS gbB dst₀ c = .ok sv ∧ chunkFromSave R gbS gbB sv = .ok c' ∧
      sv.otherHM = dst₀.otherHM ∧ sv.untouched = dst₀.untouched ∧ sv.ypos = dst₀.ypos ∧
      sv.secs.length = c.secs.length ∧
      (∀ (k : Nat) (h : k < sv.secs.length), sv.secs[k].y = BitVec.setWidth 8 (BitVec.ofNat 32 k + dst₀.ypos)) ∧
      sv.hm = ⟨some c.hm.worldSurfaceWG.data, some c.hm.worldSurface.data, some c.hm.oceanFloorWG.data,
               some c.hm.oceanFloor.data, some c.hm.motionBlocking.data, some c.hm.motionBlockingNoLeaves.data⟩ ∧
      sv.status = c.status ∧
      c'.secs.length = c.secs.length ∧
      (∀ (k : Nat) (h1 : k < c'.secs.length) (h2 : k < c.secs.length), SecSame R.isAir gbS gbB c'.secs[k] c.secs[k]) ∧
      c'.hm = c.hm ∧ c'.status = c.status := by
  apply C13_save_roundtrip_sections R gbS gbB dst₀ c hn hy ?_ hhm
  intro s hs
  exact secSaveRT_of R hS s
    (contSaveRT_all R.descS R.stateOf (blocksCfg gbS) gbS 4096 hS (by decide) s.states (hinv s hs).1 (hbijS s hs))
    (contSaveRT_all R.descB R.biomeOf (biomesCfg gbB) gbB 64 hB (by decide) s.biomes (hinv s hs).2 (hbijB s hs))

/-- the counter `ChunkFromSave` stores is exact for every well-formed container (the real `countNoneAirBlocks`) -/
theorem C13_count_on_load {cfg : PalCfg} {gb : Nat} {c : PCont} (hgb : GbOK cfg gb) (hinv : Inv cfg gb 4096 c)
    (isAir : Int → Bool) :
    countNonAirP isAir c 4096 = .ok (BitVec.ofNat 16 (((abs 4096 c).filter fun v => !isAir v).length)) := by
  have h := countNonAirP_ok hgb hinv isAir 4096 (by omega) (by omega)
  rwa [List.take_of_length_le (by simp)] at h

/-- non-vacuity: `EmptyChunk(1)` meets the hypotheses of the partial theorem for the identity registry -/
example : ∃ sv c', chunkToSave (DS := Int) (DB := Int) ⟨fun v => .ok v, some, fun v => .ok v, some, fun v => v == 0⟩ 15 6
      (SaveChunk.fresh (BitVec.ofInt 32 (-4))) empty1 = .ok sv ∧
    chunkFromSave ⟨fun v => .ok v, some, fun v => .ok v, some, fun v => v == 0⟩ 15 6 sv = .ok c' ∧ c'.hm = empty1.hm := by
  have hsec : SecSaveRT (DS := Int) (DB := Int) ⟨fun v => .ok v, some, fun v => .ok v, some, fun v => v == 0⟩ 15 6 sec0 := by
    apply secSaveRT_of _ C13_gbok_blocks
    · exact contSaveRT_single _ _ _ _ _ _ 0 _ (C12.C12_new (blocksCfg (15 : Nat)) 15 4096 0 ⟨by decide, by decide⟩).1 ⟨0, rfl, rfl⟩
    · exact contSaveRT_single _ _ _ _ _ _ 0 _ (C12.C12_new (biomesCfg (6 : Nat)) 6 64 0 ⟨by decide, by decide⟩).1 ⟨0, rfl, rfl⟩
  obtain ⟨sv, c', h1, h2, _, _, _, _, _, _, _, _, _, h9, _⟩ := C13_save_roundtrip_sections _ 15 6 (SaveChunk.fresh (DS := Int) (DB := Int) (BitVec.ofInt 32 (-4))) empty1
    (by decide) (by intro k hk; have : k = 0 := by simpa [empty1] using hk
                    subst this; decide)
    (by intro s hs; have : s = sec0 := by simpa [empty1] using hs
        subst this; exact hsec)
    ⟨by decide +kernel, by decide +kernel, by decide +kernel, by decide +kernel, by decide +kernel, by decide +kernel⟩
  exact ⟨sv, c', h1, h2, h9⟩

end save

end GoMC.Props.C13
