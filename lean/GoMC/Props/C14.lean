/-
  Props/C14 — "Region file is a correct chunk store under any write/read/reopen history".

  Model: GoMC/Model/Region.lean (hand-written, tied by T2) + GoMC/Gen/Region.lean (T1: sectorLoc, In, At,
  the `need` expression of WriteSector).  Spec: GoMC/Spec/Anvil.lean (independent reader of the format).
-/
import GoMC.Gen.Region
import GoMC.Lemmas.Region
import GoMC.Spec.Anvil
namespace GoMC.Props.C14
open GoMC GoMC.Model.Region
set_option linter.unusedSimpArgs false
set_option linter.unusedVariables false

/-! ## T1 bridges: the generated integer kernels equal the Nat/Int-level definitions used by the model -/

theorem C14_sectorLoc_bridge (o : BitVec 32) :
    Gen.sectorLoc o = (BitVec.ofNat 32 (sectorLoc o).1, BitVec.ofNat 32 (sectorLoc o).2) := by
  unfold Gen.sectorLoc sectorLoc
  simp only
  congr 1
  · apply BitVec.eq_of_getLsbD_eq
    intro i hi
    have m : (16777215#32).getLsbD i = decide (i < 24) := by
      have : (16777215#32) = BitVec.ofNat 32 (2^24 - 1) := by decide
      rw [this, BitVec.getLsbD_ofNat, Nat.testBit_two_pow_sub_one]
      simp [hi]
    rw [BitVec.getLsbD_and, BitVec.getLsbD_sshiftRight, m, BitVec.getLsbD_ofNat, Nat.testBit_div_two_pow (n := 8) ]
    by_cases h : i < 24
    · have : 8 + i < 32 := by omega
      have t2 : i + 8 < 32 := by omega
      have t3 : ¬ 32 ≤ i := by omega
      simp [h, t2, t3, BitVec.getLsbD, Nat.add_comm]
      intro _; omega
    · have : ¬ 8 + i < 32 := by omega
      simp [h, hi]
      have := o.isLt
      apply Nat.testBit_lt_two_pow
      calc o.toNat < 2^32 := this
        _ ≤ 2^(i+8) := Nat.pow_le_pow_right (by omega) (by omega)
  · apply BitVec.eq_of_toNat_eq
    rw [BitVec.toNat_and, BitVec.toNat_ofNat, BitVec.toNat_ofNat]
    show o.toNat &&& (2^8 - 1) = _
    rw [Nat.and_two_pow_sub_one_eq_mod]
    omega

theorem C14_need_bridge (x z : BitVec 64) (len : Nat) (h : len < 2^62) :
    Gen.WriteSector_need x z (BitVec.ofNat 64 len) = BitVec.ofNat 32 (needOf len) := by
  unfold Gen.WriteSector_need needOf
  have e : (BitVec.ofNat 64 len + 4#64 + 4096#64 - 1#64) = BitVec.ofNat 64 (len + 4 + 4096 - 1) := by
    apply BitVec.eq_of_toNat_eq
    simp only [BitVec.toNat_sub, BitVec.toNat_add, BitVec.toNat_ofNat]
    omega
  rw [e]
  have hm : (BitVec.ofNat 64 (len + 4 + 4096 - 1)).msb = false := by
    rw [BitVec.msb_eq_decide]; simp; omega
  have hm2 : (4096#64).msb = false := by decide
  rw [BitVec.sdiv_eq, hm, hm2]
  simp only
  apply BitVec.eq_of_toNat_eq
  rw [BitVec.toNat_setWidth]
  rw [BitVec.udiv_eq, BitVec.toNat_udiv, BitVec.toNat_ofNat, BitVec.toNat_ofNat, BitVec.toNat_ofNat]
  have a1 : (len + 4 + 4096 - 1) % 2^64 = len + 4 + 4096 - 1 := Nat.mod_eq_of_lt (by omega)
  have a2 : 4096 % 2^64 = 4096 := by decide
  rw [a1, a2]

theorem C14_In_mod (c : BitVec 64) : (c &&& 31#64).toInt = c.toInt % 32 := by
  have h1 : (c &&& 31#64).toNat = c.toNat % 32 := by
    rw [BitVec.toNat_and]
    show c.toNat &&& (2^5 - 1) = _
    rw [Nat.and_two_pow_sub_one_eq_mod]
  rw [BitVec.toInt_eq_toNat_cond, BitVec.toInt_eq_toNat_cond, h1]
  have := c.isLt
  split <;> split <;> omega

theorem C14_At_div (c : BitVec 64) : (c.sshiftRight 5).toInt = c.toInt / 32 := by
  rw [BitVec.toInt_sshiftRight, Int.shiftRight_eq_div_pow]
  rfl

theorem C14_In_At (cx cz : BitVec 64) :
    cx.toInt = 32 * (Gen.At cx cz).1.toInt + (Gen.In cx cz).1.toInt ∧ 0 ≤ (Gen.In cx cz).1.toInt ∧ (Gen.In cx cz).1.toInt < 32
    ∧ cz.toInt = 32 * (Gen.At cx cz).2.toInt + (Gen.In cx cz).2.toInt ∧ 0 ≤ (Gen.In cx cz).2.toInt ∧ (Gen.In cx cz).2.toInt < 32 := by
  unfold Gen.At Gen.In
  simp only [C14_In_mod, C14_At_div]
  omega

/-! ## The invariant is preserved by WriteSector -/

/-- `C14_write_inv`: a write within the limit succeeds, preserves the invariant and updates the abstract map
    at (x,z) only.  No side condition: the first-fit allocator is proved to keep every run below sector 521 473
    (`Inv.findSpace_bound`), so sector numbers always fit the 24-bit field of a header entry. -/
theorem C14_write_inv {st : Region} {abs : Nat → Option ByteArray} (inv : Inv st abs)
    {x z : Int} {k : Nat} (hk : idx? x z = some k) (data : ByteArray) (now : BitVec 32)
    (hn : needOf data.size < 256) :
    (writeSector st x z data now).1 = .ok () ∧
      Inv (writeSector st x z data now).2.1 (fun j => if j = k then some data else abs j) :=
  inv.write hk data now hn

/-- `C14_alloc_bound`: the run `WriteSector` allocates starts below sector 521 473 (< 2^23): every start below the
    result of `findSpace` is blocked by one of at most 1024 live runs (or the header), and a run of `num` sectors
    blocks at most `num + need - 1 ≤ 509` starts.  This also keeps Go's int32 sector arithmetic (`n << 8`) exact. -/
theorem C14_alloc_bound {st : Region} {abs : Nat → Option ByteArray} (inv : Inv st abs) {k : Nat} (hk : k < 1024)
    (len : Nat) (hn : needOf len < 256) : writeRun st k len ≤ 521472 ∨
      ((sectorLoc (st.offsets.get k)).1 ≠ 0 ∧ (sectorLoc (st.offsets.get k)).2 = needOf len) := by
  by_cases h : (sectorLoc (st.offsets.get k)).1 ≠ 0 ∧ (sectorLoc (st.offsets.get k)).2 = needOf len
  · exact Or.inr h
  · left; unfold writeRun; rw [if_neg h]; exact inv.findSpace_bound hk _ (by omega)

/-- `C14_inplace_keeps_tables`: an overwrite that keeps the sector count is done in place — the only physical writes
    are the length word and the data inside the chunk's own run; neither header sector is written and the in-memory
    `offsets`, `Timestamps`, occupancy are left untouched (so memory and file keep agreeing on the timestamp, which is
    the `hdrT` clause of `Inv` that `C14_write_inv` re-establishes and `C14_reload` reads back). -/
theorem C14_inplace_keeps_tables (st : Region) {x z : Int} {k : Nat} (hk : idx? x z = some k) (data : ByteArray)
    (now : BitVec 32) (hn : needOf data.size < 256)
    (h : (sectorLoc (st.offsets.get k)).1 ≠ 0 ∧ (sectorLoc (st.offsets.get k)).2 = needOf data.size) :
    (writeSector st x z data now).2.1.timestamps = st.timestamps ∧
      (writeSector st x z data now).2.1.offsets = st.offsets ∧
      (writeSector st x z data now).2.1.occ = st.occ ∧
      (writeSector st x z data now).2.2 =
        [(4096 * (sectorLoc (st.offsets.get k)).1, be32bytes (BitVec.ofNat 32 data.size)),
         (4096 * (sectorLoc (st.offsets.get k)).1 + 4, data)] := by
  rw [writeSector_same st hk data now hn h]
  exact ⟨rfl, rfl, rfl, rfl⟩

/-- `C14_aged_file`: if the timestamp table of the file is rewritten behind the Region's back (an older file: one day
    subtracted from every non-zero entry) and the file is re-opened, `Load` succeeds and the invariant holds again —
    in particular the in-memory timestamps equal the (aged) ones in the file, and every chunk is still stored. -/
theorem C14_aged_file {st : Region} {abs : Nat → Option ByteArray} (inv : Inv st abs) :
    ∃ st', load (ageFile st.file) = .ok st' ∧ Inv st' abs :=
  inv.age

/-- writes over the 255-sector limit are refused without changing anything (no state change, no physical write) -/
theorem C14_write_refused (st : Region) {x z : Int} {k : Nat} (hk : idx? x z = some k) (data : ByteArray)
    (now : BitVec 32) (hn : 256 ≤ needOf data.size) : writeSector st x z data now = (.err, st, []) :=
  writeSector_refused st x z hk data now hn

/-- the limit in bytes: refused iff the payload is longer than 255 sectors minus the length word -/
theorem C14_limit (len : Nat) : 256 ≤ needOf len ↔ 1044476 < len := by unfold needOf; omega

/-! ## Reading -/

/-- `C14_read`: under the invariant `ReadSector` returns exactly the abstract map: the last written bytes of a
    present chunk (for the empty payload, which the format cannot represent, `ErrNoData`), an error for an
    absent one; `ExistSector` says whether the chunk is present. -/
theorem C14_read {st : Region} {abs : Nat → Option ByteArray} (inv : Inv st abs)
    {x z : Int} {k : Nat} (hk : idx? x z = some k) :
    readSector st x z = (match abs k with
      | none => .err
      | some d => if d.size = 0 then .err else .ok d) ∧
    existSector st x z = .ok (abs k).isSome := by
  have hk1 := idx?_lt hk
  unfold readSector existSector
  simp only [hk]
  cases ha : abs k with
  | none =>
    rw [inv.absent k hk1 ha, readChunk_zero]
    exact ⟨rfl, rfl⟩
  | some d =>
    rw [readChunk_stored (inv.stored k hk1 d ha)]
    refine ⟨rfl, ?_⟩
    have := (inv.present_ne_zero hk1).2 ⟨d, ha⟩
    simp [this]

/-- out-of-range coordinates: Go panics on the array index, nothing is touched -/
theorem C14_out_of_range (st : Region) {x z : Int} (h : idx? x z = none) (data : ByteArray) (now : BitVec 32) :
    readSector st x z = .panic ∧ existSector st x z = .panic ∧ writeSector st x z data now = (.panic, st, []) := by
  unfold readSector existSector writeSector
  simp only [h]
  exact ⟨trivial, trivial, trivial⟩

/-- Empty payloads: the write succeeds and keeps the invariant (`C14_write_inv` has no `1 ≤ |data|` hypothesis), but
    the format cannot represent them (length 0 means "no data"): the chunk then exists and reads `ErrNoData`.
    This is a statement about the format, not a violation: the round-trip clause of the property is `1 ≤ |data|`. -/
theorem C14_empty_payload {st : Region} {abs : Nat → Option ByteArray} (inv : Inv st abs)
    {x z : Int} {k : Nat} (hk : idx? x z = some k) (now : BitVec 32) :
    readSector (writeSector st x z ByteArray.empty now).2.1 x z = .err ∧
      existSector (writeSector st x z ByteArray.empty now).2.1 x z = .ok true := by
  have hn : needOf ByteArray.empty.size < 256 := by decide
  obtain ⟨_, inv'⟩ := C14_write_inv inv hk ByteArray.empty now hn
  have := C14_read inv' hk
  simp only [if_pos] at this
  exact ⟨this.1, this.2⟩

/-- round trip: a non-empty payload within the limit is read back exactly, immediately after the write -/
theorem C14_write_read {st : Region} {abs : Nat → Option ByteArray} (inv : Inv st abs)
    {x z : Int} {k : Nat} (hk : idx? x z = some k) (data : ByteArray) (now : BitVec 32)
    (h1 : 1 ≤ data.size) (hn : needOf data.size < 256) :
    readSector (writeSector st x z data now).2.1 x z = .ok data := by
  obtain ⟨_, inv'⟩ := C14_write_inv inv hk data now hn
  have := (C14_read inv' hk).1
  simp only [if_pos] at this
  rw [this, if_neg (by omega)]

/-! ## Re-opening -/

/-- `C14_reload`: `Load` of the file succeeds and returns the offsets, timestamps and occupancy held in memory;
    the loaded state satisfies the invariant for the same abstract map. -/
theorem C14_reload {st : Region} {abs : Nat → Option ByteArray} (inv : Inv st abs) :
    ∃ st', load st.file = .ok st' ∧ st'.file = st.file ∧
      (∀ k, k < 1024 → st'.offsets.get k = st.offsets.get k ∧ st'.timestamps.get k = st.timestamps.get k) ∧
      (∀ s, st'.occ.get s = st.occ.get s) ∧ Inv st' abs ∧ st'.hi ≤ st.hi :=
  inv.reload

/-! ## The independent reader -/

/-- `C14_anvil`: the independent reader of the Anvil format sees exactly the abstract map in the file, and the
    file is a valid region: every entry points after the two header sectors, its length word and data lie inside
    its run and inside the file, and the runs of different chunks are pairwise disjoint. -/
theorem C14_anvil {st : Region} {abs : Nat → Option ByteArray} (inv : Inv st abs) :
    (∀ k, k < 1024 → Spec.Anvil.chunk st.file k = abs k) ∧
    (∀ k, k < 1024 → Spec.Anvil.timestamp st.file k = (st.timestamps.get k).toNat) ∧
    Spec.Anvil.Valid st.file := by
  have hent : ∀ k, k < 1024 → Spec.Anvil.entry st.file k = (st.offsets.get k).toNat := by
    intro k hk; unfold Spec.Anvil.entry; rw [u32_eq, inv.hdrO k hk]
  have hpres : ∀ k, k < 1024 → (Spec.Anvil.present st.file k = true ↔ ∃ d, abs k = some d) := by
    intro k hk
    unfold Spec.Anvil.present
    rw [hent k hk, ← inv.present_ne_zero hk]
    simp only [bne_iff_ne, ne_eq]
    constructor
    · intro h e; rw [e] at h; exact h rfl
    · intro h e; exact h (BitVec.eq_of_toNat_eq e)
  have hsec : ∀ k, k < 1024 → Spec.Anvil.sector st.file k = (sectorLoc (st.offsets.get k)).1 := by
    intro k hk; unfold Spec.Anvil.sector sectorLoc; rw [hent k hk]
  have hcnt : ∀ k, k < 1024 → Spec.Anvil.count st.file k = (sectorLoc (st.offsets.get k)).2 := by
    intro k hk; unfold Spec.Anvil.count sectorLoc; rw [hent k hk]
  have hlen : ∀ k, k < 1024 → ∀ d, abs k = some d → Spec.Anvil.chunkLen st.file k = d.size := by
    intro k hk d hd
    have s := inv.stored k hk d hd
    unfold Spec.Anvil.chunkLen
    rw [hsec k hk, u32_eq, s.len, BitVec.toNat_ofNat]
    have := s.size_le
    exact Nat.mod_eq_of_lt (by omega)
  refine ⟨?_, ?_, inv.fsize, ?_, ?_⟩
  · intro k hk
    unfold Spec.Anvil.chunk
    cases ha : abs k with
    | none =>
      have : ¬ Spec.Anvil.present st.file k = true := by
        rw [hpres k hk]; intro ⟨d, hd⟩; rw [ha] at hd; cases hd
      rw [if_neg this]
    | some d =>
      rw [if_pos ((hpres k hk).2 ⟨d, ha⟩), hlen k hk d ha, hsec k hk, (inv.stored k hk d ha).extract]
  · intro k hk
    unfold Spec.Anvil.timestamp
    rw [u32_eq, inv.hdrT k hk]
  · intro k hk hp
    obtain ⟨d, hd⟩ := (hpres k hk).1 hp
    have s := inv.stored k hk d hd
    rw [hsec k hk, hcnt k hk, hlen k hk d hd]
    have := needOf_fits d.size
    exact ⟨s.sec_ge, by rw [s.num_eq]; omega, s.fits⟩
  · intro k k' hk hk' hne hp hp'
    obtain ⟨d, hd⟩ := (hpres k hk).1 hp
    obtain ⟨d', hd'⟩ := (hpres k' hk').1 hp'
    rw [hsec k hk, hcnt k hk, hsec k' hk', hcnt k' hk']
    have s := inv.stored k hk d hd
    have s' := inv.stored k' hk' d' hd'
    have n1 := needOf_pos d.size
    have n2 := needOf_pos d'.size
    have e1 := s.num_eq
    have e2 := s'.num_eq
    have dj := inv.disj k k' hk hk' hne d d' hd hd'
    by_cases c : (sectorLoc (st.offsets.get k)).1 ≤ (sectorLoc (st.offsets.get k')).1
    · have := dj (sectorLoc (st.offsets.get k')).1
      unfold InRun at this
      by_cases c2 : (sectorLoc (st.offsets.get k')).1 < (sectorLoc (st.offsets.get k)).1 + (sectorLoc (st.offsets.get k)).2
      · exact absurd ⟨Nat.le_refl _, by omega⟩ (this ⟨c, c2⟩)
      · left; omega
    · have := dj (sectorLoc (st.offsets.get k)).1
      unfold InRun at this
      by_cases c2 : (sectorLoc (st.offsets.get k)).1 < (sectorLoc (st.offsets.get k')).1 + (sectorLoc (st.offsets.get k')).2
      · exact absurd ⟨by omega, c2⟩ (this ⟨Nat.le_refl _, by omega⟩)
      · right; omega

/-! ## Histories -/

/-- `C14_history`: from any state satisfying the invariant — in particular from `CreateWriter` — after ANY list of
    operations (writes of any size at any coordinates, overwrites that grow, shrink or keep the sector count, refused
    over-limit writes, out-of-range coordinates, reads, existence tests, padding, re-opening) the invariant holds for
    the abstract map the history defines (`absStep`: the last payload written to each chunk by a write within the
    limit).  Hence, by `C14_read`, `C14_anvil`, `C14_reload` at the final (or any intermediate) state: every chunk
    reads back exactly the bytes last written to it, never-written chunks report absence, refused writes changed
    nothing, the file is a valid Anvil region as judged by the independent reader, and a fresh Load returns the
    offsets and timestamps held in memory. -/
theorem C14_history (ops : List Op) {st : Region} {abs : Nat → Option ByteArray} (inv : Inv st abs) :
    Inv (ops.foldl step st) (ops.foldl absStep abs) :=
  inv.history ops

theorem C14_history_from_create (ops : List Op) :
    Inv (ops.foldl step createWriter.1) (ops.foldl absStep (fun _ => none)) :=
  Inv.history_from_create ops

/-- the property at the end of any history, spelled out: reads, the independent reader and a fresh Load -/
theorem C14_history_observations (ops : List Op) :
    let st := ops.foldl step createWriter.1
    let abs := ops.foldl absStep (fun _ => none)
    (∀ (x z : Int) (k : Nat), idx? x z = some k →
      readSector st x z = (match abs k with
        | none => .err
        | some d => if d.size = 0 then .err else .ok d)) ∧
    (∀ k, k < 1024 → Spec.Anvil.chunk st.file k = abs k) ∧ Spec.Anvil.Valid st.file ∧
    (∃ st', load st.file = .ok st' ∧
      ∀ k, k < 1024 → st'.offsets.get k = st.offsets.get k ∧ st'.timestamps.get k = st.timestamps.get k) := by
  intro st abs
  have inv : Inv st abs := Inv.history_from_create ops
  refine ⟨fun x z k hk => (C14_read inv hk).1, (C14_anvil inv).1, (C14_anvil inv).2.2, ?_⟩
  obtain ⟨st', h1, _, h3, _⟩ := inv.reload
  exact ⟨st', h1, h3⟩

/-- order-independence across chunks: at any point of any history, two `WriteSector` calls to DIFFERENT chunks may be
swapped — whatever follows — without changing what any `ReadSector` returns at the end.  The physical layout may well
differ (first-fit picks runs in call order; timestamps differ); the store's content does not.  Out-of-range
coordinates and over-limit payloads are inside the quantifier (they change nothing in either order). -/
theorem C14_writes_to_different_chunks_commute (ops more : List Op)
    (x₁ z₁ x₂ z₂ : Int) (d₁ d₂ : ByteArray) (t₁ t₂ : BitVec 32) (hne : idx? x₁ z₁ ≠ idx? x₂ z₂) :
    ∀ (x z : Int) (k : Nat), idx? x z = some k →
      readSector ((ops ++ [Op.write x₁ z₁ d₁ t₁, Op.write x₂ z₂ d₂ t₂] ++ more).foldl step createWriter.1) x z =
      readSector ((ops ++ [Op.write x₂ z₂ d₂ t₂, Op.write x₁ z₁ d₁ t₁] ++ more).foldl step createWriter.1) x z := by
  intro x z k hk
  have comm : ∀ a : Nat → Option ByteArray,
      absStep (absStep a (Op.write x₁ z₁ d₁ t₁)) (Op.write x₂ z₂ d₂ t₂) =
      absStep (absStep a (Op.write x₂ z₂ d₂ t₂)) (Op.write x₁ z₁ d₁ t₁) := by
    intro a
    simp only [absStep]
    cases h1 : idx? x₁ z₁ with
    | none => rfl
    | some k₁ =>
      cases h2 : idx? x₂ z₂ with
      | none => rfl
      | some k₂ =>
        have hk12 : k₁ ≠ k₂ := fun e => hne (by rw [h1, h2, e])
        simp only []
        by_cases c1 : needOf d₁.size < 256 <;> by_cases c2 : needOf d₂.size < 256 <;> simp only [c1, c2, if_true, if_false]
        funext j
        by_cases e1 : j = k₁ <;> by_cases e2 : j = k₂ <;> simp only [e1, e2, if_true, if_false]
        · exact absurd (e1.symm.trans e2) hk12
        · subst e1; simp only [if_neg hk12]
        · subst e2; simp only [if_neg (Ne.symm hk12)]
  have habs : (ops ++ [Op.write x₁ z₁ d₁ t₁, Op.write x₂ z₂ d₂ t₂] ++ more).foldl absStep (fun _ => none) =
      (ops ++ [Op.write x₂ z₂ d₂ t₂, Op.write x₁ z₁ d₁ t₁] ++ more).foldl absStep (fun _ => none) := by
    simp only [List.foldl_append, List.foldl_cons, List.foldl_nil, comm]
  rw [(C14_history_observations _).1 x z k hk, (C14_history_observations _).1 x z k hk, habs]

/-- idempotence: writing the same payload to the same chunk twice in a row (at different times), anywhere in any
history and whatever follows, leaves every later `ReadSector` as if it had been written once — the second write is an
in-place overwrite or a re-allocation depending on the state, the content is the same either way. -/
theorem C14_rewrite_idempotent (ops more : List Op) (x₁ z₁ : Int) (d₁ : ByteArray) (t₁ t₂ : BitVec 32) :
    ∀ (x z : Int) (k : Nat), idx? x z = some k →
      readSector ((ops ++ [Op.write x₁ z₁ d₁ t₁, Op.write x₁ z₁ d₁ t₂] ++ more).foldl step createWriter.1) x z =
      readSector ((ops ++ [Op.write x₁ z₁ d₁ t₁] ++ more).foldl step createWriter.1) x z := by
  intro x z k hk
  have idem : ∀ a : Nat → Option ByteArray,
      absStep (absStep a (Op.write x₁ z₁ d₁ t₁)) (Op.write x₁ z₁ d₁ t₂) = absStep a (Op.write x₁ z₁ d₁ t₁) := by
    intro a
    simp only [absStep]
    cases h1 : idx? x₁ z₁ with
    | none => rfl
    | some k₁ =>
      simp only []
      by_cases c1 : needOf d₁.size < 256 <;> simp only [c1, if_true, if_false]
      funext j
      by_cases e1 : j = k₁ <;> simp only [e1, if_true, if_false]
  have habs : (ops ++ [Op.write x₁ z₁ d₁ t₁, Op.write x₁ z₁ d₁ t₂] ++ more).foldl absStep (fun _ => none) =
      (ops ++ [Op.write x₁ z₁ d₁ t₁] ++ more).foldl absStep (fun _ => none) := by
    simp only [List.foldl_append, List.foldl_cons, List.foldl_nil, idem]
  rw [(C14_history_observations _).1 x z k hk, (C14_history_observations _).1 x z k hk, habs]

/-- non-vacuity: a fresh region satisfies the invariant (and so does every state reachable from it) -/
example : Inv createWriter.1 (fun _ => none) := Inv.create

end GoMC.Props.C14
