/-
  C17 — text components survive JSON and NBT encoding and render without crashing.  STAGE 1: the JSON form,
  the chat-type header over a parameter codec for the NBT form, the renderers.  Property theorems only
  (definitions: Model/Chat.lean, Spec/TextComponent.lean, Spec/JSON.lean; lemmas: Lemmas/Chat.lean, Lemmas/ChatType.lean).
  `Gen.*` are regenerated from /repo's chat/*.go on every run.

  Reading guide.  `Msg` is a text component (strings are byte strings, translation arguments are components
  or strings).  `marshalJSON san m` / `unmarshalJSON t` are `Message.MarshalJSON` / `json.Unmarshal(…, &Message{})`
  at the level of the JSON value tree; `san` is what encoding/json does to a Go string when it writes it
  (`Spec.utf8Sanitize`; the theorems hold for ANY `san` with `san "" = ""`).  `norm san m` is the component a
  round trip yields: every string sanitised, string arguments turned into text components, hover contents
  as Go's generic decoder returns them.  For ASCII components without string arguments and with canonical
  hover contents `norm` is the identity (`C17_norm_id_example`).
-/
import GoMC.Lemmas.Chat
import GoMC.Lemmas.ChatType
import GoMC.Lemmas.ChatNBTTop
import GoMC.Lemmas.ChatNBTTotal
import GoMC.Props.DYNBT
import GoMC.Gen.Chat
namespace GoMC.Props.C17
open GoMC GoMC.Spec GoMC.Model GoMC.Model.Chat GoMC.Lemmas GoMC.Lemmas.Chat

/-! ### T1: tables, pattern and struct tags regenerated from the source are the model's -/

theorem C17_gen_fmtCode : Gen.fmtCode = Chat.fmtCode := by decide +kernel
theorem C17_gen_colors : Gen.colors = Chat.colors := by decide +kernel

/-- the source of `fmtPat` is `(?i)§[\dA-FK-OR]` -/
theorem C17_gen_fmtPat : Gen.fmtPat_src =
    [0x28#8, 0x3f#8, 0x69#8, 0x29#8, 0xc2#8, 0xa7#8, 0x5b#8, 0x5c#8, 0x64#8, 0x41#8, 0x2d#8, 0x46#8, 0x4b#8, 0x2d#8,
     0x4f#8, 0x52#8, 0x5d#8] := by decide +kernel

/-- the class of that pattern, for one-byte characters, is the model's `isPatCode` (table over all 256 bytes):
digits, `A-F`, `K-O`, `R` and their lower-case forms -/
theorem C17_pattern_class (c : Byte) : isPatCode c = patClass.contains c := isPatCode_table c

/-- `json` and `nbt` names and `omitempty` flags of `Message` (= `rawMsgStruct`): the model's field names in the
model's order, `text` always written, everything else `omitempty` -/
theorem C17_gen_tags_Message :
    Gen.Message_tags.map (fun r => (r.2.1, r.2.2.1, r.2.2.2.1, r.2.2.2.2))
      = Field.all.map (fun f => (f.name, decide (f ≠ .text), f.name, decide (f ≠ .text))) := by decide +kernel
/-- `translateMsg`: the same names, every field `omitempty` -/
theorem C17_gen_tags_translateMsg :
    Gen.translateMsg_tags.map (fun r => (r.2.1, r.2.2.1, r.2.2.2.1, r.2.2.2.2))
      = Field.all.map (fun f => (f.name, true, f.name, true)) := by decide +kernel
theorem C17_gen_tags_ClickEvent :
    Gen.ClickEvent_tags.map (fun r => (r.2.1, r.2.2.1, r.2.2.2.1, r.2.2.2.2))
      = [(kAction, false, kAction, false), (kValue, false, kValue, false)] := by decide +kernel
/-- `HoverEvent`: `contents` is `omitempty` in the NBT form only (the repair of "unsupport type interface {}") -/
theorem C17_gen_tags_HoverEvent :
    Gen.HoverEvent_tags.map (fun r => (r.2.1, r.2.2.1, r.2.2.2.1, r.2.2.2.2))
      = [(kAction, false, kAction, false), (kContents, false, kContents, true), (kValue, false, kValue, false)] := by
  decide +kernel

/-! ### JSON form -/

/-- **Round trip, all components** (every field present or absent, any nesting of extras, hover values and
translation arguments): decoding what `MarshalJSON` produced yields the component, up to `norm`. -/
theorem C17_json_roundtrip (san : Bytes → Bytes) (hs : san [] = []) (m : Msg) :
    unmarshalJSON (marshalJSON san m) = .ok (norm san m) :=
  rt_msg san hs m

/-- the instance for encoding/json's actual string coercion -/
theorem C17_json_roundtrip_utf8 (m : Msg) :
    unmarshalJSON (marshalJSON utf8Sanitize m) = .ok (norm utf8Sanitize m) :=
  rt_msg utf8Sanitize utf8Sanitize_nil m

/-- a bare JSON string is accepted: it is the text -/
theorem C17_accepts_string_json (s : Bytes) : unmarshalJSON (.str s) = .ok (Msg.ofText s) := by
  rw [unmarshalJSON, unmarshalInto]; rfl

/-- a JSON list is accepted as soon as its elements are: they become the extras of an empty component -/
theorem C17_accepts_list_json (xs : List JSON) (ms : List Msg) (h : decList xs = .ok ms) :
    unmarshalJSON (.arr xs) = .ok { Msg.zero with extra := ms } := by
  rw [unmarshalJSON, unmarshalInto, h]; rfl

/-- in particular a list of encoded components and bare strings -/
theorem C17_accepts_list_of_components_json (san : Bytes → Bytes) (hs : san [] = []) (as : List (Msg ⊕ Bytes)) :
    unmarshalJSON (.arr (marshalArgs san as)) = .ok { Msg.zero with extra := argMsgs san as } :=
  C17_accepts_list_json _ _ (rt_args san hs as)

/-- a JSON object written by the library is accepted (this is `C17_json_roundtrip`), with or without `text`:
`MarshalJSON` omits an empty `text` exactly when a translation key is present -/
theorem C17_accepts_object_json (san : Bytes → Bytes) (hs : san [] = []) (m : Msg) :
    ∃ m', unmarshalJSON (marshalJSON san m) = .ok m' := ⟨_, rt_msg san hs m⟩

/-- `null`, booleans and numbers are refused, never a panic -/
theorem C17_refuses_scalars_json : unmarshalJSON .null = .err ∧ (∀ b, unmarshalJSON (.bool b) = .err) ∧
    (∀ t, unmarshalJSON (.num t) = .err) := by
  refine ⟨?_, ?_, ?_⟩ <;> intros <;> rw [unmarshalJSON, unmarshalInto]

/-- **The JSON decoder is total and accepts exactly the well-typed trees**, for EVERY tree and every
destination: `UnmarshalJSON` returns a value iff the tree is a string, a list of accepted trees, or an object
whose known keys (case-folded) carry values of the right kind (`okMsg`; `null` is tolerated where encoding/json
tolerates it); otherwise it returns an error. It never panics. (C08 reuses this.) -/
theorem C17_json_accepts_iff (t : JSON) (d : Msg) :
    (okMsg t = true → ∃ m, unmarshalInto t d = .ok m) ∧ (okMsg t = false → unmarshalInto t d = .err) :=
  unmarshalInto_decides t d

/- OPEN (stronger than the property's "accepted"): the value returned is the component the tree denotes,
     jsonToMsg t = some m → ∃ m', unmarshalJSON t = .ok m' ∧ m' = m up to the canonical form of hover contents.
   Proved below: acceptance (`C17_accepts_shapes_json`). The value is compared on every `chat.json.dec` line. -/

/-- **Accepted shapes, JSON**: every tree inside the text-component grammar of the specification
(`Spec.jsonToMsg`: a bare string, a list of components, an object with the protocol's keys and value kinds, nested
to any depth) is accepted by `UnmarshalJSON`. -/
theorem C17_accepts_shapes_json (t : JSON) (m : Msg) (h : jsonToMsg t = some m) :
    ∃ m', unmarshalJSON t = .ok m' :=
  (unmarshalInto_decides t Msg.zero).1 (spec_okMsg t m h)

theorem C17_json_decode_never_panics (t : JSON) (d : Msg) : unmarshalInto t d ≠ .panic := by
  have h := unmarshalInto_decides t d
  cases hb : okMsg t with
  | true => obtain ⟨m, hm⟩ := h.1 hb; rw [hm]; exact fun e => by cases e
  | false => rw [h.2 hb]; exact fun e => by cases e

/-! ### NBT form (stage 2)

`Model/ChatNBT.lean`: `marshalNBT` / `writeTo` are the typed encoder (`Go.encode`) at the struct types `rawMsgStruct` /
`translateMsg` / `ClickEvent` / `HoverEvent`, a nested component handed over as a `Marshaler`; `chatUm` / `readFromInto` are
the typed decoder's branches with the `*Message` / `*TranslateArgs` hooks. `Spec.nbtForm m` is the compound the
protocol prescribes; `Spec.NbtOK m`: strings below 32768 bytes, lists below 2^31 elements, no hover contents. -/

open GoMC.Model.ChatNBT GoMC.Lemmas.ChatNBT in
/-- T1: the `nbt:"…"` tags (and Go field names) of the four struct types of the model are the source's -/
theorem C17_gen_nbt_tags :
    rawFields.map (fun p => (p.1.name, p.1.nbt))
        = Gen.Message_tags.map (fun r => (r.1, r.2.2.2.1 ++ (if r.2.2.2.2 then sOmit else [])))
    ∧ translateFields.map (fun p => (p.1.name, p.1.nbt))
        = Gen.translateMsg_tags.map (fun r => (r.1, r.2.2.2.1 ++ (if r.2.2.2.2 then sOmit else [])))
    ∧ clickFields.map (fun p => (p.1.name, p.1.nbt))
        = Gen.ClickEvent_tags.map (fun r => (r.1, r.2.2.2.1 ++ (if r.2.2.2.2 then sOmit else [])))
    ∧ hoverFields.map (fun p => (p.1.name, p.1.nbt))
        = Gen.HoverEvent_tags.map (fun r => (r.1, r.2.2.2.1 ++ (if r.2.2.2.2 then sOmit else []))) := by
  decide +kernel

open GoMC.Model.ChatNBT GoMC.Lemmas.ChatNBT in
/-- **The NBT form is one well-formed network-format value**: `WriteTo m` succeeds, reports the number of bytes, and
writes the tag byte 10 and the payload of the compound `nbtForm m` — whose keys are exactly the non-empty fields'
tag names, with the component's strings and flags; an independent reader (`Spec.parseDoc`) reads those bytes,
followed by anything, back to exactly that compound and leaves what follows. All components in `NbtOK`,
including translation arguments that mix components and strings (the repaired `nbtArgs`). -/
theorem C17_nbt_wellformed (m : Msg) (h : NbtOK m) (rest : Bytes) :
    writeTo m = .ok (10 :: encPayload (nbtForm m), (encPayload (nbtForm m)).length + 1)
    ∧ (nbtForm m).WF
    ∧ parseDoc .network ((10 :: encPayload (nbtForm m)) ++ rest) = some ([], nbtForm m, rest) := by
  refine ⟨writeTo_ok m h, wf_msg m h, ?_⟩
  have := GoMC.Spec.parseDoc_enc_network [] (nbtForm m) rest (wf_msg m h)
  simpa [encDoc, nbtForm_tag] using this

open GoMC.Model.ChatNBT GoMC.Lemmas.ChatNBT in
/-- **Round trip, NBT form**: for every component in `NbtOK`, every destination the hook treats as fresh (a new
`Message`, or the placeholder of a list element / hover value), every source that starts with what `WriteTo`
wrote — however fragmented, whatever follows — `ReadFrom` returns the Go value of `norm m` (strings unchanged,
string arguments as text components), the exact byte count, and leaves the rest; and that Go value is the
component `norm m`. -/
theorem C17_nbt_roundtrip (m : Msg) (h : NbtOK m) (old : Go.GoVal) (hold : asMsg old = messageTy.zero)
    (s : Stream) (rest : Bytes) (bytes : Bytes) (n : Nat) (hw : writeTo m = .ok (bytes, n)) (hs : s.flat = bytes ++ rest) :
    ∃ s', readFromInto old s = (.ok (goOf (norm id m), n), s') ∧ s'.flat = rest ∧ s'.failing = s.failing
      ∧ ofGo (goOf (norm id m)) = some (norm id m) := by
  rw [writeTo_ok m h] at hw
  simp only [Res.ok.injEq, Prod.mk.injEq] at hw
  obtain ⟨rfl, rfl⟩ := hw
  obtain ⟨s', h1, h2, h3⟩ := readFrom_ok m h old hold s rest (by simpa using hs)
  exact ⟨s', h1, h2, h3, ofGo_norm m h⟩

open GoMC.Model.ChatNBT GoMC.Lemmas.ChatNBT in
/-- **Both forms of one component decode to equal values**: when every string of the component is valid UTF-8
(`utf8Sanitize` leaves it alone), the JSON round trip and the NBT round trip both yield `norm id m`. -/
theorem C17_forms_agree (m : Msg) (h : NbtOK m) (hu : StrFix utf8Sanitize m) (s : Stream) (rest : Bytes)
    (hs : s.flat = 10 :: encPayload (nbtForm m) ++ rest) :
    unmarshalJSON (marshalJSON utf8Sanitize m) = .ok (norm id m)
    ∧ ∃ v n s', readFrom s = (.ok (v, n), s') ∧ ofGo v = some (norm id m) := by
  refine ⟨by rw [C17_json_roundtrip_utf8, norm_fix utf8Sanitize m hu], ?_⟩
  obtain ⟨s', h1, _, _⟩ := readFrom_ok m h messageTy.zero rfl s rest hs
  exact ⟨_, _, s', h1, ofGo_norm m h⟩

open GoMC.Model.ChatNBT GoMC.Lemmas.ChatNBT in
/-- **Accepted shapes, NBT**: a bare TAG_String is the text; a TAG_List of components is the extras of an empty
component; a TAG_Compound is the component (`C17_nbt_roundtrip`). Each with anything after it and any fragmentation. -/
theorem C17_accepts_shapes_nbt :
    (∀ (str : Bytes) (s : Stream) (rest : Bytes), str.length < 32768 → s.flat = 8 :: encString str ++ rest →
      ∃ n s', readFrom s = (.ok (goOf (Msg.ofText str), n), s') ∧ s'.flat = rest)
    ∧ (∀ (ms : List Msg) (s : Stream) (rest : Bytes), NbtOKList ms → ms.length < 2 ^ 31 →
      s.flat = 9 :: encPayload (NBT.list NBT.tagCompound (formList ms)) ++ rest →
      ∃ n s', readFrom s = (.ok (setAt messageTy.zero 13 (.slice msgPH false (goList (normList id ms))), n), s') ∧ s'.flat = rest)
    ∧ (∀ (m : Msg) (s : Stream) (rest : Bytes), NbtOK m → s.flat = 10 :: encPayload (nbtForm m) ++ rest →
      ∃ n s', readFrom s = (.ok (goOf (norm id m), n), s') ∧ s'.flat = rest) := by
  refine ⟨fun str s rest hl hs => ?_, fun ms s rest hok hl hs => ?_, fun m s rest hok hs => ?_⟩
  · obtain ⟨s', h1, h2, _⟩ := readFrom_string str hl messageTy.zero rfl s rest hs
    exact ⟨_, s', h1, h2⟩
  · obtain ⟨s', h1, h2, _⟩ := readFrom_list ms hok hl messageTy.zero rfl s rest hs
    exact ⟨_, s', h1, h2⟩
  · obtain ⟨s', h1, h2, _⟩ := readFrom_ok m hok messageTy.zero rfl s rest hs
    exact ⟨_, s', h1, h2⟩

open GoMC.Model.ChatNBT GoMC.Lemmas.ChatNBT in
/-- **The NBT-form decoder never panics** (C08): `(*Message).ReadFrom` on ANY source, with any recursion budget, into a
fresh `Message` or into any destination that holds a component (`goOf m`, whatever its hover contents): a value
or an error. The proof carries the invariant that destinations stay well shaped (`GoodC`: the typed model's
`Good`, plus components at `Message`-typed positions), which is what excludes the model's crash points (a struct
value with fewer fields than its type in the walk along a field's index path). -/
theorem C17_nbt_decode_never_panics (fuel : Nat) (s : Stream) :
    (readFromIntoF fuel messageTy.zero s).1 ≠ Res.panic
    ∧ (readFrom s).1 ≠ Res.panic
    ∧ ∀ m : Msg, (readFromIntoF fuel (goOf m) s).1 ≠ Res.panic :=
  ⟨readFromIntoF_noPanic fuel _ messageZero_goodC s, readFromIntoF_noPanic _ _ messageZero_goodC s,
   fun m => readFromIntoF_noPanic fuel _ (goOf_goodC m) s⟩

open GoMC.Model.ChatNBT GoMC.Lemmas.ChatNBT in
/-- **Fragmentation invariance of the NBT-form decoder** (C09): for every destination, `ReadFrom` returns the same
result, the same count and leaves the same bytes however the source delivers them -/
theorem C17_nbt_fragInv (old : Go.GoVal) : Rd.FragInv (readFromInto old) :=
  fragInv_readFromInto (fun tag => GoMC.Props.DYNBT.DYNBT_frag tag) old

open GoMC.Model.ChatNBT GoMC.Lemmas.ChatNBT in
/-- … and a successful `ReadFrom` (at a given recursion budget) does not depend on what follows the bytes it consumed -/
theorem C17_nbt_extStable (fuel : Nat) (old : Go.GoVal) : Rd.ExtStable (readFromIntoF fuel old) :=
  extStable_readFromIntoF (fun tag => GoMC.Props.DYNBT.DYNBT_ext_stable tag) fuel old

/-! ### chat-type header -/

/-- **The chat-type header round-trips, with and without a target**, for every id, over ANY codec `msgC` for
the two names that itself round-trips on `dom` (stage 2 instantiates `msgC` with the NBT form): for every
prior destination (also one that held a target before), any fragmentation of the source and anything after the
header, `ReadFrom` succeeds, returns the exact byte count, leaves the rest untouched, and yields the id, the
sender and the target (none iff none was written). -/
theorem C17_type_roundtrip {msgC : Codec Msg} {dom : Msg → Prop} {eqv : Msg → Msg → Prop} (hc : RT msgC dom eqv) :
    RT (typeC msgC) (typeDom dom) (typeEqv eqv) :=
  rt_type hc

/-- layout: id as VarInt, sender, one Boolean, the target iff the Boolean is set -/
theorem C17_type_layout (msgC : Codec Msg) (id : BitVec 32) (sender : Msg) (target : Option Msg) :
    (typeEnc msgC ⟨id, sender, target⟩).1 =
      (varIntEnc id).1 ++ (msgC.enc sender).1 ++
        (match target with
         | none => [0x00#8]
         | some m => 0x01#8 :: (msgC.enc m).1) := by
  cases target <;> simp [typeEnc, boolEnc, wr]

open GoMC.Model.ChatNBT GoMC.Lemmas.ChatNBT in
/-- **The chat-type header with the real NBT-form codec**: `C17_type_roundtrip` instantiated at `Message.WriteTo` /
`(*Message).ReadFrom` into fresh names (`msgCodecFresh`; the target is always decoded into `new(Message)`, a REUSED
sender is merged into, as every struct decode does). For every id, sender and optional target in `NbtOK`, any
fragmentation, anything after the header: `ReadFrom` returns the id, `norm` of the sender and of the target (none iff
none was written), the exact count, and leaves the rest. -/
theorem C17_type_roundtrip_nbt :
    RT (typeC msgCodecFresh) (typeDom NbtOK) (typeEqv fun d v => d = norm id v) :=
  rt_type rt_msgCodecFresh

/-! ### rendering -/

/-- **Rendering never panics**: `ClearString()` and `String()` return for every component and every translation
table (the slice `format.String()[:format.Len()-1]`, the index `str[2]` in the pattern callback and every
recursion are covered; `fmt.Fprintf` itself recovers panics of operands' methods). -/
theorem C17_render_total (lang : Bytes → Bytes) (m : Msg) :
    (∃ r, clearString lang m = .ok r) ∧ (∃ r, ansiString lang m = .ok r) :=
  ⟨clearString_ok lang m, ansiString_ok lang m⟩

/-- **The last language set wins**: after any sequence of `SetLanguage` calls that ends with `last`, from any
starting table, `ClearString()` and `String()` render every component exactly as under `last` alone — a pure
function of the last argument: nothing of an earlier language (nor of the initial English table) shows through,
and selecting English again restores English. With no call the table is the initial one. -/
theorem C17_language_last_wins (init : Bytes → Bytes) (steps : List (Bytes → Bytes)) (last : Bytes → Bytes) (m : Msg) :
    languageAfter init (steps ++ [last]) = last
    ∧ clearString (languageAfter init (steps ++ [last])) m = clearString last m
    ∧ ansiString (languageAfter init (steps ++ [last])) m = ansiString last m
    ∧ languageAfter init [] = init := by
  have h : languageAfter init (steps ++ [last]) = last := by
    simp [languageAfter, List.foldl_append, setLanguage]
  exact ⟨h, by rw [h], by rw [h], rfl⟩

/-- language A knows key `k` as `%[2]s %[1]s`, English (selected afterwards) as `%s %s`: `k` with X, Y renders
as `X Y`, not `Y X` -/
example :
    let en : Bytes → Bytes := fun k => if k = [0x6b#8] then [0x25#8, 0x73#8, 0x20#8, 0x25#8, 0x73#8] else []
    let a : Bytes → Bytes := fun k =>
      if k = [0x6b#8] then [0x25#8, 0x5b#8, 0x32#8, 0x5d#8, 0x73#8, 0x20#8, 0x25#8, 0x5b#8, 0x31#8, 0x5d#8, 0x73#8] else []
    clearString (languageAfter en [a, en])
        { Msg.zero with translate := [0x6b#8], args := [.inr [0x58#8], .inr [0x59#8]] }
      = .ok ([0x58#8, 0x20#8, 0x59#8], true) := by decide +kernel

/-- **Plain mode removes the format codes**: on every byte string `TransCtrlSeq(s, false)` is `Spec.strip s`,
the left-to-right deletion of `§` followed by one of `0-9 a-f k-o r` in either case; nothing else is touched. -/
theorem C17_clear_strips (s : Bytes) : transCtrlSeq false s = .ok (strip s, false) :=
  transGo_plain 0 s

/-- hence the plain text of a text-only component -/
theorem C17_clear_strips_text (lang : Bytes → Bytes) (s : Bytes) :
    clearString lang (Msg.ofText s) = .ok (strip s, true) := by
  rw [Msg.ofText, Msg.zero, clearString, C17_clear_strips]
  simp [clearList]

/-- the codes the specification names are exactly the ones the pattern matches (all 256 bytes) -/
theorem C17_codes_are_pattern (c : Byte) : isFormatCode c = isPatCode c := (isPatCode_eq_isFormatCode c).symm

/-- **Translation arguments are substituted in order**: for every format made of literal text, `%s` and `%%`
that consumes all its arguments, `Fprintf` yields the text with the k-th `%s` replaced by the k-th argument
(a string as it is, a component by its rendering) — no `%!…` fallback, no `EXTRA`. -/
theorem C17_args_in_order (segs : List Seg) (args : List FArg) (hl : litsOK segs) (hi : hasIdx segs = false)
    (hc : countNext segs = args.length) :
    fprintf (Seg.render segs) args = (substSeq segs (args.map FArg.text), true) :=
  fprintf_seq segs args hl hi hc

/-- **…and by index** for `%n$s` (written `%[n]s` in the Go tables), `1 ≤ n ≤ min(#args, 99)`, in any order and
with repetitions. -/
theorem C17_args_by_index (segs : List Seg) (args : List FArg) (hl : litsOK segs) (hc : countNext segs = 0)
    (hix : idxOK args.length segs) (hh : hasIdx segs = true) :
    fprintf (Seg.render segs) args = (substIdx (args.map FArg.text) segs, true) :=
  fprintf_idx segs args hl hc hix hh

/-- the plain text of a translated component whose arguments rendered to `fargs` -/
theorem C17_clear_translated (lang : Bytes → Bytes) (key : Bytes) (hk : key ≠ []) (as : List (Msg ⊕ Bytes))
    (fargs : List FArg) (ha : clearArgs lang as = .ok (fargs, true))
    (segs : List Seg) (hfmt : lang key = Seg.render segs) (hl : litsOK segs) (hi : hasIdx segs = false)
    (hc : countNext segs = fargs.length) :
    clearString lang { Msg.zero with translate := key, args := as }
      = .ok (substSeq segs (fargs.map FArg.text), true) := by
  rw [Msg.zero, clearString]
  have ht : transCtrlSeq false [] = .ok ([], false) := rfl
  simp only [ht, Res.bind_ok, ne_eq, hk, not_false_eq_true, if_true, ha, hfmt, fprintf_seq segs fargs hl hi hc,
    Res.pure_eq, clearList, Bool.and_self, List.nil_append, List.append_nil]

/-- Go's `fmt` and the game's formatter differ when `%s` and `%n$s` are MIXED in one format: after `%[2]s`
the next `%s` takes the THIRD argument (vanilla: the second). The repository's own example test pins this, so it
is recorded here, not repaired: `"%s%[2]s again %s"` with A B C gives `AB again C`. -/
theorem C17_mixed_index_witness :
    fprintf (Seg.render [.next, .idx 2, .lit [0x20#8], .next]) [.str [0x41#8], .str [0x42#8], .str [0x43#8]]
      = ([0x41#8, 0x42#8, 0x20#8, 0x43#8], true) := by decide +kernel

/-! ### non-vacuity -/

/-- a codec for the two names that satisfies the hypothesis of `C17_type_roundtrip`: the text as a protocol String -/
def textC : Codec Msg :=
  ⟨fun m => stringEnc m.text, fun _ => do let (s, n) ← stringDec []; pure (Msg.ofText s, n), Msg.zero⟩

theorem C17_type_roundtrip_nonvacuous :
    RT (typeC textC) (typeDom fun m => m.text.length < 2 ^ 31) (typeEqv fun d v => d.text = v.text) := by
  apply C17_type_roundtrip
  intro v d s rest hv hs
  obtain ⟨d', s', h1, e, f, fl⟩ := rt_string v.text [] s rest hv hs
  refine ⟨Msg.ofText d', s', ?_, by simpa [Msg.ofText, Msg.zero] using e, f, fl⟩
  show (stringDec [] >>= fun x => pure (Msg.ofText x.1, x.2)) s = _
  have h1' : stringDec [] s = (Res.ok (d', (stringEnc v.text).1.length), s') := h1
  rw [Rd.bind_ok h1']
  rfl

/-- `"<%s> %s"` with a component and a string: both substituted, in order -/
example : fprintf [0x3c#8, 0x25#8, 0x73#8, 0x3e#8, 0x20#8, 0x25#8, 0x73#8] [.msg [0x41#8], .str [0x42#8]]
    = ([0x3c#8, 0x41#8, 0x3e#8, 0x20#8, 0x42#8], true) := by decide +kernel


def exampleMsg : Msg :=
  { Msg.zero with
    text := [0x68#8, 0x69#8], bold := true, color := [0x72#8, 0x65#8, 0x64#8], translate := [0x6b#8],
    args := [.inl (Msg.ofText [0x61#8])], extra := [Msg.ofText [0x62#8]] }

/-- `norm` is the identity on an ASCII component with component arguments -/
theorem C17_norm_id_example : Msg.beq (norm utf8Sanitize exampleMsg) exampleMsg = true := by decide +kernel

example : unmarshalJSON (marshalJSON utf8Sanitize (Msg.ofText [0x68#8, 0x69#8])) = .ok (Msg.ofText [0x68#8, 0x69#8]) := by
  rw [C17_json_roundtrip_utf8]; rfl

/-- the format codes are removed, an unknown code and a lone `§` stay: `§aX§zY§` ↦ `X§zY§` -/
example : strip [0xC2#8, 0xA7#8, 0x61#8, 0x58#8, 0xC2#8, 0xA7#8, 0x7a#8, 0x59#8, 0xC2#8, 0xA7#8]
    = [0x58#8, 0xC2#8, 0xA7#8, 0x7a#8, 0x59#8, 0xC2#8, 0xA7#8] := by decide +kernel

/-- upper-case codes and `§k` are removed too (the repaired behaviour): `§KA§lB` ↦ `AB` -/
example : transCtrlSeq false [0xC2#8, 0xA7#8, 0x4b#8, 0x41#8, 0xC2#8, 0xA7#8, 0x6c#8, 0x42#8] = .ok ([0x41#8, 0x42#8], false) := by
  decide +kernel

end GoMC.Props.C17
