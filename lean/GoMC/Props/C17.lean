/-
  C17 — text components survive JSON and NBT encoding and render without crashing.  STAGE 1: the JSON form,
  the chat-type header over a parameter codec for the NBT form, the renderers.  Property theorems only
  (definitions: Model/Chat.lean, Spec/TextComponent.lean, Spec/JSON.lean; lemmas: Lemmas/Chat.lean, Lemmas/ChatType.lean).
  `Gen.*` are regenerated from /repo's chat/*.go on every run.

  Reading guide.  `Msg` is a text component (strings are byte strings, translation arguments are components
  or strings).  `marshalJSON san m` / `unmarshalJSON t` are `Message.MarshalJSON` / `json.Unmarshal(…, &Message{})`
  at the level of the JSON value tree; `san` is what encoding/json does to a Go string when it writes it
  (`Spec.utf8Sanitize`; the theorems hold for ANY `san` with `san "" = ""`).  `norm san m` is the component a
  round trip yields: every string sanitised, string arguments turned into text components, hover contents
  as Go's generic decoder returns them.  For ASCII components without string arguments and with canonical
  hover contents `norm` is the identity (`C17_norm_id_example`).
-/
import GoMC.Lemmas.Chat
import GoMC.Lemmas.ChatType
import GoMC.Gen.Chat
namespace GoMC.Props.C17
open GoMC GoMC.Spec GoMC.Model GoMC.Model.Chat GoMC.Lemmas GoMC.Lemmas.Chat

/-! ### T1: tables, pattern and struct tags regenerated from the source are the model's -/

theorem C17_gen_fmtCode : Gen.fmtCode = Chat.fmtCode := by decide +kernel
theorem C17_gen_colors : Gen.colors = Chat.colors := by decide +kernel

/-- the source of `fmtPat` is `(?i)§[\dA-FK-OR]` -/
theorem C17_gen_fmtPat : Gen.fmtPat_src =
    [0x28#8, 0x3f#8, 0x69#8, 0x29#8, 0xc2#8, 0xa7#8, 0x5b#8, 0x5c#8, 0x64#8, 0x41#8, 0x2d#8, 0x46#8, 0x4b#8, 0x2d#8,
     0x4f#8, 0x52#8, 0x5d#8] := by decide +kernel

/-- the class of that pattern, for one-byte characters, is the model's `isPatCode` (table over all 256 bytes):
digits, `A-F`, `K-O`, `R` and their lower-case forms -/
theorem C17_pattern_class (c : Byte) : isPatCode c = patClass.contains c := isPatCode_table c

/-- `json` and `nbt` names and `omitempty` flags of `Message` (= `rawMsgStruct`): the model's field names in the
model's order, `text` always written, everything else `omitempty` -/
theorem C17_gen_tags_Message :
    Gen.Message_tags.map (fun r => (r.2.1, r.2.2.1, r.2.2.2.1, r.2.2.2.2))
      = Field.all.map (fun f => (f.name, decide (f ≠ .text), f.name, decide (f ≠ .text))) := by decide +kernel
/-- `translateMsg`: the same names, every field `omitempty` -/
theorem C17_gen_tags_translateMsg :
    Gen.translateMsg_tags.map (fun r => (r.2.1, r.2.2.1, r.2.2.2.1, r.2.2.2.2))
      = Field.all.map (fun f => (f.name, true, f.name, true)) := by decide +kernel
theorem C17_gen_tags_ClickEvent :
    Gen.ClickEvent_tags.map (fun r => (r.2.1, r.2.2.1, r.2.2.2.1, r.2.2.2.2))
      = [(kAction, false, kAction, false), (kValue, false, kValue, false)] := by decide +kernel
/-- `HoverEvent`: `contents` is `omitempty` in the NBT form only (the repair of "unsupport type interface {}") -/
theorem C17_gen_tags_HoverEvent :
    Gen.HoverEvent_tags.map (fun r => (r.2.1, r.2.2.1, r.2.2.2.1, r.2.2.2.2))
      = [(kAction, false, kAction, false), (kContents, false, kContents, true), (kValue, false, kValue, false)] := by
  decide +kernel

/-! ### JSON form -/

/-- **Round trip, all components** (every field present or absent, any nesting of extras, hover values and
translation arguments): decoding what `MarshalJSON` produced yields the component, up to `norm`. -/
theorem C17_json_roundtrip (san : Bytes → Bytes) (hs : san [] = []) (m : Msg) :
    unmarshalJSON (marshalJSON san m) = .ok (norm san m) :=
  rt_msg san hs m

/-- the instance for encoding/json's actual string coercion -/
theorem C17_json_roundtrip_utf8 (m : Msg) :
    unmarshalJSON (marshalJSON utf8Sanitize m) = .ok (norm utf8Sanitize m) :=
  rt_msg utf8Sanitize utf8Sanitize_nil m

/-- a bare JSON string is accepted: it is the text -/
theorem C17_accepts_string_json (s : Bytes) : unmarshalJSON (.str s) = .ok (Msg.ofText s) := by
  rw [unmarshalJSON, unmarshalInto]; rfl

/-- a JSON list is accepted as soon as its elements are: they become the extras of an empty component -/
theorem C17_accepts_list_json (xs : List JSON) (ms : List Msg) (h : decList xs = .ok ms) :
    unmarshalJSON (.arr xs) = .ok { Msg.zero with extra := ms } := by
  rw [unmarshalJSON, unmarshalInto, h]; rfl

/-- in particular a list of encoded components and bare strings -/
theorem C17_accepts_list_of_components_json (san : Bytes → Bytes) (hs : san [] = []) (as : List (Msg ⊕ Bytes)) :
    unmarshalJSON (.arr (marshalArgs san as)) = .ok { Msg.zero with extra := argMsgs san as } :=
  C17_accepts_list_json _ _ (rt_args san hs as)

/-- a JSON object written by the library is accepted (this is `C17_json_roundtrip`), with or without `text`:
`MarshalJSON` omits an empty `text` exactly when a translation key is present -/
theorem C17_accepts_object_json (san : Bytes → Bytes) (hs : san [] = []) (m : Msg) :
    ∃ m', unmarshalJSON (marshalJSON san m) = .ok m' := ⟨_, rt_msg san hs m⟩

/-- `null`, booleans and numbers are refused, never a panic -/
theorem C17_refuses_scalars_json : unmarshalJSON .null = .err ∧ (∀ b, unmarshalJSON (.bool b) = .err) ∧
    (∀ t, unmarshalJSON (.num t) = .err) := by
  refine ⟨?_, ?_, ?_⟩ <;> intros <;> rw [unmarshalJSON, unmarshalInto]

/-- **The JSON decoder is total and accepts exactly the well-typed trees**, for EVERY tree and every
destination: `UnmarshalJSON` returns a value iff the tree is a string, a list of accepted trees, or an object
whose known keys (case-folded) carry values of the right kind (`okMsg`; `null` is tolerated where encoding/json
tolerates it); otherwise it returns an error. It never panics. (C08 reuses this.) -/
theorem C17_json_accepts_iff (t : JSON) (d : Msg) :
    (okMsg t = true → ∃ m, unmarshalInto t d = .ok m) ∧ (okMsg t = false → unmarshalInto t d = .err) :=
  unmarshalInto_decides t d

/- OPEN (stronger than the property's "accepted"): the value returned is the component the tree denotes,
     jsonToMsg t = some m → ∃ m', unmarshalJSON t = .ok m' ∧ m' = m up to the canonical form of hover contents.
   Proved below: acceptance (`C17_accepts_shapes_json`). The value is compared on every `chat.json.dec` line. -/

/-- **Accepted shapes, JSON**: every tree inside the text-component grammar of the specification
(`Spec.jsonToMsg`: a bare string, a list of components, an object with the protocol's keys and value kinds, nested
to any depth) is accepted by `UnmarshalJSON`. -/
theorem C17_accepts_shapes_json (t : JSON) (m : Msg) (h : jsonToMsg t = some m) :
    ∃ m', unmarshalJSON t = .ok m' :=
  (unmarshalInto_decides t Msg.zero).1 (spec_okMsg t m h)

theorem C17_json_decode_never_panics (t : JSON) (d : Msg) : unmarshalInto t d ≠ .panic := by
  have h := unmarshalInto_decides t d
  cases hb : okMsg t with
  | true => obtain ⟨m, hm⟩ := h.1 hb; rw [hm]; exact fun e => by cases e
  | false => rw [h.2 hb]; exact fun e => by cases e

/-! ### NBT form — stage 2 -/

/- OPEN (stage 2: needs the typed NBT struct encoder/decoder model of C01/C02, instantiated at `rawMsgStruct`,
   `translateMsg`, `ClickEvent`, `HoverEvent`, `TranslateArgs`):
     C17_nbt_roundtrip      ReadFrom (WriteTo m) = ok (norm id m), all components without mixed-kind arguments
     C17_nbt_wellformed     WriteTo m is one network-format value; Spec.parseDoc reads it to a compound; Spec.nbtToMsg of it = norm id m
     C17_forms_agree        the JSON-decoded and the NBT-decoded value of one component are equal (valid UTF-8 strings)
     C17_accepts_shapes_nbt TAG_String / TAG_Compound / TAG_List (and typed arrays as translation arguments) are accepted
   All four statements are evaluated on the implementation by the correspondence run (operations chat.nbt,
   chat.nbt.dec) with the independent readers Spec.parseDoc / Spec.nbtToMsg as oracles. -/

/-! ### chat-type header -/

/-- **The chat-type header round-trips, with and without a target**, for every id, over ANY codec `msgC` for
the two names that itself round-trips on `dom` (stage 2 instantiates `msgC` with the NBT form): for every
prior destination (also one that held a target before), any fragmentation of the source and anything after the
header, `ReadFrom` succeeds, returns the exact byte count, leaves the rest untouched, and yields the id, the
sender and the target (none iff none was written). -/
theorem C17_type_roundtrip {msgC : Codec Msg} {dom : Msg → Prop} {eqv : Msg → Msg → Prop} (hc : RT msgC dom eqv) :
    RT (typeC msgC) (typeDom dom) (typeEqv eqv) :=
  rt_type hc

/-- layout: id as VarInt, sender, one Boolean, the target iff the Boolean is set -/
theorem C17_type_layout (msgC : Codec Msg) (id : BitVec 32) (sender : Msg) (target : Option Msg) :
    (typeEnc msgC ⟨id, sender, target⟩).1 =
      (varIntEnc id).1 ++ (msgC.enc sender).1 ++
        (match target with
         | none => [0x00#8]
         | some m => 0x01#8 :: (msgC.enc m).1) := by
  cases target <;> simp [typeEnc, boolEnc, wr]

/-! ### rendering -/

/-- **Rendering never panics**: `ClearString()` and `String()` return for every component and every translation
table (the slice `format.String()[:format.Len()-1]`, the index `str[2]` in the pattern callback and every
recursion are covered; `fmt.Fprintf` itself recovers panics of operands' methods). -/
theorem C17_render_total (lang : Bytes → Bytes) (m : Msg) :
    (∃ r, clearString lang m = .ok r) ∧ (∃ r, ansiString lang m = .ok r) :=
  ⟨clearString_ok lang m, ansiString_ok lang m⟩

/-- **Plain mode removes the format codes**: on every byte string `TransCtrlSeq(s, false)` is `Spec.strip s`,
the left-to-right deletion of `§` followed by one of `0-9 a-f k-o r` in either case; nothing else is touched. -/
theorem C17_clear_strips (s : Bytes) : transCtrlSeq false s = .ok (strip s, false) :=
  transGo_plain 0 s

/-- hence the plain text of a text-only component -/
theorem C17_clear_strips_text (lang : Bytes → Bytes) (s : Bytes) :
    clearString lang (Msg.ofText s) = .ok (strip s, true) := by
  rw [Msg.ofText, Msg.zero, clearString, C17_clear_strips]
  simp [clearList]

/-- the codes the specification names are exactly the ones the pattern matches (all 256 bytes) -/
theorem C17_codes_are_pattern (c : Byte) : isFormatCode c = isPatCode c := (isPatCode_eq_isFormatCode c).symm

/-- **Translation arguments are substituted in order**: for every format made of literal text, `%s` and `%%`
that consumes all its arguments, `Fprintf` yields the text with the k-th `%s` replaced by the k-th argument
(a string as it is, a component by its rendering) — no `%!…` fallback, no `EXTRA`. -/
theorem C17_args_in_order (segs : List Seg) (args : List FArg) (hl : litsOK segs) (hi : hasIdx segs = false)
    (hc : countNext segs = args.length) :
    fprintf (Seg.render segs) args = (substSeq segs (args.map FArg.text), true) :=
  fprintf_seq segs args hl hi hc

/-- **…and by index** for `%n$s` (written `%[n]s` in the Go tables), `1 ≤ n ≤ min(#args, 99)`, in any order and
with repetitions. -/
theorem C17_args_by_index (segs : List Seg) (args : List FArg) (hl : litsOK segs) (hc : countNext segs = 0)
    (hix : idxOK args.length segs) (hh : hasIdx segs = true) :
    fprintf (Seg.render segs) args = (substIdx (args.map FArg.text) segs, true) :=
  fprintf_idx segs args hl hc hix hh

/-- the plain text of a translated component whose arguments rendered to `fargs` -/
theorem C17_clear_translated (lang : Bytes → Bytes) (key : Bytes) (hk : key ≠ []) (as : List (Msg ⊕ Bytes))
    (fargs : List FArg) (ha : clearArgs lang as = .ok (fargs, true))
    (segs : List Seg) (hfmt : lang key = Seg.render segs) (hl : litsOK segs) (hi : hasIdx segs = false)
    (hc : countNext segs = fargs.length) :
    clearString lang { Msg.zero with translate := key, args := as }
      = .ok (substSeq segs (fargs.map FArg.text), true) := by
  rw [Msg.zero, clearString]
  have ht : transCtrlSeq false [] = .ok ([], false) := rfl
  simp only [ht, Res.bind_ok, ne_eq, hk, not_false_eq_true, if_true, ha, hfmt, fprintf_seq segs fargs hl hi hc,
    Res.pure_eq, clearList, Bool.and_self, List.nil_append, List.append_nil]

/-- Go's `fmt` and the game's formatter differ when `%s` and `%n$s` are MIXED in one format: after `%[2]s`
the next `%s` takes the THIRD argument (vanilla: the second). The repository's own example test pins this, so it
is recorded here, not repaired: `"%s%[2]s again %s"` with A B C gives `AB again C`. -/
theorem C17_mixed_index_witness :
    fprintf (Seg.render [.next, .idx 2, .lit [0x20#8], .next]) [.str [0x41#8], .str [0x42#8], .str [0x43#8]]
      = ([0x41#8, 0x42#8, 0x20#8, 0x43#8], true) := by decide +kernel

/-! ### non-vacuity -/

/-- a codec for the two names that satisfies the hypothesis of `C17_type_roundtrip`: the text as a protocol String -/
def textC : Codec Msg :=
  ⟨fun m => stringEnc m.text, fun _ => do let (s, n) ← stringDec []; pure (Msg.ofText s, n), Msg.zero⟩

theorem C17_type_roundtrip_nonvacuous :
    RT (typeC textC) (typeDom fun m => m.text.length < 2 ^ 31) (typeEqv fun d v => d.text = v.text) := by
  apply C17_type_roundtrip
  intro v d s rest hv hs
  obtain ⟨d', s', h1, e, f, fl⟩ := rt_string v.text [] s rest hv hs
  refine ⟨Msg.ofText d', s', ?_, by simpa [Msg.ofText, Msg.zero] using e, f, fl⟩
  show (stringDec [] >>= fun x => pure (Msg.ofText x.1, x.2)) s = _
  have h1' : stringDec [] s = (Res.ok (d', (stringEnc v.text).1.length), s') := h1
  rw [Rd.bind_ok h1']
  rfl

/-- `"<%s> %s"` with a component and a string: both substituted, in order -/
example : fprintf [0x3c#8, 0x25#8, 0x73#8, 0x3e#8, 0x20#8, 0x25#8, 0x73#8] [.msg [0x41#8], .str [0x42#8]]
    = ([0x3c#8, 0x41#8, 0x3e#8, 0x20#8, 0x42#8], true) := by decide +kernel


def exampleMsg : Msg :=
  { Msg.zero with
    text := [0x68#8, 0x69#8], bold := true, color := [0x72#8, 0x65#8, 0x64#8], translate := [0x6b#8],
    args := [.inl (Msg.ofText [0x61#8])], extra := [Msg.ofText [0x62#8]] }

/-- `norm` is the identity on an ASCII component with component arguments -/
theorem C17_norm_id_example : Msg.beq (norm utf8Sanitize exampleMsg) exampleMsg = true := by decide +kernel

example : unmarshalJSON (marshalJSON utf8Sanitize (Msg.ofText [0x68#8, 0x69#8])) = .ok (Msg.ofText [0x68#8, 0x69#8]) := by
  rw [C17_json_roundtrip_utf8]; rfl

/-- the format codes are removed, an unknown code and a lone `§` stay: `§aX§zY§` ↦ `X§zY§` -/
example : strip [0xC2#8, 0xA7#8, 0x61#8, 0x58#8, 0xC2#8, 0xA7#8, 0x7a#8, 0x59#8, 0xC2#8, 0xA7#8]
    = [0x58#8, 0xC2#8, 0xA7#8, 0x7a#8, 0x59#8, 0xC2#8, 0xA7#8] := by decide +kernel

/-- upper-case codes and `§k` are removed too (the repaired behaviour): `§KA§lB` ↦ `AB` -/
example : transCtrlSeq false [0xC2#8, 0xA7#8, 0x4b#8, 0x41#8, 0xC2#8, 0xA7#8, 0x6c#8, 0x42#8] = .ok ([0x41#8, 0x42#8], false) := by
  decide +kernel

end GoMC.Props.C17
